package c13

import (
	"fmt"
	"testing"
	"unicode/utf8"

	"google.golang.org/protobuf/encoding/protojson"
	"google.golang.org/protobuf/encoding/prototext"
	"google.golang.org/protobuf/encoding/protowire"
	"google.golang.org/protobuf/proto"
	"google.golang.org/protobuf/reflect/protoreflect"
	"google.golang.org/protobuf/types/dynamicpb"
	"google.golang.org/protobuf/types/known/anypb"
	"google.golang.org/protobuf/zverif/pbt"
	"pgregory.net/rapid"

	_ "google.golang.org/protobuf/types/known/durationpb"
	_ "google.golang.org/protobuf/types/known/emptypb"
)

// google.protobuf.Any is read and written by hand-written code in both text and JSON, so its
// type_url (a proto3 string: always validated) is a position of its own that the generic
// position generator skips (Any is JSON-constrained there).

type anyURLCase struct {
	S       []byte // prefix of the URL (or all of it when Suffix is empty)
	Suffix  string // "" or "/<message full name>"
	Dynamic bool
}

func (c anyURLCase) url() string { return string(c.S) + c.Suffix }

func newAny(dynamic bool) proto.Message {
	if dynamic {
		return dynamicpb.NewMessage((&anypb.Any{}).ProtoReflect().Descriptor())
	}
	return &anypb.Any{}
}

func anyURLOf(m proto.Message) string {
	r := m.ProtoReflect()
	return r.Get(r.Descriptor().Fields().ByNumber(1)).String()
}

func octal(s string) string {
	var out []byte
	for i := 0; i < len(s); i++ {
		out = append(out, fmt.Sprintf("\\%03o", s[i])...)
	}
	return string(out)
}

func plainURL(s string) bool {
	for i := 0; i < len(s); i++ {
		b := s[i]
		if !(b == '.' || b == '/' || b == '-' || b == '_' || '0' <= b && b <= '9' || 'a' <= b && b <= 'z' || 'A' <= b && b <= 'Z') {
			return false
		}
	}
	return true
}

func jsonQuoteRaw(s string) string {
	out := []byte{'"'}
	for i := 0; i < len(s); i++ {
		switch b := s[i]; {
		case b == '"' || b == '\\':
			out = append(out, '\\', b)
		case b < 0x20:
			out = append(out, fmt.Sprintf("\\u%04x", b)...)
		default:
			out = append(out, b)
		}
	}
	return string(append(out, '"'))
}

func checkAnyURL(c anyURLCase) error {
	url := c.url()
	valid := utf8.ValidString(url)
	resolvable := c.Suffix == "/google.protobuf.Empty" || c.Suffix == "/google.protobuf.Duration"

	m := newAny(c.Dynamic)
	r := m.ProtoReflect()
	r.Set(r.Descriptor().Fields().ByNumber(1), protoreflect.ValueOfString(url))

	// binary
	if _, err := proto.Marshal(m); (err != nil) != !valid {
		return fmt.Errorf("proto.Marshal error=%v for Any.type_url %q (valid=%v)", err, url, valid)
	}
	var wire []byte
	if url != "" {
		wire = protowire.AppendString(protowire.AppendTag(nil, 1, protowire.BytesType), url)
	}
	for _, dyn := range []bool{false, true} {
		m2 := newAny(dyn)
		err := proto.Unmarshal(wire, m2)
		if (err != nil) != !valid {
			return fmt.Errorf("proto.Unmarshal(dynamic=%v) error=%v for Any.type_url %q (valid=%v)", dyn, err, url, valid)
		}
		if err == nil && anyURLOf(m2) != url {
			return fmt.Errorf("proto.Unmarshal changed type_url %q to %q", url, anyURLOf(m2))
		}
	}

	// text output
	tb, err := prototext.Marshal(m)
	if (err != nil) != !valid {
		return fmt.Errorf("prototext.Marshal error=%v for Any.type_url %q (valid=%v)", err, url, valid)
	}
	if err == nil {
		m3 := newAny(c.Dynamic)
		if err := prototext.Unmarshal(tb, m3); err != nil {
			return fmt.Errorf("prototext.Unmarshal of Marshal output failed: %v\n%s", err, tb)
		}
		if !proto.Equal(m, m3) {
			return fmt.Errorf("text round trip changed the Any: %q -> %q\n%s", url, anyURLOf(m3), tb)
		}
	}

	// text documents: escaped literal (exact verdict), raw literal, expanded form
	docs := []struct {
		name, doc string
		exact     bool // a valid URL must be accepted unchanged
	}{
		{"escaped literal", `type_url: "` + octal(url) + `"`, true},
		{"escaped literal after value", `value: "" type_url: "` + octal(url) + `"`, true},
	}
	if safeForDocs([]byte(url)) {
		docs = append(docs, struct {
			name, doc string
			exact     bool
		}{"raw literal", `type_url: "` + url + `"`, true})
	}
	if resolvable {
		// which characters the bracketed form admits is the text grammar's business (C24);
		// here: never a stored invalid string, and an accepted URL is stored unchanged
		docs = append(docs, struct {
			name, doc string
			exact     bool
		}{"expanded form", "[" + url + "] {}", false})
	}
	for _, d := range docs {
		m4 := newAny(c.Dynamic)
		err := prototext.Unmarshal([]byte(d.doc), m4)
		// (bracketed form: white space and #-comments between the brackets are not part of the URL,
		// so the demand there is on what is stored, below)
		if !valid && err == nil && d.exact {
			return fmt.Errorf("prototext.Unmarshal accepted invalid UTF-8 in Any.type_url (%s): %q stored %q", d.name, d.doc, anyURLOf(m4))
		}
		if valid && d.exact && err != nil {
			return fmt.Errorf("prototext.Unmarshal refused a valid type_url (%s) %q: %v", d.name, d.doc, err)
		}
		if err == nil && !utf8.ValidString(anyURLOf(m4)) {
			return fmt.Errorf("prototext.Unmarshal (%s) of %q stored the invalid type_url %q", d.name, d.doc, anyURLOf(m4))
		}
		// inside brackets the grammar drops white space and comments: exact storage is demanded of
		// literals, and of bracketed URLs made of plain name characters
		if err == nil && anyURLOf(m4) != url && (d.exact || plainURL(url)) {
			return fmt.Errorf("prototext.Unmarshal (%s) of %q stored type_url %q, want %q", d.name, d.doc, anyURLOf(m4), url)
		}
	}

	// JSON: output never carries invalid UTF-8; a document with the raw bytes is refused
	jb, jerr := protojson.Marshal(m)
	if !valid && jerr == nil {
		return fmt.Errorf("protojson.Marshal accepted Any.type_url %q: %s", url, jb)
	}
	if jerr == nil && !utf8.Valid(jb) {
		return fmt.Errorf("protojson.Marshal emitted invalid UTF-8")
	}
	m5 := newAny(c.Dynamic)
	err = protojson.Unmarshal([]byte(`{"@type": `+jsonQuoteRaw(url)+`}`), m5)
	if !valid && err == nil {
		return fmt.Errorf("protojson.Unmarshal accepted invalid UTF-8 in @type %q, stored %q", url, anyURLOf(m5))
	}
	if err == nil && anyURLOf(m5) != url {
		return fmt.Errorf("protojson.Unmarshal stored type_url %q, want %q", anyURLOf(m5), url)
	}
	return nil
}

func TestAnyTypeURL(t *testing.T) {
	pbt.Run(t, pbt.Prop[anyURLCase]{
		Name: "any-type-url",
		Rule: "google.protobuf.Any (generated and dynamicpb) whose type_url is a byte string from the same fault pool as the other positions, alone or followed by /<registered name> or /<unknown name>; through binary Marshal/Unmarshal, text Marshal, text documents (octal-escaped literal, literal after a value field, raw literal, expanded [url] {} form) and JSON Marshal/@type documents. non-trivial = invalid UTF-8",
		Draw: func(t *rapid.T) anyURLCase {
			var c anyURLCase
			if rapid.IntRange(0, 3).Draw(t, "host") == 0 {
				c.S = []byte(rapid.SampledFrom([]string{"type.googleapis.com", "a.b/c", "x", ""}).Draw(t, "prefix"))
			} else {
				c.S = drawS(t)
			}
			c.Suffix = rapid.SampledFrom([]string{"", "/google.protobuf.Empty", "/google.protobuf.Duration", "/zverif.NoSuchType"}).Draw(t, "suffix")
			c.Dynamic = rapid.Bool().Draw(t, "dyn")
			return c
		},
		Check:      checkAnyURL,
		NonTrivial: func(c anyURLCase) bool { return !utf8.ValidString(c.url()) },
		Classes: func(c anyURLCase) []string {
			return []string{fmt.Sprintf("any-valid-%v-suffix-%q", utf8.ValidString(c.url()), c.Suffix)}
		},
		Quick: 3000, Thorough: 60000,
	})
}

// Fixed witness of the repaired finding: replayed on every run, a violation if it ever returns.
func TestKnownFindings(t *testing.T) {
	if pbt.ReplayPath != "" {
		t.Skip()
	}
	for _, doc := range []string{`type_url: "\200"`, `value: "" type_url: "a\377/google.protobuf.Empty"`} {
		for _, dyn := range []bool{false, true} {
			m := newAny(dyn)
			err := prototext.Unmarshal([]byte(doc), m)
			pbt.Witness(t, "KF-text-any-typeurl-utf8", err == nil, fmt.Sprintf("prototext.Unmarshal(%q) into Any (dynamic=%v) stores type_url %q", doc, dyn, anyURLOf(m)))
		}
	}
}
