package c13

import (
	"bytes"
	"strings"
	"fmt"
	"testing"
	"unicode/utf8"

	"google.golang.org/protobuf/encoding/protojson"
	"google.golang.org/protobuf/encoding/prototext"
	"google.golang.org/protobuf/internal/impl"
	"google.golang.org/protobuf/proto"
	"google.golang.org/protobuf/reflect/protoreflect"
	piface "google.golang.org/protobuf/runtime/protoiface"
	"google.golang.org/protobuf/types/descriptorpb"
	"google.golang.org/protobuf/zverif/corpus"
	"google.golang.org/protobuf/zverif/gen"
	"google.golang.org/protobuf/zverif/mcase"
	"google.golang.org/protobuf/zverif/model"
	"google.golang.org/protobuf/zverif/pbt"
	"pgregory.net/rapid"
)

const marker = "ZQXMARKERQZ"

type utfCase struct {
	mcase.Case        // M holds `marker` at exactly one string/bytes position
	S          []byte // the bytes to place there
	Position   string // description of the position (field full name + shape)
	Lazy       bool
}

// ---- own resolver for utf8_validation -------------------------------------------------------

func featUTF8(fs *descriptorpb.FeatureSet) (bool, bool) {
	if fs == nil || fs.Utf8Validation == nil {
		return false, false
	}
	return fs.GetUtf8Validation() == descriptorpb.FeatureSet_VERIFY, true
}

// enforced: proto3 -> yes; proto2 -> no; editions -> nearest explicit utf8_validation on the
// chain field -> enclosing messages -> file, else the edition default (VERIFY in 2023 and 2024).
// Fields of a synthesised map entry take the map field's place in the chain.
func enforced(fd protoreflect.FieldDescriptor) bool {
	if fd.Kind() != protoreflect.StringKind {
		return false
	}
	file := fd.ParentFile()
	if file == nil {
		// declarations of historical generated code (legacy extension descriptors) have no file:
		// they are proto2 or proto3 by construction, never editions
		return fd.Syntax() == protoreflect.Proto3
	}
	switch file.Syntax() {
	case protoreflect.Proto2:
		return false
	case protoreflect.Proto3:
		return true
	}
	var parent protoreflect.Descriptor = fd.Parent()
	if md, ok := parent.(protoreflect.MessageDescriptor); ok && md.IsMapEntry() && !fd.IsExtension() {
		// find the map field that owns this entry
		owner := md.Parent()
		var fields protoreflect.FieldDescriptors
		if om, ok := owner.(protoreflect.MessageDescriptor); ok {
			fields = om.Fields()
		}
		for i := 0; fields != nil && i < fields.Len(); i++ {
			if fields.Get(i).IsMap() && fields.Get(i).Message() == md {
				return enforcedChain(fields.Get(i), fields.Get(i).Parent())
			}
		}
	}
	return enforcedChain(fd, parent)
}

func enforcedChain(fd protoreflect.FieldDescriptor, parent protoreflect.Descriptor) bool {
	if o, ok := fd.Options().(*descriptorpb.FieldOptions); ok && o != nil {
		if v, set := featUTF8(o.GetFeatures()); set {
			return v
		}
	}
	for d := parent; d != nil; d = d.Parent() {
		switch x := d.(type) {
		case protoreflect.MessageDescriptor:
			if o, ok := x.Options().(*descriptorpb.MessageOptions); ok && o != nil {
				if v, set := featUTF8(o.GetFeatures()); set {
					return v
				}
			}
		case protoreflect.FileDescriptor:
			if o, ok := x.Options().(*descriptorpb.FileOptions); ok && o != nil {
				if v, set := featUTF8(o.GetFeatures()); set {
					return v
				}
			}
			return true // edition default: VERIFY
		}
	}
	return true
}

// ---- locating / replacing the marked position ---------------------------------------------------

// locate returns the field descriptor of the position holding marker, and whether it is a map key.
func locate(md protoreflect.MessageDescriptor, v *model.Msg) (protoreflect.FieldDescriptor, string) {
	for _, f := range v.Fields {
		fd := model.FieldDesc(md, f.Num, nil)
		if fd == nil {
			continue
		}
		if fd.IsMap() {
			for i := range f.Keys {
				if string(f.Keys[i].B) == marker {
					return fd.MapKey(), "mapkey"
				}
				if fd.MapValue().Message() == nil && string(f.Vals[i].B) == marker {
					return fd.MapValue(), "mapvalue"
				}
				if fd.MapValue().Message() != nil {
					if r, s := locate(fd.MapValue().Message(), f.Vals[i].M); r != nil {
						return r, "mapmsg>" + s
					}
				}
			}
			continue
		}
		for _, x := range f.Vals {
			if fd.Message() != nil {
				if r, s := locate(fd.Message(), x.M); r != nil {
					return r, "nested>" + s
				}
			} else if string(x.B) == marker {
				switch {
				case fd.IsExtension():
					return fd, "extension"
				case fd.IsList():
					return fd, "repeated"
				case fd.ContainingOneof() != nil && !fd.ContainingOneof().IsSynthetic():
					return fd, "oneof"
				}
				return fd, "singular"
			}
		}
	}
	return nil, ""
}

func replace(v *model.Msg, s []byte) *model.Msg {
	o := v.Clone()
	var walk func(m *model.Msg)
	walk = func(m *model.Msg) {
		if m == nil {
			return
		}
		for i := range m.Fields {
			f := &m.Fields[i]
			for j := range f.Keys {
				if string(f.Keys[j].B) == marker {
					f.Keys[j].B = append([]byte(nil), s...)
				}
			}
			for j := range f.Vals {
				if string(f.Vals[j].B) == marker {
					f.Vals[j].B = append([]byte(nil), s...)
				}
				walk(f.Vals[j].M)
			}
		}
	}
	walk(o)
	return o
}

func safeForDocs(s []byte) bool {
	for _, c := range s {
		if c < 0x20 || c == '"' || c == '\\' || c == '\'' || c == 0x7f {
			return false
		}
	}
	return true
}

var eq = model.EqualOpts{BitwiseFloats: true}

func checkUTF8(c utfCase) error {
	md := c.Desc()
	fd, _ := locate(md, c.M)
	if fd == nil {
		return fmt.Errorf("harness: marker position not found")
	}
	isString := fd.Kind() == protoreflect.StringKind
	must := enforced(fd)
	if isString && must != gen.EnforcesUTF8(fd) {
		return fmt.Errorf("field %s: descriptor says EnforceUTF8=%v, own resolver (syntax/editions utf8_validation chain) says %v", fd.FullName(), gen.EnforcesUTF8(fd), must)
	}
	valid := utf8.Valid(c.S)
	bad := must && !valid
	val := model.Normalize(md, replace(c.M, c.S), nil)
	m := mcase.New(c.Type, c.Dynamic)
	if err := model.Apply(m, val, nil); err != nil {
		return err
	}
	mo := proto.MarshalOptions{AllowPartial: true}
	uo := proto.UnmarshalOptions{AllowPartial: true, NoLazyDecoding: !c.Lazy}
	// binary Marshal
	_, err := mo.Marshal(m.Interface())
	if (err != nil) != bad {
		return fmt.Errorf("proto.Marshal error=%v, want failure=%v (field %s enforced=%v, value %q valid=%v)", err, bad, fd.FullName(), must, c.S, valid)
	}
	for _, o := range []proto.MarshalOptions{{AllowPartial: true, Deterministic: true}, {Deterministic: true}, {}} {
		_, derr := o.Marshal(m.Interface())
		if derr != nil && !bad && (o.AllowPartial || !strings.Contains(derr.Error(), "required")) {
			return fmt.Errorf("proto.Marshal(%+v) failed on acceptable content: %v", o, derr)
		}
		if derr == nil && bad {
			return fmt.Errorf("proto.Marshal(deterministic=%v allowpartial=%v) accepted invalid UTF-8 %q in enforced field %s", o.Deterministic, o.AllowPartial, c.S, fd.FullName())
		}
	}
	if _, serr := (proto.MarshalOptions{AllowPartial: true, Deterministic: true}).MarshalAppend(make([]byte, 0, 64), m.Interface()); (serr != nil) != bad {
		return fmt.Errorf("MarshalAppend(deterministic) error=%v, want failure=%v", serr, bad)
	}
	// binary Unmarshal from the reference encoding
	wire := model.Encode(md, val, nil, model.EncOpts{}, nil)
	for _, dyn := range []bool{false, true} {
		m2 := mcase.New(c.Type, dyn)
		err = uo.Unmarshal(wire, m2.Interface())
		if (err != nil) != bad {
			return fmt.Errorf("proto.Unmarshal(dynamic=%v lazy=%v) error=%v, want failure=%v (field %s enforced=%v, value %q)", dyn, c.Lazy, err, bad, fd.FullName(), must, c.S)
		}
		if err == nil {
			if d := model.Diff(md, val, model.Snapshot(m2), eq, nil); d != "" {
				return fmt.Errorf("binary decode changed content: %s", d)
			}
			// arbitrary bytes pass through the binary codec unchanged
			rb, err := mo.Marshal(m2.Interface())
			if err != nil {
				return fmt.Errorf("re-Marshal failed: %v", err)
			}
			m3 := mcase.New(c.Type, dyn)
			if err := uo.Unmarshal(rb, m3.Interface()); err != nil {
				return fmt.Errorf("re-Unmarshal failed: %v", err)
			}
			if d := model.Diff(md, val, model.Snapshot(m3), eq, nil); d != "" {
				return fmt.Errorf("binary round trip changed content: %s", d)
			}
		}
	}
	if mi, ok := corpus.ByName(c.Type).(*impl.MessageInfo); ok {
		_, st := impl.Validate(mi, piface.UnmarshalInput{Buf: wire})
		if bad && st == impl.ValidationValid || !bad && st == impl.ValidationInvalid {
			return fmt.Errorf("Validate status %v, want failure=%v (field %s, value %q)", st, bad, fd.FullName(), c.S)
		}
	}
	// text Marshal / round trip
	tb, err := prototext.MarshalOptions{AllowPartial: true}.Marshal(m.Interface())
	if (err != nil) != bad {
		return fmt.Errorf("prototext.Marshal error=%v, want failure=%v (field %s enforced=%v, value %q)", err, bad, fd.FullName(), must, c.S)
	}
	if err == nil {
		m4 := mcase.New(c.Type, c.Dynamic)
		if err := (prototext.UnmarshalOptions{AllowPartial: true}).Unmarshal(tb, m4.Interface()); err != nil {
			return fmt.Errorf("prototext.Unmarshal of Marshal output failed: %v\n%s", err, tb)
		}
		want := stripUnknown(val)
		if d := model.Diff(md, want, model.Snapshot(m4), eq, nil); d != "" {
			return fmt.Errorf("text round trip changed content: %s", d)
		}
	}
	// JSON Marshal: invalid UTF-8 in any string (validated or not) cannot be emitted
	jb, err := protojson.MarshalOptions{AllowPartial: true}.Marshal(m.Interface())
	if isString {
		if (err != nil) != !valid {
			return fmt.Errorf("protojson.Marshal error=%v with string value %q (valid=%v) in %s", err, c.S, valid, fd.FullName())
		}
	} else if err != nil {
		return fmt.Errorf("protojson.Marshal failed for bytes content: %v", err)
	}
	if err == nil && !utf8.Valid(jb) {
		return fmt.Errorf("protojson.Marshal emitted invalid UTF-8")
	}
	// document injection: a text/JSON document naming the raw bytes
	if isString && safeForDocs(c.S) {
		base := mcase.New(c.Type, c.Dynamic)
		if err := model.Apply(base, c.M, nil); err != nil {
			return err
		}
		if jdoc, err := (protojson.MarshalOptions{AllowPartial: true}).Marshal(base.Interface()); err == nil && bytes.Count(jdoc, []byte(marker)) == 1 {
			doc := bytes.Replace(jdoc, []byte(marker), c.S, 1)
			m5 := mcase.New(c.Type, c.Dynamic)
			err := (protojson.UnmarshalOptions{AllowPartial: true}).Unmarshal(doc, m5.Interface())
			// JSON text itself must be valid UTF-8, so any invalid sequence is rejected, validated field or not
			if (err != nil) != !valid {
				return fmt.Errorf("protojson.Unmarshal error=%v for a document holding %q (valid=%v) in %s", err, c.S, valid, fd.FullName())
			}
		}
		if tdoc, err := (prototext.MarshalOptions{AllowPartial: true}).Marshal(base.Interface()); err == nil && bytes.Count(tdoc, []byte(marker)) == 1 {
			doc := bytes.Replace(tdoc, []byte(marker), c.S, 1)
			m6 := mcase.New(c.Type, c.Dynamic)
			err := (prototext.UnmarshalOptions{AllowPartial: true}).Unmarshal(doc, m6.Interface())
			// raw (unescaped) invalid bytes inside a literal of a non-validated field: the text
			// grammar leaves that unspecified, so no verdict there
			if valid && err != nil || bad && err == nil {
				return fmt.Errorf("prototext.Unmarshal error=%v, want failure=%v for a document holding raw %q in %s (enforced=%v)", err, bad, c.S, fd.FullName(), must)
			}
			if err == nil && valid {
				if d := model.Diff(md, stripUnknown(val), model.Snapshot(m6), eq, nil); d != "" {
					return fmt.Errorf("text document decode changed content: %s", d)
				}
			}
		}
	}
	// the same document with every byte of the value written as an octal escape: escapes are the
	// only way a text literal can carry bytes the tokenizer would not accept raw, so the verdict is
	// exact here (string and bytes positions alike; the hand-written Any reader included)
	{
		base := mcase.New(c.Type, c.Dynamic)
		if err := model.Apply(base, c.M, nil); err != nil {
			return err
		}
		if tdoc, err := (prototext.MarshalOptions{AllowPartial: true}).Marshal(base.Interface()); err == nil && bytes.Count(tdoc, []byte(marker)) == 1 {
			var esc []byte
			for _, b := range c.S {
				esc = append(esc, fmt.Sprintf("\\%03o", b)...)
			}
			doc := bytes.Replace(tdoc, []byte(marker), esc, 1)
			m7 := mcase.New(c.Type, c.Dynamic)
			err := (prototext.UnmarshalOptions{AllowPartial: true}).Unmarshal(doc, m7.Interface())
			if (err != nil) != bad {
				return fmt.Errorf("prototext.Unmarshal error=%v, want failure=%v for a document holding escaped %q in %s (enforced=%v)\n%s", err, bad, c.S, fd.FullName(), must, doc)
			}
			if err == nil {
				if d := model.Diff(md, stripUnknown(val), model.Snapshot(m7), eq, nil); d != "" {
					return fmt.Errorf("text document (escaped literal) decode changed content: %s", d)
				}
			}
		}
	}
	return nil
}

func stripUnknown(v *model.Msg) *model.Msg {
	if v == nil {
		return nil
	}
	o := &model.Msg{}
	for _, f := range v.Fields {
		g := model.Field{Num: f.Num, Keys: f.Keys}
		for _, x := range f.Vals {
			g.Vals = append(g.Vals, model.Val{U: x.U, B: x.B, M: stripUnknown(x.M)})
		}
		o.Fields = append(o.Fields, g)
	}
	return o
}

// ---- generation -----------------------------------------------------------------------------

type pos struct {
	fd   protoreflect.FieldDescriptor
	path []protoreflect.FieldDescriptor // message fields to walk through
}

// positions lists string/bytes positions reachable from md within depth levels.
func positions(md protoreflect.MessageDescriptor, depth int, path []protoreflect.FieldDescriptor, out *[]pos) {
	var fds []protoreflect.FieldDescriptor
	fs := md.Fields()
	for i := 0; i < fs.Len(); i++ {
		fds = append(fds, fs.Get(i))
	}
	if md.ExtensionRanges().Len() > 0 {
		// registered extensions of the message are positions like any other field
		for _, xt := range model.ExtensionsOf(md.FullName()) {
			fds = append(fds, xt.TypeDescriptor())
		}
	}
	for _, fd := range fds {
		if gen.SkipConstrainedJSON(fd) {
			continue
		}
		leaf := fd
		isStr := func(d protoreflect.FieldDescriptor) bool {
			return d.Kind() == protoreflect.StringKind || d.Kind() == protoreflect.BytesKind
		}
		switch {
		case fd.IsMap():
			if isStr(fd.MapKey()) || isStr(fd.MapValue()) {
				*out = append(*out, pos{fd: leaf, path: path})
			}
			if sub := fd.MapValue().Message(); sub != nil && depth > 0 {
				positions(sub, depth-1, append(append([]protoreflect.FieldDescriptor(nil), path...), fd), out)
			}
		case fd.Message() != nil:
			if depth > 0 {
				positions(fd.Message(), depth-1, append(append([]protoreflect.FieldDescriptor(nil), path...), fd), out)
			}
		case isStr(fd):
			*out = append(*out, pos{fd: leaf, path: path})
		}
	}
}

var (
	posCache = map[string][]pos{}
	strTypes = func() []string {
		var out []string
		for _, n := range corpus.Standard() {
			if gen.ConstrainedJSON[protoreflect.FullName(n)] {
				continue
			}
			var ps []pos
			positions(corpus.ByName(n).Descriptor(), 2, nil, &ps)
			if len(ps) > 0 {
				posCache[n] = ps
				out = append(out, n)
			}
		}
		return out
	}()
	strRich = func() []string {
		var out []string
		for _, n := range strTypes {
			if len(posCache[n]) >= 8 {
				out = append(out, n)
			}
		}
		return out
	}()
)

// types that have a UTF-8 validated string extension within reach, and those positions
var extTypes, extPos = func() ([]string, map[string][]pos) {
	m := map[string][]pos{}
	var out []string
	for _, n := range strTypes {
		for _, p := range posCache[n] {
			if p.fd.IsExtension() && p.fd.Kind() == protoreflect.StringKind && enforced(p.fd) {
				m[n] = append(m[n], p)
			}
		}
		if len(m[n]) > 0 {
			out = append(out, n)
		}
	}
	return out, m
}()

// place writes a marker-bearing field for position p into v (creating the path).
func place(t *rapid.T, v *model.Msg, p pos, mo gen.MsgOpts) bool {
	cur := v
	for _, step := range p.path {
		f := cur.Get(int32(step.Number()))
		if od := step.ContainingOneof(); od != nil && f == nil {
			for i := 0; i < od.Fields().Len(); i++ {
				cur.Del(int32(od.Fields().Get(i).Number()))
			}
		}
		if f == nil {
			nf := model.Field{Num: int32(step.Number()), Vals: []model.Val{{M: &model.Msg{}}}}
			if step.IsMap() {
				k := model.Val{}
				if step.MapKey().Kind() == protoreflect.StringKind {
					k = model.Val{B: []byte("k")}
				}
				nf.Keys = []model.Val{k}
			}
			if sub := step.Message(); step.IsMap() {
				sub = step.MapValue().Message()
				_ = sub
			}
			cur.Put(nf)
			f = cur.Get(int32(step.Number()))
		}
		if f.Vals[0].M == nil {
			f.Vals[0].M = &model.Msg{}
		}
		cur = f.Vals[0].M
	}
	fd := p.fd
	if od := fd.ContainingOneof(); od != nil {
		for i := 0; i < od.Fields().Len(); i++ {
			cur.Del(int32(od.Fields().Get(i).Number()))
		}
	}
	nf := model.Field{Num: int32(fd.Number())}
	mk := model.Val{B: []byte(marker)}
	isStr := func(d protoreflect.FieldDescriptor) bool {
		return d.Kind() == protoreflect.StringKind || d.Kind() == protoreflect.BytesKind
	}
	switch {
	case fd.IsMap():
		keyStr, valStr := isStr(fd.MapKey()), isStr(fd.MapValue())
		useKey := keyStr && (!valStr || rapid.Bool().Draw(t, "markkey"))
		var k, x model.Val
		if useKey {
			k = mk
			if fd.MapValue().Message() != nil {
				x = model.Val{M: &model.Msg{}}
			} else if valStr {
				x = model.Val{B: []byte("v")}
			} else {
				x = model.Val{U: 1}
			}
		} else {
			x = mk
			if keyStr {
				k = model.Val{B: []byte("key")}
			} else {
				k = model.Val{U: 1}
			}
		}
		// a second, ordinary entry before it
		if rapid.Bool().Draw(t, "extraentry") {
			ek, ex := k, x
			if useKey {
				ek = model.Val{B: []byte("other")}
			} else if keyStr {
				ek = model.Val{B: []byte("other")}
				ex = model.Val{B: []byte("plain")}
			} else {
				ek = model.Val{U: 0}
				ex = model.Val{B: []byte("plain")}
			}
			nf.Keys = append(nf.Keys, ek)
			nf.Vals = append(nf.Vals, ex)
		}
		nf.Keys = append(nf.Keys, k)
		nf.Vals = append(nf.Vals, x)
	case fd.IsList():
		n := rapid.IntRange(0, 2).Draw(t, "before")
		for i := 0; i < n; i++ {
			nf.Vals = append(nf.Vals, model.Val{B: []byte("plain")})
		}
		nf.Vals = append(nf.Vals, mk)
		if rapid.Bool().Draw(t, "after") {
			nf.Vals = append(nf.Vals, model.Val{B: []byte("tail")})
		}
	default:
		nf.Vals = []model.Val{mk}
	}
	cur.Put(nf)
	if fd.IsExtension() {
		// neighbours: other extensions of the same message, below and above the marked one (an
		// encoder walks extensions in number order; an error raised for one must survive the rest)
		xs := model.ExtensionsOf(fd.ContainingMessage().FullName())
		for k := rapid.IntRange(0, 2).Draw(t, "ext-neighbours"); k > 0 && len(xs) > 1; k-- {
			xd := xs[rapid.IntRange(0, len(xs)-1).Draw(t, "ext-neighbour")].TypeDescriptor()
			if xd.Number() == fd.Number() || cur.Get(int32(xd.Number())) != nil || gen.SkipConstrainedJSON(xd) {
				continue
			}
			if f, ok := gen.DrawField(t, xd, mo); ok {
				cur.Put(f)
			}
		}
	}
	return true
}

func drawS(t *rapid.T) []byte {
	switch rapid.IntRange(0, 3).Draw(t, "sclass") {
	case 0:
		return []byte(gen.ValidString(40).Draw(t, "valid"))
	case 1: // invalid fragment not at offset 0
		return []byte(rapid.StringMatching("[a-z ]{1,6}").Draw(t, "pre") + rapid.SampledFrom(gen.InvalidUTF8).Draw(t, "bad") + rapid.StringMatching("[a-zé€😀]{0,4}").Draw(t, "post"))
	case 2:
		return []byte(rapid.SampledFrom(gen.InvalidUTF8).Draw(t, "bad"))
	default:
		return rapid.SliceOfN(rapid.Byte(), 0, 8).Draw(t, "raw")
	}
}

func TestUTF8(t *testing.T) {
	mo := gen.DefaultMsgOpts
	mo.ValidUTF8 = true
	mo.MaxFields = 3
	mo.SkipField = gen.SkipConstrainedJSON
	pbt.Run(t, pbt.Prop[utfCase]{
		Name: "utf8",
		Rule: "types with a string/bytes position within two levels; a generated (valid-UTF-8) message plus one marked position chosen among all positions of the type (singular, repeated with neighbours, oneof, map key, map value, nested, in map-of-message values); the value is valid text, a fault-pool fragment alone or spliced into text, or raw bytes. non-trivial = invalid bytes not at offset 0 or in a non-singular position",
		Draw: func(t *rapid.T) utfCase {
			var c utfCase
			c.Type = gen.TypeName(strTypes, strRich).Draw(t, "type")
			// validated string extensions exist on a handful of types only (proto3 extensions of the
			// descriptor options, editions extensions with VERIFY): give them a fixed share
			forceExt := len(extTypes) > 0 && rapid.IntRange(0, 11).Draw(t, "validated-extension") == 0
			if forceExt {
				c.Type = extTypes[rapid.IntRange(0, len(extTypes)-1).Draw(t, "ext-type")]
			}
			c.Dynamic = rapid.IntRange(0, 3).Draw(t, "dyn") == 0
			md := c.Desc()
			c.M = gen.DrawMessage(t, md, mo)
			ps := posCache[c.Type]
			if forceExt {
				ps = extPos[c.Type]
			}
			p := ps[rapid.IntRange(0, len(ps)-1).Draw(t, "position")]
			place(t, c.M, p, mo)
			c.S = drawS(t)
			c.Lazy = rapid.Bool().Draw(t, "lazy")
			_, c.Position = locate(md, c.M)
			return c
		},
		Check: checkUTF8,
		NonTrivial: func(c utfCase) bool {
			if utf8.Valid(c.S) {
				return false
			}
			r, size := utf8.DecodeRune(c.S)
			firstBad := r == utf8.RuneError && size <= 1
			return !firstBad || c.Position != "singular"
		},
		Classes: func(c utfCase) []string {
			fd, _ := locate(c.Desc(), c.M)
			cl := []string{"pos-" + c.Position, fmt.Sprintf("valid-%v", utf8.Valid(c.S))}
			if fd != nil {
				cl = append(cl, fmt.Sprintf("kind-%v-enforced-%v-%v", fd.Kind(), enforced(fd), fd.Syntax()))
			}
			return cl
		},
		Quick: 8000, Thorough: 200000,
	})
}
