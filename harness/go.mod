module google.golang.org/protobuf/zverif

go 1.23

require (
	google.golang.org/protobuf v0.0.0
	pgregory.net/rapid v1.3.0
	github.com/google/go-cmp v0.7.0
)

replace google.golang.org/protobuf => /repo
