package c08

import (
	"bytes"
	"encoding/json"
	"fmt"
	"sync"
	"testing"

	"google.golang.org/protobuf/proto"
	"google.golang.org/protobuf/zverif/corpus"
	"google.golang.org/protobuf/zverif/gen"
	"google.golang.org/protobuf/zverif/mcase"
	"google.golang.org/protobuf/zverif/model"
	"google.golang.org/protobuf/zverif/pbt"
	"pgregory.net/rapid"
)

type diffCase struct {
	Type   string
	A, B   []byte // two inputs (B used for Equal / Merge)
	Source string
}

// obs is what one implementation observes.
type obs struct {
	OkA, OkB bool
	SnapA    *model.Msg `json:",omitempty"`
	Size     int
	Det      []byte
	Init     bool
	Equal    bool
	EqualBA  bool
	MergeDet []byte
	CloneDet []byte
	SelfEq   bool
}

func observe(typ string, dyn bool, a, b []byte) (o obs, err error) {
	uo := proto.UnmarshalOptions{AllowPartial: true}
	det := proto.MarshalOptions{Deterministic: true, AllowPartial: true}
	ma, mb := mcase.New(typ, dyn), mcase.New(typ, dyn)
	o.OkA = uo.Unmarshal(a, ma.Interface()) == nil
	o.OkB = uo.Unmarshal(b, mb.Interface()) == nil
	if !o.OkA {
		return o, nil
	}
	o.SnapA = model.Snapshot(ma)
	o.Size = det.Size(ma.Interface())
	if o.Det, err = det.Marshal(ma.Interface()); err != nil {
		return o, fmt.Errorf("deterministic Marshal: %v", err)
	}
	o.Init = proto.CheckInitialized(ma.Interface()) == nil
	cl := proto.Clone(ma.Interface())
	o.CloneDet, _ = det.Marshal(cl)
	o.SelfEq = proto.Equal(ma.Interface(), cl)
	if o.OkB {
		o.Equal = proto.Equal(ma.Interface(), mb.Interface())
		o.EqualBA = proto.Equal(mb.Interface(), ma.Interface())
		proto.Merge(cl, mb.Interface())
		o.MergeDet, _ = det.Marshal(cl)
	}
	return o, nil
}

type peerReq struct {
	Type string
	A, B []byte
}

func TestPeerServer(t *testing.T) {
	pbt.ServePeer(t, func(raw json.RawMessage) (any, error) {
		var r peerReq
		if err := json.Unmarshal(raw, &r); err != nil {
			return nil, err
		}
		return observe(r.Type, false, r.A, r.B)
	})
}

var (
	peerOnce sync.Once
	peer     *pbt.PeerConn
	peerErr  error
)

func compare(md string, what string, x, y obs) error {
	d := mcase.Desc(md)
	if x.OkA != y.OkA || x.OkB != y.OkB {
		return fmt.Errorf("%s: Unmarshal verdicts differ: (%v,%v) vs (%v,%v)", what, x.OkA, x.OkB, y.OkA, y.OkB)
	}
	if !x.OkA {
		return nil
	}
	ig := !gen.TreePreservesUnknown(d)
	if df := model.Diff(d, x.SnapA, y.SnapA, model.EqualOpts{BitwiseFloats: true, IgnoreUnknown: ig}, nil); df != "" {
		return fmt.Errorf("%s: decoded messages differ: %s", what, df)
	}
	if ig {
		return nil // historical generated code that drops unknown fields: bytes legitimately differ
	}
	nx, ny := model.NormalizeDeep(d, x.Det, nil), model.NormalizeDeep(d, y.Det, nil)
	if !bytes.Equal(nx, ny) && onlyQuietBit(nx, ny) && pbt.ExcludeKnown("KF-reflection-float32-snan-quieted") {
		return nil
	}
	if !bytes.Equal(nx, ny) {
		return fmt.Errorf("%s: deterministic bytes differ (after unknown-tag normalisation):\n %x\n %x", what, nx, ny)
	}
	if len(nx) == len(x.Det) && len(ny) == len(y.Det) && x.Size != y.Size {
		return fmt.Errorf("%s: Size differs: %d vs %d", what, x.Size, y.Size)
	}
	if x.Init != y.Init {
		return fmt.Errorf("%s: CheckInitialized verdicts differ: %v vs %v", what, x.Init, y.Init)
	}
	if !x.SelfEq || !y.SelfEq {
		return fmt.Errorf("%s: Equal(m, Clone(m)) = %v / %v", what, x.SelfEq, y.SelfEq)
	}
	if cx, cy := model.NormalizeDeep(d, x.CloneDet, nil), model.NormalizeDeep(d, y.CloneDet, nil); !bytes.Equal(cx, cy) {
		if !(onlyQuietBit(cx, cy) && pbt.ExcludeKnown("KF-reflection-float32-snan-quieted")) {
			return fmt.Errorf("%s: Clone results differ", what)
		}
	}
	if x.OkB {
		if x.Equal != y.Equal || x.EqualBA != y.EqualBA {
			return fmt.Errorf("%s: Equal results differ: %v/%v vs %v/%v", what, x.Equal, x.EqualBA, y.Equal, y.EqualBA)
		}
		if x.Equal != x.EqualBA {
			return fmt.Errorf("%s: Equal not symmetric", what)
		}
		if mx, my := model.NormalizeDeep(d, x.MergeDet, nil), model.NormalizeDeep(d, y.MergeDet, nil); !bytes.Equal(mx, my) {
			if !(onlyQuietBit(mx, my) && pbt.ExcludeKnown("KF-reflection-float32-snan-quieted")) {
				return fmt.Errorf("%s: Merge results differ:\n %x\n %x", what, x.MergeDet, y.MergeDet)
			}
		}
	}
	return nil
}

func checkDiff(c diffCase) error {
	fast, err := observe(c.Type, false, c.A, c.B)
	if err != nil {
		return fmt.Errorf("fast path: %v", err)
	}
	dyn, err := observe(c.Type, true, c.A, c.B)
	if err != nil {
		return fmt.Errorf("dynamicpb: %v", err)
	}
	if err := compare(c.Type, "generated (fast path) vs dynamicpb", fast, dyn); err != nil {
		return err
	}
	peerOnce.Do(func() {
		bin := pbt.PeerBinary("REFLECT")
		if bin == "" {
			peerErr = fmt.Errorf("VERIF_PEER_REFLECT not set (run through ./verif)")
			return
		}
		peer, peerErr = pbt.StartPeer(bin)
	})
	if peerErr != nil {
		return fmt.Errorf("harness: %v", peerErr)
	}
	var refl obs
	if err := peer.Call(peerReq{Type: c.Type, A: c.A, B: c.B}, &refl); err != nil {
		return fmt.Errorf("protoreflect build: %v", err)
	}
	return compare(c.Type, "default build vs -tags protoreflect build (generated type)", fast, refl)
}

var types, rich = corpus.Standard(), corpus.Rich(20)

func drawInput(t *rapid.T, typ string, base *model.Msg) ([]byte, *model.Msg, string) {
	md := mcase.Desc(typ)
	var v *model.Msg
	if base != nil && rapid.Bool().Draw(t, "derive") {
		v = gen.DrawColliding(t, md, base, gen.DefaultMsgOpts)
	} else {
		v = gen.DrawMessage(t, md, gen.DefaultMsgOpts)
	}
	enc := model.Encode(md, v, gen.RapidChooser{T: t}, model.AllPerturbations, nil)
	switch rapid.IntRange(0, 5).Draw(t, "inputkind") {
	case 0:
		b, k := gen.MutateDeep(t, enc)
		return b, v, "mutated-" + k
	case 1:
		return rapid.SliceOfN(rapid.Byte(), 0, 30).Draw(t, "raw"), v, "raw"
	case 2:
		// declared field numbers (oneof members preferred) under a wire type the field never has:
		// valid input that every implementation must keep as unknown fields
		return gen.InjectWrongWire(t, md, enc), v, "wrong-wiretype"
	}
	return enc, v, "valid"
}

func TestDifferential(t *testing.T) {
	pbt.Run(t, pbt.Prop[diffCase]{
		Name: "fast-vs-reflection",
		Rule: "types: all linked message types; A and B: perturbed valid encodings of generated contents (B derived from A's content half of the time so that merges collide), 1/6 mutated inside nested payloads, 1/6 raw bytes, 1/6 with records that carry a declared field's number (oneof members preferred) under a wire type the field never has. non-trivial = A decodes and holds >= 2 of {extension, map, oneof, group, packed, unknown, submessage}",
		Draw: func(t *rapid.T) diffCase {
			c := diffCase{Type: gen.TypeName(types, rich).Draw(t, "type")}
			var va *model.Msg
			var sa, sb string
			c.A, va, sa = drawInput(t, c.Type, nil)
			c.B, _, sb = drawInput(t, c.Type, va)
			c.Source = sa + "/" + sb
			return c
		},
		Check: checkDiff,
		NonTrivial: func(c diffCase) bool {
			m := mcase.New(c.Type, true)
			if (proto.UnmarshalOptions{AllowPartial: true}).Unmarshal(c.A, m.Interface()) != nil {
				return false
			}
			set := map[string]bool{}
			mcase.Shapes(mcase.Desc(c.Type), model.Snapshot(m), set)
			return len(set) >= 2
		},
		Classes: func(c diffCase) []string { return []string{c.Source} },
		Quick:   8000, Thorough: 120000,
	})
}

// onlyQuietBit recognises the known finding: the two encodings have the same length and differ
// only in bytes where one side has the float32 quiet-NaN bit (0x40 of the third byte of a fixed32
// NaN, next byte 0x7f or 0xff) set and the other not. (The decoded snapshots were already found equal
// with all NaNs in one class.)
func onlyQuietBit(a, b []byte) bool {
	if len(a) != len(b) {
		return false
	}
	diff := 0
	for i := range a {
		if a[i] == b[i] {
			continue
		}
		if a[i]^b[i] != 0x40 || i+1 >= len(a) || a[i+1]&0x7f != 0x7f || a[i]&0x80 == 0 {
			return false
		}
		diff++
	}
	return diff > 0
}

func TestWitnessSNaN(t *testing.T) {
	if pbt.Skip() {
		t.Skip()
	}
	name := "goproto.proto.test.TestAllTypes"
	fd := mcase.Desc(name).Fields().ByName("optional_float")
	tag := byte(fd.Number()<<3 | 5)
	in := []byte{tag, 0x01, 0x00, 0x80, 0x7f}
	d := mcase.New(name, true)
	if err := proto.Unmarshal(in, d.Interface()); err != nil {
		t.Skip(err)
	}
	out, _ := proto.Marshal(d.Interface())
	g := mcase.New(name, false)
	proto.Unmarshal(in, g.Interface())
	gout, _ := proto.Marshal(g.Interface())
	pbt.Witness(t, "KF-reflection-float32-snan-quieted", bytes.Equal(gout, in) && !bytes.Equal(out, in), fmt.Sprintf("dynamicpb re-marshals %x as %x (generated type: %x)", in, out, gout))
}
