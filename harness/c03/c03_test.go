package c03

import (
	"fmt"
	"testing"

	"google.golang.org/protobuf/proto"
	"google.golang.org/protobuf/reflect/protoreflect"
	"google.golang.org/protobuf/types/dynamicpb"
	"google.golang.org/protobuf/zverif/corpus"
	"google.golang.org/protobuf/zverif/gen"
	"google.golang.org/protobuf/zverif/model"
	"google.golang.org/protobuf/zverif/pbt"
	"google.golang.org/protobuf/zverif/ref"
	"pgregory.net/rapid"
)

type rtCase struct {
	Type    string
	Dynamic bool // dynamicpb message of the same descriptor instead of the generated type
	Det     bool
	Lazy    bool
	M       *model.Msg
	Wire    []byte   // perturbed-but-equivalent reference encoding of M
	Labels  []string // perturbations applied
}

func newMsg(name string, dyn bool) protoreflect.Message {
	mt := corpus.ByName(name)
	if dyn {
		return dynamicpb.NewMessage(mt.Descriptor())
	}
	return mt.New()
}

func checkRT(c rtCase) error {
	md := corpus.ByName(c.Type).Descriptor()
	m := newMsg(c.Type, c.Dynamic)
	if err := model.Apply(m, c.M, nil); err != nil {
		return fmt.Errorf("harness: %v", err)
	}
	eq := model.EqualOpts{BitwiseFloats: true}
	if d := model.Diff(md, c.M, model.Snapshot(m), eq, nil); d != "" {
		return fmt.Errorf("message built through reflection does not read back as the model: %s", d)
	}
	b, err := proto.MarshalOptions{Deterministic: c.Det, AllowPartial: true}.Marshal(m.Interface())
	if err != nil {
		return fmt.Errorf("Marshal failed on valid content: %v", err)
	}
	if _, ok := ref.Split(b); !ok {
		return fmt.Errorf("Marshal output is not a well-formed field sequence: %x", b)
	}
	uo := proto.UnmarshalOptions{AllowPartial: true, NoLazyDecoding: !c.Lazy}
	m2 := newMsg(c.Type, c.Dynamic)
	if err := uo.Unmarshal(b, m2.Interface()); err != nil {
		return fmt.Errorf("Unmarshal(Marshal(m)) failed: %v (bytes %x)", err, b)
	}
	if d := model.Diff(md, c.M, model.Snapshot(m2), eq, nil); d != "" {
		return fmt.Errorf("Unmarshal(Marshal(m)) differs from the model: %s", d)
	}
	if !proto.Equal(m.Interface(), m2.Interface()) {
		return fmt.Errorf("proto.Equal(m, Unmarshal(Marshal(m))) = false")
	}
	if !proto.Equal(m2.Interface(), m.Interface()) {
		return fmt.Errorf("proto.Equal(Unmarshal(Marshal(m)), m) = false")
	}
	// the reference (perturbed but equivalent) encoding decodes to the same content
	m3 := newMsg(c.Type, c.Dynamic)
	if err := uo.Unmarshal(c.Wire, m3.Interface()); err != nil {
		return fmt.Errorf("Unmarshal(reference encoding %v) failed: %v (bytes %x)", c.Labels, err, c.Wire)
	}
	if d := model.Diff(md, c.M, model.Snapshot(m3), eq, nil); d != "" {
		return fmt.Errorf("reference encoding %v decodes to different content: %s (bytes %x)", c.Labels, d, c.Wire)
	}
	if !proto.Equal(m.Interface(), m3.Interface()) {
		return fmt.Errorf("proto.Equal(m, Unmarshal(reference encoding %v)) = false", c.Labels)
	}
	// and the other implementation (generated <-> dynamicpb) decodes Marshal's bytes alike
	m4 := newMsg(c.Type, !c.Dynamic)
	if err := uo.Unmarshal(b, m4.Interface()); err != nil {
		return fmt.Errorf("cross decode (dynamic=%v) failed: %v", !c.Dynamic, err)
	}
	if d := model.Diff(md, c.M, model.Snapshot(m4), eq, nil); d != "" {
		return fmt.Errorf("cross decode (dynamic=%v) differs from the model: %s", !c.Dynamic, d)
	}
	return nil
}

var types, rich = corpus.Standard(), corpus.Rich(20)

func shapes(md protoreflect.MessageDescriptor, v *model.Msg, set map[string]bool) {
	if v == nil {
		return
	}
	if len(v.Unknown) > 0 {
		set["unknown"] = true
	}
	for _, f := range v.Fields {
		fd := model.FieldDesc(md, f.Num, nil)
		if fd == nil {
			continue
		}
		switch {
		case fd.IsExtension():
			set["extension"] = true
		case fd.IsMap():
			set["map"] = true
		case fd.ContainingOneof() != nil && !fd.ContainingOneof().IsSynthetic():
			set["oneof"] = true
		case fd.Kind() == protoreflect.GroupKind:
			set["group"] = true
		case fd.IsList() && fd.IsPacked():
			set["packed"] = true
		case fd.IsList():
			set["list"] = true
		}
		sub := fd.Message()
		if fd.IsMap() {
			sub = fd.MapValue().Message()
		}
		if sub != nil {
			set["submessage"] = true
			for _, x := range f.Vals {
				shapes(sub, x.M, set)
			}
		}
	}
}

func classes(c rtCase) []string {
	set := map[string]bool{}
	shapes(corpus.ByName(c.Type).Descriptor(), c.M, set)
	var out []string
	for k := range set {
		out = append(out, k)
	}
	out = append(out, c.Labels...)
	if c.Dynamic {
		out = append(out, "dynamicpb")
	}
	if c.Lazy {
		out = append(out, "lazy-on")
	}
	return out
}

func TestRoundTrip(t *testing.T) {
	pbt.Run(t, pbt.Prop[rtCase]{
		Name: "roundtrip",
		Rule: "type drawn from all linked message types (generated or dynamicpb of the same descriptor); content from the descriptor-directed generator (boundary scalars, NaN/-0, maps, oneofs, groups, extensions, unknown fields); plus a perturbed-but-equivalent reference encoding (shuffled fields, repacked lists, padded varints, decoys, split submessages, map entry variants). non-trivial = >= 3 populated fields and >= 2 distinct shapes among map/oneof/group/extension/packed/list/unknown/submessage",
		Draw: func(t *rapid.T) rtCase {
			c := rtCase{Type: gen.TypeName(types, rich).Draw(t, "type"), Dynamic: rapid.IntRange(0, 3).Draw(t, "dyn") == 0, Det: rapid.Bool().Draw(t, "det"), Lazy: rapid.Bool().Draw(t, "lazy")}
			md := corpus.ByName(c.Type).Descriptor()
			mo := gen.DefaultMsgOpts
			c.M = gen.DrawMessage(t, md, mo)
			o := model.AllPerturbations
			o.Labels = &c.Labels
			c.Wire = model.Encode(md, c.M, gen.RapidChooser{T: t}, o, nil)
			return c
		},
		Check: checkRT,
		NonTrivial: func(c rtCase) bool {
			set := map[string]bool{}
			shapes(corpus.ByName(c.Type).Descriptor(), c.M, set)
			return len(c.M.Fields) >= 3 && len(set) >= 2
		},
		Classes: classes,
		Quick:   30000, Thorough: 400000,
	})
}
