package c03

import (
	"fmt"
	"testing"

	"google.golang.org/protobuf/proto"
	"google.golang.org/protobuf/zverif/gen"
	"google.golang.org/protobuf/zverif/mcase"
	"google.golang.org/protobuf/zverif/model"
	"google.golang.org/protobuf/zverif/pbt"
	"google.golang.org/protobuf/zverif/ref"
	"pgregory.net/rapid"
)

type rtCase struct {
	mcase.Case
	Det  bool
	Lazy bool
	// recycled cases (recycle_test.go): the instance held Pre before and went through PreOp
	Pre      *model.Msg `json:",omitempty"`
	PreOp    string     `json:",omitempty"`
	Hollowed int        `json:",omitempty"`
}

func checkRT(c rtCase) error {
	md := c.Desc()
	m, err := c.Build()
	if c.Pre != nil {
		m, err = buildRecycled(c)
		if err != nil {
			return err
		}
	}
	if err != nil {
		return fmt.Errorf("harness: %v", err)
	}
	eq := model.EqualOpts{BitwiseFloats: true}
	if d := model.Diff(md, c.M, model.Snapshot(m), eq, nil); d != "" {
		return fmt.Errorf("message built through reflection does not read back as the model: %s", d)
	}
	b, err := proto.MarshalOptions{Deterministic: c.Det, AllowPartial: true}.Marshal(m.Interface())
	if err != nil {
		return fmt.Errorf("Marshal failed on valid content: %v", err)
	}
	if _, ok := ref.Split(b); !ok {
		return fmt.Errorf("Marshal output is not a well-formed field sequence: %x", b)
	}
	uo := proto.UnmarshalOptions{AllowPartial: true, NoLazyDecoding: !c.Lazy}
	m2 := mcase.New(c.Type, c.Dynamic)
	if err := uo.Unmarshal(b, m2.Interface()); err != nil {
		return fmt.Errorf("Unmarshal(Marshal(m)) failed: %v (bytes %x)", err, b)
	}
	if d := model.Diff(md, c.M, model.Snapshot(m2), eq, nil); d != "" {
		return fmt.Errorf("Unmarshal(Marshal(m)) differs from the model: %s", d)
	}
	if !proto.Equal(m.Interface(), m2.Interface()) {
		return fmt.Errorf("proto.Equal(m, Unmarshal(Marshal(m))) = false")
	}
	if !proto.Equal(m2.Interface(), m.Interface()) {
		return fmt.Errorf("proto.Equal(Unmarshal(Marshal(m)), m) = false")
	}
	// the reference (perturbed but equivalent) encoding decodes to the same content
	m3 := mcase.New(c.Type, c.Dynamic)
	if err := uo.Unmarshal(c.Wire, m3.Interface()); err != nil {
		return fmt.Errorf("Unmarshal(reference encoding %v) failed: %v (bytes %x)", c.Labels, err, c.Wire)
	}
	if d := model.Diff(md, c.M, model.Snapshot(m3), eq, nil); d != "" {
		return fmt.Errorf("reference encoding %v decodes to different content: %s (bytes %x)", c.Labels, d, c.Wire)
	}
	if !proto.Equal(m.Interface(), m3.Interface()) {
		return fmt.Errorf("proto.Equal(m, Unmarshal(reference encoding %v)) = false", c.Labels)
	}
	// and the other implementation (generated <-> dynamicpb) decodes Marshal's bytes alike
	m4 := mcase.New(c.Type, !c.Dynamic)
	if err := uo.Unmarshal(b, m4.Interface()); err != nil {
		return fmt.Errorf("cross decode (dynamic=%v) failed: %v", !c.Dynamic, err)
	}
	if d := model.Diff(md, c.M, model.Snapshot(m4), eq, nil); d != "" {
		return fmt.Errorf("cross decode (dynamic=%v) differs from the model: %s", !c.Dynamic, d)
	}
	return nil
}

func TestRoundTrip(t *testing.T) {
	pbt.Run(t, pbt.Prop[rtCase]{
		Name: "roundtrip",
		Rule: "type drawn from all linked message types (generated or dynamicpb of the same descriptor); content from the descriptor-directed generator (boundary scalars, NaN/-0, maps, oneofs, groups, extensions, unknown fields); a quarter of the cases obtain the message by recycling an instance that held other content and was already marshalled / sized (submessages, list elements and map values transformed in place, some emptied while staying present); plus a perturbed-but-equivalent reference encoding (shuffled fields, repacked lists, padded varints, decoys, split submessages, map entry variants). non-trivial = >= 3 populated fields and >= 2 distinct shapes among map/oneof/group/extension/packed/list/unknown/submessage",
		Draw: func(t *rapid.T) rtCase {
			c := rtCase{Case: mcase.Draw(t, nil, nil, gen.DefaultMsgOpts, model.AllPerturbations), Det: rapid.Bool().Draw(t, "det"), Lazy: rapid.Bool().Draw(t, "lazy")}
			if rapid.IntRange(0, 3).Draw(t, "recycled") == 0 {
				drawRecycled(t, &c)
			}
			return c
		},
		Check:      checkRT,
		NonTrivial: func(c rtCase) bool { return c.NonTrivial() },
		Classes: func(c rtCase) []string {
			cl := c.Classes()
			if c.Lazy {
				cl = append(cl, "lazy-on")
			}
			if c.Pre != nil {
				cl = append(cl, "recycled", "recycled-after-"+c.PreOp)
				if c.Hollowed > 0 {
					cl = append(cl, "recycled-with-emptied-submessage")
				}
			}
			return cl
		},
		Quick: 30000, Thorough: 400000,
	})
}
