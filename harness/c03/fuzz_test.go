package c03

import (
	"bytes"
	"fmt"
	"os"
	"path/filepath"
	"runtime/debug"
	"testing"

	"google.golang.org/protobuf/proto"
	"google.golang.org/protobuf/reflect/protoreflect"
	"google.golang.org/protobuf/reflect/protoregistry"
	"google.golang.org/protobuf/zverif/corpus"
	"google.golang.org/protobuf/zverif/gen"
	"google.golang.org/protobuf/zverif/mcase"
	"google.golang.org/protobuf/zverif/model"
	"google.golang.org/protobuf/zverif/pbt"
	"google.golang.org/protobuf/zverif/ref"
	"pgregory.net/rapid"
)

// Native fuzz target (thorough tier; `go test -fuzz`). The rapid property starts from a model
// value; this target starts from the other end: fuzzer-chosen BYTES are decoded into one of ~24
// diverse corpus types, and whatever content Unmarshal accepts is "valid content" in the sense of
// the property statement, so it has to survive Marshal -> Unmarshal:
//
//   - Marshal (default and deterministic) succeeds and its output is a well-formed field sequence,
//   - Unmarshal(Marshal(m)) succeeds and is proto.Equal to m in both argument orders,
//   - the other implementation (generated <-> dynamicpb) accepts Marshal's bytes as well,
//   - deterministic Marshal is a fixed point: Marshal(Unmarshal(detbytes)) == detbytes
//     (Equal messages have the same deterministic encoding in one binary),
//   - generated type and dynamicpb agree on accepting / rejecting the raw input.
//
// Everything is done with lazy decoding on or off (flag bit) and for the generated type and the
// dynamicpb message of the same descriptor.
var fuzzTypes = existing([]string{
	"goproto.proto.test.TestAllTypes",                    // proto2 open: groups, maps, oneofs, required-free
	"goproto.proto.test.TestAllExtensions",               // proto2 extensions (scalars, lists, groups, messages)
	"goproto.proto.test3.TestAllTypes",                   // proto3 open
	"opaque.goproto.proto.test3.TestAllTypes",            // proto3 opaque
	"hybrid.goproto.proto.test3.TestAllTypes",            // proto3 hybrid
	"goproto.proto.testeditions.TestAllTypes",            // editions open
	"hybrid.goproto.proto.testeditions.TestAllTypes",     // editions hybrid
	"opaque.goproto.proto.testeditions.TestAllTypes",     // editions opaque, lazy-capable
	"opaque.goproto.proto.testeditions.TestRequiredLazy", // lazy + required
	"opaque.lazy_tree.Node",                              // lazy tree
	"hybrid.lazy_tree.Node",
	"goproto.proto.test.OpaqueLazy",
	"goproto.proto.test.TestRequiredForeign",
	"goproto.proto.test.TestPackedTypes",
	"goproto.proto.test.TestUnpackedTypes",
	"goproto.proto.test.TestPackedExtensions",
	"goproto.proto.fuzz.Fuzz",
	"protobuf_test_messages.proto3.TestAllTypesProto3",        // well-known types, many maps
	"protobuf_test_messages.editions.TestAllTypesEdition2023", // delimited fields, extensions
	"protobuf_test_messages.proto2.TestAllRequiredTypesProto2",
	"google.protobuf.FileDescriptorProto",
	"google.protobuf.Struct", // recursive through map values
	"benchmarks.proto2.GoogleMessage2",
	"pb2.Nests",
	"google.golang.org.proto2_20190205.Message", // wrapped legacy generated code
	"google.golang.org.proto3_20190205.Message",
})

var lazyCapable = func() map[string]bool {
	m := map[string]bool{}
	for _, n := range corpus.LazyCapable() {
		m[n] = true
	}
	return m
}()

func existing(names []string) []string {
	var out []string
	for _, n := range names {
		if _, err := protoregistry.GlobalTypes.FindMessageByName(protoreflect.FullName(n)); err == nil {
			for _, s := range mcase.Types { // only types the rapid property quantifies over
				if s == n {
					out = append(out, n)
				}
			}
		}
	}
	return out
}

type fzCase struct {
	Type string
	Lazy bool
	B    []byte
}

func checkFuzzRT(c fzCase) error {
	uo := proto.UnmarshalOptions{AllowPartial: true, NoLazyDecoding: !c.Lazy}
	var accepted [2]bool
	var firstErr [2]error
	for di, dyn := range []bool{false, true} {
		// Two fresh decodes of the input: deterministic marshaling expands lazily decoded
		// submessages, default marshaling copies their raw bytes; each gets an untouched message.
		for _, det := range []bool{false, true} {
			m := mcase.New(c.Type, dyn)
			if err := uo.Unmarshal(c.B, m.Interface()); err != nil {
				firstErr[di] = err
				break
			}
			accepted[di] = true
			mo := proto.MarshalOptions{Deterministic: det, AllowPartial: true}
			b1, err := mo.Marshal(m.Interface())
			if err != nil {
				return fmt.Errorf("dynamic=%v det=%v: Marshal failed on accepted content: %v", dyn, det, err)
			}
			if _, ok := ref.Split(b1); !ok {
				return fmt.Errorf("dynamic=%v det=%v: Marshal output is not a well-formed field sequence: %x", dyn, det, b1)
			}
			m2 := mcase.New(c.Type, dyn)
			if err := uo.Unmarshal(b1, m2.Interface()); err != nil {
				return fmt.Errorf("dynamic=%v det=%v: Unmarshal(Marshal(m)) failed: %v (bytes %x)", dyn, det, err, b1)
			}
			if det {
				// the fixed point: Equal messages have one deterministic encoding in one binary
				b2, err := mo.Marshal(m2.Interface())
				if err != nil {
					return fmt.Errorf("dynamic=%v: second deterministic Marshal failed: %v", dyn, err)
				}
				if !bytes.Equal(b1, b2) {
					return fmt.Errorf("dynamic=%v: deterministic Marshal is not a fixed point:\n first  %x\n second %x", dyn, b1, b2)
				}
			}
			// the other implementation accepts Marshal's bytes
			m4 := mcase.New(c.Type, !dyn)
			if err := uo.Unmarshal(b1, m4.Interface()); err != nil {
				return fmt.Errorf("cross decode of Marshal output (dynamic=%v -> dynamic=%v, det=%v) failed: %v (bytes %x)", dyn, !dyn, det, err, b1)
			}
			if !proto.Equal(m.Interface(), m2.Interface()) {
				return fmt.Errorf("dynamic=%v det=%v: proto.Equal(m, Unmarshal(Marshal(m))) = false (marshal output %x)", dyn, det, b1)
			}
			if !proto.Equal(m2.Interface(), m.Interface()) {
				return fmt.Errorf("dynamic=%v det=%v: proto.Equal(Unmarshal(Marshal(m)), m) = false (marshal output %x)", dyn, det, b1)
			}
		}
	}
	if accepted[0] != accepted[1] {
		return fmt.Errorf("generated type and dynamicpb disagree on the input: generated err=%v, dynamicpb err=%v", firstErr[0], firstErr[1])
	}
	return nil
}

func fuzzSeeds() []fzCase {
	var out []fzCase
	// valid, rich content: the rapid generator's own messages in their perturbed reference encoding
	for i, ty := range fuzzTypes {
		g := rapid.Custom(func(t *rapid.T) mcase.Case {
			return mcase.Draw(t, []string{ty}, []string{ty}, gen.DefaultMsgOpts, model.AllPerturbations)
		})
		for k := 0; k < 3; k++ {
			c := g.Example(i*7 + k)
			if len(c.Wire) < 1<<12 {
				out = append(out, fzCase{Type: ty, Lazy: k%2 == 0, B: c.Wire})
			}
		}
	}
	hostile := [][]byte{
		{},
		{0x08, 0xff, 0xff, 0xff, 0xff, 0xff, 0xff, 0xff, 0xff, 0xff, 0x01}, // max varint
		{0x08, 0xff, 0xff, 0xff, 0xff, 0xff, 0xff, 0xff, 0xff, 0xff, 0x02}, // varint overflow
		{0x08, 0x80, 0x80, 0x80, 0x80, 0x80, 0x80, 0x80, 0x80, 0x80, 0x00}, // overlong zero
		{0x88, 0x80, 0x80, 0x80, 0x00, 0x01},                               // overlong tag
		{0x00, 0x00},                                                       // field number 0
		{0xf8, 0xff, 0xff, 0xff, 0x0f, 0x01},                               // field number 2^29-1
		{0xf8, 0xff, 0xff, 0xff, 0x1f, 0x01},                               // field number beyond 2^29-1
		{0x0a, 0xff, 0xff, 0xff, 0xff, 0x0f},                               // length beyond input
		{0x0a, 0x80, 0x80, 0x80, 0x80, 0x08},                               // length 2^31
		{0x0b, 0x0c}, {0x0b, 0x14}, {0x0c}, {0x0b},                         // group start/end (mis)matches
		{0x92, 0x01, 0x02, 0x08, 0x01, 0x92, 0x01, 0x02, 0x10, 0x02},                             // submessage split into two occurrences
		{0x9a, 0x06, 0x00, 0x4b}, {0xa0, 0x04, 0x00}, {0x08, 0x2a, 0x0a, 0x03, 0x88, 0x00, 0x01}, // lazy-field shapes
		{0x0a, 0x03, 0x08, 0x80, 0x00, 0x0a, 0x02, 0x08, 0x01},                                                                                                         // non-minimal varint inside a submessage, then a second occurrence
		{0xfa, 0x01, 0x03, 0x01, 0x80, 0x00},                                                                                                                           // packed list with a padded element
		{0xf8, 0x01, 0x01, 0xfa, 0x01, 0x02, 0x02, 0x03, 0xf8, 0x01, 0x04},                                                                                             // list mixing unpacked and packed
		{0xf8, 0x01, 0xff, 0xff, 0xff, 0xff, 0xff, 0xff, 0xff, 0xff, 0xff, 0x01}, {0xfa, 0x01, 0x0b, 0x01, 0xff, 0xff, 0xff, 0xff, 0xff, 0xff, 0xff, 0xff, 0xff, 0x01}, // -1 in a repeated int32: unpacked, packed
		{0x80, 0x02, 0x80, 0x80, 0x80, 0x80, 0x80, 0x80, 0x80, 0x80, 0x80, 0x01}, {0xf8, 0x01, 0x80, 0x80, 0x80, 0x80, 0x08}, {0xf8, 0x01, 0xff, 0xff, 0xff, 0xff, 0x0f}, // int64 min; int32 min / -1 in 5 bytes (not sign-extended)
		{0x98, 0x02, 0x01, 0x9a, 0x02, 0x03, 0xff, 0xff, 0x03, 0x98, 0x03, 0xff, 0xff, 0xff, 0xff, 0xff, 0xff, 0xff, 0xff, 0xff, 0x01}, // repeated sint32 -1 / packed, repeated enum -1
		{0x82, 0x04, 0x00}, {0x82, 0x04, 0x02, 0x08, 0x00}, {0x82, 0x04, 0x04, 0x10, 0x01, 0x08, 0x01}, // map entries: empty, key only, value before key
		{0x82, 0x04, 0x06, 0x08, 0x01, 0x10, 0x01, 0x18, 0x01},                                               // map entry with an unknown field
		{0x3d, 0x01, 0x00, 0x80, 0x7f}, {0x3d, 0x00, 0x00, 0x00, 0x80}, {0x41, 1, 0, 0, 0, 0, 0, 0xf0, 0x7f}, // sNaN, -0, NaN payload
		{0x72, 0x02, 0xff, 0xfe}, {0x72, 0x03, 0xed, 0xa0, 0x80}, // invalid UTF-8 / surrogate in a string field
		{0xa8, 0x01, 0xff, 0xff, 0xff, 0xff, 0xff, 0xff, 0xff, 0xff, 0xff, 0x01}, {0xa8, 0x01, 0x80, 0x80, 0x10}, // enum values: -1, unknown
	}
	deepGroup := bytes.Repeat([]byte{0x83, 0x01}, 120)
	deepGroup = append(deepGroup, bytes.Repeat([]byte{0x84, 0x01}, 120)...)
	hostile = append(hostile, deepGroup)
	deepMsg := []byte{}
	for i := 0; i < 60; i++ {
		deepMsg = append(protoAppendLen(nil, 18, deepMsg), 0x08, byte(i))
	}
	hostile = append(hostile, deepMsg)
	for i, ty := range fuzzTypes {
		// every hostile constant for every type; with lazy decoding as well where the type has lazy fields
		_ = i
		for _, h := range hostile {
			out = append(out, fzCase{Type: ty, B: h})
			if lazyCapable[ty] {
				out = append(out, fzCase{Type: ty, Lazy: true, B: h})
			}
		}
	}
	return out
}

// fuzzSafe turns a panic of the code under test into an error (so that a replay file is written).
func fuzzSafe[C any](check func(C) error, c C) (err error) {
	defer func() {
		if r := recover(); r != nil {
			err = fmt.Errorf("PANIC: %v\n%s", r, debug.Stack())
		}
	}()
	return check(c)
}

func protoAppendLen(b []byte, num int, payload []byte) []byte {
	b = ref.Tag(b, int64(num), 2)
	b = ref.Varint(b, uint64(len(payload)))
	return append(b, payload...)
}

// TestFuzzSeeds registers the fuzz check for replay and runs the seed corpus in every tier.
func TestFuzzSeeds(t *testing.T) {
	pbt.Enumerate(t, "fuzz-roundtrip", "native fuzz target FuzzRoundTrip (thorough tier): fuzzer-chosen bytes decoded into one of "+fmt.Sprint(len(fuzzTypes))+" diverse corpus types (generated and dynamicpb, lazy on/off); accepted content must survive Marshal/Unmarshal (Equal both ways, deterministic fixed point, cross decode, accept/reject agreement); this sub-check replays the seed corpus", false,
		func(yield func(fzCase, bool) bool) {
			for _, c := range fuzzSeeds() {
				if !yield(c, len(c.B) > 8) {
					return
				}
			}
		}, checkFuzzRT)
}

func FuzzRoundTrip(f *testing.F) {
	repo := os.Getenv("VERIF_REPO")
	if repo == "" {
		repo = "/repo"
	}
	index := map[string]int{}
	for i, n := range fuzzTypes {
		index[n] = i
	}
	for _, c := range fuzzSeeds() {
		fl := uint8(0)
		if c.Lazy {
			fl = 1
		}
		f.Add(c.B, uint8(index[c.Type]), fl)
	}
	files, _ := filepath.Glob(filepath.Join(repo, "internal/fuzz/wirefuzz/corpus/*"))
	for i, p := range files {
		if b, err := os.ReadFile(p); err == nil && len(b) < 1<<12 {
			f.Add(b, uint8(i), uint8(i>>3))
		}
	}
	f.Fuzz(func(t *testing.T, b []byte, ti uint8, flags uint8) {
		if len(b) > 1<<13 {
			return
		}
		c := fzCase{Type: fuzzTypes[int(ti)%len(fuzzTypes)], Lazy: flags&1 != 0, B: b}
		if err := fuzzSafe(checkFuzzRT, c); err != nil {
			reportOnce("fuzz-roundtrip", c, err)
			t.Fatal(err)
		}
	})
}

// reportOnce writes the replay file of a failing input; while the fuzzing engine minimises it, the
// check fails again and again with smaller inputs: only the latest replay file of this process is kept.
var lastReplay string

func reportOnce(test string, c any, err error) {
	n := len(pbt.S.Violation)
	pbt.ReportViolation(nil, test, c, err)
	if len(pbt.S.Violation) > n {
		cur := pbt.S.Violation[len(pbt.S.Violation)-1]
		if lastReplay != "" && lastReplay != cur {
			os.Remove(lastReplay)
		}
		lastReplay = cur
	}
}
