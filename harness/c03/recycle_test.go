package c03

// Recycled messages: a valid message is valid whatever its history. A fraction of the round-trip
// cases obtains the message under test by *recycling* an instance that held other content (and was
// already marshalled or sized once, so every cache is warm): submessages, list elements and map
// values that exist on both sides are transformed in place, never replaced.

import (
	"fmt"

	"google.golang.org/protobuf/proto"
	"google.golang.org/protobuf/reflect/protoreflect"
	"google.golang.org/protobuf/zverif/gen"
	"google.golang.org/protobuf/zverif/mcase"
	"google.golang.org/protobuf/zverif/model"
	"pgregory.net/rapid"
)

// drawRecycled turns a freshly drawn case into a recycled one: the drawn content becomes the
// previous content, the content under test is derived from it.
func drawRecycled(t *rapid.T, c *rtCase) {
	md := c.Desc()
	c.Pre = c.M
	c.PreOp = rapid.SampledFrom([]string{"marshal", "size", "detmarshal", "none"}).Draw(t, "preop")
	c.M = mcase.Hollow(t, md, c.Pre, &c.Hollowed)
	eo := model.AllPerturbations
	c.Labels = nil
	eo.Labels = &c.Labels
	c.Wire = model.Encode(md, c.M, gen.RapidChooser{T: t}, eo, nil)
}

// buildRecycled realises c.Pre, runs the warming operation, and transforms the instance into c.M.
func buildRecycled(c rtCase) (protoreflect.Message, error) {
	pc := c.Case
	pc.M = c.Pre
	m, err := pc.Build()
	if err != nil {
		return nil, fmt.Errorf("harness: %v", err)
	}
	switch c.PreOp {
	case "marshal", "detmarshal":
		if _, err := (proto.MarshalOptions{AllowPartial: true, Deterministic: c.PreOp == "detmarshal"}).Marshal(m.Interface()); err != nil {
			return nil, fmt.Errorf("Marshal of the previous (valid) content failed: %v", err)
		}
	case "size":
		proto.Size(m.Interface())
	}
	if err := mcase.Recycle(m, c.M); err != nil {
		return nil, fmt.Errorf("harness: %v", err)
	}
	return m, nil
}
