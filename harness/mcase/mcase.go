// Package mcase holds the case shape shared by the codec properties: a message type of the
// corpus, a model value for it, and a perturbed-but-equivalent reference encoding.
package mcase

import (
	"sort"

	"google.golang.org/protobuf/reflect/protoreflect"
	"google.golang.org/protobuf/types/dynamicpb"
	"google.golang.org/protobuf/zverif/corpus"
	"google.golang.org/protobuf/zverif/gen"
	"google.golang.org/protobuf/zverif/model"
	"pgregory.net/rapid"
)

type Case struct {
	Type    string
	Dynamic bool       // dynamicpb message of the same descriptor instead of the generated type
	M       *model.Msg // content
	Wire    []byte     `json:",omitempty"` // perturbed-but-equivalent reference encoding of M
	Labels  []string   `json:",omitempty"` // perturbations applied to Wire
}

var (
	Types = corpus.Standard()
	Rich  = corpus.Rich(20)
)

func Desc(name string) protoreflect.MessageDescriptor { return corpus.ByName(name).Descriptor() }

// New returns an empty message of the named type (generated, or dynamicpb of its descriptor).
func New(name string, dyn bool) protoreflect.Message {
	mt := corpus.ByName(name)
	if dyn {
		return dynamicpb.NewMessage(mt.Descriptor())
	}
	return mt.New()
}

// Build returns a fresh message holding c.M (applied through protoreflect).
func (c Case) Build() (protoreflect.Message, error) {
	m := New(c.Type, c.Dynamic)
	return m, model.Apply(m, c.M, nil)
}

func (c Case) Desc() protoreflect.MessageDescriptor { return Desc(c.Type) }

// Draw draws type, content and reference encoding. types/rich may be nil (whole corpus).
func Draw(t *rapid.T, types, rich []string, mo gen.MsgOpts, eo model.EncOpts) Case {
	if types == nil {
		types, rich = Types, Rich
	}
	c := Case{Type: gen.TypeName(types, rich).Draw(t, "type"), Dynamic: rapid.IntRange(0, 3).Draw(t, "dyn") == 0}
	md := c.Desc()
	c.M = gen.DrawMessage(t, md, mo)
	eo.Labels = &c.Labels
	c.Wire = model.Encode(md, c.M, gen.RapidChooser{T: t}, eo, mo.Resolver)
	return c
}

// Shapes collects the structural shapes present in v.
func Shapes(md protoreflect.MessageDescriptor, v *model.Msg, set map[string]bool) {
	if v == nil {
		return
	}
	if len(v.Unknown) > 0 {
		set["unknown"] = true
	}
	for _, f := range v.Fields {
		fd := model.FieldDesc(md, f.Num, nil)
		if fd == nil {
			continue
		}
		switch {
		case fd.IsExtension():
			set["extension"] = true
		case fd.IsMap():
			set["map"] = true
		case fd.ContainingOneof() != nil && !fd.ContainingOneof().IsSynthetic():
			set["oneof"] = true
		case fd.Kind() == protoreflect.GroupKind:
			set["group"] = true
		case fd.IsList() && fd.IsPacked():
			set["packed"] = true
		case fd.IsList():
			set["list"] = true
		}
		sub := fd.Message()
		if fd.IsMap() {
			sub = fd.MapValue().Message()
		}
		if sub != nil {
			set["submessage"] = true
			for _, x := range f.Vals {
				Shapes(sub, x.M, set)
			}
		}
	}
}

func (c Case) ShapeSet() map[string]bool {
	set := map[string]bool{}
	Shapes(c.Desc(), c.M, set)
	return set
}

// Classes returns shape and perturbation labels for the evidence distribution.
func (c Case) Classes() []string {
	var out []string
	for k := range c.ShapeSet() {
		out = append(out, k)
	}
	sort.Strings(out)
	seen := map[string]bool{}
	for _, l := range c.Labels {
		if !seen[l] {
			seen[l] = true
			out = append(out, l)
		}
	}
	if c.Dynamic {
		out = append(out, "dynamicpb")
	}
	return out
}

// Rich reports the usual non-triviality rule: >= 3 populated fields and >= 2 distinct shapes.
func (c Case) NonTrivial() bool {
	return c.M != nil && len(c.M.Fields) >= 3 && len(c.ShapeSet()) >= 2
}

// Depth returns the nesting depth of v (1 for a flat message).
func Depth(md protoreflect.MessageDescriptor, v *model.Msg) int {
	d := 1
	if v == nil {
		return d
	}
	for _, f := range v.Fields {
		fd := model.FieldDesc(md, f.Num, nil)
		if fd == nil {
			continue
		}
		sub := fd.Message()
		if fd.IsMap() {
			sub = fd.MapValue().Message()
		}
		if sub == nil {
			continue
		}
		for _, x := range f.Vals {
			if k := 1 + Depth(sub, x.M); k > d {
				d = k
			}
		}
	}
	return d
}
