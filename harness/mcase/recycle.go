package mcase

// Recycled messages: a valid message is valid whatever its history. Recycle transforms an instance
// that holds other content into the wanted content *in place* (submessages, list elements and map
// values that exist on both sides are kept and transformed, never replaced); Hollow derives the
// wanted content from the previous one by emptying / dropping parts of it.

import (
	"fmt"

	"google.golang.org/protobuf/reflect/protoreflect"
	"google.golang.org/protobuf/zverif/model"
	"pgregory.net/rapid"
)

func orEmpty(v *model.Msg) *model.Msg {
	if v == nil {
		return &model.Msg{}
	}
	return v
}

// recycle transforms m in place so that it holds exactly v.
func Recycle(m protoreflect.Message, v *model.Msg) error {
	md := m.Descriptor()
	v = orEmpty(v)
	var drop []protoreflect.FieldDescriptor
	m.Range(func(fd protoreflect.FieldDescriptor, _ protoreflect.Value) bool {
		if v.Get(int32(fd.Number())) == nil {
			drop = append(drop, fd)
		}
		return true
	})
	for _, fd := range drop {
		m.Clear(fd)
	}
	for _, f := range v.Fields {
		fd := model.FieldDesc(md, f.Num, nil)
		if fd == nil {
			return fmt.Errorf("recycle: %s has no field %d", md.FullName(), f.Num)
		}
		switch {
		case fd.IsMap():
			mp := m.Mutable(fd).Map()
			want := map[any]bool{}
			for _, k := range f.Keys {
				want[model.ToValue(fd.MapKey(), k).MapKey().Interface()] = true
			}
			var gone []protoreflect.MapKey
			mp.Range(func(k protoreflect.MapKey, _ protoreflect.Value) bool {
				if !want[k.Interface()] {
					gone = append(gone, k)
				}
				return true
			})
			for _, k := range gone {
				mp.Clear(k)
			}
			for i, k := range f.Keys {
				kv := model.ToValue(fd.MapKey(), k).MapKey()
				switch {
				case fd.MapValue().Message() == nil:
					mp.Set(kv, model.ToValue(fd.MapValue(), f.Vals[i]))
				case mp.Has(kv):
					if err := Recycle(mp.Mutable(kv).Message(), f.Vals[i].M); err != nil {
						return err
					}
				default:
					sub := mp.NewValue()
					if err := model.Apply(sub.Message(), orEmpty(f.Vals[i].M), nil); err != nil {
						return err
					}
					mp.Set(kv, sub)
				}
			}
		case fd.IsList():
			l := m.Mutable(fd).List()
			if fd.Message() == nil {
				l.Truncate(0)
				for _, e := range f.Vals {
					l.Append(model.ToValue(fd, e))
				}
				break
			}
			if l.Len() > len(f.Vals) {
				l.Truncate(len(f.Vals))
			}
			for i, e := range f.Vals {
				if i < l.Len() {
					if err := Recycle(l.Get(i).Message(), e.M); err != nil {
						return err
					}
					continue
				}
				sub := l.NewElement()
				if err := model.Apply(sub.Message(), orEmpty(e.M), nil); err != nil {
					return err
				}
				l.Append(sub)
			}
		case fd.Message() != nil:
			if err := Recycle(m.Mutable(fd).Message(), f.Vals[0].M); err != nil {
				return err
			}
		default:
			m.Set(fd, model.ToValue(fd, f.Vals[0]))
		}
	}
	m.SetUnknown(append(protoreflect.RawFields(nil), v.Unknown...))
	return nil
}

// hollow derives the content under test from the previous content: submessages at any depth are
// kept, emptied (still present) or dropped; scalars are kept or dropped. hollowed counts emptied
// submessages that had content.
func Hollow(t *rapid.T, md protoreflect.MessageDescriptor, pre *model.Msg, hollowed *int) *model.Msg {
	out := &model.Msg{}
	if rapid.IntRange(0, 2).Draw(t, "keepunknown") > 0 {
		out.Unknown = append([]byte(nil), pre.Unknown...)
	}
	for _, f := range pre.Fields {
		fd := model.FieldDesc(md, f.Num, nil)
		if fd == nil || rapid.IntRange(0, 5).Draw(t, "dropfield") == 0 {
			continue
		}
		sub := fd.Message()
		if fd.IsMap() {
			sub = fd.MapValue().Message()
		}
		nf := model.Field{Num: f.Num, Keys: f.Keys}
		for _, v := range f.Vals {
			if sub == nil || v.M == nil {
				nf.Vals = append(nf.Vals, v)
				continue
			}
			if rapid.IntRange(0, 2).Draw(t, "hollow") == 0 {
				if len(v.M.Fields) > 0 || len(v.M.Unknown) > 0 {
					*hollowed++
				}
				nf.Vals = append(nf.Vals, model.Val{M: &model.Msg{}})
			} else {
				nf.Vals = append(nf.Vals, model.Val{M: Hollow(t, sub, v.M, hollowed)})
			}
		}
		out.Fields = append(out.Fields, nf)
	}
	return out
}
