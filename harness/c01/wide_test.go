package c01

// Wide and deep groups: the recursion budget of the group parser bounds the nesting *depth* (10000),
// not the number of groups. Shapes around that number in both dimensions, each a well-formed
// AppendGroup-style encoding whose exact length the three consume functions must return.

import (
	"bytes"
	"fmt"
	"testing"

	"google.golang.org/protobuf/encoding/protowire"
	"google.golang.org/protobuf/zverif/pbt"
	"google.golang.org/protobuf/zverif/ref"
)

type wideCase struct {
	Siblings int // empty sub-groups side by side in the outer group
	Depth    int // nesting depth of each sub-group (1 = empty group)
	Num      int32
}

func (c wideCase) body() []byte {
	var one []byte
	for i := 0; i < c.Depth; i++ {
		one = ref.Tag(one, int64(c.Num)+1, 3)
	}
	for i := 0; i < c.Depth; i++ {
		one = ref.Tag(one, int64(c.Num)+1, 4)
	}
	body := make([]byte, 0, len(one)*c.Siblings+8)
	for i := 0; i < c.Siblings; i++ {
		body = append(body, one...)
	}
	return body
}

func checkWide(c wideCase) error {
	body := c.body()
	num := protowire.Number(c.Num)
	enc := append(append([]byte(nil), body...), ref.Tag(nil, int64(c.Num), 4)...)
	// the parser starts with a budget of 10000 for the outer group and spends one per nested level:
	// 10000 levels below the outer group are accepted, 10001 are not (as package c02 establishes
	// for group chains)
	wantOK := c.Depth <= 10000
	gb, n := protowire.ConsumeGroup(num, enc)
	if wantOK && (n != len(enc) || !bytes.Equal(gb, body)) {
		return fmt.Errorf("ConsumeGroup of a group with %d sibling sub-groups of depth %d = (len %d, n %d), want (len %d, n %d)", c.Siblings, c.Depth, len(gb), n, len(body), len(enc))
	}
	if !wantOK && n >= 0 {
		return fmt.Errorf("ConsumeGroup accepted %d levels below the outer group (n = %d)", c.Depth, n)
	}
	if vn := protowire.ConsumeFieldValue(num, protowire.StartGroupType, enc); wantOK && vn != len(enc) || !wantOK && vn >= 0 {
		return fmt.Errorf("ConsumeFieldValue(StartGroup) on %d siblings of depth %d = %d, want %d (accept=%v)", c.Siblings, c.Depth, vn, len(enc), wantOK)
	}
	full := append(ref.Tag(nil, int64(c.Num), 3), enc...)
	fnum, ftyp, fn := protowire.ConsumeField(full)
	if wantOK && (fn != len(full) || fnum != num || ftyp != protowire.StartGroupType) {
		return fmt.Errorf("ConsumeField on %d siblings of depth %d = (%d, %d, %d), want (%d, 3, %d)", c.Siblings, c.Depth, fnum, ftyp, fn, num, len(full))
	}
	if !wantOK && fn >= 0 {
		return fmt.Errorf("ConsumeField accepted %d levels below the outer group", c.Depth)
	}
	if wantOK {
		if sz := protowire.SizeGroup(num, len(body)); sz != len(enc) {
			return fmt.Errorf("SizeGroup = %d, want %d", sz, len(enc))
		}
	}
	return nil
}

func TestWideGroups(t *testing.T) {
	pbt.Enumerate(t, "wide-groups",
		"fixed shapes: an outer group holding k sibling sub-groups, each nested d deep, for k and d around the parser's recursion limit of 10000 (k up to 30000 at d = 1..3; d = 9998..10001 at k = 1..2): the limit bounds depth, never the number of groups; ConsumeGroup / ConsumeFieldValue / ConsumeField return the exact length (or refuse more than 10000 levels below the outer group), SizeGroup agrees; every case non-trivial",
		true,
		func(yield func(wideCase, bool) bool) {
			for _, num := range []int32{1, 16, 2047} {
				for _, k := range []int{0, 1, 2, 100, 9999, 10000, 10001, 20000, 30000} {
					for _, d := range []int{1, 2, 3} {
						if !yield(wideCase{Siblings: k, Depth: d, Num: num}, true) {
							return
						}
					}
				}
				for _, d := range []int{9998, 9999, 10000, 10001} {
					for _, k := range []int{1, 2} {
						if !yield(wideCase{Siblings: k, Depth: d, Num: num}, true) {
							return
						}
					}
				}
			}
		}, checkWide)
}
