package c01

import (
	"bytes"
	"fmt"
	"math"
	"runtime"
	"sync"
	"sync/atomic"
	"testing"

	"google.golang.org/protobuf/encoding/protowire"
	"google.golang.org/protobuf/zverif/gen"
	"google.golang.org/protobuf/zverif/pbt"
	"google.golang.org/protobuf/zverif/ref"
	"pgregory.net/rapid"
)

// ---- one scalar value through every primitive -------------------------------------------------

type scalarCase struct {
	V      uint64
	Prefix []byte
	Suffix []byte
}

func checkScalar(c scalarCase) error {
	v := c.V
	prefix := append([]byte(nil), c.Prefix...)
	// varint
	want := ref.Varint(nil, v)
	got := protowire.AppendVarint(append([]byte(nil), prefix...), v)
	if !bytes.Equal(got, append(append([]byte(nil), prefix...), want...)) {
		return fmt.Errorf("AppendVarint(%#x) = %x, reference %x (prefix %x)", v, got, want, prefix)
	}
	if n := protowire.SizeVarint(v); n != len(want) || n < 1 || n > 10 {
		return fmt.Errorf("SizeVarint(%#x) = %d, encoded length %d", v, n, len(want))
	}
	in := append(append([]byte(nil), want...), c.Suffix...)
	if dv, n := protowire.ConsumeVarint(in); dv != v || n != len(want) {
		return fmt.Errorf("ConsumeVarint(%x) = (%#x,%d), want (%#x,%d)", in, dv, n, v, len(want))
	}
	// padded (non-minimal) encodings decode to the same value with their own length
	for pad := len(want) + 1; pad <= 10; pad++ {
		p := ref.VarintPadded(nil, v, pad)
		in := append(p, c.Suffix...)
		if dv, n := protowire.ConsumeVarint(in); dv != v || n != pad {
			return fmt.Errorf("ConsumeVarint(padded %x) = (%#x,%d), want (%#x,%d)", in, dv, n, v, pad)
		}
	}
	// zigzag: bijective on all uint64/int64
	x := int64(v)
	if z := protowire.EncodeZigZag(x); z != ref.ZigZag(x) {
		return fmt.Errorf("EncodeZigZag(%d) = %#x, reference %#x", x, z, ref.ZigZag(x))
	}
	if d := protowire.DecodeZigZag(protowire.EncodeZigZag(x)); d != x {
		return fmt.Errorf("DecodeZigZag(EncodeZigZag(%d)) = %d", x, d)
	}
	if e := protowire.EncodeZigZag(protowire.DecodeZigZag(v)); e != v {
		return fmt.Errorf("EncodeZigZag(DecodeZigZag(%#x)) = %#x", v, e)
	}
	// fixed64 / fixed32
	f64 := protowire.AppendFixed64(append([]byte(nil), prefix...), v)
	if !bytes.Equal(f64, ref.Fixed64(append([]byte(nil), prefix...), v)) || protowire.SizeFixed64() != 8 {
		return fmt.Errorf("AppendFixed64(%#x) = %x", v, f64)
	}
	if dv, n := protowire.ConsumeFixed64(append(f64[len(prefix):], c.Suffix...)); dv != v || n != 8 {
		return fmt.Errorf("ConsumeFixed64 = (%#x,%d) want (%#x,8)", dv, n, v)
	}
	v32 := uint32(v)
	f32 := protowire.AppendFixed32(append([]byte(nil), prefix...), v32)
	if !bytes.Equal(f32, ref.Fixed32(append([]byte(nil), prefix...), v32)) || protowire.SizeFixed32() != 4 {
		return fmt.Errorf("AppendFixed32(%#x) = %x", v32, f32)
	}
	if dv, n := protowire.ConsumeFixed32(append(f32[len(prefix):], c.Suffix...)); dv != v32 || n != 4 {
		return fmt.Errorf("ConsumeFixed32 = (%#x,%d) want (%#x,4)", dv, n, v32)
	}
	// bool
	if b := protowire.DecodeBool(v); b != (v != 0) {
		return fmt.Errorf("DecodeBool(%#x) = %v", v, b)
	}
	if protowire.EncodeBool(false) != 0 || protowire.EncodeBool(true) != 1 || !protowire.DecodeBool(protowire.EncodeBool(true)) || protowire.DecodeBool(protowire.EncodeBool(false)) {
		return fmt.Errorf("EncodeBool/DecodeBool not inverse")
	}
	// tag code: DecodeTag∘EncodeTag on documented domain; DecodeTag of arbitrary x
	num, typ := protowire.DecodeTag(v)
	if v>>3 > math.MaxInt32 {
		if num != -1 {
			return fmt.Errorf("DecodeTag(%#x) = (%d,%d), want number -1 for overflow", v, num, typ)
		}
	} else {
		if uint64(num) != v>>3 || uint64(typ) != v&7 {
			return fmt.Errorf("DecodeTag(%#x) = (%d,%d)", v, num, typ)
		}
		if e := protowire.EncodeTag(num, typ); e != v {
			return fmt.Errorf("EncodeTag(DecodeTag(%#x)) = %#x", v, e)
		}
	}
	return nil
}

func TestScalar(t *testing.T) {
	pbt.Run(t, pbt.Prop[scalarCase]{
		Name: "scalar",
		Rule: "uint64 from boundary-biased generator through varint/zigzag/fixed/bool/tag vs reference; non-trivial = needs >= 2 varint bytes",
		Draw: func(t *rapid.T) scalarCase {
			return scalarCase{V: gen.Uint64().Draw(t, "v"), Prefix: rapid.SliceOfN(rapid.Byte(), 0, 5).Draw(t, "prefix"), Suffix: rapid.SliceOfN(rapid.Byte(), 0, 12).Draw(t, "suffix")}
		},
		Check:      checkScalar,
		NonTrivial: func(c scalarCase) bool { return c.V >= 0x80 },
		Quick:      30000, Thorough: 2000000,
	})
}

func TestScalarEnum(t *testing.T) {
	pbt.Enumerate(t, "scalar-enum", "every 2^k-1,2^k,2^k+1 for k in 0..64 and every value with <= 2 set bits, suffixes {none, 0x80, 0xff}; non-trivial = needs >= 2 varint bytes", true,
		func(yield func(scalarCase, bool) bool) {
			emit := func(v uint64) bool {
				for _, suf := range [][]byte{nil, {0x80}, {0xff, 0xff}} {
					if !yield(scalarCase{V: v, Suffix: suf}, v >= 0x80) {
						return false
					}
				}
				return true
			}
			for k := 0; k <= 64; k++ {
				var base uint64
				if k < 64 {
					base = 1 << uint(k)
				}
				for d := int64(-1); d <= 1; d++ {
					if !emit(base + uint64(d)) {
						return
					}
				}
			}
			for i := 0; i < 64; i++ {
				for j := i; j < 64; j++ {
					if !emit(1<<uint(i) | 1<<uint(j)) {
						return
					}
				}
			}
		}, checkScalar)
}

// ---- tags ------------------------------------------------------------------------------------

type tagCase struct {
	Num    int64
	Typ    int
	Prefix []byte
	Suffix []byte
}

func checkTag(c tagCase) error {
	num, typ := protowire.Number(c.Num), protowire.Type(c.Typ)
	want := ref.Tag(nil, c.Num, c.Typ)
	got := protowire.AppendTag(append([]byte(nil), c.Prefix...), num, typ)
	if !bytes.Equal(got, append(append([]byte(nil), c.Prefix...), want...)) {
		return fmt.Errorf("AppendTag(%d,%d) = %x, reference %x", num, typ, got, want)
	}
	if n := protowire.SizeTag(num); n != len(want) {
		return fmt.Errorf("SizeTag(%d) = %d, encoded %d", num, n, len(want))
	}
	gn, gt, n := protowire.ConsumeTag(append(append([]byte(nil), want...), c.Suffix...))
	if gn != num || gt != typ || n != len(want) {
		return fmt.Errorf("ConsumeTag(%x) = (%d,%d,%d), want (%d,%d,%d)", want, gn, gt, n, num, typ, len(want))
	}
	dn, dt := protowire.DecodeTag(protowire.EncodeTag(num, typ))
	if dn != num || dt != typ {
		return fmt.Errorf("DecodeTag(EncodeTag(%d,%d)) = (%d,%d)", num, typ, dn, dt)
	}
	if !num.IsValid() {
		return fmt.Errorf("Number(%d).IsValid() = false for a number in 1..2^29-1", num)
	}
	return nil
}

func TestTag(t *testing.T) {
	pbt.Run(t, pbt.Prop[tagCase]{
		Name: "tag", Rule: "field numbers 1..2^29-1 (boundary biased) x wire types 0..7; non-trivial = tag needs >= 2 bytes",
		Draw: func(t *rapid.T) tagCase {
			return tagCase{Num: gen.FieldNum().Draw(t, "num"), Typ: rapid.IntRange(0, 7).Draw(t, "typ"), Prefix: rapid.SliceOfN(rapid.Byte(), 0, 4).Draw(t, "prefix"), Suffix: rapid.SliceOfN(rapid.Byte(), 0, 6).Draw(t, "suffix")}
		},
		Check: checkTag, NonTrivial: func(c tagCase) bool { return c.Num >= 16 },
		Quick: 15000, Thorough: 500000,
	})
}

func TestTagEnum(t *testing.T) {
	pbt.Enumerate(t, "tag-enum", "all field numbers 1..4096 and 2^k-1,2^k,2^k+1 up to 2^29-1, x 8 wire types; non-trivial = tag needs >= 2 bytes", true,
		func(yield func(tagCase, bool) bool) {
			nums := []int64{}
			for n := int64(1); n <= 4096; n++ {
				nums = append(nums, n)
			}
			for k := 12; k <= 29; k++ {
				for d := int64(-1); d <= 1; d++ {
					if v := int64(1)<<uint(k) + d; v <= 1<<29-1 {
						nums = append(nums, v)
					}
				}
			}
			for _, n := range nums {
				for typ := 0; typ < 8; typ++ {
					if !yield(tagCase{Num: n, Typ: typ, Suffix: []byte{0x80}}, n >= 16) {
						return
					}
				}
			}
		}, checkTag)
}

// ---- bytes / string / group ------------------------------------------------------------------------

type bytesCase struct {
	Len    int
	Fill   byte
	Data   []byte // used when Len < 0
	Num    int64
	EndPad int // extra padding bytes on the group's end tag
	Prefix []byte
	Suffix []byte
	Body   []byte // group body (well-formed field sequence)
}

func (c bytesCase) data() []byte {
	if c.Len < 0 {
		return c.Data
	}
	return bytes.Repeat([]byte{c.Fill}, c.Len)
}

func checkBytes(c bytesCase) error {
	v := c.data()
	want := append(ref.Varint(nil, uint64(len(v))), v...)
	got := protowire.AppendBytes(append([]byte(nil), c.Prefix...), v)
	if !bytes.Equal(got, append(append([]byte(nil), c.Prefix...), want...)) {
		return fmt.Errorf("AppendBytes(len %d) wrong: got %d bytes", len(v), len(got))
	}
	if n := protowire.SizeBytes(len(v)); n != len(want) {
		return fmt.Errorf("SizeBytes(%d) = %d, encoded %d", len(v), n, len(want))
	}
	in := append(append([]byte(nil), want...), c.Suffix...)
	dv, n := protowire.ConsumeBytes(in)
	if n != len(want) || !bytes.Equal(dv, v) {
		return fmt.Errorf("ConsumeBytes = (len %d, n %d), want (len %d, n %d)", len(dv), n, len(v), len(want))
	}
	gs := protowire.AppendString(append([]byte(nil), c.Prefix...), string(v))
	if !bytes.Equal(gs, got) {
		return fmt.Errorf("AppendString differs from AppendBytes")
	}
	ds, n := protowire.ConsumeString(in)
	if n != len(want) || ds != string(v) {
		return fmt.Errorf("ConsumeString = (len %d, n %d)", len(ds), n)
	}
	// group
	num := protowire.Number(c.Num)
	body := c.Body
	g := protowire.AppendGroup(append([]byte(nil), c.Prefix...), num, body)
	wantG := append(append(append([]byte(nil), c.Prefix...), body...), ref.Tag(nil, c.Num, 4)...)
	if !bytes.Equal(g, wantG) {
		return fmt.Errorf("AppendGroup(%d, %x) = %x, reference %x", num, body, g, wantG)
	}
	if n := protowire.SizeGroup(num, len(body)); n != len(wantG)-len(c.Prefix) {
		return fmt.Errorf("SizeGroup(%d,%d) = %d, encoded %d", num, len(body), n, len(wantG)-len(c.Prefix))
	}
	enc := wantG[len(c.Prefix):]
	if c.EndPad > 0 { // denormalised end tag
		endTag := uint64(c.Num)<<3 | 4
		enc = append(append([]byte(nil), body...), ref.VarintPadded(nil, endTag, ref.VarintLen(endTag)+c.EndPad)...)
	}
	gin := append(append([]byte(nil), enc...), c.Suffix...)
	gb, n := protowire.ConsumeGroup(num, gin)
	if n != len(enc) || !bytes.Equal(gb, body) {
		return fmt.Errorf("ConsumeGroup(%d, %x) = (%x, %d), want (%x, %d)", num, gin, gb, n, body, len(enc))
	}
	return nil
}

func TestBytesGroup(t *testing.T) {
	pbt.Run(t, pbt.Prop[bytesCase]{
		Name: "bytes-group",
		Rule: "byte strings with lengths around 0/127/128/16383/16384/70000 and arbitrary content; group bodies = generated well-formed field sequences (nested groups, denormalised varints), end tags minimal or padded; non-trivial = length prefix >= 2 bytes, or body contains a nested group, or padded end tag",
		Draw: func(t *rapid.T) bytesCase {
			c := bytesCase{Num: gen.FieldNum().Draw(t, "num"), Prefix: rapid.SliceOfN(rapid.Byte(), 0, 4).Draw(t, "prefix"), Suffix: rapid.SliceOfN(rapid.Byte(), 0, 6).Draw(t, "suffix")}
			if rapid.Bool().Draw(t, "long") {
				c.Len = rapid.SampledFrom([]int{0, 1, 126, 127, 128, 129, 16383, 16384, 16385, 70000}).Draw(t, "len")
				c.Fill = rapid.Byte().Draw(t, "fill")
			} else {
				c.Len = -1
				c.Data = gen.Bytes(200).Draw(t, "data")
			}
			c.Body = gen.FieldSeq(3, 4, true, nil).Draw(t, "body")
			if rapid.IntRange(0, 2).Draw(t, "padend") == 0 {
				endTag := uint64(c.Num)<<3 | 4
				c.EndPad = rapid.IntRange(1, 10-ref.VarintLen(endTag)).Draw(t, "endpad")
			}
			return c
		},
		Check: checkBytes,
		NonTrivial: func(c bytesCase) bool {
			return len(c.data()) >= 128 || c.EndPad > 0 || hasGroup(c.Body)
		},
		Quick: 8000, Thorough: 300000,
	})
}

func hasGroup(b []byte) bool {
	recs, _ := ref.Split(b)
	for _, r := range recs {
		if r.Typ == 3 {
			return true
		}
	}
	return false
}

// ---- exhaustive uint32 sweep (thorough) ------------------------------------------------------------

func TestUint32Sweep(t *testing.T) {
	if pbt.ReplayPath != "" {
		t.Skip()
	}
	if !pbt.Thorough() || pbt.Shard != 0 {
		t.Skip("thorough tier, shard 0 only")
	}
	workers := runtime.NumCPU()
	var bad atomic.Uint64
	var found atomic.Bool
	var wg sync.WaitGroup
	const total = uint64(1) << 32
	chunk := total / uint64(workers)
	for w := 0; w < workers; w++ {
		wg.Add(1)
		go func(lo, hi uint64) {
			defer wg.Done()
			var buf [16]byte
			for v := lo; v < hi && !found.Load(); v++ {
				// value and its sign extension (int32 -> int64 negative varints)
				for _, x := range [2]uint64{v, uint64(int64(int32(uint32(v))))} {
					b := protowire.AppendVarint(buf[:0], x)
					n := ref.VarintLen(x)
					dv, m := protowire.ConsumeVarint(b)
					if len(b) != n || protowire.SizeVarint(x) != n || dv != x || m != n ||
						protowire.DecodeZigZag(protowire.EncodeZigZag(int64(x))) != int64(x) ||
						protowire.EncodeZigZag(protowire.DecodeZigZag(x)) != x {
						bad.Store(x)
						found.Store(true)
						return
					}
					// spot-check bytes against the reference for the low 7-bit groups
					for i := 0; i < n; i++ {
						wantb := byte(x>>(7*uint(i))) & 0x7f
						if i < n-1 {
							wantb |= 0x80
						}
						if b[i] != wantb {
							bad.Store(x)
							found.Store(true)
							return
						}
					}
				}
				f := protowire.AppendFixed32(buf[:0], uint32(v))
				if dv, m := protowire.ConsumeFixed32(f); dv != uint32(v) || m != 4 || f[0] != byte(v) || f[3] != byte(v>>24) {
					bad.Store(v)
					found.Store(true)
					return
				}
			}
		}(uint64(w)*chunk, func() uint64 {
			if w == workers-1 {
				return total
			}
			return uint64(w+1) * chunk
		}())
	}
	wg.Wait()
	if found.Load() {
		pbt.ReportViolation(t, "scalar", scalarCase{V: bad.Load()}, fmt.Errorf("uint32 sweep: primitive mismatch at %#x", bad.Load()))
		return
	}
	pbt.Count("uint32-sweep", int64(total), int64(total-128), "all 2^32 uint32 values and their int32 sign extensions through varint/zigzag/fixed32; non-trivial = needs >= 2 varint bytes", true,
		map[string]any{"from": 0, "to": "0xffffffff"})
}
