package gen

import (
	"sort"
	"strings"
	"sync"
	"unicode/utf8"

	"google.golang.org/protobuf/reflect/protoreflect"
	"google.golang.org/protobuf/reflect/protoregistry"
	"google.golang.org/protobuf/zverif/model"
	"pgregory.net/rapid"
)

// MsgOpts bounds and steers the descriptor-directed message generator.
type MsgOpts struct {
	Depth        int  // nesting budget
	MaxFields    int  // populated fields per message (drawn 0..MaxFields)
	MaxList      int  // elements per list / map
	MaxBytes     int  // string / bytes length
	FillRequired bool // always populate required fields (initialised trees)
	RequiredOmit int  // with FillRequired: omit each required field with probability 1/RequiredOmit (0 = never)
	Unknown      bool // generate unknown fields
	Extensions   bool // populate registered extensions of extendable messages
	ValidUTF8    bool // valid UTF-8 in every string field, validated or not (JSON-representable)
	NoGroups     bool
	Resolver     model.Resolver
	ExtTypes     func(protoreflect.FullName) []protoreflect.ExtensionType // default: GlobalTypes
	SkipField    func(protoreflect.FieldDescriptor) bool
}

var DefaultMsgOpts = MsgOpts{Depth: 3, MaxFields: 6, MaxList: 4, MaxBytes: 140, FillRequired: true, Unknown: true, Extensions: true}

func extensionsOf(name protoreflect.FullName) []protoreflect.ExtensionType {
	var out []protoreflect.ExtensionType
	protoregistry.GlobalTypes.RangeExtensionsByMessage(name, func(xt protoreflect.ExtensionType) bool {
		out = append(out, xt)
		return true
	})
	sort.Slice(out, func(i, j int) bool { return out[i].TypeDescriptor().Number() < out[j].TypeDescriptor().Number() })
	return out
}

// Message draws a model value for md.
func Message(md protoreflect.MessageDescriptor, o MsgOpts) *rapid.Generator[*model.Msg] {
	return rapid.Custom(func(t *rapid.T) *model.Msg { return DrawMessage(t, md, o) })
}

func DrawMessage(t *rapid.T, md protoreflect.MessageDescriptor, o MsgOpts) *model.Msg {
	out := &model.Msg{}
	var cands []protoreflect.FieldDescriptor
	fs := md.Fields()
	for i := 0; i < fs.Len(); i++ {
		fd := fs.Get(i)
		if o.SkipField != nil && o.SkipField(fd) {
			continue
		}
		if o.NoGroups && fd.Kind() == protoreflect.GroupKind {
			continue
		}
		cands = append(cands, fd)
	}
	if o.Extensions && md.ExtensionRanges().Len() > 0 {
		ext := o.ExtTypes
		if ext == nil {
			ext = extensionsOf
		}
		for _, xt := range ext(md.FullName()) {
			fd := xt.TypeDescriptor()
			if o.SkipField != nil && o.SkipField(fd) {
				continue
			}
			cands = append(cands, fd)
		}
	}
	chosen := map[protoreflect.FieldNumber]bool{}
	oneofTaken := map[protoreflect.FullName]bool{}
	pick := func(fd protoreflect.FieldDescriptor) {
		if chosen[fd.Number()] {
			return
		}
		if od := fd.ContainingOneof(); od != nil {
			if oneofTaken[od.FullName()] {
				return
			}
			oneofTaken[od.FullName()] = true
		}
		if f, ok := drawField(t, fd, o); ok {
			chosen[fd.Number()] = true
			out.Fields = append(out.Fields, f)
		}
	}
	if o.FillRequired {
		for _, fd := range cands {
			if fd.Cardinality() == protoreflect.Required {
				if o.RequiredOmit > 0 && rapid.IntRange(0, o.RequiredOmit-1).Draw(t, "omitrequired") == 0 {
					continue
				}
				pick(fd)
			}
		}
	}
	if len(cands) > 0 {
		// choose a shape class first, then a field of that shape, so that maps / oneofs /
		// extensions / groups are not drowned by the many scalar fields of the big test messages
		groups := map[string][]protoreflect.FieldDescriptor{}
		var order []string
		for _, fd := range cands {
			s := shapeOf(fd)
			if groups[s] == nil {
				order = append(order, s)
			}
			groups[s] = append(groups[s], fd)
		}
		n := rapid.IntRange(0, o.MaxFields).Draw(t, "nfields")
		for i := 0; i < n; i++ {
			g := groups[order[rapid.IntRange(0, len(order)-1).Draw(t, "shape")]]
			pick(g[rapid.IntRange(0, len(g)-1).Draw(t, "field")])
		}
	}
	if o.Unknown && PreservesUnknown(md) && rapid.IntRange(0, 3).Draw(t, "unknown?") == 0 {
		out.Unknown = DrawUnknown(t, md, o)
	}
	return out
}

// DrawUnknown draws a well-formed field sequence over numbers md does not know
// (neither declared fields nor resolvable extensions).
func DrawUnknown(t *rapid.T, md protoreflect.MessageDescriptor, o MsgOpts) []byte {
	var free []int64
	for _, n := range []int64{1, 2, 3, 7, 15, 16, 100, 1000, 2047, 2048, 5000, 18999, 20000, 100000, 1 << 20, 1<<28 + 3, 1<<29 - 1} {
		if model.FieldDesc(md, int32(n), o.Resolver) == nil && !(md.ExtensionRanges().Has(protoreflect.FieldNumber(n)) && isMessageSet(md)) {
			free = append(free, n)
		}
	}
	if len(free) == 0 {
		return nil
	}
	return fieldSeq(t, nil, 2, 3, false, free)
}

func isMessageSet(md protoreflect.MessageDescriptor) bool {
	x, ok := md.(interface{ IsMessageSet() bool })
	return ok && x.IsMessageSet()
}

func drawField(t *rapid.T, fd protoreflect.FieldDescriptor, o MsgOpts) (model.Field, bool) {
	f := model.Field{Num: int32(fd.Number())}
	switch {
	case fd.IsMap():
		n := rapid.IntRange(1, max(1, o.MaxList)).Draw(t, "maplen")
		seen := map[string]bool{}
		for i := 0; i < n; i++ {
			k := drawScalar(t, fd.MapKey(), o)
			id := string(k.B) + "|" + string(rune(k.U)) + "|" + itoa(k.U)
			if seen[id] {
				continue
			}
			seen[id] = true
			v, ok := drawVal(t, fd.MapValue(), o)
			if !ok {
				return f, false
			}
			f.Keys = append(f.Keys, k)
			f.Vals = append(f.Vals, v)
		}
		return f, len(f.Keys) > 0
	case fd.IsList():
		n := rapid.IntRange(1, max(1, o.MaxList)).Draw(t, "listlen")
		for i := 0; i < n; i++ {
			v, ok := drawVal(t, fd, o)
			if !ok {
				return f, false
			}
			f.Vals = append(f.Vals, v)
		}
		return f, true
	default:
		v, ok := drawVal(t, fd, o)
		if !ok {
			return f, false
		}
		if fd.Message() == nil && !fd.HasPresence() && model.IsZero(fd, v) {
			return f, false // implicit presence: the zero value is "not populated"
		}
		f.Vals = []model.Val{v}
		return f, true
	}
}

func itoa(u uint64) string {
	b := [20]byte{}
	i := len(b)
	for {
		i--
		b[i] = byte('0' + u%10)
		u /= 10
		if u == 0 {
			break
		}
	}
	return string(b[i:])
}

func drawVal(t *rapid.T, fd protoreflect.FieldDescriptor, o MsgOpts) (model.Val, bool) {
	if sub := fd.Message(); sub != nil {
		if o.Depth <= 0 {
			if sub.RequiredNumbers().Len() > 0 && o.FillRequired && o.RequiredOmit == 0 {
				return model.Val{}, false // cannot build an initialised value within the depth budget
			}
			return model.Val{M: &model.Msg{}}, true
		}
		so := o
		so.Depth--
		if so.MaxFields > 3 {
			so.MaxFields = so.MaxFields*2/3 + 1
		}
		return model.Val{M: DrawMessage(t, sub, so)}, true
	}
	return drawScalar(t, fd, o), true
}

func drawScalar(t *rapid.T, fd protoreflect.FieldDescriptor, o MsgOpts) model.Val {
	switch fd.Kind() {
	case protoreflect.BoolKind:
		if rapid.Bool().Draw(t, "bool") {
			return model.Val{U: 1}
		}
		return model.Val{}
	case protoreflect.EnumKind:
		ed := fd.Enum()
		// google.protobuf.NullValue: protojson writes null for every number, so an undeclared number has
		// no JSON form; generators restricted to JSON-representable content (SkipField set) keep to 0
		jsonSafeNull := o.SkipField != nil && ed.FullName() == "google.protobuf.NullValue"
		if ed.IsClosed() || jsonSafeNull || rapid.IntRange(0, 2).Draw(t, "declared?") > 0 {
			vals := ed.Values()
			return model.Val{U: uint64(int64(vals.Get(rapid.IntRange(0, vals.Len()-1).Draw(t, "enumidx")).Number()))}
		}
		return model.Val{U: uint64(int64(Int32().Draw(t, "enumnum")))}
	case protoreflect.Int32Kind, protoreflect.Sint32Kind, protoreflect.Sfixed32Kind:
		return model.Val{U: uint64(int64(Int32().Draw(t, "i32")))}
	case protoreflect.Uint32Kind, protoreflect.Fixed32Kind:
		return model.Val{U: uint64(Uint32().Draw(t, "u32"))}
	case protoreflect.Int64Kind, protoreflect.Sint64Kind, protoreflect.Sfixed64Kind, protoreflect.Uint64Kind, protoreflect.Fixed64Kind:
		return model.Val{U: Uint64().Draw(t, "u64")}
	case protoreflect.FloatKind:
		return model.Val{U: uint64(Float32Bits().Draw(t, "f32"))}
	case protoreflect.DoubleKind:
		return model.Val{U: Float64Bits().Draw(t, "f64")}
	case protoreflect.StringKind:
		if o.ValidUTF8 || EnforcesUTF8(fd) || rapid.IntRange(0, 2).Draw(t, "validstr?") > 0 {
			return model.Val{B: []byte(ValidString(o.MaxBytes).Draw(t, "str"))}
		}
		return model.Val{B: Bytes(o.MaxBytes).Draw(t, "rawstr")}
	case protoreflect.BytesKind:
		return model.Val{B: Bytes(o.MaxBytes).Draw(t, "bytes")}
	}
	panic("drawScalar: composite")
}

// EnforcesUTF8 mirrors the documented rule: proto3 strings and editions utf8_validation=VERIFY.
// It asks the descriptor (strs.EnforceUTF8-equivalent) through the exported surface only.
func EnforcesUTF8(fd protoreflect.FieldDescriptor) bool {
	if xtd, ok := fd.(protoreflect.ExtensionTypeDescriptor); ok {
		fd = xtd.Descriptor() // extension fields are usually seen through their type's wrapper
	}
	if x, ok := fd.(interface{ EnforceUTF8() bool }); ok {
		return x.EnforceUTF8()
	}
	return fd.Syntax() == protoreflect.Proto3
}

// HasInvalidUTF8 reports whether any string field in the tree (validated or not) holds invalid UTF-8.
func HasInvalidUTF8(md protoreflect.MessageDescriptor, v *model.Msg, r model.Resolver) bool {
	if v == nil {
		return false
	}
	for _, f := range v.Fields {
		fd := model.FieldDesc(md, f.Num, r)
		if fd == nil {
			continue
		}
		check := func(d protoreflect.FieldDescriptor, x model.Val) bool {
			if d.Kind() == protoreflect.StringKind {
				return !utf8.Valid(x.B)
			}
			if d.Message() != nil {
				return HasInvalidUTF8(d.Message(), x.M, r)
			}
			return false
		}
		if fd.IsMap() {
			for i := range f.Keys {
				if check(fd.MapKey(), f.Keys[i]) || check(fd.MapValue(), f.Vals[i]) {
					return true
				}
			}
			continue
		}
		for _, x := range f.Vals {
			if check(fd, x) {
				return true
			}
		}
	}
	return false
}

// RapidChooser adapts *rapid.T to model.Chooser.
type RapidChooser struct{ T *rapid.T }

func (c RapidChooser) Intn(n int, label string) int {
	if n <= 1 {
		return 0
	}
	return rapid.IntRange(0, n-1).Draw(c.T, label)
}

func shapeOf(fd protoreflect.FieldDescriptor) string {
	switch {
	case fd.IsExtension():
		return "extension"
	case fd.IsMap():
		return "map"
	case fd.ContainingOneof() != nil && !fd.ContainingOneof().IsSynthetic():
		return "oneof"
	case fd.Kind() == protoreflect.GroupKind:
		return "group"
	case fd.IsList() && fd.Message() != nil:
		return "msglist"
	case fd.IsList():
		return "list"
	case fd.Message() != nil:
		return "message"
	}
	return "scalar"
}

// TypeName draws a type name: half of the time from rich (many-field) types, else from all.
func TypeName(all, rich []string) *rapid.Generator[string] {
	return rapid.Custom(func(t *rapid.T) string {
		if len(rich) > 0 && rapid.Bool().Draw(t, "rich") {
			return rapid.SampledFrom(rich).Draw(t, "type")
		}
		return rapid.SampledFrom(all).Draw(t, "type")
	})
}

var preservesCache sync.Map

// PreservesUnknown reports whether messages described by md can hold unknown fields. Only the
// historical generations under internal/testprotos/legacy (proto3 code generated before
// unknown-field preservation existed) may answer false; every other type must preserve them.
func PreservesUnknown(md protoreflect.MessageDescriptor) bool {
	if md.ParentFile() == nil {
		return true // descriptor derived from a hand-written Go type
	}
	path := md.ParentFile().Path()
	if !(strings.HasPrefix(path, "proto2_20") || strings.HasPrefix(path, "proto3_20")) {
		return true
	}
	if v, ok := preservesCache.Load(md.FullName()); ok {
		return v.(bool)
	}
	mt, err := protoregistry.GlobalTypes.FindMessageByName(md.FullName())
	res := true
	if err == nil {
		m := mt.New()
		m.SetUnknown(protoreflect.RawFields{0x08, 0x00})
		res = len(m.GetUnknown()) > 0
	}
	preservesCache.Store(md.FullName(), res)
	return res
}

var treePreservesCache sync.Map

// TreePreservesUnknown reports whether md and every message type reachable from it can hold
// unknown fields (see PreservesUnknown).
func TreePreservesUnknown(md protoreflect.MessageDescriptor) bool {
	if v, ok := treePreservesCache.Load(md.FullName()); ok {
		return v.(bool)
	}
	res := treePreserves(md, map[protoreflect.FullName]bool{})
	treePreservesCache.Store(md.FullName(), res)
	return res
}

func treePreserves(md protoreflect.MessageDescriptor, seen map[protoreflect.FullName]bool) bool {
	if seen[md.FullName()] {
		return true
	}
	seen[md.FullName()] = true
	if !PreservesUnknown(md) {
		return false
	}
	fs := md.Fields()
	for i := 0; i < fs.Len(); i++ {
		sub := fs.Get(i).Message()
		if fs.Get(i).IsMap() {
			sub = fs.Get(i).MapValue().Message()
		}
		if sub != nil && !treePreserves(sub, seen) {
			return false
		}
	}
	return true
}

// DrawField draws a value for one field (exported for generators that target given fields).
func DrawField(t *rapid.T, fd protoreflect.FieldDescriptor, o MsgOpts) (model.Field, bool) {
	return drawField(t, fd, o)
}

// DrawColliding draws a second message of md that shares populated fields with a: for each
// field of a, with probability 1/2, b gets the same field with a fresh value (recursively for
// singular message fields), on top of an independent small draw. At most one member per oneof.
func DrawColliding(t *rapid.T, md protoreflect.MessageDescriptor, a *model.Msg, o MsgOpts) *model.Msg {
	so := o
	so.MaxFields = 2
	b := DrawMessage(t, md, so)
	if a == nil {
		return b
	}
	for _, f := range a.Fields {
		if !rapid.Bool().Draw(t, "collide") {
			continue
		}
		fd := model.FieldDesc(md, f.Num, o.Resolver)
		if fd == nil {
			continue
		}
		var nf model.Field
		ok := true
		if fd.Message() != nil && !fd.IsList() && !fd.IsMap() && o.Depth > 0 {
			do := o
			do.Depth--
			nf = model.Field{Num: f.Num, Vals: []model.Val{{M: DrawColliding(t, fd.Message(), f.Vals[0].M, do)}}}
		} else if fd.IsMap() && rapid.Bool().Draw(t, "samekeys") {
			// same keys, fresh values
			nf = model.Field{Num: f.Num}
			for _, k := range f.Keys {
				v, vok := drawVal(t, fd.MapValue(), o)
				if !vok {
					ok = false
					break
				}
				nf.Keys = append(nf.Keys, k)
				nf.Vals = append(nf.Vals, v)
			}
		} else {
			nf, ok = drawField(t, fd, o)
		}
		if !ok {
			continue
		}
		if od := fd.ContainingOneof(); od != nil {
			for i := 0; i < od.Fields().Len(); i++ {
				b.Del(int32(od.Fields().Get(i).Number()))
			}
		}
		b.Put(nf)
	}
	return b
}

// ConstrainedJSON lists the well-known types whose JSON/text forms accept only part of the
// values their fields can hold (ranges, resolvable URLs, reversible paths, finite numbers).
var ConstrainedJSON = map[protoreflect.FullName]bool{
	"google.protobuf.Any": true, "google.protobuf.FieldMask": true, "google.protobuf.Timestamp": true,
	"google.protobuf.Duration": true, "google.protobuf.Value": true, "google.protobuf.Struct": true, "google.protobuf.ListValue": true,
}

// SkipConstrainedJSON is a MsgOpts.SkipField that leaves out fields of those types, so that every
// generated message is representable in JSON and text.
func SkipConstrainedJSON(fd protoreflect.FieldDescriptor) bool {
	sub := fd.Message()
	if fd.IsMap() {
		sub = fd.MapValue().Message()
	}
	return sub != nil && ConstrainedJSON[sub.FullName()]
}

// DrawScalarOrZero draws a scalar for fd, the zero value a quarter of the time (setting an
// explicit-presence field to its default, or an implicit-presence field to "nothing").
func DrawScalarOrZero(t *rapid.T, fd protoreflect.FieldDescriptor, o MsgOpts) model.Val {
	if rapid.IntRange(0, 3).Draw(t, "zero?") == 0 {
		if fd.Kind() == protoreflect.EnumKind && fd.Enum().IsClosed() && fd.Enum().Values().ByNumber(0) == nil {
			return model.Val{U: uint64(int64(fd.Enum().Values().Get(0).Number()))}
		}
		return model.Val{}
	}
	return drawScalar(t, fd, o)
}
