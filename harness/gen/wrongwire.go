package gen

import (
	"google.golang.org/protobuf/reflect/protoreflect"
	"google.golang.org/protobuf/zverif/ref"
	"pgregory.net/rapid"
)

// naturalWireTypes lists the wire types under which a record of fd is decoded as the field.
func naturalWireTypes(fd protoreflect.FieldDescriptor) map[int]bool {
	out := map[int]bool{}
	switch fd.Kind() {
	case protoreflect.BoolKind, protoreflect.EnumKind, protoreflect.Int32Kind, protoreflect.Sint32Kind, protoreflect.Uint32Kind,
		protoreflect.Int64Kind, protoreflect.Sint64Kind, protoreflect.Uint64Kind:
		out[0] = true
	case protoreflect.Fixed32Kind, protoreflect.Sfixed32Kind, protoreflect.FloatKind:
		out[5] = true
	case protoreflect.Fixed64Kind, protoreflect.Sfixed64Kind, protoreflect.DoubleKind:
		out[1] = true
	case protoreflect.GroupKind:
		out[3] = true
	default:
		out[2] = true
	}
	if fd.IsList() && !out[2] && !out[3] {
		out[2] = true // packed form
	}
	return out
}

// InjectWrongWire inserts 1..3 well-formed records that carry the number of a *declared* field of
// md (oneof members preferred: they need not be present in enc) under a wire type the field is
// never encoded with, at record boundaries of enc or, sometimes, inside the payload of a message
// field. Such records are valid input: every decoder must keep them as unknown fields and must not
// touch the field (or its oneof). Returns enc unchanged if it is not a well-formed field sequence.
func InjectWrongWire(t *rapid.T, md protoreflect.MessageDescriptor, enc []byte) []byte {
	return injectWrongWire(t, md, enc, 2)
}

func injectWrongWire(t *rapid.T, md protoreflect.MessageDescriptor, enc []byte, depth int) []byte {
	recs, ok := ref.Split(enc)
	if !ok || md.Fields().Len() == 0 {
		return enc
	}
	// descend into a present message field sometimes
	if depth > 0 {
		var subs []int
		for i, r := range recs {
			if fd := md.Fields().ByNumber(protoreflect.FieldNumber(r.Num)); fd != nil && r.Typ == 2 && fd.Kind() == protoreflect.MessageKind && !fd.IsMap() && r.Num > 0 {
				subs = append(subs, i)
			}
		}
		if len(subs) > 0 && rapid.IntRange(0, 2).Draw(t, "ww-descend") == 0 {
			at := subs[rapid.IntRange(0, len(subs)-1).Draw(t, "ww-sub")]
			fd := md.Fields().ByNumber(protoreflect.FieldNumber(recs[at].Num))
			p := injectWrongWire(t, fd.Message(), recs[at].Payload(), depth-1)
			var out []byte
			for i, r := range recs {
				if i == at {
					out = append(ref.Varint(ref.Tag(out, r.Num, 2), uint64(len(p))), p...)
				} else {
					out = append(out, r.Raw...)
				}
			}
			return out
		}
	}
	var members, all []protoreflect.FieldDescriptor
	for i := 0; i < md.Fields().Len(); i++ {
		fd := md.Fields().Get(i)
		all = append(all, fd)
		if fd.ContainingOneof() != nil {
			members = append(members, fd)
		}
	}
	n := rapid.IntRange(1, 3).Draw(t, "ww-count")
	for k := 0; k < n; k++ {
		pool := all
		if len(members) > 0 && rapid.Bool().Draw(t, "ww-member") {
			pool = members
		}
		fd := pool[rapid.IntRange(0, len(pool)-1).Draw(t, "ww-field")]
		nat := naturalWireTypes(fd)
		var wts []int
		for _, wt := range []int{0, 1, 2, 5, 3} {
			if !nat[wt] {
				wts = append(wts, wt)
			}
		}
		wt := wts[rapid.IntRange(0, len(wts)-1).Draw(t, "ww-type")]
		num := int64(fd.Number())
		rec := ref.Tag(nil, num, wt)
		switch wt {
		case 0:
			rec = ref.Varint(rec, rapid.SampledFrom([]uint64{0, 1, 42, 1<<64 - 1}).Draw(t, "ww-v"))
		case 1:
			rec = ref.Fixed64(rec, 7)
		case 5:
			rec = ref.Fixed32(rec, 7)
		case 2:
			p := rapid.SampledFrom([][]byte{{}, {0x08, 0x01}, {0xff}, []byte("keep")}).Draw(t, "ww-bytes")
			rec = append(ref.Varint(rec, uint64(len(p))), p...)
		case 3:
			rec = ref.Tag(rec, num, 4)
		}
		recs, _ = ref.Split(enc)
		at := rapid.IntRange(0, len(recs)).Draw(t, "ww-at")
		var out []byte
		for i, r := range recs {
			if i == at {
				out = append(out, rec...)
			}
			out = append(out, r.Raw...)
		}
		if at == len(recs) {
			out = append(out, rec...)
		}
		enc = out
	}
	return enc
}
