package gen

// Content generators for the well-known types whose JSON form accepts only part of the values
// their fields can hold (C20, C24): Timestamp, Duration, FieldMask, Value/Struct/ListValue, Any.
// DrawMessage treats them as plain messages (and so draws mostly unrepresentable content);
// DrawMessageWKT leaves them out of the plain draw and populates them from these generators, at
// every depth of the tree, with a controlled share of out-of-domain content.

import (
	"google.golang.org/protobuf/reflect/protoreflect"
	"google.golang.org/protobuf/reflect/protoregistry"
	"google.golang.org/protobuf/zverif/model"
	"google.golang.org/protobuf/zverif/ref"
	"pgregory.net/rapid"
)

// WKTOpts steers the constrained-content generators.
type WKTOpts struct {
	Bad      int      // one in Bad constrained values is drawn outside the JSON-representable domain (0 = never)
	BadUTF8  bool     // the out-of-domain classes may put invalid UTF-8 into validated (proto3) strings
	AnyTypes []string // registered full names to embed in Any
	P        int      // each constrained field of a visited message is populated with probability 1/P (default 3)
	AnyDepth int      // nesting budget for Any payloads (payload of payload …)
}

const (
	tsMin  = -62135596800
	tsMax  = 253402300799
	durMax = 315576000000
)

func (w WKTOpts) bad(t *rapid.T) bool {
	return w.Bad > 0 && rapid.IntRange(0, w.Bad-1).Draw(t, "bad?") == 0
}

func secNanos(s int64, n int32) *model.Msg {
	m := &model.Msg{}
	if s != 0 {
		m.Fields = append(m.Fields, model.Field{Num: 1, Vals: []model.Val{{U: uint64(s)}}})
	}
	if n != 0 {
		m.Fields = append(m.Fields, model.Field{Num: 2, Vals: []model.Val{{U: uint64(int64(n))}}})
	}
	return m
}

var tsSeconds = []int64{tsMin, tsMin + 1, tsMax, tsMax - 1, 0, 1, -1, 59, 60, 86399, 86400, -86400,
	951782400, 951868799, 951868800, 4107542399, 4107542400, -2208988800, 1e9, 1234567890, 253370764800, -62135596800 + 86400*365,
	68256000, 94694400, 946684799, 946684800, 13569465600 /* 2400-01-01 */, 13574563200 /* 2400-02-29 */, -11644473600}

var goodNanos = []int32{0, 1, 9, 10, 100, 999, 1000, 1001, 999000, 999999, 1000000, 1000001, 100000000, 120000000, 123000000,
	123400000, 123456000, 123456700, 123456789, 500000000, 999000000, 999999000, 999999999}

func drawNanos(t *rapid.T) int32 {
	if rapid.Bool().Draw(t, "nanospool") {
		return rapid.SampledFrom(goodNanos).Draw(t, "nanos")
	}
	return int32(rapid.IntRange(0, 999999999).Draw(t, "nanos"))
}

// DrawTimestamp draws a Timestamp; bad selects content outside [0001-01-01, 9999-12-31] x [0, 1e9).
func DrawTimestamp(t *rapid.T, bad bool) *model.Msg {
	var s int64
	if rapid.Bool().Draw(t, "secpool") {
		s = rapid.SampledFrom(tsSeconds).Draw(t, "sec")
	} else {
		s = rapid.Int64Range(tsMin, tsMax).Draw(t, "sec")
	}
	n := drawNanos(t)
	if bad {
		switch rapid.IntRange(0, 3).Draw(t, "tsbad") {
		case 0:
			s = rapid.SampledFrom([]int64{tsMin - 1, tsMin - 86400, -1 << 63, -1 << 40}).Draw(t, "seclow")
		case 1:
			s = rapid.SampledFrom([]int64{tsMax + 1, tsMax + 86400, 1<<63 - 1, 1 << 40}).Draw(t, "sechigh")
		case 2:
			n = rapid.SampledFrom([]int32{-1, -999999999, -1 << 31, -1000000000}).Draw(t, "nanosneg")
		default:
			n = rapid.SampledFrom([]int32{1000000000, 1000000001, 1<<31 - 1, 2000000000}).Draw(t, "nanoshigh")
		}
	}
	return secNanos(s, n)
}

var durSeconds = []int64{0, 0, 1, -1, 59, 60, 3600, 86400, durMax, -durMax, durMax - 1, -durMax + 1, 1e9, -1e9, 315576000, 9007199254740993 % durMax}

// DrawDuration draws a Duration; bad selects out-of-range fields or disagreeing signs.
func DrawDuration(t *rapid.T, bad bool) *model.Msg {
	var s int64
	if rapid.Bool().Draw(t, "secpool") {
		s = rapid.SampledFrom(durSeconds).Draw(t, "sec")
	} else {
		s = rapid.Int64Range(-durMax, durMax).Draw(t, "sec")
	}
	n := drawNanos(t)
	neg := s < 0 || s == 0 && rapid.Bool().Draw(t, "negnanos")
	if neg {
		n = -n
	}
	if bad {
		switch rapid.IntRange(0, 3).Draw(t, "durbad") {
		case 0:
			s = rapid.SampledFrom([]int64{durMax + 1, -durMax - 1, 1<<63 - 1, -1 << 63, 1 << 40}).Draw(t, "secout")
			if s < 0 && n > 0 || s > 0 && n < 0 {
				n = -n
			}
		case 1:
			n = rapid.SampledFrom([]int32{1000000000, -1000000000, 1<<31 - 1, -1 << 31}).Draw(t, "nanosout")
			if n < 0 && s > 0 || n > 0 && s < 0 {
				s = -s
			}
		default: // signs disagree
			if s == 0 {
				s = rapid.SampledFrom([]int64{1, -1, durMax, -durMax}).Draw(t, "sec1")
			}
			if n == 0 {
				n = rapid.SampledFrom([]int32{1, 999999999, 1000}).Draw(t, "nanos1")
			}
			if n < 0 {
				n = -n
			}
			if s > 0 {
				n = -n
			}
		}
	}
	return secNanos(s, n)
}

var (
	maskGoodSegs = []string{"a", "foo", "foo_bar", "foo_bar_baz", "f", "x1", "foo1_bar2", "a_b_c_d", "_foo", "_a_b", "user", "display_name", "z9", "f_b"}
	maskIrrevSegs = []string{"fooBar", "Foo", "foo__bar", "foo_", "foo_1", "foo_Bar", "_", "__", "_1", "A", "a_B", "x_", "camelCase", "foo_bar_", "foo_9x"}
	maskInvalid   = []string{"", ".", "a..b", ".a", "a.", "1a", "a b", "a,b", "a-b", "a/b", "é", "a.1", "foo.bar baz", "a\x00", " a", "a*"}
)

// DrawFieldMask draws a FieldMask; bad adds an irreversible or an invalid path.
func DrawFieldMask(t *rapid.T, bad bool, badUTF8 bool) *model.Msg {
	n := rapid.IntRange(0, 4).Draw(t, "npaths")
	var paths []string
	for i := 0; i < n; i++ {
		k := rapid.IntRange(1, 3).Draw(t, "nseg")
		p := ""
		for j := 0; j < k; j++ {
			if j > 0 {
				p += "."
			}
			p += rapid.SampledFrom(maskGoodSegs).Draw(t, "seg")
		}
		paths = append(paths, p)
	}
	if bad {
		var p string
		switch rapid.IntRange(0, 3).Draw(t, "maskbad") {
		case 0:
			p = rapid.SampledFrom(maskIrrevSegs).Draw(t, "irrev")
		case 1:
			p = rapid.SampledFrom(maskGoodSegs).Draw(t, "pre") + "." + rapid.SampledFrom(maskIrrevSegs).Draw(t, "irrev")
		case 2:
			p = rapid.SampledFrom(maskInvalid).Draw(t, "invalid")
		default:
			if badUTF8 {
				p = "a" + rapid.SampledFrom(InvalidUTF8).Draw(t, "badutf8")
			} else {
				p = rapid.SampledFrom(maskIrrevSegs).Draw(t, "irrev") + "." + rapid.SampledFrom(maskGoodSegs).Draw(t, "post")
			}
		}
		i := rapid.IntRange(0, len(paths)).Draw(t, "at")
		paths = append(paths[:i:i], append([]string{p}, paths[i:]...)...)
	}
	m := &model.Msg{}
	if len(paths) > 0 {
		f := model.Field{Num: 1}
		for _, p := range paths {
			f.Vals = append(f.Vals, model.Val{B: []byte(p)})
		}
		m.Fields = []model.Field{f}
	}
	return m
}

var valueNumbers = []uint64{0, 0x8000000000000000, 0x3ff0000000000000, 0xbff0000000000000, 0x3fb999999999999a, 0x4340000000000000,
	0x7fefffffffffffff, 0xffefffffffffffff, 1, 0x0010000000000000, 0x444b1ae4d6e2ef50, 0x3eb0c6f7a0b5ed8d, 0x40091eb851eb851f, 0x43e0000000000000}

// wktDraw carries the options and a countdown of out-of-domain insertions still wanted; a bad
// Value tree contains exactly one defect so that the verdict depends on that defect alone.
type valueDraw struct {
	t       *rapid.T
	badUTF8 bool
}

func (d valueDraw) str() []byte { return []byte(ValidString(24).Draw(d.t, "vstr")) }

// DrawValue draws a structpb.Value tree of the given depth budget. bad plants one defect
// (kind-less Value, non-finite number, invalid UTF-8 in a string or key) somewhere in the tree.
func DrawValue(t *rapid.T, depth int, bad, badUTF8 bool) *model.Msg {
	return valueDraw{t, badUTF8}.value(depth, bad)
}

func (d valueDraw) value(depth int, bad bool) *model.Msg {
	t := d.t
	one := func(num int32, v model.Val) *model.Msg {
		return &model.Msg{Fields: []model.Field{{Num: num, Vals: []model.Val{v}}}}
	}
	hi := 5
	if depth <= 0 {
		hi = 3
	}
	k := rapid.IntRange(0, hi).Draw(t, "vkind")
	if bad && k < 4 {
		// plant the defect here
		max := 1
		if d.badUTF8 {
			max = 2
		}
		switch rapid.IntRange(0, max).Draw(t, "vbad") {
		case 0:
			return &model.Msg{} // no kind
		case 1:
			return one(2, model.Val{U: rapid.SampledFrom([]uint64{0x7ff0000000000000, 0xfff0000000000000, 0x7ff8000000000001, 0xfff8000000000000}).Draw(t, "nonfinite")})
		default:
			return one(3, model.Val{B: []byte("x" + rapid.SampledFrom(InvalidUTF8).Draw(t, "badutf8"))})
		}
	}
	switch k {
	case 0:
		return one(1, model.Val{})
	case 1:
		var u uint64
		switch rapid.IntRange(0, 2).Draw(t, "numclass") {
		case 0:
			u = rapid.SampledFrom(valueNumbers).Draw(t, "num")
		case 1:
			u = Float64Bits().Draw(t, "num")
		default:
			u = rapid.Uint64().Draw(t, "num")
		}
		if u&0x7ff0000000000000 == 0x7ff0000000000000 { // keep it finite
			u &^= 0x0010000000000000
		}
		return one(2, model.Val{U: u})
	case 2:
		return one(3, model.Val{B: d.str()})
	case 3:
		v := model.Val{}
		if rapid.Bool().Draw(t, "b") {
			v.U = 1
		}
		return one(4, v)
	case 4:
		return one(5, model.Val{M: d.strct(depth-1, bad)})
	default:
		return one(6, model.Val{M: d.list(depth-1, bad)})
	}
}

func (d valueDraw) strct(depth int, bad bool) *model.Msg {
	t := d.t
	n := rapid.IntRange(0, 3).Draw(t, "nkeys")
	if bad && n == 0 {
		n = 1
	}
	badAt := -1
	if bad {
		badAt = rapid.IntRange(0, n-1).Draw(t, "badat")
	}
	f := model.Field{Num: 1}
	seen := map[string]bool{}
	for i := 0; i < n; i++ {
		k := string(d.str())
		if i == badAt && d.badUTF8 && rapid.IntRange(0, 3).Draw(t, "badkey") == 0 {
			k = "k" + rapid.SampledFrom(InvalidUTF8).Draw(t, "badutf8")
			if !seen[k] {
				seen[k] = true
				f.Keys = append(f.Keys, model.Val{B: []byte(k)})
				f.Vals = append(f.Vals, model.Val{M: d.value(depth, false)})
				continue
			}
		}
		for seen[k] {
			k += string(rune('a' + i))
		}
		seen[k] = true
		f.Keys = append(f.Keys, model.Val{B: []byte(k)})
		f.Vals = append(f.Vals, model.Val{M: d.value(depth, i == badAt)})
	}
	m := &model.Msg{}
	if len(f.Keys) > 0 {
		m.Fields = []model.Field{f}
	}
	return m
}

func (d valueDraw) list(depth int, bad bool) *model.Msg {
	t := d.t
	n := rapid.IntRange(0, 3).Draw(t, "nvals")
	if bad && n == 0 {
		n = 1
	}
	badAt := -1
	if bad {
		badAt = rapid.IntRange(0, n-1).Draw(t, "badat")
	}
	f := model.Field{Num: 1}
	for i := 0; i < n; i++ {
		f.Vals = append(f.Vals, model.Val{M: d.value(depth, i == badAt)})
	}
	m := &model.Msg{}
	if n > 0 {
		m.Fields = []model.Field{f}
	}
	return m
}

// DrawStruct / DrawListValue draw the aggregate forms directly.
func DrawStruct(t *rapid.T, depth int, bad, badUTF8 bool) *model.Msg {
	return valueDraw{t, badUTF8}.strct(depth, bad)
}
func DrawListValue(t *rapid.T, depth int, bad, badUTF8 bool) *model.Msg {
	return valueDraw{t, badUTF8}.list(depth, bad)
}

var (
	anyPrefixes = []string{"type.googleapis.com/", "type.googleapis.com/", "type.googleapis.com/", "/", "example.com/a/b/", "x/", "type.googleprod.com/", "foo.bar-baz_1/", "a.b.c/d.e/", "a%20b/", "~!$&()*+,;=/"}
	// URLs outside the alphabet the text format can write between brackets (scheme, leading slash,
	// blanks, non-ASCII, bad percent escapes, query / fragment / bracket / quote characters)
	anyOddPrefixes = []string{"https://example.com/", "http://type.googleapis.com/", "/x/", "//", "a b/", "ü/", "a%zz/", "x?y=z/", "[x]/", "a#b/", "\"/", "a:b/", "@/"}
)

func drawAnyPrefix(t *rapid.T) string {
	if rapid.IntRange(0, 3).Draw(t, "charprefix") == 0 {
		// every printable ASCII character (and a few others) gets its turn in the prefix: whether a
		// character may appear between brackets is decided per character by encoder and decoder
		n := rapid.IntRange(1, 4).Draw(t, "prefixlen")
		b := []byte("h")
		for i := 0; i < n; i++ {
			b = append(b, byte(rapid.IntRange(0x20, 0x7e).Draw(t, "prefixchar")))
		}
		return string(b) + "/"
	}
	if rapid.IntRange(0, 5).Draw(t, "oddprefix") == 0 {
		return rapid.SampledFrom(anyOddPrefixes).Draw(t, "prefix")
	}
	return rapid.SampledFrom(anyPrefixes).Draw(t, "prefix")
}

// DrawAny draws an Any. Good ones hold a registered type's encoding (canonical, or perturbed
// with unknown fields); bad ones are unresolvable (unknown or empty name, empty URL with a
// value) or carry a payload that is not an encoding of the named type.
func DrawAny(t *rapid.T, o MsgOpts, w WKTOpts, bad bool) *model.Msg {
	if len(w.AnyTypes) == 0 || !bad && rapid.IntRange(0, 9).Draw(t, "emptyany") == 0 {
		return &model.Msg{}
	}
	name := rapid.SampledFrom(w.AnyTypes).Draw(t, "anytype")
	mt, err := protoregistry.GlobalTypes.FindMessageByName(protoreflect.FullName(name))
	if err != nil {
		panic("gen.DrawAny: " + name + " is not registered")
	}
	md := mt.Descriptor()
	url := drawAnyPrefix(t) + name
	eo := o
	eo.Depth--
	if eo.Depth < 0 {
		eo.Depth = 0
	}
	if eo.MaxFields > 4 {
		eo.MaxFields = 4
	}
	ew := w
	ew.AnyDepth--
	if ew.AnyDepth <= 0 {
		ew.AnyTypes = nil // innermost Any values are empty
	}
	ew.Bad = 0
	if w.Bad > 0 {
		ew.Bad = w.Bad * 4 // an unrepresentable payload content, occasionally
	}
	emb := DrawMessageWKT(t, md, eo, ew)
	var payload []byte
	if rapid.Bool().Draw(t, "canonical") {
		payload = model.Encode(md, emb, nil, model.EncOpts{SortFields: true}, o.Resolver)
	} else {
		payload = model.Encode(md, emb, RapidChooser{T: t}, model.AllPerturbations, o.Resolver)
	}
	if bad {
		switch rapid.IntRange(0, 5).Draw(t, "anybad") {
		case 0:
			url = rapid.SampledFrom(anyPrefixes).Draw(t, "prefix") + rapid.SampledFrom([]string{"no.such.Type", "pb2.Nestedx", "", "pb2", "google.protobuf", "pb2.Nested.", ".pb2.Nested", "pb2 .Nested"}).Draw(t, "unknown")
		case 1:
			url = "" // value without a type
			if len(payload) == 0 {
				payload = []byte{0x08, 0x01}
			}
		case 2:
			url += "/" // the name is what follows the last slash
		case 3: // truncated payload
			if len(payload) < 2 {
				payload = []byte{0x0a, 0x05, 'a'}
			} else {
				payload = payload[:len(payload)-1]
				if _, ok := splitOK(payload); ok { // cutting may leave a whole encoding: append an unfinished tag
					payload = append(payload, 0x80)
				}
			}
		case 4: // invalid tag / wire type
			payload = append(payload, rapid.SampledFrom([][]byte{{0x07}, {0x00}, {0x0c}, {0x0f, 0x01}, {0xff, 0xff, 0xff, 0xff, 0xff, 0xff, 0xff, 0xff, 0xff, 0xff, 0x01}}).Draw(t, "junk")...)
		default: // end-group without start / unterminated group
			payload = append(payload, rapid.SampledFrom([][]byte{{0x0c}, {0x0b}, {0x0b, 0x14}}).Draw(t, "grp")...)
		}
	}
	m := &model.Msg{}
	if url != "" {
		m.Fields = append(m.Fields, model.Field{Num: 1, Vals: []model.Val{{B: []byte(url)}}})
	}
	if len(payload) > 0 {
		m.Fields = append(m.Fields, model.Field{Num: 2, Vals: []model.Val{{B: payload}}})
	}
	return m
}

func splitOK(b []byte) (int, bool) {
	n := 0
	for len(b) > 0 {
		_, _, k, d := ref.ConsumeField(b)
		if d != 0 {
			return n, false
		}
		b = b[k:]
		n++
	}
	return n, true
}

// DrawConstrained draws content for one of the ConstrainedJSON types.
func DrawConstrained(t *rapid.T, md protoreflect.MessageDescriptor, o MsgOpts, w WKTOpts) *model.Msg {
	bad := w.bad(t)
	switch md.FullName() {
	case "google.protobuf.Timestamp":
		return DrawTimestamp(t, bad)
	case "google.protobuf.Duration":
		return DrawDuration(t, bad)
	case "google.protobuf.FieldMask":
		return DrawFieldMask(t, bad, w.BadUTF8)
	case "google.protobuf.Value":
		return DrawValue(t, 2, bad, w.BadUTF8)
	case "google.protobuf.Struct":
		return DrawStruct(t, 2, bad, w.BadUTF8)
	case "google.protobuf.ListValue":
		return DrawListValue(t, 2, bad, w.BadUTF8)
	case "google.protobuf.Any":
		return DrawAny(t, o, w, bad)
	}
	panic("gen.DrawConstrained: " + string(md.FullName()))
}

// DrawMessageWKT draws a model value of md like DrawMessage, with the constrained well-known
// types (as the type itself, as fields at any depth, inside Any payloads) drawn by the content
// generators above. NullValue enum fields only take the declared value.
func DrawMessageWKT(t *rapid.T, md protoreflect.MessageDescriptor, o MsgOpts, w WKTOpts) *model.Msg {
	if ConstrainedJSON[md.FullName()] {
		return DrawConstrained(t, md, o, w)
	}
	po := o
	inner := o.SkipField
	po.SkipField = func(fd protoreflect.FieldDescriptor) bool {
		return SkipConstrainedJSON(fd) || inner != nil && inner(fd)
	}
	m := DrawMessage(t, md, po)
	decorate(t, md, m, o, w)
	return m
}

func decorate(t *rapid.T, md protoreflect.MessageDescriptor, m *model.Msg, o MsgOpts, w WKTOpts) {
	if m == nil || ConstrainedJSON[md.FullName()] {
		return
	}
	p := w.P
	if p <= 0 {
		p = 3
	}
	// recurse first (the plain part of the tree)
	for i := range m.Fields {
		f := &m.Fields[i]
		fd := model.FieldDesc(md, f.Num, o.Resolver)
		if fd == nil {
			continue
		}
		sub := fd.Message()
		if fd.IsMap() {
			sub = fd.MapValue().Message()
		}
		if sub == nil {
			continue
		}
		for j := range f.Vals {
			if f.Vals[j].M == nil {
				f.Vals[j].M = &model.Msg{}
			}
			decorate(t, sub, f.Vals[j].M, o, w)
		}
	}
	// NullValue enums: declared value only (null is the only JSON form)
	for i := range m.Fields {
		f := &m.Fields[i]
		fd := model.FieldDesc(md, f.Num, o.Resolver)
		if fd == nil {
			continue
		}
		ed := fd.Enum()
		if fd.IsMap() {
			ed = fd.MapValue().Enum()
		}
		if ed != nil && ed.FullName() == "google.protobuf.NullValue" {
			for j := range f.Vals {
				f.Vals[j].U = 0
			}
		}
	}
	*m = *model.Normalize(md, m, o.Resolver) // a NullValue forced to 0 in an implicit-presence field is "unset"
	fs := md.Fields()
	for i := 0; i < fs.Len(); i++ {
		fd := fs.Get(i)
		if !SkipConstrainedJSON(fd) || o.SkipField != nil && o.SkipField(fd) {
			continue
		}
		if rapid.IntRange(0, p-1).Draw(t, "wkt?") != 0 {
			continue
		}
		if od := fd.ContainingOneof(); od != nil {
			taken := false
			for j := 0; j < od.Fields().Len(); j++ {
				if m.Get(int32(od.Fields().Get(j).Number())) != nil {
					taken = true
				}
			}
			if taken {
				continue
			}
		}
		f := model.Field{Num: int32(fd.Number())}
		switch {
		case fd.IsMap():
			n := rapid.IntRange(1, 3).Draw(t, "wktmap")
			seen := map[string]bool{}
			for j := 0; j < n; j++ {
				k := drawScalar(t, fd.MapKey(), o)
				id := string(k.B) + "|" + itoa(k.U)
				if seen[id] {
					continue
				}
				seen[id] = true
				f.Keys = append(f.Keys, k)
				f.Vals = append(f.Vals, model.Val{M: DrawConstrained(t, fd.MapValue().Message(), o, w)})
			}
		case fd.IsList():
			n := rapid.IntRange(1, 3).Draw(t, "wktlist")
			for j := 0; j < n; j++ {
				f.Vals = append(f.Vals, model.Val{M: DrawConstrained(t, fd.Message(), o, w)})
			}
		default:
			f.Vals = []model.Val{{M: DrawConstrained(t, fd.Message(), o, w)}}
		}
		m.Put(f)
	}
}
