package gen

import (
	"google.golang.org/protobuf/zverif/ref"
	"pgregory.net/rapid"
)

// FieldNum draws a field number in [1, 2^29-1] biased to tag-size boundaries.
func FieldNum() *rapid.Generator[int64] {
	return rapid.Custom(func(t *rapid.T) int64 {
		switch rapid.IntRange(0, 3).Draw(t, "numclass") {
		case 0:
			return int64(rapid.IntRange(1, 20).Draw(t, "small"))
		case 1:
			return rapid.SampledFrom([]int64{1, 15, 16, 17, 2047, 2048, 2049, 262143, 262144, 18999, 19000, 19999, 20000, 1<<28 - 1, 1 << 28, 1<<29 - 2, 1<<29 - 1}).Draw(t, "bound")
		case 2:
			k := rapid.IntRange(1, 29).Draw(t, "k")
			v := int64(1)<<uint(k) + int64(rapid.IntRange(-1, 1).Draw(t, "d"))
			if v < 1 {
				v = 1
			}
			if v > 1<<29-1 {
				v = 1<<29 - 1
			}
			return v
		default:
			return int64(rapid.IntRange(1, 1<<29-1).Draw(t, "any"))
		}
	})
}

// padVarint appends v either minimal or padded (denormalised) depending on a draw.
func padVarint(t *rapid.T, b []byte, v uint64, denorm bool) []byte {
	if denorm && rapid.IntRange(0, 3).Draw(t, "pad?") == 0 {
		n := ref.VarintLen(v) + rapid.IntRange(1, 3).Draw(t, "pad")
		return ref.VarintPadded(b, v, n)
	}
	return ref.Varint(b, v)
}

// FieldSeq draws a well-formed sequence of field records (all wire types, nested groups up
// to depth, denormalised varints for tags / lengths / values when denorm is set).
// nums, when non-nil, restricts the field numbers used at the top level.
func FieldSeq(depth, maxFields int, denorm bool, nums []int64) *rapid.Generator[[]byte] {
	return rapid.Custom(func(t *rapid.T) []byte {
		return fieldSeq(t, nil, depth, maxFields, denorm, nums)
	})
}

func fieldSeq(t *rapid.T, b []byte, depth, maxFields int, denorm bool, nums []int64) []byte {
	n := rapid.IntRange(0, maxFields).Draw(t, "nfields")
	for i := 0; i < n; i++ {
		var num int64
		if nums != nil {
			num = rapid.SampledFrom(nums).Draw(t, "num")
		} else {
			num = FieldNum().Draw(t, "num")
		}
		b = oneField(t, b, num, depth, maxFields, denorm)
	}
	return b
}

func oneField(t *rapid.T, b []byte, num int64, depth, maxFields int, denorm bool) []byte {
	types := []int{0, 1, 2, 5, 3}
	if depth <= 0 {
		types = types[:4]
	}
	typ := rapid.SampledFrom(types).Draw(t, "wiretype")
	b = padVarint(t, b, uint64(num)<<3|uint64(typ), denorm)
	switch typ {
	case 0:
		b = padVarint(t, b, Uint64().Draw(t, "varint"), denorm)
	case 1:
		b = ref.Fixed64(b, Uint64().Draw(t, "fixed64"))
	case 5:
		b = ref.Fixed32(b, Uint32().Draw(t, "fixed32"))
	case 2:
		var p []byte
		if depth > 0 && rapid.IntRange(0, 2).Draw(t, "nested?") == 0 {
			p = fieldSeq(t, nil, depth-1, maxFields, denorm, nil)
		} else {
			p = Bytes(140).Draw(t, "payload")
		}
		b = padVarint(t, b, uint64(len(p)), denorm)
		b = append(b, p...)
	case 3:
		b = fieldSeq(t, b, depth-1, maxFields, denorm, nil)
		b = padVarint(t, b, uint64(num)<<3|4, denorm)
	}
	return b
}

// Mutation describes one structural corruption of a byte string.
type Mutation struct {
	Kind string
	Pos  int
}

// Mutate applies one drawn mutation to b (which should be a well-formed field sequence) and
// returns the mutated copy. The result is usually, not always, malformed; oracles decide.
func Mutate(t *rapid.T, b []byte) ([]byte, string) {
	b = append([]byte(nil), b...)
	kind := rapid.SampledFrom([]string{"truncate", "flip", "insert", "delete", "badlen", "overlong", "wiretype", "zerotag", "endgroup", "splice", "bigvarint", "retype", "retype", "rawvarint", "rawvarint"}).Draw(t, "mutation")
	pos := 0
	if len(b) > 0 {
		pos = rapid.IntRange(0, len(b)-1).Draw(t, "pos")
	}
	switch kind {
	case "truncate":
		if len(b) > 0 {
			b = b[:pos]
		}
	case "flip":
		if len(b) > 0 {
			b[pos] ^= 1 << uint(rapid.IntRange(0, 7).Draw(t, "bit"))
		}
	case "insert":
		ins := rapid.SliceOfN(rapid.Byte(), 1, 4).Draw(t, "ins")
		b = append(b[:pos], append(ins, b[pos:]...)...)
	case "delete":
		if len(b) > 0 {
			b = append(b[:pos], b[pos+1:]...)
		}
	case "badlen": // length-delimited field with a length beyond the input
		num := FieldNum().Draw(t, "num")
		extra := ref.Tag(nil, num, 2)
		extra = ref.Varint(extra, uint64(rapid.SampledFrom([]int{1, 2, 127, 128, 1 << 20, 1<<31 - 1, 1 << 31, 1 << 40}).Draw(t, "len")))
		b = append(b, extra...)
	case "overlong": // 11-byte varint or 10-byte with final byte >= 2
		extra := ref.Tag(nil, FieldNum().Draw(t, "num"), 0)
		if rapid.Bool().Draw(t, "eleven") {
			extra = append(extra, 0x80, 0x80, 0x80, 0x80, 0x80, 0x80, 0x80, 0x80, 0x80, 0x80, 0x01)
		} else {
			extra = append(extra, 0xff, 0xff, 0xff, 0xff, 0xff, 0xff, 0xff, 0xff, 0xff, byte(rapid.IntRange(2, 0x7f).Draw(t, "last")))
		}
		b = append(b[:pos], append(extra, b[pos:]...)...)
	case "wiretype":
		extra := ref.Varint(nil, uint64(FieldNum().Draw(t, "num"))<<3|uint64(rapid.SampledFrom([]int{6, 7}).Draw(t, "wt")))
		b = append(b, extra...)
		b = append(b, 0, 0, 0, 0)
	case "zerotag":
		extra := []byte{byte(rapid.SampledFrom([]int{0, 1, 2, 5}).Draw(t, "wt")), 0}
		b = append(b[:pos], append(extra, b[pos:]...)...)
	case "endgroup": // stray end-group or unterminated start-group
		num := FieldNum().Draw(t, "num")
		if rapid.Bool().Draw(t, "start") {
			b = append(b, ref.Tag(nil, num, 3)...)
		} else {
			b = append(b, ref.Tag(nil, num, 4)...)
		}
	case "splice":
		if len(b) > 1 {
			q := rapid.IntRange(0, len(b)-1).Draw(t, "pos2")
			if q < pos {
				pos, q = q, pos
			}
			b = append(b[:pos], b[q:]...)
		}
	case "retype": // a well-formed extra record that repeats an existing field number with another wire type
		if recs, ok := ref.Split(b); ok && len(recs) > 0 {
			i := rapid.IntRange(0, len(recs)-1).Draw(t, "rec")
			var wts []int
			for _, wt := range []int{0, 1, 2, 5, 3} {
				if wt != recs[i].Typ {
					wts = append(wts, wt)
				}
			}
			wt := rapid.SampledFrom(wts).Draw(t, "newtype")
			extra := ref.Tag(nil, recs[i].Num, wt)
			switch wt {
			case 0:
				extra = append(extra, 0x01)
			case 1:
				extra = ref.Fixed64(extra, 1)
			case 5:
				extra = ref.Fixed32(extra, 0)
			case 2:
				extra = append(extra, 0x01, 0x08)
			case 3:
				extra = ref.Tag(extra, recs[i].Num, 4)
			}
			var out []byte
			before := rapid.Bool().Draw(t, "before")
			for j, r := range recs {
				if j == i && before {
					out = append(out, extra...)
				}
				out = append(out, r.Raw...)
				if j == i && !before {
					out = append(out, extra...)
				}
			}
			b = out
		}
	case "rawvarint": // a bare hostile varint (no tag) at a varint boundary: inside a packed run it is an element
		// walk to a varint boundary at or before pos, assuming b is a run of varints
		at := 0
		for at < pos {
			n := 1
			for at+n-1 < len(b) && b[at+n-1] >= 0x80 {
				n++
			}
			if at+n > pos {
				break
			}
			at += n
		}
		var v []byte
		switch rapid.IntRange(0, 3).Draw(t, "rawkind") {
		case 0: // ten bytes, value needs more than 64 bits
			v = []byte{0xff, 0xff, 0xff, 0xff, 0xff, 0xff, 0xff, 0xff, 0xff, byte(rapid.IntRange(2, 0x7f).Draw(t, "last"))}
		case 1: // ten bytes, the largest value that fits (valid)
			v = []byte{0xff, 0xff, 0xff, 0xff, 0xff, 0xff, 0xff, 0xff, 0xff, 0x01}
		case 2: // eleven bytes
			v = []byte{0x80, 0x80, 0x80, 0x80, 0x80, 0x80, 0x80, 0x80, 0x80, 0x80, 0x01}
		default: // padded small value (valid)
			v = []byte{0x81, 0x80, 0x80, 0x00}
		}
		if at > len(b) {
			at = len(b)
		}
		b = append(b[:at], append(v, b[at:]...)...)
	case "bigvarint": // field number > 2^29-1 or > 2^31-1
		v := rapid.SampledFrom([]uint64{1 << 29, 1<<31 - 1, 1 << 31, 1 << 40, 1<<61 - 1}).Draw(t, "bignum")
		extra := ref.Varint(nil, v<<3)
		extra = append(extra, 1)
		b = append(b, extra...)
	}
	return b, kind
}

// MutateDeep applies Mutate inside a nested length-delimited payload (chosen by draws, up to
// three levels down) and re-encodes the enclosing length prefixes, so that the defect sits inside
// a submessage / map entry / packed run rather than at the top level. Falls back to Mutate when b
// has no length-delimited record.
func MutateDeep(t *rapid.T, b []byte) ([]byte, string) {
	return mutateDeep(t, b, 3)
}

func mutateDeep(t *rapid.T, b []byte, levels int) ([]byte, string) {
	recs, ok := ref.Split(b)
	var idx []int
	if ok {
		for i, r := range recs {
			if r.Typ == 2 && len(r.Payload()) > 0 {
				idx = append(idx, i)
			}
		}
	}
	if len(idx) == 0 || levels == 0 {
		return Mutate(t, b)
	}
	i := idx[rapid.IntRange(0, len(idx)-1).Draw(t, "deeprec")]
	payload := recs[i].Payload()
	var np []byte
	var kind string
	if levels > 1 && rapid.Bool().Draw(t, "deeper") {
		np, kind = mutateDeep(t, payload, levels-1)
	} else {
		np, kind = Mutate(t, payload)
	}
	var out []byte
	for j, r := range recs {
		if j != i {
			out = append(out, r.Raw...)
			continue
		}
		out = ref.Tag(out, r.Num, 2)
		out = ref.Varint(out, uint64(len(np)))
		out = append(out, np...)
	}
	return out, "deep-" + kind
}
