package gen

// Packed-run faults: a descriptor-aware source that puts one hostile element into the packed
// encoding of a repeated scalar field (at the top level or below a chain of message fields). The
// byte-level mutations reach this only with a probability of about 1e-4 per case.

import (
	"google.golang.org/protobuf/reflect/protoreflect"
	"google.golang.org/protobuf/zverif/ref"
	"pgregory.net/rapid"
)

type packedFaultTarget struct {
	path []protoreflect.FieldDescriptor // singular message fields leading to the owner
	fd   protoreflect.FieldDescriptor
}

func packedFaultTargets(md protoreflect.MessageDescriptor, depth int, path []protoreflect.FieldDescriptor, seen map[protoreflect.FullName]bool, out *[]packedFaultTarget) {
	// recursive types are entered again (bounded by depth): the packed fields of a corecursive
	// message below a lazy field are exactly the interesting targets
	if len(*out) > 2000 {
		return
	}
	fs := md.Fields()
	for i := 0; i < fs.Len(); i++ {
		fd := fs.Get(i)
		if fd.IsList() {
			switch fd.Kind() {
			case protoreflect.StringKind, protoreflect.BytesKind, protoreflect.MessageKind, protoreflect.GroupKind:
			default:
				*out = append(*out, packedFaultTarget{append([]protoreflect.FieldDescriptor(nil), path...), fd})
			}
		}
		if depth > 0 && fd.Kind() == protoreflect.MessageKind && !fd.IsList() && !fd.IsMap() {
			packedFaultTargets(fd.Message(), depth-1, append(path, fd), seen, out)
		}
	}
}

// PackedFault returns an input whose only content is one packed run with a drawn (possibly
// harmless) fault, and ok=false when the type has no packable field within reach.
func PackedFault(t *rapid.T, md protoreflect.MessageDescriptor) ([]byte, string, bool) {
	var ts []packedFaultTarget
	packedFaultTargets(md, 3, nil, map[protoreflect.FullName]bool{}, &ts)
	if len(ts) == 0 {
		return nil, "", false
	}
	var nested []packedFaultTarget
	for _, x := range ts {
		if len(x.path) > 0 {
			nested = append(nested, x)
		}
	}
	if len(nested) > 0 && rapid.IntRange(0, 2).Draw(t, "packed-nested") > 0 {
		ts = nested
	}
	tg := ts[rapid.IntRange(0, len(ts)-1).Draw(t, "packed-target")]
	var width int
	switch tg.fd.Kind() {
	case protoreflect.Fixed32Kind, protoreflect.Sfixed32Kind, protoreflect.FloatKind:
		width = 4
	case protoreflect.Fixed64Kind, protoreflect.Sfixed64Kind, protoreflect.DoubleKind:
		width = 8
	}
	n := rapid.IntRange(0, 4).Draw(t, "packed-elems")
	at := rapid.IntRange(0, n).Draw(t, "fault-at")
	var fault []byte
	var kind string
	if width == 0 {
		kind = rapid.SampledFrom([]string{"overflow10", "max10", "eleven", "truncated", "padded", "none"}).Draw(t, "fault")
		switch kind {
		case "overflow10":
			fault = []byte{0xff, 0xff, 0xff, 0xff, 0xff, 0xff, 0xff, 0xff, 0xff, byte(rapid.IntRange(2, 0x7f).Draw(t, "last"))}
		case "max10":
			fault = []byte{0xff, 0xff, 0xff, 0xff, 0xff, 0xff, 0xff, 0xff, 0xff, 0x01}
		case "eleven":
			fault = []byte{0x80, 0x80, 0x80, 0x80, 0x80, 0x80, 0x80, 0x80, 0x80, 0x80, 0x01}
		case "truncated":
			fault = make([]byte, rapid.IntRange(1, 9).Draw(t, "trunc-len"))
			for i := range fault {
				fault[i] = 0x80
			}
			at = n // an unterminated varint can only be the last element
		case "padded":
			fault = []byte{0x85, 0x80, 0x80, 0x80, 0x00}
		}
	} else {
		kind = rapid.SampledFrom([]string{"partial", "none"}).Draw(t, "fault")
		if kind == "partial" {
			fault = make([]byte, rapid.IntRange(1, width-1).Draw(t, "partial-len"))
			at = rapid.SampledFrom([]int{0, n}).Draw(t, "partial-at")
		}
	}
	var run []byte
	for i := 0; i <= n; i++ {
		if i == at {
			run = append(run, fault...)
		}
		if i == n {
			break
		}
		switch width {
		case 4:
			run = ref.Fixed32(run, rapid.Uint32().Draw(t, "f32"))
		case 8:
			run = ref.Fixed64(run, rapid.Uint64().Draw(t, "f64"))
		default:
			run = ref.Varint(run, rapid.SampledFrom([]uint64{0, 1, 127, 128, 1<<32 - 1, 1<<63 - 1, 1<<64 - 1}).Draw(t, "v"))
		}
	}
	b := ref.Tag(nil, int64(tg.fd.Number()), 2)
	b = ref.Varint(b, uint64(len(run)))
	b = append(b, run...)
	for i := len(tg.path) - 1; i >= 0; i-- {
		o := ref.Tag(nil, int64(tg.path[i].Number()), 2)
		o = ref.Varint(o, uint64(len(b)))
		b = append(o, b...)
	}
	return b, kind, true
}
