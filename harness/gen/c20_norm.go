package gen

import (
	"encoding/json"
	"strings"

	"google.golang.org/protobuf/proto"
	"google.golang.org/protobuf/reflect/protoreflect"
	"google.golang.org/protobuf/reflect/protoregistry"
	"google.golang.org/protobuf/zverif/model"
)

// AnyTarget resolves the message type an Any type URL names: the full name after the last '/'
// (the documented Any convention), looked up by name in the global registry.
func AnyTarget(url string) protoreflect.MessageType {
	i := strings.LastIndexByte(url, '/')
	if i < 0 {
		return nil
	}
	name := protoreflect.FullName(url[i+1:])
	if !name.IsValid() {
		return nil
	}
	mt, err := protoregistry.GlobalTypes.FindMessageByName(name)
	if err != nil {
		return nil
	}
	return mt
}

// DecodeAny decodes the payload of an Any model value with the binary codec (a different
// subsystem from the textual codecs under test). ok is false when the URL does not resolve or
// the payload does not decode.
func DecodeAny(v *model.Msg) (md protoreflect.MessageDescriptor, emb *model.Msg, ok bool) {
	var url string
	var payload []byte
	if f := v.Get(1); f != nil {
		url = string(f.Vals[0].B)
	}
	if f := v.Get(2); f != nil {
		payload = f.Vals[0].B
	}
	mt := AnyTarget(url)
	if mt == nil {
		return nil, nil, false
	}
	em := mt.New()
	if err := (proto.UnmarshalOptions{AllowPartial: true}).Unmarshal(payload, em.Interface()); err != nil {
		return mt.Descriptor(), nil, false
	}
	return mt.Descriptor(), model.Snapshot(em), true
}

// Textual computes what a JSON or text round trip has to preserve of v, a model value of md:
//
//	sem:   v without unknown fields (recursively, also inside decodable Any payloads), every NaN
//	       replaced by one representative, and every decodable Any payload replaced by a canonical
//	       dump of its (normalised) content — two values with equal sem hold the same content;
//	exact: v without unknown fields and with every decodable Any payload re-encoded
//	       deterministically from its normalised content (what proto.Equal can be asked about);
//	nanInAny: an Any payload holds a NaN (its payload bytes then depend on the NaN representative).
// TextualKeepRaw, when set, names the type URLs whose Any is NOT expanded by the format under test
// (prototext keeps the raw type_url/value form when the URL cannot be written between brackets):
// such an Any is compared as plain fields with its payload bytes untouched.
var TextualKeepRaw func(url string) bool

func Textual(md protoreflect.MessageDescriptor, v *model.Msg, r model.Resolver) (sem, exact *model.Msg, nanInAny bool) {
	sem, exact = &model.Msg{}, &model.Msg{}
	if v == nil {
		return
	}
	if md.FullName() == "google.protobuf.Any" {
		if emd, emb, ok := DecodeAny(v); ok && !(TextualKeepRaw != nil && v.Get(1) != nil && TextualKeepRaw(string(v.Get(1).Vals[0].B))) {
			esem, eexact, nan := Textual(emd, emb, r)
			if nan || hasNaN(emd, esem, r) {
				nanInAny = true
			}
			dump, _ := json.Marshal(model.Canon(emd, esem, r))
			mt := AnyTarget(string(v.Get(1).Vals[0].B))
			em := mt.New()
			var payload []byte
			if err := model.Apply(em, eexact, r); err == nil {
				payload, _ = proto.MarshalOptions{Deterministic: true, AllowPartial: true}.Marshal(em.Interface())
			}
			url := model.Field{Num: 1, Vals: []model.Val{{B: v.Get(1).Vals[0].B}}}
			sem.Fields = []model.Field{url, {Num: 2, Vals: []model.Val{{B: append([]byte("content:"), dump...)}}}}
			exact.Fields = []model.Field{url}
			if len(payload) > 0 {
				exact.Fields = append(exact.Fields, model.Field{Num: 2, Vals: []model.Val{{B: payload}}})
			}
			return
		}
	}
	for _, f := range v.Fields {
		fd := model.FieldDesc(md, f.Num, r)
		if fd == nil {
			continue
		}
		sf, ef := model.Field{Num: f.Num, Keys: f.Keys}, model.Field{Num: f.Num, Keys: f.Keys}
		vd := fd
		if fd.IsMap() {
			vd = fd.MapValue()
		}
		for _, x := range f.Vals {
			switch {
			case vd.Message() != nil:
				s, e, nan := Textual(vd.Message(), x.M, r)
				nanInAny = nanInAny || nan
				sf.Vals = append(sf.Vals, model.Val{M: s})
				ef.Vals = append(ef.Vals, model.Val{M: e})
			case vd.Kind() == protoreflect.FloatKind && isNaN32(uint32(x.U)):
				sf.Vals = append(sf.Vals, model.Val{U: 0x7fc00000})
				ef.Vals = append(ef.Vals, x)
			case vd.Kind() == protoreflect.DoubleKind && isNaN64(x.U):
				sf.Vals = append(sf.Vals, model.Val{U: 0x7ff8000000000001})
				ef.Vals = append(ef.Vals, x)
			default:
				sf.Vals = append(sf.Vals, x)
				ef.Vals = append(ef.Vals, x)
			}
		}
		sem.Fields = append(sem.Fields, sf)
		exact.Fields = append(exact.Fields, ef)
	}
	return
}

func isNaN32(b uint32) bool { return b&0x7f800000 == 0x7f800000 && b&0x007fffff != 0 }
func isNaN64(b uint64) bool { return b&0x7ff0000000000000 == 0x7ff0000000000000 && b&0x000fffffffffffff != 0 }

func hasNaN(md protoreflect.MessageDescriptor, v *model.Msg, r model.Resolver) bool {
	if v == nil {
		return false
	}
	for _, f := range v.Fields {
		fd := model.FieldDesc(md, f.Num, r)
		if fd == nil {
			continue
		}
		vd := fd
		if fd.IsMap() {
			vd = fd.MapValue()
		}
		for _, x := range f.Vals {
			switch {
			case vd.Message() != nil:
				if hasNaN(vd.Message(), x.M, r) {
					return true
				}
			case vd.Kind() == protoreflect.FloatKind && isNaN32(uint32(x.U)), vd.Kind() == protoreflect.DoubleKind && isNaN64(x.U):
				return true
			}
		}
	}
	return false
}
