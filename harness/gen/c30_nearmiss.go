package gen

import (
	"bytes"
	"math"

	"google.golang.org/protobuf/reflect/protoreflect"
	"google.golang.org/protobuf/zverif/model"
	"google.golang.org/protobuf/zverif/ref"
	"pgregory.net/rapid"
)

// Near-miss derivation of a message model from another one (added for C30, usable wherever pairs
// of almost-equal messages are wanted). Every derivation keeps the model invariants of DrawMessage:
// implicit-presence scalars are never populated with their zero value, map keys are unique, lists
// are non-empty, at most one member of a oneof is set, closed enums hold declared values, validated
// strings hold valid UTF-8, unknown bytes use numbers the message does not know.

// Derived is the result of one derivation step.
type Derived struct {
	M        *model.Msg
	NilBytes bool   // realise empty bytes values as nil slices (model.ApplyOpts.NilBytes)
	Touch    bool   // allocate empty containers (model.ApplyOpts.Touch)
	Label    string // derivation that was applied ("copy" when the drawn one was not applicable)
	Depth    int    // message nesting level of the changed site (1 = a field of the root message), 0 = none
	Oneof    bool   // the changed site is a member of a oneof
}

// slot is one value position in a model tree.
type slot struct {
	m     *model.Msg
	md    protoreflect.MessageDescriptor
	fi    int                          // index in m.Fields
	vi    int                          // index in Vals
	fd    protoreflect.FieldDescriptor // the field
	vfd   protoreflect.FieldDescriptor // descriptor of the value (fd, or fd.MapValue() for maps)
	depth int
}

type msgRef struct {
	m     *model.Msg
	md    protoreflect.MessageDescriptor
	depth int // 0 = root
}

func walk(md protoreflect.MessageDescriptor, m *model.Msg, depth int, r model.Resolver, slots *[]slot, msgs *[]msgRef) {
	*msgs = append(*msgs, msgRef{m, md, depth})
	for fi := range m.Fields {
		f := &m.Fields[fi]
		fd := model.FieldDesc(md, f.Num, r)
		if fd == nil {
			continue
		}
		vfd := fd
		if fd.IsMap() {
			vfd = fd.MapValue()
		}
		for vi := range f.Vals {
			*slots = append(*slots, slot{m: m, md: md, fi: fi, vi: vi, fd: fd, vfd: vfd, depth: depth + 1})
			if vfd.Message() != nil {
				if f.Vals[vi].M == nil {
					f.Vals[vi].M = &model.Msg{}
				}
				walk(vfd.Message(), f.Vals[vi].M, depth+1, r, slots, msgs)
			}
		}
	}
}

func (s slot) val() *model.Val { return &s.m.Fields[s.fi].Vals[s.vi] }

func (s slot) inOneof() bool {
	od := s.fd.ContainingOneof()
	return od != nil && !od.IsSynthetic()
}

// singularImplicit: a singular scalar without presence (its zero value means "not populated").
func singularImplicit(fd protoreflect.FieldDescriptor) bool {
	return !fd.IsList() && !fd.IsMap() && fd.Message() == nil && !fd.HasPresence()
}

// pickDeep prefers nested sites (2 of 3 draws) so that differences do not pile up at the root.
func pickDeep[T any](t *rapid.T, xs []T, depth func(T) int, label string) T {
	var deep []T
	for _, x := range xs {
		if depth(x) >= 2 {
			deep = append(deep, x)
		}
	}
	if len(deep) > 0 && rapid.IntRange(0, 2).Draw(t, label+"-deep?") > 0 {
		return deep[rapid.IntRange(0, len(deep)-1).Draw(t, label)]
	}
	return xs[rapid.IntRange(0, len(xs)-1).Draw(t, label)]
}

func slotDepth(s slot) int { return s.depth }

var (
	nan32 = []uint32{0x7fc00000, 0x7fc00001, 0xffc00000, 0x7f800001, 0x7fffffff, 0xff800001}
	nan64 = []uint64{0x7ff8000000000000, 0x7ff8000000000001, 0xfff8000000000000, 0x7ff0000000000001, 0x7fffffffffffffff, 0xfff0000000000001}
)

func isFloat(fd protoreflect.FieldDescriptor) bool {
	return fd.Kind() == protoreflect.FloatKind || fd.Kind() == protoreflect.DoubleKind
}

func isNaNVal(fd protoreflect.FieldDescriptor, v model.Val) bool {
	if fd.Kind() == protoreflect.FloatKind {
		f := math.Float32frombits(uint32(v.U))
		return f != f
	}
	f := math.Float64frombits(v.U)
	return f != f
}

func isZeroFloat(fd protoreflect.FieldDescriptor, v model.Val) bool {
	if fd.Kind() == protoreflect.FloatKind {
		return uint32(v.U)&0x7fffffff == 0
	}
	return v.U&0x7fffffffffffffff == 0
}

func negZero(fd protoreflect.FieldDescriptor) model.Val {
	if fd.Kind() == protoreflect.FloatKind {
		return model.Val{U: 0x80000000}
	}
	return model.Val{U: 0x8000000000000000}
}

// emptyCapable: a bytes position that can hold an empty value while staying populated.
func emptyCapable(s slot) bool {
	return s.vfd.Kind() == protoreflect.BytesKind && !singularImplicit(s.fd)
}

// freeNumbers are field numbers md does not know (neither declared nor resolvable extension).
func freeNumbers(md protoreflect.MessageDescriptor, r model.Resolver) []int64 {
	var free []int64
	for _, n := range []int64{1, 2, 3, 7, 15, 16, 100, 1000, 2047, 2048, 5000, 18999, 20000, 100000, 1 << 20, 1<<28 + 3, 1<<29 - 1} {
		if model.FieldDesc(md, int32(n), r) == nil && !(md.ExtensionRanges().Has(protoreflect.FieldNumber(n)) && isMessageSet(md)) {
			free = append(free, n)
		}
	}
	return free
}

// drawRepetitiveUnknown draws unknown bytes over at most three numbers, so that several records of
// one number (whose relative order matters) and records of different numbers (whose interleaving
// does not) both occur.
func drawRepetitiveUnknown(t *rapid.T, md protoreflect.MessageDescriptor, o MsgOpts) []byte {
	free := freeNumbers(md, o.Resolver)
	if len(free) == 0 {
		return nil
	}
	k := rapid.IntRange(1, min(3, len(free))).Draw(t, "unknown-nums")
	var nums []int64
	for i := 0; i < k; i++ {
		nums = append(nums, free[rapid.IntRange(0, len(free)-1).Draw(t, "unknown-num")])
	}
	var b []byte
	n := rapid.IntRange(2, 5).Draw(t, "unknown-records")
	for i := 0; i < n; i++ {
		b = oneField(t, b, nums[rapid.IntRange(0, len(nums)-1).Draw(t, "num")], 1, 2, false)
	}
	return b
}

// Enrich plants material in x (in place) that the tolerance rules of equality talk about:
// NaN and signed zero in float positions, empty bytes values, unknown fields with repeated numbers.
// It returns labels of what was planted.
func Enrich(t *rapid.T, md protoreflect.MessageDescriptor, x *model.Msg, o MsgOpts) []string {
	var labels []string
	var slots []slot
	var msgs []msgRef
	walk(md, x, 0, o.Resolver, &slots, &msgs)
	// shapes: make sure maps, oneofs, lists and submessages are not rare just because the random
	// selection of a few fields missed them
	shapes := []struct {
		name string
		want func(protoreflect.FieldDescriptor) bool
	}{
		{"map", func(fd protoreflect.FieldDescriptor) bool { return fd.IsMap() }},
		{"oneof", func(fd protoreflect.FieldDescriptor) bool {
			return fd.ContainingOneof() != nil && !fd.ContainingOneof().IsSynthetic()
		}},
		{"list", func(fd protoreflect.FieldDescriptor) bool { return fd.IsList() }},
		{"submessage", func(fd protoreflect.FieldDescriptor) bool {
			return fd.Message() != nil && !fd.IsMap() || fd.IsMap() && fd.MapValue().Message() != nil
		}},
	}
	added := false
	for _, sh := range shapes {
		have := false
		for _, s := range slots {
			have = have || sh.want(s.fd)
		}
		if !have && rapid.Bool().Draw(t, "plant-"+sh.name+"?") {
			deeper := o
			deeper.Depth = 3 // addFieldWhere draws the new field with Depth-1 levels below it
			if _, ok := addFieldWhereDepth(t, msgs, deeper, sh.want, 2); ok {
				labels = append(labels, "planted-"+sh.name)
				added = true
			}
		}
	}
	if added {
		slots, msgs = nil, nil
		walk(md, x, 0, o.Resolver, &slots, &msgs)
	}
	if rapid.IntRange(0, 1).Draw(t, "plant-float?") == 0 {
		var fl []slot
		for _, s := range slots {
			if isFloat(s.vfd) {
				fl = append(fl, s)
			}
		}
		if len(fl) == 0 { // try to add a float field somewhere
			if s, ok := addFieldWhere(t, msgs, o, func(fd protoreflect.FieldDescriptor) bool {
				return isFloat(fd) || fd.IsMap() && isFloat(fd.MapValue())
			}); ok {
				fl = append(fl, s...)
			}
		}
		if len(fl) > 0 {
			s := pickDeep(t, fl, slotDepth, "float-slot")
			switch rapid.IntRange(0, 3).Draw(t, "float-plant") {
			case 0, 1:
				if s.vfd.Kind() == protoreflect.FloatKind {
					*s.val() = model.Val{U: uint64(rapid.SampledFrom(nan32).Draw(t, "nan32"))}
				} else {
					*s.val() = model.Val{U: rapid.SampledFrom(nan64).Draw(t, "nan64")}
				}
				labels = append(labels, "planted-nan")
			case 2:
				*s.val() = negZero(s.vfd)
				labels = append(labels, "planted-negzero")
			default:
				if singularImplicit(s.fd) {
					*s.val() = negZero(s.vfd) // +0 would mean "not populated"
					labels = append(labels, "planted-negzero")
				} else {
					*s.val() = model.Val{}
					labels = append(labels, "planted-poszero")
				}
			}
		}
	}
	if rapid.IntRange(0, 2).Draw(t, "plant-emptybytes?") == 0 {
		var bs []slot
		for _, s := range slots {
			if emptyCapable(s) {
				bs = append(bs, s)
			}
		}
		if len(bs) == 0 {
			if s, ok := addFieldWhere(t, msgs, o, func(fd protoreflect.FieldDescriptor) bool {
				return fd.Kind() == protoreflect.BytesKind && !singularImplicit(fd) || fd.IsMap() && fd.MapValue().Kind() == protoreflect.BytesKind
			}); ok {
				for _, x := range s {
					if emptyCapable(x) {
						bs = append(bs, x)
					}
				}
			}
		}
		if len(bs) > 0 {
			s := pickDeep(t, bs, slotDepth, "bytes-slot")
			*s.val() = model.Val{}
			labels = append(labels, "planted-emptybytes")
		}
	}
	if o.Unknown && rapid.IntRange(0, 2).Draw(t, "plant-unknown?") == 0 {
		var cands []msgRef
		for _, mr := range msgs {
			if PreservesUnknown(mr.md) && len(mr.m.Unknown) == 0 {
				cands = append(cands, mr)
			}
		}
		if len(cands) > 0 {
			mr := pickDeep(t, cands, func(m msgRef) int { return m.depth + 1 }, "unknown-msg")
			mr.m.Unknown = drawRepetitiveUnknown(t, mr.md, o)
			if len(mr.m.Unknown) > 0 {
				labels = append(labels, "planted-unknown")
			}
		}
	}
	return labels
}

// addFieldWhere populates, in some message of the tree, one not yet populated field accepted by
// want, and returns the new value slots.
func addFieldWhere(t *rapid.T, msgs []msgRef, o MsgOpts, want func(protoreflect.FieldDescriptor) bool) ([]slot, bool) {
	return addFieldWhereDepth(t, msgs, o, want, 1)
}

func addFieldWhereDepth(t *rapid.T, msgs []msgRef, o MsgOpts, want func(protoreflect.FieldDescriptor) bool, depth int) ([]slot, bool) {
	type cand struct {
		mr msgRef
		fd protoreflect.FieldDescriptor
	}
	var cands []cand
	for _, mr := range msgs {
		for _, fd := range candidateFields(mr.md, o) {
			if want(fd) && canAdd(mr.m, fd) {
				cands = append(cands, cand{mr, fd})
			}
		}
	}
	if len(cands) == 0 {
		return nil, false
	}
	c := cands[rapid.IntRange(0, len(cands)-1).Draw(t, "add-where")]
	so := o
	so.Depth = depth
	f, ok := drawField(t, c.fd, so)
	if !ok {
		return nil, false
	}
	c.mr.m.Fields = append(c.mr.m.Fields, f)
	vfd := c.fd
	if c.fd.IsMap() {
		vfd = c.fd.MapValue()
	}
	var out []slot
	for vi := range f.Vals {
		out = append(out, slot{m: c.mr.m, md: c.mr.md, fi: len(c.mr.m.Fields) - 1, vi: vi, fd: c.fd, vfd: vfd, depth: c.mr.depth + 1})
	}
	return out, true
}

// candidateFields lists the declared fields and registered extensions DrawMessage would consider.
func candidateFields(md protoreflect.MessageDescriptor, o MsgOpts) []protoreflect.FieldDescriptor {
	var cands []protoreflect.FieldDescriptor
	fs := md.Fields()
	for i := 0; i < fs.Len(); i++ {
		fd := fs.Get(i)
		if o.SkipField != nil && o.SkipField(fd) || o.NoGroups && fd.Kind() == protoreflect.GroupKind {
			continue
		}
		cands = append(cands, fd)
	}
	if o.Extensions && md.ExtensionRanges().Len() > 0 {
		ext := o.ExtTypes
		if ext == nil {
			ext = extensionsOf
		}
		for _, xt := range ext(md.FullName()) {
			if fd := xt.TypeDescriptor(); o.SkipField == nil || !o.SkipField(fd) {
				cands = append(cands, fd)
			}
		}
	}
	return cands
}

// canAdd: fd is not populated in m and no other member of its oneof is.
func canAdd(m *model.Msg, fd protoreflect.FieldDescriptor) bool {
	if m.Get(int32(fd.Number())) != nil {
		return false
	}
	if od := fd.ContainingOneof(); od != nil {
		for i := 0; i < od.Fields().Len(); i++ {
			if m.Get(int32(od.Fields().Get(i).Number())) != nil {
				return false
			}
		}
	}
	return true
}

// NearMissKinds are the derivations NearMiss draws from.
var NearMissKinds = []string{
	// rapid favours the ends of a sampled slice, so the plain derivations sit in the middle
	"scalar", "mapval", "oneof-switch", "nan", "zero", "nilbytes", "listlen", "mapkey",
	"unknown-change", "unknown-perm-across", "unknown-perm-within",
	"copy", "indep", "touch", "field-drop", "field-add", "submsg-empty", "listswap",
	"unknown-change", "unknown-perm-across", "unknown-perm-within",
	"nan", "zero", "nilbytes", "listlen", "oneof-switch", "mapval", "scalar",
}

// NearMiss derives a message model from base without modifying base. A drawn derivation that
// finds no site in base (no map, no NaN, ...) is redrawn a few times before settling for a copy.
func NearMiss(t *rapid.T, md protoreflect.MessageDescriptor, base *model.Msg, o MsgOpts) Derived {
	for try := 0; ; try++ {
		kind := rapid.SampledFrom(NearMissKinds).Draw(t, "derivation")
		if try > 0 && kind == "indep" {
			continue // a retry looks for another near miss, not for an unrelated message
		}
		d := nearMiss(t, md, base, o, kind)
		if d.Label != "copy" || kind == "copy" || try >= 6 {
			return d
		}
	}
}

func nearMiss(t *rapid.T, md protoreflect.MessageDescriptor, base *model.Msg, o MsgOpts, kind string) Derived {
	if kind == "indep" {
		return Derived{M: DrawMessage(t, md, o), Label: "indep"}
	}
	d := Derived{M: base.Clone(), Label: "copy"}
	var slots []slot
	var msgs []msgRef
	walk(md, d.M, 0, o.Resolver, &slots, &msgs)
	filter := func(p func(slot) bool) []slot {
		var out []slot
		for _, s := range slots {
			if p(s) {
				out = append(out, s)
			}
		}
		return out
	}
	done := func(s slot) Derived {
		d.Label, d.Depth, d.Oneof = kind, s.depth, s.inOneof()
		return d
	}
	switch kind {
	case "copy":
	case "touch":
		d.Touch, d.Label = true, "touch"
	case "nilbytes":
		d.NilBytes = true
		for _, s := range slots {
			if s.vfd.Kind() == protoreflect.BytesKind && len(s.val().B) == 0 {
				if s.depth > d.Depth {
					d.Depth = s.depth
				}
				d.Label = "nilbytes"
			}
		}
	case "scalar":
		c := filter(func(s slot) bool { return s.vfd.Message() == nil })
		if len(c) == 0 {
			break
		}
		s := pickDeep(t, c, slotDepth, "slot")
		nv := drawScalar(t, s.vfd, o)
		if singularImplicit(s.fd) && model.IsZero(s.fd, nv) {
			s.m.Del(int32(s.fd.Number()))
		} else {
			*s.val() = nv
		}
		return done(s)
	case "mapval":
		c := filter(func(s slot) bool { return s.fd.IsMap() })
		if len(c) == 0 {
			break
		}
		s := pickDeep(t, c, slotDepth, "slot")
		nv, ok := drawVal(t, s.vfd, shallow(o))
		if !ok {
			break
		}
		*s.val() = nv
		return done(s)
	case "mapkey":
		c := filter(func(s slot) bool { return s.fd.IsMap() })
		if len(c) == 0 {
			break
		}
		s := pickDeep(t, c, slotDepth, "slot")
		f := &s.m.Fields[s.fi]
		nk := drawScalar(t, s.fd.MapKey(), o)
		for _, k := range f.Keys {
			if k.U == nk.U && bytes.Equal(k.B, nk.B) {
				return d // duplicate key: leave a plain copy
			}
		}
		f.Keys[s.vi] = nk
		return done(s)
	case "listlen":
		c := filter(func(s slot) bool { return s.fd.IsList() && s.vi == 0 })
		if len(c) == 0 {
			break
		}
		s := pickDeep(t, c, slotDepth, "slot")
		f := &s.m.Fields[s.fi]
		switch rapid.IntRange(0, 2).Draw(t, "listop") {
		case 0: // drop the last element
			if len(f.Vals) == 1 {
				s.m.Del(f.Num)
			} else {
				f.Vals = f.Vals[:len(f.Vals)-1]
			}
		case 1: // repeat an element
			e := f.Vals[rapid.IntRange(0, len(f.Vals)-1).Draw(t, "elem")]
			f.Vals = append(f.Vals, model.Val{U: e.U, B: append([]byte(nil), e.B...), M: e.M.Clone()})
		default:
			nv, ok := drawVal(t, s.vfd, shallow(o))
			if !ok {
				return d
			}
			f.Vals = append(f.Vals, nv)
		}
		return done(s)
	case "listswap":
		c := filter(func(s slot) bool { return s.fd.IsList() && s.vi == 0 && len(s.m.Fields[s.fi].Vals) >= 2 })
		if len(c) == 0 {
			break
		}
		s := pickDeep(t, c, slotDepth, "slot")
		f := &s.m.Fields[s.fi]
		i := rapid.IntRange(0, len(f.Vals)-2).Draw(t, "i")
		j := rapid.IntRange(i+1, len(f.Vals)-1).Draw(t, "j")
		f.Vals[i], f.Vals[j] = f.Vals[j], f.Vals[i]
		return done(s)
	case "nan":
		c := filter(func(s slot) bool { return isFloat(s.vfd) && isNaNVal(s.vfd, *s.val()) })
		if len(c) == 0 {
			break
		}
		s := pickDeep(t, c, slotDepth, "slot")
		if s.vfd.Kind() == protoreflect.FloatKind {
			s.val().U = uint64(rapid.SampledFrom(nan32).Draw(t, "nan32"))
		} else {
			s.val().U = rapid.SampledFrom(nan64).Draw(t, "nan64")
		}
		return done(s)
	case "zero":
		c := filter(func(s slot) bool { return isFloat(s.vfd) && isZeroFloat(s.vfd, *s.val()) })
		if len(c) == 0 {
			break
		}
		s := pickDeep(t, c, slotDepth, "slot")
		neg := negZero(s.vfd)
		if s.val().U == neg.U { // -0 -> +0
			if singularImplicit(s.fd) {
				s.m.Del(int32(s.fd.Number())) // +0 is "not populated" there: a genuine difference
			} else {
				s.val().U = 0
			}
		} else {
			s.val().U = neg.U
		}
		return done(s)
	case "unknown-change", "unknown-perm-across", "unknown-perm-within":
		var c []msgRef
		for _, mr := range msgs {
			if len(mr.m.Unknown) > 0 {
				c = append(c, mr)
			}
		}
		if len(c) == 0 {
			break
		}
		mr := pickDeep(t, c, func(m msgRef) int { return m.depth + 1 }, "unknown-msg")
		recs, ok := ref.Split(mr.m.Unknown)
		if !ok || len(recs) == 0 {
			break
		}
		var out []ref.Record
		switch kind {
		case "unknown-change":
			i := rapid.IntRange(0, len(recs)-1).Draw(t, "rec")
			switch rapid.IntRange(0, 3).Draw(t, "unknown-op") {
			case 0: // drop
				out = append(append(out, recs[:i]...), recs[i+1:]...)
			case 1: // duplicate
				out = append(append(append(out, recs[:i+1]...), recs[i]), recs[i+1:]...)
			case 2: // replace by another record of the same number
				nr, _ := ref.Split(oneField(t, nil, recs[i].Num, 1, 2, false))
				out = append(append(append(out, recs[:i]...), nr...), recs[i+1:]...)
			default: // flip one bit of the value without changing its length or framing
				r := recs[i]
				raw := append([]byte(nil), r.Raw...)
				tagLen := len(r.Raw) - len(r.Val)
				switch r.Typ {
				case 0:
					raw[tagLen] ^= 1
				case 1, 5:
					raw[len(raw)-1] ^= 0x80
				case 2:
					if len(r.Payload()) == 0 {
						raw = ref.Fixed32(ref.Tag(nil, r.Num, 5), 7)
					} else {
						raw[len(raw)-1] ^= 1
					}
				default:
					raw = ref.Fixed32(ref.Tag(nil, r.Num, 5), 7)
				}
				out = append(append(append(out, recs[:i]...), ref.Record{Num: r.Num, Raw: raw}), recs[i+1:]...)
			}
		case "unknown-perm-across": // random interleaving that keeps every number's own order
			queues := map[int64][]ref.Record{}
			var order []int64
			for _, r := range recs {
				if queues[r.Num] == nil {
					order = append(order, r.Num)
				}
				queues[r.Num] = append(queues[r.Num], r)
			}
			if len(order) < 2 {
				return d
			}
			for len(order) > 0 {
				k := rapid.IntRange(0, len(order)-1).Draw(t, "queue")
				n := order[k]
				out = append(out, queues[n][0])
				queues[n] = queues[n][1:]
				if len(queues[n]) == 0 {
					order = append(order[:k:k], order[k+1:]...)
				}
			}
		default: // swap two records of one number
			var pairs [][2]int
			for i := range recs {
				for j := i + 1; j < len(recs); j++ {
					if recs[i].Num == recs[j].Num {
						pairs = append(pairs, [2]int{i, j})
					}
				}
			}
			if len(pairs) == 0 {
				return d
			}
			p := pairs[rapid.IntRange(0, len(pairs)-1).Draw(t, "pair")]
			out = append(out, recs...)
			out[p[0]], out[p[1]] = out[p[1]], out[p[0]]
		}
		var b []byte
		for _, r := range out {
			b = append(b, r.Raw...)
		}
		mr.m.Unknown = b
		d.Label, d.Depth = kind, mr.depth+1
	case "field-drop":
		var c []msgRef
		for _, mr := range msgs {
			if len(mr.m.Fields) > 0 {
				c = append(c, mr)
			}
		}
		if len(c) == 0 {
			break
		}
		mr := pickDeep(t, c, func(m msgRef) int { return m.depth + 1 }, "msg")
		i := rapid.IntRange(0, len(mr.m.Fields)-1).Draw(t, "field")
		fd := model.FieldDesc(mr.md, mr.m.Fields[i].Num, o.Resolver)
		mr.m.Del(mr.m.Fields[i].Num)
		d.Label, d.Depth = kind, mr.depth+1
		d.Oneof = fd != nil && fd.ContainingOneof() != nil && !fd.ContainingOneof().IsSynthetic()
	case "field-add":
		s, ok := addFieldWhere(t, msgs, shallow(o), func(protoreflect.FieldDescriptor) bool { return true })
		if !ok {
			break
		}
		return done(s[0])
	case "oneof-switch":
		c := filter(func(s slot) bool { return s.inOneof() && s.fd.ContainingOneof().Fields().Len() > 1 })
		if len(c) == 0 {
			break
		}
		s := pickDeep(t, c, slotDepth, "slot")
		members := s.fd.ContainingOneof().Fields()
		var others []protoreflect.FieldDescriptor
		for i := 0; i < members.Len(); i++ {
			if fd := members.Get(i); fd.Number() != s.fd.Number() && !(o.NoGroups && fd.Kind() == protoreflect.GroupKind) {
				others = append(others, fd)
			}
		}
		if len(others) == 0 {
			break
		}
		nfd := others[rapid.IntRange(0, len(others)-1).Draw(t, "member")]
		nf, ok := drawField(t, nfd, shallow(o))
		if !ok {
			break
		}
		s.m.Fields[s.fi] = nf
		return done(s)
	case "submsg-empty":
		// a present-but-empty singular submessage versus an absent one
		c := filter(func(s slot) bool {
			return s.vfd.Message() != nil && !s.fd.IsList() && !s.fd.IsMap() && len(s.val().M.Fields) == 0 && len(s.val().M.Unknown) == 0
		})
		if len(c) > 0 && rapid.Bool().Draw(t, "remove-empty") {
			s := pickDeep(t, c, slotDepth, "slot")
			s.m.Del(int32(s.fd.Number()))
			return done(s)
		}
		type cand struct {
			mr msgRef
			fd protoreflect.FieldDescriptor
		}
		var adds []cand
		for _, mr := range msgs {
			for _, fd := range candidateFields(mr.md, o) {
				if fd.Message() != nil && !fd.IsList() && !fd.IsMap() && canAdd(mr.m, fd) && !(o.FillRequired && fd.Message().RequiredNumbers().Len() > 0) {
					adds = append(adds, cand{mr, fd})
				}
			}
		}
		if len(adds) == 0 {
			break
		}
		a := adds[rapid.IntRange(0, len(adds)-1).Draw(t, "add-empty")]
		a.mr.m.Fields = append(a.mr.m.Fields, model.Field{Num: int32(a.fd.Number()), Vals: []model.Val{{M: &model.Msg{}}}})
		d.Label, d.Depth = kind, a.mr.depth+1
		d.Oneof = a.fd.ContainingOneof() != nil && !a.fd.ContainingOneof().IsSynthetic()
	}
	return d
}

func shallow(o MsgOpts) MsgOpts {
	o.Depth = 1
	if o.MaxFields > 3 {
		o.MaxFields = 3
	}
	return o
}
