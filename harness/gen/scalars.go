// Package gen holds the shared rapid generators: boundary-biased scalars, raw wire field
// sequences and their mutators, descriptor-directed message values.
package gen

import (
	"math"

	"pgregory.net/rapid"
)

// Uint64 draws a uint64 biased to encoding boundaries: each bit-length, 2^k-1/2^k/2^k+1,
// varint-length and zigzag boundaries, few-set-bits values, and uniform draws per bit-length.
func Uint64() *rapid.Generator[uint64] {
	return rapid.Custom(func(t *rapid.T) uint64 {
		switch rapid.IntRange(0, 5).Draw(t, "u64class") {
		case 0:
			k := rapid.IntRange(0, 64).Draw(t, "k")
			d := rapid.IntRange(-2, 2).Draw(t, "d")
			var base uint64
			if k < 64 {
				base = 1 << uint(k)
			}
			return base + uint64(int64(d))
		case 1: // uniform within a bit length
			k := rapid.IntRange(0, 64).Draw(t, "bits")
			if k == 0 {
				return 0
			}
			v := rapid.Uint64().Draw(t, "v")
			v |= 1 << 63
			return v >> uint(64-k)
		case 2: // at most 3 set bits
			var v uint64
			n := rapid.IntRange(0, 3).Draw(t, "nbits")
			for i := 0; i < n; i++ {
				v |= 1 << uint(rapid.IntRange(0, 63).Draw(t, "bit"))
			}
			return v
		case 3: // small
			return uint64(rapid.IntRange(0, 300).Draw(t, "small"))
		case 4: // sign-extended 32-bit and negatives
			return uint64(int64(rapid.Int32().Draw(t, "i32")))
		default:
			return rapid.Uint64().Draw(t, "any")
		}
	})
}

func Int64() *rapid.Generator[int64] {
	return rapid.Custom(func(t *rapid.T) int64 { return int64(Uint64().Draw(t, "i64")) })
}
func Uint32() *rapid.Generator[uint32] {
	return rapid.Custom(func(t *rapid.T) uint32 {
		v := Uint64().Draw(t, "u32")
		if rapid.Bool().Draw(t, "hi") {
			return uint32(v >> 32)
		}
		return uint32(v)
	})
}
func Int32() *rapid.Generator[int32] {
	return rapid.Custom(func(t *rapid.T) int32 { return int32(Uint32().Draw(t, "i32")) })
}

var f64pool = []uint64{
	0, 0x8000000000000000, // ±0
	0x7ff0000000000000, 0xfff0000000000000, // ±Inf
	0x7ff8000000000000, 0x7ff8000000000001, 0xfff8000000000000, 0x7ff0000000000001, // NaNs (quiet, payload, negative, signalling)
	1, 0x000fffffffffffff, 0x0010000000000000, // subnormal min/max, min normal
	0x7fefffffffffffff, 0xffefffffffffffff, // ±max
	0x3ff0000000000000, 0xbff0000000000000, // ±1
	0x3fb999999999999a,                     // 0.1
	0x4340000000000000, 0x433fffffffffffff, // 2^53, 2^53-1
	0x43e0000000000000, 0xc3e0000000000000, // ±2^63
	0x41dfffffffc00000, // MaxInt32
	0x47efffffe0000000, // MaxFloat32
	0x36a0000000000000, // smallest float32 subnormal
	0x444b1ae4d6e2ef50, // 1e21
	0x3eb0c6f7a0b5ed8d, // 1e-6
}

var f32pool = []uint32{
	0, 0x80000000, 0x7f800000, 0xff800000, 0x7fc00000, 0x7fc00001, 0xffc00000, 0x7f800001,
	1, 0x007fffff, 0x00800000, 0x7f7fffff, 0xff7fffff, 0x3f800000, 0xbf800000, 0x3dcccccd,
	0x4b800000, 0x4b7fffff, 0x5f000000, 0xdf000000, 0x4f000000,
	0x15ae43fd, 0x95ae43fd, // the two double-rounding patterns (text/default-value parse)
	0x60ad78ec, 0x358637bd,
}

// Float64Bits draws float64 bit patterns from a boundary pool mixed with uniform draws.
func Float64Bits() *rapid.Generator[uint64] {
	return rapid.Custom(func(t *rapid.T) uint64 {
		switch rapid.IntRange(0, 3).Draw(t, "f64class") {
		case 0:
			return rapid.SampledFrom(f64pool).Draw(t, "pool")
		case 1:
			return math.Float64bits(float64(Int64().Draw(t, "int")))
		case 2: // short decimals
			m := rapid.IntRange(-99999, 99999).Draw(t, "m")
			e := rapid.IntRange(-30, 30).Draw(t, "e")
			return math.Float64bits(float64(m) * math.Pow(10, float64(e)))
		default:
			return rapid.Uint64().Draw(t, "bits")
		}
	})
}

// Float32Bits draws float32 bit patterns. Signalling NaNs are quieted (bit 22 set): the
// protoreflect API carries float32 values as float64, and the float32->float64->float32
// conversion quiets a signalling NaN on this hardware, so an sNaN payload is not "content" that
// any API user can store; all other patterns (incl. quiet NaN payloads, -0, subnormals) survive.
func Float32Bits() *rapid.Generator[uint32] {
	return rapid.Custom(func(t *rapid.T) uint32 {
		b := rawFloat32Bits(t)
		if b&0x7f800000 == 0x7f800000 && b&0x007fffff != 0 {
			b |= 0x00400000
		}
		return b
	})
}

func rawFloat32Bits(t *rapid.T) uint32 {
	{
		switch rapid.IntRange(0, 3).Draw(t, "f32class") {
		case 0:
			return rapid.SampledFrom(f32pool).Draw(t, "pool")
		case 1:
			return math.Float32bits(float32(Int32().Draw(t, "int")))
		case 2:
			m := rapid.IntRange(-9999, 9999).Draw(t, "m")
			e := rapid.IntRange(-20, 20).Draw(t, "e")
			return math.Float32bits(float32(float64(m) * math.Pow(10, float64(e))))
		default:
			return rapid.Uint32().Draw(t, "bits")
		}
	}
}

var validStrings = []string{
	"", "a", "hello", "héllo", "日本語", "😀", "�", "\x00", "\x7f", "\u0080", "\u009f", " ",
	"\"", "\\", "'", "\n\r\t", "a\x00b", "  ", "<>&", "?", "\U0010ffff", "߿ࠀ￿\U00010000",
}

// invalid UTF-8 fragments
var InvalidUTF8 = []string{
	"\x80", "\xbf", "\xc0\x80", "\xc1\xbf", "\xc2", "\xe0\x80\x80", "\xe0\xa0", "\xed\xa0\x80", "\xed\xbf\xbf",
	"\xf0\x80\x80\x80", "\xf0\x90\x80", "\xf4\x90\x80\x80", "\xf5\x80\x80\x80", "\xfe", "\xff", "\xe2\x82", "\xf0\x9f\x98",
}

// ValidString draws valid UTF-8 (pool pieces, arbitrary runes, length classes around 127/128).
func ValidString(maxLen int) *rapid.Generator[string] {
	return rapid.Custom(func(t *rapid.T) string {
		switch rapid.IntRange(0, 4).Draw(t, "strclass") {
		case 0:
			return rapid.SampledFrom(validStrings).Draw(t, "pool")
		case 1:
			n := rapid.IntRange(0, 4).Draw(t, "pieces")
			s := ""
			for i := 0; i < n; i++ {
				s += rapid.SampledFrom(validStrings).Draw(t, "piece")
			}
			return s
		case 2: // around a length boundary
			n := rapid.SampledFrom([]int{126, 127, 128, 129, 200}).Draw(t, "len")
			if n > maxLen {
				n = maxLen
			}
			b := make([]byte, n)
			c := rapid.ByteRange('a', 'z').Draw(t, "fill")
			for i := range b {
				b[i] = c
			}
			return string(b)
		case 3:
			return rapid.StringN(0, 12, maxLen).Draw(t, "runes")
		default:
			return rapid.StringOfN(rapid.RuneFrom([]rune("abcXYZ019_ -.")), 0, 10, -1).Draw(t, "ascii")
		}
	})
}

// Bytes draws arbitrary bytes (incl. invalid UTF-8, empty, lengths around 127/128).
func Bytes(maxLen int) *rapid.Generator[[]byte] {
	return rapid.Custom(func(t *rapid.T) []byte {
		switch rapid.IntRange(0, 3).Draw(t, "bytesclass") {
		case 0:
			return []byte(ValidString(maxLen).Draw(t, "s"))
		case 1:
			s := ValidString(20).Draw(t, "pre") + rapid.SampledFrom(InvalidUTF8).Draw(t, "bad") + ValidString(20).Draw(t, "post")
			return []byte(s)
		default:
			return rapid.SliceOfN(rapid.Byte(), 0, min(maxLen, 24)).Draw(t, "raw")
		}
	})
}
