package c33

// Mini schema generator in "collision mode": every identifier comes from a six-name alphabet that
// is shared by packages, messages, nested messages, enums, enum values, fields, oneofs,
// extensions, services and methods; package names are prefixes of one another; file paths repeat;
// extension numbers come from 1..4 on a handful of extendees that are shared by full name.
//
// A fileSpec is plain data (it is part of the replayable case). build() turns ANY fileSpec into a
// valid FileDescriptorProto: declarations whose full name is already taken inside the same file
// are dropped (protodesc.NewFile rejects duplicate full names within one file), so shrinking can
// never produce an unbuildable file. build() also returns, from the descriptor *proto* alone, the
// list of every declared full name with its kind and an index path - this list (not the
// protoreflect descriptor tree) feeds the name-table model.

import (
	"fmt"
	"strings"

	"google.golang.org/protobuf/proto"
	"google.golang.org/protobuf/reflect/protodesc"
	"google.golang.org/protobuf/reflect/protoreflect"
	"google.golang.org/protobuf/reflect/protoregistry"
	"google.golang.org/protobuf/types/descriptorpb"
	"pgregory.net/rapid"
)

type fileSpec struct {
	Path  string
	Pkg   string
	Msgs  []msgSpec  `json:",omitempty"`
	Enums []enumSpec `json:",omitempty"`
	Exts  []extSpec  `json:",omitempty"`
	Svcs  []svcSpec  `json:",omitempty"`
}

type msgSpec struct {
	Name       string
	Extendable bool        `json:",omitempty"` // declares extension range 1..8 and is a possible extendee
	Fields     []string    `json:",omitempty"`
	Oneofs     []oneofSpec `json:",omitempty"`
	Msgs       []msgSpec   `json:",omitempty"`
	Enums      []enumSpec  `json:",omitempty"`
	Exts       []extSpec   `json:",omitempty"`
}

type oneofSpec struct{ Name, Field string }

type enumSpec struct {
	Name   string
	Values []string
}

type extSpec struct {
	Name   string
	Target int // index into [a.X, a.Y, own extendable messages...] (modulo)
	Num    int // 1..4
}

type svcSpec struct {
	Name    string
	Methods []string `json:",omitempty"`
}

var (
	alphabet = []string{"a", "b", "c", "d", "e", "f"}
	packages = []string{"", "a", "a.b", "a.b.c", "b", "a.c", "a.b.c.d"}
	paths    = []string{"p0.proto", "p1.proto", "p2.proto", "p3.proto", "p4.proto", "p5.proto", "p6.proto", "p7.proto", "p8.proto", "p9.proto"}
)

// ---- the shared base file (imported by every pool file; itself pool member -1 -> index 0) -----

const basePath = "base.proto"

var baseFDP = &descriptorpb.FileDescriptorProto{
	Name:    proto.String(basePath),
	Package: proto.String("a"),
	Syntax:  proto.String("proto2"),
	MessageType: []*descriptorpb.DescriptorProto{
		{Name: proto.String("X"), ExtensionRange: []*descriptorpb.DescriptorProto_ExtensionRange{{Start: proto.Int32(1), End: proto.Int32(9)}}},
		{Name: proto.String("Y"), ExtensionRange: []*descriptorpb.DescriptorProto_ExtensionRange{{Start: proto.Int32(1), End: proto.Int32(9)}}},
	},
}

var (
	baseFile    protoreflect.FileDescriptor
	baseScratch = new(protoregistry.Files) // scratch resolver for imports: holds only base.proto
)

func init() {
	var err error
	baseFile, err = protodesc.NewFile(baseFDP, nil)
	if err != nil {
		panic(err)
	}
	if err := baseScratch.RegisterFile(baseFile); err != nil {
		panic(err)
	}
}

// ---- declarations as read off the descriptor proto ---------------------------------------------

type step struct {
	Tag byte // M message, E enum, V enum value, F field, O oneof, X extension, S service, R method
	Idx int
}

type decl struct {
	Name string // full name
	Kind byte   // same letters as step.Tag
	Path []step
	// extensions only
	Extendee string
	Num      int32
}

type fileInfo struct {
	Path  string
	Pkg   string
	Decls []decl // every declaration at every depth, in walk order
	FDP   *descriptorpb.FileDescriptorProto
	FD    protoreflect.FileDescriptor
}

func join(scope, name string) string {
	if scope == "" {
		return name
	}
	return scope + "." + name
}

func parentName(s string) string {
	if i := strings.LastIndexByte(s, '.'); i >= 0 {
		return s[:i]
	}
	return ""
}

type builder struct {
	used    map[string]bool
	targets []string // possible extendees, by full name (with leading dot)
	exts    []pendingExt
}

type pendingExt struct {
	fd     *descriptorpb.FieldDescriptorProto
	target int
}

func (b *builder) take(full string) bool {
	if b.used[full] {
		return false
	}
	b.used[full] = true
	return true
}

func (b *builder) enum(scope string, s enumSpec) *descriptorpb.EnumDescriptorProto {
	full := join(scope, s.Name)
	if b.used[full] {
		return nil
	}
	b.used[full] = true
	ed := &descriptorpb.EnumDescriptorProto{Name: proto.String(s.Name)}
	for _, v := range s.Values {
		if b.take(join(scope, v)) { // enum values live in the scope that encloses the enum
			ed.Value = append(ed.Value, &descriptorpb.EnumValueDescriptorProto{Name: proto.String(v), Number: proto.Int32(int32(len(ed.Value)))})
		}
	}
	if len(ed.Value) == 0 {
		delete(b.used, full) // an enum needs a value; drop it entirely
		return nil
	}
	return ed
}

func (b *builder) ext(scope string, s extSpec) *descriptorpb.FieldDescriptorProto {
	if !b.take(join(scope, s.Name)) {
		return nil
	}
	n := s.Num
	if n < 1 || n > 8 {
		n = 1 + (n%8+8)%8
	}
	fd := &descriptorpb.FieldDescriptorProto{
		Name:   proto.String(s.Name),
		Number: proto.Int32(int32(n)),
		Label:  descriptorpb.FieldDescriptorProto_LABEL_OPTIONAL.Enum(),
		Type:   descriptorpb.FieldDescriptorProto_TYPE_INT32.Enum(),
	}
	b.exts = append(b.exts, pendingExt{fd, s.Target})
	return fd
}

func (b *builder) msg(scope string, s msgSpec, depth int) *descriptorpb.DescriptorProto {
	full := join(scope, s.Name)
	if !b.take(full) {
		return nil
	}
	md := &descriptorpb.DescriptorProto{Name: proto.String(s.Name)}
	if s.Extendable {
		md.ExtensionRange = []*descriptorpb.DescriptorProto_ExtensionRange{{Start: proto.Int32(1), End: proto.Int32(9)}}
		b.targets = append(b.targets, "."+full)
	}
	num := int32(100)
	for _, f := range s.Fields {
		if b.take(join(full, f)) {
			md.Field = append(md.Field, &descriptorpb.FieldDescriptorProto{
				Name: proto.String(f), Number: proto.Int32(num),
				Label: descriptorpb.FieldDescriptorProto_LABEL_OPTIONAL.Enum(),
				Type:  descriptorpb.FieldDescriptorProto_TYPE_INT32.Enum(),
			})
			num++
		}
	}
	for _, o := range s.Oneofs {
		if o.Name == o.Field || b.used[join(full, o.Name)] || b.used[join(full, o.Field)] {
			continue
		}
		b.take(join(full, o.Name))
		b.take(join(full, o.Field))
		md.Field = append(md.Field, &descriptorpb.FieldDescriptorProto{
			Name: proto.String(o.Field), Number: proto.Int32(num),
			Label:      descriptorpb.FieldDescriptorProto_LABEL_OPTIONAL.Enum(),
			Type:       descriptorpb.FieldDescriptorProto_TYPE_INT32.Enum(),
			OneofIndex: proto.Int32(int32(len(md.OneofDecl))),
		})
		num++
		md.OneofDecl = append(md.OneofDecl, &descriptorpb.OneofDescriptorProto{Name: proto.String(o.Name)})
	}
	if depth < 3 {
		for _, m := range s.Msgs {
			if x := b.msg(full, m, depth+1); x != nil {
				md.NestedType = append(md.NestedType, x)
			}
		}
	}
	for _, e := range s.Enums {
		if x := b.enum(full, e); x != nil {
			md.EnumType = append(md.EnumType, x)
		}
	}
	for _, e := range s.Exts {
		if x := b.ext(full, e); x != nil {
			md.Extension = append(md.Extension, x)
		}
	}
	return md
}

// buildFDP maps any spec to a valid descriptor proto (proto2, imports base.proto).
func buildFDP(s fileSpec) *descriptorpb.FileDescriptorProto {
	b := &builder{used: map[string]bool{}, targets: []string{".a.X", ".a.Y"}}
	fdp := &descriptorpb.FileDescriptorProto{
		Name:       proto.String(s.Path),
		Syntax:     proto.String("proto2"),
		Dependency: []string{basePath},
	}
	if s.Pkg != "" {
		fdp.Package = proto.String(s.Pkg)
	}
	for _, m := range s.Msgs {
		if x := b.msg(s.Pkg, m, 1); x != nil {
			fdp.MessageType = append(fdp.MessageType, x)
		}
	}
	for _, e := range s.Enums {
		if x := b.enum(s.Pkg, e); x != nil {
			fdp.EnumType = append(fdp.EnumType, x)
		}
	}
	for _, e := range s.Exts {
		if x := b.ext(s.Pkg, e); x != nil {
			fdp.Extension = append(fdp.Extension, x)
		}
	}
	for _, sv := range s.Svcs {
		full := join(s.Pkg, sv.Name)
		if !b.take(full) {
			continue
		}
		sd := &descriptorpb.ServiceDescriptorProto{Name: proto.String(sv.Name)}
		for _, m := range sv.Methods {
			if b.take(join(full, m)) {
				sd.Method = append(sd.Method, &descriptorpb.MethodDescriptorProto{Name: proto.String(m), InputType: proto.String(".a.X"), OutputType: proto.String(".a.Y")})
			}
		}
		fdp.Service = append(fdp.Service, sd)
	}
	for _, p := range b.exts {
		t := p.target
		if t < 0 {
			t = -t
		}
		p.fd.Extendee = proto.String(b.targets[t%len(b.targets)])
	}
	return fdp
}

// declsOf lists every declaration of a descriptor proto with full name, kind and index path.
// It reads only the proto (plain data), never the protoreflect views.
func declsOf(fdp *descriptorpb.FileDescriptorProto) []decl {
	var out []decl
	pkg := fdp.GetPackage()
	with := func(p []step, t byte, i int) []step {
		return append(append([]step(nil), p...), step{t, i})
	}
	var enum func(scope string, p []step, ed *descriptorpb.EnumDescriptorProto)
	enum = func(scope string, p []step, ed *descriptorpb.EnumDescriptorProto) {
		out = append(out, decl{Name: join(scope, ed.GetName()), Kind: 'E', Path: p})
		for j, v := range ed.Value {
			out = append(out, decl{Name: join(scope, v.GetName()), Kind: 'V', Path: with(p, 'V', j)})
		}
	}
	ext := func(scope string, p []step, xd *descriptorpb.FieldDescriptorProto) {
		out = append(out, decl{Name: join(scope, xd.GetName()), Kind: 'X', Path: p,
			Extendee: strings.TrimPrefix(xd.GetExtendee(), "."), Num: xd.GetNumber()})
	}
	var msg func(scope string, p []step, md *descriptorpb.DescriptorProto)
	msg = func(scope string, p []step, md *descriptorpb.DescriptorProto) {
		full := join(scope, md.GetName())
		out = append(out, decl{Name: full, Kind: 'M', Path: p})
		for j, f := range md.Field {
			out = append(out, decl{Name: join(full, f.GetName()), Kind: 'F', Path: with(p, 'F', j)})
		}
		for j, o := range md.OneofDecl {
			out = append(out, decl{Name: join(full, o.GetName()), Kind: 'O', Path: with(p, 'O', j)})
		}
		for j, m := range md.NestedType {
			msg(full, with(p, 'M', j), m)
		}
		for j, e := range md.EnumType {
			enum(full, with(p, 'E', j), e)
		}
		for j, x := range md.Extension {
			ext(full, with(p, 'X', j), x)
		}
	}
	for i, m := range fdp.MessageType {
		msg(pkg, []step{{'M', i}}, m)
	}
	for i, e := range fdp.EnumType {
		enum(pkg, []step{{'E', i}}, e)
	}
	for i, x := range fdp.Extension {
		ext(pkg, []step{{'X', i}}, x)
	}
	for i, s := range fdp.Service {
		full := join(pkg, s.GetName())
		out = append(out, decl{Name: full, Kind: 'S', Path: []step{{'S', i}}})
		for j, m := range s.Method {
			out = append(out, decl{Name: join(full, m.GetName()), Kind: 'R', Path: []step{{'S', i}, {'R', j}}})
		}
	}
	return out
}

// resolve walks an index path on the real descriptor using only Get(i).
func resolve(fd protoreflect.FileDescriptor, p []step) protoreflect.Descriptor {
	var cur protoreflect.Descriptor = fd
	for _, s := range p {
		switch c := cur.(type) {
		case protoreflect.FileDescriptor:
			switch s.Tag {
			case 'M':
				cur = c.Messages().Get(s.Idx)
			case 'E':
				cur = c.Enums().Get(s.Idx)
			case 'X':
				cur = c.Extensions().Get(s.Idx)
			case 'S':
				cur = c.Services().Get(s.Idx)
			default:
				panic("bad path")
			}
		case protoreflect.MessageDescriptor:
			switch s.Tag {
			case 'M':
				cur = c.Messages().Get(s.Idx)
			case 'E':
				cur = c.Enums().Get(s.Idx)
			case 'X':
				cur = c.Extensions().Get(s.Idx)
			case 'F':
				cur = c.Fields().Get(s.Idx)
			case 'O':
				cur = c.Oneofs().Get(s.Idx)
			default:
				panic("bad path")
			}
		case protoreflect.EnumDescriptor:
			cur = c.Values().Get(s.Idx)
		case protoreflect.ServiceDescriptor:
			cur = c.Methods().Get(s.Idx)
		default:
			panic("bad path")
		}
	}
	return cur
}

func buildFile(s fileSpec) (*fileInfo, error) {
	fdp := buildFDP(s)
	fd, err := protodesc.NewFile(fdp, baseScratch)
	if err != nil {
		return nil, fmt.Errorf("harness: generated file does not build: %v\n%v", err, fdp)
	}
	return &fileInfo{Path: s.Path, Pkg: s.Pkg, Decls: declsOf(fdp), FDP: fdp, FD: fd}, nil
}

var baseInfo = &fileInfo{Path: basePath, Pkg: "a", Decls: declsOf(baseFDP), FDP: baseFDP}

// ---- drawing ------------------------------------------------------------------------------------

func drawName(t *rapid.T) string { return rapid.SampledFrom(alphabet).Draw(t, "name") }

func drawNames(t *rapid.T, max int) []string {
	n := rapid.IntRange(0, max).Draw(t, "n")
	var out []string
	for i := 0; i < n; i++ {
		out = append(out, drawName(t))
	}
	return out
}

func drawEnum(t *rapid.T) enumSpec {
	e := enumSpec{Name: drawName(t)}
	n := rapid.IntRange(1, 3).Draw(t, "nvalues")
	for i := 0; i < n; i++ {
		e.Values = append(e.Values, drawName(t))
	}
	return e
}

func drawExt(t *rapid.T) extSpec {
	return extSpec{Name: drawName(t), Target: rapid.IntRange(0, 5).Draw(t, "target"), Num: rapid.IntRange(1, 4).Draw(t, "extnum")}
}

func drawMsg(t *rapid.T, depth int) msgSpec {
	m := msgSpec{Name: drawName(t), Extendable: rapid.IntRange(0, 2).Draw(t, "extendable") == 0}
	m.Fields = drawNames(t, 2)
	if rapid.IntRange(0, 3).Draw(t, "oneof") == 0 {
		m.Oneofs = append(m.Oneofs, oneofSpec{Name: drawName(t), Field: drawName(t)})
	}
	if depth < 3 {
		n := rapid.IntRange(0, 2).Draw(t, "nnested")
		for i := 0; i < n; i++ {
			m.Msgs = append(m.Msgs, drawMsg(t, depth+1))
		}
	}
	if rapid.IntRange(0, 2).Draw(t, "nenum") == 0 {
		m.Enums = append(m.Enums, drawEnum(t))
	}
	if rapid.IntRange(0, 2).Draw(t, "next") == 0 {
		m.Exts = append(m.Exts, drawExt(t))
	}
	return m
}

func drawFile(t *rapid.T) fileSpec {
	f := fileSpec{Path: rapid.SampledFrom(paths).Draw(t, "path"), Pkg: rapid.SampledFrom(packages).Draw(t, "pkg")}
	n := rapid.IntRange(0, 2).Draw(t, "nmsgs")
	for i := 0; i < n; i++ {
		f.Msgs = append(f.Msgs, drawMsg(t, 1))
	}
	n = rapid.IntRange(0, 1).Draw(t, "nenums")
	for i := 0; i < n; i++ {
		f.Enums = append(f.Enums, drawEnum(t))
	}
	n = rapid.IntRange(0, 2).Draw(t, "nexts")
	for i := 0; i < n; i++ {
		f.Exts = append(f.Exts, drawExt(t))
	}
	if rapid.IntRange(0, 3).Draw(t, "svc") == 0 {
		f.Svcs = append(f.Svcs, svcSpec{Name: drawName(t), Methods: drawNames(t, 2)})
	}
	return f
}
