package c33

// The abstract name table the registries are compared with. It is deliberately *flat*: one table
// of every full name ever declared (at any depth) by an accepted file, one set of package names,
// one set of paths - no prefix walking, no distinction between top-level and nested names. The
// implementation stores only top-level names and walks prefixes / descends into messages; the
// two formulations must agree on every query.

// ref identifies a declaration: pool file index + index into fileInfo.Decls. none = {-1,-1}.
type ref struct{ File, Decl int }

var none = ref{-1, -1}

type filesModel struct {
	paths map[string]int    // path -> pool file
	pkgs  map[string][]int  // package name (and every prefix of one) -> files declared directly in it
	names map[string]ref    // every declared full name of every accepted file
	files []int             // accepted files
}

func newFilesModel() *filesModel {
	return &filesModel{paths: map[string]int{}, pkgs: map[string][]int{}, names: map[string]ref{}}
}

// conflict names the first reason the file cannot be added ("" = it can).
func (m *filesModel) conflict(f *fileInfo) string {
	if _, dup := m.paths[f.Path]; dup {
		return "path"
	}
	for p := f.Pkg; p != ""; p = parentName(p) {
		if _, isDecl := m.names[p]; isDecl {
			return "package-vs-declaration"
		}
	}
	for _, d := range f.Decls {
		if _, dup := m.names[d.Name]; dup {
			return "declaration-name"
		}
		if _, isPkg := m.pkgs[d.Name]; isPkg {
			return "declaration-vs-package"
		}
	}
	return ""
}

func (m *filesModel) add(idx int, f *fileInfo) {
	m.paths[f.Path] = idx
	for p := f.Pkg; p != ""; p = parentName(p) {
		if _, ok := m.pkgs[p]; !ok {
			m.pkgs[p] = nil
		}
	}
	m.pkgs[f.Pkg] = append(m.pkgs[f.Pkg], idx)
	for j, d := range f.Decls {
		m.names[d.Name] = ref{idx, j}
	}
	m.files = append(m.files, idx)
}

type typeEntry struct {
	Kind byte // M, E, X
	Ref  ref
}

type typesModel struct {
	names map[string]typeEntry
	exts  map[string]map[int32]ref // extendee full name -> field number -> extension
	n     map[byte]int
}

func newTypesModel() *typesModel {
	return &typesModel{names: map[string]typeEntry{}, exts: map[string]map[int32]ref{}, n: map[byte]int{}}
}

func (m *typesModel) conflict(d decl) string {
	if d.Kind == 'X' {
		if _, dup := m.exts[d.Extendee][d.Num]; dup {
			return "extension-number"
		}
	}
	if _, dup := m.names[d.Name]; dup {
		return "type-name"
	}
	return ""
}

func (m *typesModel) add(d decl, r ref) {
	m.names[d.Name] = typeEntry{d.Kind, r}
	m.n[d.Kind]++
	if d.Kind == 'X' {
		if m.exts[d.Extendee] == nil {
			m.exts[d.Extendee] = map[int32]ref{}
		}
		m.exts[d.Extendee][d.Num] = r
	}
}
