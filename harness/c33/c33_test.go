package c33

import (
	"fmt"
	"sort"
	"strings"
	"testing"

	"google.golang.org/protobuf/reflect/protoreflect"
	"google.golang.org/protobuf/reflect/protoregistry"
	"google.golang.org/protobuf/types/dynamicpb"
	"google.golang.org/protobuf/zverif/pbt"
	"pgregory.net/rapid"
)

// ---- the case: a pool of files and a history of operations (all plain data) --------------------

type query struct {
	Op   string
	Name string `json:",omitempty"`
	Num  int32  `json:",omitempty"`
}

type op struct {
	K string // "file" | "msg" | "enum" | "ext" (registrations) | "query"
	F int    `json:",omitempty"` // pool file (0 = base.proto, i = Pool[i-1])
	D int    `json:",omitempty"` // which declaration of that kind in the file (modulo)
	Q *query `json:",omitempty"`
}

type histCase struct {
	Pool []fileSpec
	Ops  []op
}

// ---- result encoding ---------------------------------------------------------------------------
// Every query yields a list of int64: declaration ids, file ids, counts, or the codes below.

const (
	rNotFound  = -1 // (nil, protoregistry.NotFound) - the exact sentinel
	rError     = -2 // (nil, some other error)
	rForeign   = -3 // a descriptor/type that belongs to no pool file
	rWrongKind = -4 // expectation only: the name is registered as another kind -> any error
	rBadPair   = -5 // non-nil result together with a non-nil error, or nil result with nil error
)

func declID(r ref) int64 { return int64(r.File+1)*100000 + int64(r.Decl) }
func fileID(i int) int64 { return int64(i) + 1 }

// ---- the world: pool, registries under test, models ---------------------------------------------

type world struct {
	pool    []*fileInfo
	descIDs map[protoreflect.Descriptor]ref
	fileIDs map[protoreflect.FileDescriptor]int

	files  *protoregistry.Files
	types  *protoregistry.Types
	mfiles *filesModel
	mtypes *typesModel

	fileQueries []query
	typeQueries []query
	lastFiles   observation // observation after the previous sweep (for the model-free "nothing changed")
	lastTypes   observation
	gotBuf      []int64
	wantBuf     []int64
}

func newWorld(c histCase) (*world, error) {
	w := &world{descIDs: map[protoreflect.Descriptor]ref{}, fileIDs: map[protoreflect.FileDescriptor]int{},
		files: new(protoregistry.Files), types: new(protoregistry.Types), mfiles: newFilesModel(), mtypes: newTypesModel()}
	base := *baseInfo
	base.FD = baseFile
	w.pool = append(w.pool, &base)
	for _, s := range c.Pool {
		fi, err := buildFile(s)
		if err != nil {
			return nil, err
		}
		w.pool = append(w.pool, fi)
	}
	for i, fi := range w.pool {
		w.fileIDs[fi.FD] = i
		for j, d := range fi.Decls {
			w.descIDs[resolve(fi.FD, d.Path)] = ref{i, j}
		}
	}
	w.buildQueries(c)
	return w, nil
}

var malformed = []string{"", ".", "a.", ".a", "a..b", "a.b.", "zz", "a.zz", "a.X.zz", "a.b.c.d.e.f.a.b"}

func (w *world) buildQueries(c histCase) {
	names := map[string]bool{}
	extendees := map[string]bool{"a.X": true, "a.Y": true, "zz": true, "": true}
	pathSet := map[string]bool{"nope.proto": true, "": true}
	for _, fi := range w.pool {
		pathSet[fi.Path] = true
		for p := fi.Pkg; p != ""; p = parentName(p) {
			names[p] = true
		}
		for _, d := range fi.Decls {
			names[d.Name] = true
			names[d.Name+".a"] = true // near misses: one level below every declaration
			names[d.Name+".zz"] = true
			if d.Kind == 'X' {
				extendees[d.Extendee] = true
			}
		}
	}
	for _, s := range malformed {
		names[s] = true
	}
	w.fileQueries = append(w.fileQueries, query{Op: "NumFiles"}, query{Op: "RangeFiles"})
	for _, p := range sortedKeys(pathSet) {
		w.fileQueries = append(w.fileQueries, query{Op: "FindFileByPath", Name: p})
	}
	w.typeQueries = append(w.typeQueries, query{Op: "NumMessages"}, query{Op: "NumEnums"}, query{Op: "NumExtensions"},
		query{Op: "RangeMessages"}, query{Op: "RangeEnums"}, query{Op: "RangeExtensions"})
	for i, n := range sortedKeys(names) {
		w.fileQueries = append(w.fileQueries, query{Op: "FindDescriptorByName", Name: n}, query{Op: "NumFilesByPackage", Name: n}, query{Op: "RangeFilesByPackage", Name: n})
		w.typeQueries = append(w.typeQueries, query{Op: "FindMessageByName", Name: n}, query{Op: "FindEnumByName", Name: n}, query{Op: "FindExtensionByName", Name: n},
			query{Op: "FindMessageByURL", Name: n, Num: int32(i % len(urlForms))})
	}
	for _, e := range sortedKeys(extendees) {
		w.typeQueries = append(w.typeQueries, query{Op: "NumExtensionsByMessage", Name: e}, query{Op: "RangeExtensionsByMessage", Name: e})
		for n := int32(0); n <= 9; n++ {
			w.typeQueries = append(w.typeQueries, query{Op: "FindExtensionByNumber", Name: e, Num: n})
		}
	}
}

func sortedKeys(m map[string]bool) []string {
	out := make([]string, 0, len(m))
	for k := range m {
		out = append(out, k)
	}
	sort.Strings(out)
	return out
}

var urlForms = []string{"%s", "type.googleapis.com/%s", "/%s", "x/y.z/%s", "%s/", "a.b/%s"}

func url(q query) string {
	return fmt.Sprintf(urlForms[int(q.Num)%len(urlForms)], q.Name)
}

// ---- observing the registries -------------------------------------------------------------------

func errCode(err error) int64 {
	if err == protoregistry.NotFound {
		return rNotFound
	}
	return rError
}

func (w *world) descResult(buf []int64, d protoreflect.Descriptor, err error) []int64 {
	if (d == nil) == (err == nil) {
		return append(buf, rBadPair)
	}
	if err != nil {
		return append(buf, errCode(err))
	}
	if r, ok := w.descIDs[d]; ok {
		return append(buf, declID(r))
	}
	return append(buf, rForeign)
}

func (w *world) descOne(d protoreflect.Descriptor) int64 {
	if r, ok := w.descIDs[d]; ok {
		return declID(r)
	}
	return rForeign
}

func (w *world) fileSet(buf, ids []int64) []int64 {
	if len(ids) > 1 {
		sort.Slice(ids, func(i, j int) bool { return ids[i] < ids[j] })
	}
	return append(append(buf, int64(len(ids))), ids...)
}

func (w *world) fileOf(fd protoreflect.FileDescriptor) int64 {
	if i, ok := w.fileIDs[fd]; ok {
		return fileID(i)
	}
	return rForeign
}

// stopAfterOne appends how many callbacks a Range made when the callback returns false at once.
func stopAfterOne(res []int64, calls int) []int64 { return append(res, int64(calls)) }

func (w *world) observe(q query, buf []int64) []int64 {
	name := protoreflect.FullName(q.Name)
	switch q.Op {
	case "NumFiles":
		return append(buf, int64(w.files.NumFiles()))
	case "RangeFiles":
		var ids []int64
		w.files.RangeFiles(func(fd protoreflect.FileDescriptor) bool { ids = append(ids, w.fileOf(fd)); return true })
		calls := 0
		w.files.RangeFiles(func(protoreflect.FileDescriptor) bool { calls++; return false })
		return stopAfterOne(w.fileSet(buf, ids), calls)
	case "FindFileByPath":
		fd, err := w.files.FindFileByPath(q.Name)
		if (fd == nil) == (err == nil) {
			return append(buf, rBadPair)
		}
		if err != nil {
			return append(buf, errCode(err))
		}
		return append(buf, w.fileOf(fd))
	case "NumFilesByPackage":
		return append(buf, int64(w.files.NumFilesByPackage(name)))
	case "RangeFilesByPackage":
		var ids []int64
		w.files.RangeFilesByPackage(name, func(fd protoreflect.FileDescriptor) bool { ids = append(ids, w.fileOf(fd)); return true })
		calls := 0
		w.files.RangeFilesByPackage(name, func(protoreflect.FileDescriptor) bool { calls++; return false })
		return stopAfterOne(w.fileSet(buf, ids), calls)
	case "FindDescriptorByName":
		d, err := w.files.FindDescriptorByName(name)
		res := w.descResult(buf, d, err)
		if err == nil && d != nil && d.FullName() != name {
			return append(buf, rForeign) // found something whose full name is not the query
		}
		return res
	case "NumMessages":
		return append(buf, int64(w.types.NumMessages()))
	case "NumEnums":
		return append(buf, int64(w.types.NumEnums()))
	case "NumExtensions":
		return append(buf, int64(w.types.NumExtensions()))
	case "RangeMessages":
		var ids []int64
		w.types.RangeMessages(func(mt protoreflect.MessageType) bool { ids = append(ids, w.descOne(mt.Descriptor())); return true })
		calls := 0
		w.types.RangeMessages(func(protoreflect.MessageType) bool { calls++; return false })
		return stopAfterOne(w.fileSet(buf, ids), calls)
	case "RangeEnums":
		var ids []int64
		w.types.RangeEnums(func(et protoreflect.EnumType) bool { ids = append(ids, w.descOne(et.Descriptor())); return true })
		calls := 0
		w.types.RangeEnums(func(protoreflect.EnumType) bool { calls++; return false })
		return stopAfterOne(w.fileSet(buf, ids), calls)
	case "RangeExtensions":
		var ids []int64
		w.types.RangeExtensions(func(xt protoreflect.ExtensionType) bool {
			ids = append(ids, w.descOne(xt.TypeDescriptor().Descriptor()))
			return true
		})
		calls := 0
		w.types.RangeExtensions(func(protoreflect.ExtensionType) bool { calls++; return false })
		return stopAfterOne(w.fileSet(buf, ids), calls)
	case "FindMessageByName", "FindMessageByURL":
		var mt protoreflect.MessageType
		var err error
		if q.Op == "FindMessageByName" {
			mt, err = w.types.FindMessageByName(name)
		} else {
			mt, err = w.types.FindMessageByURL(url(q))
		}
		if (mt == nil) == (err == nil) {
			return append(buf, rBadPair)
		}
		if err != nil {
			return append(buf, errCode(err))
		}
		return w.descResult(buf, mt.Descriptor(), nil)
	case "FindEnumByName":
		et, err := w.types.FindEnumByName(name)
		if (et == nil) == (err == nil) {
			return append(buf, rBadPair)
		}
		if err != nil {
			return append(buf, errCode(err))
		}
		return w.descResult(buf, et.Descriptor(), nil)
	case "FindExtensionByName", "FindExtensionByNumber":
		var xt protoreflect.ExtensionType
		var err error
		if q.Op == "FindExtensionByName" {
			xt, err = w.types.FindExtensionByName(name)
		} else {
			xt, err = w.types.FindExtensionByNumber(name, protoreflect.FieldNumber(q.Num))
		}
		if (xt == nil) == (err == nil) {
			return append(buf, rBadPair)
		}
		if err != nil {
			return append(buf, errCode(err))
		}
		return w.descResult(buf, xt.TypeDescriptor().Descriptor(), nil)
	case "NumExtensionsByMessage":
		return append(buf, int64(w.types.NumExtensionsByMessage(name)))
	case "RangeExtensionsByMessage":
		var ids []int64
		w.types.RangeExtensionsByMessage(name, func(xt protoreflect.ExtensionType) bool {
			ids = append(ids, w.descOne(xt.TypeDescriptor().Descriptor()))
			return true
		})
		calls := 0
		w.types.RangeExtensionsByMessage(name, func(protoreflect.ExtensionType) bool { calls++; return false })
		return stopAfterOne(w.fileSet(buf, ids), calls)
	}
	panic("unknown query " + q.Op)
}

// ---- what the model says ------------------------------------------------------------------------

func min1(n int) int {
	if n > 1 {
		return 1
	}
	return n
}

func (w *world) filesAsSet(buf []int64, idx []int) []int64 {
	var ids []int64
	for _, i := range idx {
		ids = append(ids, fileID(i))
	}
	return stopAfterOne(w.fileSet(buf, ids), min1(len(idx)))
}

func (w *world) typesOfKind(buf []int64, k byte) []int64 {
	var ids []int64
	for _, e := range w.mtypes.names {
		if e.Kind == k {
			ids = append(ids, declID(e.Ref))
		}
	}
	return stopAfterOne(w.fileSet(buf, ids), min1(len(ids)))
}

func (w *world) typeByName(buf []int64, name string, k byte) []int64 {
	e, ok := w.mtypes.names[name]
	switch {
	case !ok:
		return append(buf, rNotFound)
	case e.Kind != k:
		return append(buf, rWrongKind)
	}
	return append(buf, declID(e.Ref))
}

func (w *world) expect(q query, buf []int64) []int64 {
	switch q.Op {
	case "NumFiles":
		return append(buf, int64(len(w.mfiles.files)))
	case "RangeFiles":
		return w.filesAsSet(buf, w.mfiles.files)
	case "FindFileByPath":
		if i, ok := w.mfiles.paths[q.Name]; ok {
			return append(buf, fileID(i))
		}
		return append(buf, rNotFound)
	case "NumFilesByPackage":
		return append(buf, int64(len(w.mfiles.pkgs[q.Name])))
	case "RangeFilesByPackage":
		return w.filesAsSet(buf, w.mfiles.pkgs[q.Name])
	case "FindDescriptorByName":
		if r, ok := w.mfiles.names[q.Name]; ok {
			return append(buf, declID(r))
		}
		return append(buf, rNotFound)
	case "NumMessages":
		return append(buf, int64(w.mtypes.n['M']))
	case "NumEnums":
		return append(buf, int64(w.mtypes.n['E']))
	case "NumExtensions":
		return append(buf, int64(w.mtypes.n['X']))
	case "RangeMessages":
		return w.typesOfKind(buf, 'M')
	case "RangeEnums":
		return w.typesOfKind(buf, 'E')
	case "RangeExtensions":
		return w.typesOfKind(buf, 'X')
	case "FindMessageByName":
		return w.typeByName(buf, q.Name, 'M')
	case "FindMessageByURL":
		u := url(q)
		return w.typeByName(buf, u[strings.LastIndexByte(u, '/')+1:], 'M')
	case "FindEnumByName":
		return w.typeByName(buf, q.Name, 'E')
	case "FindExtensionByName":
		return w.typeByName(buf, q.Name, 'X')
	case "FindExtensionByNumber":
		if r, ok := w.mtypes.exts[q.Name][q.Num]; ok {
			return append(buf, declID(r))
		}
		return append(buf, rNotFound)
	case "NumExtensionsByMessage":
		return append(buf, int64(len(w.mtypes.exts[q.Name])))
	case "RangeExtensionsByMessage":
		var ids []int64
		for _, r := range w.mtypes.exts[q.Name] {
			ids = append(ids, declID(r))
		}
		return stopAfterOne(w.fileSet(buf, ids), min1(len(ids)))
	}
	panic("unknown query " + q.Op)
}

func same(got, want []int64) bool {
	if len(want) == 1 && want[0] == rWrongKind {
		return len(got) == 1 && (got[0] == rError || got[0] == rNotFound)
	}
	if len(got) != len(want) {
		return false
	}
	for i := range got {
		if got[i] != want[i] {
			return false
		}
	}
	return true
}

func (w *world) show(r []int64) string {
	var parts []string
	for _, v := range r {
		switch {
		case v == rNotFound:
			parts = append(parts, "NotFound")
		case v == rError:
			parts = append(parts, "error")
		case v == rForeign:
			parts = append(parts, "foreign-or-misnamed-descriptor")
		case v == rWrongKind:
			parts = append(parts, "error(wrong kind)")
		case v == rBadPair:
			parts = append(parts, "(nil,nil)-or-(value,error)")
		case v >= 100000:
			f, d := int(v/100000)-1, int(v%100000)
			parts = append(parts, fmt.Sprintf("file%d:%c:%s", f, w.pool[f].Decls[d].Kind, w.pool[f].Decls[d].Name))
		default:
			parts = append(parts, fmt.Sprint(v))
		}
	}
	return "[" + strings.Join(parts, " ") + "]"
}

func (w *world) checkQuery(q query, when string) error {
	w.gotBuf, w.wantBuf = w.observe(q, w.gotBuf[:0]), w.expect(q, w.wantBuf[:0])
	if !same(w.gotBuf, w.wantBuf) {
		return fmt.Errorf("%s: %s(%q,%d) = %s, name-table model says %s", when, q.Op, q.Name, q.Num, w.show(w.gotBuf), w.show(w.wantBuf))
	}
	return nil
}

// observation of all queries of one registry: flat results + start offsets.
type observation struct {
	flat []int64
	off  []int32
}

func (o observation) at(i int) []int64 { return o.flat[o.off[i]:o.off[i+1]] }

// sweep compares every query of one registry with the model and returns the raw observation.
func (w *world) sweep(qs []query, when string) (observation, error) {
	o := observation{flat: make([]int64, 0, 2*len(qs)+16), off: make([]int32, 0, len(qs)+1)}
	for _, q := range qs {
		start := len(o.flat)
		o.off = append(o.off, int32(start))
		o.flat = w.observe(q, o.flat)
		got := o.flat[start:]
		w.wantBuf = w.expect(q, w.wantBuf[:0])
		if !same(got, w.wantBuf) {
			return o, fmt.Errorf("%s: %s(%q,%d) = %s, name-table model says %s", when, q.Op, q.Name, q.Num, w.show(got), w.show(w.wantBuf))
		}
	}
	o.off = append(o.off, int32(len(o.flat)))
	return o, nil
}

// unchanged is the model-free half of "a failed registration changes nothing".
func (w *world) unchanged(qs []query, before, after observation, when string) error {
	for i := range qs {
		if !same(after.at(i), before.at(i)) {
			return fmt.Errorf("%s: the failed registration changed %s(%q,%d): before %s, after %s", when, qs[i].Op, qs[i].Name, qs[i].Num, w.show(before.at(i)), w.show(after.at(i)))
		}
	}
	return nil
}

// ---- running a history ---------------------------------------------------------------------------

func pick(fi *fileInfo, kind byte, sel int) int {
	var idx []int
	for j, d := range fi.Decls {
		if d.Kind == kind {
			idx = append(idx, j)
		}
	}
	if len(idx) == 0 {
		return -1
	}
	if sel < 0 {
		sel = -sel
	}
	return idx[sel%len(idx)]
}

type outcome struct {
	accepted  map[string]int
	rejected  map[string]int
	skipped   int
	queryHits int
	pkgs      []string
}

// run executes the history. With reg == false only the model is run (for classification).
func run(c histCase, reg bool) (outcome, error) {
	out := outcome{accepted: map[string]int{}, rejected: map[string]int{}}
	var w *world
	if reg {
		var err error
		if w, err = newWorld(c); err != nil {
			return out, err
		}
		if w.lastFiles, err = w.sweep(w.fileQueries, "empty registry"); err != nil {
			return out, err
		}
		if w.lastTypes, err = w.sweep(w.typeQueries, "empty registry"); err != nil {
			return out, err
		}
	} else {
		w = &world{mfiles: newFilesModel(), mtypes: newTypesModel()}
		w.pool = append(w.pool, baseInfo)
		for _, s := range c.Pool {
			fdp := buildFDP(s)
			w.pool = append(w.pool, &fileInfo{Path: s.Path, Pkg: s.Pkg, Decls: declsOf(fdp)})
		}
	}
	for i, o := range c.Ops {
		f := o.F
		if f < 0 {
			f = -f
		}
		f %= len(w.pool)
		fi := w.pool[f]
		when := fmt.Sprintf("after op %d (%s file%d)", i, o.K, f)
		switch o.K {
		case "file":
			why := w.mfiles.conflict(fi)
			if reg {
				err := w.files.RegisterFile(fi.FD)
				if (err == nil) != (why == "") {
					return out, fmt.Errorf("op %d: RegisterFile(file%d %q package %q) error = %v, name-table model says conflict = %q", i, f, fi.Path, fi.Pkg, err, why)
				}
			}
			if why == "" {
				w.mfiles.add(f, fi)
				out.accepted["file"]++
				out.pkgs = append(out.pkgs, fi.Pkg)
			} else {
				out.rejected[why]++
			}
			if reg {
				obs, err := w.sweep(w.fileQueries, when)
				if err != nil {
					return out, err
				}
				if why != "" {
					if err := w.unchanged(w.fileQueries, w.lastFiles, obs, when); err != nil {
						return out, err
					}
				}
				w.lastFiles = obs
			}
		case "msg", "enum", "ext":
			kind := map[string]byte{"msg": 'M', "enum": 'E', "ext": 'X'}[o.K]
			j := pick(fi, kind, o.D)
			if j < 0 {
				out.skipped++
				continue
			}
			d := fi.Decls[j]
			why := w.mtypes.conflict(d)
			if reg {
				var err error
				switch desc := resolve(fi.FD, d.Path).(type) {
				case protoreflect.MessageDescriptor:
					err = w.types.RegisterMessage(dynamicpb.NewMessageType(desc))
				case protoreflect.EnumDescriptor:
					err = w.types.RegisterEnum(dynamicpb.NewEnumType(desc))
				case protoreflect.ExtensionDescriptor:
					err = w.types.RegisterExtension(dynamicpb.NewExtensionType(desc))
				}
				if (err == nil) != (why == "") {
					return out, fmt.Errorf("op %d: Register(%s %q of file%d, extendee %q number %d) error = %v, name-table model says conflict = %q", i, o.K, d.Name, f, d.Extendee, d.Num, err, why)
				}
			}
			if why == "" {
				w.mtypes.add(d, ref{f, j})
				out.accepted[o.K]++
			} else {
				out.rejected[why]++
			}
			if reg {
				obs, err := w.sweep(w.typeQueries, when)
				if err != nil {
					return out, err
				}
				if why != "" {
					if err := w.unchanged(w.typeQueries, w.lastTypes, obs, when); err != nil {
						return out, err
					}
				}
				w.lastTypes = obs
			}
		case "query":
			if o.Q == nil {
				continue
			}
			if r := w.expect(*o.Q, nil); r[0] > 0 && strings.HasPrefix(o.Q.Op, "Find") {
				out.queryHits++
			}
			if reg {
				if err := w.checkQuery(*o.Q, fmt.Sprintf("op %d", i)); err != nil {
					return out, err
				}
			}
		}
	}
	if reg { // lookups must not have changed anything either
		obs, err := w.sweep(w.fileQueries, "end of history")
		if err != nil {
			return out, err
		}
		if err := w.unchanged(w.fileQueries, w.lastFiles, obs, "end of history (lookups only since the last sweep)"); err != nil {
			return out, err
		}
		obs, err = w.sweep(w.typeQueries, "end of history")
		if err != nil {
			return out, err
		}
		if err := w.unchanged(w.typeQueries, w.lastTypes, obs, "end of history (lookups only since the last sweep)"); err != nil {
			return out, err
		}
	}
	return out, nil
}

func checkHistory(c histCase) error {
	_, err := run(c, true)
	return err
}

func nests(pkgs []string) bool {
	for _, p := range pkgs {
		for _, q := range pkgs {
			if p != "" && strings.HasPrefix(q, p+".") {
				return true
			}
		}
	}
	return false
}

func nonTrivial(c histCase) bool {
	o, _ := run(c, false)
	rej := 0
	for _, n := range o.rejected {
		rej += n
	}
	return rej >= 1 && o.accepted["file"] >= 2 && nests(o.pkgs)
}

func classes(c histCase) []string {
	o, _ := run(c, false)
	var out []string
	for k := range o.accepted {
		out = append(out, "accept:"+k)
	}
	for k := range o.rejected {
		out = append(out, "reject:"+k)
	}
	if nests(o.pkgs) {
		out = append(out, "accepted-packages-nest")
	}
	if o.queryHits > 0 {
		out = append(out, "drawn-lookup-hit")
	}
	if o.accepted["file"] >= 4 {
		out = append(out, "files>=4")
	}
	sort.Strings(out)
	return out
}

// ---- drawing -------------------------------------------------------------------------------------

var queryOps = []string{"FindDescriptorByName", "FindDescriptorByName", "FindDescriptorByName", "NumFilesByPackage", "RangeFilesByPackage",
	"FindMessageByName", "FindEnumByName", "FindExtensionByName", "FindMessageByURL", "FindExtensionByNumber", "NumExtensionsByMessage", "FindFileByPath"}

func drawDotted(t *rapid.T, known []string) string {
	switch k := rapid.IntRange(0, 9).Draw(t, "namesrc"); {
	case k == 0:
		return rapid.SampledFrom(malformed).Draw(t, "bad")
	case k < 6 && len(known) > 0: // a declared name of some pool file (registered or not), sometimes one level deeper or shallower
		n := rapid.SampledFrom(known).Draw(t, "known")
		switch rapid.IntRange(0, 5).Draw(t, "tweak") {
		case 0:
			return n + "." + drawName(t)
		case 1:
			return parentName(n)
		}
		return n
	}
	n := rapid.IntRange(1, 6).Draw(t, "parts")
	parts := make([]string, n)
	for i := range parts {
		parts[i] = drawName(t)
	}
	return strings.Join(parts, ".")
}

func drawQuery(t *rapid.T, known []string) *query {
	q := &query{Op: rapid.SampledFrom(queryOps).Draw(t, "qop")}
	switch q.Op {
	case "FindFileByPath":
		q.Name = rapid.SampledFrom(paths).Draw(t, "qpath")
	case "FindExtensionByNumber":
		q.Name = drawDotted(t, known)
		q.Num = int32(rapid.IntRange(0, 5).Draw(t, "qnum"))
	case "FindMessageByURL":
		q.Name = drawDotted(t, known)
		q.Num = int32(rapid.IntRange(0, len(urlForms)-1).Draw(t, "form"))
	default:
		q.Name = drawDotted(t, known)
	}
	return q
}

func drawHistory(t *rapid.T) histCase {
	var c histCase
	n := rapid.IntRange(2, 12).Draw(t, "pool")
	for i := 0; i < n; i++ {
		c.Pool = append(c.Pool, drawFile(t))
	}
	var known []string
	for _, s := range c.Pool {
		for _, d := range declsOf(buildFDP(s)) {
			known = append(known, d.Name)
		}
	}
	steps := rapid.IntRange(1, 40).Draw(t, "steps")
	for i := 0; i < steps; i++ {
		var o op
		switch k := rapid.IntRange(0, 19).Draw(t, "kind"); {
		case k < 9:
			o = op{K: "file", F: rapid.IntRange(0, n).Draw(t, "f")}
		case k < 11:
			o = op{K: "msg", F: rapid.IntRange(0, n).Draw(t, "f"), D: rapid.IntRange(0, 7).Draw(t, "d")}
		case k < 13:
			o = op{K: "enum", F: rapid.IntRange(0, n).Draw(t, "f"), D: rapid.IntRange(0, 3).Draw(t, "d")}
		case k < 17:
			o = op{K: "ext", F: rapid.IntRange(0, n).Draw(t, "f"), D: rapid.IntRange(0, 5).Draw(t, "d")}
		default:
			o = op{K: "query", Q: drawQuery(t, known)}
		}
		c.Ops = append(c.Ops, o)
	}
	return c
}

func TestHistories(t *testing.T) {
	pbt.Run(t, pbt.Prop[histCase]{
		Name: "history",
		Rule: "pool of 2-12 random proto2 files (+ base.proto) in collision mode: packages from {'',a,a.b,a.b.c,b,a.c,a.b.c.d}, every identifier from {a..f}, 10 repeating paths, extension numbers 1..4 on extendees shared by full name; history of <= 40 RegisterFile / RegisterMessage / RegisterEnum / RegisterExtension (dynamicpb types) and drawn lookups on a fresh Files and Types; verdict of each registration and a sweep of every lookup/count/range over the universe of names (all declarations at all depths, packages, near misses, malformed names) are compared with a flat name-table model after every registration; after a failed one the sweep must also equal the previous sweep. non-trivial = >= 1 rejected registration and >= 2 accepted files whose packages nest",
		Draw:       drawHistory,
		Check:      checkHistory,
		NonTrivial: nonTrivial,
		Classes:    classes,
		Quick:      3000, Thorough: 20000,
	})
}
