package c25

// A light, independent reader for the subset of the text format that prototext *writes*:
//
//	entry  = name [":"] ( "{" entry* "}" | "<" entry* ">" | literal+ | token )
//	name   = [A-Za-z0-9_.]+ | "[" ... "]"
//
// String literals are cut at the matching unescaped quote and decoded by the reference
// unescaper (ref.TextUnquote). It shares no code with internal/encoding/text.

import (
	"fmt"

	"google.golang.org/protobuf/zverif/ref"
)

type node struct {
	Name  string
	IsMsg bool
	Kids  []node
	IsStr bool
	Str   []byte // decoded, concatenated literals
	Tok   string // raw scalar token when neither message nor string
}

type textParser struct {
	in  []byte
	pos int
}

func isWS(c byte) bool { return c == ' ' || c == '\n' || c == '\t' || c == '\r' }

func (p *textParser) skipWS() {
	for p.pos < len(p.in) && isWS(p.in[p.pos]) {
		p.pos++
	}
}

func isNameChar(c byte) bool {
	return c >= 'a' && c <= 'z' || c >= 'A' && c <= 'Z' || c >= '0' && c <= '9' || c == '_' || c == '.'
}

func parseText(b []byte) ([]node, error) {
	p := &textParser{in: b}
	ns, err := p.entries(0)
	if err != nil {
		return nil, err
	}
	if p.pos != len(p.in) {
		return nil, fmt.Errorf("textparse: trailing input at %d: %q", p.pos, clip(p.in[p.pos:]))
	}
	return ns, nil
}

func clip(b []byte) []byte {
	if len(b) > 40 {
		return b[:40]
	}
	return b
}

func (p *textParser) entries(closer byte) ([]node, error) {
	var out []node
	for {
		p.skipWS()
		if p.pos >= len(p.in) {
			if closer != 0 {
				return nil, fmt.Errorf("textparse: missing %q", closer)
			}
			return out, nil
		}
		if closer != 0 && p.in[p.pos] == closer {
			p.pos++
			return out, nil
		}
		n, err := p.entry()
		if err != nil {
			return nil, err
		}
		out = append(out, n)
	}
}

func (p *textParser) entry() (node, error) {
	var n node
	start := p.pos
	if p.in[p.pos] == '[' {
		for p.pos < len(p.in) && p.in[p.pos] != ']' {
			p.pos++
		}
		if p.pos >= len(p.in) {
			return n, fmt.Errorf("textparse: unterminated [name]")
		}
		p.pos++
	} else {
		for p.pos < len(p.in) && isNameChar(p.in[p.pos]) {
			p.pos++
		}
	}
	if p.pos == start {
		return n, fmt.Errorf("textparse: expected a field name at %d: %q", p.pos, clip(p.in[p.pos:]))
	}
	n.Name = string(p.in[start:p.pos])
	p.skipWS()
	if p.pos < len(p.in) && p.in[p.pos] == ':' {
		p.pos++
		p.skipWS()
	}
	if p.pos >= len(p.in) {
		return n, fmt.Errorf("textparse: field %s has no value", n.Name)
	}
	switch c := p.in[p.pos]; {
	case c == '{' || c == '<':
		p.pos++
		closer := byte('}')
		if c == '<' {
			closer = '>'
		}
		kids, err := p.entries(closer)
		if err != nil {
			return n, err
		}
		n.IsMsg, n.Kids = true, kids
	case c == '"' || c == '\'':
		n.IsStr = true
		for p.pos < len(p.in) && (p.in[p.pos] == '"' || p.in[p.pos] == '\'') {
			q := p.in[p.pos]
			s := p.pos
			p.pos++
			for {
				if p.pos >= len(p.in) {
					return n, fmt.Errorf("textparse: unterminated literal in field %s", n.Name)
				}
				if p.in[p.pos] == '\\' {
					p.pos += 2
					continue
				}
				if p.in[p.pos] == q {
					p.pos++
					break
				}
				p.pos++
			}
			if p.pos > len(p.in) {
				return n, fmt.Errorf("textparse: unterminated literal in field %s", n.Name)
			}
			v, err := ref.TextUnquote(p.in[s:p.pos])
			if err != nil {
				return n, err
			}
			n.Str = append(n.Str, v...)
			p.skipWS()
		}
	default:
		s := p.pos
		for p.pos < len(p.in) && !isWS(p.in[p.pos]) && p.in[p.pos] != '{' && p.in[p.pos] != '}' && p.in[p.pos] != '<' && p.in[p.pos] != '>' && p.in[p.pos] != '"' && p.in[p.pos] != '\'' {
			p.pos++
		}
		if p.pos == s {
			return n, fmt.Errorf("textparse: field %s: unexpected %q", n.Name, p.in[p.pos])
		}
		n.Tok = string(p.in[s:p.pos])
	}
	return n, nil
}
