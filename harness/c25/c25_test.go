package c25

import (
	"bytes"
	"fmt"
	"strconv"
	"strings"
	"testing"
	"unicode/utf8"

	"google.golang.org/protobuf/encoding/prototext"
	"google.golang.org/protobuf/internal/encoding/text"
	testpb "google.golang.org/protobuf/internal/testprotos/test"
	test3pb "google.golang.org/protobuf/internal/testprotos/test3"
	"google.golang.org/protobuf/proto"
	"google.golang.org/protobuf/zverif/gen"
	"google.golang.org/protobuf/zverif/pbt"
	"google.golang.org/protobuf/zverif/ref"
	"pgregory.net/rapid"
)

// =================================================================================================
// 1. Encoder.WriteString -> {reference unescaper, Decoder, UnmarshalString}

type literalCase struct {
	S     []byte
	ASCII bool
}

// asciiOnly reports the first byte outside the printable-ASCII range; in multi-line output (nl)
// the newline and the caller's own indent characters (space/tab) are layout, not content.
func asciiOnly(out []byte, nl bool, indent string) error {
	for i, c := range out {
		if c >= 0x20 && c <= 0x7e || nl && (c == '\n' || strings.IndexByte(indent, c) >= 0) {
			continue
		}
		return fmt.Errorf("output byte %#02x at offset %d is not printable ASCII: %q", c, i, out)
	}
	return nil
}

func checkLiteral(c literalCase) error {
	enc, err := text.NewEncoder(nil, "", [2]byte{}, c.ASCII)
	if err != nil {
		return fmt.Errorf("NewEncoder: %v", err)
	}
	enc.WriteName("f")
	enc.WriteString(string(c.S))
	out := append([]byte(nil), enc.Bytes()...)
	if !bytes.HasPrefix(out, []byte(`f:"`)) {
		return fmt.Errorf("unexpected encoder output %q", out)
	}
	lit := out[2:]
	if c.ASCII {
		if err := asciiOnly(out, false, ""); err != nil {
			return fmt.Errorf("outputASCII=true: %v (input %x)", err, c.S)
		}
	} else if !utf8.Valid(out) {
		// NewEncoder: "the overall output is ASCII (as opposed to UTF-8)"
		return fmt.Errorf("outputASCII=false: output is not valid UTF-8: %q (input %x)", out, c.S)
	}
	// (a) the literal, read by the reference unescaper, denotes the input
	if got, err := ref.TextUnquote(lit); err != nil {
		return fmt.Errorf("encoder wrote %q for %x: reference reader: %v", lit, c.S, err)
	} else if !bytes.Equal(got, c.S) {
		return fmt.Errorf("encoder wrote %q for %x: reference reader yields %x", lit, c.S, got)
	}
	// (b) the Decoder reads back the identical bytes
	if err := decodeOne(out, c.S); err != nil {
		return fmt.Errorf("input %x ascii=%v: %v", c.S, c.ASCII, err)
	}
	// (c) UnmarshalString (the defval entry point) agrees
	if got, err := text.UnmarshalString(string(lit)); err != nil || got != string(c.S) {
		return fmt.Errorf("UnmarshalString(%q) = %x, %v; want %x", lit, got, err, c.S)
	}
	// (d) AppendString is the non-ASCII writer
	if !c.ASCII {
		if a := text.AppendString(nil, string(c.S)); !bytes.Equal(a, lit) {
			return fmt.Errorf("AppendString(%x) = %q, WriteString wrote %q", c.S, a, lit)
		}
	}
	return nil
}

// decodeOne reads `f:<literal(s)>` with text.Decoder and compares the string value with want.
func decodeOne(doc []byte, want []byte) error {
	d := text.NewDecoder(doc)
	tok, err := d.Read()
	if err != nil {
		return fmt.Errorf("Decoder.Read(name) on %q: %v", doc, err)
	}
	if tok.Kind() != text.Name {
		return fmt.Errorf("Decoder on %q: first token kind %v", doc, tok.Kind())
	}
	tok, err = d.Read()
	if err != nil {
		return fmt.Errorf("Decoder.Read(value) on %q: %v", doc, err)
	}
	s, ok := tok.String()
	if tok.Kind() != text.Scalar || !ok {
		return fmt.Errorf("Decoder on %q: value token kind %v, String ok=%v", doc, tok.Kind(), ok)
	}
	if s != string(want) {
		return fmt.Errorf("Decoder on %q: parsed %x, want %x", doc, s, want)
	}
	tok, err = d.Read()
	if err != nil || tok.Kind() != text.EOF {
		return fmt.Errorf("Decoder on %q: after the value: kind %v, err %v; want EOF", doc, tok.Kind(), err)
	}
	return nil
}

func interesting(s []byte) bool {
	for _, c := range s {
		if c >= 0x80 || c < 0x20 || c == 0x7f {
			return true
		}
	}
	return false
}

func literalClasses(s []byte) []string {
	var cls []string
	add := func(c string) {
		for _, x := range cls {
			if x == c {
				return
			}
		}
		cls = append(cls, c)
	}
	if len(s) == 0 {
		add("empty")
	}
	for i := 0; i < len(s); {
		r, n := utf8.DecodeRune(s[i:])
		switch {
		case r == utf8.RuneError && n <= 1:
			add("invalid-utf8")
		case r < 0x20:
			add("c0")
		case r == 0x7f:
			add("del")
		case r == '"' || r == '\'' || r == '\\' || r == '?':
			add("quote/backslash/?")
		case r < 0x80:
			add("ascii")
		case r <= 0x9f:
			add("c1")
		case r == 0xfffd:
			add("U+FFFD")
		case r <= 0xffff:
			add("bmp")
		default:
			add("astral")
		}
		i += n
	}
	if len(s) >= 128 {
		add("len>=128")
	}
	return cls
}

var edgeBytes = []byte{0x00, 0x01, 0x09, 0x0a, 0x0d, 0x1f, 0x20, 0x22, 0x27, 0x30, 0x37, 0x38, 0x3f, 0x41, 0x46, 0x5c, 0x61, 0x66, 0x67, 0x7e, 0x7f,
	0x80, 0x81, 0x8f, 0x90, 0x9f, 0xa0, 0xbf, 0xc0, 0xc1, 0xc2, 0xdf, 0xe0, 0xe1, 0xec, 0xed, 0xee, 0xef, 0xf0, 0xf1, 0xf3, 0xf4, 0xf5, 0xff}

func TestLiteralExhaustive(t *testing.T) {
	if pbt.Shard != 0 && pbt.ReplayPath == "" {
		t.Skip("fixed enumeration: shard 0 only")
	}
	pbt.Enumerate(t, "literal-exhaustive",
		"every 0-, 1- and 2-byte string, every 3-byte string over 44 UTF-8 class-boundary bytes, 4-byte strings over lead/continuation boundary bytes; each with outputASCII off and on; Encoder.WriteString -> reference unescaper, text.Decoder, UnmarshalString; non-trivial = has a byte >= 0x80 or a control byte",
		true,
		func(yield func(literalCase, bool) bool) {
			emit := func(s []byte) bool {
				for _, a := range []bool{false, true} {
					if !yield(literalCase{S: append([]byte(nil), s...), ASCII: a}, interesting(s)) {
						return false
					}
				}
				return true
			}
			if !emit(nil) {
				return
			}
			for a := 0; a < 256; a++ {
				if !emit([]byte{byte(a)}) {
					return
				}
			}
			for a := 0; a < 256; a++ {
				for b := 0; b < 256; b++ {
					if !emit([]byte{byte(a), byte(b)}) {
						return
					}
				}
			}
			for _, a := range edgeBytes {
				for _, b := range edgeBytes {
					for _, c := range edgeBytes {
						if !emit([]byte{a, b, c}) {
							return
						}
					}
				}
			}
			for _, a := range []byte{0xf0, 0xf1, 0xf3, 0xf4, 0xf5} {
				for _, b := range []byte{0x7f, 0x80, 0x8f, 0x90, 0xbf, 0xc0} {
					for _, c := range []byte{0x7f, 0x80, 0xbf, 0xc0} {
						for _, d := range []byte{0x30, 0x7f, 0x80, 0xbf, 0xc0} {
							if !emit([]byte{a, b, c, d}) {
								return
							}
						}
					}
				}
			}
		}, checkLiteral)
}

// fault pool pieces for random strings
var pieces = func() [][]byte {
	var p [][]byte
	for _, s := range []string{`"`, `'`, `\`, `?`, "\x00", "\n", "\r", "\t", "\x7f", "\x1f", "\x01", "0", "7", "8", "a", "f", "g", "F", "x", "u", "U", "n", " ",
		"\u0080", "\u0085", "\u009f", "\u00a0", "\u07ff", "\u0800", "\ud7ff", "\ue000", "\ufffd", "\ufffe", "\uffff", "\U00010000", "\U0001F600", "\U0010ffff", "\u00e9", "\u65e5\u672c", "abc"} {
		p = append(p, []byte(s))
	}
	for _, s := range gen.InvalidUTF8 {
		p = append(p, []byte(s))
	}
	return p
}()

var pieceGen = rapid.Custom(func(t *rapid.T) []byte {
	if rapid.IntRange(0, 4).Draw(t, "raw?") == 4 {
		return []byte{rapid.Byte().Draw(t, "b")}
	}
	return rapid.SampledFrom(pieces).Draw(t, "piece")
})

// drawFaultBytes draws a byte string of at most maxLen bytes: generic bytes (gen.Bytes), raw random
// bytes, or a concatenation of fault-pool pieces (short, or long enough to cross 127/128/255/256).
func drawFaultBytes(t *rapid.T, label string, maxLen int) []byte {
	var s []byte
	switch rapid.IntRange(0, 4).Draw(t, label+"-kind") {
	case 0:
		s = gen.Bytes(maxLen).Draw(t, label)
	case 1:
		s = rapid.SliceOfN(rapid.Byte(), 0, 40).Draw(t, label)
	case 2:
		n := rapid.SampledFrom([]int{0, 30, 64, 100, 150}).Draw(t, label+"-npieces")
		for _, p := range rapid.SliceOfN(pieceGen, n, 150).Draw(t, label+"-long") {
			s = append(s, p...)
		}
	default:
		for _, p := range rapid.SliceOfN(pieceGen, 0, 12).Draw(t, label+"-pieces") {
			s = append(s, p...)
		}
	}
	if len(s) > maxLen {
		s = s[:maxLen]
	}
	return s
}

func TestLiteralRandom(t *testing.T) {
	pbt.Run(t, pbt.Prop[literalCase]{
		Name: "literal-random",
		Rule: "byte strings <= 300 bytes assembled from fault pools (invalid UTF-8 fragments, all C0/C1, DEL, U+FFFD, surrogate-range encodings, astral runes, quotes, backslashes, '?', digits/hex letters after escapes) and raw random bytes; outputASCII drawn; same oracle as literal-exhaustive; non-trivial = has a byte >= 0x80 or a control byte",
		Draw: func(t *rapid.T) literalCase {
			return literalCase{S: drawFaultBytes(t, "s", 300), ASCII: rapid.Bool().Draw(t, "ascii")}
		},
		Check:      checkLiteral,
		NonTrivial: func(c literalCase) bool { return interesting(c.S) },
		Classes: func(c literalCase) []string {
			cls := literalClasses(c.S)
			if c.ASCII {
				cls = append(cls, "outputASCII")
			}
			return cls
		},
		Quick: 40000, Thorough: 800000,
	})
}

// =================================================================================================
// 2. literals written by a reference writer in every escape form the specification defines -> Decoder

type styledCase struct {
	S      []byte
	Single bool  // single-quoted
	Styles []int // escape form per unit (cyclic)
	Split  int   // when > 0: write two adjacent literals, splitting S at Split%len
}

func checkStyled(c styledCase) error {
	q := byte('"')
	if c.Single {
		q = '\''
	}
	var lit []byte
	if c.Split > 0 && len(c.S) > 0 {
		// adjacent literals concatenate; split only on a rune boundary of valid runes
		k := c.Split % len(c.S)
		for k > 0 && !utf8.RuneStart(c.S[k]) {
			k--
		}
		lit = append(ref.TextQuoteStyled(c.S[:k], q, c.Styles), ' ')
		lit = append(lit, ref.TextQuoteStyled(c.S[k:], '\''+'"'-q, c.Styles)...)
		// self-check of the reference writer happens per part below
		a, e1 := ref.TextUnquote(ref.TextQuoteStyled(c.S[:k], q, c.Styles))
		b, e2 := ref.TextUnquote(ref.TextQuoteStyled(c.S[k:], '\''+'"'-q, c.Styles))
		if e1 != nil || e2 != nil || !bytes.Equal(append(a, b...), c.S) {
			return fmt.Errorf("HARNESS: reference writer/reader disagree on %x styles %v: %v %v", c.S, c.Styles, e1, e2)
		}
	} else {
		lit = ref.TextQuoteStyled(c.S, q, c.Styles)
		if back, err := ref.TextUnquote(lit); err != nil || !bytes.Equal(back, c.S) {
			return fmt.Errorf("HARNESS: reference writer/reader disagree on %x styles %v: %q -> %x, %v", c.S, c.Styles, lit, back, err)
		}
	}
	doc := append([]byte("f: "), lit...)
	if err := decodeOne(doc, c.S); err != nil {
		return err
	}
	if !(c.Split > 0 && len(c.S) > 0) {
		if got, err := text.UnmarshalString(string(lit)); err != nil || got != string(c.S) {
			return fmt.Errorf("UnmarshalString(%q) = %x, %v; want %x", lit, got, err, c.S)
		}
	}
	return nil
}

func TestStyledExhaustive(t *testing.T) {
	if pbt.Shard != 0 && pbt.ReplayPath == "" {
		t.Skip("fixed enumeration: shard 0 only")
	}
	pbt.Enumerate(t, "ref-escaped-exhaustive",
		"every 1-byte string written by the reference writer in each single escape form (raw, simple, octal 3/min, hex 2/min/upper, \\u, \\U), every 2-byte string in the forms whose width depends on the next character (raw, simple, octal-min, hex-min, \\u), both quote characters -> text.Decoder and UnmarshalString; non-trivial = has a byte >= 0x80 or a control byte",
		true,
		func(yield func(styledCase, bool) bool) {
			emit := func(s []byte) bool {
				for st := 0; st < ref.NStyles; st++ {
					for _, single := range []bool{false, true} {
						if len(s) == 2 && single && st != ref.StyleRaw && st != ref.StyleSimple {
							continue // quote character only matters for raw/simple forms
						}
						if len(s) == 2 && (st == ref.StyleOctal3 || st == ref.StyleHex2 || st == ref.StyleHexUpper || st == ref.StyleU8) {
							continue // fixed-width forms do not interact with the next character: covered by the 1-byte strings
						}
						if !yield(styledCase{S: append([]byte(nil), s...), Single: single, Styles: []int{st}}, interesting(s)) {
							return false
						}
					}
				}
				return true
			}
			for a := 0; a < 256; a++ {
				if !emit([]byte{byte(a)}) {
					return
				}
			}
			for a := 0; a < 256; a++ {
				for b := 0; b < 256; b++ {
					if !emit([]byte{byte(a), byte(b)}) {
						return
					}
				}
			}
		}, checkStyled)
}

func TestStyledRandom(t *testing.T) {
	pbt.Run(t, pbt.Prop[styledCase]{
		Name: "ref-escaped-random",
		Rule: "fault-pool byte strings written by the reference writer with a drawn escape form per unit (incl. surrogate pairs, minimal-digit octal/hex before non-digits, adjacent literals with different quotes) -> text.Decoder; non-trivial = has a byte >= 0x80 or a control byte",
		Draw: func(t *rapid.T) styledCase {
			c := styledCase{S: drawFaultBytes(t, "s", 120), Single: rapid.Bool().Draw(t, "single")}
			c.Styles = rapid.SliceOfN(rapid.IntRange(0, ref.NStyles-1), 1, 7).Draw(t, "styles")
			if rapid.IntRange(0, 3).Draw(t, "split?") == 3 {
				c.Split = rapid.IntRange(1, 200).Draw(t, "split")
			}
			return c
		},
		Check:      checkStyled,
		NonTrivial: func(c styledCase) bool { return interesting(c.S) },
		Classes: func(c styledCase) []string {
			cls := literalClasses(c.S)
			if c.Split > 0 {
				cls = append(cls, "adjacent-literals")
			}
			return cls
		},
		Quick: 30000, Thorough: 500000,
	})
}

// =================================================================================================
// 3. end-to-end through prototext on bytes fields and non-validated (proto2) string fields

type e2eCase struct {
	Str, Bytes       []byte
	RepStr, RepBytes [][]byte
	MapKey, MapVal   []byte
	OneofBytes       bool
	Oneof            []byte
	Proto3           bool // test3.TestAllTypes: validated strings (valid UTF-8 only) + bytes
	ASCII, Multiline bool
	Indent           string
	Format           bool // use MarshalOptions.Format instead of Marshal
}

func find(ns []node, name string) []node {
	var out []node
	for _, n := range ns {
		if n.Name == name {
			out = append(out, n)
		}
	}
	return out
}

func wantStrs(ns []node, name string, want ...[]byte) error {
	got := find(ns, name)
	if len(got) != len(want) {
		return fmt.Errorf("output has %d entries named %s, want %d", len(got), name, len(want))
	}
	for i := range want {
		if !got[i].IsStr || !bytes.Equal(got[i].Str, want[i]) {
			return fmt.Errorf("output entry %s[%d] denotes %x (string=%v), want %x", name, i, got[i].Str, got[i].IsStr, want[i])
		}
	}
	return nil
}

func checkE2E(c e2eCase) error {
	opts := prototext.MarshalOptions{EmitASCII: c.ASCII, Multiline: c.Multiline, Indent: c.Indent}
	var m, back proto.Message
	if c.Proto3 {
		x := &test3pb.TestAllTypes{SingularString: string(c.Str), SingularBytes: c.Bytes}
		for _, s := range c.RepStr {
			x.RepeatedString = append(x.RepeatedString, string(s))
		}
		x.RepeatedBytes = c.RepBytes
		m, back = x, &test3pb.TestAllTypes{}
	} else {
		x := &testpb.TestAllTypes{OptionalString: proto.String(string(c.Str)), OptionalBytes: c.Bytes}
		if x.OptionalBytes == nil {
			x.OptionalBytes = []byte{}
		}
		for _, s := range c.RepStr {
			x.RepeatedString = append(x.RepeatedString, string(s))
		}
		x.RepeatedBytes = c.RepBytes
		x.MapStringBytes = map[string][]byte{string(c.MapKey): c.MapVal}
		if c.OneofBytes {
			x.OneofField = &testpb.TestAllTypes_OneofBytes{OneofBytes: c.Oneof}
		} else {
			x.OneofField = &testpb.TestAllTypes_OneofString{OneofString: string(c.Oneof)}
		}
		m, back = x, &testpb.TestAllTypes{}
	}
	var out []byte
	if c.Format {
		out = []byte(opts.Format(m))
	} else {
		var err error
		out, err = opts.Marshal(m)
		if err != nil {
			return fmt.Errorf("Marshal: %v", err)
		}
	}
	if c.ASCII {
		if err := asciiOnly(out, c.Multiline || c.Indent != "", c.Indent); err != nil {
			return fmt.Errorf("EmitASCII: %v", err)
		}
	}
	// independent reading of the output
	ns, err := parseText(out)
	if err != nil {
		return fmt.Errorf("output %q: %v", out, err)
	}
	if c.Proto3 {
		if len(c.Str) > 0 {
			if err := wantStrs(ns, "singular_string", c.Str); err != nil {
				return fmt.Errorf("%v in %q", err, out)
			}
		}
		if len(c.Bytes) > 0 {
			if err := wantStrs(ns, "singular_bytes", c.Bytes); err != nil {
				return fmt.Errorf("%v in %q", err, out)
			}
		}
	} else {
		if err := wantStrs(ns, "optional_string", c.Str); err != nil {
			return fmt.Errorf("%v in %q", err, out)
		}
		if err := wantStrs(ns, "optional_bytes", c.Bytes); err != nil {
			return fmt.Errorf("%v in %q", err, out)
		}
		name := "oneof_string"
		if c.OneofBytes {
			name = "oneof_bytes"
		}
		if err := wantStrs(ns, name, c.Oneof); err != nil {
			return fmt.Errorf("%v in %q", err, out)
		}
		me := find(ns, "map_string_bytes")
		if len(me) != 1 || !me[0].IsMsg {
			return fmt.Errorf("output has %d map_string_bytes entries in %q", len(me), out)
		}
		if err := wantStrs(me[0].Kids, "key", c.MapKey); err != nil {
			return fmt.Errorf("map entry: %v in %q", err, out)
		}
		if err := wantStrs(me[0].Kids, "value", c.MapVal); err != nil {
			return fmt.Errorf("map entry: %v in %q", err, out)
		}
	}
	if err := wantStrs(ns, "repeated_string", c.RepStr...); err != nil {
		return fmt.Errorf("%v in %q", err, out)
	}
	if err := wantStrs(ns, "repeated_bytes", c.RepBytes...); err != nil {
		return fmt.Errorf("%v in %q", err, out)
	}
	// prototext reads its own output back to identical bytes
	if err := prototext.Unmarshal(out, back); err != nil {
		return fmt.Errorf("Unmarshal(%q): %v", out, err)
	}
	eq := func(what string, got, want []byte) error {
		if !bytes.Equal(got, want) {
			return fmt.Errorf("%s parsed back as %x, want %x (text %q)", what, got, want, out)
		}
		return nil
	}
	eqs := func(what string, got, want [][]byte) error {
		if len(got) != len(want) {
			return fmt.Errorf("%s parsed back with %d elements, want %d (text %q)", what, len(got), len(want), out)
		}
		for i := range got {
			if err := eq(fmt.Sprintf("%s[%d]", what, i), got[i], want[i]); err != nil {
				return err
			}
		}
		return nil
	}
	strs := func(ss []string) [][]byte {
		var o [][]byte
		for _, s := range ss {
			o = append(o, []byte(s))
		}
		return o
	}
	var errs []error
	if c.Proto3 {
		b := back.(*test3pb.TestAllTypes)
		errs = append(errs, eq("singular_string", []byte(b.SingularString), c.Str), eq("singular_bytes", b.SingularBytes, c.Bytes),
			eqs("repeated_string", strs(b.RepeatedString), c.RepStr), eqs("repeated_bytes", b.RepeatedBytes, c.RepBytes))
	} else {
		b := back.(*testpb.TestAllTypes)
		if b.OptionalString == nil || b.OptionalBytes == nil {
			return fmt.Errorf("optional_string/optional_bytes lost presence (text %q)", out)
		}
		errs = append(errs, eq("optional_string", []byte(*b.OptionalString), c.Str), eq("optional_bytes", b.OptionalBytes, c.Bytes),
			eqs("repeated_string", strs(b.RepeatedString), c.RepStr), eqs("repeated_bytes", b.RepeatedBytes, c.RepBytes))
		v, ok := b.MapStringBytes[string(c.MapKey)]
		if !ok || len(b.MapStringBytes) != 1 {
			return fmt.Errorf("map key %x not found after round trip (keys %d, text %q)", c.MapKey, len(b.MapStringBytes), out)
		}
		errs = append(errs, eq("map value", v, c.MapVal))
		if c.OneofBytes {
			o, ok := b.OneofField.(*testpb.TestAllTypes_OneofBytes)
			if !ok {
				return fmt.Errorf("oneof_bytes lost (text %q)", out)
			}
			errs = append(errs, eq("oneof_bytes", o.OneofBytes, c.Oneof))
		} else {
			o, ok := b.OneofField.(*testpb.TestAllTypes_OneofString)
			if !ok {
				return fmt.Errorf("oneof_string lost (text %q)", out)
			}
			errs = append(errs, eq("oneof_string", []byte(o.OneofString), c.Oneof))
		}
	}
	for _, e := range errs {
		if e != nil {
			return e
		}
	}
	return nil
}

func (c e2eCase) all() [][]byte {
	all := [][]byte{c.Str, c.Bytes, c.MapKey, c.MapVal, c.Oneof}
	all = append(all, c.RepStr...)
	return append(all, c.RepBytes...)
}

func TestPrototextE2E(t *testing.T) {
	pbt.Run(t, pbt.Prop[e2eCase]{
		Name: "prototext-e2e",
		Rule: "goproto.proto.test.TestAllTypes (proto2: strings not UTF-8 validated) optional/repeated/oneof/map string and bytes fields holding fault-pool byte strings, and goproto.proto.test3.TestAllTypes (valid UTF-8 strings, arbitrary bytes); Marshal or Format with EmitASCII/Multiline/Indent drawn -> independent text reader + reference unescaper, and prototext.Unmarshal; non-trivial = some field has a byte >= 0x80 or a control byte",
		Draw: func(t *rapid.T) e2eCase {
			c := e2eCase{Proto3: rapid.IntRange(0, 4).Draw(t, "proto3") == 4, ASCII: rapid.Bool().Draw(t, "ascii"), Multiline: rapid.Bool().Draw(t, "multiline"),
				Format: rapid.IntRange(0, 4).Draw(t, "format") == 4}
			if c.Multiline {
				c.Indent = rapid.SampledFrom([]string{"", " ", "\t", "    "}).Draw(t, "indent")
			}
			c.Bytes = drawFaultBytes(t, "bytes", 300)
			if c.Proto3 {
				c.Str = []byte(gen.ValidString(200).Draw(t, "str"))
				n := rapid.IntRange(0, 3).Draw(t, "nrep")
				for i := 0; i < n; i++ {
					c.RepStr = append(c.RepStr, []byte(gen.ValidString(40).Draw(t, "repstr")))
					c.RepBytes = append(c.RepBytes, drawFaultBytes(t, "repbytes", 60))
				}
				return c
			}
			c.Str = drawFaultBytes(t, "str", 300)
			n := rapid.IntRange(0, 3).Draw(t, "nrep")
			for i := 0; i < n; i++ {
				c.RepStr = append(c.RepStr, drawFaultBytes(t, "repstr", 60))
				c.RepBytes = append(c.RepBytes, drawFaultBytes(t, "repbytes", 60))
			}
			c.MapKey = drawFaultBytes(t, "mapkey", 40)
			c.MapVal = drawFaultBytes(t, "mapval", 40)
			c.OneofBytes = rapid.Bool().Draw(t, "oneofbytes")
			c.Oneof = drawFaultBytes(t, "oneof", 40)
			return c
		},
		Check: checkE2E,
		NonTrivial: func(c e2eCase) bool {
			for _, s := range c.all() {
				if interesting(s) {
					return true
				}
			}
			return false
		},
		Classes: func(c e2eCase) []string {
			seen := map[string]bool{}
			var cls []string
			for _, s := range c.all() {
				for _, k := range literalClasses(s) {
					if !seen[k] {
						seen[k] = true
						cls = append(cls, k)
					}
				}
			}
			if c.Proto3 {
				cls = append(cls, "proto3")
			} else {
				cls = append(cls, "proto2")
			}
			if c.ASCII {
				cls = append(cls, "EmitASCII")
			}
			if c.Multiline {
				cls = append(cls, "Multiline")
			}
			if c.Format {
				cls = append(cls, "Format")
			}
			return cls
		},
		Quick: 12000, Thorough: 200000,
	})
}

// every single byte and every 2-byte string through the proto2 string and bytes fields
func TestPrototextE2EExhaustive(t *testing.T) {
	if pbt.Shard != 0 && pbt.ReplayPath == "" {
		t.Skip("fixed enumeration: shard 0 only")
	}
	pbt.Enumerate(t, "prototext-e2e-exhaustive",
		"every 1-byte string (all option combinations) and every 2-byte string (EmitASCII alternating with the first byte's parity, single line) in optional_string, optional_bytes and the map key/value of proto2 TestAllTypes through prototext.Marshal/Unmarshal; non-trivial = has a byte >= 0x80 or a control byte",
		true,
		func(yield func(e2eCase, bool) bool) {
			for a := 0; a < 256; a++ {
				s := []byte{byte(a)}
				for k := 0; k < 8; k++ {
					c := e2eCase{Str: s, Bytes: s, MapKey: s, MapVal: s, Oneof: s, OneofBytes: k&1 != 0, ASCII: k&2 != 0, Multiline: k&4 != 0}
					if !yield(c, interesting(s)) {
						return
					}
				}
			}
			for a := 0; a < 256; a++ {
				for b := 0; b < 256; b++ {
					s := []byte{byte(a), byte(b)}
					c := e2eCase{Str: s, Bytes: s, MapKey: s, MapVal: s, Oneof: s, OneofBytes: b&1 != 0, ASCII: (a^b)&1 != 0}
					if !yield(c, interesting(s)) {
						return
					}
				}
			}
		}, checkE2E)
}

// =================================================================================================
// 4. EmitUnknown / Format render any well-formed unknown-field set

type unknownCase struct {
	Raw              []byte // well-formed field sequence
	Deep             int    // wrap Raw in this many nested groups of field DeepNum
	DeepNum          int64
	Nested           bool // also install the set in optional_nested_message
	WithKnown        bool // also set a known field
	ASCII, Multiline bool
	Indent           string
	Format           bool
}

func (c unknownCase) raw() []byte {
	if c.Deep <= 0 {
		return c.Raw
	}
	var b []byte
	for i := 0; i < c.Deep; i++ {
		b = ref.Tag(b, c.DeepNum, 3)
	}
	b = append(b, c.Raw...)
	for i := 0; i < c.Deep; i++ {
		b = ref.Tag(b, c.DeepNum, 4)
	}
	return b
}

// expected rendering of a well-formed field sequence, from the reference splitter
type urec struct {
	Num  int64
	Typ  int
	U    uint64 // varint / fixed value
	B    []byte // bytes payload
	Kids []urec // group
}

// splitBody splits a group value (body followed by the end tag of num) into the body records.
func splitSeq(b []byte, inGroup int64) ([]urec, error) {
	var out []urec
	for len(b) > 0 {
		num, typ, n, d := ref.ConsumeTag(b)
		if d != ref.OK {
			return nil, fmt.Errorf("HARNESS: reference splitter: bad tag (%v)", d)
		}
		if typ == 4 {
			if inGroup == num && n == len(b) {
				return out, nil
			}
			return nil, fmt.Errorf("HARNESS: reference splitter: stray end group")
		}
		m, d := ref.ConsumeValue(num, typ, b[n:], ref.DefaultDepth)
		if d != ref.OK {
			return nil, fmt.Errorf("HARNESS: reference splitter: bad value (%v)", d)
		}
		val := b[n : n+m]
		r := urec{Num: num, Typ: typ}
		switch typ {
		case 0:
			r.U, _, _ = ref.ConsumeVarint(val)
		case 5:
			r.U = uint64(val[0]) | uint64(val[1])<<8 | uint64(val[2])<<16 | uint64(val[3])<<24
		case 1:
			for i := 7; i >= 0; i-- {
				r.U = r.U<<8 | uint64(val[i])
			}
		case 2:
			_, k, _ := ref.ConsumeVarint(val)
			r.B = val[k:]
		case 3:
			kids, err := splitSeq(val, num)
			if err != nil {
				return nil, err
			}
			r.Kids = kids
		}
		out = append(out, r)
		b = b[n+m:]
	}
	if inGroup != 0 {
		return nil, fmt.Errorf("HARNESS: reference splitter: group without end tag")
	}
	return out, nil
}

func compareUnknown(path string, got []node, want []urec) error {
	if len(got) != len(want) {
		return fmt.Errorf("%s: rendered %d records, reference splitter has %d", path, len(got), len(want))
	}
	for i, w := range want {
		g := got[i]
		p := fmt.Sprintf("%s/%d#%d", path, w.Num, i)
		if g.Name != strconv.FormatInt(w.Num, 10) {
			return fmt.Errorf("%s: rendered under name %q", p, g.Name)
		}
		switch w.Typ {
		case 0, 1, 5:
			if g.IsMsg || g.IsStr {
				return fmt.Errorf("%s: numeric record rendered as message/string", p)
			}
			v, err := strconv.ParseUint(g.Tok, 0, 64)
			if err != nil || v != w.U {
				return fmt.Errorf("%s: wire type %d value %#x rendered as %q", p, w.Typ, w.U, g.Tok)
			}
		case 2:
			if !g.IsStr || !bytes.Equal(g.Str, w.B) {
				return fmt.Errorf("%s: bytes record %x rendered as %x (string=%v msg=%v tok=%q)", p, w.B, g.Str, g.IsStr, g.IsMsg, g.Tok)
			}
		case 3:
			if !g.IsMsg {
				return fmt.Errorf("%s: group rendered as scalar %q", p, g.Tok)
			}
			if err := compareUnknown(p, g.Kids, w.Kids); err != nil {
				return err
			}
		}
	}
	return nil
}

func checkUnknown(c unknownCase) error {
	raw := c.raw()
	want, err := splitSeq(raw, 0)
	if err != nil {
		return err
	}
	if _, ok := ref.Split(raw); !ok {
		return fmt.Errorf("HARNESS: ref.Split rejects generated sequence %x", raw)
	}
	m := &testpb.TestAllTypes{}
	m.ProtoReflect().SetUnknown(raw)
	if c.Nested {
		m.OptionalNestedMessage = &testpb.TestAllTypes_NestedMessage{}
		m.OptionalNestedMessage.ProtoReflect().SetUnknown(raw)
	}
	if c.WithKnown {
		m.OptionalInt32 = proto.Int32(7)
		m.OptionalBytes = []byte("\xff\"")
	}
	opts := prototext.MarshalOptions{EmitUnknown: true, EmitASCII: c.ASCII, Multiline: c.Multiline, Indent: c.Indent}
	var out []byte
	if c.Format {
		out = []byte(opts.Format(m)) // Format sets EmitUnknown itself
	} else {
		out, err = opts.Marshal(m)
		if err != nil {
			return fmt.Errorf("Marshal(EmitUnknown) of unknown set %x: %v", raw, err)
		}
	}
	if c.ASCII {
		if err := asciiOnly(out, c.Multiline || c.Indent != "", c.Indent); err != nil {
			return fmt.Errorf("EmitASCII with unknown fields: %v", err)
		}
	}
	ns, err := parseText(out)
	if err != nil {
		return fmt.Errorf("unknown set %x rendered as %q: %v", raw, clip(out), err)
	}
	// known fields come first (field-number order), then the unknown records in wire order
	if c.WithKnown {
		if len(ns) < 2 || ns[0].Name != "optional_int32" || ns[0].Tok != "7" || ns[1].Name != "optional_bytes" || !bytes.Equal(ns[1].Str, []byte("\xff\"")) {
			return fmt.Errorf("known fields not rendered first in %q", clip(out))
		}
		ns = ns[2:]
	}
	if c.Nested {
		if len(ns) < 1 || ns[0].Name != "optional_nested_message" || !ns[0].IsMsg {
			return fmt.Errorf("optional_nested_message not rendered in %q", clip(out))
		}
		if err := compareUnknown("nested", ns[0].Kids, want); err != nil {
			return fmt.Errorf("%v (set %x)", err, raw)
		}
		ns = ns[1:]
	}
	if err := compareUnknown("", ns, want); err != nil {
		return fmt.Errorf("%v (set %x)", err, raw)
	}
	// without EmitUnknown nothing of the set is rendered
	if !c.Format && !c.Nested && !c.WithKnown {
		o2 := opts
		o2.EmitUnknown = false
		b2, err := o2.Marshal(m)
		if err != nil || len(bytes.TrimSpace(b2)) != 0 {
			return fmt.Errorf("Marshal without EmitUnknown = %q, %v; want empty", clip(b2), err)
		}
	}
	return nil
}

func unknownShape(rs []urec, depth int, types map[int]bool, maxDepth *int) {
	if depth > *maxDepth {
		*maxDepth = depth
	}
	for _, r := range rs {
		types[r.Typ] = true
		if r.Typ == 3 {
			unknownShape(r.Kids, depth+1, types, maxDepth)
		}
	}
}

func TestEmitUnknown(t *testing.T) {
	pbt.Run(t, pbt.Prop[unknownCase]{
		Name: "emit-unknown",
		Rule: "well-formed field sequences (gen.FieldSeq: all wire types, nested groups, denormalised tags/lengths/end tags, fault-pool bytes payloads), optionally wrapped in up to 64 (occasionally 500) nested groups, installed with SetUnknown on TestAllTypes (and on a nested message); Marshal(EmitUnknown) / Format with EmitASCII/Multiline/Indent drawn; rendering read by the independent text reader and compared record by record with the reference splitter; non-trivial = >= 2 records including a group or bytes record",
		Draw: func(t *rapid.T) unknownCase {
			c := unknownCase{ASCII: rapid.Bool().Draw(t, "ascii"), Multiline: rapid.Bool().Draw(t, "multiline"), Format: rapid.IntRange(0, 3).Draw(t, "format") == 3,
				Nested: rapid.IntRange(0, 3).Draw(t, "nested") == 3, WithKnown: rapid.IntRange(0, 3).Draw(t, "known") == 3}
			if c.Multiline {
				c.Indent = rapid.SampledFrom([]string{"", " ", "\t"}).Draw(t, "indent")
			}
			c.Raw = gen.FieldSeq(4, 5, true, nil).Draw(t, "raw")
			if rapid.IntRange(0, 2).Draw(t, "bytesrec") == 2 { // a bytes record with a fault-pool payload
				p := drawFaultBytes(t, "payload", 200)
				c.Raw = ref.Tag(c.Raw, gen.FieldNum().Draw(t, "bnum"), 2)
				c.Raw = ref.Varint(c.Raw, uint64(len(p)))
				c.Raw = append(c.Raw, p...)
			}
			switch rapid.IntRange(0, 9).Draw(t, "deep?") {
			case 7, 8:
				c.Deep = rapid.IntRange(1, 64).Draw(t, "deep")
			case 9:
				c.Deep = rapid.SampledFrom([]int{63, 64, 65, 100, 500}).Draw(t, "deeper")
			}
			if c.Deep > 0 {
				c.DeepNum = gen.FieldNum().Draw(t, "deepnum")
			}
			return c
		},
		Check: checkUnknown,
		NonTrivial: func(c unknownCase) bool {
			rs, err := splitSeq(c.raw(), 0)
			if err != nil {
				return false
			}
			types := map[int]bool{}
			md := 0
			unknownShape(rs, 0, types, &md)
			n := 0
			var count func(rs []urec)
			count = func(rs []urec) {
				for _, r := range rs {
					n++
					count(r.Kids)
				}
			}
			count(rs)
			return n >= 2 && (types[2] || types[3])
		},
		Classes: func(c unknownCase) []string {
			rs, err := splitSeq(c.raw(), 0)
			if err != nil {
				return []string{"HARNESS-unsplittable"}
			}
			types := map[int]bool{}
			md := 0
			unknownShape(rs, 0, types, &md)
			var cls []string
			for _, ty := range []int{0, 1, 2, 3, 5} {
				if types[ty] {
					cls = append(cls, fmt.Sprintf("wiretype-%d", ty))
				}
			}
			switch {
			case len(rs) == 0:
				cls = append(cls, "empty-set")
			case md == 0:
				cls = append(cls, "flat")
			case md < 4:
				cls = append(cls, "group-depth-1..3")
			case md < 64:
				cls = append(cls, "group-depth-4..63")
			default:
				cls = append(cls, "group-depth>=64")
			}
			canon := 0
			if recs, ok := ref.Split(c.Raw); ok {
				for _, r := range recs {
					canon += ref.VarintLen(uint64(r.Num)<<3) + len(r.Val)
				}
				if canon < len(c.Raw) {
					cls = append(cls, "denormalised-tag")
				}
			}
			if c.ASCII {
				cls = append(cls, "EmitASCII")
			}
			if c.Multiline {
				cls = append(cls, "Multiline")
			}
			if c.Format {
				cls = append(cls, "Format")
			}
			if c.Nested {
				cls = append(cls, "in-nested-message")
			}
			return cls
		},
		Quick: 15000, Thorough: 250000,
	})
}

// fixed shapes: each wire type alone with boundary values, empty group, maximal field number
func TestEmitUnknownFixed(t *testing.T) {
	if pbt.Shard != 0 && pbt.ReplayPath == "" {
		t.Skip("fixed enumeration: shard 0 only")
	}
	pbt.Enumerate(t, "emit-unknown-fixed",
		"single records of each wire type at boundary field numbers (1, 15, 16, 2047, 2048, 2^29-1) and boundary values, empty groups, groups nested 1..200 deep, every single byte as a bytes payload; all four EmitASCII x Multiline combinations; non-trivial = group or bytes record",
		true,
		func(yield func(unknownCase, bool) bool) {
			emit := func(raw []byte, deep int, nt bool) bool {
				for k := 0; k < 4; k++ {
					if !yield(unknownCase{Raw: raw, Deep: deep, DeepNum: 3, ASCII: k&1 != 0, Multiline: k&2 != 0}, nt) {
						return false
					}
				}
				return true
			}
			for _, num := range []int64{1, 15, 16, 2047, 2048, 1<<29 - 1} {
				for _, v := range []uint64{0, 1, 127, 128, 1<<32 - 1, 1 << 32, 1<<63 - 1, 1 << 63, 1<<64 - 1} {
					if !emit(ref.Varint(ref.Tag(nil, num, 0), v), 0, false) ||
						!emit(ref.Fixed64(ref.Tag(nil, num, 1), v), 0, false) ||
						!emit(ref.Fixed32(ref.Tag(nil, num, 5), uint32(v)), 0, false) {
						return
					}
				}
				if !emit(append(ref.Tag(nil, num, 3), ref.Tag(nil, num, 4)...), 0, true) {
					return
				}
				if !emit(append(ref.Tag(nil, num, 2), 0), 0, true) {
					return
				}
			}
			for d := 1; d <= 200; d++ {
				if !emit(ref.Varint(ref.Tag(nil, 1, 0), uint64(d)), d, true) {
					return
				}
			}
			for a := 0; a < 256; a++ {
				if !emit(append(ref.Tag(nil, 7, 2), 1, byte(a)), 0, true) {
					return
				}
			}
		}, checkUnknown)
}

