package c25

import (
	"bytes"
	"fmt"
	"os"
	"runtime/debug"
	"strings"
	"testing"

	"google.golang.org/protobuf/zverif/pbt"
	"google.golang.org/protobuf/zverif/ref"
)

// Native fuzz targets (thorough tier; `go test -fuzz`), same check functions as the rapid
// properties, inputs chosen by coverage-guided byte mutation:
//
//   - FuzzLiteral: arbitrary bytes through text.Encoder.WriteString (outputASCII on/off) ->
//     reference unescaper, text.Decoder, UnmarshalString (checkLiteral).
//   - FuzzEmitUnknown: every input that the reference wire splitter accepts as a well-formed field
//     sequence is installed as the unknown-field set of a message and rendered with
//     EmitUnknown / Format (checkUnknown: no panic, record-by-record comparison).
type fzLit struct {
	S     []byte
	ASCII bool
}

func literalSeeds() [][]byte {
	out := [][]byte{
		{}, []byte("plain"), []byte("\"'\\"), []byte("\x00\x01\a\b\t\n\v\f\r\x1f\x7f"), []byte("0\x000"), []byte("\x01" + "7"), []byte("\xff" + "f"), []byte("\x0ea"),
		[]byte("\xc2\x80\xdf\xbf\xe0\xa0\x80\xed\x9f\xbf\xee\x80\x80\xef\xbf\xbd\xef\xbf\xbe\xef\xbf\xbf\xf0\x90\x80\x80\xf4\x8f\xbf\xbf"),                     // class boundaries
		[]byte("\xc0\x80\xc1\xbf\xe0\x9f\xbf\xed\xa0\x80\xed\xbf\xbf\xf0\x8f\xbf\xbf\xf4\x90\x80\x80\xf5\x80\x80\x80\xff\xfe\x80\xbf\xc2\xe0\xa0\xf0\x90\x80"), // overlong, surrogates, beyond, stray, truncated
		[]byte("\u0080\u0085\u009f\u00a0\u00ad\u061c\u200b\u200e\u2028\u2029\u202e\ufeff\ufff9\U000e0001\U0001f600"),                                           // C1, format, separators
		[]byte("??=\\x41\\101\\u0041\\U00000041\\?"), []byte("é\xe9"), bytes.Repeat([]byte("\xf0\x9f\x98"), 20), bytes.Repeat([]byte{0xff}, 64),
	}
	return out
}

func FuzzLiteral(f *testing.F) {
	for i, s := range literalSeeds() {
		f.Add(s, i%2 == 0)
		f.Add(s, i%2 != 0)
	}
	f.Fuzz(func(t *testing.T, s []byte, ascii bool) {
		if len(s) > 1<<12 {
			return
		}
		c := literalCase{S: s, ASCII: ascii}
		if err := fuzzSafe(checkLiteral, c); err != nil {
			reportOnce("literal-random", c, err)
			t.Fatal(err)
		}
	})
}

func unknownSeeds() [][]byte {
	deep := append(bytes.Repeat([]byte{0x0b}, 90), bytes.Repeat([]byte{0x0c}, 90)...)
	return [][]byte{
		{}, {0x08, 0x00}, {0x08, 0xff, 0xff, 0xff, 0xff, 0xff, 0xff, 0xff, 0xff, 0xff, 0x01}, {0x08, 0x80, 0x80, 0x00}, {0x88, 0x80, 0x00, 0x01},
		{0xf8, 0xff, 0xff, 0xff, 0x0f, 0x01}, {0x0d, 1, 2, 3, 0xff}, {0x09, 1, 2, 3, 4, 5, 6, 7, 0xff},
		{0x0a, 0x00}, {0x0a, 0x03, 0xff, '"', '\\'}, {0x0a, 0x02, 0x08, 0x01}, {0x0a, 0x02, 0x0b, 0x0c}, // bytes that look like a message / a group
		{0x0b, 0x0c}, {0x0b, 0x08, 0x01, 0x13, 0x1a, 0x01, 'x', 0x14, 0x0c}, {0x0b, 0x8c, 0x80, 0x00}, // empty group, nested groups, padded end tag
		{0x08, 0x01, 0x08, 0x02, 0x10, 0x03, 0x08, 0x04}, deep,
	}
}

func FuzzEmitUnknown(f *testing.F) {
	for i, s := range unknownSeeds() {
		f.Add(s, uint8(i*29))
	}
	f.Fuzz(func(t *testing.T, raw []byte, flags uint8) {
		if len(raw) > 1<<12 {
			return
		}
		if _, ok := ref.Split(raw); !ok {
			return
		}
		if _, err := splitSeq(raw, 0); err != nil {
			return
		}
		c := unknownCase{Raw: raw, Nested: flags&1 != 0, WithKnown: flags&2 != 0, ASCII: flags&4 != 0, Multiline: flags&8 != 0, Format: flags&16 != 0,
			Indent: []string{"", " ", "\t", "  "}[int(flags>>5)%4]}
		if c.Indent != "" {
			c.Multiline = true // Indent implies multi-line output; keep the case description truthful
		}
		err := fuzzSafe(checkUnknown, c)
		if err != nil && strings.HasPrefix(err.Error(), "HARNESS:") {
			return
		}
		if err != nil {
			reportOnce("emit-unknown", c, err)
			t.Fatal(err)
		}
	})
}

func fuzzSafe[C any](check func(C) error, c C) (err error) {
	defer func() {
		if r := recover(); r != nil {
			err = fmt.Errorf("PANIC: %v\n%s", r, debug.Stack())
		}
	}()
	return check(c)
}

// reportOnce writes the replay file of a failing input; while the fuzzing engine minimises it, the
// check fails again and again with smaller inputs: only the latest replay file of this process is kept.
var lastReplay string

func reportOnce(test string, c any, err error) {
	n := len(pbt.S.Violation)
	pbt.ReportViolation(nil, test, c, err)
	if len(pbt.S.Violation) > n {
		cur := pbt.S.Violation[len(pbt.S.Violation)-1]
		if lastReplay != "" && lastReplay != cur {
			os.Remove(lastReplay)
		}
		lastReplay = cur
	}
}
