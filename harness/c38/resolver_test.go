package c38

import (
	"fmt"
	"sort"
	"strings"

	"google.golang.org/protobuf/internal/filedesc"
	"google.golang.org/protobuf/internal/strs"
	"google.golang.org/protobuf/proto"
	"google.golang.org/protobuf/reflect/protoreflect"
	"google.golang.org/protobuf/types/descriptorpb"
	"google.golang.org/protobuf/types/gofeaturespb"
)

// ---------------------------------------------------------------------------------------------
// The reference feature resolver. Its only inputs are the descriptor protos of the schema and the
// `edition_defaults` options that descriptor.proto and go_features.proto attach to the fields of
// FeatureSet / GoFeatures (read from the linked descriptors at run time) — not
// internal/editiondefaults/*.binpb, which is what both constructions under test read.

type (
	fdp  = descriptorpb.FileDescriptorProto
	dp   = descriptorpb.DescriptorProto
	fldp = descriptorpb.FieldDescriptorProto
	edp  = descriptorpb.EnumDescriptorProto
)

// features is a resolved feature set: FeatureSet field name (or "go." + GoFeatures field name) ->
// enum value name / "true" / "false".
type features map[string]string

func (f features) clone() features {
	g := make(features, len(f))
	for k, v := range f {
		g[k] = v
	}
	return g
}

func (f features) String() string {
	var ks []string
	for k := range f {
		ks = append(ks, k)
	}
	sort.Strings(ks)
	var sb strings.Builder
	for _, k := range ks {
		fmt.Fprintf(&sb, "%s=%s ", k, f[k])
	}
	return strings.TrimSpace(sb.String())
}

var (
	featureSetDesc = (&descriptorpb.FeatureSet{}).ProtoReflect().Descriptor()
	goFeaturesDesc = (&gofeaturespb.GoFeatures{}).ProtoReflect().Descriptor()
)

// editionDefaults reads the defaults of one edition off the edition_defaults options: for each
// feature the entry with the greatest edition <= ed.
func editionDefaults(ed descriptorpb.Edition) features {
	out := features{}
	add := func(md protoreflect.MessageDescriptor, prefix string) {
		for i := 0; i < md.Fields().Len(); i++ {
			fd := md.Fields().Get(i)
			opts, _ := fd.Options().(*descriptorpb.FieldOptions)
			best, found := descriptorpb.Edition(-1), false
			for _, d := range opts.GetEditionDefaults() {
				if d.GetEdition() <= ed && d.GetEdition() > best {
					best, found = d.GetEdition(), true
					out[prefix+string(fd.Name())] = d.GetValue()
				}
			}
			if !found {
				panic(fmt.Sprintf("harness: feature %s has no default for %v", fd.FullName(), ed))
			}
		}
	}
	add(featureSetDesc, "")
	add(goFeaturesDesc, "go.")
	return out
}

// explicit lists what a FeatureSet message sets itself.
func explicit(fs *descriptorpb.FeatureSet) features {
	out := features{}
	if fs == nil {
		return out
	}
	// through the wire, so that pb.go features held as unknown bytes and as a parsed extension read alike
	b, err := proto.Marshal(fs)
	if err != nil {
		panic("harness: " + err.Error())
	}
	fresh := &descriptorpb.FeatureSet{}
	if err := proto.Unmarshal(b, fresh); err != nil {
		panic("harness: " + err.Error())
	}
	read := func(m protoreflect.Message, prefix string) {
		m.Range(func(fd protoreflect.FieldDescriptor, v protoreflect.Value) bool {
			switch {
			case fd.IsExtension():
			case fd.Kind() == protoreflect.EnumKind:
				if ev := fd.Enum().Values().ByNumber(v.Enum()); ev != nil {
					out[prefix+string(fd.Name())] = string(ev.Name())
				}
			case fd.Kind() == protoreflect.BoolKind:
				out[prefix+string(fd.Name())] = fmt.Sprint(v.Bool())
			}
			return true
		})
	}
	read(fresh.ProtoReflect(), "")
	if proto.HasExtension(fresh, gofeaturespb.E_Go) {
		read(proto.GetExtension(fresh, gofeaturespb.E_Go).(*gofeaturespb.GoFeatures).ProtoReflect(), "go.")
	}
	return out
}

func (f features) with(fs *descriptorpb.FeatureSet) features {
	g := f.clone()
	for k, v := range explicit(fs) {
		g[k] = v
	}
	return g
}

func enumNumber(md protoreflect.MessageDescriptor, field, value string) int {
	fd := md.Fields().ByName(protoreflect.Name(field))
	ev := fd.Enum().Values().ByName(protoreflect.Name(value))
	if ev == nil {
		panic("harness: no value " + value + " for " + field)
	}
	return int(ev.Number())
}

// asStruct converts a resolved set to the representation internal/filedesc keeps.
func (f features) asStruct() filedesc.EditionFeatures {
	return filedesc.EditionFeatures{
		IsFieldPresence:             f["field_presence"] == "EXPLICIT" || f["field_presence"] == "LEGACY_REQUIRED",
		IsLegacyRequired:            f["field_presence"] == "LEGACY_REQUIRED",
		IsOpenEnum:                  f["enum_type"] == "OPEN",
		IsPacked:                    f["repeated_field_encoding"] == "PACKED",
		IsUTF8Validated:             f["utf8_validation"] == "VERIFY",
		IsDelimitedEncoded:          f["message_encoding"] == "DELIMITED",
		IsJSONCompliant:             f["json_format"] == "ALLOW",
		GenerateLegacyUnmarshalJSON: f["go.legacy_unmarshal_json_enum"] == "true",
		APILevel:                    enumNumber(goFeaturesDesc, "api_level", f["go.api_level"]),
		StripEnumPrefix:             enumNumber(goFeaturesDesc, "strip_enum_prefix", f["go.strip_enum_prefix"]),
	}
}

// expectation is what the resolver predicts for one schema set.
type expectation struct {
	accessors map[string]string                   // descsnap key -> value
	structs   map[string]filedesc.EditionFeatures // "<kind> <full name>" -> resolved features
	chain     map[string]string                   // "<kind> <full name>" -> how the value came about (for messages)
	overrides int                                 // declarations below file level that set a runtime feature differing from what they inherit
}

func join(prefix, name string) string {
	if prefix == "" {
		return name
	}
	return prefix + "." + name
}

func editionOf(f *fdp) descriptorpb.Edition {
	switch f.GetSyntax() {
	case "editions":
		return f.GetEdition()
	case "proto3":
		return descriptorpb.Edition_EDITION_PROTO3
	}
	return descriptorpb.Edition_EDITION_PROTO2
}

func packable(t descriptorpb.FieldDescriptorProto_Type) bool {
	switch t {
	case descriptorpb.FieldDescriptorProto_TYPE_STRING, descriptorpb.FieldDescriptorProto_TYPE_BYTES, descriptorpb.FieldDescriptorProto_TYPE_MESSAGE, descriptorpb.FieldDescriptorProto_TYPE_GROUP:
		return false
	}
	return true
}

// runtimeKeys are the features with an effect the runtime can observe.
var runtimeKeys = []string{"field_presence", "enum_type", "repeated_field_encoding", "utf8_validation", "message_encoding", "json_format", "go.legacy_unmarshal_json_enum", "go.api_level", "go.strip_enum_prefix"}

// expect resolves every declaration of the editions files of the set.
func expect(files []*fdp) *expectation {
	x := &expectation{accessors: map[string]string{}, structs: map[string]filedesc.EditionFeatures{}, chain: map[string]string{}}
	mapEntries := map[string]bool{}
	var index func(ms []*dp, prefix string)
	index = func(ms []*dp, prefix string) {
		for _, m := range ms {
			full := join(prefix, m.GetName())
			if m.GetOptions().GetMapEntry() {
				mapEntries["."+full] = true
			}
			index(m.NestedType, full)
		}
	}
	for _, f := range files {
		index(f.MessageType, f.GetPackage())
	}
	fileLevel := false
	note := func(key string, parent features, own *descriptorpb.FeatureSet, parentChain string) (features, string) {
		f := parent.with(own)
		x.structs[key] = f.asStruct()
		chain := parentChain
		if ex := explicit(own); len(ex) > 0 {
			chain += " -> " + key + " sets {" + ex.String() + "}"
			for _, k := range runtimeKeys {
				if v, ok := ex[k]; ok && v != parent[k] && !fileLevel {
					x.overrides++
					break
				}
			}
		}
		x.chain[key] = chain
		return f, chain
	}
	var doEnum func(e *edp, prefix string, parent features, chain string)
	doEnum = func(e *edp, prefix string, parent features, chain string) {
		key := "enum " + join(prefix, e.GetName())
		f, _ := note(key, parent, e.GetOptions().GetFeatures(), chain)
		x.accessors[key+"#IsClosed"] = fmt.Sprint(f["enum_type"] != "OPEN")
	}
	doField := func(kind string, fd *fldp, prefix string, parent features, chain string, inMapEntry bool) {
		key := kind + " " + join(prefix, fd.GetName())
		note(key, parent, fd.GetOptions().GetFeatures(), chain)
		if fd.GetOptions() != nil && fd.GetOptions().Packed != nil {
			// the pre-editions spelling of repeated_field_encoding
			s := x.structs[key]
			s.IsPacked = fd.GetOptions().GetPacked()
			x.structs[key] = s
		}
		st := x.structs[key]
		repeated := fd.GetLabel() == descriptorpb.FieldDescriptorProto_LABEL_REPEATED
		k := protoreflect.Kind(fd.GetType())
		isMap := fd.GetType() == descriptorpb.FieldDescriptorProto_TYPE_MESSAGE && mapEntries[fd.GetTypeName()]
		if k == protoreflect.MessageKind && st.IsDelimitedEncoded && !isMap && !inMapEntry {
			k = protoreflect.GroupKind
		}
		x.accessors[key+"#Kind"] = k.String()
		x.accessors[key+"#IsPacked"] = fmt.Sprint(repeated && packable(fd.GetType()) && st.IsPacked)
		card := protoreflect.Cardinality(fd.GetLabel())
		if kind == "field" {
			if st.IsLegacyRequired && !repeated {
				card = protoreflect.Required
			}
			x.accessors[key+"#HasPresence"] = fmt.Sprint(!repeated && (k == protoreflect.MessageKind || k == protoreflect.GroupKind || fd.OneofIndex != nil || st.IsFieldPresence))
			x.accessors[key+"#EnforceUTF8"] = fmt.Sprint(st.IsUTF8Validated)
		} else {
			x.accessors[key+"#HasPresence"] = fmt.Sprint(!repeated)
		}
		x.accessors[key+"#Cardinality"] = card.String()
	}
	var doMsg func(m *dp, prefix string, parent features, chain string)
	doMsg = func(m *dp, prefix string, parent features, chain string) {
		full := join(prefix, m.GetName())
		f, ch := note("msg "+full, parent, m.GetOptions().GetFeatures(), chain)
		for _, fd := range m.Field {
			doField("field", fd, full, f, ch, m.GetOptions().GetMapEntry())
		}
		for _, xd := range m.Extension {
			doField("ext", xd, full, f, ch, false)
		}
		for _, e := range m.EnumType {
			doEnum(e, full, f, ch)
		}
		for _, n := range m.NestedType {
			doMsg(n, full, f, ch)
		}
	}
	for _, file := range files {
		if file.GetSyntax() != "editions" {
			continue
		}
		def := editionDefaults(editionOf(file))
		fileLevel = true // the file level is where the chain starts, not an override
		f, ch := note("file "+file.GetName(), def, file.GetOptions().GetFeatures(), "defaults of "+editionOf(file).String()+" {"+def.String()+"}")
		fileLevel = false
		for _, e := range file.EnumType {
			doEnum(e, file.GetPackage(), f, ch)
		}
		for _, m := range file.MessageType {
			doMsg(m, file.GetPackage(), f, ch)
		}
		for _, xd := range file.Extension {
			doField("ext", xd, file.GetPackage(), f, ch, false)
		}
	}
	return x
}

// enforcement asks, for every string field and extension of the file, the one function all codecs
// consult (internal/strs.EnforceUTF8) whether invalid UTF-8 is refused.
func enforcement(fd protoreflect.FileDescriptor) map[string]bool {
	out := map[string]bool{}
	one := func(kind string, f protoreflect.FieldDescriptor) {
		if f.Kind() == protoreflect.StringKind {
			out[kind+" "+string(f.FullName())] = strs.EnforceUTF8(f)
		}
	}
	var doMsgs func(ms protoreflect.MessageDescriptors)
	doMsgs = func(ms protoreflect.MessageDescriptors) {
		for i := 0; i < ms.Len(); i++ {
			md := ms.Get(i)
			for j := 0; j < md.Fields().Len(); j++ {
				one("field", md.Fields().Get(j))
			}
			for j := 0; j < md.Extensions().Len(); j++ {
				one("ext", md.Extensions().Get(j))
			}
			doMsgs(md.Messages())
		}
	}
	doMsgs(fd.Messages())
	for j := 0; j < fd.Extensions().Len(); j++ {
		one("ext", fd.Extensions().Get(j))
	}
	return out
}

// observed reads the resolved features a descriptor built by either construction carries.
func observed(fd protoreflect.FileDescriptor) map[string]filedesc.EditionFeatures {
	out := map[string]filedesc.EditionFeatures{}
	if f, ok := fd.(*filedesc.File); ok {
		out["file "+fd.Path()] = f.L1.EditionFeatures
	}
	var doEnums func(es protoreflect.EnumDescriptors)
	doEnums = func(es protoreflect.EnumDescriptors) {
		for i := 0; i < es.Len(); i++ {
			if e, ok := es.Get(i).(*filedesc.Enum); ok {
				out["enum "+string(e.FullName())] = e.L1.EditionFeatures
			}
		}
	}
	doExts := func(xs protoreflect.ExtensionDescriptors) {
		for i := 0; i < xs.Len(); i++ {
			if x, ok := xs.Get(i).(*filedesc.Extension); ok {
				out["ext "+string(x.FullName())] = x.L1.EditionFeatures
			}
		}
	}
	var doMsgs func(ms protoreflect.MessageDescriptors)
	doMsgs = func(ms protoreflect.MessageDescriptors) {
		for i := 0; i < ms.Len(); i++ {
			md := ms.Get(i)
			if m, ok := md.(*filedesc.Message); ok {
				out["msg "+string(m.FullName())] = m.L1.EditionFeatures
			}
			for j := 0; j < md.Fields().Len(); j++ {
				if f, ok := md.Fields().Get(j).(*filedesc.Field); ok {
					out["field "+string(f.FullName())] = f.L1.EditionFeatures
				}
			}
			doEnums(md.Enums())
			doExts(md.Extensions())
			doMsgs(md.Messages())
		}
	}
	doEnums(fd.Enums())
	doMsgs(fd.Messages())
	doExts(fd.Extensions())
	return out
}
