package c38

import (
	"fmt"
	"testing"

	"google.golang.org/protobuf/reflect/protoreflect"
	"google.golang.org/protobuf/types/descriptorpb"
	"google.golang.org/protobuf/types/gofeaturespb"
)

func TestProbeDefaults(t *testing.T) {
	for _, md := range []protoreflect.MessageDescriptor{(&descriptorpb.FeatureSet{}).ProtoReflect().Descriptor(), (&gofeaturespb.GoFeatures{}).ProtoReflect().Descriptor()} {
		for i := 0; i < md.Fields().Len(); i++ {
			fd := md.Fields().Get(i)
			o := fd.Options().(*descriptorpb.FieldOptions)
			fmt.Println(md.Name(), fd.Name(), fd.Number(), o.GetTargets(), o.GetEditionDefaults())
		}
	}
}
