package c38

import (
	"fmt"
	"strings"
	"testing"

	"google.golang.org/protobuf/encoding/protojson"
	"google.golang.org/protobuf/encoding/protowire"
	"google.golang.org/protobuf/proto"
	"google.golang.org/protobuf/reflect/protodesc"
	"google.golang.org/protobuf/reflect/protoregistry"
	"google.golang.org/protobuf/types/descriptorpb"
	"google.golang.org/protobuf/types/dynamicpb"
	"google.golang.org/protobuf/zverif/corpus"
	"google.golang.org/protobuf/zverif/pbt"
)

func TestWitnesses(t *testing.T) {
	// edition = "2023"; message M { string s = 1; extensions 100 to 199; } extend M { string e = 100; }
	// utf8_validation is VERIFY for both; 0xff is refused in s and accepted in e
	p := &fdp{Name: proto.String("witness.proto"), Package: proto.String("w"), Syntax: proto.String("editions"), Edition: descriptorpb.Edition_EDITION_2023.Enum(),
		MessageType: []*dp{{Name: proto.String("M"), Field: []*fldp{{Name: proto.String("s"), Number: proto.Int32(1), Label: descriptorpb.FieldDescriptorProto_LABEL_OPTIONAL.Enum(), Type: descriptorpb.FieldDescriptorProto_TYPE_STRING.Enum()}},
			ExtensionRange: []*descriptorpb.DescriptorProto_ExtensionRange{{Start: proto.Int32(100), End: proto.Int32(200)}}}},
		Extension: []*fldp{{Name: proto.String("e"), Number: proto.Int32(100), Label: descriptorpb.FieldDescriptorProto_LABEL_OPTIONAL.Enum(), Type: descriptorpb.FieldDescriptorProto_TYPE_STRING.Enum(), Extendee: proto.String(".w.M")}}}
	fd, err := protodesc.NewFile(p, nil)
	if err != nil {
		t.Fatal(err)
	}
	types := &protoregistry.Types{}
	types.RegisterExtension(dynamicpb.NewExtensionType(fd.Extensions().Get(0)))
	try := func(num protowire.Number) error {
		b := protowire.AppendBytes(protowire.AppendTag(nil, num, protowire.BytesType), []byte{0xff})
		return proto.UnmarshalOptions{Resolver: types}.Unmarshal(b, dynamicpb.NewMessage(fd.Messages().Get(0)))
	}
	errField, errExt := try(1), try(100)
	pbt.Witness(t, kfExtUTF8, errField != nil && errExt == nil, fmt.Sprintf("edition 2023 (utf8_validation = VERIFY): Unmarshal of the string 0xff fails for field s (%v) and succeeds for extension e", errField))

	// map<int32, int32> map_int32_int32 = 56, entry = { key: 1 (varint), then field 1 again as fixed32 }
	panicked := func() (p string) {
		defer func() {
			if r := recover(); r != nil {
				p = fmt.Sprint(r)
			}
		}()
		md := corpus.ByName("goproto.proto.test.TestAllTypesProto3").Descriptor()
		proto.Unmarshal([]byte{0xc2, 0x03, 0x07, 0x08, 0x01, 0x0d, 0, 0, 0, 0}, dynamicpb.NewMessage(md))
		return ""
	}()
	pbt.Witness(t, kfMapKeyPanic, panicked != "", "proto.Unmarshal(c20307 0801 0d00000000) into dynamicpb TestAllTypesProto3 (map_int32_int32 entry with a second key record of wire type fixed32) panics: "+panicked)

	a, b, err := linkedSides("proto3")
	if err != nil {
		t.Fatal(err)
	}
	ja, _ := protojson.MarshalOptions{EmitUnpopulated: true}.Marshal(a.new().Interface())
	jb, _ := protojson.MarshalOptions{EmitUnpopulated: true}.Marshal(b.new().Interface())
	pbt.Witness(t, kfEmitUnpopulated, !strings.Contains(string(ja), `"optionalInt32"`) && strings.Contains(string(jb), `"optionalInt32"`),
		"protojson EmitUnpopulated of the empty TestAllTypesProto3 has no optionalInt32 key, of TestAllTypesProto3Editions it has optionalInt32: null")
}
