package c38

import (
	"fmt"
	"sort"
	"strings"
	"testing"

	"google.golang.org/protobuf/internal/filedesc"
	"google.golang.org/protobuf/proto"
	"google.golang.org/protobuf/reflect/protodesc"
	"google.golang.org/protobuf/reflect/protoreflect"
	"google.golang.org/protobuf/reflect/protoregistry"
	"google.golang.org/protobuf/types/descriptorpb"
	"google.golang.org/protobuf/zverif/descsnap"
	"google.golang.org/protobuf/zverif/pbt"
	"google.golang.org/protobuf/zverif/schema"
	"pgregory.net/rapid"
)

// ---------------------------------------------------------------------------------------------
// (a) resolved features of random editions schemas, two constructions against the reference resolver

const kfExtUTF8 = "KF-editions-extension-utf8-not-enforced"

type featureCase struct {
	Raw       [][]byte
	OffTarget int      // message-level overrides of features that protoc only allows on files and fields / enums
	Text      []string // for readers
}

func buildWithBuilder(raw []byte, reg *protoregistry.Files) (fd protoreflect.FileDescriptor, err error) {
	defer func() {
		if r := recover(); r != nil {
			err = fmt.Errorf("filedesc.Builder.Build panicked: %v", r)
		}
	}()
	return filedesc.Builder{RawDescriptor: raw, FileRegistry: reg}.Build().File, nil
}

// offTargetOverrides sets, on some messages, features whose `targets` name only files and fields
// or enums. protoc refuses such placements; the descriptor proto can still carry them, both
// constructions inherit them down the message chain, and the statement's chain (file - message -
// field) is only exercised at its middle level this way for every feature other than json_format.
// Values that would make the schema invalid (implicit presence over a closed enum or a default,
// open enum whose first value is not zero) are undone by validating the result.
func offTargetOverrides(t *rapid.T, files []*fdp) int {
	total := 0
	for i, f := range files {
		if f.GetSyntax() != "editions" {
			continue
		}
		orig := proto.Clone(f).(*fdp)
		n := 0
		var walk func(ms []*dp)
		walk = func(ms []*dp) {
			for _, m := range ms {
				if m.GetOptions().GetMapEntry() {
					continue
				}
				if rapid.IntRange(0, 2).Draw(t, "override-msg") == 0 {
					if m.Options == nil {
						m.Options = &descriptorpb.MessageOptions{}
					}
					if m.Options.Features == nil {
						m.Options.Features = &descriptorpb.FeatureSet{}
					}
					fs := m.Options.Features
					for k, cnt := 0, rapid.IntRange(1, 2).Draw(t, "nfeatures"); k < cnt; k++ {
						switch rapid.IntRange(0, 4).Draw(t, "feature") {
						case 0:
							fs.FieldPresence = []descriptorpb.FeatureSet_FieldPresence{descriptorpb.FeatureSet_EXPLICIT, descriptorpb.FeatureSet_IMPLICIT}[rapid.IntRange(0, 1).Draw(t, "v")].Enum()
						case 1:
							fs.EnumType = []descriptorpb.FeatureSet_EnumType{descriptorpb.FeatureSet_OPEN, descriptorpb.FeatureSet_CLOSED}[rapid.IntRange(0, 1).Draw(t, "v")].Enum()
						case 2:
							fs.RepeatedFieldEncoding = []descriptorpb.FeatureSet_RepeatedFieldEncoding{descriptorpb.FeatureSet_PACKED, descriptorpb.FeatureSet_EXPANDED}[rapid.IntRange(0, 1).Draw(t, "v")].Enum()
						case 3:
							fs.Utf8Validation = []descriptorpb.FeatureSet_Utf8Validation{descriptorpb.FeatureSet_VERIFY, descriptorpb.FeatureSet_NONE}[rapid.IntRange(0, 1).Draw(t, "v")].Enum()
						case 4:
							fs.MessageEncoding = []descriptorpb.FeatureSet_MessageEncoding{descriptorpb.FeatureSet_LENGTH_PREFIXED, descriptorpb.FeatureSet_DELIMITED}[rapid.IntRange(0, 1).Draw(t, "v")].Enum()
						}
					}
					n++
				}
				walk(m.NestedType)
			}
		}
		walk(f.MessageType)
		if n == 0 {
			continue
		}
		if _, err := schema.Build(files); err != nil {
			files[i] = orig
			continue
		}
		total += n
	}
	return total
}

func drawFeatureCase(o schema.Opts, offTarget bool) func(t *rapid.T) featureCase {
	return func(t *rapid.T) featureCase {
		files := schema.Draw(t, o)
		c := featureCase{}
		if offTarget {
			c.OffTarget = offTargetOverrides(t, files)
		}
		c.Raw, c.Text = schema.Marshal(files), schema.Text(files)
		return c
	}
}

func checkFeatures(c featureCase) error {
	files, err := schema.Unmarshal(c.Raw)
	if err != nil {
		return fmt.Errorf("harness: %v", err)
	}
	want := expect(files)
	var regs [2]*protoregistry.Files
	for i := range regs {
		if regs[i], err = schema.NewRegistry(files); err != nil {
			return fmt.Errorf("harness: %v", err)
		}
	}
	for i, p := range files {
		pd, err := protodesc.NewFile(p, regs[0])
		if err != nil {
			return fmt.Errorf("protodesc.NewFile rejected file %d (%s) of a valid schema set: %v", i, p.GetName(), err)
		}
		bd, err := buildWithBuilder(c.Raw[i], regs[1])
		if err != nil {
			return fmt.Errorf("file %d (%s): %v", i, p.GetName(), err)
		}
		if err := regs[0].RegisterFile(pd); err != nil {
			return fmt.Errorf("harness: %v", err)
		}
		if p.GetSyntax() != "editions" {
			continue
		}
		for _, side := range []struct {
			name string
			fd   protoreflect.FileDescriptor
		}{{"protodesc.NewFile", pd}, {"filedesc.Builder", bd}} {
			snap := descsnap.Of(side.fd, descsnap.Opts{NoSourceLocations: true}) // also forces the builder's lazy part
			got := observed(side.fd)
			var keys []string
			for k := range got {
				keys = append(keys, k)
			}
			sort.Strings(keys)
			for _, k := range keys {
				w, ok := want.structs[k]
				if !ok {
					return fmt.Errorf("harness: no expectation for %q", k)
				}
				if got[k] != w {
					return fmt.Errorf("%s, file %s: resolved features of %q are %+v, the reference resolver gives %+v (%s)", side.name, p.GetName(), k, got[k], w, want.chain[k])
				}
			}
			enf := enforcement(side.fd)
			var ekeys []string
			for k := range enf {
				ekeys = append(ekeys, k)
			}
			sort.Strings(ekeys)
			for _, k := range ekeys {
				w := want.structs[k].IsUTF8Validated
				if enf[k] == w {
					continue
				}
				// registered finding: extensions of editions files are never validated
				if strings.HasPrefix(k, "ext ") && w && !enf[k] && pbt.ExcludeKnown(kfExtUTF8) {
					continue
				}
				return fmt.Errorf("%s, file %s: UTF-8 validation of %q is %v (internal/strs.EnforceUTF8, what every codec asks), the reference resolver gives utf8_validation %v (%s)", side.name, p.GetName(), k, enf[k], map[bool]string{true: "VERIFY", false: "NONE"}[w], want.chain[k])
			}
			for k, w := range want.accessors {
				g, ok := snap[k]
				if !ok {
					continue // declaration of another file of the set
				}
				if g != w {
					decl := k[:strings.IndexByte(k, '#')]
					return fmt.Errorf("%s, file %s: %s = %s, the reference resolver gives %s (%s)", side.name, p.GetName(), k, g, w, want.chain[decl])
				}
			}
		}
	}
	return nil
}

func featureClasses(c featureCase) []string {
	files, err := schema.Unmarshal(c.Raw)
	if err != nil {
		return nil
	}
	var out []string
	for _, l := range schema.Constructs(files) {
		if strings.HasPrefix(l, "feature") || strings.HasPrefix(l, "editions") || strings.HasPrefix(l, "gofeature") {
			out = append(out, l)
		}
	}
	x := expect(files)
	switch {
	case x.overrides == 0:
		out = append(out, "overrides:0")
	case x.overrides < 4:
		out = append(out, "overrides:1-3")
	default:
		out = append(out, "overrides:4+")
	}
	if c.OffTarget > 0 {
		out = append(out, "off-target-message-overrides")
	}
	return out
}

const ruleFeatures = "schema sets of the shared generator restricted to editions 2023 / 2024 files (feature overrides at every place descriptor.proto's targets allow, well-known imports, (pb.go) features); every file built by protodesc.NewFile and by filedesc.Builder; for every declaration the resolved feature set kept by the descriptor (field presence, legacy required, enum type, repeated encoding, UTF-8 validation, message encoding, JSON format, pb.go legacy_unmarshal_json_enum / api_level / strip_enum_prefix) and the accessors derived from it (HasPresence, Cardinality, IsPacked, Kind, EnforceUTF8, IsClosed) against a reference resolver: defaults read from the edition_defaults options of FeatureSet's / GoFeatures' own fields, overridden by the nearest explicit setting along file -> message(s) -> field / enum / extension; non-trivial = at least one declaration below file level overrides a runtime feature with a value other than the inherited one"

func TestFeatures(t *testing.T) {
	pbt.Run(t, pbt.Prop[featureCase]{
		Name:       "features",
		Rule:       ruleFeatures,
		Draw:       drawFeatureCase(schema.Opts{Syntaxes: []string{"2023", "2024"}, WellKnown: true, Lazy: true, MaxFiles: 2}, false),
		Check:      checkFeatures,
		NonTrivial: func(c featureCase) bool { f, err := schema.Unmarshal(c.Raw); return err == nil && expect(f).overrides > 0 },
		Classes:    featureClasses,
		Quick:      600, Thorough: 6000,
	})
}

func TestFeaturesOffTarget(t *testing.T) {
	pbt.Run(t, pbt.Prop[featureCase]{
		Name:       "features-message-level",
		Rule:       ruleFeatures + "; additionally some messages set field_presence / enum_type / repeated_field_encoding / utf8_validation / message_encoding themselves (placements protoc refuses but a descriptor proto can carry), so that the message level of the chain matters for every feature, through several nesting levels",
		Draw:       drawFeatureCase(schema.Opts{Syntaxes: []string{"2023", "2024"}, MaxFiles: 2, MaxDepth: 4}, true),
		Check:      checkFeatures,
		NonTrivial: func(c featureCase) bool { return c.OffTarget > 0 },
		Classes:    featureClasses,
		Quick:      450, Thorough: 4000,
	})
}

// ---------------------------------------------------------------------------------------------
// the editions files linked into the binary (descriptors built by generated code at init time)

type linkedFileCase struct{ Path string }

func checkLinkedFile(c linkedFileCase) error {
	fd, err := protoregistry.GlobalFiles.FindFileByPath(c.Path)
	if err != nil {
		return fmt.Errorf("harness: %v", err)
	}
	p := protodesc.ToFileDescriptorProto(fd)
	want := expect([]*fdp{p})
	snap := descsnap.Of(fd, descsnap.Opts{NoSourceLocations: true})
	for k, g := range observed(fd) {
		if w, ok := want.structs[k]; !ok {
			return fmt.Errorf("harness: no expectation for %q", k)
		} else if g != w {
			return fmt.Errorf("linked file %s: resolved features of %q are %+v, the reference resolver gives %+v (%s)", c.Path, k, g, w, want.chain[k])
		}
	}
	for k, w := range want.accessors {
		if g, ok := snap[k]; ok && g != w {
			return fmt.Errorf("linked file %s: %s = %s, the reference resolver gives %s (%s)", c.Path, k, g, w, want.chain[k[:strings.IndexByte(k, '#')]])
		}
	}
	return nil
}

func TestLinkedEditionsFiles(t *testing.T) {
	n := 0
	pbt.Enumerate(t, "linked-editions-files",
		"every editions file registered in protoregistry.GlobalFiles (test protos of /repo, descriptor built by generated code through filedesc.Builder at init time): resolved features and derived accessors of every declaration against the reference resolver run on ToFileDescriptorProto of the file; non-trivial = some declaration below file level overrides a runtime feature",
		true,
		func(yield func(linkedFileCase, bool) bool) {
			for i, fd := range descsnap.LinkedFiles() {
				if fd.Syntax() != protoreflect.Editions || int64(i)%pbt.NShards != pbt.Shard {
					continue
				}
				n++
				if !yield(linkedFileCase{Path: fd.Path()}, expect([]*fdp{protodesc.ToFileDescriptorProto(fd)}).overrides > 0) {
					return
				}
			}
		}, checkLinkedFile)
	pbt.S.SetExtra("linked_editions_files", n)
	if pbt.NShards == 1 && n < 10 && !pbt.Skip() {
		t.Errorf("only %d linked editions files: the corpus is not linked in", n)
	}
}
