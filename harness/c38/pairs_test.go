package c38

import (
	"bytes"
	"encoding/json"
	"fmt"
	"reflect"
	"runtime/debug"
	"strings"
	"testing"
	"unicode/utf8"

	"google.golang.org/protobuf/encoding/protojson"
	"google.golang.org/protobuf/encoding/prototext"
	"google.golang.org/protobuf/proto"
	"google.golang.org/protobuf/reflect/protoreflect"
	"google.golang.org/protobuf/reflect/protoregistry"
	"google.golang.org/protobuf/types/descriptorpb"
	"google.golang.org/protobuf/types/dynamicpb"
	"google.golang.org/protobuf/zverif/corpus"
	"google.golang.org/protobuf/zverif/gen"
	"google.golang.org/protobuf/zverif/model"
	"google.golang.org/protobuf/zverif/pbt"
	"google.golang.org/protobuf/zverif/schema"
	"pgregory.net/rapid"
)

// ---------------------------------------------------------------------------------------------
// (b) exact-translation pairs: every input must be treated alike by both members

type resolver interface {
	protoregistry.ExtensionTypeResolver
	protoregistry.MessageTypeResolver
}

// side is one member of a pair.
type side struct {
	name string
	md   protoreflect.MessageDescriptor
	new  func() protoreflect.Message
	res  resolver
	// canon / local rewrite declaration names in documents where the two members of a linked pair had
	// to be given different names (they share a package): member's spelling <-> common spelling
	canon, local func([]byte) []byte
}

func (s side) toCanon(b []byte) []byte {
	if s.canon == nil {
		return b
	}
	return s.canon(b)
}

func (s side) toLocal(b []byte) []byte {
	if s.local == nil {
		return b
	}
	return s.local(b)
}

const (
	kfEmitUnpopulated = "KF-json-emitunpopulated-proto3-optional"
	kfMapKeyPanic     = "KF-slowpath-map-key-wrong-wiretype-panic"
)

// dropNullSynthetic removes from vb (JSON value written by the editions member) the "name": null
// entries of fields that are proto3 `optional` fields in md (the proto3 member's descriptor) and
// that va lacks: exactly the shape of the registered finding. It returns how many it removed.
func dropNullSynthetic(md protoreflect.MessageDescriptor, res resolver, va, vb any) int {
	oa, ok1 := va.(map[string]any)
	ob, ok2 := vb.(map[string]any)
	if !ok1 || !ok2 {
		return 0
	}
	n := 0
	for i := 0; i < md.Fields().Len(); i++ {
		fd := md.Fields().Get(i)
		key := fd.JSONName()
		if od := fd.ContainingOneof(); od != nil && od.IsSynthetic() {
			if _, inA := oa[key]; !inA {
				if v, inB := ob[key]; inB && v == nil {
					delete(ob, key)
					n++
				}
				continue
			}
		}
		switch {
		case fd.IsMap() && fd.MapValue().Message() != nil:
			ma, _ := oa[key].(map[string]any)
			mb, _ := ob[key].(map[string]any)
			for k, x := range ma {
				n += dropNullSynthetic(fd.MapValue().Message(), res, x, mb[k])
			}
		case fd.IsList() && fd.Message() != nil:
			la, _ := oa[key].([]any)
			lb, _ := ob[key].([]any)
			for j := 0; j < len(la) && j < len(lb); j++ {
				n += dropNullSynthetic(fd.Message(), res, la[j], lb[j])
			}
		case fd.Message() != nil && !fd.IsMap():
			n += dropNullSynthetic(fd.Message(), res, oa[key], ob[key])
		}
	}
	// message-typed extension fields: "[full.name]": {…}
	for key := range oa {
		if !strings.HasPrefix(key, "[") || !strings.HasSuffix(key, "]") {
			continue
		}
		xt, err := res.FindExtensionByName(protoreflect.FullName(key[1 : len(key)-1]))
		if err != nil || xt.TypeDescriptor().Message() == nil {
			continue
		}
		if xt.TypeDescriptor().IsList() {
			la, _ := oa[key].([]any)
			lb, _ := ob[key].([]any)
			for j := 0; j < len(la) && j < len(lb); j++ {
				n += dropNullSynthetic(xt.TypeDescriptor().Message(), res, la[j], lb[j])
			}
		} else {
			n += dropNullSynthetic(xt.TypeDescriptor().Message(), res, oa[key], ob[key])
		}
	}
	return n
}

type docEdit struct {
	Op  int // 0 delete a byte, 1 replace it, 2 insert one, 3 truncate
	Pos int
	B   byte
}

func (e docEdit) apply(doc []byte) []byte {
	if len(doc) == 0 {
		return doc
	}
	p := e.Pos % len(doc)
	out := append([]byte(nil), doc...)
	switch e.Op {
	case 0:
		return append(out[:p], out[p+1:]...)
	case 1:
		out[p] = e.B
		return out
	case 2:
		return append(out[:p], append([]byte{e.B}, out[p:]...)...)
	}
	return out[:p]
}

func sameVerdict(what string, a, b side, ea, eb error) error {
	if (ea == nil) != (eb == nil) {
		return fmt.Errorf("%s: %s says %v, %s says %v", what, a.name, ea, b.name, eb)
	}
	return nil
}

func jsonValue(b []byte) (any, error) {
	d := json.NewDecoder(bytes.NewReader(b))
	d.UseNumber()
	var v any
	err := d.Decode(&v)
	return v, err
}

// compareMessages requires two populated messages (one per member) to be indistinguishable:
// equal snapshots by field number, Size, deterministic bytes, JSON and text output.
func compareMessages(what string, a, b side, ma, mb protoreflect.Message, docs func(jsonDoc, textDoc []byte) error) error {
	if d := model.Diff(a.md, model.Snapshot(ma), model.Snapshot(mb), model.EqualOpts{BitwiseFloats: true}, a.res); d != "" {
		return fmt.Errorf("%s: contents differ (left = %s, right = %s): %s", what, a.name, b.name, d)
	}
	if sa, sb := proto.Size(ma.Interface()), proto.Size(mb.Interface()); sa != sb {
		return fmt.Errorf("%s: Size %d (%s) vs %d (%s)", what, sa, a.name, sb, b.name)
	}
	mo := proto.MarshalOptions{Deterministic: true}
	ba, ea := mo.Marshal(ma.Interface())
	bb, eb := mo.Marshal(mb.Interface())
	if err := sameVerdict(what+": Marshal", a, b, ea, eb); err != nil {
		return err
	}
	if ea == nil && !bytes.Equal(ba, bb) {
		return fmt.Errorf("%s: deterministic bytes differ: %x (%s) vs %x (%s)", what, ba, a.name, bb, b.name)
	}
	var firstJSON []byte
	for _, emit := range []bool{false, true} {
		ja, ea := protojson.MarshalOptions{Resolver: a.res, EmitUnpopulated: emit, AllowPartial: true}.Marshal(ma.Interface())
		jb, eb := protojson.MarshalOptions{Resolver: b.res, EmitUnpopulated: emit, AllowPartial: true}.Marshal(mb.Interface())
		if err := sameVerdict(fmt.Sprintf("%s: protojson.Marshal (EmitUnpopulated=%v)", what, emit), a, b, ea, eb); err != nil {
			return err
		}
		if ea != nil {
			continue
		}
		va, e1 := jsonValue(a.toCanon(ja))
		vb, e2 := jsonValue(b.toCanon(jb))
		if e1 != nil || e2 != nil {
			return fmt.Errorf("%s: protojson output is not JSON: %v / %v", what, e1, e2)
		}
		if emit && !reflect.DeepEqual(va, vb) { // proto3 optional fields may sit in any message of the tree (proto2 files import proto3 ones)
			if vb2, _ := jsonValue(b.toCanon(jb)); dropNullSynthetic(a.md, a.res, va, vb2) > 0 && reflect.DeepEqual(va, vb2) && pbt.ExcludeKnown(kfEmitUnpopulated) {
				vb = vb2
			}
		}
		if !reflect.DeepEqual(va, vb) {
			return fmt.Errorf("%s: JSON output (EmitUnpopulated=%v) differs: %s (%s) vs %s (%s)", what, emit, ja, a.name, jb, b.name)
		}
		if !emit {
			firstJSON = ja
		}
	}
	ta, ea := prototext.MarshalOptions{Resolver: a.res, AllowPartial: true}.Marshal(ma.Interface())
	tb, eb := prototext.MarshalOptions{Resolver: b.res, AllowPartial: true}.Marshal(mb.Interface())
	if err := sameVerdict(what+": prototext.Marshal", a, b, ea, eb); err != nil {
		return err
	}
	if ea == nil && strings.Join(strings.Fields(string(a.toCanon(ta))), " ") != strings.Join(strings.Fields(string(b.toCanon(tb))), " ") {
		return fmt.Errorf("%s: text output differs: %s (%s) vs %s (%s)", what, ta, a.name, tb, b.name)
	}
	if docs != nil {
		if ea != nil {
			ta = nil
		}
		return docs(a.toCanon(firstJSON), a.toCanon(ta))
	}
	return nil
}

// compareInput feeds one wire input to both members, then the JSON and text documents made from
// the first member's result (as they are, and with the edits applied) to both members again.
func compareInput(a, b side, wire []byte, edits []docEdit) (err error) {
	defer func() {
		// registered finding: the reflection-based decoder overwrites the key of a map entry with an invalid
		// Value when a second key record has the wrong wire type, and then panics in Value.MapKey
		if r := recover(); r != nil {
			stack := string(debug.Stack())
			if fmt.Sprint(r) == "type mismatch: cannot convert nil to map key" && strings.Contains(stack, "proto.UnmarshalOptions.unmarshalMap") && pbt.ExcludeKnown(kfMapKeyPanic) {
				err = nil
				return
			}
			err = fmt.Errorf("PANIC on input %x: %v\n%s", wire, r, stack)
		}
	}()
	ma, mb := a.new(), b.new()
	ea := proto.UnmarshalOptions{Resolver: a.res}.Unmarshal(wire, ma.Interface())
	eb := proto.UnmarshalOptions{Resolver: b.res}.Unmarshal(wire, mb.Interface())
	if err := sameVerdict(fmt.Sprintf("Unmarshal(%x)", wire), a, b, ea, eb); err != nil {
		return err
	}
	if ea != nil {
		// what a failed Unmarshal leaves behind is unspecified; AllowPartial makes "required field missing" a success
		ma, mb = a.new(), b.new()
		ea = proto.UnmarshalOptions{Resolver: a.res, AllowPartial: true}.Unmarshal(wire, ma.Interface())
		eb = proto.UnmarshalOptions{Resolver: b.res, AllowPartial: true}.Unmarshal(wire, mb.Interface())
		if err := sameVerdict(fmt.Sprintf("Unmarshal(%x) with AllowPartial", wire), a, b, ea, eb); err != nil {
			return err
		}
		if ea != nil {
			return nil
		}
	}
	return compareMessages(fmt.Sprintf("after Unmarshal(%x)", wire), a, b, ma, mb, func(jsonDoc, textDoc []byte) error {
		feed := func(format string, doc []byte, unmarshal func(s side, m proto.Message, doc []byte) error) error {
			variants := [][]byte{doc}
			for _, e := range edits {
				variants = append(variants, e.apply(doc))
			}
			for i, d := range variants {
				xa, xb := a.new(), b.new()
				ea, eb := unmarshal(a, xa.Interface(), a.toLocal(d)), unmarshal(b, xb.Interface(), b.toLocal(d))
				what := fmt.Sprintf("%s document %q (variant %d)", format, d, i)
				if err := sameVerdict(what, a, b, ea, eb); err != nil {
					return err
				}
				if i == 0 && ea != nil {
					return fmt.Errorf("%s: %s cannot read back what it wrote: %v", what, a.name, ea)
				}
				if ea == nil {
					if err := compareMessages("after reading "+what, a, b, xa, xb, nil); err != nil {
						return err
					}
				}
			}
			return nil
		}
		if jsonDoc != nil {
			if err := feed("JSON", jsonDoc, func(s side, m proto.Message, d []byte) error {
				return protojson.UnmarshalOptions{Resolver: s.res, AllowPartial: true}.Unmarshal(d, m)
			}); err != nil {
				return err
			}
		}
		if textDoc != nil {
			return feed("text", textDoc, func(s side, m proto.Message, d []byte) error {
				return prototext.UnmarshalOptions{Resolver: s.res, AllowPartial: true}.Unmarshal(d, m)
			})
		}
		return nil
	})
}

// ---------------------------------------------------------------------------------------------
// drawing inputs

type wireInput struct {
	Wire  []byte
	How   []string // what the generator did (labels); evidence only
	Edits []docEdit
}

// spice plants the values at which the features matter: an undeclared enum number, invalid UTF-8 in a
// string (validated or not). Returns labels.
func spice(t *rapid.T, md protoreflect.MessageDescriptor, v *model.Msg, r model.Resolver, den int) []string {
	type slot struct {
		fd protoreflect.FieldDescriptor
		v  *model.Val
	}
	var enums, strs []slot
	var walk func(md protoreflect.MessageDescriptor, v *model.Msg)
	walk = func(md protoreflect.MessageDescriptor, v *model.Msg) {
		if v == nil {
			return
		}
		for i := range v.Fields {
			f := &v.Fields[i]
			fd := model.FieldDesc(md, f.Num, r)
			if fd == nil {
				continue
			}
			one := func(d protoreflect.FieldDescriptor, x *model.Val) {
				switch {
				case d.Kind() == protoreflect.EnumKind:
					enums = append(enums, slot{d, x})
				case d.Kind() == protoreflect.StringKind:
					strs = append(strs, slot{d, x})
				case d.Message() != nil:
					walk(d.Message(), x.M)
				}
			}
			for j := range f.Vals {
				if fd.IsMap() {
					one(fd.MapKey(), &f.Keys[j])
					one(fd.MapValue(), &f.Vals[j])
				} else {
					one(fd, &f.Vals[j])
				}
			}
		}
	}
	walk(md, v)
	var how []string
	if len(enums) > 0 && rapid.IntRange(0, den-1).Draw(t, "undeclared-enum?") == 0 {
		s := enums[rapid.IntRange(0, len(enums)-1).Draw(t, "enum-slot")]
		for try := 0; try < 8; try++ {
			n := gen.Int32().Draw(t, "enum-number")
			if s.fd.Enum().Values().ByNumber(protoreflect.EnumNumber(n)) == nil {
				s.v.U = uint64(int64(n))
				how = append(how, "undeclared-enum-number")
				if s.fd.Enum().IsClosed() {
					how = append(how, "undeclared-enum-number:closed")
				}
				break
			}
		}
	}
	if len(strs) > 0 && rapid.IntRange(0, den-1).Draw(t, "invalid-utf8?") == 0 {
		s := strs[rapid.IntRange(0, len(strs)-1).Draw(t, "str-slot")]
		bad := [][]byte{{0xff}, {0xc0, 0x80}, {0xed, 0xa0, 0x80}, {0xf4, 0x90, 0x80, 0x80}, {0xe2, 0x82}}[rapid.IntRange(0, 4).Draw(t, "bad")]
		p := 0
		if len(s.v.B) > 0 {
			p = rapid.IntRange(0, len(s.v.B)).Draw(t, "at")
			for p < len(s.v.B) && !utf8.RuneStart(s.v.B[p]) {
				p++
			}
		}
		s.v.B = append(append(append([]byte(nil), s.v.B[:p]...), bad...), s.v.B[p:]...)
		how = append(how, "invalid-utf8")
		if gen.EnforcesUTF8(s.fd) {
			how = append(how, "invalid-utf8:validated-field")
		}
	}
	return how
}

func drawInput(t *rapid.T, md protoreflect.MessageDescriptor, mo gen.MsgOpts, spiceDen int) wireInput {
	v := gen.DrawMessage(t, md, mo)
	in := wireInput{How: spice(t, md, v, mo.Resolver, spiceDen)}
	var labels []string
	eo := model.AllPerturbations
	eo.Labels = &labels
	in.Wire = model.Encode(md, v, gen.RapidChooser{T: t}, eo, mo.Resolver)
	seen := map[string]bool{}
	for _, l := range labels {
		if !seen[l] {
			seen[l] = true
			in.How = append(in.How, l)
		}
	}
	if rapid.IntRange(0, 3).Draw(t, "mutate?") == 0 {
		var kind string
		if rapid.Bool().Draw(t, "deep") {
			in.Wire, kind = gen.MutateDeep(t, in.Wire)
		} else {
			in.Wire, kind = gen.Mutate(t, in.Wire)
		}
		if i := strings.LastIndex(kind, "deep-"); i >= 0 {
			kind = "nested-" + kind[i+5:]
		}
		in.How = append(in.How, "mutated:"+kind)
	}
	for i, n := 0, rapid.IntRange(0, 2).Draw(t, "doc-edits"); i < n; i++ {
		in.Edits = append(in.Edits, docEdit{Op: rapid.IntRange(0, 3).Draw(t, "op"), Pos: rapid.IntRange(0, 4000).Draw(t, "pos"),
			B: rapid.SampledFrom([]byte(`"{}[]:,0-9ae.\ntrue null x`)).Draw(t, "byte")})
	}
	return in
}

func matters(how []string) bool {
	for _, h := range how {
		switch h {
		case "undeclared-enum-number", "invalid-utf8", "repacked", "split-packed-run":
			return true
		}
	}
	return false
}

// ---------------------------------------------------------------------------------------------
// (b1) the pairs of internal/testprotos/editionsfuzztest

type linkedPairCase struct {
	Pair  string // "proto2" or "proto3"
	Input wireInput
}

var linkedPairs = map[string][2]string{
	"proto2": {"goproto.proto.test.TestAllTypesProto2", "goproto.proto.test.TestAllTypesProto2Editions"},
	"proto3": {"goproto.proto.test.TestAllTypesProto3", "goproto.proto.test.TestAllTypesProto3Editions"},
}

func linkedSides(pair string) (a, b side, err error) {
	names, ok := linkedPairs[pair]
	if !ok {
		return a, b, fmt.Errorf("harness: unknown pair %q", pair)
	}
	mk := func(n string) (side, error) {
		mt := corpus.ByName(n)
		if mt == nil {
			return side{}, fmt.Errorf("harness: %s is not linked in", n)
		}
		return side{name: string(mt.Descriptor().Name()), md: mt.Descriptor(), new: func() protoreflect.Message { return mt.New() }, res: protoregistry.GlobalTypes}, nil
	}
	if a, err = mk(names[0]); err != nil {
		return
	}
	b, err = mk(names[1])
	// test3editions.proto had to name the values of its foreign enum differently (same package)
	b.canon = func(d []byte) []byte { return bytes.ReplaceAll(d, []byte("FOREIGN_PROTO3_EDITIONS_"), []byte("FOREIGN_PROTO3_")) }
	b.local = func(d []byte) []byte {
		return bytes.ReplaceAll(b.canon(d), []byte("FOREIGN_PROTO3_"), []byte("FOREIGN_PROTO3_EDITIONS_"))
	}
	return
}

func TestLinkedPairs(t *testing.T) {
	pbt.Run(t, pbt.Prop[linkedPairCase]{
		Name: "linked-pairs",
		Rule: "the proto2<->editions and proto3<->editions message pairs of internal/testprotos/editionsfuzztest (generated code); input = descriptor-directed content (drawn from either member's descriptor) with an undeclared enum number / invalid UTF-8 planted in 1/3 of the cases each, encoded by the reference encoder with all perturbations (packed<->unpacked, split runs, shuffles, decoys, split submessages, map variants), 1/4 additionally byte-mutated (top level or nested); then the JSON and text documents made from the first member's result, as written and with 0-2 byte edits. Oracle: same Unmarshal verdict (also with AllowPartial), equal contents by field number (incl. unknown fields), same Size, same deterministic bytes, JSON (plain and EmitUnpopulated) equal as values, text equal modulo whitespace, same acceptance of every document and equal contents after reading it; non-trivial = the input has an undeclared enum number, invalid UTF-8 or a packed/unpacked switch",
		Draw: func(t *rapid.T) linkedPairCase {
			c := linkedPairCase{Pair: rapid.SampledFrom([]string{"proto2", "proto3"}).Draw(t, "pair")}
			a, b, err := linkedSides(c.Pair)
			if err != nil {
				t.Fatalf("%v", err)
			}
			md := a.md
			if rapid.Bool().Draw(t, "from-editions-side") {
				md = b.md
			}
			mo := gen.DefaultMsgOpts
			mo.RequiredOmit = 6
			c.Input = drawInput(t, md, mo, 3)
			return c
		},
		Check: func(c linkedPairCase) error {
			a, b, err := linkedSides(c.Pair)
			if err != nil {
				return err
			}
			return compareInput(a, b, c.Input.Wire, c.Input.Edits)
		},
		NonTrivial: func(c linkedPairCase) bool { return matters(c.Input.How) },
		Classes:    func(c linkedPairCase) []string { return append([]string{"pair:" + c.Pair}, c.Input.How...) },
		Quick:      5000, Thorough: 80000,
	})
}

// ---------------------------------------------------------------------------------------------
// (b2) random proto2 / proto3 schema sets and their mechanical editions translation, as dynamicpb

type translatedCase struct {
	Raw     [][]byte // the proto2 / proto3 set
	Edition int32    // edition of the translation
	Msgs    []int    // indexes into schema.Messages
	Inputs  []wireInput
	Text    []string
}

type builtSet struct {
	files []*fdp
	reg   *protoregistry.Files
	types *protoregistry.Types
	msgs  []protoreflect.MessageDescriptor
}

func buildSet(files []*fdp) (*builtSet, error) {
	reg, err := schema.Build(files)
	if err != nil {
		return nil, err
	}
	types, err := schema.Types(reg, files)
	if err != nil {
		return nil, err
	}
	return &builtSet{files: files, reg: reg, types: types, msgs: schema.Messages(reg, files)}, nil
}

func (s *builtSet) side(name string, i int) side {
	md := s.msgs[i]
	return side{name: name + " " + string(md.FullName()), md: md, new: func() protoreflect.Message { return dynamicpb.NewMessage(md) }, res: s.types}
}

func translateSet(files []*fdp, edition descriptorpb.Edition) ([]*fdp, error) {
	out := make([]*fdp, len(files))
	for i, f := range files {
		var err error
		if out[i], err = translate(f, edition); err != nil {
			return nil, err
		}
	}
	return out, nil
}

var translatedOpts = schema.Opts{Syntaxes: []string{"proto2", "proto3"}, MaxFiles: 2, MaxMessages: 3, NoServices: true, NoOptions: true}

func drawTranslated(t *rapid.T) translatedCase {
	files := schema.Draw(t, translatedOpts)
	c := translatedCase{Raw: schema.Marshal(files), Text: schema.Text(files)}
	c.Edition = int32([]descriptorpb.Edition{descriptorpb.Edition_EDITION_2023, descriptorpb.Edition_EDITION_2024}[rapid.IntRange(0, 1).Draw(t, "edition")])
	orig, err := buildSet(files)
	if err != nil {
		t.Fatalf("harness: %v", err)
	}
	if len(orig.msgs) == 0 {
		return c
	}
	mo := gen.DefaultMsgOpts
	mo.RequiredOmit = 6
	mo.Resolver = orig.types
	mo.ExtTypes = schema.ExtTypesOf(orig.reg, files)
	for i, n := 0, rapid.IntRange(1, 4).Draw(t, "inputs"); i < n; i++ {
		k := rapid.IntRange(0, len(orig.msgs)-1).Draw(t, "msg")
		c.Msgs = append(c.Msgs, k)
		c.Inputs = append(c.Inputs, drawInput(t, orig.msgs[k], mo, 2))
	}
	return c
}

func checkTranslated(c translatedCase) error {
	files, err := schema.Unmarshal(c.Raw)
	if err != nil {
		return fmt.Errorf("harness: %v", err)
	}
	orig, err := buildSet(files)
	if err != nil {
		return fmt.Errorf("harness: %v", err)
	}
	tfiles, err := translateSet(files, descriptorpb.Edition(c.Edition))
	if err != nil {
		return fmt.Errorf("harness: %v", err)
	}
	tr, err := buildSet(tfiles)
	if err != nil {
		return fmt.Errorf("the editions translation of a valid proto2 / proto3 set is rejected: %v", err)
	}
	if len(tr.msgs) != len(orig.msgs) {
		return fmt.Errorf("harness: translation has %d messages, original %d", len(tr.msgs), len(orig.msgs))
	}
	for i, k := range c.Msgs {
		if orig.msgs[k].FullName() != tr.msgs[k].FullName() {
			return fmt.Errorf("harness: message order differs")
		}
		syntax := orig.msgs[k].ParentFile().Syntax().String()
		if err := compareInput(orig.side(syntax, k), tr.side("editions", k), c.Inputs[i].Wire, c.Inputs[i].Edits); err != nil {
			return fmt.Errorf("%s (edition %v): %v", orig.msgs[k].FullName(), descriptorpb.Edition(c.Edition), err)
		}
	}
	return nil
}

func TestTranslatedSchemas(t *testing.T) {
	pbt.Run(t, pbt.Prop[translatedCase]{
		Name: "translated-schemas",
		Rule: "random proto2 / proto3 schema sets of the shared generator (closed sets: groups, required, defaults, maps, oneofs, proto3 optional, packed options, extensions, closed and open enums, imports between files of both syntaxes) and their mechanical editions translation (same names, numbers and types; required -> LEGACY_REQUIRED, group -> DELIMITED, packed option -> repeated_field_encoding, proto3 optional -> EXPLICIT without the synthetic oneof, file-level features for what the syntax implied; edition 2023 or 2024), both built by protodesc.NewFile and used through dynamicpb with their own type registries; 1-4 inputs per set, drawn and compared as in 'linked-pairs' (extensions populated); non-trivial = some input has an undeclared enum number, invalid UTF-8 or a packed/unpacked switch",
		Draw: drawTranslated, Check: checkTranslated,
		NonTrivial: func(c translatedCase) bool {
			for _, in := range c.Inputs {
				if matters(in.How) {
					return true
				}
			}
			return false
		},
		Classes: func(c translatedCase) []string {
			var out []string
			seen := map[string]bool{}
			add := func(s string) {
				if !seen[s] {
					seen[s] = true
					out = append(out, s)
				}
			}
			add(fmt.Sprintf("edition:%v", descriptorpb.Edition(c.Edition)))
			if files, err := schema.Unmarshal(c.Raw); err == nil {
				for _, f := range files {
					if f.GetSyntax() == "proto3" {
						add("has-proto3-file")
					} else {
						add("has-proto2-file")
					}
				}
				for _, l := range schema.Constructs(files) {
					switch l {
					case "group", "required", "proto3-optional", "map", "oneof", "extension", "packed:true", "packed:false", "default", "import":
						add("schema:" + l)
					}
				}
			}
			for _, in := range c.Inputs {
				for _, h := range in.How {
					add(h)
				}
			}
			return out
		},
		Quick: 1200, Thorough: 12000,
	})
}
