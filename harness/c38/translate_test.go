package c38

import (
	"fmt"

	"google.golang.org/protobuf/proto"
	"google.golang.org/protobuf/types/descriptorpb"
)

// translate is the mechanical editions translation of a proto2 / proto3 file, following the
// "Feature Settings for Editions" table of the language documentation: same path, package, names,
// numbers and types; the semantics the old syntax implied are spelled as features.
//
//	proto2: file  enum_type = CLOSED, repeated_field_encoding = EXPANDED, utf8_validation = NONE,
//	              json_format = LEGACY_BEST_EFFORT      (field_presence EXPLICIT and LENGTH_PREFIXED are the edition's defaults)
//	        required       -> LABEL_OPTIONAL + field_presence = LEGACY_REQUIRED
//	        group          -> TYPE_MESSAGE + message_encoding = DELIMITED
//	        [packed = b]   -> repeated_field_encoding = PACKED / EXPANDED
//	proto3: file  field_presence = IMPLICIT            (OPEN, PACKED, VERIFY, ALLOW are the edition's defaults)
//	        optional       -> field_presence = EXPLICIT, the synthetic oneof disappears
//	        [packed = b]   -> repeated_field_encoding = PACKED / EXPANDED
func translate(src *fdp, edition descriptorpb.Edition) (*fdp, error) {
	f := proto.Clone(src).(*fdp)
	var p3 bool
	switch src.GetSyntax() {
	case "", "proto2":
	case "proto3":
		p3 = true
	default:
		return nil, fmt.Errorf("translate: %s is not a proto2 / proto3 file", src.GetName())
	}
	f.Syntax = proto.String("editions")
	f.Edition = edition.Enum()
	if f.Options == nil {
		f.Options = &descriptorpb.FileOptions{}
	}
	if p3 {
		f.Options.Features = &descriptorpb.FeatureSet{FieldPresence: descriptorpb.FeatureSet_IMPLICIT.Enum()}
	} else {
		f.Options.Features = &descriptorpb.FeatureSet{
			EnumType:              descriptorpb.FeatureSet_CLOSED.Enum(),
			RepeatedFieldEncoding: descriptorpb.FeatureSet_EXPANDED.Enum(),
			Utf8Validation:        descriptorpb.FeatureSet_NONE.Enum(),
			JsonFormat:            descriptorpb.FeatureSet_LEGACY_BEST_EFFORT.Enum(),
		}
	}
	feat := func(fd *fldp) *descriptorpb.FeatureSet {
		if fd.Options == nil {
			fd.Options = &descriptorpb.FieldOptions{}
		}
		if fd.Options.Features == nil {
			fd.Options.Features = &descriptorpb.FeatureSet{}
		}
		return fd.Options.Features
	}
	field := func(fd *fldp) {
		if fd.GetLabel() == descriptorpb.FieldDescriptorProto_LABEL_REQUIRED {
			fd.Label = descriptorpb.FieldDescriptorProto_LABEL_OPTIONAL.Enum()
			feat(fd).FieldPresence = descriptorpb.FeatureSet_LEGACY_REQUIRED.Enum()
		}
		if fd.GetType() == descriptorpb.FieldDescriptorProto_TYPE_GROUP {
			fd.Type = descriptorpb.FieldDescriptorProto_TYPE_MESSAGE.Enum()
			feat(fd).MessageEncoding = descriptorpb.FeatureSet_DELIMITED.Enum()
		}
		if fd.GetOptions() != nil && fd.GetOptions().Packed != nil {
			if fd.GetOptions().GetPacked() {
				feat(fd).RepeatedFieldEncoding = descriptorpb.FeatureSet_PACKED.Enum()
			} else {
				feat(fd).RepeatedFieldEncoding = descriptorpb.FeatureSet_EXPANDED.Enum()
			}
			fd.Options.Packed = nil
		}
	}
	var msg func(m *dp) error
	msg = func(m *dp) error {
		// proto3 optional: synthetic oneofs come after the real ones, so dropping them keeps the real indices
		real := len(m.OneofDecl)
		for _, fd := range m.Field {
			if fd.GetProto3Optional() {
				if k := int(fd.GetOneofIndex()); k < real {
					real = k
				}
			}
		}
		for _, fd := range m.Field {
			if fd.GetProto3Optional() {
				fd.Proto3Optional, fd.OneofIndex = nil, nil
				feat(fd).FieldPresence = descriptorpb.FeatureSet_EXPLICIT.Enum()
			} else if fd.OneofIndex != nil && int(fd.GetOneofIndex()) >= real {
				return fmt.Errorf("translate: real oneof after a synthetic one in %s", m.GetName())
			}
			field(fd)
		}
		m.OneofDecl = m.OneofDecl[:real]
		for _, xd := range m.Extension {
			field(xd)
		}
		for _, n := range m.NestedType {
			if err := msg(n); err != nil {
				return err
			}
		}
		return nil
	}
	for _, m := range f.MessageType {
		if err := msg(m); err != nil {
			return nil, err
		}
	}
	for _, xd := range f.Extension {
		field(xd)
	}
	return f, nil
}
