package c19

import (
	"bytes"
	"crypto/sha256"
	"encoding/json"
	"fmt"
	"os"
	"os/exec"
	"path/filepath"
	"reflect"
	"sort"
	"strings"
	"sync"
	"sync/atomic"
	"testing"
	"time"

	"google.golang.org/protobuf/encoding/protojson"
	"google.golang.org/protobuf/encoding/prototext"
	"google.golang.org/protobuf/internal/impl"
	"google.golang.org/protobuf/proto"
	"google.golang.org/protobuf/reflect/protodesc"
	"google.golang.org/protobuf/reflect/protoreflect"
	"google.golang.org/protobuf/reflect/protoregistry"
	"google.golang.org/protobuf/types/descriptorpb"
	"google.golang.org/protobuf/types/dynamicpb"
	_ "google.golang.org/protobuf/zverif/corpus"
	"google.golang.org/protobuf/zverif/pbt"
	"pgregory.net/rapid"
)

// One first-use operation. Targets are indices into the sorted name lists of the registries, so a
// plan is plain data and both processes resolve it identically.
type op struct {
	Kind string // walk | codec | jsontext | enum | ext | find | register | rangefiles | aberrant
	Idx  int
}

type plan struct {
	Ops    []op
	Assign [][]int // goroutine -> indices into Ops (an op may appear under several goroutines)
	Delays []int   // per goroutine: spin iterations before starting
}

// ---- child side ----------------------------------------------------------------------------------

func names() (msgs, enums []string, exts []protoreflect.ExtensionType, files []string) {
	protoregistry.GlobalTypes.RangeMessages(func(mt protoreflect.MessageType) bool {
		msgs = append(msgs, string(mt.Descriptor().FullName()))
		return true
	})
	protoregistry.GlobalTypes.RangeEnums(func(et protoreflect.EnumType) bool {
		enums = append(enums, string(et.Descriptor().FullName()))
		return true
	})
	protoregistry.GlobalFiles.RangeFiles(func(fd protoreflect.FileDescriptor) bool {
		files = append(files, fd.Path())
		return true
	})
	sort.Strings(msgs)
	sort.Strings(enums)
	sort.Strings(files)
	return
}

func digest(parts ...any) string {
	h := sha256.New()
	for _, p := range parts {
		fmt.Fprintf(h, "%v|", p)
	}
	return fmt.Sprintf("%x", h.Sum(nil)[:8])
}

func walkField(w *bytes.Buffer, fd protoreflect.FieldDescriptor) {
	fmt.Fprintf(w, "%s#%d k%v c%v j%s t%s p%v pk%v l%v m%v", fd.FullName(), fd.Number(), fd.Kind(), fd.Cardinality(), fd.JSONName(), fd.TextName(), fd.HasPresence(), fd.IsPacked(), fd.IsList(), fd.IsMap())
	if fd.Message() != nil {
		fmt.Fprintf(w, " msg=%s", fd.Message().FullName())
	}
	if fd.Enum() != nil {
		fmt.Fprintf(w, " enum=%s/%d", fd.Enum().FullName(), fd.Enum().Values().Len())
	}
	if od := fd.ContainingOneof(); od != nil {
		fmt.Fprintf(w, " oneof=%s", od.Name())
	}
	if fd.HasDefault() {
		fmt.Fprintf(w, " def=%v", fd.Default())
	}
	if fd.ContainingMessage() != nil {
		fmt.Fprintf(w, " in=%s", fd.ContainingMessage().FullName())
	}
	w.WriteByte('\n')
}

func walkMessage(w *bytes.Buffer, md protoreflect.MessageDescriptor, depth int) {
	fmt.Fprintf(w, "M %s idx%d file=%s syn=%v mapentry=%v\n", md.FullName(), md.Index(), md.ParentFile().Path(), md.Syntax(), md.IsMapEntry())
	for i := 0; i < md.Fields().Len(); i++ {
		walkField(w, md.Fields().Get(i))
	}
	for i := 0; i < md.Oneofs().Len(); i++ {
		od := md.Oneofs().Get(i)
		fmt.Fprintf(w, "O %s n%d syn%v\n", od.FullName(), od.Fields().Len(), od.IsSynthetic())
	}
	for i := 0; i < md.Enums().Len(); i++ {
		ed := md.Enums().Get(i)
		fmt.Fprintf(w, "E %s closed%v", ed.FullName(), ed.IsClosed())
		for j := 0; j < ed.Values().Len(); j++ {
			fmt.Fprintf(w, " %s=%d", ed.Values().Get(j).Name(), ed.Values().Get(j).Number())
		}
		w.WriteByte('\n')
	}
	fmt.Fprintf(w, "R %v %v %v req%v\n", md.ExtensionRanges().Len(), md.ReservedRanges().Len(), md.ReservedNames().Len(), md.RequiredNumbers().Len())
	if depth > 0 {
		for i := 0; i < md.Messages().Len(); i++ {
			walkMessage(w, md.Messages().Get(i), depth-1)
		}
	}
	// keyed lookups force the lazily built maps
	if md.Fields().Len() > 0 {
		f0 := md.Fields().Get(md.Fields().Len() - 1)
		fmt.Fprintf(w, "L %v %v %v\n", md.Fields().ByName(f0.Name()) == f0, md.Fields().ByNumber(f0.Number()) == f0, md.Fields().ByJSONName(f0.JSONName()) != nil)
	}
}

var regCounter atomic.Int64

// aberrantType builds (deterministically; reflect.StructOf caches) the k-th struct-tag-only message
// type: many tagged fields, so that deriving its descriptor on first use takes a while, plus a
// reference to itself (the derivation publishes the half-built descriptor for such cycles).
func aberrantType(k int) reflect.Type {
	n := 120 + 20*k
	fs := make([]reflect.StructField, 0, n+1)
	for i := 1; i <= n; i++ {
		var t reflect.Type
		var tag string
		switch i % 4 {
		case 0:
			t, tag = reflect.TypeOf((*int32)(nil)), fmt.Sprintf(`protobuf:"varint,%d,opt,name=f%d"`, i, i)
		case 1:
			t, tag = reflect.TypeOf((*string)(nil)), fmt.Sprintf(`protobuf:"bytes,%d,opt,name=f%d"`, i, i)
		case 2:
			t, tag = reflect.TypeOf([]uint64(nil)), fmt.Sprintf(`protobuf:"varint,%d,rep,packed,name=f%d"`, i, i)
		default:
			t, tag = reflect.TypeOf((*float64)(nil)), fmt.Sprintf(`protobuf:"fixed64,%d,opt,name=f%d,def=1.5"`, i, i)
		}
		fs = append(fs, reflect.StructField{Name: fmt.Sprintf("F%d", i), Type: t, Tag: reflect.StructTag(tag)})
	}
	return reflect.StructOf(fs)
}

// aberrantFirstUse derives the descriptor of the k-th struct-tag-only type (first use in this
// process when no other goroutine got there before), walks it, and marshals a populated instance.
func aberrantFirstUse(k int) string {
	rt := aberrantType(k)
	v := reflect.New(rt)
	n := rt.NumField()
	last := int32(7)
	v.Elem().Field(n - n%4 - 1).Set(reflect.ValueOf(&last)) // an int32 field near the end (index i-1 with i%4==0)
	// what the legacy wrapper does for a message type it has never seen (types built by
	// reflect.StructOf have no methods, so the exported wrapper functions refuse them)
	md := impl.LegacyLoadMessageDesc(v.Type())
	mi := &impl.MessageInfo{Desc: md, GoReflectType: v.Type()}
	m := mi.MessageOf(v.Interface()).Interface()
	var w bytes.Buffer
	// (the derived full name of an unnamed struct type contains a pointer value: not compared)
	fmt.Fprintf(&w, "A fields=%d\n", md.Fields().Len())
	for i := 0; i < md.Fields().Len(); i++ {
		fd := md.Fields().Get(i)
		fmt.Fprintf(&w, "%s#%d k%v c%v j%s p%v def=%v|", fd.Name(), fd.Number(), fd.Kind(), fd.Cardinality(), fd.JSONName(), fd.IsPacked(), fd.Default())
	}
	f0 := md.Fields().Get(md.Fields().Len() - 1)
	fmt.Fprintf(&w, "L %v %v\n", md.Fields().ByName(f0.Name()) == f0, md.Fields().ByNumber(f0.Number()) == f0)
	b, err := proto.Marshal(m)
	sz := proto.Size(m)
	return digest(w.String(), b, err, sz)
}

func execOp(o op, msgs, enums []string, exts []protoreflect.ExtensionType, files []string) (res string) {
	defer func() {
		if r := recover(); r != nil {
			res = fmt.Sprintf("PANIC: %v", r)
		}
	}()
	switch o.Kind {
	case "aberrant":
		return aberrantFirstUse(o.Idx % 6)
	case "walk":
		mt, err := protoregistry.GlobalTypes.FindMessageByName(protoreflect.FullName(msgs[o.Idx%len(msgs)]))
		if err != nil {
			return "err:" + err.Error()
		}
		var w bytes.Buffer
		walkMessage(&w, mt.Descriptor(), 2)
		// and the file view of it
		fd := mt.Descriptor().ParentFile()
		fmt.Fprintf(&w, "F %s %s m%d e%d x%d s%d imp%d\n", fd.Path(), fd.Package(), fd.Messages().Len(), fd.Enums().Len(), fd.Extensions().Len(), fd.Services().Len(), fd.Imports().Len())
		return digest(w.String())
	case "codec":
		mt, err := protoregistry.GlobalTypes.FindMessageByName(protoreflect.FullName(msgs[o.Idx%len(msgs)]))
		if err != nil {
			return "err:" + err.Error()
		}
		m := mt.New().Interface()
		e1 := proto.UnmarshalOptions{AllowPartial: true}.Unmarshal([]byte{0x08, 0x01, 0x12, 0x00, 0xa0, 0x1f, 0x05}, m)
		b, e2 := proto.MarshalOptions{Deterministic: true, AllowPartial: true}.Marshal(m)
		return digest(e1 == nil, e2 == nil, b, proto.Size(m), proto.CheckInitialized(m) == nil, proto.Equal(m, proto.Clone(m)))
	case "jsontext":
		mt, err := protoregistry.GlobalTypes.FindMessageByName(protoreflect.FullName(msgs[o.Idx%len(msgs)]))
		if err != nil {
			return "err:" + err.Error()
		}
		m := mt.New().Interface()
		j, e1 := protojson.MarshalOptions{AllowPartial: true, EmitUnpopulated: true}.Marshal(m)
		t, e2 := prototext.MarshalOptions{AllowPartial: true}.Marshal(m)
		return digest(e1 == nil, e2 == nil, string(j), string(t))
	case "enum":
		if len(enums) == 0 {
			return "none"
		}
		et, err := protoregistry.GlobalTypes.FindEnumByName(protoreflect.FullName(enums[o.Idx%len(enums)]))
		if err != nil {
			return "err:" + err.Error()
		}
		ed := et.Descriptor()
		var w bytes.Buffer
		for i := 0; i < ed.Values().Len(); i++ {
			v := ed.Values().Get(i)
			fmt.Fprintf(&w, "%s=%d %v;", v.FullName(), v.Number(), et.New(v.Number()))
		}
		fmt.Fprintf(&w, "%v %v", ed.IsClosed(), ed.ReservedNames().Len())
		return digest(w.String())
	case "ext":
		// the extensions of one extendee, by number (resolved inside the operation so that their
		// first use happens here)
		name := protoreflect.FullName(msgs[o.Idx%len(msgs)])
		var xs []protoreflect.ExtensionType
		protoregistry.GlobalTypes.RangeExtensionsByMessage(name, func(xt protoreflect.ExtensionType) bool {
			xs = append(xs, xt)
			return true
		})
		sort.Slice(xs, func(i, j int) bool { return xs[i].TypeDescriptor().Number() < xs[j].TypeDescriptor().Number() })
		var w bytes.Buffer
		for _, xt := range xs {
			walkField(&w, xt.TypeDescriptor())
			fmt.Fprintf(&w, "%v;", xt.Zero().IsValid())
		}
		return digest(len(xs), w.String())
	case "find":
		name := msgs[o.Idx%len(msgs)]
		d, e1 := protoregistry.GlobalFiles.FindDescriptorByName(protoreflect.FullName(name))
		_, e2 := protoregistry.GlobalTypes.FindMessageByURL("type.googleapis.com/" + name)
		f, e3 := protoregistry.GlobalFiles.FindFileByPath(files[o.Idx%len(files)])
		_, e4 := protoregistry.GlobalFiles.FindDescriptorByName(protoreflect.FullName(name + ".nope"))
		dn, fn := "", ""
		if d != nil {
			dn = string(d.FullName())
		}
		if f != nil {
			fn = f.Path()
		}
		return digest(dn, e1 == nil, e2 == nil, fn, e3 == nil, e4 == protoregistry.NotFound)
	case "rangefiles":
		n := 0
		protoregistry.GlobalFiles.RangeFiles(func(fd protoreflect.FileDescriptor) bool {
			if !strings.HasPrefix(fd.Path(), "verif_c19_") {
				n++
			}
			return true
		})
		return digest(n > 0)
	case "register":
		// every execution registers its own file (the global registries panic on conflicts by design)
		exec := regCounter.Add(1)
		path := fmt.Sprintf("verif_c19_%d_%d.proto", o.Idx, exec)
		fdp := &descriptorpb.FileDescriptorProto{
			Name: proto.String(path), Package: proto.String(fmt.Sprintf("verif.c19.p%d.e%d", o.Idx, exec)), Syntax: proto.String("proto3"),
			MessageType: []*descriptorpb.DescriptorProto{{Name: proto.String("M"), Field: []*descriptorpb.FieldDescriptorProto{
				{Name: proto.String("a"), Number: proto.Int32(1), Type: descriptorpb.FieldDescriptorProto_TYPE_INT32.Enum(), Label: descriptorpb.FieldDescriptorProto_LABEL_OPTIONAL.Enum(), JsonName: proto.String("a")},
			}}},
		}
		fd, err := protodesc.NewFile(fdp, protoregistry.GlobalFiles)
		if err != nil {
			return "newfile-err"
		}
		// the same op may be executed by several goroutines: exactly one registration must win
		e1 := protoregistry.GlobalFiles.RegisterFile(fd)
		e3 := protoregistry.GlobalTypes.RegisterMessage(dynamicpb.NewMessageType(fd.Messages().Get(0)))
		found, e2 := protoregistry.GlobalFiles.FindFileByPath(path)
		mt, e4 := protoregistry.GlobalTypes.FindMessageByName(fd.Messages().Get(0).FullName())
		ok := e1 == nil && e3 == nil && e2 == nil && e4 == nil && found != nil && found.Messages().Len() == 1 && mt != nil
		return digest(ok)
	}
	return "unknown-op"
}

type childResult struct {
	Digests map[int][]string // op index -> digests of all its executions
}

func TestFirstUseChild(t *testing.T) {
	pf := os.Getenv("VERIF_C19_PLAN")
	if pf == "" {
		t.Skip("not a child")
	}
	b, err := os.ReadFile(pf)
	if err != nil {
		t.Fatal(err)
	}
	var p plan
	if err := json.Unmarshal(b, &p); err != nil {
		t.Fatal(err)
	}
	msgs, enums, exts, files := names()
	res := childResult{Digests: map[int][]string{}}
	var mu sync.Mutex
	record := func(i int, d string) {
		mu.Lock()
		res.Digests[i] = append(res.Digests[i], d)
		mu.Unlock()
	}
	if os.Getenv("VERIF_C19_MODE") == "seq" {
		for i, o := range p.Ops {
			record(i, execOp(o, msgs, enums, exts, files))
		}
	} else {
		var start, wg sync.WaitGroup
		start.Add(1)
		for g := range p.Assign {
			wg.Add(1)
			go func(g int) {
				defer wg.Done()
				start.Wait()
				x := 0
				for i := 0; i < p.Delays[g%len(p.Delays)]; i++ {
					x += i
				}
				_ = x
				for _, oi := range p.Assign[g] {
					record(oi, execOp(p.Ops[oi], msgs, enums, exts, files))
				}
			}(g)
		}
		start.Done()
		wg.Wait()
	}
	out, _ := json.Marshal(res)
	fmt.Printf("\nC19RESULT %s\n", out)
}

// ---- parent side -----------------------------------------------------------------------------------

func runChild(planFile, mode string) (childResult, string, error) {
	cmd := exec.Command(os.Args[0], "-test.run", "^TestFirstUseChild$", "-test.timeout", "240s")
	cmd.Env = append(os.Environ(), "VERIF_C19_PLAN="+planFile, "VERIF_C19_MODE="+mode, "VERIF_PEER_MODE=1", "VERIF_OUT=", "VERIF_REPLAY=")
	var out bytes.Buffer
	cmd.Stdout, cmd.Stderr = &out, &out
	done := make(chan error, 1)
	if err := cmd.Start(); err != nil {
		return childResult{}, "", fmt.Errorf("harness: %v", err)
	}
	go func() { done <- cmd.Wait() }()
	var werr error
	select {
	case werr = <-done:
	case <-time.After(300 * time.Second):
		cmd.Process.Kill()
		<-done // the output buffer is only safe to read once the copying goroutines are finished
		// A time budget hit is inconclusive (the machine may simply be overloaded), never a verdict;
		// the output is kept in the message for manual triage of a possible deadlock.
		return childResult{}, "", fmt.Errorf("harness: child process produced no result within 300 s (overload or deadlock?):\n%s", tail(out.String(), 1500))
	}
	s := out.String()
	if strings.Contains(s, "WARNING: DATA RACE") {
		return childResult{}, s, fmt.Errorf("race detector report in the %s process:\n%s", mode, tail(s, 3000))
	}
	if werr != nil {
		if strings.Contains(s, "panic: test timed out") {
			// The child's own deadline fired. The goroutine dump decides: if every goroutine that was
			// executing an operation is parked on a lock, semaphore or channel, nothing could make
			// progress any more (deadlock: a violation). If any of them is running or runnable the
			// machine was merely too slow for the budget, which is inconclusive.
			if blocked, total := opGoroutines(s); total > 0 && blocked == total {
				return childResult{}, s, fmt.Errorf("%s process deadlocked: all %d goroutines executing operations are parked on locks\n%s", mode, total, deadlockSummary(s))
			}
			return childResult{}, s, fmt.Errorf("harness: %s process hit its 240 s deadline while still making progress (overload)", mode)
		}
		return childResult{}, s, fmt.Errorf("%s process failed: %v\n%s", mode, werr, tail(s, 3000))
	}
	i := strings.Index(s, "C19RESULT ")
	if i < 0 {
		return childResult{}, s, fmt.Errorf("%s process printed no result:\n%s", mode, tail(s, 2000))
	}
	line := s[i+len("C19RESULT "):]
	if j := strings.IndexByte(line, '\n'); j >= 0 {
		line = line[:j]
	}
	var r childResult
	if err := json.Unmarshal([]byte(line), &r); err != nil {
		return r, s, fmt.Errorf("harness: bad child result: %v", err)
	}
	return r, s, nil
}

// opGoroutines counts, in a Go goroutine dump, the goroutines whose stack contains execOp (or the
// sequential test body) and how many of them are parked in a blocking synchronisation state.
func opGoroutines(dump string) (blocked, total int) {
	for _, g := range strings.Split(dump, "\n\ngoroutine ")[1:] {
		if !strings.Contains(g, "c19.execOp") {
			continue
		}
		total++
		hdr := g
		if i := strings.IndexByte(g, '\n'); i >= 0 {
			hdr = g[:i]
		}
		for _, st := range []string{"Mutex", "semacquire", "chan ", "select", "sync.Cond", "sync.WaitGroup"} {
			if strings.Contains(hdr, st) {
				blocked++
				break
			}
		}
	}
	return
}

// deadlockSummary keeps, per parked goroutine, its header and the frames inside protobuf-go.
func deadlockSummary(dump string) string {
	var b strings.Builder
	for _, g := range strings.Split(dump, "\n\ngoroutine ")[1:] {
		if !strings.Contains(g, "c19.execOp") {
			continue
		}
		lines := strings.Split(g, "\n")
		fmt.Fprintf(&b, "goroutine %s\n", lines[0])
		for _, l := range lines[1:] {
			if strings.HasPrefix(l, "google.golang.org/protobuf/") && !strings.Contains(l, "zverif") {
				fmt.Fprintf(&b, "  %s\n", l)
			}
		}
		if b.Len() > 6000 {
			break
		}
	}
	return b.String()
}

func tail(s string, n int) string {
	if len(s) > n {
		return s[len(s)-n:]
	}
	return s
}

func checkPlan(p plan) error {
	dir, err := os.MkdirTemp("", "c19-")
	if err != nil {
		return fmt.Errorf("harness: %v", err)
	}
	defer os.RemoveAll(dir)
	pf := filepath.Join(dir, "plan.json")
	b, _ := json.Marshal(p)
	if err := os.WriteFile(pf, b, 0o644); err != nil {
		return fmt.Errorf("harness: %v", err)
	}
	seq, _, err := runChild(pf, "seq")
	if err != nil {
		return err
	}
	conc, _, err := runChild(pf, "conc")
	if err != nil {
		return err
	}
	for i, o := range p.Ops {
		want := seq.Digests[i]
		if len(want) != 1 {
			return fmt.Errorf("harness: sequential process ran op %d %d times", i, len(want))
		}
		if strings.HasPrefix(want[0], "PANIC") {
			return fmt.Errorf("op %d %+v panicked in the sequential process: %s", i, o, want[0])
		}
		for _, d := range conc.Digests[i] {
			if d != want[0] {
				return fmt.Errorf("op %d %+v: a goroutine of the concurrent process observed %s, the sequential process %s", i, o, d, want[0])
			}
		}
	}
	return nil
}

func TestFirstUse(t *testing.T) {
	kinds := []string{"walk", "walk", "walk", "codec", "codec", "jsontext", "enum", "ext", "find", "find", "register", "rangefiles", "aberrant"}
	pbt.Run(t, pbt.Prop[plan]{
		Name: "first-use",
		Rule: "plan: 20..120 first-use operations over all linked message/enum/extension types and files, distributed over 2..32 goroutines with every operation given to 1..4 goroutines, random pre-delays; executed in a fresh concurrent process and a fresh sequential process. non-trivial = at least one operation is executed by >= 2 goroutines (always true by construction; counted)",
		Draw: func(t *rapid.T) plan {
			var p plan
			n := rapid.IntRange(20, 120).Draw(t, "nops")
			// a few hot types used by many ops, so that several goroutines hit the same uninitialised type
			hot := rapid.SliceOfN(rapid.IntRange(0, 5000), 1, 6).Draw(t, "hot")
			for i := 0; i < n; i++ {
				o := op{Kind: rapid.SampledFrom(kinds).Draw(t, "kind")}
				if rapid.Bool().Draw(t, "hot?") {
					o.Idx = hot[rapid.IntRange(0, len(hot)-1).Draw(t, "hoti")]
				} else {
					o.Idx = rapid.IntRange(0, 5000).Draw(t, "idx")
				}
				p.Ops = append(p.Ops, o)
			}
			g := rapid.IntRange(2, 32).Draw(t, "goroutines")
			p.Assign = make([][]int, g)
			for i := range p.Ops {
				k := rapid.IntRange(1, 4).Draw(t, "copies")
				for j := 0; j < k; j++ {
					gi := rapid.IntRange(0, g-1).Draw(t, "g")
					p.Assign[gi] = append(p.Assign[gi], i)
				}
			}
			p.Delays = rapid.SliceOfN(rapid.IntRange(0, 20000), 1, 8).Draw(t, "delays")
			return p
		},
		Check:      checkPlan,
		NonTrivial: func(p plan) bool { return len(p.Assign) >= 2 },
		Classes: func(p plan) []string {
			return []string{fmt.Sprintf("goroutines-%d", (len(p.Assign)+7)/8*8)}
		},
		Quick: 12, Thorough: 120,
	})
}
