package c05

import (
	"bytes"
	"encoding/hex"
	"encoding/json"
	"fmt"
	"sync"
	"testing"

	"google.golang.org/protobuf/proto"
	"google.golang.org/protobuf/reflect/protoreflect"
	"google.golang.org/protobuf/zverif/gen"
	"google.golang.org/protobuf/zverif/mcase"
	"google.golang.org/protobuf/zverif/model"
	"google.golang.org/protobuf/zverif/pbt"
	"google.golang.org/protobuf/zverif/ref"
	"pgregory.net/rapid"
)

type detCase struct {
	mcase.Case
	Perm  *model.Msg // same content as M: fields and map entries in another order, at every depth
	Perm2 *model.Msg
}

var det = proto.MarshalOptions{Deterministic: true, AllowPartial: true}

func detBytes(m protoreflect.Message) ([]byte, error) { return det.Marshal(m.Interface()) }

// permute returns a deep copy with fields and map entries reordered by draws.
func permute(t *rapid.T, md protoreflect.MessageDescriptor, v *model.Msg) *model.Msg {
	out := &model.Msg{Unknown: v.Unknown}
	idx := rapid.Permutation(seq(len(v.Fields))).Draw(t, "fieldperm")
	for _, i := range idx {
		f := v.Fields[i]
		fd := model.FieldDesc(md, f.Num, nil)
		g := model.Field{Num: f.Num}
		sub := fd.Message()
		if fd.IsMap() {
			sub = fd.MapValue().Message()
			order := rapid.Permutation(seq(len(f.Keys))).Draw(t, "mapperm")
			for _, j := range order {
				g.Keys = append(g.Keys, f.Keys[j])
				g.Vals = append(g.Vals, f.Vals[j])
			}
		} else {
			g.Vals = append(g.Vals, f.Vals...)
		}
		if sub != nil {
			for j := range g.Vals {
				if g.Vals[j].M != nil {
					g.Vals[j] = model.Val{M: permute(t, sub, g.Vals[j].M)}
				}
			}
		}
		out.Fields = append(out.Fields, g)
	}
	return out
}

func seq(n int) []int {
	s := make([]int, n)
	for i := range s {
		s[i] = i
	}
	return s
}

var (
	peerOnce sync.Once
	peer     *pbt.PeerConn
	peerErr  error
)

type peerReq struct {
	Type    string
	Dynamic bool
	M       *model.Msg
}

func TestPeerServer(t *testing.T) {
	pbt.ServePeer(t, func(raw json.RawMessage) (any, error) {
		var r peerReq
		if err := json.Unmarshal(raw, &r); err != nil {
			return nil, err
		}
		m := mcase.New(r.Type, r.Dynamic)
		if err := model.Apply(m, r.M, nil); err != nil {
			return nil, err
		}
		b, err := detBytes(m)
		if err != nil {
			return nil, err
		}
		return hex.EncodeToString(b), nil
	})
}

func checkDet(c detCase) error {
	md := c.Desc()
	build := func(v *model.Msg) (protoreflect.Message, error) {
		m := mcase.New(c.Type, c.Dynamic)
		return m, model.Apply(m, v, nil)
	}
	m1, err := build(c.M)
	if err != nil {
		return err
	}
	want, err := detBytes(m1)
	if err != nil {
		return fmt.Errorf("deterministic Marshal failed: %v", err)
	}
	type real struct {
		name string
		m    protoreflect.Message
	}
	reals := []real{{"assignment order A", m1}}
	for i, p := range []*model.Msg{c.Perm, c.Perm2} {
		m, err := build(p)
		if err != nil {
			return err
		}
		reals = append(reals, real{fmt.Sprintf("assignment/map-insertion order %c", 'B'+i), m})
	}
	reals = append(reals, real{"proto.Clone", proto.Clone(m1.Interface()).ProtoReflect()})
	for _, lazy := range []bool{true, false} {
		m := mcase.New(c.Type, c.Dynamic)
		if err := (proto.UnmarshalOptions{AllowPartial: true, NoLazyDecoding: !lazy}).Unmarshal(c.Wire, m.Interface()); err != nil {
			return fmt.Errorf("Unmarshal(reference encoding) failed: %v", err)
		}
		reals = append(reals, real{fmt.Sprintf("decoded from perturbed encoding %v (lazy=%v)", c.Labels, lazy), m})
	}
	m := mcase.New(c.Type, c.Dynamic)
	if err := (proto.UnmarshalOptions{AllowPartial: true}).Unmarshal(want, m.Interface()); err != nil {
		return fmt.Errorf("Unmarshal(own deterministic output) failed: %v", err)
	}
	reals = append(reals, real{"decoded from own deterministic output", m})

	for _, r := range reals {
		for rep := 0; rep < 3; rep++ {
			got, err := detBytes(r.m)
			if err != nil {
				return fmt.Errorf("deterministic Marshal of %s failed: %v", r.name, err)
			}
			if !bytes.Equal(got, want) {
				return fmt.Errorf("deterministic bytes differ between %q and %q (repeat %d):\n %x\n %x", reals[0].name, r.name, rep, want, got)
			}
		}
		// converse: identical deterministic bytes => Equal, both ways
		if !proto.Equal(m1.Interface(), r.m.Interface()) || !proto.Equal(r.m.Interface(), m1.Interface()) {
			return fmt.Errorf("identical deterministic encodings but proto.Equal is false between %q and %q", reals[0].name, r.name)
		}
	}
	if err := checkOrder(md, want); err != nil {
		return err
	}
	// another OS process of the same binary
	peerOnce.Do(func() { peer, peerErr = pbt.StartPeer("") })
	if peerErr != nil {
		return fmt.Errorf("harness: cannot start peer: %v", peerErr)
	}
	var hx string
	if err := peer.Call(peerReq{Type: c.Type, Dynamic: c.Dynamic, M: c.Perm}, &hx); err != nil {
		return fmt.Errorf("peer process: %v", err)
	}
	if hx != hex.EncodeToString(want) {
		return fmt.Errorf("deterministic bytes differ between processes:\n %x\n %s", want, hx)
	}
	return nil
}

// checkOrder verifies, on the top level and recursively in length-delimited known message
// fields, that map entries appear in the documented key order.
func checkOrder(md protoreflect.MessageDescriptor, b []byte) error {
	recs, ok := ref.Split(b)
	if !ok {
		return fmt.Errorf("deterministic output is not a well-formed field sequence")
	}
	var prevNum int64 = -1
	var prevKey model.Val
	havePrev := false
	for _, r := range recs {
		fd := model.FieldDesc(md, int32(r.Num), nil)
		if fd == nil {
			havePrev = false
			continue
		}
		if fd.IsMap() && r.Typ == 2 {
			k, err := mapKey(fd.MapKey(), r.Payload())
			if err != nil {
				return err
			}
			if havePrev && prevNum == r.Num && !keyLess(fd.MapKey().Kind(), prevKey, k) {
				return fmt.Errorf("map field %s: entries not in ascending key order in deterministic output (%v then %v)", fd.FullName(), prevKey, k)
			}
			prevNum, prevKey, havePrev = r.Num, k, true
			if sub := fd.MapValue().Message(); sub != nil {
				es, _ := ref.Split(r.Payload())
				for _, e := range es {
					if e.Num == 2 && e.Typ == 2 {
						if err := checkOrder(sub, e.Payload()); err != nil {
							return err
						}
					}
				}
			}
			continue
		}
		havePrev = false
		if sub := fd.Message(); sub != nil {
			switch r.Typ {
			case 2:
				if err := checkOrder(sub, r.Payload()); err != nil {
					return err
				}
			case 3:
				body := r.Val[:len(r.Val)-ref.VarintLen(uint64(r.Num)<<3|4)]
				if err := checkOrder(sub, body); err != nil {
					return err
				}
			}
		}
	}
	return nil
}

func mapKey(kd protoreflect.FieldDescriptor, entry []byte) (model.Val, error) {
	es, ok := ref.Split(entry)
	if !ok {
		return model.Val{}, fmt.Errorf("malformed map entry in output")
	}
	var k model.Val
	for _, e := range es {
		if e.Num != 1 {
			continue
		}
		switch kd.Kind() {
		case protoreflect.StringKind:
			k = model.Val{B: e.Payload()}
		case protoreflect.Sint32Kind, protoreflect.Sint64Kind:
			u := e.VarintValue()
			k = model.Val{U: uint64(int64(u>>1) ^ -int64(u&1))}
		case protoreflect.Fixed32Kind:
			k = model.Val{U: uint64(le32(e.Val))}
		case protoreflect.Sfixed32Kind:
			k = model.Val{U: uint64(int64(int32(le32(e.Val))))}
		case protoreflect.Fixed64Kind, protoreflect.Sfixed64Kind:
			k = model.Val{U: le64(e.Val)}
		case protoreflect.Int32Kind:
			k = model.Val{U: uint64(int64(int32(e.VarintValue())))}
		case protoreflect.Uint32Kind:
			k = model.Val{U: uint64(uint32(e.VarintValue()))}
		default:
			k = model.Val{U: e.VarintValue()}
		}
	}
	return k, nil
}

func le32(b []byte) uint32 { return uint32(b[0]) | uint32(b[1])<<8 | uint32(b[2])<<16 | uint32(b[3])<<24 }
func le64(b []byte) uint64 { return uint64(le32(b)) | uint64(le32(b[4:]))<<32 }

func keyLess(k protoreflect.Kind, a, b model.Val) bool {
	switch k {
	case protoreflect.StringKind:
		return bytes.Compare(a.B, b.B) < 0
	case protoreflect.Int32Kind, protoreflect.Sint32Kind, protoreflect.Sfixed32Kind,
		protoreflect.Int64Kind, protoreflect.Sint64Kind, protoreflect.Sfixed64Kind:
		return int64(a.U) < int64(b.U)
	}
	return a.U < b.U
}

func maxMap(md protoreflect.MessageDescriptor, v *model.Msg) int {
	n := 0
	if v == nil {
		return 0
	}
	for _, f := range v.Fields {
		fd := model.FieldDesc(md, f.Num, nil)
		if fd == nil {
			continue
		}
		sub := fd.Message()
		if fd.IsMap() {
			sub = fd.MapValue().Message()
			if len(f.Keys) > n {
				n = len(f.Keys)
			}
		}
		if sub != nil {
			for _, x := range f.Vals {
				if k := maxMap(sub, x.M); k > n {
					n = k
				}
			}
		}
	}
	return n
}

func TestDeterministic(t *testing.T) {
	mo := gen.DefaultMsgOpts
	mo.MaxList = 6
	pbt.Run(t, pbt.Prop[detCase]{
		Name: "deterministic",
		Rule: "content from the descriptor-directed generator over all linked types (maps up to 6 entries of every key kind); realisations: three assignment/map-insertion orders, Clone, lazy and eager decode of a perturbed reference encoding, decode of own output, 3 repeated marshals each, a second OS process; non-trivial = a map with >= 3 entries or >= 2 extensions, or >= 4 populated fields",
		Draw: func(t *rapid.T) detCase {
			c := detCase{Case: mcase.Draw(t, nil, nil, mo, model.AllPerturbations)}
			c.Perm = permute(t, c.Desc(), c.M)
			c.Perm2 = permute(t, c.Desc(), c.M)
			return c
		},
		Check: checkDet,
		NonTrivial: func(c detCase) bool {
			ext := 0
			for _, f := range c.M.Fields {
				if fd := model.FieldDesc(c.Desc(), f.Num, nil); fd != nil && fd.IsExtension() {
					ext++
				}
			}
			return maxMap(c.Desc(), c.M) >= 3 || ext >= 2 || len(c.M.Fields) >= 4
		},
		Classes: func(c detCase) []string {
			cl := c.Classes()
			if maxMap(c.Desc(), c.M) >= 3 {
				cl = append(cl, "map>=3")
			}
			return cl
		},
		Quick: 10000, Thorough: 150000,
	})
}
