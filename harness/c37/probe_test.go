package c37

import (
	"testing"

	"google.golang.org/protobuf/internal/filedesc"
	"google.golang.org/protobuf/proto"
	"google.golang.org/protobuf/reflect/protodesc"
	"google.golang.org/protobuf/reflect/protoregistry"
	"google.golang.org/protobuf/types/descriptorpb"
)

func TestProbe(t *testing.T) {
	p := &descriptorpb.FileDescriptorProto{
		Name: proto.String("a.proto"), Package: proto.String("p"), Syntax: proto.String("editions"), Edition: descriptorpb.Edition_EDITION_2023.Enum(),
		EnumType: []*descriptorpb.EnumDescriptorProto{{Name: proto.String("E"),
			Options: &descriptorpb.EnumOptions{Features: &descriptorpb.FeatureSet{EnumType: descriptorpb.FeatureSet_CLOSED.Enum()}},
			Value:   []*descriptorpb.EnumValueDescriptorProto{{Name: proto.String("A"), Number: proto.Int32(1)}}}},
		MessageType: []*descriptorpb.DescriptorProto{{Name: proto.String("M"),
			ExtensionRange: []*descriptorpb.DescriptorProto_ExtensionRange{{Start: proto.Int32(10), End: proto.Int32(20)}},
			EnumType: []*descriptorpb.EnumDescriptorProto{{Name: proto.String("N"),
				Options: &descriptorpb.EnumOptions{Features: &descriptorpb.FeatureSet{EnumType: descriptorpb.FeatureSet_CLOSED.Enum()}},
				Value:   []*descriptorpb.EnumValueDescriptorProto{{Name: proto.String("B"), Number: proto.Int32(1)}}}},
		}},
		Extension: []*descriptorpb.FieldDescriptorProto{{Name: proto.String("x"), Number: proto.Int32(10), Label: descriptorpb.FieldDescriptorProto_LABEL_OPTIONAL.Enum(),
			Type: descriptorpb.FieldDescriptorProto_TYPE_MESSAGE.Enum(), TypeName: proto.String(".p.M"), Extendee: proto.String(".p.M"),
			Options: &descriptorpb.FieldOptions{Lazy: proto.Bool(true)}}},
	}
	f1, err := protodesc.NewFile(p, nil)
	if err != nil {
		t.Fatal(err)
	}
	b, _ := proto.Marshal(p)
	f2 := filedesc.Builder{RawDescriptor: b, FileRegistry: &protoregistry.Files{}}.Build().File
	t.Logf("protodesc: E closed=%v N closed=%v x lazy=%v", f1.Enums().Get(0).IsClosed(), f1.Messages().Get(0).Enums().Get(0).IsClosed(), f1.Extensions().Get(0).(interface{ IsLazy() bool }).IsLazy())
	t.Logf("builder  : E closed=%v N closed=%v x lazy=%v", f2.Enums().Get(0).IsClosed(), f2.Messages().Get(0).Enums().Get(0).IsClosed(), f2.Extensions().Get(0).(interface{ IsLazy() bool }).IsLazy())
}
