package c37

import (
	"testing"

	"google.golang.org/protobuf/reflect/protoreflect"
	"google.golang.org/protobuf/types/descriptorpb"
	"google.golang.org/protobuf/types/gofeaturespb"
	"google.golang.org/protobuf/encoding/prototext"
	"google.golang.org/protobuf/reflect/protoregistry"
)

func TestProbe(t *testing.T) {
	for _, md := range []protoreflect.MessageDescriptor{(&descriptorpb.FeatureSet{}).ProtoReflect().Descriptor(), (&gofeaturespb.GoFeatures{}).ProtoReflect().Descriptor()} {
		fs := md.Fields()
		for i := 0; i < fs.Len(); i++ {
			f := fs.Get(i)
			o := f.Options().(*descriptorpb.FieldOptions)
			t.Logf("%s=%d kind=%v targets=%v defaults=%v support=%v", f.Name(), f.Number(), f.Kind(), o.GetTargets(), prototext.MarshalOptions{}.Format(&descriptorpb.FieldOptions{EditionDefaults: o.GetEditionDefaults()}), o.GetFeatureSupport())
			if e := f.Enum(); e != nil {
				s := ""
				for j := 0; j < e.Values().Len(); j++ {
					s += string(e.Values().Get(j).Name()) + " "
				}
				t.Logf("   values: %s", s)
			}
		}
	}
	n := 0
	protoregistry.GlobalFiles.RangeFiles(func(fd protoreflect.FileDescriptor) bool { n++; return true })
	t.Logf("global files (without corpus): %d", n)
}
