package c37

import (
	"fmt"
	"strings"
	"sync"
	"testing"

	"google.golang.org/protobuf/internal/filedesc"
	"google.golang.org/protobuf/proto"
	"google.golang.org/protobuf/reflect/protodesc"
	"google.golang.org/protobuf/reflect/protoreflect"
	"google.golang.org/protobuf/reflect/protoregistry"
	"google.golang.org/protobuf/types/descriptorpb"
	_ "google.golang.org/protobuf/zverif/corpus"
	"google.golang.org/protobuf/zverif/descsnap"
	"google.golang.org/protobuf/zverif/pbt"
	"google.golang.org/protobuf/zverif/schema"
	"pgregory.net/rapid"
)

const (
	kfEnumFeatures = "KF-filedesc-enum-features"
	kfExtLazy      = "KF-protodesc-ext-lazy"
)

// compare requires the builder-made and the protodesc-made descriptor of the same descriptor
// proto p to answer every accessor alike, except for the registered findings (recognised by the
// exact accessor, declaration and pair of answers each finding predicts for p).
func compare(what string, p *descriptorpb.FileDescriptorProto, builder, pdesc descsnap.Snap) error {
	if len(descsnap.DiffKeys(builder, pdesc)) == 0 {
		return nil
	}
	rest, nEnum := descsnap.Without(builder, pdesc, descsnap.EnumFeatureDisagreements(p))
	if nEnum > 0 && !pbt.ExcludeKnown(kfEnumFeatures) {
		rest = descsnap.DiffKeys(builder, pdesc)
	}
	restSnapB, restSnapP := builder, pdesc
	if len(rest) > 0 {
		// second finding: filter on what is left
		exp := descsnap.ExtensionLazyDisagreements(p)
		want := map[string]descsnap.Expected{}
		for _, e := range exp {
			want[e.Key] = e
		}
		var rest2 []string
		nLazy := 0
		for _, k := range rest {
			if e, ok := want[k]; ok && builder[k] == e.Builder && pdesc[k] == e.Protodesc {
				nLazy++
				continue
			}
			rest2 = append(rest2, k)
		}
		if nLazy > 0 && pbt.ExcludeKnown(kfExtLazy) {
			rest = rest2
		}
	}
	if len(rest) > 0 {
		return fmt.Errorf("%s: filedesc.Builder and protodesc.NewFile disagree (left = builder): %s", what, descsnap.Describe(restSnapB, restSnapP, rest))
	}
	return nil
}

// snapshots takes the accessor snapshot of a freshly built (still lazy) builder file in the given
// order; the two-goroutine form walks it forwards and backwards at the same time.
func snapBoth(fd protoreflect.FileDescriptor, hint int) (fwd, rev descsnap.Snap) {
	var wg sync.WaitGroup
	wg.Add(2)
	go func() { defer wg.Done(); fwd = descsnap.Of(fd, descsnap.Opts{SizeHint: hint}) }()
	go func() { defer wg.Done(); rev = descsnap.Of(fd, descsnap.Opts{Reverse: true, SizeHint: hint}) }()
	wg.Wait()
	return
}

func build(raw []byte, reg interface {
	FindFileByPath(string) (protoreflect.FileDescriptor, error)
	FindDescriptorByName(protoreflect.FullName) (protoreflect.Descriptor, error)
	RegisterFile(protoreflect.FileDescriptor) error
}) (fd protoreflect.FileDescriptor, err error) {
	defer func() {
		if r := recover(); r != nil {
			err = fmt.Errorf("filedesc.Builder.Build panicked: %v", r)
		}
	}()
	return filedesc.Builder{RawDescriptor: raw, FileRegistry: reg}.Build().File, nil
}

// ---------------------------------------------------------------------------------------------
// (a) linked files

type linkedCase struct{ Path string }

var linked = func() map[string]protoreflect.FileDescriptor {
	m := map[string]protoreflect.FileDescriptor{}
	for _, fd := range descsnap.LinkedFiles() {
		m[fd.Path()] = fd
	}
	return m
}()

// globalDeps resolves dependencies from GlobalFiles and swallows the registration of the file being built.
type globalDeps struct{}

func (globalDeps) FindFileByPath(p string) (protoreflect.FileDescriptor, error) {
	return protoregistry.GlobalFiles.FindFileByPath(p)
}
func (globalDeps) FindDescriptorByName(n protoreflect.FullName) (protoreflect.Descriptor, error) {
	return protoregistry.GlobalFiles.FindDescriptorByName(n)
}
func (globalDeps) RegisterFile(protoreflect.FileDescriptor) error { return nil }

func checkLinked(c linkedCase) error {
	d := linked[c.Path]
	if d == nil {
		return fmt.Errorf("harness: %s is not linked in", c.Path)
	}
	p := protodesc.ToFileDescriptorProto(d)
	hint := descsnap.Hint(p)
	pd, err := protodesc.NewFile(p, protoregistry.GlobalFiles)
	if err != nil {
		return fmt.Errorf("protodesc.NewFile(%s): %v", c.Path, err)
	}
	sp := descsnap.Of(pd, descsnap.Opts{SizeHint: hint})
	// 1. the descriptor the generated code built at init time (index-based dependency resolution)
	if err := compare("linked descriptor of "+c.Path, p, descsnap.Of(d, descsnap.Opts{SizeHint: hint}), sp); err != nil {
		return err
	}
	// 2. the builder on the re-marshalled descriptor proto (name-based dependency resolution), lazy
	// initialisation triggered from the front, from the back, and from two goroutines at once
	inputs := map[string][]byte{}
	raw, err := proto.MarshalOptions{Deterministic: true}.Marshal(p)
	if err != nil {
		return fmt.Errorf("harness: %v", err)
	}
	inputs["re-marshalled descriptor"] = raw
	if emb := descsnap.EmbeddedRaw(d); emb != nil {
		inputs["embedded raw descriptor"] = emb // 3. the exact bytes protoc-gen-go embedded
	}
	for _, name := range []string{"re-marshalled descriptor", "embedded raw descriptor"} {
		raw, ok := inputs[name]
		if !ok {
			continue
		}
		b1, err := build(raw, globalDeps{})
		if err != nil {
			return fmt.Errorf("%s of %s: %v", name, c.Path, err)
		}
		if err := compare(name+" of "+c.Path+", forward walk", p, descsnap.Of(b1, descsnap.Opts{SizeHint: hint}), sp); err != nil {
			return err
		}
		b2, err := build(raw, globalDeps{})
		if err != nil {
			return err
		}
		if err := compare(name+" of "+c.Path+", reverse walk", p, descsnap.Of(b2, descsnap.Opts{Reverse: true, SizeHint: hint}), sp); err != nil {
			return err
		}
		b3, err := build(raw, globalDeps{})
		if err != nil {
			return err
		}
		f, r := snapBoth(b3, hint)
		if err := compare(name+" of "+c.Path+", concurrent forward walk", p, f, sp); err != nil {
			return err
		}
		if err := compare(name+" of "+c.Path+", concurrent reverse walk", p, r, sp); err != nil {
			return err
		}
	}
	return nil
}

func TestLinkedFiles(t *testing.T) {
	skipped := map[string]string{}
	n, withEmbedded := 0, 0
	pbt.Enumerate(t, "linked-files",
		"every file registered in protoregistry.GlobalFiles except those protodesc.NewFile cannot accept in this build (MessageSet-declaring files outside the protolegacy leg; files with unregistered imports): the init-time descriptor, a fresh Builder on the re-marshalled descriptor proto and on the embedded raw bytes (forward, reverse and concurrent walks) vs protodesc.NewFile; non-trivial = at least 3 of {extension, map, oneof, proto3 optional, default, editions feature, nesting >= 2, import}",
		true,
		func(yield func(linkedCase, bool) bool) {
			for i, fd := range descsnap.LinkedFiles() {
				if int64(i)%pbt.NShards != pbt.Shard {
					continue // thorough tier: the enumeration is split over the shards
				}
				if why := descsnap.OutOfDomain(fd); why != "" {
					skipped[fd.Path()] = why
					continue
				}
				if descsnap.LegacyLegOnly() && !descsnap.DeclaresMessageSet(fd) {
					continue
				}
				n++
				if descsnap.EmbeddedRaw(fd) != nil {
					withEmbedded++
				}
				rich := schema.Rich(schema.Constructs([]*descriptorpb.FileDescriptorProto{protodesc.ToFileDescriptorProto(fd)}))
				if !yield(linkedCase{Path: fd.Path()}, rich) {
					return
				}
			}
		}, checkLinked)
	pbt.S.SetExtra("linked_files_checked", n)
	pbt.S.SetExtra("linked_files_with_embedded_raw_descriptor", withEmbedded)
	pbt.S.SetExtra("linked_files_out_of_domain", skipped)
	if min := map[bool]int{false: 40, true: 5}[descsnap.LegacyLegOnly()]; pbt.NShards == 1 && n < min {
		t.Errorf("only %d linked files: the corpus is not linked in", n)
	}
}

// ---------------------------------------------------------------------------------------------
// (b) random schema sets

type schemaCase struct {
	Raw  [][]byte
	Text []string // for readers of replay files; not used by the check
}

func drawCase(o schema.Opts) func(t *rapid.T) schemaCase {
	return func(t *rapid.T) schemaCase {
		files := schema.Draw(t, o)
		return schemaCase{Raw: schema.Marshal(files), Text: schema.Text(files)}
	}
}

func checkSchema(c schemaCase) error {
	files, err := schema.Unmarshal(c.Raw)
	if err != nil {
		return fmt.Errorf("harness: %v", err)
	}
	// one registry per construction family, so that cross-file references of builder-made files lead
	// to builder-made files and those of protodesc-made files to protodesc-made files
	var regs [4]*protoregistry.Files // protodesc, builder forward, builder reverse, builder concurrent
	for i := range regs {
		if regs[i], err = schema.NewRegistry(files); err != nil {
			return fmt.Errorf("harness: %v", err)
		}
	}
	for i, p := range files {
		what := fmt.Sprintf("file %d (%s)", i, p.GetName())
		hint := descsnap.Hint(p)
		pd, err := protodesc.NewFile(p, regs[0])
		if err != nil {
			return fmt.Errorf("harness: protodesc.NewFile rejected %s: %v", what, err)
		}
		if err := regs[0].RegisterFile(pd); err != nil {
			return fmt.Errorf("harness: %v", err)
		}
		sp := descsnap.Of(pd, descsnap.Opts{SizeHint: hint})
		raw := c.Raw[i]
		b1, err := build(raw, regs[1])
		if err != nil {
			return fmt.Errorf("%s: %v", what, err)
		}
		if err := compare(what+", forward walk", p, descsnap.Of(b1, descsnap.Opts{SizeHint: hint}), sp); err != nil {
			return err
		}
		b2, err := build(raw, regs[2])
		if err != nil {
			return fmt.Errorf("%s: %v", what, err)
		}
		if err := compare(what+", reverse walk", p, descsnap.Of(b2, descsnap.Opts{Reverse: true, SizeHint: hint}), sp); err != nil {
			return err
		}
		b3, err := build(raw, regs[3])
		if err != nil {
			return fmt.Errorf("%s: %v", what, err)
		}
		f, r := snapBoth(b3, hint)
		if err := compare(what+", concurrent forward walk", p, f, sp); err != nil {
			return err
		}
		if err := compare(what+", concurrent reverse walk", p, r, sp); err != nil {
			return err
		}
		// and the builder's output converts back to the descriptor proto it was made from
		if diff := descsnap.ProtoDiff(protodesc.ToFileDescriptorProto(pd), protodesc.ToFileDescriptorProto(b1)); diff != "" {
			return fmt.Errorf("%s: ToFileDescriptorProto differs between protodesc- and builder-made descriptors (left = protodesc): %s", what, diff)
		}
	}
	return nil
}

func classes(c schemaCase) []string {
	files, err := schema.Unmarshal(c.Raw)
	if err != nil {
		return nil
	}
	var out []string
	for _, l := range schema.Constructs(files) {
		if strings.HasPrefix(l, "kind:") || strings.HasPrefix(l, "map-value:") || strings.HasPrefix(l, "extension-kind:") || strings.HasPrefix(l, "options:") {
			continue
		}
		out = append(out, l)
	}
	return out
}

func rich(c schemaCase) bool {
	files, err := schema.Unmarshal(c.Raw)
	return err == nil && schema.Rich(schema.Constructs(files))
}

const ruleRandom = "schema sets from the shared generator (harness/schema): 1-3 files with imports, all four syntaxes, nested messages, all field kinds, maps, groups / DELIMITED, oneofs, proto3 optional, extensions, services, reserved ranges, defaults of every kind, json_name, feature overrides at every allowed level, well-known imports, custom options and (pb.go) features, lazy; each file marshalled and given to filedesc.Builder (three fresh builds: forward walk, reverse walk, two goroutines) and to protodesc.NewFile; non-trivial = at least 3 of {extension, map, oneof, proto3 optional, default, editions feature, nesting >= 2, import}"

func TestRandom(t *testing.T) {
	pbt.Run(t, pbt.Prop[schemaCase]{
		Name:       "random",
		Rule:       ruleRandom,
		Draw:       drawCase(schema.Opts{WellKnown: true, Lazy: true}),
		Check:      checkSchema,
		NonTrivial: rich,
		Classes:    classes,
		Quick:      1800, Thorough: 12000,
	})
}

func TestRandomEditions(t *testing.T) {
	pbt.Run(t, pbt.Prop[schemaCase]{
		Name:       "random-editions",
		Rule:       ruleRandom + "; editions 2023 / 2024 files only (feature inheritance is where the two constructions have separate code)",
		Draw:       drawCase(schema.Opts{WellKnown: true, Lazy: true, Syntaxes: []string{"2023", "2024"}, MaxFiles: 2}),
		Check:      checkSchema,
		NonTrivial: rich,
		Classes:    classes,
		Quick:      1000, Thorough: 8000,
	})
}

func TestRandomBig(t *testing.T) {
	pbt.Run(t, pbt.Prop[schemaCase]{
		Name:       "random-big",
		Rule:       ruleRandom + "; larger closed sets (up to 4 files, 14 fields, depth 4, 6 ranges), adversarial identifier vocabulary",
		Draw:       drawCase(schema.Opts{MaxFiles: 4, MaxMessages: 6, MaxFields: 14, MaxDepth: 4, MaxEnums: 3, MaxValues: 9, MaxOneofs: 3, MaxExtensions: 6, MaxServices: 2, MaxRanges: 6, Lazy: true, AdversarialNames: true}),
		Check:      checkSchema,
		NonTrivial: rich,
		Classes:    classes,
		Quick:      150, Thorough: 1200,
	})
}

// ---------------------------------------------------------------------------------------------
// witnesses of the registered findings

func witnessFile() *descriptorpb.FileDescriptorProto {
	return &descriptorpb.FileDescriptorProto{
		Name: proto.String("witness.proto"), Package: proto.String("w"), Syntax: proto.String("editions"), Edition: descriptorpb.Edition_EDITION_2023.Enum(),
		EnumType: []*descriptorpb.EnumDescriptorProto{{Name: proto.String("E"),
			Options: &descriptorpb.EnumOptions{Features: &descriptorpb.FeatureSet{EnumType: descriptorpb.FeatureSet_CLOSED.Enum()}},
			Value:   []*descriptorpb.EnumValueDescriptorProto{{Name: proto.String("A"), Number: proto.Int32(1)}}}},
		MessageType: []*descriptorpb.DescriptorProto{{Name: proto.String("M"),
			ExtensionRange: []*descriptorpb.DescriptorProto_ExtensionRange{{Start: proto.Int32(10), End: proto.Int32(20)}}}},
		Extension: []*descriptorpb.FieldDescriptorProto{{Name: proto.String("x"), Number: proto.Int32(10), Label: descriptorpb.FieldDescriptorProto_LABEL_OPTIONAL.Enum(),
			Type: descriptorpb.FieldDescriptorProto_TYPE_MESSAGE.Enum(), TypeName: proto.String(".w.M"), Extendee: proto.String(".w.M"),
			Options: &descriptorpb.FieldOptions{Lazy: proto.Bool(true)}}},
	}
}

func TestWitnesses(t *testing.T) {
	p := witnessFile()
	pd, err := protodesc.NewFile(p, nil)
	if err != nil {
		t.Fatalf("NewFile: %v", err)
	}
	raw, _ := proto.Marshal(p)
	bd, err := build(raw, &protoregistry.Files{})
	if err != nil {
		t.Fatal(err)
	}
	// edition 2023 enum E { option features.enum_type = CLOSED; A = 1; }
	be, pe := bd.Enums().Get(0).IsClosed(), pd.Enums().Get(0).IsClosed()
	pbt.Witness(t, kfEnumFeatures, !be && pe, fmt.Sprintf("enum w.E sets features.enum_type = CLOSED in an edition 2023 file: Builder IsClosed()=%v, protodesc IsClosed()=%v", be, pe))
	// extend M { M x = 10 [lazy = true]; }
	lazy := func(fd protoreflect.FieldDescriptor) bool { return fd.(interface{ IsLazy() bool }).IsLazy() }
	bl, pl := lazy(bd.Extensions().Get(0)), lazy(pd.Extensions().Get(0))
	pbt.Witness(t, kfExtLazy, bl && !pl, fmt.Sprintf("extension w.x has [lazy = true]: Builder IsLazy()=%v, protodesc IsLazy()=%v", bl, pl))
}
