package c37

import (
	"encoding/json"
	"flag"
	"fmt"
	"os"
	"path/filepath"
	"runtime/debug"
	"sort"
	"strconv"
	"strings"
	"syscall"
	"testing"

	"google.golang.org/protobuf/encoding/prototext"
	"google.golang.org/protobuf/proto"
	"google.golang.org/protobuf/reflect/protodesc"
	"google.golang.org/protobuf/reflect/protoreflect"
	"google.golang.org/protobuf/reflect/protoregistry"
	"google.golang.org/protobuf/types/descriptorpb"
	"google.golang.org/protobuf/zverif/descsnap"
	"google.golang.org/protobuf/zverif/pbt"
	"google.golang.org/protobuf/zverif/schema"
	"pgregory.net/rapid"
)

// Native fuzz target (thorough tier; `go test -fuzz`): fuzzer-chosen BYTES (mutations of valid raw
// descriptors) are parsed with proto.Unmarshal — or, second argument, with prototext.Unmarshal: a
// surface without length prefixes, on which the mutator's insertions, deletions and splices keep the
// document parseable — as a FileDescriptorProto p. When protodesc.NewFile
// (linked files as resolver, imports must resolve) accepts p, p is a valid file, and the checks of
// checkLinked / checkSchema apply to it: filedesc.Builder, given the deterministic re-marshalling of
// p (a raw descriptor as a generator would embed it; the fuzzer's own bytes may encode p in ways no
// marshaller does), must build without panicking, must answer every accessor like the protodesc-made
// descriptor (forward walk, reverse walk, two goroutines; the registered findings are recognised
// by compare), and must convert back to the same descriptor proto. Inputs protodesc rejects (or
// panics on: C35's subject) are skipped.
type fzRaw struct {
	Raw    []byte
	AsText bool   `json:",omitempty"` // Raw is the text format of the descriptor proto (no length prefixes: insertions and deletions keep it parseable)
	Text   string `json:",omitempty"` // the parsed proto on one line (for the reader of a replay file)
}

// parse turns the fuzzer's bytes into a descriptor proto: wire format, or text format.
func (c fzRaw) parse() (*descriptorpb.FileDescriptorProto, bool) {
	p := &descriptorpb.FileDescriptorProto{}
	if c.AsText {
		if err := (prototext.UnmarshalOptions{AllowPartial: true}).Unmarshal(c.Raw, p); err != nil {
			return nil, false
		}
		return p, true
	}
	if err := (proto.UnmarshalOptions{AllowPartial: true}).Unmarshal(c.Raw, p); err != nil {
		return nil, false
	}
	return p, true
}

func newFileQuiet(p *descriptorpb.FileDescriptorProto) (fd protoreflect.FileDescriptor, err error) {
	defer func() {
		if r := recover(); r != nil {
			fd, err = nil, fmt.Errorf("panic: %v", r)
		}
	}()
	return protodesc.NewFile(p, protoregistry.GlobalFiles)
}

func checkFuzzBuilder(c fzRaw) error {
	p, ok := c.parse()
	if !ok {
		return nil
	}
	if why := outsideBuilderDomain(p); why != "" {
		return nil
	}
	pd, err := newFileQuiet(p)
	if err != nil {
		return nil
	}
	raw, err := proto.MarshalOptions{Deterministic: true, AllowPartial: true}.Marshal(p)
	if err != nil {
		return fmt.Errorf("harness: %v", err)
	}
	what := "file " + strconv.Quote(p.GetName())
	hint := descsnap.Hint(p)
	sp := descsnap.Of(pd, descsnap.Opts{SizeHint: hint})
	b1, err := build(raw, globalDeps{})
	if err != nil {
		return fmt.Errorf("%s: %v", what, err)
	}
	if err := compare(what+", forward walk", p, descsnap.Of(b1, descsnap.Opts{SizeHint: hint}), sp); err != nil {
		return err
	}
	b2, err := build(raw, globalDeps{})
	if err != nil {
		return fmt.Errorf("%s: %v", what, err)
	}
	if err := compare(what+", reverse walk", p, descsnap.Of(b2, descsnap.Opts{Reverse: true, SizeHint: hint}), sp); err != nil {
		return err
	}
	b3, err := build(raw, globalDeps{})
	if err != nil {
		return fmt.Errorf("%s: %v", what, err)
	}
	f, r := snapBoth(b3, hint)
	if err := compare(what+", concurrent forward walk", p, f, sp); err != nil {
		return err
	}
	if err := compare(what+", concurrent reverse walk", p, r, sp); err != nil {
		return err
	}
	if diff := descsnap.ProtoDiff(protodesc.ToFileDescriptorProto(pd), protodesc.ToFileDescriptorProto(b1)); diff != "" {
		return fmt.Errorf("%s: ToFileDescriptorProto differs between protodesc- and builder-made descriptors (left = protodesc): %s", what, diff)
	}
	return nil
}

// outsideBuilderDomain names the descriptor protos that protodesc.NewFile lets through although
// descriptor.proto itself calls them malformed; no compiler emits them, so they are not "files" in
// the sense of the property and the builder (which is specified for compiler output) is not judged
// on them:
//
//   - `edition` present although syntax is not "editions" (descriptor.proto, FileDescriptorProto.syntax:
//     "If `edition` is present, this value must be \"editions\""): NewFile ignores the edition of a
//     proto2/proto3 file, the builder takes it for the file's edition;
//   - a `features` option (at any level) in a proto2/proto3 file ("features are only valid under
//     editions": protoc rejects it, the builder panics with "invalid descriptor: using edition
//     features in a proto with syntax proto2", NewFile merges the features into the file);
//   - a FeatureSet with undeclared content (see featureSetWithUnknown);
//   - declarations without the members every compiler writes (see unshaped).
func outsideBuilderDomain(p *descriptorpb.FileDescriptorProto) string {
	if p.Edition != nil && p.GetSyntax() != "editions" {
		return "edition present without syntax \"editions\""
	}
	if p.GetSyntax() != "editions" && holdsFeatureSet(p.ProtoReflect()) {
		return "features in a proto2/proto3 file"
	}
	if featureSetWithUnknown(p.ProtoReflect(), false) {
		return "a FeatureSet holds fields its declaration does not know"
	}
	return unshaped(p)
}

// featureSetWithUnknown: the builder's FeatureSet reader knows the declared features and is
// deliberately strict about anything else (panic "unknown field number … while unmarshalling
// FeatureSet" / GoFeatures; records of other wire types are not skipped at all); NewFile ignores
// what it does not know. Feature sets with undeclared content are not compiler output for this
// version of descriptor.proto.
func featureSetWithUnknown(m protoreflect.Message, inFeatures bool) bool {
	if inFeatures && len(m.GetUnknown()) > 0 {
		return true
	}
	found := false
	m.Range(func(fd protoreflect.FieldDescriptor, v protoreflect.Value) bool {
		md := fd.Message()
		if md == nil || fd.IsMap() {
			return true
		}
		in := inFeatures || md.FullName() == "google.protobuf.FeatureSet"
		if fd.IsList() {
			for i := 0; i < v.List().Len() && !found; i++ {
				found = featureSetWithUnknown(v.List().Get(i).Message(), in)
			}
		} else {
			found = featureSetWithUnknown(v.Message(), in)
		}
		return !found
	})
	return found
}

// unshaped: a compiler always writes name, number, label and type of a field (and name / number of
// the other declarations) explicitly, and every type reference fully qualified. protodesc reads an absent label or type through the getters
// (label defaults to LABEL_OPTIONAL, the kind is then derived from type_name); the builder reads
// the wire and finds nothing.
func unshaped(p *descriptorpb.FileDescriptorProto) string {
	// (type names in compiler output are fully qualified, with a leading dot; NewFile also resolves
	// relative names by the scoping rules, the builder panics "name reference must be fully qualified")
	qualified := func(s *string) bool { return s == nil || strings.HasPrefix(*s, ".") }
	field := func(f *descriptorpb.FieldDescriptorProto) bool {
		return f.Name != nil && f.Number != nil && f.Label != nil && f.Type != nil && qualified(f.TypeName) && qualified(f.Extendee)
	}
	var enums func(es []*descriptorpb.EnumDescriptorProto) bool
	enums = func(es []*descriptorpb.EnumDescriptorProto) bool {
		for _, e := range es {
			if e.Name == nil {
				return false
			}
			for _, v := range e.Value {
				if v.Name == nil || v.Number == nil {
					return false
				}
			}
		}
		return true
	}
	var msgs func(ms []*descriptorpb.DescriptorProto) bool
	msgs = func(ms []*descriptorpb.DescriptorProto) bool {
		for _, m := range ms {
			if m.Name == nil || !enums(m.EnumType) || !msgs(m.NestedType) {
				return false
			}
			for _, f := range append(append([]*descriptorpb.FieldDescriptorProto{}, m.Field...), m.Extension...) {
				if !field(f) {
					return false
				}
			}
			for _, o := range m.OneofDecl {
				if o.Name == nil {
					return false
				}
			}
		}
		return true
	}
	ok := msgs(p.MessageType) && enums(p.EnumType)
	for _, f := range p.Extension {
		ok = ok && field(f)
	}
	for _, sv := range p.Service {
		ok = ok && sv.Name != nil
		for _, m := range sv.Method {
			ok = ok && m.Name != nil && m.InputType != nil && m.OutputType != nil && qualified(m.InputType) && qualified(m.OutputType)
		}
	}
	if !ok {
		return "a declaration lacks a member every compiler writes (name, number, label, type), or names a type without the leading dot"
	}
	return ""
}

// holdsFeatureSet reports whether a google.protobuf.FeatureSet field is populated anywhere in m.
func holdsFeatureSet(m protoreflect.Message) bool {
	found := false
	m.Range(func(fd protoreflect.FieldDescriptor, v protoreflect.Value) bool {
		md := fd.Message()
		if md == nil || fd.IsMap() {
			return true
		}
		if md.FullName() == "google.protobuf.FeatureSet" {
			found = true
			return false
		}
		if fd.IsList() {
			for i := 0; i < v.List().Len() && !found; i++ {
				found = holdsFeatureSet(v.List().Get(i).Message())
			}
		} else {
			found = holdsFeatureSet(v.Message())
		}
		return !found
	})
	return found
}

func fuzzRawSeeds() (out []fzRaw) {
	addRaw := func(b []byte) {
		if len(b) >= 6<<10 {
			return
		}
		out = append(out, fzRaw{Raw: b})
		p := &descriptorpb.FileDescriptorProto{}
		if proto.Unmarshal(b, p) == nil {
			if t, err := (prototext.MarshalOptions{}).Marshal(p); err == nil && len(t) < 12<<10 {
				out = append(out, fzRaw{Raw: t, AsText: true})
			}
		}
	}
	for _, fd := range descsnap.LinkedFiles() {
		if descsnap.OutOfDomain(fd) != "" {
			continue
		}
		if b, err := (proto.MarshalOptions{Deterministic: true}).Marshal(protodesc.ToFileDescriptorProto(fd)); err == nil {
			addRaw(b)
		}
		if emb := descsnap.EmbeddedRaw(fd); emb != nil && len(emb) < 3<<10 {
			out = append(out, fzRaw{Raw: emb})
		}
	}
	// single generated files of every syntax (imports: well-known files only)
	for k, syn := range []string{"proto2", "proto3", "2023", "2024"} {
		g := rapid.Custom(func(t *rapid.T) [][]byte {
			return schema.Marshal(schema.Draw(t, schema.Opts{MaxFiles: 1, MaxMessages: 3, MaxFields: 5, MaxDepth: 2, WellKnown: true, Lazy: true, Syntaxes: []string{syn}}))
		})
		for i := 0; i < 4; i++ {
			for _, b := range g.Example(k*10 + i) {
				addRaw(b)
			}
		}
	}
	if b, err := proto.Marshal(witnessFile()); err == nil {
		addRaw(b)
	}
	for _, p := range handMadeSeeds() {
		if b, err := proto.Marshal(p); err == nil {
			addRaw(b)
		}
	}
	sort.SliceStable(out, func(i, j int) bool { return len(out[i].Raw) < len(out[j].Raw) })
	return out
}

// ---------------------------------------------------------------------------------------------
// journal: a fault that kills the process (os.Exit in the library, fatal runtime error) leaves no
// chance to report. Every worker process keeps the case it is checking in its own journal file;
// the file is emptied when the check returns. When the fuzz coordinator (or any later process of
// the target) finds a non-empty journal whose process is gone, it turns it into a replay file.

type fuzzJournal struct {
	f    *os.File
	test string
}

func journalDir() string {
	return filepath.Join(pbt.VerifRoot, ".build", "fuzz-journal", pbt.PropertyID)
}

func openJournal(test string) *fuzzJournal {
	os.MkdirAll(journalDir(), 0o755)
	f, err := os.Create(filepath.Join(journalDir(), fmt.Sprintf("%s-%d.json", test, os.Getpid())))
	if err != nil {
		return &fuzzJournal{test: test}
	}
	return &fuzzJournal{f: f, test: test}
}

func (j *fuzzJournal) begin(c any) {
	if j.f == nil {
		return
	}
	b, err := json.Marshal(map[string]any{"property": pbt.PropertyID, "test": j.test, "error": "the process died while checking this case", "case": c})
	if err != nil {
		return
	}
	j.f.Truncate(0)
	j.f.WriteAt(b, 0)
}

func (j *fuzzJournal) end() {
	if j.f != nil {
		j.f.Truncate(0)
	}
}

func (j *fuzzJournal) close() {
	if j.f != nil {
		name := j.f.Name()
		j.f.Close()
		os.Remove(name)
	}
}

// collectJournals converts the journals of dead processes into replay files (VIOLATION line on stdout).
// inFuzzCoordinator: with -fuzz, the coordinating process replays the seed corpus itself before it
// starts the workers (which run every corpus entry again to gather coverage). A seed that kills
// the process would take the coordinator down and leave nothing but an exit status; the
// coordinator therefore leaves the execution to the workers, whose death it reports as a crasher.
func inFuzzCoordinator() bool {
	f, w := flag.Lookup("test.fuzz"), flag.Lookup("test.fuzzworker")
	return f != nil && f.Value.String() != "" && (w == nil || w.Value.String() != "true")
}

// seedJournal keeps the seed being replayed by TestFuzzSeeds where the driver looks for the case a
// dead shard was working on (journal-*.json in the run's output directory).
func seedJournal(test string, check func(fzRaw) error) (func(fzRaw) error, func()) {
	if pbt.OutDir == "" {
		return check, func() {}
	}
	os.MkdirAll(pbt.OutDir, 0o755)
	f, err := os.Create(filepath.Join(pbt.OutDir, fmt.Sprintf("journal-%s-%d.json", test, pbt.Shard)))
	if err != nil {
		return check, func() {}
	}
	return func(c fzRaw) error {
			if b, err := json.Marshal(map[string]any{"property": pbt.PropertyID, "test": test, "error": "the process died while checking this case", "case": c}); err == nil {
				f.Truncate(0)
				f.WriteAt(b, 0)
			}
			return check(c)
		}, func() {
			name := f.Name()
			f.Close()
			os.Remove(name)
		}
}

func collectJournals(test string) {
	files, _ := filepath.Glob(filepath.Join(journalDir(), test+"-*.json"))
	for _, p := range files {
		pid, err := strconv.Atoi(strings.TrimSuffix(strings.TrimPrefix(filepath.Base(p), test+"-"), ".json"))
		if err != nil || pid == os.Getpid() {
			continue
		}
		if proc, err := os.FindProcess(pid); err == nil && proc.Signal(syscall.Signal(0)) == nil {
			continue // still running
		}
		b, err := os.ReadFile(p)
		os.Remove(p)
		if err != nil || len(b) == 0 {
			continue
		}
		dir := filepath.Join(pbt.VerifRoot, "replays", pbt.PropertyID)
		os.MkdirAll(dir, 0o755)
		dst := filepath.Join(dir, "crash-"+filepath.Base(p))
		if os.WriteFile(dst, b, 0o644) == nil {
			fmt.Printf("VIOLATION property=%s replay=%s\n  check=%s error=the process died while checking this case\n", pbt.PropertyID, dst, test)
		}
	}
}

// reportOnce writes the replay file of a failing input; while the fuzzing engine minimises it, the
// check fails again and again with smaller inputs: only the latest replay file of this process is kept.
var lastReplay string

func reportOnce(test string, c any, err error) {
	n := len(pbt.S.Violation)
	pbt.ReportViolation(nil, test, c, err)
	if len(pbt.S.Violation) > n {
		cur := pbt.S.Violation[len(pbt.S.Violation)-1]
		if lastReplay != "" && lastReplay != cur {
			os.Remove(lastReplay)
		}
		lastReplay = cur
	}
}

// handMadeSeeds: small files with option spellings the linked files do not happen to contain
// (explicit packed = true / false against either default, lazy, deprecated, json_name, proto3 optional,
// per-field feature overrides).
func handMadeSeeds() []*descriptorpb.FileDescriptorProto {
	s, i32, b := proto.String, proto.Int32, proto.Bool
	rep, opt := descriptorpb.FieldDescriptorProto_LABEL_REPEATED.Enum, descriptorpb.FieldDescriptorProto_LABEL_OPTIONAL.Enum
	ti, ts, tm := descriptorpb.FieldDescriptorProto_TYPE_INT32.Enum, descriptorpb.FieldDescriptorProto_TYPE_STRING.Enum, descriptorpb.FieldDescriptorProto_TYPE_MESSAGE.Enum
	fields := func(pkg string) []*descriptorpb.FieldDescriptorProto {
		return []*descriptorpb.FieldDescriptorProto{
			{Name: s("p_true"), Number: i32(1), Label: rep(), Type: ti(), Options: &descriptorpb.FieldOptions{Packed: b(true)}},
			{Name: s("p_false"), Number: i32(2), Label: rep(), Type: ti(), Options: &descriptorpb.FieldOptions{Packed: b(false)}},
			{Name: s("p_default"), Number: i32(3), Label: rep(), Type: ti()},
			{Name: s("strs"), Number: i32(4), Label: rep(), Type: ts(), JsonName: s("STRS"), Options: &descriptorpb.FieldOptions{Deprecated: b(true)}},
			{Name: s("self"), Number: i32(5), Label: opt(), Type: tm(), TypeName: s("." + pkg + ".M"), Options: &descriptorpb.FieldOptions{Lazy: b(true)}},
			{Name: s("selves"), Number: i32(6), Label: rep(), Type: tm(), TypeName: s("." + pkg + ".M"), Options: &descriptorpb.FieldOptions{Lazy: b(false)}},
		}
	}
	p3 := &descriptorpb.FileDescriptorProto{Name: s("fz/p3.proto"), Package: s("fz.p3"), Syntax: s("proto3"),
		MessageType: []*descriptorpb.DescriptorProto{{Name: s("M"), Field: fields("fz.p3"), OneofDecl: []*descriptorpb.OneofDescriptorProto{{Name: s("_o")}}}}}
	p3.MessageType[0].Field = append(p3.MessageType[0].Field, &descriptorpb.FieldDescriptorProto{Name: s("o"), Number: i32(7), Label: opt(), Type: ti(), OneofIndex: i32(0), Proto3Optional: b(true)})
	p2 := &descriptorpb.FileDescriptorProto{Name: s("fz/p2.proto"), Package: s("fz.p2"),
		MessageType: []*descriptorpb.DescriptorProto{{Name: s("M"), Field: fields("fz.p2")}}}
	ed := &descriptorpb.FileDescriptorProto{Name: s("fz/ed.proto"), Package: s("fz.ed"), Syntax: s("editions"), Edition: descriptorpb.Edition_EDITION_2023.Enum(),
		MessageType: []*descriptorpb.DescriptorProto{{Name: s("M"), Field: []*descriptorpb.FieldDescriptorProto{
			{Name: s("expanded"), Number: i32(1), Label: rep(), Type: ti(), Options: &descriptorpb.FieldOptions{Features: &descriptorpb.FeatureSet{RepeatedFieldEncoding: descriptorpb.FeatureSet_EXPANDED.Enum()}}},
			{Name: s("implicit"), Number: i32(2), Label: opt(), Type: ts(), Options: &descriptorpb.FieldOptions{Features: &descriptorpb.FeatureSet{FieldPresence: descriptorpb.FeatureSet_IMPLICIT.Enum(), Utf8Validation: descriptorpb.FeatureSet_NONE.Enum()}}},
			{Name: s("delimited"), Number: i32(3), Label: opt(), Type: tm(), TypeName: s(".fz.ed.M"), Options: &descriptorpb.FieldOptions{Features: &descriptorpb.FeatureSet{MessageEncoding: descriptorpb.FeatureSet_DELIMITED.Enum()}}},
			{Name: s("required"), Number: i32(4), Label: opt(), Type: ti(), Options: &descriptorpb.FieldOptions{Features: &descriptorpb.FeatureSet{FieldPresence: descriptorpb.FeatureSet_LEGACY_REQUIRED.Enum()}}},
		}}},
		EnumType: []*descriptorpb.EnumDescriptorProto{{Name: s("E"), Options: &descriptorpb.EnumOptions{Features: &descriptorpb.FeatureSet{EnumType: descriptorpb.FeatureSet_CLOSED.Enum()}},
			Value: []*descriptorpb.EnumValueDescriptorProto{{Name: s("E_ONE"), Number: i32(1)}, {Name: s("E_NEG"), Number: i32(-1)}}}}}
	return []*descriptorpb.FileDescriptorProto{p3, p2, ed}
}

// TestFuzzSeeds registers the fuzz check for replay and runs the seed corpus in every tier.
func TestFuzzSeeds(t *testing.T) {
	check, done := seedJournal("fuzz-builder", checkFuzzBuilder)
	defer done()
	pbt.Enumerate(t, "fuzz-builder", "native fuzz target FuzzBuilder (thorough tier): fuzzer-chosen bytes parsed as a FileDescriptorProto; when protodesc.NewFile (linked files as resolver) accepts it, filedesc.Builder on its deterministic re-marshalling must build without panic and agree on every accessor (forward, reverse, concurrent walks) and on ToFileDescriptorProto; this sub-check replays the seed corpus (raw descriptors of the linked files below 6 KiB, embedded raw descriptors, generated single files of every syntax)", false,
		func(yield func(fzRaw, bool) bool) {
			for _, c := range fuzzRawSeeds() {
				if !yield(c, len(c.Raw) > 40) {
					return
				}
			}
		}, check)
}

func FuzzBuilder(f *testing.F) {
	const test = "fuzz-builder"
	for _, c := range fuzzRawSeeds() {
		f.Add(c.Raw, c.AsText)
	}
	j := openJournal(test)
	f.Cleanup(func() {
		j.close()
		collectJournals(test)
	})
	coordinator := inFuzzCoordinator()
	f.Fuzz(func(t *testing.T, raw []byte, asText bool) {
		if coordinator {
			return
		}
		if len(raw) > 1<<14 || !asText && len(raw) > 1<<13 {
			return
		}
		c := fzRaw{Raw: raw, AsText: asText}
		j.begin(c)
		err := func() (err error) {
			defer func() {
				if r := recover(); r != nil {
					err = fmt.Errorf("PANIC: %v\n%s", r, debug.Stack())
				}
			}()
			return checkFuzzBuilder(c)
		}()
		j.end()
		if err != nil && strings.HasPrefix(err.Error(), "harness:") {
			return
		}
		if err != nil {
			if p, ok := c.parse(); ok {
				c.Text = strings.Join(strings.Fields(fmt.Sprint(p)), " ")
				if len(c.Text) > 1500 {
					c.Text = c.Text[:1500] + "…"
				}
			}
			reportOnce(test, c, err)
			t.Fatal(err)
		}
	})
}
