package c35

import (
	"encoding/json"
	"flag"
	"fmt"
	"os"
	"path/filepath"
	"sort"
	"strconv"
	"strings"
	"sync"
	"syscall"
	"testing"

	"google.golang.org/protobuf/encoding/prototext"
	"google.golang.org/protobuf/proto"
	"google.golang.org/protobuf/reflect/protodesc"
	"google.golang.org/protobuf/reflect/protoreflect"
	"google.golang.org/protobuf/reflect/protoregistry"
	"google.golang.org/protobuf/types/descriptorpb"
	"google.golang.org/protobuf/zverif/descsnap"
	"google.golang.org/protobuf/zverif/pbt"
)

// Native fuzz target (thorough tier; `go test -fuzz`): fuzzer-chosen BYTES are parsed with
// proto.Unmarshal — or, second argument, with prototext.Unmarshal: a surface without length
// prefixes, on which insertions, deletions and splices of the mutator keep the document parseable —
// as a FileDescriptorProto (rejected bytes are skipped); the result — any
// descriptor proto whatsoever — goes through the totality half of the 'untargeted' check, with
// the linked files (protoregistry.GlobalFiles) as the resolver, under both AllowUnresolvable
// settings:
//
//   - protodesc.NewFile (GlobalFiles resolver, nil resolver) and NewFiles (the file plus the
//     descriptor protos of the registered files it imports, transitively) return: no panic, no
//     process exit (each input is journalled first), never a descriptor together with an error;
//   - whatever is accepted is walked accessor by accessor (forwards, backwards) and converted back
//     with ToFileDescriptorProto;
//   - accepted without AllowUnresolvable implies accepted with it, with the same accessor snapshot.
//
// Seeds: the raw descriptors of linked files (ToFileDescriptorProto of registry files, marshalled),
// small hand-made files of every syntax, and hostile variants of them.
type fzDesc struct {
	Raw    []byte
	AsText bool   `json:",omitempty"` // Raw is the text format of the descriptor proto (no length prefixes: insertions and deletions keep it parseable)
	Text   string `json:",omitempty"` // the parsed proto on one line (for the reader of a replay file)
}

// parse turns the fuzzer's bytes into a descriptor proto: wire format, or text format.
func (c fzDesc) parse() (*fdp, bool) {
	p := &fdp{}
	if c.AsText {
		if err := (prototext.UnmarshalOptions{AllowPartial: true}).Unmarshal(c.Raw, p); err != nil {
			return nil, false
		}
		return p, true
	}
	if err := (proto.UnmarshalOptions{AllowPartial: true}).Unmarshal(c.Raw, p); err != nil {
		return nil, false
	}
	return p, true
}

var (
	depProtoMu    sync.Mutex
	depProtoCache = map[string]*fdp{}
)

// importClosure returns the descriptor protos of the registered files p imports, transitively.
func importClosure(p *fdp) []*fdp {
	depProtoMu.Lock()
	defer depProtoMu.Unlock()
	var out []*fdp
	seen := map[string]bool{p.GetName(): true}
	var add func(path string)
	add = func(path string) {
		if seen[path] || len(out) > 40 {
			return
		}
		seen[path] = true
		dp, ok := depProtoCache[path]
		if !ok {
			if fd, err := protoregistry.GlobalFiles.FindFileByPath(path); err == nil {
				dp = protodesc.ToFileDescriptorProto(fd)
			}
			depProtoCache[path] = dp
		}
		if dp == nil {
			return
		}
		for _, d := range dp.GetDependency() {
			add(d)
		}
		out = append(out, dp)
	}
	for _, d := range p.GetDependency() {
		add(d)
	}
	return out
}

func checkFuzzDesc(c fzDesc) error {
	mut, ok := c.parse()
	if !ok {
		return nil // not a FileDescriptorProto
	}
	if hitsTestdataHook(mut) && pbt.ExcludeKnown(kfTestdataHook) {
		return nil
	}
	var accepted [2]bool
	var rejectedBy [2]string
	var snaps [2]descsnap.Snap
	for ai, allow := range []bool{false, true} {
		v := newFile(mut, protoregistry.GlobalFiles, allow)
		if v.panic != "" {
			return fmt.Errorf("NewFile (AllowUnresolvable=%v) panicked: %s", allow, v.panic)
		}
		if v.err == nil {
			if v.fd == nil {
				return fmt.Errorf("NewFile (AllowUnresolvable=%v) returned neither a descriptor nor an error", allow)
			}
			if p := walk(v.fd); p != "" {
				return fmt.Errorf("accessor walk of the file NewFile (AllowUnresolvable=%v) accepted panicked: %s", allow, p)
			}
			snaps[ai] = descsnap.Of(v.fd, descsnap.Opts{})
			accepted[ai] = true
		} else {
			if v.fd != nil {
				return fmt.Errorf("NewFile (AllowUnresolvable=%v) returned a descriptor together with the error %v", allow, v.err)
			}
			rejectedBy[ai] = errClass(v.err)
		}
		if v := newFile(mut, nil, allow); v.panic != "" {
			return fmt.Errorf("NewFile with a nil resolver (AllowUnresolvable=%v) panicked: %s", allow, v.panic)
		} else if v.err == nil {
			if v.fd == nil {
				return fmt.Errorf("NewFile with a nil resolver (AllowUnresolvable=%v) returned neither a descriptor nor an error", allow)
			}
			if p := walk(v.fd); p != "" {
				return fmt.Errorf("accessor walk of the file NewFile (nil resolver, AllowUnresolvable=%v) accepted panicked: %s", allow, p)
			}
		} else if v.fd != nil {
			return fmt.Errorf("NewFile with a nil resolver (AllowUnresolvable=%v) returned a descriptor together with the error %v", allow, v.err)
		}
		set := &descriptorpb.FileDescriptorSet{File: append(importClosure(mut), mut)}
		regs, err, pan := newFiles(set, allow)
		if pan != "" {
			return fmt.Errorf("NewFiles (AllowUnresolvable=%v) panicked: %s", allow, pan)
		}
		if err == nil {
			if regs == nil {
				return fmt.Errorf("NewFiles (AllowUnresolvable=%v) returned neither a registry nor an error", allow)
			}
			if p := walkAll(regs); p != "" {
				return fmt.Errorf("accessor walk after NewFiles (AllowUnresolvable=%v) panicked: %s", allow, p)
			}
		}
	}
	if accepted[0] && !accepted[1] {
		return fmt.Errorf("NewFile accepted the file, but rejected it with AllowUnresolvable (%s)", rejectedBy[1])
	}
	if accepted[0] && accepted[1] {
		if keys := descsnap.DiffKeys(snaps[0], snaps[1]); len(keys) > 0 {
			return fmt.Errorf("NewFile accepted the file; with AllowUnresolvable the descriptor differs (left = without): %s", descsnap.Describe(snaps[0], snaps[1], keys))
		}
	}
	return nil
}

// ---------------------------------------------------------------------------------------------
// seeds

func handMadeFiles() []*fdp {
	s := proto.String
	i32 := proto.Int32
	files := []*fdp{
		{Name: s("a.proto")},
		{Name: s("b.proto"), Package: s("fz.b"), Syntax: s("proto3"), MessageType: []*dp{victim("proto3", "fz.b.V")}},
		{Name: s("c.proto"), Package: s("fz.c"), Syntax: s("proto2"), MessageType: []*dp{victim("proto2", "fz.c.V")}},
		{Name: s("d.proto"), Package: s("fz.d"), Syntax: s("editions"), Edition: descriptorpb.Edition_EDITION_2023.Enum(), MessageType: []*dp{victim("editions", "fz.d.V")}},
		{Name: s("e.proto"), Package: s("fz.e"), Syntax: s("editions"), Edition: descriptorpb.Edition_EDITION_2024.Enum(), MessageType: []*dp{victim("editions", "fz.e.V")},
			Options: &descriptorpb.FileOptions{Features: &descriptorpb.FeatureSet{FieldPresence: descriptorpb.FeatureSet_IMPLICIT.Enum(), EnumType: descriptorpb.FeatureSet_CLOSED.Enum(), MessageEncoding: descriptorpb.FeatureSet_DELIMITED.Enum(), RepeatedFieldEncoding: descriptorpb.FeatureSet_EXPANDED.Enum(), Utf8Validation: descriptorpb.FeatureSet_NONE.Enum(), JsonFormat: descriptorpb.FeatureSet_LEGACY_BEST_EFFORT.Enum()}}},
		{Name: s("f.proto"), Package: s("fz.f"), Dependency: []string{"google/protobuf/descriptor.proto", "google/protobuf/any.proto"}, PublicDependency: []int32{1}, WeakDependency: []int32{0},
			MessageType: []*dp{{Name: s("M"), Field: []*fldp{
				{Name: s("any"), Number: i32(1), Label: lOpt(), Type: tMsg(), TypeName: s(".google.protobuf.Any")},
				{Name: s("opts"), Number: i32(2), Label: lRep(), Type: tMsg(), TypeName: s("google.protobuf.FieldOptions")},
				{Name: s("unresolved"), Number: i32(3), Label: lOpt(), TypeName: s(".no.such.Type")},
				{Name: s("dflt"), Number: i32(4), Label: lOpt(), Type: descriptorpb.FieldDescriptorProto_TYPE_BYTES.Enum(), DefaultValue: s("\\000\\377x")},
				{Name: s("flt"), Number: i32(5), Label: lOpt(), Type: descriptorpb.FieldDescriptorProto_TYPE_FLOAT.Enum(), DefaultValue: s("-inf"), JsonName: s("FLT")},
				{Name: s("enm"), Number: i32(6), Label: lOpt(), Type: tEnm(), TypeName: s(".google.protobuf.FieldDescriptorProto.Type"), DefaultValue: s("TYPE_GROUP")},
			}, ExtensionRange: []*descriptorpb.DescriptorProto_ExtensionRange{{Start: i32(100), End: i32(536870912)}},
				ReservedRange: []*descriptorpb.DescriptorProto_ReservedRange{{Start: i32(50), End: i32(60)}}, ReservedName: []string{"zzz"}}},
			Extension: []*fldp{
				{Name: s("fopt"), Number: i32(50000), Label: lOpt(), Type: tStr(), Extendee: s(".google.protobuf.FieldOptions")},
				{Name: s("mx"), Number: i32(100), Label: lRep(), Type: tI32(), Extendee: s(".fz.f.M"), Options: &descriptorpb.FieldOptions{Packed: proto.Bool(true)}},
			},
			Service: []*descriptorpb.ServiceDescriptorProto{{Name: s("S"), Method: []*descriptorpb.MethodDescriptorProto{{Name: s("Call"), InputType: s(".fz.f.M"), OutputType: s(".google.protobuf.Any"), ClientStreaming: proto.Bool(true)}}}}},
		{Name: s(testdataPrefix + "x.proto"), Syntax: s("editions"), Edition: descriptorpb.Edition_EDITION_2023.Enum()},
		{Name: s("g.proto"), Syntax: s("editions"), Edition: descriptorpb.Edition_EDITION_99999_TEST_ONLY.Enum()},
		{Name: s("h.proto"), Syntax: s("proto4")},
		{Name: s("google/protobuf/any.proto"), Package: s("google.protobuf"), Syntax: s("proto3"), MessageType: []*dp{{Name: s("Any")}}},
	}
	// the path prefix NewFile special-cases, with every kind of edition number
	for _, ed := range []int32{0, 1, 2, 900, 998, 999, 1000, 1001, 1002, 9999, 99997, 99998, 99999, 0x7fffffff, -1} {
		files = append(files, &fdp{Name: s(testdataPrefix + "e.proto"), Package: s("fz.t"), Syntax: s("editions"), Edition: descriptorpb.Edition(ed).Enum(),
			MessageType: []*dp{{Name: s("M"), Field: []*fldp{{Name: s("a"), Number: i32(1), Label: lOpt(), Type: tI32()}}}}})
	}
	// hostile variants of the proto2 victim file: one hostile string / number at a time
	base := files[2]
	for k, h := range hostileStrings {
		p := proto.Clone(base).(*fdp)
		m := p.MessageType[0]
		switch k % 8 {
		case 0:
			m.Field[0].Name = s(h)
		case 1:
			m.Field[5].TypeName = s(h)
		case 2:
			m.Field[1].DefaultValue = s(h)
		case 3:
			p.Package = s(h)
		case 4:
			m.Field[0].DefaultValue = s(h)
		case 5:
			p.Dependency = append(p.Dependency, h)
		case 6:
			m.Field[2].JsonName = s(h)
		default:
			m.NestedType[0].Name = s(h)
		}
		files = append(files, p)
	}
	for k, h := range hostileInts {
		p := proto.Clone(base).(*fdp)
		m := p.MessageType[0]
		n := int32(h)
		switch k % 6 {
		case 0:
			m.Field[0].Number = i32(n)
		case 1:
			m.ExtensionRange = append(m.ExtensionRange, &descriptorpb.DescriptorProto_ExtensionRange{Start: i32(n), End: i32(n + 1)})
		case 2:
			m.ReservedRange = append(m.ReservedRange, &descriptorpb.DescriptorProto_ReservedRange{Start: i32(n), End: i32(int32(h >> 3))})
		case 3:
			m.Field[3].OneofIndex = i32(n)
		case 4:
			m.EnumType[0].Value[0].Number = i32(n)
		default:
			p.PublicDependency = append(p.PublicDependency, n)
		}
		files = append(files, p)
	}
	for _, u := range hostileUnknown {
		p := proto.Clone(files[3]).(*fdp)
		p.Options = &descriptorpb.FileOptions{}
		p.Options.ProtoReflect().SetUnknown(u)
		p.MessageType[0].Field[0].Options = &descriptorpb.FieldOptions{}
		p.MessageType[0].Field[0].Options.ProtoReflect().SetUnknown(u)
		files = append(files, p)
	}
	return files
}

func fuzzDescSeeds() (out []fzDesc) {
	add := func(p *fdp) {
		if b, err := (proto.MarshalOptions{Deterministic: true, AllowPartial: true}).Marshal(p); err == nil && len(b) < 6<<10 {
			out = append(out, fzDesc{Raw: b})
			if t, err := (prototext.MarshalOptions{AllowPartial: true}).Marshal(p); err == nil && len(t) < 12<<10 {
				out = append(out, fzDesc{Raw: t, AsText: true})
			}
		}
	}
	var paths []string
	protoregistry.GlobalFiles.RangeFiles(func(fd protoreflect.FileDescriptor) bool {
		paths = append(paths, fd.Path())
		return true
	})
	sort.Strings(paths)
	for _, path := range paths {
		fd, _ := protoregistry.GlobalFiles.FindFileByPath(path)
		add(protodesc.ToFileDescriptorProto(fd))
	}
	for _, p := range handMadeFiles() {
		add(p)
	}
	return out
}

// ---------------------------------------------------------------------------------------------
// journal: a fault that kills the process (os.Exit in the library, fatal runtime error) leaves no
// chance to report. Every worker process keeps the case it is checking in its own journal file;
// the file is emptied when the check returns. When the fuzz coordinator (or any later process of
// the target) finds a non-empty journal whose process is gone, it turns it into a replay file.

type fuzzJournal struct {
	f    *os.File
	test string
}

func journalDir() string {
	return filepath.Join(pbt.VerifRoot, ".build", "fuzz-journal", pbt.PropertyID)
}

func openJournal(test string) *fuzzJournal {
	os.MkdirAll(journalDir(), 0o755)
	f, err := os.Create(filepath.Join(journalDir(), fmt.Sprintf("%s-%d.json", test, os.Getpid())))
	if err != nil {
		return &fuzzJournal{test: test}
	}
	return &fuzzJournal{f: f, test: test}
}

func (j *fuzzJournal) begin(c any) {
	if j.f == nil {
		return
	}
	b, err := json.Marshal(map[string]any{"property": pbt.PropertyID, "test": j.test, "error": "the process died while checking this case", "case": c})
	if err != nil {
		return
	}
	j.f.Truncate(0)
	j.f.WriteAt(b, 0)
}

func (j *fuzzJournal) end() {
	if j.f != nil {
		j.f.Truncate(0)
	}
}

func (j *fuzzJournal) close() {
	if j.f != nil {
		name := j.f.Name()
		j.f.Close()
		os.Remove(name)
	}
}

// collectJournals converts the journals of dead processes into replay files (VIOLATION line on stdout).
// inFuzzCoordinator: with -fuzz, the coordinating process replays the seed corpus itself before it
// starts the workers (which run every corpus entry again to gather coverage). A seed that kills
// the process would take the coordinator down and leave nothing but an exit status; the
// coordinator therefore leaves the execution to the workers, whose death it reports as a crasher.
func inFuzzCoordinator() bool {
	f, w := flag.Lookup("test.fuzz"), flag.Lookup("test.fuzzworker")
	return f != nil && f.Value.String() != "" && (w == nil || w.Value.String() != "true")
}

// seedJournal keeps the seed being replayed by TestFuzzSeeds where the driver looks for the case a
// dead shard was working on (journal-*.json in the run's output directory).
func seedJournal(test string, check func(fzDesc) error) (func(fzDesc) error, func()) {
	if pbt.OutDir == "" {
		return check, func() {}
	}
	os.MkdirAll(pbt.OutDir, 0o755)
	f, err := os.Create(filepath.Join(pbt.OutDir, fmt.Sprintf("journal-%s-%d.json", test, pbt.Shard)))
	if err != nil {
		return check, func() {}
	}
	return func(c fzDesc) error {
			if b, err := json.Marshal(map[string]any{"property": pbt.PropertyID, "test": test, "error": "the process died while checking this case", "case": c}); err == nil {
				f.Truncate(0)
				f.WriteAt(b, 0)
			}
			return check(c)
		}, func() {
			name := f.Name()
			f.Close()
			os.Remove(name)
		}
}

func collectJournals(test string) {
	files, _ := filepath.Glob(filepath.Join(journalDir(), test+"-*.json"))
	for _, p := range files {
		pid, err := strconv.Atoi(strings.TrimSuffix(strings.TrimPrefix(filepath.Base(p), test+"-"), ".json"))
		if err != nil || pid == os.Getpid() {
			continue
		}
		if proc, err := os.FindProcess(pid); err == nil && proc.Signal(syscall.Signal(0)) == nil {
			continue // still running
		}
		b, err := os.ReadFile(p)
		os.Remove(p)
		if err != nil || len(b) == 0 {
			continue
		}
		dir := filepath.Join(pbt.VerifRoot, "replays", pbt.PropertyID)
		os.MkdirAll(dir, 0o755)
		dst := filepath.Join(dir, "crash-"+filepath.Base(p))
		if os.WriteFile(dst, b, 0o644) == nil {
			fmt.Printf("VIOLATION property=%s replay=%s\n  check=%s error=the process died while checking this case\n", pbt.PropertyID, dst, test)
		}
	}
}

// TestFuzzSeeds registers the fuzz check for replay and runs the seed corpus in every tier.
func TestFuzzSeeds(t *testing.T) {
	check, done := seedJournal("fuzz-newfile", checkFuzzDesc)
	defer done()
	pbt.Enumerate(t, "fuzz-newfile", "native fuzz target FuzzNewFile (thorough tier): fuzzer-chosen bytes parsed as a FileDescriptorProto, then NewFile (linked files as resolver; nil resolver) / NewFiles under both AllowUnresolvable settings: no panic, never descriptor+error, accepted descriptors walked and converted back, strict acceptance implies loose acceptance with the same snapshot; this sub-check replays the seed corpus (raw descriptors of the linked files below 6 KiB, hand-made and hostile files)", false,
		func(yield func(fzDesc, bool) bool) {
			for i, c := range fuzzDescSeeds() {
				if !pbt.Thorough() && i%3 != 0 {
					continue // quick tier: a third of the corpus
				}
				if !yield(c, len(c.Raw) > 40) {
					return
				}
			}
		}, check)
}

func FuzzNewFile(f *testing.F) {
	const test = "fuzz-newfile"
	for _, c := range fuzzDescSeeds() {
		f.Add(c.Raw, c.AsText)
	}
	j := openJournal(test)
	f.Cleanup(func() {
		j.close()
		collectJournals(test)
	})
	coordinator := inFuzzCoordinator()
	f.Fuzz(func(t *testing.T, raw []byte, asText bool) {
		if coordinator {
			return
		}
		if len(raw) > 1<<14 || !asText && len(raw) > 1<<13 {
			return
		}
		c := fzDesc{Raw: raw, AsText: asText}
		j.begin(c)
		err := func() (err error) {
			defer func() {
				if r := recover(); r != nil {
					err = fmt.Errorf("PANIC: %v", r)
				}
			}()
			return checkFuzzDesc(c)
		}()
		j.end()
		if err != nil {
			if mut, ok := c.parse(); ok {
				c.Text = oneLine(mut)
			}
			reportOnce(test, c, err)
			t.Fatal(err)
		}
	})
}

// reportOnce writes the replay file of a failing input; while the fuzzing engine minimises it, the
// check fails again and again with smaller inputs: only the latest replay file of this process is kept.
var lastReplay string

func reportOnce(test string, c any, err error) {
	n := len(pbt.S.Violation)
	pbt.ReportViolation(nil, test, c, err)
	if len(pbt.S.Violation) > n {
		cur := pbt.S.Violation[len(pbt.S.Violation)-1]
		if lastReplay != "" && lastReplay != cur {
			os.Remove(lastReplay)
		}
		lastReplay = cur
	}
}
