package c35

import (
	"fmt"
	"math"
	"strings"
	"testing"

	"google.golang.org/protobuf/proto"
	"google.golang.org/protobuf/reflect/protoreflect"
	"google.golang.org/protobuf/reflect/protoregistry"
	"google.golang.org/protobuf/types/descriptorpb"
	"google.golang.org/protobuf/zverif/descsnap"
	"google.golang.org/protobuf/zverif/pbt"
	"google.golang.org/protobuf/zverif/schema"
	"pgregory.net/rapid"
)

// ---------------------------------------------------------------------------------------------
// (ii) untargeted hostile edits of the descriptor proto, through protoreflect so that every field of
// every message of descriptor.proto is reachable, including ones this file never names

const testdataPrefix = "cmd/protoc-gen-go/testdata/"

var hostileStrings = []string{
	"", ".", "..", "a..b", ".a", "a.", "1a", "é", "\x00", "\xff\xfe", "a b", " ", "*", "*.x", "a.*", "-", "_", "a/b", "a\nb",
	strings.Repeat("a", 3000), strings.Repeat("a.", 400) + "a",
	testdataPrefix + "x.proto", "google/protobuf/descriptor.proto", "google/protobuf/any.proto", depPath,
	"google.protobuf.FileOptions", ".google.protobuf.MessageOptions", ".google.protobuf.FieldOptions", ".c35dep.Msg", ".c35dep.Closed", ".c35dep.Extendable", "c35dep.Msg", "c35dep",
	"proto2", "proto3", "editions", "key", "value", "C35MEntry", "C35Enum", "c35_a", "C35_ZERO",
	"inf", "-inf", "nan", "-0", "1e400", "0x1p-3", "true", "false", "1", "0", "-1", "4294967296", "18446744073709551616", "\\377", "\\", "\\x", "\\777", "\\u00e9", "\"",
}

var hostileInts = []int64{0, 1, 2, 3, -1, -2, 100, 1000, 18999, 19000, 19999, 20000, maxNumber - 1, maxNumber, maxNumber + 1, maxNumber + 2, math.MaxInt32 - 1, math.MaxInt32, math.MinInt32, math.MinInt32 + 1,
	998, 999, 1001, 1002, 9999, 99999, math.MaxInt64, math.MinInt64, math.MaxUint32}

type site struct {
	m    protoreflect.Message
	fd   protoreflect.FieldDescriptor
	path string
	set  bool
}

func collectSites(m protoreflect.Message, path string, out *[]site) {
	fds := m.Descriptor().Fields()
	for i := 0; i < fds.Len(); i++ {
		fd := fds.Get(i)
		p := path + "." + string(fd.Name())
		*out = append(*out, site{m, fd, p, m.Has(fd)})
		if fd.Message() == nil || !m.Has(fd) {
			continue
		}
		if fd.IsList() {
			l := m.Get(fd).List()
			for j := 0; j < l.Len(); j++ {
				collectSites(l.Get(j).Message(), fmt.Sprintf("%s[%d]", p, j), out)
			}
		} else {
			collectSites(m.Get(fd).Message(), p, out)
		}
	}
}

// harvest gathers the strings and messages that occur anywhere in the set: material that makes an
// edit plausible (an existing name used a second time, a declaration copied to another place).
type harvest struct {
	strs []string
	msgs map[protoreflect.FullName][]protoreflect.Message
}

func (h *harvest) add(m protoreflect.Message) {
	h.msgs[m.Descriptor().FullName()] = append(h.msgs[m.Descriptor().FullName()], m)
	m.Range(func(fd protoreflect.FieldDescriptor, v protoreflect.Value) bool {
		switch {
		case fd.Message() != nil && fd.IsList():
			for j := 0; j < v.List().Len(); j++ {
				h.add(v.List().Get(j).Message())
			}
		case fd.Message() != nil:
			h.add(v.Message())
		case fd.Kind() == protoreflect.StringKind && fd.IsList():
			for j := 0; j < v.List().Len(); j++ {
				h.strs = append(h.strs, v.List().Get(j).String())
			}
		case fd.Kind() == protoreflect.StringKind:
			h.strs = append(h.strs, v.String())
		}
		return true
	})
}

func drawScalar(t *rapid.T, fd protoreflect.FieldDescriptor, h *harvest) protoreflect.Value {
	n := func(lo, hi int, l string) int { return rapid.IntRange(lo, hi).Draw(t, l) }
	hi := hostileInts[n(0, len(hostileInts)-1, "int")]
	switch fd.Kind() {
	case protoreflect.BoolKind:
		return protoreflect.ValueOfBool(n(0, 1, "bool") == 1)
	case protoreflect.EnumKind:
		vals := fd.Enum().Values()
		if k := n(0, vals.Len()+3, "enum"); k < vals.Len() {
			return protoreflect.ValueOfEnum(vals.Get(k).Number())
		}
		return protoreflect.ValueOfEnum(protoreflect.EnumNumber(int32(hi)))
	case protoreflect.Int32Kind, protoreflect.Sint32Kind, protoreflect.Sfixed32Kind:
		return protoreflect.ValueOfInt32(int32(hi))
	case protoreflect.Int64Kind, protoreflect.Sint64Kind, protoreflect.Sfixed64Kind:
		return protoreflect.ValueOfInt64(hi)
	case protoreflect.Uint32Kind, protoreflect.Fixed32Kind:
		return protoreflect.ValueOfUint32(uint32(hi))
	case protoreflect.Uint64Kind, protoreflect.Fixed64Kind:
		return protoreflect.ValueOfUint64(uint64(hi))
	case protoreflect.FloatKind:
		return protoreflect.ValueOfFloat32(float32(hi))
	case protoreflect.DoubleKind:
		return protoreflect.ValueOfFloat64(float64(hi))
	case protoreflect.BytesKind:
		return protoreflect.ValueOfBytes([]byte(hostileStrings[n(0, len(hostileStrings)-1, "bytes")]))
	case protoreflect.StringKind:
		var s string
		if len(h.strs) > 0 && n(0, 3, "harvested") != 0 {
			s = h.strs[n(0, len(h.strs)-1, "str")]
			switch n(0, 3, "variant") {
			case 1:
				s = strings.TrimPrefix(s, ".")
			case 2:
				s = "." + s
			case 3:
				s = strings.ToLower(s)
			}
		} else {
			s = hostileStrings[n(0, len(hostileStrings)-1, "hostile")]
		}
		return protoreflect.ValueOfString(s)
	}
	panic("harness: kind " + fd.Kind().String())
}

// hostileUnknown is raw wire data to plant as unknown fields: well-formed records with numbers an
// options message may know as extensions (1000 … 1002 = pb.go features), nested garbage, truncated data.
var hostileUnknown = [][]byte{
	{0xc0, 0x3e, 0x01},                         // 1000: varint 1
	{0xd2, 0x3e, 0x02, 0x08, 0x01},             // 1002 (pb.go): {1: 1}
	{0xd2, 0x3e, 0x02, 0x18, 0x7f},             // 1002: {3: 127}
	{0xd2, 0x3e, 0x04, 0x10, 0xff, 0xff, 0x03}, // 1002: {2: 65535}
	{0xd0, 0x3e, 0x01},                         // 1002 with the wrong wire type
	{0xaa, 0x01, 0x02, 0x08, 0x09},             // 21 (features): {1: 9}
	{0x08, 0x96, 0x01},                         // 1: varint
	{0xfa, 0xff, 0xff, 0xff, 0x0f, 0x01, 0x00}, // 2^29-1: bytes
}

// edit applies one random edit to the file and describes it.
func edit(t *rapid.T, root *fdp, h *harvest) string {
	n := func(lo, hi int, l string) int { return rapid.IntRange(lo, hi).Draw(t, l) }
	var sites []site
	collectSites(root.ProtoReflect(), "file", &sites)
	var populated []site
	for _, s := range sites {
		if s.set && s.fd.Name() != "source_code_info" {
			populated = append(populated, s)
		}
	}
	var s site
	for try := 0; try < 2; try++ {
		if len(populated) > 0 && n(0, 3, "populated") != 0 {
			s = populated[n(0, len(populated)-1, "site")]
		} else {
			s = sites[n(0, len(sites)-1, "site")]
		}
		// the handful of file-level scalars (name, package, syntax, edition) would otherwise end most cases early
		if s.m != root.ProtoReflect() || s.fd.Message() != nil || s.fd.IsList() || n(0, 2, "file-level") == 0 {
			break
		}
	}
	m, fd := s.m, s.fd
	switch {
	case n(0, 24, "unknown") == 0:
		raw := hostileUnknown[n(0, len(hostileUnknown)-1, "raw")]
		m.SetUnknown(append(append(protoreflect.RawFields{}, m.GetUnknown()...), raw...))
		return fmt.Sprintf("unknown bytes %x on the message holding %s", raw, s.path)
	case fd.IsList():
		l := m.Mutable(fd).List()
		k := n(0, 5, "listop")
		if l.Len() == 0 {
			k = 0
		}
		clone := func(v protoreflect.Value) protoreflect.Value {
			if fd.Message() != nil {
				return protoreflect.ValueOfMessage(proto.Clone(v.Message().Interface()).ProtoReflect())
			}
			return v
		}
		switch k {
		case 0: // append something new: an empty element, a hostile scalar, or a copy of a declaration from elsewhere
			if fd.Message() != nil {
				pool := h.msgs[fd.Message().FullName()]
				if len(pool) > 0 && n(0, 2, "copy") != 0 {
					l.Append(clone(protoreflect.ValueOfMessage(pool[n(0, len(pool)-1, "from")])))
					return "append to " + s.path + " a copy of a declaration from elsewhere"
				}
				l.Append(l.NewElement())
				return "append an empty element to " + s.path
			}
			v := drawScalar(t, fd, h)
			l.Append(v)
			return fmt.Sprintf("append %q to %s", fmt.Sprint(v.Interface()), s.path)
		case 1: // duplicate an element
			i := n(0, l.Len()-1, "i")
			l.Append(clone(l.Get(i)))
			return fmt.Sprintf("duplicate %s[%d]", s.path, i)
		case 2: // drop an element
			i := n(0, l.Len()-1, "i")
			var keep []protoreflect.Value
			for j := 0; j < l.Len(); j++ {
				if j != i {
					keep = append(keep, clone(l.Get(j)))
				}
			}
			l.Truncate(0)
			for _, v := range keep {
				l.Append(v)
			}
			return fmt.Sprintf("drop %s[%d]", s.path, i)
		case 3: // swap two elements
			i, j := n(0, l.Len()-1, "i"), n(0, l.Len()-1, "j")
			a, b := clone(l.Get(i)), clone(l.Get(j))
			l.Set(i, b)
			l.Set(j, a)
			return fmt.Sprintf("swap %s[%d] and [%d]", s.path, i, j)
		case 4: // clear the list
			m.Clear(fd)
			return "clear " + s.path
		default: // overwrite an element
			i := n(0, l.Len()-1, "i")
			if fd.Message() != nil {
				l.Set(i, l.NewElement())
				return fmt.Sprintf("empty %s[%d]", s.path, i)
			}
			v := drawScalar(t, fd, h)
			l.Set(i, v)
			return fmt.Sprintf("set %s[%d] = %q", s.path, i, fmt.Sprint(v.Interface()))
		}
	case fd.Message() != nil:
		switch k := n(0, 2, "msgop"); {
		case k == 0 && m.Has(fd):
			m.Clear(fd)
			return "clear " + s.path
		case k == 1:
			m.Set(fd, protoreflect.ValueOfMessage(m.NewField(fd).Message()))
			return "set " + s.path + " to an empty message"
		default:
			pool := h.msgs[fd.Message().FullName()]
			if len(pool) == 0 {
				m.Set(fd, protoreflect.ValueOfMessage(m.NewField(fd).Message()))
				return "set " + s.path + " to an empty message"
			}
			m.Set(fd, protoreflect.ValueOfMessage(proto.Clone(pool[n(0, len(pool)-1, "from")].Interface()).ProtoReflect()))
			return "set " + s.path + " to a copy from elsewhere"
		}
	default:
		if m.Has(fd) && n(0, 4, "clear") == 0 {
			m.Clear(fd)
			return "clear " + s.path
		}
		v := drawScalar(t, fd, h)
		m.Set(fd, v)
		txt := fmt.Sprint(v.Interface())
		if len(txt) > 60 {
			txt = txt[:60] + "…"
		}
		return fmt.Sprintf("set %s = %q", s.path, txt)
	}
}

type untargetedCase struct {
	Raw    [][]byte // the valid base set (dependency file first)
	Target int
	Mutant []byte
	Edits  []string
	Text   string // the mutated file, for readers
}

var untargetedOpts = schema.Opts{MaxFiles: 2, MaxMessages: 3, MaxFields: 5, MaxDepth: 2, MaxRanges: 3, WellKnown: true, Lazy: true}

func drawUntargeted(t *rapid.T) untargetedCase {
	set, target := drawBase(t, nil, false, untargetedOpts)
	c := untargetedCase{Raw: schema.Marshal(set), Target: target}
	mut := proto.Clone(set[target]).(*fdp)
	h := &harvest{msgs: map[protoreflect.FullName][]protoreflect.Message{}}
	for _, f := range set {
		h.add(f.ProtoReflect())
	}
	for i, k := 0, rapid.IntRange(1, 5).Draw(t, "edits"); i < k; i++ {
		c.Edits = append(c.Edits, edit(t, mut, h))
	}
	// an edit may leave a required field of descriptor.proto unset (UninterpretedOption.NamePart)
	b, err := proto.MarshalOptions{Deterministic: true, AllowPartial: true}.Marshal(mut)
	if err != nil {
		t.Fatalf("harness: %v", err)
	}
	c.Mutant = append([]byte{}, b...)
	c.Text = oneLine(mut)
	return c
}

// hitsTestdataHook recognises exactly the inputs of KF-protodesc-testdata-edition-crash: New skips the
// "edition not supported" error for paths under cmd/protoc-gen-go/testdata/ and then asks for the
// feature defaults of an edition it has none for (panic in toEditionProto, os.Exit(1) for EDITION_UNKNOWN).
func hitsTestdataHook(p *fdp) bool {
	if p.GetSyntax() != "editions" || !strings.HasPrefix(p.GetName(), testdataPrefix) {
		return false
	}
	switch p.GetEdition() {
	case descriptorpb.Edition_EDITION_PROTO2, descriptorpb.Edition_EDITION_PROTO3, descriptorpb.Edition_EDITION_2023, descriptorpb.Edition_EDITION_2024, descriptorpb.Edition_EDITION_UNSTABLE:
		return false
	}
	return true
}

const kfTestdataHook = "KF-protodesc-testdata-edition-crash"

var lastUntargeted struct {
	mutant          string
	strict, loose   bool
	rejectedBy      string
	looseRejectedBy string
}

func errClass(err error) string {
	s := strings.TrimPrefix(err.Error(), "proto:")
	var b strings.Builder
	words := 0
	inQuote := false
	for _, w := range strings.Fields(s) {
		if strings.HasPrefix(w, "\"") {
			inQuote = !strings.HasSuffix(w, "\"") || len(w) == 1
			continue
		}
		if inQuote {
			inQuote = !strings.HasSuffix(w, "\"") && !strings.HasSuffix(w, "\":")
			continue
		}
		if strings.TrimFunc(w, func(r rune) bool { return r >= 'a' && r <= 'z' || r >= 'A' && r <= 'Z' || r == ':' || r == ',' }) != "" {
			continue
		}
		b.WriteString(strings.Trim(w, ":,"))
		b.WriteByte(' ')
		if words++; words == 5 {
			break
		}
	}
	return strings.TrimSpace(b.String())
}

func checkUntargeted(c untargetedCase) error {
	set, err := schema.Unmarshal(c.Raw)
	if err != nil {
		return fmt.Errorf("harness: %v", err)
	}
	mut := &fdp{}
	if err := (proto.UnmarshalOptions{AllowPartial: true}).Unmarshal(c.Mutant, mut); err != nil {
		return fmt.Errorf("harness: %v", err)
	}
	if hitsTestdataHook(mut) && pbt.ExcludeKnown(kfTestdataHook) {
		return nil
	}
	lastUntargeted.mutant = string(c.Mutant)
	lastUntargeted.strict, lastUntargeted.loose, lastUntargeted.rejectedBy, lastUntargeted.looseRejectedBy = false, false, "", ""
	var snaps [2]descsnap.Snap
	for ai, allow := range []bool{false, true} {
		reg, err := registryBefore(set, c.Target)
		if err != nil {
			return fmt.Errorf("harness: %v", err)
		}
		v := newFile(mut, reg, allow)
		if v.panic != "" {
			return fmt.Errorf("NewFile (AllowUnresolvable=%v) panicked: %s", allow, v.panic)
		}
		if v.err == nil {
			if v.fd == nil {
				return fmt.Errorf("NewFile (AllowUnresolvable=%v) returned neither a descriptor nor an error", allow)
			}
			if p := walk(v.fd); p != "" {
				return fmt.Errorf("accessor walk of the file NewFile (AllowUnresolvable=%v) accepted panicked: %s", allow, p)
			}
			snaps[ai] = descsnap.Of(v.fd, descsnap.Opts{})
			// the files after it are built against whatever came out
			if reg.RegisterFile(v.fd) == nil {
				for i := c.Target + 1; i < len(set); i++ {
					w := newFile(set[i], reg, allow)
					if w.panic != "" {
						return fmt.Errorf("NewFile (AllowUnresolvable=%v) of the later file %s panicked: %s", allow, set[i].GetName(), w.panic)
					}
					if w.err != nil {
						break
					}
					if p := walk(w.fd); p != "" {
						return fmt.Errorf("accessor walk of the later file %s panicked: %s", set[i].GetName(), p)
					}
					if reg.RegisterFile(w.fd) != nil {
						break
					}
				}
			}
		} else if v.fd != nil {
			return fmt.Errorf("NewFile (AllowUnresolvable=%v) returned a descriptor together with the error %v", allow, v.err)
		}
		if allow {
			lastUntargeted.loose = v.err == nil
			if v.err != nil {
				lastUntargeted.looseRejectedBy = errClass(v.err)
			}
		} else {
			lastUntargeted.strict = v.err == nil
			if v.err != nil {
				lastUntargeted.rejectedBy = errClass(v.err)
			}
		}
		// nil resolver
		if v := newFile(mut, nil, allow); v.panic != "" {
			return fmt.Errorf("NewFile with a nil resolver (AllowUnresolvable=%v) panicked: %s", allow, v.panic)
		} else if v.err == nil {
			if p := walk(v.fd); p != "" {
				return fmt.Errorf("accessor walk of the file NewFile (nil resolver, AllowUnresolvable=%v) accepted panicked: %s", allow, p)
			}
		}
		// as a set (with the descriptor protos of the well-known imports)
		regs, err, pan := newFiles(asSet(set, c.Target, mut), allow)
		if pan != "" {
			return fmt.Errorf("NewFiles (AllowUnresolvable=%v) panicked: %s", allow, pan)
		}
		if err == nil {
			if p := walkAll(regs); p != "" {
				return fmt.Errorf("accessor walk after NewFiles (AllowUnresolvable=%v) panicked: %s", allow, p)
			}
		}
	}
	// AllowUnresolvable only adds placeholders for what cannot be found: a file accepted without it
	// is accepted with it, and nothing in it needed a placeholder
	if lastUntargeted.strict && !lastUntargeted.loose {
		return fmt.Errorf("NewFile accepted the file, but rejected it with AllowUnresolvable (%s)", lastUntargeted.looseRejectedBy)
	}
	if lastUntargeted.strict && lastUntargeted.loose {
		if keys := descsnap.DiffKeys(snaps[0], snaps[1]); len(keys) > 0 {
			return fmt.Errorf("NewFile accepted the file; with AllowUnresolvable the descriptor differs (left = without): %s", descsnap.Describe(snaps[0], snaps[1], keys))
		}
	}
	return nil
}

func classesUntargeted(c untargetedCase) []string {
	out := []string{fmt.Sprintf("edits:%d", len(c.Edits))}
	for _, e := range c.Edits {
		out = append(out, "edit:"+strings.Fields(e)[0])
	}
	if lastUntargeted.mutant == string(c.Mutant) {
		switch {
		case lastUntargeted.strict:
			out = append(out, "verdict:accepted")
		case lastUntargeted.loose:
			out = append(out, "verdict:accepted-only-with-AllowUnresolvable")
		default:
			out = append(out, "verdict:rejected")
		}
		if lastUntargeted.rejectedBy != "" {
			out = append(out, "rejected-by:"+lastUntargeted.rejectedBy)
		}
	}
	return out
}

func TestUntargeted(t *testing.T) {
	pbt.Run(t, pbt.Prop[untargetedCase]{
		Name: "untargeted",
		Rule: "valid base as in 'targeted' (with well-known imports, custom options, pb.go features, lazy); 1-5 random edits of the target file's descriptor proto through protoreflect: any field of any message of descriptor.proto cleared or set to a boundary value / hostile string / existing name of the set / any enum number, list elements duplicated, dropped, swapped, emptied or copied in from another declaration, sub-messages emptied, unknown bytes planted (incl. malformed pb.go feature payloads). Oracle: NewFile (registry of the earlier files, and nil resolver) and NewFiles return under both AllowUnresolvable settings, never a descriptor together with an error; the later files of the set are built on top; everything returned is walked accessor by accessor (forwards, backwards) and converted back to a proto; accepted without AllowUnresolvable implies accepted with it, with an identical accessor snapshot. non-trivial = the mutant is still accepted under at least one setting (then the walk is the test)",
		Draw:  drawUntargeted,
		Check: checkUntargeted,
		NonTrivial: func(c untargetedCase) bool {
			return lastUntargeted.mutant == string(c.Mutant) && (lastUntargeted.strict || lastUntargeted.loose)
		},
		Classes: classesUntargeted,
		Journal: true,
		Quick:   1200, Thorough: 15000,
	})
}

var _ = protoregistry.NotFound
