package c35

import (
	"fmt"
	"os"
	"testing"

	"pgregory.net/rapid"
)

func TestProbeOps(t *testing.T) {
	if os.Getenv("C35_PROBE") == "" {
		t.Skip()
	}
	for _, name := range opNames {
		g := rapid.Custom(drawTargeted([]string{name}))
		fails, skipped, match := 0, 0, 0
		var first string
		for i := 0; i < 60; i++ {
			c := g.Example(i)
			if c.Skipped {
				skipped++
			}
			var err error
			func() {
				defer func() {
					if r := recover(); r != nil {
						err = fmt.Errorf("PANIC %v", r)
					}
				}()
				err = checkTargeted(c)
			}()
			if err != nil {
				fails++
				if first == "" {
					first = err.Error()
					if len(first) > 300 {
						first = first[:300]
					}
				}
			}
			for _, cl := range classesTargeted(c) {
				if cl == "error:the-aimed-rule" {
					match++
				}
			}
		}
		fmt.Printf("%-40s fails=%d skipped=%d aimed=%d %s\n", name, fails, skipped, match, first)
	}
}
