package c35

// Kind matrices: small fixed files in which one declaration ranges over every field type, so that the
// per-kind rules of the validator (which the random operators reach only with low probability per
// kind) are each decided on every run: map key kinds, the packed option, map value enums.

import (
	"fmt"
	"strings"
	"testing"

	"google.golang.org/protobuf/proto"
	"google.golang.org/protobuf/reflect/protodesc"
	"google.golang.org/protobuf/reflect/protoregistry"
	"google.golang.org/protobuf/types/descriptorpb"
	"google.golang.org/protobuf/zverif/pbt"
)

type kindCase struct {
	Rule     string // "map-key" | "packed" | "map-value-enum"
	Syntax   string // proto2 | proto3 | editions
	Type     int32  // FieldDescriptorProto.Type of the varied declaration
	Repeated bool   // packed: the field is repeated
	Ext      bool   // packed: the declaration is an extension
	Unres    bool   // AllowUnresolvable
	FirstNum int32  // map-value-enum: number of the enum's first value
}

func kindFile(c kindCase) (*descriptorpb.FileDescriptorProto, bool) {
	T := descriptorpb.FieldDescriptorProto_Type(c.Type)
	opt, rep := descriptorpb.FieldDescriptorProto_LABEL_OPTIONAL.Enum(), descriptorpb.FieldDescriptorProto_LABEL_REPEATED.Enum()
	f := &descriptorpb.FileDescriptorProto{Name: proto.String("c35/kinds.proto"), Package: proto.String("c35k")}
	switch c.Syntax {
	case "proto3":
		f.Syntax = proto.String("proto3")
	case "editions":
		f.Syntax, f.Edition = proto.String("editions"), descriptorpb.Edition_EDITION_2023.Enum()
	}
	first := int32(0)
	if c.Rule == "map-value-enum" {
		first = c.FirstNum
	}
	en := &descriptorpb.EnumDescriptorProto{Name: proto.String("E"), Value: []*descriptorpb.EnumValueDescriptorProto{{Name: proto.String("E_A"), Number: proto.Int32(first)}, {Name: proto.String("E_B"), Number: proto.Int32(first + 1)}}}
	// a key enum always starts at zero, so that proto3's own enum rule never interferes
	ken := &descriptorpb.EnumDescriptorProto{Name: proto.String("K"), Value: []*descriptorpb.EnumValueDescriptorProto{{Name: proto.String("K_A"), Number: proto.Int32(0)}}}
	sub := &descriptorpb.DescriptorProto{Name: proto.String("Sub")}
	host := &descriptorpb.DescriptorProto{Name: proto.String("Host")}
	typed := func(fd *descriptorpb.FieldDescriptorProto, enumName string) {
		switch T {
		case descriptorpb.FieldDescriptorProto_TYPE_ENUM:
			fd.TypeName = proto.String(".c35k." + enumName)
		case descriptorpb.FieldDescriptorProto_TYPE_MESSAGE:
			fd.TypeName = proto.String(".c35k.Sub")
		case descriptorpb.FieldDescriptorProto_TYPE_GROUP:
			fd.TypeName = proto.String(".c35k.Sub")
		}
	}
	want := true
	switch c.Rule {
	case "map-key":
		key := &descriptorpb.FieldDescriptorProto{Name: proto.String("key"), Number: proto.Int32(1), Label: opt, Type: T.Enum(), JsonName: proto.String("key")}
		typed(key, "K")
		val := &descriptorpb.FieldDescriptorProto{Name: proto.String("value"), Number: proto.Int32(2), Label: opt, Type: descriptorpb.FieldDescriptorProto_TYPE_INT32.Enum(), JsonName: proto.String("value")}
		entry := &descriptorpb.DescriptorProto{Name: proto.String("MEntry"), Field: []*descriptorpb.FieldDescriptorProto{key, val}, Options: &descriptorpb.MessageOptions{MapEntry: proto.Bool(true)}}
		host.NestedType = append(host.NestedType, entry)
		host.Field = append(host.Field, &descriptorpb.FieldDescriptorProto{Name: proto.String("m"), Number: proto.Int32(1), Label: rep, Type: descriptorpb.FieldDescriptorProto_TYPE_MESSAGE.Enum(), TypeName: proto.String(".c35k.Host.MEntry"), JsonName: proto.String("m")})
		switch T {
		case descriptorpb.FieldDescriptorProto_TYPE_FLOAT, descriptorpb.FieldDescriptorProto_TYPE_DOUBLE, descriptorpb.FieldDescriptorProto_TYPE_BYTES,
			descriptorpb.FieldDescriptorProto_TYPE_ENUM, descriptorpb.FieldDescriptorProto_TYPE_MESSAGE, descriptorpb.FieldDescriptorProto_TYPE_GROUP:
			want = false
		}
	case "map-value-enum":
		key := &descriptorpb.FieldDescriptorProto{Name: proto.String("key"), Number: proto.Int32(1), Label: opt, Type: descriptorpb.FieldDescriptorProto_TYPE_STRING.Enum(), JsonName: proto.String("key")}
		val := &descriptorpb.FieldDescriptorProto{Name: proto.String("value"), Number: proto.Int32(2), Label: opt, Type: descriptorpb.FieldDescriptorProto_TYPE_ENUM.Enum(), TypeName: proto.String(".c35k.E"), JsonName: proto.String("value")}
		entry := &descriptorpb.DescriptorProto{Name: proto.String("MEntry"), Field: []*descriptorpb.FieldDescriptorProto{key, val}, Options: &descriptorpb.MessageOptions{MapEntry: proto.Bool(true)}}
		host.NestedType = append(host.NestedType, entry)
		host.Field = append(host.Field, &descriptorpb.FieldDescriptorProto{Name: proto.String("m"), Number: proto.Int32(1), Label: rep, Type: descriptorpb.FieldDescriptorProto_TYPE_MESSAGE.Enum(), TypeName: proto.String(".c35k.Host.MEntry"), JsonName: proto.String("m")})
		want = c.FirstNum == 0
	case "packed":
		fd := &descriptorpb.FieldDescriptorProto{Name: proto.String("p"), Number: proto.Int32(1), Label: opt, Type: T.Enum(), Options: &descriptorpb.FieldOptions{Packed: proto.Bool(true)}}
		if c.Repeated {
			fd.Label = rep
		}
		typed(fd, "E")
		if c.Ext {
			host.ExtensionRange = append(host.ExtensionRange, &descriptorpb.DescriptorProto_ExtensionRange{Start: proto.Int32(100), End: proto.Int32(200)})
			fd.Number, fd.Extendee = proto.Int32(100), proto.String(".c35k.Host")
			f.Extension = append(f.Extension, fd)
		} else {
			fd.JsonName = proto.String("p")
			host.Field = append(host.Field, fd)
		}
		switch T {
		case descriptorpb.FieldDescriptorProto_TYPE_STRING, descriptorpb.FieldDescriptorProto_TYPE_BYTES, descriptorpb.FieldDescriptorProto_TYPE_MESSAGE, descriptorpb.FieldDescriptorProto_TYPE_GROUP:
			want = false
		}
		if !c.Repeated {
			want = false
		}
	}
	if T == descriptorpb.FieldDescriptorProto_TYPE_GROUP && c.Syntax != "proto2" {
		return nil, false // groups exist in proto2 only; elsewhere the file is invalid for another reason
	}
	if c.Ext && c.Syntax == "proto3" {
		return nil, false
	}
	f.EnumType = []*descriptorpb.EnumDescriptorProto{en, ken}
	f.MessageType = []*descriptorpb.DescriptorProto{sub, host}
	return f, want
}

func checkKind(c kindCase) error {
	f, want := kindFile(c)
	if f == nil {
		return nil
	}
	// control: the same file with the varied declaration in its plain valid form is accepted
	opts := protodesc.FileOptions{AllowUnresolvable: c.Unres}
	var got error
	func() {
		defer func() {
			if r := recover(); r != nil {
				got = fmt.Errorf("PANIC: %v", r)
			}
		}()
		_, got = opts.New(f, &protoregistry.Files{})
	}()
	if got != nil && strings.HasPrefix(got.Error(), "PANIC") {
		return fmt.Errorf("NewFile panicked: %v", got)
	}
	if want && got != nil {
		return fmt.Errorf("valid declaration refused: %v", got)
	}
	if !want && got == nil {
		return fmt.Errorf("invalid declaration accepted (rule %s, type %v, repeated=%v, extension=%v, %s, AllowUnresolvable=%v)",
			c.Rule, descriptorpb.FieldDescriptorProto_Type(c.Type), c.Repeated, c.Ext, c.Syntax, c.Unres)
	}
	return nil
}

func TestKindMatrices(t *testing.T) {
	pbt.Enumerate(t, "kind-matrix",
		"fixed files in which one declaration ranges over all 18 field types x {proto2, proto3, editions 2023} x both AllowUnresolvable settings: a map entry key (accepted iff integral, bool or string), a field / extension carrying [packed = true] (accepted iff repeated and of a packable type), a map value enum whose first value is 0 / not 0 (open enums need a zero first value); every case non-trivial (one verdict each)",
		true,
		func(yield func(kindCase, bool) bool) {
			for _, syn := range []string{"proto2", "proto3", "editions"} {
				for _, unres := range []bool{false, true} {
					for ty := int32(1); ty <= 18; ty++ {
						if !yield(kindCase{Rule: "map-key", Syntax: syn, Type: ty, Unres: unres}, true) {
							return
						}
						for _, rep := range []bool{false, true} {
							for _, ext := range []bool{false, true} {
								if syn == "editions" {
									continue // editions files spell packing as a feature; the option is refused there for its own reason
								}
								if !yield(kindCase{Rule: "packed", Syntax: syn, Type: ty, Repeated: rep, Ext: ext, Unres: unres}, true) {
									return
								}
							}
						}
					}
					for _, first := range []int32{0, 1, -1} {
						if syn == "proto2" {
							continue // closed enums may start anywhere
						}
						if !yield(kindCase{Rule: "map-value-enum", Syntax: syn, FirstNum: first, Unres: unres}, true) {
							return
						}
					}
				}
			}
		}, checkKind)
}
