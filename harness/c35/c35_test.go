package c35

import (
	"fmt"
	"runtime/debug"
	"strings"
	"testing"

	"google.golang.org/protobuf/internal/flags"
	"google.golang.org/protobuf/proto"
	"google.golang.org/protobuf/reflect/protodesc"
	"google.golang.org/protobuf/reflect/protoreflect"
	"google.golang.org/protobuf/reflect/protoregistry"
	"google.golang.org/protobuf/types/descriptorpb"
	"google.golang.org/protobuf/zverif/descsnap"
	"google.golang.org/protobuf/zverif/pbt"
	"google.golang.org/protobuf/zverif/schema"
	"pgregory.net/rapid"
)

// ---------------------------------------------------------------------------------------------
// calling the code under test without letting a panic escape unlabelled

type verdict struct {
	fd    protoreflect.FileDescriptor
	err   error
	panic string
}

func newFile(p *fdp, r protodesc.Resolver, allow bool) (v verdict) {
	defer func() {
		if r := recover(); r != nil {
			v.panic = fmt.Sprintf("%v\n%s", r, debug.Stack())
		}
	}()
	v.fd, v.err = protodesc.FileOptions{AllowUnresolvable: allow}.New(p, r)
	return
}

func newFiles(set *descriptorpb.FileDescriptorSet, allow bool) (reg *protoregistry.Files, err error, panicked string) {
	defer func() {
		if r := recover(); r != nil {
			panicked = fmt.Sprintf("%v\n%s", r, debug.Stack())
		}
	}()
	reg, err = protodesc.FileOptions{AllowUnresolvable: allow}.NewFiles(set)
	return
}

// walk takes the full accessor snapshot (forwards and backwards) of a descriptor the validator let
// through and converts it back to a descriptor proto; none of it may panic.
func walk(fd protoreflect.FileDescriptor) (panicked string) {
	defer func() {
		if r := recover(); r != nil {
			panicked = fmt.Sprintf("%v\n%s", r, debug.Stack())
		}
	}()
	descsnap.Of(fd, descsnap.Opts{})
	descsnap.Of(fd, descsnap.Opts{Reverse: true})
	protodesc.ToFileDescriptorProto(fd)
	return ""
}

func walkAll(reg *protoregistry.Files) (panicked string) {
	reg.RangeFiles(func(fd protoreflect.FileDescriptor) bool {
		panicked = walk(fd)
		return panicked == ""
	})
	return
}

func oneLine(p proto.Message) string {
	s := strings.Join(strings.Fields(fmt.Sprint(p)), " ")
	if len(s) > 1500 {
		s = s[:1500] + "…"
	}
	return s
}

// ---------------------------------------------------------------------------------------------
// base sets

// drawBase draws a valid set: the fixed dependency file, then 1-2 generated files, one of which
// (the target, index returned) additionally receives the victim message at a random scope, a
// service and, unless noDep, an import of the dependency file.
func drawBase(t *rapid.T, syn []string, noDep bool, o schema.Opts) (set []*fdp, target int) {
	o.Syntaxes = syn
	files := schema.Draw(t, o)
	set = append([]*fdp{depFile()}, files...)
	target = 1 + rapid.IntRange(0, len(files)-1).Draw(t, "target")
	f := set[target]
	if !noDep {
		f.Dependency = append(f.Dependency, depPath)
	}
	ms := plainMessages(f)
	k := rapid.IntRange(0, len(ms)).Draw(t, "victim-scope")
	var full string
	if k == len(ms) {
		full = join(f.GetPackage(), "C35Victim")
		f.MessageType = append(f.MessageType, victim(syntaxOf(f), full))
	} else {
		full = join(ms[k].full, "C35Victim")
		ms[k].m.NestedType = append(ms[k].m.NestedType, victim(syntaxOf(f), full))
	}
	f.Service = append(f.Service, &descriptorpb.ServiceDescriptorProto{Name: proto.String("C35Svc"), Method: []*descriptorpb.MethodDescriptorProto{
		{Name: proto.String("C35Call"), InputType: proto.String("." + full), OutputType: proto.String("." + full)}}})
	return set, target
}

// acceptBase requires the base set to be accepted file by file and as a set, under both settings,
// and everything built to be walkable.
func acceptBase(set []*fdp) error {
	for _, allow := range []bool{false, true} {
		reg, err := schema.NewRegistry(set)
		if err != nil {
			return fmt.Errorf("harness: %v", err)
		}
		for i, p := range set {
			v := newFile(p, reg, allow)
			if v.panic != "" {
				return fmt.Errorf("NewFile panicked on the valid base file %d (AllowUnresolvable=%v): %s", i, allow, v.panic)
			}
			if v.err != nil {
				return fmt.Errorf("NewFile rejected the valid base file %d %s (AllowUnresolvable=%v): %v", i, p.GetName(), allow, v.err)
			}
			if p := walk(v.fd); p != "" {
				return fmt.Errorf("accessor walk of the valid base file %d panicked: %s", i, p)
			}
			if err := reg.RegisterFile(v.fd); err != nil {
				return fmt.Errorf("harness: base file %d cannot be registered: %v", i, err)
			}
		}
		_, err, pan := newFiles(schema.FileSet(set), allow)
		if pan != "" {
			return fmt.Errorf("NewFiles panicked on the valid base set (AllowUnresolvable=%v): %s", allow, pan)
		}
		if err != nil {
			return fmt.Errorf("NewFiles rejected the valid base set (AllowUnresolvable=%v): %v", allow, err)
		}
	}
	return nil
}

// registryBefore builds the base files before index k (they are valid) into a fresh registry.
func registryBefore(set []*fdp, k int) (*protoregistry.Files, error) {
	reg, err := schema.NewRegistry(set)
	if err != nil {
		return nil, fmt.Errorf("harness: %v", err)
	}
	for i := 0; i < k; i++ {
		fd, err := protodesc.NewFile(set[i], reg)
		if err != nil {
			return nil, fmt.Errorf("NewFile rejected the valid base file %d %s: %v", i, set[i].GetName(), err)
		}
		if err := reg.RegisterFile(fd); err != nil {
			return nil, fmt.Errorf("harness: %v", err)
		}
	}
	return reg, nil
}

// asSet is the set with the target file replaced by its mutant, plus the descriptor protos of the
// well-known files the set imports (NewFiles resolves inside the set only).
func asSet(set []*fdp, target int, mut *fdp) *descriptorpb.FileDescriptorSet {
	fs := schema.FileSet(set)
	for i, p := range fs.File {
		if p == set[target] {
			fs.File[i] = mut
		}
	}
	return fs
}

// ---------------------------------------------------------------------------------------------
// (i) targeted invalidity operators

type targetedCase struct {
	Op      string
	Raw     [][]byte // the valid base set (dependency file first)
	Target  int      // index of the mutated file
	Mutant  []byte   // the mutated file
	Depth   int      // nesting depth of the changed declaration
	Skipped bool     // the operator found nothing to break (never expected)
	Text    string   // the mutated file, for readers; not used by the check
}

var opTable = func() map[string]op {
	m := map[string]op{}
	for _, o := range ops() {
		if _, dup := m[o.name]; dup {
			panic("duplicate operator " + o.name)
		}
		m[o.name] = o
	}
	return m
}()

var opNames = func() []string {
	var out []string
	for _, o := range ops() {
		out = append(out, o.name)
	}
	return out
}()

var targetedOpts = schema.Opts{MaxFiles: 2, MaxMessages: 3, MaxFields: 5, MaxDepth: 2, MaxRanges: 4, NoOptions: true}

func drawTargeted(names []string) func(t *rapid.T) targetedCase {
	return func(t *rapid.T) targetedCase {
		// rapid's integer generators favour small values; single bits are uniform
		k := 0
		for i := 0; i < 12; i++ {
			k <<= 1
			if rapid.Bool().Draw(t, "op-bit") {
				k |= 1
			}
		}
		o := opTable[names[k%len(names)]]
		set, target := drawBase(t, o.syn, o.noDep, targetedOpts)
		c := targetedCase{Op: o.name, Raw: schema.Marshal(set), Target: target}
		mut := proto.Clone(set[target]).(*fdp)
		x := &ctx{t: t, set: set, f: mut}
		if !o.apply(x) {
			c.Skipped = true
			return c
		}
		c.Mutant = schema.Marshal([]*fdp{mut})[0]
		c.Depth = x.depth
		c.Text = oneLine(mut)
		return c
	}
}

// lastTargeted carries the error text of the most recent check to the class function (evidence only).
var lastTargeted struct {
	mutant string
	errMsg string
}

func checkTargeted(c targetedCase) error {
	o, ok := opTable[c.Op]
	if !ok {
		return fmt.Errorf("harness: unknown operator %q", c.Op)
	}
	set, err := schema.Unmarshal(c.Raw)
	if err != nil {
		return fmt.Errorf("harness: %v", err)
	}
	if err := acceptBase(set); err != nil {
		return err
	}
	if c.Skipped {
		return nil
	}
	mut := &fdp{}
	if err := proto.Unmarshal(c.Mutant, mut); err != nil {
		return fmt.Errorf("harness: %v", err)
	}
	if proto.Equal(mut, set[c.Target]) {
		return fmt.Errorf("harness: operator %s left the file unchanged", c.Op)
	}
	lastTargeted.mutant, lastTargeted.errMsg = string(c.Mutant), ""
	excluded := false
	// packedKnown: the two packed operators change nothing but options.packed of a field that cannot be
	// packed; their acceptance is the registered finding (counted once per case)
	packedKnown := func(op string) bool {
		if !strings.HasPrefix(op, "packed-on-") {
			return false
		}
		if excluded {
			return true
		}
		excluded = pbt.ExcludeKnown(kfPacked)
		return excluded
	}
	for _, allow := range []bool{false, true} {
		mustReject := !(allow && o.loose)
		reg, err := registryBefore(set, c.Target)
		if err != nil {
			return err
		}
		v := newFile(mut, reg, allow)
		if v.panic != "" {
			return fmt.Errorf("operator %s: NewFile (AllowUnresolvable=%v) panicked: %s", c.Op, allow, v.panic)
		}
		if !allow && v.err != nil {
			lastTargeted.errMsg = v.err.Error()
		}
		switch {
		case mustReject && v.err == nil && packedKnown(c.Op):
		case mustReject && v.err == nil:
			return fmt.Errorf("operator %s: NewFile (AllowUnresolvable=%v) accepted a file with a definite schema error: %s", c.Op, allow, oneLine(mut))
		case !mustReject && v.err != nil:
			return fmt.Errorf("operator %s: NewFile with AllowUnresolvable rejected a file whose only fault is an unresolvable reference: %v", c.Op, v.err)
		}
		if v.err == nil {
			if p := walk(v.fd); p != "" {
				return fmt.Errorf("operator %s: accessor walk of the accepted file (AllowUnresolvable=%v) panicked: %s", c.Op, allow, p)
			}
		}
		// the same through NewFiles
		regs, err, pan := newFiles(asSet(set, c.Target, mut), allow)
		if pan != "" {
			return fmt.Errorf("operator %s: NewFiles (AllowUnresolvable=%v) panicked: %s", c.Op, allow, pan)
		}
		switch {
		case allow && o.nfLooseAny:
		case mustReject && err == nil && packedKnown(c.Op):
		case mustReject && err == nil:
			return fmt.Errorf("operator %s: NewFiles (AllowUnresolvable=%v) accepted a set with a definite schema error in %s: %s", c.Op, allow, mut.GetName(), oneLine(mut))
		case !mustReject && err != nil:
			return fmt.Errorf("operator %s: NewFiles with AllowUnresolvable rejected a set whose only fault is an unresolvable reference: %v", c.Op, err)
		}
		if err == nil {
			if p := walkAll(regs); p != "" {
				return fmt.Errorf("operator %s: accessor walk after NewFiles (AllowUnresolvable=%v) panicked: %s", c.Op, allow, p)
			}
		}
	}
	return nil
}

func classesTargeted(c targetedCase) []string {
	if c.Skipped {
		return []string{"inapplicable:" + c.Op}
	}
	out := []string{"op:" + c.Op}
	if c.Depth >= 3 {
		out = append(out, "depth:3+")
	} else {
		out = append(out, fmt.Sprintf("depth:%d", c.Depth))
	}
	if set, err := schema.Unmarshal(c.Raw); err == nil {
		out = append(out, "syntax:"+syntaxOf(set[c.Target]), fmt.Sprintf("files:%d", len(set)))
	}
	if lastTargeted.mutant == string(c.Mutant) && lastTargeted.errMsg != "" {
		if strings.Contains(lastTargeted.errMsg, opTable[c.Op].want) {
			out = append(out, "error:the-aimed-rule")
		} else {
			out = append(out, "error:another-rule", "error:another-rule:"+c.Op)
		}
	}
	return out
}

const ruleTargeted = "valid base = fixed dependency file + 1-2 files of the shared schema generator (all four syntaxes, restricted to what the operator needs) + a victim message holding one specimen of every construct, inserted at a random scope; one of 74 invalidity operators (one per validator rule; see ops_test.go) breaks one declaration chosen at random among all declarations of the target file it applies to. Oracle: base accepted by NewFile (file by file) and NewFiles under both AllowUnresolvable settings and walkable; mutant rejected by both under both settings, except the operators that only leave a reference unresolved, which must be accepted with AllowUnresolvable; nothing panics. non-trivial = the changed declaration is nested (depth >= 1)"

func TestTargeted(t *testing.T) {
	pbt.Run(t, pbt.Prop[targetedCase]{
		Name:       "targeted",
		Rule:       ruleTargeted,
		Draw:       drawTargeted(opNames),
		Check:      checkTargeted,
		NonTrivial: func(c targetedCase) bool { return !c.Skipped && c.Depth >= 1 },
		Classes:    classesTargeted,
		Quick:      1600, Thorough: 15000,
	})
	if flags.ProtoLegacy {
		pbt.S.Note("protolegacy build")
	}
}
