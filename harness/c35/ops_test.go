package c35

import (
	"math"
	"math/bits"
	"strings"

	"google.golang.org/protobuf/proto"
	"google.golang.org/protobuf/reflect/protoreflect"
	"google.golang.org/protobuf/types/descriptorpb"
	"pgregory.net/rapid"
)

// ctx is what an invalidity operator works on: the target file f (already a private copy, to be
// edited in place), the whole set for look-ups, and the rapid source for its choices.
type ctx struct {
	t     *rapid.T
	set   []*fdp
	f     *fdp
	depth int // nesting depth of the declaration the operator changed (0 = file level)
}

// n draws an integer of [lo, hi] uniformly: rapid's integer generators favour small values, which
// would starve the later variants of an operator; single bits are uniform (and shrink to lo).
func (x *ctx) n(lo, hi int, label string) int {
	if hi < lo {
		panic("harness: empty range for " + label)
	}
	span := hi - lo + 1
	if span == 1 {
		return lo
	}
	v := 0
	for i, k := 0, bits.Len(uint(span-1))+5; i < k; i++ {
		v <<= 1
		if rapid.Bool().Draw(x.t, label) {
			v |= 1
		}
	}
	return lo + v%span
}

func choose[T any](x *ctx, xs []T, label string) (T, bool) {
	var zero T
	if len(xs) == 0 {
		return zero, false
	}
	return xs[x.n(0, len(xs)-1, label)], true
}

func filter[T any](xs []T, keep func(T) bool) []T {
	var out []T
	for _, v := range xs {
		if keep(v) {
			out = append(out, v)
		}
	}
	return out
}

// methodsOf lists every method of the file (the base always has C35Svc.C35Call).
func methodsOf(f *fdp) []*descriptorpb.MethodDescriptorProto {
	var out []*descriptorpb.MethodDescriptorProto
	for _, s := range f.Service {
		out = append(out, s.Method...)
	}
	return out
}

func (x *ctx) syntax() string { return syntaxOf(x.f) }

// findMessage looks a message up by full name in the whole set.
func (x *ctx) findMessage(full string) *dp {
	for _, f := range x.set {
		for _, r := range messagesOf(f) {
			if r.full == full {
				return r.m
			}
		}
	}
	for _, r := range messagesOf(x.f) {
		if r.full == full {
			return r.m
		}
	}
	return nil
}

// op is one targeted invalidity operator = one row of the sensitivity matrix.
type op struct {
	name       string
	syn        []string // syntaxes of the files of the base set (nil = all four)
	noDep      bool     // the target file must not import c35dep.proto
	loose      bool     // a reference left unresolved: rejected by default, accepted with AllowUnresolvable
	nfLooseAny bool     // NewFiles + AllowUnresolvable has no definite verdict (depends on build order)
	want       string   // fragment of the message of the validator rule this operator is aimed at (evidence only)
	apply      func(x *ctx) bool
}

var (
	synP2    = []string{"proto2"}
	synP3    = []string{"proto3"}
	synEd    = []string{"2023", "2024"}
	synNotP3 = []string{"proto2", "2023", "2024"}
)

func setEnumNumber(m proto.Message, field protoreflect.Name, n int32) {
	mr := m.ProtoReflect()
	mr.Set(mr.Descriptor().Fields().ByName(field), protoreflect.ValueOfEnum(protoreflect.EnumNumber(n)))
}

var badNames = []string{"", "1x", "a.b", "a-b", "é", "a b", ".", "x."}

func ops() []op {
	withFields := func(r msgRef) bool { return len(r.m.Field) > 0 }
	return []op{
		// ---- names -------------------------------------------------------------------------------
		{name: "dup-name-message", want: "already declared", apply: func(x *ctx) bool {
			ms := filter(plainMessages(x.f), func(r msgRef) bool { return len(childNames(r.m)) > 0 })
			k := x.n(0, len(ms), "scope")
			if k == len(ms) {
				names := fileChildNames(x.f)
				x.f.MessageType = append(x.f.MessageType, &dp{Name: proto.String(names[x.n(0, len(names)-1, "name")])})
				return true
			}
			names := childNames(ms[k].m)
			ms[k].m.NestedType = append(ms[k].m.NestedType, &dp{Name: proto.String(names[x.n(0, len(names)-1, "name")])})
			x.depth = ms[k].depth + 1
			return true
		}},
		{name: "dup-name-field", want: "already declared", apply: func(x *ctx) bool {
			r, ok := choose(x, filter(plainMessages(x.f), func(r msgRef) bool {
				_, free := freeNumber(r.m)
				return free && len(childNames(r.m)) > 0
			}), "msg")
			if !ok {
				return false
			}
			names := childNames(r.m)
			num, _ := freeNumber(r.m)
			r.m.Field = append(r.m.Field, newField(names[x.n(0, len(names)-1, "name")], num))
			x.depth = r.depth + 1
			return true
		}},
		{name: "dup-name-enum-value", want: "already declared", apply: func(x *ctx) bool {
			e, ok := choose(x, enumsOf(x.f), "enum")
			if !ok {
				return false
			}
			v := e.e.Value[x.n(0, len(e.e.Value)-1, "value")]
			e.e.Value = append(e.e.Value, &evdp{Name: proto.String(v.GetName()), Number: proto.Int32(freeEnumNumber(e.e))})
			x.depth = e.depth + 1
			return true
		}},
		{name: "decl-invalid-name", want: "invalid nested name", apply: func(x *ctx) bool {
			bad := badNames[x.n(0, len(badNames)-1, "bad")]
			switch x.n(0, 5, "kind") {
			case 0:
				r, _ := choose(x, plainMessages(x.f), "msg")
				r.m.Name = proto.String(bad)
				x.depth = r.depth
			case 1:
				r, _ := choose(x, fieldsOf(x.f, false), "field")
				r.f.Name = proto.String(bad)
				x.depth = r.m.depth + 1
			case 2:
				e, _ := choose(x, enumsOf(x.f), "enum")
				e.e.Name = proto.String(bad)
				x.depth = e.depth
			case 3:
				e, _ := choose(x, enumsOf(x.f), "enum")
				e.e.Value[x.n(0, len(e.e.Value)-1, "value")].Name = proto.String(bad)
				x.depth = e.depth + 1
			case 4:
				r, _ := choose(x, filter(plainMessages(x.f), func(r msgRef) bool { return len(r.m.OneofDecl) > 0 }), "msg")
				r.m.OneofDecl[x.n(0, len(r.m.OneofDecl)-1, "oneof")].Name = proto.String(bad)
				x.depth = r.depth + 1
			case 5:
				s := x.f.Service[x.n(0, len(x.f.Service)-1, "svc")]
				if len(s.Method) > 0 && x.n(0, 1, "method") == 1 {
					s.Method[x.n(0, len(s.Method)-1, "m")].Name = proto.String(bad)
					x.depth = 1
				} else {
					s.Name = proto.String(bad)
				}
			}
			return true
		}},
		// ---- field numbers ------------------------------------------------------------------------
		{name: "dup-field-number", want: "conflicting fields", apply: func(x *ctx) bool {
			r, ok := choose(x, filter(plainMessages(x.f), func(r msgRef) bool { return len(r.m.Field) >= 2 }), "msg")
			if !ok {
				return false
			}
			i := x.n(0, len(r.m.Field)-1, "i")
			j := x.n(0, len(r.m.Field)-2, "j")
			if j >= i {
				j++
			}
			r.m.Field[j].Number = proto.Int32(r.m.Field[i].GetNumber())
			x.depth = r.depth + 1
			return true
		}},
		{name: "field-number-invalid", want: "invalid number", apply: func(x *ctx) bool {
			r, ok := choose(x, fieldsOf(x.f, false), "field")
			if !ok {
				return false
			}
			vals := []int32{0, -1, math.MinInt32, 1 << 29, math.MaxInt32}
			if k := x.n(0, len(vals), "v"); k == len(vals) {
				r.f.Number = nil
			} else {
				r.f.Number = proto.Int32(vals[k])
			}
			x.depth = r.m.depth + 1
			return true
		}},
		{name: "ext-number-invalid", syn: synNotP3, want: "number", apply: func(x *ctx) bool {
			e, ok := choose(x, extensionsOf(x.f), "ext")
			if !ok {
				return false
			}
			vals := []int32{0, -1, math.MinInt32, 1 << 29, math.MaxInt32}
			e.x.Number = proto.Int32(vals[x.n(0, len(vals)-1, "v")])
			x.depth = e.depth
			return true
		}},
		{name: "field-in-extension-range", syn: synNotP3, want: "in extension range", apply: func(x *ctx) bool {
			r, ok := choose(x, filter(plainMessages(x.f), func(r msgRef) bool { return len(r.m.Field) > 0 && len(r.m.ExtensionRange) > 0 }), "msg")
			if !ok {
				return false
			}
			xr := r.m.ExtensionRange[x.n(0, len(r.m.ExtensionRange)-1, "range")]
			n := []int32{xr.GetStart(), xr.GetEnd() - 1, xr.GetStart() + (xr.GetEnd()-xr.GetStart())/2}[x.n(0, 2, "where")]
			r.m.Field[x.n(0, len(r.m.Field)-1, "field")].Number = proto.Int32(n)
			x.depth = r.depth + 1
			return true
		}},
		{name: "extension-outside-ranges", syn: synNotP3, want: "non-extension field number", apply: func(x *ctx) bool {
			type cand struct {
				e    extRef
				nums []int32
			}
			var cands []cand
			for _, e := range extensionsOf(x.f) {
				md := x.findMessage(strings.TrimPrefix(e.x.GetExtendee(), "."))
				if md == nil {
					continue
				}
				pool := []int32{1, 2, 3, maxNumber}
				for _, xr := range md.ExtensionRange {
					pool = append(pool, xr.GetStart()-1, xr.GetEnd())
				}
				var nums []int32
				for _, n := range pool {
					in := false
					for _, xr := range md.ExtensionRange {
						in = in || xr.GetStart() <= n && n < xr.GetEnd()
					}
					if !in && n >= 1 && n <= maxNumber && !(n >= 19000 && n <= 19999) {
						nums = append(nums, n)
					}
				}
				if len(nums) > 0 {
					cands = append(cands, cand{e, nums})
				}
			}
			c, ok := choose(x, cands, "ext")
			if !ok {
				return false
			}
			c.e.x.Number = proto.Int32(c.nums[x.n(0, len(c.nums)-1, "num")])
			x.depth = c.e.depth
			return true
		}},
		{name: "field-reserved-number", want: "reserved number", apply: func(x *ctx) bool {
			r, ok := choose(x, fieldsOf(x.f, false), "field")
			if !ok {
				return false
			}
			n := r.f.GetNumber()
			r.m.m.ReservedRange = append(r.m.m.ReservedRange, &descriptorpb.DescriptorProto_ReservedRange{Start: proto.Int32(n), End: proto.Int32(n + 1)})
			x.depth = r.m.depth + 1
			return true
		}},
		{name: "field-reserved-name", want: "reserved name", apply: func(x *ctx) bool {
			r, ok := choose(x, fieldsOf(x.f, false), "field")
			if !ok {
				return false
			}
			r.m.m.ReservedName = append(r.m.m.ReservedName, r.f.GetName())
			x.depth = r.m.depth + 1
			return true
		}},
		{name: "enum-value-reserved-number", want: "reserved number", apply: func(x *ctx) bool {
			e, ok := choose(x, enumsOf(x.f), "enum")
			if !ok {
				return false
			}
			n := e.e.Value[x.n(0, len(e.e.Value)-1, "value")].GetNumber()
			e.e.ReservedRange = append(e.e.ReservedRange, &descriptorpb.EnumDescriptorProto_EnumReservedRange{Start: proto.Int32(n), End: proto.Int32(n)})
			x.depth = e.depth + 1
			return true
		}},
		{name: "enum-value-reserved-name", want: "reserved name", apply: func(x *ctx) bool {
			e, ok := choose(x, enumsOf(x.f), "enum")
			if !ok {
				return false
			}
			e.e.ReservedName = append(e.e.ReservedName, e.e.Value[x.n(0, len(e.e.Value)-1, "value")].GetName())
			x.depth = e.depth + 1
			return true
		}},
		// ---- ranges -------------------------------------------------------------------------------
		{name: "reserved-range-inverted", want: "reserved ranges has invalid range", apply: func(x *ctx) bool {
			r, ok := choose(x, filter(plainMessages(x.f), func(r msgRef) bool { _, ok := clearRegion(r.m); return ok }), "msg")
			if !ok {
				return false
			}
			n, _ := clearRegion(r.m)
			end := n - int32(x.n(0, 3, "by")) // end <= start: the range [start, end) is empty or inverted
			if end < 1 {
				end = 1
				n = 1
			}
			r.m.ReservedRange = append(r.m.ReservedRange, &descriptorpb.DescriptorProto_ReservedRange{Start: proto.Int32(n), End: proto.Int32(end)})
			x.depth = r.depth + 1
			return true
		}},
		{name: "reserved-range-bad-number", want: "reserved ranges has invalid field number", apply: func(x *ctx) bool {
			r, ok := choose(x, plainMessages(x.f), "msg")
			if !ok {
				return false
			}
			rr := [][2]int32{{0, 1}, {-3, 1}, {math.MinInt32, 1}, {1 << 29, 1<<29 + 1}, {maxNumber, math.MaxInt32}}[x.n(0, 4, "which")]
			r.m.ReservedRange = append(r.m.ReservedRange, &descriptorpb.DescriptorProto_ReservedRange{Start: proto.Int32(rr[0]), End: proto.Int32(rr[1])})
			x.depth = r.depth + 1
			return true
		}},
		{name: "reserved-ranges-overlap", want: "reserved ranges has overlapping ranges", apply: func(x *ctx) bool {
			ms := filter(plainMessages(x.f), func(r msgRef) bool { _, ok := clearRegion(r.m); return ok || len(r.m.ReservedRange) > 0 })
			r, ok := choose(x, ms, "msg")
			if !ok {
				return false
			}
			x.depth = r.depth + 1
			if _, clear := clearRegion(r.m); len(r.m.ReservedRange) > 0 && (!clear || x.n(0, 1, "existing") == 1) {
				old := r.m.ReservedRange[x.n(0, len(r.m.ReservedRange)-1, "range")]
				at := []int32{old.GetStart(), old.GetEnd() - 1}[x.n(0, 1, "where")]
				nr := &descriptorpb.DescriptorProto_ReservedRange{Start: proto.Int32(at), End: proto.Int32(at + 1)}
				// before or after the old one: the validator sorts, the list order must not matter
				if x.n(0, 1, "front") == 1 {
					r.m.ReservedRange = append([]*descriptorpb.DescriptorProto_ReservedRange{nr}, r.m.ReservedRange...)
				} else {
					r.m.ReservedRange = append(r.m.ReservedRange, nr)
				}
				return true
			}
			n, ok := clearRegion(r.m)
			if !ok {
				return false
			}
			r.m.ReservedRange = append(r.m.ReservedRange,
				&descriptorpb.DescriptorProto_ReservedRange{Start: proto.Int32(n + 10), End: proto.Int32(n + 20)},
				&descriptorpb.DescriptorProto_ReservedRange{Start: proto.Int32(n + int32(x.n(1, 19, "start"))), End: proto.Int32(n + 25)})
			return true
		}},
		{name: "extension-range-inverted", syn: synNotP3, want: "extension ranges has invalid range", apply: func(x *ctx) bool {
			r, ok := choose(x, filter(plainMessages(x.f), func(r msgRef) bool { _, ok := clearRegion(r.m); return ok }), "msg")
			if !ok {
				return false
			}
			n, _ := clearRegion(r.m)
			n += 5
			r.m.ExtensionRange = append(r.m.ExtensionRange, &descriptorpb.DescriptorProto_ExtensionRange{Start: proto.Int32(n), End: proto.Int32(n - int32(x.n(0, 3, "by")))})
			x.depth = r.depth + 1
			return true
		}},
		{name: "extension-range-bad-number", syn: synNotP3, want: "extension ranges has invalid field number", apply: func(x *ctx) bool {
			r, ok := choose(x, plainMessages(x.f), "msg")
			if !ok {
				return false
			}
			rr := [][2]int32{{0, 1}, {-3, 1}, {math.MinInt32, 1}, {1 << 29, 1<<29 + 1}, {maxNumber, math.MaxInt32}}[x.n(0, 4, "which")]
			r.m.ExtensionRange = append(r.m.ExtensionRange, &descriptorpb.DescriptorProto_ExtensionRange{Start: proto.Int32(rr[0]), End: proto.Int32(rr[1])})
			x.depth = r.depth + 1
			return true
		}},
		{name: "extension-ranges-overlap", syn: synNotP3, want: "extension ranges has overlapping ranges", apply: func(x *ctx) bool {
			r, ok := choose(x, filter(plainMessages(x.f), func(r msgRef) bool { return len(r.m.ExtensionRange) > 0 }), "msg")
			if !ok {
				return false
			}
			old := r.m.ExtensionRange[x.n(0, len(r.m.ExtensionRange)-1, "range")]
			at := []int32{old.GetStart(), old.GetEnd() - 1}[x.n(0, 1, "where")]
			nr := &descriptorpb.DescriptorProto_ExtensionRange{Start: proto.Int32(at), End: proto.Int32(at + 1)}
			if x.n(0, 1, "front") == 1 {
				r.m.ExtensionRange = append([]*descriptorpb.DescriptorProto_ExtensionRange{nr}, r.m.ExtensionRange...)
			} else {
				r.m.ExtensionRange = append(r.m.ExtensionRange, nr)
			}
			x.depth = r.depth + 1
			return true
		}},
		{name: "reserved-extension-ranges-overlap", syn: synNotP3, want: "reserved and extension ranges has overlapping", apply: func(x *ctx) bool {
			r, ok := choose(x, filter(plainMessages(x.f), func(r msgRef) bool { return len(r.m.ExtensionRange)+len(r.m.ReservedRange) > 0 }), "msg")
			if !ok {
				return false
			}
			x.depth = r.depth + 1
			k := x.n(0, len(r.m.ExtensionRange)+len(r.m.ReservedRange)-1, "range")
			if k < len(r.m.ExtensionRange) {
				old := r.m.ExtensionRange[k]
				at := []int32{old.GetStart(), old.GetEnd() - 1, old.GetStart() + (old.GetEnd()-old.GetStart())/2}[x.n(0, 2, "where")]
				r.m.ReservedRange = append(r.m.ReservedRange, &descriptorpb.DescriptorProto_ReservedRange{Start: proto.Int32(at), End: proto.Int32(at + 1)})
				return true
			}
			old := r.m.ReservedRange[k-len(r.m.ExtensionRange)]
			// a reserved range holds no field, so an extension range inside it is otherwise fine
			at := []int32{old.GetStart(), old.GetEnd() - 1}[x.n(0, 1, "where")]
			r.m.ExtensionRange = append(r.m.ExtensionRange, &descriptorpb.DescriptorProto_ExtensionRange{Start: proto.Int32(at), End: proto.Int32(at + 1)})
			return true
		}},
		{name: "enum-reserved-range-inverted", want: "reserved ranges has invalid range", apply: func(x *ctx) bool {
			e, ok := choose(x, enumsOf(x.f), "enum")
			if !ok {
				return false
			}
			// far away from every value (generated values stay within +-2^31 boundaries, so look for a free spot)
			n := freeEnumNumber(e.e) + 1000
			e.e.ReservedRange = append(e.e.ReservedRange, &descriptorpb.EnumDescriptorProto_EnumReservedRange{Start: proto.Int32(n + int32(x.n(1, 5, "by"))), End: proto.Int32(n)})
			x.depth = e.depth + 1
			return true
		}},
		{name: "enum-reserved-ranges-overlap", want: "reserved ranges has overlapping ranges", apply: func(x *ctx) bool {
			e, ok := choose(x, enumsOf(x.f), "enum")
			if !ok {
				return false
			}
			x.depth = e.depth + 1
			if len(e.e.ReservedRange) > 0 {
				old := e.e.ReservedRange[x.n(0, len(e.e.ReservedRange)-1, "range")]
				at := []int32{old.GetStart(), old.GetEnd()}[x.n(0, 1, "where")]
				e.e.ReservedRange = append(e.e.ReservedRange, &descriptorpb.EnumDescriptorProto_EnumReservedRange{Start: proto.Int32(at), End: proto.Int32(at)})
				return true
			}
			// two fresh ranges between value numbers: pick a free number and use it twice
			n := freeEnumNumber(e.e)
			e.e.ReservedRange = append(e.e.ReservedRange,
				&descriptorpb.EnumDescriptorProto_EnumReservedRange{Start: proto.Int32(n), End: proto.Int32(n)},
				&descriptorpb.EnumDescriptorProto_EnumReservedRange{Start: proto.Int32(n), End: proto.Int32(n)})
			return true
		}},
		{name: "reserved-name-duplicate", want: "duplicate name", apply: func(x *ctx) bool {
			if x.n(0, 1, "enum") == 1 {
				e, _ := choose(x, enumsOf(x.f), "enum")
				nm := "c35_dup"
				if len(e.e.ReservedName) > 0 {
					nm = e.e.ReservedName[x.n(0, len(e.e.ReservedName)-1, "name")]
				} else {
					e.e.ReservedName = append(e.e.ReservedName, nm)
				}
				e.e.ReservedName = append(e.e.ReservedName, nm)
				x.depth = e.depth + 1
				return true
			}
			r, _ := choose(x, plainMessages(x.f), "msg")
			nm := "c35_dup"
			if len(r.m.ReservedName) > 0 {
				nm = r.m.ReservedName[x.n(0, len(r.m.ReservedName)-1, "name")]
			} else {
				r.m.ReservedName = append(r.m.ReservedName, nm)
			}
			r.m.ReservedName = append(r.m.ReservedName, nm)
			x.depth = r.depth + 1
			return true
		}},
		// ---- enums --------------------------------------------------------------------------------
		{name: "enum-duplicate-number", want: "conflicting non-aliased values", apply: func(x *ctx) bool {
			e, ok := choose(x, filter(enumsOf(x.f), func(e enumRef) bool { return !e.e.GetOptions().GetAllowAlias() }), "enum")
			if !ok {
				return false
			}
			v := e.e.Value[x.n(0, len(e.e.Value)-1, "value")]
			e.e.Value = append(e.e.Value, &evdp{Name: proto.String("C35_DUP_NUMBER"), Number: proto.Int32(v.GetNumber())})
			x.depth = e.depth + 1
			return true
		}},
		{name: "enum-allow-alias-without-alias", want: "allows aliases, but none were found", apply: func(x *ctx) bool {
			e, ok := choose(x, filter(enumsOf(x.f), func(e enumRef) bool { return distinctNumbers(e.e) }), "enum")
			if !ok {
				return false
			}
			if e.e.Options == nil {
				e.e.Options = &descriptorpb.EnumOptions{}
			}
			e.e.Options.AllowAlias = proto.Bool(true)
			x.depth = e.depth
			return true
		}},
		{name: "enum-empty", want: "at least one value", apply: func(x *ctx) bool {
			e, ok := choose(x, enumsOf(x.f), "enum")
			if !ok {
				return false
			}
			e.e.Value = nil
			x.depth = e.depth
			return true
		}},
		{name: "open-enum-first-value-nonzero", syn: []string{"proto3", "2023", "2024"}, want: "must have zero number for the first value", apply: func(x *ctx) bool {
			e, ok := choose(x, filter(enumsOf(x.f), func(e enumRef) bool { return enumOpen(x.f, e.e) }), "enum")
			if !ok {
				return false
			}
			if x.n(0, 1, "insert") == 1 {
				e.e.Value = append([]*evdp{{Name: proto.String("C35_FIRST"), Number: proto.Int32(freeEnumNumber(e.e))}}, e.e.Value...)
			} else {
				e.e.Value[0].Number = proto.Int32(freeEnumNumber(e.e))
			}
			x.depth = e.depth + 1
			return true
		}},
		// ---- maps ---------------------------------------------------------------------------------
		{name: "map-entry", want: "invalid map", apply: func(x *ctx) bool {
			type mf struct {
				r     fieldRef
				entry *dp
			}
			var cands []mf
			for _, r := range fieldsOf(x.f, false) {
				if e, ok := isMapField(r); ok {
					cands = append(cands, mf{r, e})
				}
			}
			c, ok := choose(x, cands, "map")
			if !ok {
				return false
			}
			x.depth = c.r.m.depth + 1
			e := c.entry
			key, val := e.Field[0], e.Field[1]
			switch x.n(0, 12, "how") {
			case 0: // wrong entry name
				e.Name = proto.String(e.GetName() + "X")
				c.r.f.TypeName = proto.String("." + join(c.r.m.full, e.GetName()))
			case 1: // a third field
				e.Field = append(e.Field, newField("extra", 3))
			case 2: // a field missing
				e.Field = e.Field[:1+x.n(0, 0, "keep")]
			case 3: // nested declarations
				if x.n(0, 1, "enum") == 1 {
					e.EnumType = append(e.EnumType, &edp{Name: proto.String("C35In"), Value: []*evdp{{Name: proto.String("C35_IN_ZERO"), Number: proto.Int32(0)}}})
				} else {
					e.NestedType = append(e.NestedType, &dp{Name: proto.String("C35In")})
				}
			case 4: // key of a kind that cannot be a map key
				bad := []descriptorpb.FieldDescriptorProto_Type{descriptorpb.FieldDescriptorProto_TYPE_FLOAT, descriptorpb.FieldDescriptorProto_TYPE_DOUBLE, descriptorpb.FieldDescriptorProto_TYPE_BYTES, descriptorpb.FieldDescriptorProto_TYPE_ENUM, descriptorpb.FieldDescriptorProto_TYPE_MESSAGE}
				key.Type = bad[x.n(0, len(bad)-1, "kind")].Enum()
				key.TypeName = nil
				switch key.GetType() {
				case descriptorpb.FieldDescriptorProto_TYPE_ENUM:
					en := enumsOf(x.f)
					key.TypeName = proto.String("." + en[x.n(0, len(en)-1, "enum")].full)
				case descriptorpb.FieldDescriptorProto_TYPE_MESSAGE:
					ms := plainMessages(x.f)
					key.TypeName = proto.String("." + ms[x.n(0, len(ms)-1, "msg")].full)
				}
				if key.Options != nil {
					key.Options.Features = nil
				}
			case 5: // the map field is not repeated
				c.r.f.Label = lOpt()
			case 6:
				key.Name = proto.String("k")
			case 7:
				key.Number = proto.Int32(3)
			case 8:
				val.Name = proto.String("val")
			case 9:
				val.Number = proto.Int32(3)
			case 10:
				if x.n(0, 1, "value") == 1 {
					val.Label = lRep()
				} else {
					key.Label = lRep()
				}
			case 11: // the field uses the entry of another scope
				x.f.MessageType = append(x.f.MessageType, &dp{Name: proto.String("C35Other"), Field: []*fldp{
					{Name: proto.String(c.r.f.GetName()), Number: proto.Int32(1), Label: lRep(), Type: tMsg(), TypeName: proto.String(c.r.f.GetTypeName())}}})
				x.depth = 1
			case 12: // extension range in the entry
				e.ExtensionRange = append(e.ExtensionRange, &descriptorpb.DescriptorProto_ExtensionRange{Start: proto.Int32(10), End: proto.Int32(20)})
			}
			return true
		}},
		{name: "extension-of-map-entry-type", syn: synNotP3, want: "cannot be a map entry", apply: func(x *ctx) bool {
			var entries []msgRef
			for _, r := range messagesOf(x.f) {
				if r.isMapEntry() {
					entries = append(entries, r)
				}
			}
			e, ok := choose(x, extensionsOf(x.f), "ext")
			if !ok || len(entries) == 0 {
				return false
			}
			e.x.Type, e.x.Label = tMsg(), lRep()
			e.x.TypeName = proto.String("." + entries[x.n(0, len(entries)-1, "entry")].full)
			e.x.DefaultValue, e.x.Options = nil, nil
			x.depth = e.depth
			return true
		}},
		// ---- groups -------------------------------------------------------------------------------
		{name: "group", syn: synP2, want: "invalid group", apply: func(x *ctx) bool {
			gs := filter(fieldsOf(x.f, false), func(r fieldRef) bool { return r.f.GetType() == descriptorpb.FieldDescriptorProto_TYPE_GROUP })
			g, ok := choose(x, gs, "group")
			if !ok {
				return false
			}
			x.depth = g.m.depth + 1
			switch x.n(0, 3, "how") {
			case 0: // field name is not the lower-cased type name
				g.f.Name = proto.String("c35_renamed_group")
			case 1: // the type lives in another scope: a copy of the group's message, same name, nested somewhere else
				var gm *dp
				for _, n := range g.m.m.NestedType {
					if "."+join(g.m.full, n.GetName()) == g.f.GetTypeName() {
						gm = n
					}
				}
				if gm == nil {
					return false
				}
				others := filter(plainMessages(x.f), func(r msgRef) bool {
					if r.m == g.m.m || r.m == gm {
						return false
					}
					for _, nm := range childNames(r.m) {
						if nm == gm.GetName() {
							return false
						}
					}
					return true
				})
				o, ok := choose(x, others, "other")
				if !ok {
					return false
				}
				o.m.NestedType = append(o.m.NestedType, &dp{Name: proto.String(gm.GetName()), Field: []*fldp{newField("a", 1)}})
				g.f.TypeName = proto.String("." + join(o.full, gm.GetName()))
			case 2: // type name starting with a lower-case letter
				for _, n := range g.m.m.NestedType {
					if "."+join(g.m.full, n.GetName()) == g.f.GetTypeName() {
						nn := "c35g" + n.GetName()
						n.Name = proto.String(nn)
						g.f.TypeName = proto.String("." + join(g.m.full, nn))
						g.f.Name = proto.String(strings.ToLower(nn))
						return true
					}
				}
				return false
			case 3: // the type cannot be resolved (a name of the right shape in the right scope): a placeholder cannot stand in for a group
				g.f.TypeName = proto.String("." + join(g.m.full, "C35Missing"))
				g.f.Name = proto.String("c35missing")
			}
			return true
		}},
		{name: "proto3-group", syn: synP3, want: "invalid under proto3 semantics", apply: func(x *ctx) bool {
			// a group field that would be fine in proto2: type nested in the same message, upper-case initial,
			// field named with the lower-cased type name
			usable := func(r msgRef) []*dp {
				names := map[string]bool{}
				for _, nm := range childNames(r.m) {
					names[nm] = true
				}
				return filter(r.m.NestedType, func(n *dp) bool {
					nm := n.GetName()
					return !n.GetOptions().GetMapEntry() && nm != "" && nm[0] >= 'A' && nm[0] <= 'Z' && !names[strings.ToLower(nm)]
				})
			}
			r, ok := choose(x, filter(plainMessages(x.f), func(r msgRef) bool {
				_, free := freeNumber(r.m)
				return free && len(usable(r)) > 0
			}), "msg")
			if !ok {
				return false
			}
			nested := usable(r)
			n := nested[x.n(0, len(nested)-1, "type")]
			num, _ := freeNumber(r.m)
			r.m.Field = append(r.m.Field, &fldp{Name: proto.String(strings.ToLower(n.GetName())), Number: proto.Int32(num), Label: lOpt(), Type: tGrp(), TypeName: proto.String("." + join(r.full, n.GetName()))})
			x.depth = r.depth + 1
			return true
		}},
		// ---- oneofs -------------------------------------------------------------------------------
		{name: "oneof-empty", want: "at least one field", apply: func(x *ctx) bool {
			r, ok := choose(x, plainMessages(x.f), "msg")
			if !ok {
				return false
			}
			r.m.OneofDecl = append(r.m.OneofDecl, &odp{Name: proto.String("c35_empty")})
			x.depth = r.depth + 1
			return true
		}},
		{name: "oneof-not-consecutive", want: "consecutively declared", apply: func(x *ctx) bool {
			type cand struct {
				r  msgRef
				at int
			}
			var cands []cand
			for _, r := range plainMessages(x.f) {
				if _, free := freeNumber(r.m); !free {
					continue
				}
				for i := 1; i < len(r.m.Field); i++ {
					a, b := r.m.Field[i-1], r.m.Field[i]
					if a.OneofIndex != nil && b.OneofIndex != nil && a.GetOneofIndex() == b.GetOneofIndex() {
						cands = append(cands, cand{r, i})
					}
				}
			}
			c, ok := choose(x, cands, "where")
			if !ok {
				return false
			}
			num, _ := freeNumber(c.r.m)
			fs := append([]*fldp{}, c.r.m.Field[:c.at]...)
			fs = append(fs, newField("c35_between", num))
			c.r.m.Field = append(fs, c.r.m.Field[c.at:]...)
			x.depth = c.r.depth + 1
			return true
		}},
		{name: "oneof-member-repeated", want: "belongs in a oneof and must be optional", apply: func(x *ctx) bool {
			r, ok := choose(x, filter(fieldsOf(x.f, false), realOneofMember), "member")
			if !ok {
				return false
			}
			r.f.Label = lRep()
			r.f.DefaultValue = nil
			x.depth = r.m.depth + 1
			return true
		}},
		{name: "oneof-member-required", syn: synNotP3, want: "belongs in a oneof and must be optional", apply: func(x *ctx) bool {
			r, ok := choose(x, filter(fieldsOf(x.f, false), realOneofMember), "member")
			if !ok {
				return false
			}
			if x.syntax() == "proto2" {
				r.f.Label = lReq()
			} else {
				fieldFeatures(r.f).FieldPresence = descriptorpb.FeatureSet_LEGACY_REQUIRED.Enum()
			}
			x.depth = r.m.depth + 1
			return true
		}},
		{name: "oneof-index-out-of-range", want: "invalid oneof index", apply: func(x *ctx) bool {
			r, ok := choose(x, fieldsOf(x.f, false), "field")
			if !ok {
				return false
			}
			r.f.OneofIndex = proto.Int32([]int32{int32(len(r.m.m.OneofDecl)), -1, math.MaxInt32, math.MinInt32}[x.n(0, 3, "index")])
			x.depth = r.m.depth + 1
			return true
		}},
		{name: "real-oneof-after-synthetic", syn: synP3, want: "before synthetic oneofs", apply: func(x *ctx) bool {
			r, ok := choose(x, filter(plainMessages(x.f), func(r msgRef) bool {
				_, free := freeNumber(r.m)
				for _, f := range r.m.Field {
					if f.GetProto3Optional() && free {
						return true
					}
				}
				return false
			}), "msg")
			if !ok {
				return false
			}
			num, _ := freeNumber(r.m)
			fd := newField("c35_late_member", num)
			fd.OneofIndex = proto.Int32(int32(len(r.m.OneofDecl)))
			r.m.Field = append(r.m.Field, fd)
			r.m.OneofDecl = append(r.m.OneofDecl, &odp{Name: proto.String("c35_late")})
			x.depth = r.depth + 1
			return true
		}},
		// ---- proto3-forbidden ------------------------------------------------------------------------
		{name: "proto3-required", syn: synP3, want: "cannot be required", apply: func(x *ctx) bool {
			r, ok := choose(x, filter(fieldsOf(x.f, false), func(r fieldRef) bool {
				return r.f.OneofIndex == nil && r.f.GetLabel() == descriptorpb.FieldDescriptorProto_LABEL_OPTIONAL
			}), "field")
			if !ok {
				return false
			}
			r.f.Label = lReq()
			x.depth = r.m.depth + 1
			return true
		}},
		{name: "proto3-extension-range", syn: synP3, want: "cannot have extension ranges", apply: func(x *ctx) bool {
			r, ok := choose(x, filter(plainMessages(x.f), func(r msgRef) bool { _, ok := clearRegion(r.m); return ok }), "msg")
			if !ok {
				return false
			}
			n, _ := clearRegion(r.m)
			r.m.ExtensionRange = append(r.m.ExtensionRange, &descriptorpb.DescriptorProto_ExtensionRange{Start: proto.Int32(n), End: proto.Int32(n + 10)})
			x.depth = r.depth + 1
			return true
		}},
		{name: "proto3-closed-enum-field", syn: synP3, want: "may only depend on open enums", apply: func(x *ctx) bool {
			r, ok := choose(x, filter(plainMessages(x.f), func(r msgRef) bool { _, ok := freeNumber(r.m); return ok }), "msg")
			if !ok {
				return false
			}
			num, _ := freeNumber(r.m)
			fd := &fldp{Name: proto.String("c35_closed"), Number: proto.Int32(num), Label: lOpt(), Type: tEnm(), TypeName: proto.String(".c35dep.Closed")}
			if x.n(0, 1, "repeated") == 1 {
				fd.Label = lRep()
			}
			r.m.Field = append(r.m.Field, fd)
			x.depth = r.depth + 1
			return true
		}},
		{name: "proto3-extension-of-message", syn: synP3, want: "cannot be declared in proto3", apply: func(x *ctx) bool {
			xd := &fldp{Name: proto.String("c35_px"), Number: proto.Int32(int32(x.n(1, 999, "num"))), Label: lOpt(), Type: tI32(), Extendee: proto.String(".c35dep.Extendable")}
			ms := plainMessages(x.f)
			if k := x.n(0, len(ms), "scope"); k < len(ms) {
				ms[k].m.Extension = append(ms[k].m.Extension, xd)
				x.depth = ms[k].depth + 1
			} else {
				x.f.Extension = append(x.f.Extension, xd)
			}
			return true
		}},
		{name: "default-with-implicit-presence", syn: []string{"proto3", "2023", "2024"}, want: "implicit field presence", apply: func(x *ctx) bool {
			r, ok := choose(x, filter(fieldsOf(x.f, false), func(r fieldRef) bool {
				return r.f.OneofIndex == nil && r.f.GetLabel() == descriptorpb.FieldDescriptorProto_LABEL_OPTIONAL && isScalarType(r.f.GetType())
			}), "field")
			if !ok {
				return false
			}
			if x.syntax() == "editions" {
				fieldFeatures(r.f).FieldPresence = descriptorpb.FeatureSet_IMPLICIT.Enum()
			}
			if r.f.DefaultValue == nil {
				r.f.DefaultValue = proto.String(validDefault(r.f.GetType()))
			}
			x.depth = r.m.depth + 1
			return true
		}},
		{name: "implicit-presence-closed-enum", syn: synEd, want: "implicit presence may only use open enums", apply: func(x *ctx) bool {
			r, ok := choose(x, filter(plainMessages(x.f), func(r msgRef) bool { _, ok := freeNumber(r.m); return ok }), "msg")
			if !ok {
				return false
			}
			num, _ := freeNumber(r.m)
			fd := &fldp{Name: proto.String("c35_closed"), Number: proto.Int32(num), Label: lOpt(), Type: tEnm(), TypeName: proto.String(".c35dep.Closed")}
			fieldFeatures(fd).FieldPresence = descriptorpb.FeatureSet_IMPLICIT.Enum()
			r.m.Field = append(r.m.Field, fd)
			x.depth = r.depth + 1
			return true
		}},
		// ---- proto3_optional ---------------------------------------------------------------------------
		{name: "proto3-optional-outside-proto3", syn: synNotP3, want: "must be specified in the proto3 syntax", apply: func(x *ctx) bool {
			r, ok := choose(x, fieldsOf(x.f, false), "field")
			if !ok {
				return false
			}
			r.f.Proto3Optional = proto.Bool(true)
			x.depth = r.m.depth + 1
			return true
		}},
		{name: "proto3-optional-in-real-oneof", syn: synP3, want: "single element oneof", apply: func(x *ctx) bool {
			r, ok := choose(x, filter(fieldsOf(x.f, false), func(r fieldRef) bool {
				if !realOneofMember(r) {
					return false
				}
				n := 0
				for _, f := range r.m.m.Field {
					if f.OneofIndex != nil && f.GetOneofIndex() == r.f.GetOneofIndex() {
						n++
					}
				}
				return n >= 2
			}), "member")
			if !ok {
				return false
			}
			r.f.Proto3Optional = proto.Bool(true)
			x.depth = r.m.depth + 1
			return true
		}},
		{name: "proto3-optional-repeated", syn: synP3, want: "must have optional cardinality", apply: func(x *ctx) bool {
			r, ok := choose(x, filter(fieldsOf(x.f, false), func(r fieldRef) bool { return r.f.GetLabel() == descriptorpb.FieldDescriptorProto_LABEL_REPEATED }), "field")
			if !ok {
				return false
			}
			r.f.Proto3Optional = proto.Bool(true)
			x.depth = r.m.depth + 1
			return true
		}},
		// ---- packed -----------------------------------------------------------------------------------
		{name: "packed-on-singular", want: "not packable", apply: func(x *ctx) bool {
			type cand struct {
				f     *fldp
				depth int
			}
			var cands []cand
			for _, r := range fieldsOf(x.f, false) {
				if r.f.GetLabel() != descriptorpb.FieldDescriptorProto_LABEL_REPEATED && isNumericType(r.f.GetType()) {
					cands = append(cands, cand{r.f, r.m.depth + 1})
				}
			}
			for _, e := range extensionsOf(x.f) {
				if e.x.GetLabel() != descriptorpb.FieldDescriptorProto_LABEL_REPEATED && isNumericType(e.x.GetType()) {
					cands = append(cands, cand{e.x, e.depth})
				}
			}
			c, ok := choose(x, cands, "field")
			if !ok {
				return false
			}
			if c.f.Options == nil {
				c.f.Options = &descriptorpb.FieldOptions{}
			}
			c.f.Options.Packed = proto.Bool(true)
			x.depth = c.depth
			return true
		}},
		{name: "packed-on-string-bytes-message", want: "not packable", apply: func(x *ctx) bool {
			type cand struct {
				f     *fldp
				depth int
			}
			var cands []cand
			ok := func(f *fldp) bool {
				if f.GetLabel() != descriptorpb.FieldDescriptorProto_LABEL_REPEATED {
					return false
				}
				switch f.GetType() {
				case descriptorpb.FieldDescriptorProto_TYPE_STRING, descriptorpb.FieldDescriptorProto_TYPE_BYTES, descriptorpb.FieldDescriptorProto_TYPE_MESSAGE, descriptorpb.FieldDescriptorProto_TYPE_GROUP:
					return true
				}
				return false
			}
			for _, r := range fieldsOf(x.f, false) {
				if ok(r.f) {
					cands = append(cands, cand{r.f, r.m.depth + 1})
				}
			}
			for _, e := range extensionsOf(x.f) {
				if ok(e.x) {
					cands = append(cands, cand{e.x, e.depth})
				}
			}
			c, found := choose(x, cands, "field")
			if !found {
				return false
			}
			if c.f.Options == nil {
				c.f.Options = &descriptorpb.FieldOptions{}
			}
			c.f.Options.Packed = proto.Bool(true)
			x.depth = c.depth
			return true
		}},
		// ---- references -----------------------------------------------------------------------------------
		{name: "type-unresolvable", loose: true, want: "not found", apply: func(x *ctx) bool {
			r, ok := choose(x, filter(fieldsOf(x.f, false), func(r fieldRef) bool {
				_, isMap := isMapField(r)
				t := r.f.GetType()
				// a group / DELIMITED field must be resolvable even with AllowUnresolvable
				return !isMap && !delimited(x.f, r.f) && (t == descriptorpb.FieldDescriptorProto_TYPE_MESSAGE || t == descriptorpb.FieldDescriptorProto_TYPE_ENUM)
			}), "field")
			if !ok {
				return false
			}
			r.f.TypeName = proto.String([]string{".c35.no.Such", "C35NoSuch", "c35no.Such"}[x.n(0, 2, "name")])
			x.depth = r.m.depth + 1
			return true
		}},
		{name: "extension-type-unresolvable", syn: synNotP3, loose: true, want: "not found", apply: func(x *ctx) bool {
			e, ok := choose(x, extensionsOf(x.f), "ext")
			if !ok {
				return false
			}
			e.x.DefaultValue, e.x.Options = nil, nil
			e.x.Type = tEnm()
			if !delimited(x.f, e.x) && x.n(0, 1, "message") == 1 {
				e.x.Type = tMsg()
			}
			e.x.TypeName = proto.String([]string{".c35.no.Such", "C35NoSuch"}[x.n(0, 1, "name")])
			x.depth = e.depth
			return true
		}},
		{name: "extendee-unresolvable", syn: synNotP3, loose: true, want: "cannot resolve extendee", apply: func(x *ctx) bool {
			e, ok := choose(x, extensionsOf(x.f), "ext")
			if !ok {
				return false
			}
			e.x.Extendee = proto.String([]string{".c35.no.Such", "C35NoSuch"}[x.n(0, 1, "name")])
			x.depth = e.depth
			return true
		}},
		{name: "method-type-unresolvable", loose: true, want: "cannot resolve", apply: func(x *ctx) bool {
			m, _ := choose(x, methodsOf(x.f), "method")
			if x.n(0, 1, "output") == 1 {
				m.OutputType = proto.String(".c35.no.Such")
			} else {
				m.InputType = proto.String("C35NoSuch")
			}
			x.depth = 1
			return true
		}},
		{name: "enum-default-unresolvable", syn: synNotP3, loose: true, want: "invalid default", apply: func(x *ctx) bool {
			r, ok := choose(x, filter(fieldsOf(x.f, false), func(r fieldRef) bool {
				if r.f.GetType() != descriptorpb.FieldDescriptorProto_TYPE_ENUM || r.f.GetLabel() == descriptorpb.FieldDescriptorProto_LABEL_REPEATED {
					return false
				}
				fs := r.f.GetOptions().GetFeatures()
				return x.syntax() == "proto2" || r.f.OneofIndex != nil || fs != nil && fs.FieldPresence != nil && fs.GetFieldPresence() != descriptorpb.FeatureSet_IMPLICIT
			}), "field")
			if !ok {
				return false
			}
			r.f.DefaultValue = proto.String("C35_NO_SUCH_VALUE")
			x.depth = r.m.depth + 1
			return true
		}},
		{name: "type-of-wrong-kind", want: "but it is not", apply: func(x *ctx) bool {
			ms, es := plainMessages(x.f), enumsOf(x.f)
			what := x.n(0, 3, "what")
			if what == 2 && len(extensionsOf(x.f)) == 0 {
				what = 0
			}
			switch what {
			case 0, 1:
				r, ok := choose(x, filter(fieldsOf(x.f, false), func(r fieldRef) bool {
					_, isMap := isMapField(r)
					t := r.f.GetType()
					return !isMap && (t == descriptorpb.FieldDescriptorProto_TYPE_MESSAGE || t == descriptorpb.FieldDescriptorProto_TYPE_ENUM)
				}), "field")
				if !ok {
					return false
				}
				if r.f.GetType() == descriptorpb.FieldDescriptorProto_TYPE_ENUM {
					r.f.TypeName = proto.String("." + ms[x.n(0, len(ms)-1, "msg")].full)
				} else {
					r.f.TypeName = proto.String("." + es[x.n(0, len(es)-1, "enum")].full)
				}
				r.f.DefaultValue = nil
				x.depth = r.m.depth + 1
			case 2:
				e, ok := choose(x, extensionsOf(x.f), "ext")
				if !ok {
					return false
				}
				e.x.Extendee = proto.String("." + es[x.n(0, len(es)-1, "enum")].full)
				x.depth = e.depth
			case 3:
				m, _ := choose(x, methodsOf(x.f), "method")
				m.InputType = proto.String("." + es[x.n(0, len(es)-1, "enum")].full)
				x.depth = 1
			}
			return true
		}},
		{name: "type-name-on-scalar", want: "target name cannot be specified", apply: func(x *ctx) bool {
			r, ok := choose(x, filter(fieldsOf(x.f, false), func(r fieldRef) bool { return isScalarType(r.f.GetType()) }), "field")
			if !ok {
				return false
			}
			ms := plainMessages(x.f)
			r.f.TypeName = proto.String("." + ms[x.n(0, len(ms)-1, "msg")].full)
			x.depth = r.m.depth + 1
			return true
		}},
		{name: "type-invalid-kind", want: "cannot resolve type", apply: func(x *ctx) bool {
			r, ok := choose(x, filter(fieldsOf(x.f, false), func(r fieldRef) bool { return isScalarType(r.f.GetType()) }), "field")
			if !ok {
				return false
			}
			if k := x.n(0, 3, "kind"); k == 3 {
				r.f.Type = nil // unknown kind and no name to infer it from
			} else {
				setEnumNumber(r.f, "type", []int32{19, -1, 1000}[k])
			}
			r.f.DefaultValue = nil
			x.depth = r.m.depth + 1
			return true
		}},
		{name: "type-name-malformed", want: "cannot resolve type", apply: func(x *ctx) bool {
			r, ok := choose(x, filter(fieldsOf(x.f, false), func(r fieldRef) bool {
				_, isMap := isMapField(r)
				t := r.f.GetType()
				return !isMap && (t == descriptorpb.FieldDescriptorProto_TYPE_MESSAGE || t == descriptorpb.FieldDescriptorProto_TYPE_ENUM)
			}), "field")
			if !ok {
				return false
			}
			r.f.TypeName = proto.String([]string{"", ".", "..x", "a..b", "x.", "1x", ".a-b"}[x.n(0, 6, "name")])
			x.depth = r.m.depth + 1
			return true
		}},
		{name: "dependency-not-imported", noDep: true, nfLooseAny: true, want: "is not imported", apply: func(x *ctx) bool {
			r, ok := choose(x, filter(plainMessages(x.f), func(r msgRef) bool { _, ok := freeNumber(r.m); return ok }), "msg")
			if !ok {
				return false
			}
			num, _ := freeNumber(r.m)
			r.m.Field = append(r.m.Field, &fldp{Name: proto.String("c35_foreign"), Number: proto.Int32(num), Label: lOpt(), Type: tMsg(), TypeName: proto.String(".c35dep.Msg")})
			x.depth = r.depth + 1
			return true
		}},
		{name: "import-unresolvable", loose: true, want: "could not resolve import", apply: func(x *ctx) bool {
			x.f.Dependency = append(x.f.Dependency, "c35/no/such.proto")
			return true
		}},
		{name: "import-duplicate", want: "already imported", apply: func(x *ctx) bool {
			if x.n(0, 3, "self") == 0 {
				x.f.Dependency = append(x.f.Dependency, x.f.GetName())
				return true
			}
			x.f.Dependency = append(x.f.Dependency, x.f.Dependency[x.n(0, len(x.f.Dependency)-1, "dep")])
			return true
		}},
		{name: "public-dependency-index", want: "public import index", apply: func(x *ctx) bool {
			n := int32(len(x.f.Dependency))
			switch k := x.n(0, 4, "how"); k {
			case 0, 1, 2, 3:
				x.f.PublicDependency = append(x.f.PublicDependency, []int32{n, -1, math.MaxInt32, math.MinInt32}[k])
			case 4: // the same index twice
				i := int32(x.n(0, int(n)-1, "dep"))
				x.f.PublicDependency = append(x.f.PublicDependency, i)
				cnt := 0
				for _, p := range x.f.PublicDependency {
					if p == i {
						cnt++
					}
				}
				if cnt < 2 {
					x.f.PublicDependency = append(x.f.PublicDependency, i)
				}
			}
			return true
		}},
		// ---- defaults -----------------------------------------------------------------------------------
		{name: "default-on-repeated", syn: synNotP3, want: "invalid default", apply: func(x *ctx) bool {
			r, ok := choose(x, filter(fieldsOf(x.f, false), func(r fieldRef) bool {
				return r.f.GetLabel() == descriptorpb.FieldDescriptorProto_LABEL_REPEATED && isScalarType(r.f.GetType())
			}), "field")
			if !ok {
				return false
			}
			r.f.DefaultValue = proto.String(validDefault(r.f.GetType()))
			x.depth = r.m.depth + 1
			return true
		}},
		{name: "default-on-message", syn: synNotP3, want: "invalid default", apply: func(x *ctx) bool {
			r, ok := choose(x, filter(fieldsOf(x.f, false), func(r fieldRef) bool {
				_, isMap := isMapField(r)
				return !isMap && (r.f.GetType() == descriptorpb.FieldDescriptorProto_TYPE_MESSAGE || r.f.GetType() == descriptorpb.FieldDescriptorProto_TYPE_GROUP)
			}), "field")
			if !ok {
				return false
			}
			r.f.DefaultValue = proto.String([]string{"", "x", "{}", "0"}[x.n(0, 3, "text")])
			x.depth = r.m.depth + 1
			return true
		}},
		{name: "default-unparsable", syn: synNotP3, want: "invalid default", apply: func(x *ctx) bool {
			r, ok := choose(x, filter(fieldsOf(x.f, false), func(r fieldRef) bool {
				t := r.f.GetType()
				return r.f.GetLabel() != descriptorpb.FieldDescriptorProto_LABEL_REPEATED && (isNumericType(t) || t == descriptorpb.FieldDescriptorProto_TYPE_BOOL || t == descriptorpb.FieldDescriptorProto_TYPE_ENUM)
			}), "field")
			if !ok {
				return false
			}
			var pool []string
			switch t := r.f.GetType(); t {
			case descriptorpb.FieldDescriptorProto_TYPE_BOOL:
				pool = []string{"maybe", "1", "TRUE", ""}
			case descriptorpb.FieldDescriptorProto_TYPE_ENUM:
				pool = []string{"1x", "", "a.b", "0"} // not identifiers: no placeholder can stand in for them
			case descriptorpb.FieldDescriptorProto_TYPE_FLOAT, descriptorpb.FieldDescriptorProto_TYPE_DOUBLE:
				pool = []string{"abc", "", "1e", "--1", "1.5.2"}
			case descriptorpb.FieldDescriptorProto_TYPE_INT32, descriptorpb.FieldDescriptorProto_TYPE_SINT32, descriptorpb.FieldDescriptorProto_TYPE_SFIXED32:
				pool = []string{"abc", "", "1.5", "2147483648", "-2147483649", "0x10"}
			case descriptorpb.FieldDescriptorProto_TYPE_UINT32, descriptorpb.FieldDescriptorProto_TYPE_FIXED32:
				pool = []string{"abc", "", "-1", "4294967296", "1e3"}
			case descriptorpb.FieldDescriptorProto_TYPE_UINT64, descriptorpb.FieldDescriptorProto_TYPE_FIXED64:
				pool = []string{"abc", "", "-1", "18446744073709551616"}
			default:
				pool = []string{"abc", "", "9223372036854775808", "-9223372036854775809", "1.0"}
			}
			r.f.DefaultValue = proto.String(pool[x.n(0, len(pool)-1, "text")])
			x.depth = r.m.depth + 1
			return true
		}},
		// ---- the file itself -------------------------------------------------------------------------------
		{name: "file-without-name", want: "file path must be populated", apply: func(x *ctx) bool {
			if x.n(0, 1, "empty") == 1 {
				x.f.Name = proto.String("")
			} else {
				x.f.Name = nil
			}
			return true
		}},
		{name: "bad-syntax", want: "invalid syntax", apply: func(x *ctx) bool {
			x.f.Syntax = proto.String([]string{"proto4", "PROTO3", "proto1", "editions2023", " proto3", "proto2 ", "edition"}[x.n(0, 6, "syntax")])
			return true
		}},
		{name: "unsupported-edition", syn: synEd, want: "not yet supported", apply: func(x *ctx) bool {
			vals := []int32{0, 1, 2, 900, 1002, 9998, 10000, 99997, 99998, 99999, math.MaxInt32, -1}
			if k := x.n(0, len(vals), "edition"); k == len(vals) {
				x.f.Edition = nil
			} else {
				setEnumNumber(x.f, "edition", vals[k])
			}
			return true
		}},
		{name: "invalid-package", want: "invalid package", apply: func(x *ctx) bool {
			x.f.Package = proto.String([]string{"a..b", ".a", "a.", "1a", "a-b", "a b", ".", "é"}[x.n(0, 7, "pkg")])
			return true
		}},
		// ---- other field rules the validator states ----------------------------------------------------------
		{name: "field-with-extendee", want: "may not have extendee", apply: func(x *ctx) bool {
			r, ok := choose(x, fieldsOf(x.f, false), "field")
			if !ok {
				return false
			}
			r.f.Extendee = proto.String("." + r.m.full)
			x.depth = r.m.depth + 1
			return true
		}},
		{name: "extension-in-oneof", syn: synNotP3, want: "may not be part of a oneof", apply: func(x *ctx) bool {
			e, ok := choose(x, extensionsOf(x.f), "ext")
			if !ok {
				return false
			}
			e.x.OneofIndex = proto.Int32(0)
			x.depth = e.depth
			return true
		}},
		{name: "extension-required", syn: synP2, want: "invalid cardinality", apply: func(x *ctx) bool {
			e, ok := choose(x, extensionsOf(x.f), "ext")
			if !ok {
				return false
			}
			e.x.Label = lReq()
			e.x.DefaultValue = nil
			x.depth = e.depth
			return true
		}},
		{name: "extension-json-name", syn: synNotP3, want: "explicitly set JSON name", apply: func(x *ctx) bool {
			e, ok := choose(x, extensionsOf(x.f), "ext")
			if !ok {
				return false
			}
			e.x.JsonName = proto.String("c35!" + e.x.GetName())
			x.depth = e.depth
			return true
		}},
		{name: "label-invalid", want: "invalid cardinality", apply: func(x *ctx) bool {
			v := []int32{0, 4, -1, 100}[x.n(0, 3, "label")]
			if es := extensionsOf(x.f); len(es) > 0 && x.n(0, 2, "ext") == 0 {
				e := es[x.n(0, len(es)-1, "which")]
				setEnumNumber(e.x, "label", v)
				x.depth = e.depth
				return true
			}
			r, ok := choose(x, filter(fieldsOf(x.f, false), func(r fieldRef) bool {
				// features.field_presence = LEGACY_REQUIRED replaces whatever the label says (observed: protodesc
				// then never looks at the label), so the label is only definitely wrong without it
				_, isMap := isMapField(r)
				return !isMap && !legacyRequired(x.f, r.f)
			}), "field")
			if !ok {
				return false
			}
			setEnumNumber(r.f, "label", v)
			r.f.DefaultValue = nil
			x.depth = r.m.depth + 1
			return true
		}},
		{name: "message-set-with-fields", want: "MessageSet", apply: func(x *ctx) bool {
			r, ok := choose(x, filter(plainMessages(x.f), withFields), "msg")
			if !ok {
				return false
			}
			if r.m.Options == nil {
				r.m.Options = &descriptorpb.MessageOptions{}
			}
			r.m.Options.MessageSetWireFormat = proto.Bool(true)
			x.depth = r.depth
			return true
		}},
	}
}
