package c35

import (
	"fmt"
	"testing"

	"google.golang.org/protobuf/proto"
	"google.golang.org/protobuf/types/descriptorpb"
	"google.golang.org/protobuf/zverif/pbt"
)

const kfPacked = "KF-protodesc-packed-not-validated"

func TestWitnesses(t *testing.T) {
	// message M { optional int32 a = 1 [packed = true]; repeated string s = 2 [packed = true]; }
	for _, w := range []struct {
		what string
		fd   *fldp
	}{
		{"optional int32 a = 1 [packed = true]", &fldp{Name: proto.String("a"), Number: proto.Int32(1), Label: lOpt(), Type: tI32(), Options: &descriptorpb.FieldOptions{Packed: proto.Bool(true)}}},
		{"repeated string s = 2 [packed = true]", &fldp{Name: proto.String("s"), Number: proto.Int32(2), Label: lRep(), Type: tStr(), Options: &descriptorpb.FieldOptions{Packed: proto.Bool(true)}}},
	} {
		p := &fdp{Name: proto.String("witness.proto"), Package: proto.String("w"), MessageType: []*dp{{Name: proto.String("M"), Field: []*fldp{w.fd}}}}
		v := newFile(p, nil, false)
		pbt.Witness(t, kfPacked, v.err == nil && v.panic == "", "protodesc.NewFile accepts message M { "+w.what+"; }")
	}
	// the path prefix switches the "edition not supported" error off; EDITION_1_TEST_ONLY then has no defaults
	// (EDITION_UNKNOWN = edition field absent would end the process with os.Exit(1) instead of panicking)
	p := &fdp{Name: proto.String(testdataPrefix + "x.proto"), Syntax: proto.String("editions"), Edition: descriptorpb.Edition_EDITION_1_TEST_ONLY.Enum()}
	if !hitsTestdataHook(p) {
		t.Fatal("harness: predicate does not recognise its own witness")
	}
	v := newFile(p, nil, false)
	pbt.Witness(t, kfTestdataHook, v.panic != "", fmt.Sprintf("protodesc.NewFile(name=%q syntax=editions edition=EDITION_1_TEST_ONLY) panics: %.120s", p.GetName(), v.panic))
}
