package c35

import (
	"fmt"
	"math"
	"strings"

	"google.golang.org/protobuf/proto"
	"google.golang.org/protobuf/types/descriptorpb"
)

type (
	fdp  = descriptorpb.FileDescriptorProto
	dp   = descriptorpb.DescriptorProto
	fldp = descriptorpb.FieldDescriptorProto
	edp  = descriptorpb.EnumDescriptorProto
	evdp = descriptorpb.EnumValueDescriptorProto
	odp  = descriptorpb.OneofDescriptorProto
)

const (
	depPath   = "c35dep.proto"
	maxNumber = 1<<29 - 1
)

var (
	lOpt = descriptorpb.FieldDescriptorProto_LABEL_OPTIONAL.Enum
	lRep = descriptorpb.FieldDescriptorProto_LABEL_REPEATED.Enum
	lReq = descriptorpb.FieldDescriptorProto_LABEL_REQUIRED.Enum
	tI32 = descriptorpb.FieldDescriptorProto_TYPE_INT32.Enum
	tStr = descriptorpb.FieldDescriptorProto_TYPE_STRING.Enum
	tMsg = descriptorpb.FieldDescriptorProto_TYPE_MESSAGE.Enum
	tEnm = descriptorpb.FieldDescriptorProto_TYPE_ENUM.Enum
	tGrp = descriptorpb.FieldDescriptorProto_TYPE_GROUP.Enum
)

// depFile is a fixed proto2 file every base set starts with: a closed enum, an extendable message
// and a plain message for the operators that need a declaration of another file.
func depFile() *fdp {
	return &fdp{
		Name: proto.String(depPath), Package: proto.String("c35dep"),
		MessageType: []*dp{
			{Name: proto.String("Msg"), Field: []*fldp{{Name: proto.String("a"), Number: proto.Int32(1), Label: lOpt(), Type: tI32()}}},
			{Name: proto.String("Extendable"), ExtensionRange: []*descriptorpb.DescriptorProto_ExtensionRange{{Start: proto.Int32(1), End: proto.Int32(1000)}}},
		},
		EnumType: []*edp{{Name: proto.String("Closed"), Value: []*evdp{{Name: proto.String("CLOSED_ONE"), Number: proto.Int32(1)}, {Name: proto.String("CLOSED_ZERO"), Number: proto.Int32(0)}}}},
	}
}

func syntaxOf(f *fdp) string {
	switch f.GetSyntax() {
	case "proto3":
		return "proto3"
	case "editions":
		return "editions"
	}
	return "proto2"
}

// victim returns a small valid message with one specimen of every construct the operators break,
// named so that it cannot collide with the generator's vocabulary. full is its full name.
func victim(syntax, full string) *dp {
	ref := func(s string) *string { return proto.String("." + full + "." + s) }
	m := &dp{Name: proto.String(full[strings.LastIndexByte(full, '.')+1:])}
	m.Field = []*fldp{
		{Name: proto.String("c35_a"), Number: proto.Int32(1), Label: lOpt(), Type: tI32()},
		{Name: proto.String("c35_b"), Number: proto.Int32(2), Label: lOpt(), Type: tStr()},
		{Name: proto.String("c35_c"), Number: proto.Int32(3), Label: lRep(), Type: tI32()},
		{Name: proto.String("c35_d"), Number: proto.Int32(4), Label: lOpt(), Type: tI32(), OneofIndex: proto.Int32(0)},
		{Name: proto.String("c35_e"), Number: proto.Int32(5), Label: lOpt(), Type: tStr(), OneofIndex: proto.Int32(0)},
		{Name: proto.String("c35_m"), Number: proto.Int32(6), Label: lRep(), Type: tMsg(), TypeName: ref("C35MEntry")},
		{Name: proto.String("c35_f"), Number: proto.Int32(7), Label: lOpt(), Type: tEnm(), TypeName: ref("C35Enum")},
		{Name: proto.String("c35_g"), Number: proto.Int32(8), Label: lOpt(), Type: tMsg(), TypeName: ref("C35Nested")},
		{Name: proto.String("c35_s"), Number: proto.Int32(10), Label: lRep(), Type: tStr()},
	}
	m.OneofDecl = []*odp{{Name: proto.String("c35_o")}}
	m.NestedType = []*dp{
		{Name: proto.String("C35MEntry"), Options: &descriptorpb.MessageOptions{MapEntry: proto.Bool(true)}, Field: []*fldp{
			{Name: proto.String("key"), Number: proto.Int32(1), Label: lOpt(), Type: tStr()},
			{Name: proto.String("value"), Number: proto.Int32(2), Label: lOpt(), Type: tI32()},
		}},
		{Name: proto.String("C35Nested"), Field: []*fldp{{Name: proto.String("x"), Number: proto.Int32(1), Label: lOpt(), Type: tI32()}}},
	}
	m.EnumType = []*edp{{Name: proto.String("C35Enum"), Value: []*evdp{{Name: proto.String("C35_ZERO"), Number: proto.Int32(0)}, {Name: proto.String("C35_ONE"), Number: proto.Int32(1)}}}}
	m.ReservedRange = []*descriptorpb.DescriptorProto_ReservedRange{{Start: proto.Int32(50), End: proto.Int32(60)}}
	m.ReservedName = []string{"c35_r"}
	switch syntax {
	case "proto3":
		m.Field = append(m.Field, &fldp{Name: proto.String("c35_p"), Number: proto.Int32(11), Label: lOpt(), Type: tI32(), OneofIndex: proto.Int32(1), Proto3Optional: proto.Bool(true)})
		m.OneofDecl = append(m.OneofDecl, &odp{Name: proto.String("_c35_p")})
	case "proto2":
		m.Field = append(m.Field, &fldp{Name: proto.String("c35group"), Number: proto.Int32(9), Label: lOpt(), Type: tGrp(), TypeName: ref("C35Group")})
		m.NestedType = append(m.NestedType, &dp{Name: proto.String("C35Group"), Field: []*fldp{{Name: proto.String("a"), Number: proto.Int32(1), Label: lOpt(), Type: tI32()}}})
	}
	if syntax == "editions" {
		// independent of what the file sets as defaults
		for _, f := range m.Field {
			if f.OneofIndex == nil && f.GetLabel() == descriptorpb.FieldDescriptorProto_LABEL_OPTIONAL {
				fieldFeatures(f).FieldPresence = descriptorpb.FeatureSet_EXPLICIT.Enum()
			}
		}
		m.EnumType[0].Options = &descriptorpb.EnumOptions{Features: &descriptorpb.FeatureSet{EnumType: descriptorpb.FeatureSet_OPEN.Enum()}}
	}
	if syntax != "proto3" {
		m.ExtensionRange = []*descriptorpb.DescriptorProto_ExtensionRange{{Start: proto.Int32(100), End: proto.Int32(200)}}
		m.Extension = []*fldp{{Name: proto.String("c35_x"), Number: proto.Int32(100), Label: lOpt(), Type: tI32(), Extendee: proto.String("." + full)}}
	}
	return m
}

// ---------------------------------------------------------------------------------------------
// walking a file descriptor proto

type msgRef struct {
	m      *dp
	full   string // full name without leading dot
	parent *dp    // nil for top-level messages
	depth  int    // 0 for top-level messages
}

func (r msgRef) isMapEntry() bool { return r.m.GetOptions().GetMapEntry() }

type enumRef struct {
	e     *edp
	full  string
	scope string // full name of the enclosing scope (package or message)
	depth int    // 0 for file-level enums
}

type fieldRef struct {
	f     *fldp
	m     msgRef
	index int
}

type extRef struct {
	x     *fldp
	scope string // full name of the scope declaring it
	depth int
	list  *[]*fldp
	index int
}

func join(prefix, name string) string {
	if prefix == "" {
		return name
	}
	return prefix + "." + name
}

func messagesOf(f *fdp) []msgRef {
	var out []msgRef
	var walk func(ms []*dp, prefix string, parent *dp, depth int)
	walk = func(ms []*dp, prefix string, parent *dp, depth int) {
		for _, m := range ms {
			r := msgRef{m: m, full: join(prefix, m.GetName()), parent: parent, depth: depth}
			out = append(out, r)
			walk(m.NestedType, r.full, m, depth+1)
		}
	}
	walk(f.MessageType, f.GetPackage(), nil, 0)
	return out
}

// plainMessages leaves map entries out.
func plainMessages(f *fdp) []msgRef {
	var out []msgRef
	for _, r := range messagesOf(f) {
		if !r.isMapEntry() {
			out = append(out, r)
		}
	}
	return out
}

func enumsOf(f *fdp) []enumRef {
	var out []enumRef
	for _, e := range f.EnumType {
		out = append(out, enumRef{e: e, full: join(f.GetPackage(), e.GetName()), scope: f.GetPackage()})
	}
	for _, r := range messagesOf(f) {
		for _, e := range r.m.EnumType {
			out = append(out, enumRef{e: e, full: join(r.full, e.GetName()), scope: r.full, depth: r.depth + 1})
		}
	}
	return out
}

func fieldsOf(f *fdp, includeMapEntries bool) []fieldRef {
	var out []fieldRef
	for _, r := range messagesOf(f) {
		if r.isMapEntry() && !includeMapEntries {
			continue
		}
		for i, fd := range r.m.Field {
			out = append(out, fieldRef{f: fd, m: r, index: i})
		}
	}
	return out
}

func extensionsOf(f *fdp) []extRef {
	var out []extRef
	for i, x := range f.Extension {
		out = append(out, extRef{x: x, scope: f.GetPackage(), list: &f.Extension, index: i})
	}
	for _, r := range messagesOf(f) {
		for i, x := range r.m.Extension {
			out = append(out, extRef{x: x, scope: r.full, depth: r.depth + 1, list: &r.m.Extension, index: i})
		}
	}
	return out
}

// childNames lists every declaration name of a message scope.
func childNames(m *dp) []string {
	var out []string
	for _, f := range m.Field {
		out = append(out, f.GetName())
	}
	for _, o := range m.OneofDecl {
		out = append(out, o.GetName())
	}
	for _, n := range m.NestedType {
		out = append(out, n.GetName())
	}
	for _, e := range m.EnumType {
		out = append(out, e.GetName())
		for _, v := range e.Value {
			out = append(out, v.GetName())
		}
	}
	for _, x := range m.Extension {
		out = append(out, x.GetName())
	}
	return out
}

func fileChildNames(f *fdp) []string {
	var out []string
	for _, n := range f.MessageType {
		out = append(out, n.GetName())
	}
	for _, e := range f.EnumType {
		out = append(out, e.GetName())
		for _, v := range e.Value {
			out = append(out, v.GetName())
		}
	}
	for _, x := range f.Extension {
		out = append(out, x.GetName())
	}
	for _, s := range f.Service {
		out = append(out, s.GetName())
	}
	return out
}

func inRanges(n int32, m *dp) bool {
	for _, r := range m.ReservedRange {
		if r.GetStart() <= n && n < r.GetEnd() {
			return true
		}
	}
	for _, r := range m.ExtensionRange {
		if r.GetStart() <= n && n < r.GetEnd() {
			return true
		}
	}
	return false
}

// freeNumber returns a valid field number of m that no field, reserved range or extension range uses.
func freeNumber(m *dp) (int32, bool) {
	used := map[int32]bool{}
	for _, f := range m.Field {
		used[f.GetNumber()] = true
	}
	for n := int32(1); n < 6000; n++ {
		if !used[n] && !inRanges(n, m) {
			return n, true
		}
	}
	return 0, false
}

// clearRegion returns a number n such that [n, n+40) is free of fields and ranges and below the
// reserved 19000 block or far above it.
func clearRegion(m *dp) (int32, bool) {
	hi := int64(0)
	up := func(v int64) {
		if v > hi {
			hi = v
		}
	}
	for _, f := range m.Field {
		up(int64(f.GetNumber()))
	}
	for _, r := range m.ReservedRange {
		up(int64(r.GetEnd()))
	}
	for _, r := range m.ExtensionRange {
		up(int64(r.GetEnd()))
	}
	n := hi + 5
	if n >= 18000 && n < 21000 {
		n = 21000
	}
	if n+40 > maxNumber {
		return 0, false
	}
	return int32(n), true
}

func freeEnumNumber(e *edp) int32 {
	used := map[int32]bool{}
	for _, v := range e.Value {
		used[v.GetNumber()] = true
	}
	for n := int32(1); ; n++ {
		if used[n] {
			continue
		}
		ok := true
		for _, r := range e.ReservedRange {
			if r.GetStart() <= n && n <= r.GetEnd() {
				ok = false
			}
		}
		if ok {
			return n
		}
	}
}

func distinctNumbers(e *edp) bool {
	seen := map[int32]bool{}
	for _, v := range e.Value {
		if seen[v.GetNumber()] {
			return false
		}
		seen[v.GetNumber()] = true
	}
	return true
}

// enumOpen resolves enum_type the way the language guide states it: proto3 open, proto2 closed,
// editions 2023 / 2024 open unless the enum or the file says CLOSED (enum_type has no other targets).
func enumOpen(f *fdp, e *edp) bool {
	switch syntaxOf(f) {
	case "proto3":
		return true
	case "proto2":
		return false
	}
	if fs := e.GetOptions().GetFeatures(); fs != nil && fs.EnumType != nil {
		return fs.GetEnumType() == descriptorpb.FeatureSet_OPEN
	}
	if fs := f.GetOptions().GetFeatures(); fs != nil && fs.EnumType != nil {
		return fs.GetEnumType() == descriptorpb.FeatureSet_OPEN
	}
	return true
}

func isScalarType(t descriptorpb.FieldDescriptorProto_Type) bool {
	switch t {
	case descriptorpb.FieldDescriptorProto_TYPE_MESSAGE, descriptorpb.FieldDescriptorProto_TYPE_GROUP, descriptorpb.FieldDescriptorProto_TYPE_ENUM:
		return false
	}
	return t >= 1 && t <= 18
}

func isNumericType(t descriptorpb.FieldDescriptorProto_Type) bool {
	switch t {
	case descriptorpb.FieldDescriptorProto_TYPE_STRING, descriptorpb.FieldDescriptorProto_TYPE_BYTES, descriptorpb.FieldDescriptorProto_TYPE_BOOL:
		return false
	}
	return isScalarType(t)
}

func isMapField(r fieldRef) (*dp, bool) {
	if r.f.GetType() != descriptorpb.FieldDescriptorProto_TYPE_MESSAGE || r.f.GetLabel() != descriptorpb.FieldDescriptorProto_LABEL_REPEATED {
		return nil, false
	}
	for _, n := range r.m.m.NestedType {
		if n.GetOptions().GetMapEntry() && r.f.GetTypeName() == "."+join(r.m.full, n.GetName()) {
			return n, true
		}
	}
	return nil, false
}

// delimited reports whether a message-typed field of an editions file resolves to DELIMITED
// encoding (message_encoding can be set on the field and on the file only).
func delimited(f *fdp, fd *fldp) bool {
	if syntaxOf(f) != "editions" {
		return false
	}
	if fs := fd.GetOptions().GetFeatures(); fs != nil && fs.MessageEncoding != nil {
		return fs.GetMessageEncoding() == descriptorpb.FeatureSet_DELIMITED
	}
	return f.GetOptions().GetFeatures().GetMessageEncoding() == descriptorpb.FeatureSet_DELIMITED
}

// legacyRequired reports whether an editions field resolves field_presence = LEGACY_REQUIRED
// (settable on the field and on the file).
func legacyRequired(f *fdp, fd *fldp) bool {
	if syntaxOf(f) != "editions" {
		return false
	}
	if fs := fd.GetOptions().GetFeatures(); fs != nil && fs.FieldPresence != nil {
		return fs.GetFieldPresence() == descriptorpb.FeatureSet_LEGACY_REQUIRED
	}
	return f.GetOptions().GetFeatures().GetFieldPresence() == descriptorpb.FeatureSet_LEGACY_REQUIRED
}

func realOneofMember(r fieldRef) bool { return r.f.OneofIndex != nil && !r.f.GetProto3Optional() }

func fieldFeatures(f *fldp) *descriptorpb.FeatureSet {
	if f.Options == nil {
		f.Options = &descriptorpb.FieldOptions{}
	}
	if f.Options.Features == nil {
		f.Options.Features = &descriptorpb.FeatureSet{}
	}
	return f.Options.Features
}

func newField(name string, num int32) *fldp {
	return &fldp{Name: proto.String(name), Number: proto.Int32(num), Label: lOpt(), Type: tI32()}
}

func validDefault(t descriptorpb.FieldDescriptorProto_Type) string {
	switch t {
	case descriptorpb.FieldDescriptorProto_TYPE_BOOL:
		return "true"
	case descriptorpb.FieldDescriptorProto_TYPE_STRING, descriptorpb.FieldDescriptorProto_TYPE_BYTES:
		return "x"
	}
	return "1"
}

var _ = fmt.Sprint
var _ = math.MaxInt32
