package pbt

import (
	"bufio"
	"encoding/json"
	"fmt"
	"io"
	"os"
	"os/exec"
	"sync"
	"testing"
)

// Peer processes: a property may compare its results with another OS process — the same test
// binary started again ("other processes of the same binary") or a binary of the same package
// built with other tags (path handed over by the driver in VERIF_PEER_<NAME>). The peer runs
// TestPeerServer, which answers one JSON request per line.

var PeerMode = os.Getenv("VERIF_PEER_MODE") == "1"

// Skip reports whether ordinary checks must not run (replay or peer-server mode).
func Skip() bool { return ReplayPath != "" || PeerMode }

// ServePeer is the body of TestPeerServer.
func ServePeer(t *testing.T, handler func(req json.RawMessage) (any, error)) {
	if !PeerMode {
		t.Skip("not a peer")
	}
	in := bufio.NewReaderSize(os.Stdin, 1<<20)
	out := bufio.NewWriter(os.Stdout)
	for {
		line, err := in.ReadBytes('\n')
		if len(line) > 0 {
			type resp struct {
				OK    any    `json:"ok,omitempty"`
				Error string `json:"error,omitempty"`
			}
			var r resp
			func() {
				defer func() {
					if p := recover(); p != nil {
						r.Error = fmt.Sprintf("PANIC in peer: %v", p)
					}
				}()
				v, herr := handler(json.RawMessage(line))
				if herr != nil {
					r.Error = herr.Error()
				} else {
					r.OK = v
				}
			}()
			b, _ := json.Marshal(r)
			out.Write(b)
			out.WriteByte('\n')
			out.Flush()
		}
		if err != nil {
			return
		}
	}
}

type PeerConn struct {
	mu  sync.Mutex
	cmd *exec.Cmd
	in  io.WriteCloser
	out *bufio.Reader
}

// StartPeer starts bin ("" = this binary) as a peer server.
func StartPeer(bin string, extraEnv ...string) (*PeerConn, error) {
	if bin == "" {
		bin = os.Args[0]
	}
	cmd := exec.Command(bin, "-test.run", "^TestPeerServer$", "-test.timeout", "0")
	cmd.Env = append(os.Environ(), "VERIF_PEER_MODE=1", "VERIF_OUT=", "VERIF_REPLAY=")
	cmd.Env = append(cmd.Env, extraEnv...)
	cmd.Stderr = os.Stderr
	in, err := cmd.StdinPipe()
	if err != nil {
		return nil, err
	}
	outp, err := cmd.StdoutPipe()
	if err != nil {
		return nil, err
	}
	if err := cmd.Start(); err != nil {
		return nil, err
	}
	return &PeerConn{cmd: cmd, in: in, out: bufio.NewReaderSize(outp, 1<<20)}, nil
}

// Call sends one request and decodes the answer into resp. A peer-side error is returned as error.
func (p *PeerConn) Call(req any, resp any) error {
	p.mu.Lock()
	defer p.mu.Unlock()
	b, err := json.Marshal(req)
	if err != nil {
		return err
	}
	if _, err := p.in.Write(append(b, '\n')); err != nil {
		return fmt.Errorf("peer write: %v", err)
	}
	for {
		line, err := p.out.ReadBytes('\n')
		if err != nil {
			return fmt.Errorf("peer died: %v", err)
		}
		if len(line) == 0 || line[0] != '{' {
			continue // test framework chatter
		}
		var r struct {
			OK    json.RawMessage `json:"ok"`
			Error string          `json:"error"`
		}
		if err := json.Unmarshal(line, &r); err != nil {
			continue
		}
		if r.Error != "" {
			return fmt.Errorf("peer: %s", r.Error)
		}
		if resp != nil && r.OK != nil {
			return json.Unmarshal(r.OK, resp)
		}
		return nil
	}
}

func (p *PeerConn) Close() {
	p.in.Close()
	p.cmd.Wait()
}

// PeerBinary returns the path of the peer binary the driver built under the given name.
func PeerBinary(name string) string { return os.Getenv("VERIF_PEER_" + name) }
