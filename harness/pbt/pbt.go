// Package pbt is the small framework every property package of the harness uses:
// a property is a (draw, check) pair over a JSON-serialisable case type; pbt runs it
// under rapid with a seed derived from VERIF_SEED, counts evaluations / classes /
// distinct non-trivial cases, keeps samples, consults the committed known-findings
// file, writes a library-free replay file for the shrunk failing case and a stats
// file that the driver (../../verif) turns into evidence/<id>.json.
package pbt

import (
	"encoding/binary"
	"encoding/json"
	"flag"
	"fmt"
	"hash/fnv"
	"os"
	"path/filepath"
	"runtime/debug"
	"sort"
	"strconv"
	"strings"
	"sync"
	"testing"
	"time"

	"pgregory.net/rapid"
)

// ---------------------------------------------------------------------------------------------
// environment

var (
	PropertyID string // set by Main
	Tier       = envOr("VERIF_TIER", "quick")
	Seed       = envInt("VERIF_SEED", 1)
	Shard      = envInt("VERIF_SHARD", 0)
	NShards    = envInt("VERIF_NSHARDS", 1)
	OutDir     = envOr("VERIF_OUT", "")      // directory for stats / replays of this run
	VerifRoot  = envOr("VERIF_ROOT", "/verif")
	ReplayPath = envOr("VERIF_REPLAY", "")
	Scale      = envFloat("VERIF_SCALE", 1.0) // multiplies every case count
)

func envOr(k, d string) string {
	if v := os.Getenv(k); v != "" {
		return v
	}
	return d
}
func envInt(k string, d int64) int64 {
	if v := os.Getenv(k); v != "" {
		if n, err := strconv.ParseInt(v, 10, 64); err == nil {
			return n
		}
	}
	return d
}
func envFloat(k string, d float64) float64 {
	if v := os.Getenv(k); v != "" {
		if n, err := strconv.ParseFloat(v, 64); err == nil {
			return n
		}
	}
	return d
}

func Thorough() bool { return Tier == "thorough" }

// N picks a case count per tier. Thorough counts are per shard.
func N(quick, thorough int) int {
	n := quick
	if Thorough() {
		n = thorough
	}
	n = int(float64(n) * Scale)
	if n < 1 {
		n = 1
	}
	return n
}

// DeriveSeed gives a non-zero rapid seed for (VERIF_SEED, property, test, shard).
func DeriveSeed(name string) uint64 {
	h := fnv.New64a()
	fmt.Fprintf(h, "%d|%s|%s|%d", Seed, PropertyID, name, Shard)
	s := h.Sum64() & 0x7fffffffffffffff
	if s == 0 {
		s = 0x5eed
	}
	return s
}

// ---------------------------------------------------------------------------------------------
// statistics

type subStats struct {
	Evaluations int64            `json:"evaluations"`
	NonTrivial  int64            `json:"nontrivial"`
	Classes     map[string]int64 `json:"classes"`
	Rule        string           `json:"rule"`
	Exhaustive  bool             `json:"exhaustive,omitempty"`
	Requested   int              `json:"requested,omitempty"`
	Passed      int              `json:"passed,omitempty"`
}

type Stats struct {
	mu        sync.Mutex
	Property  string               `json:"property"`
	Tier      string               `json:"tier"`
	Seed      int64                `json:"seed"`
	Shard     int64                `json:"shard"`
	Subs      map[string]*subStats `json:"subs"`
	Samples   []json.RawMessage    `json:"samples"`
	Excluded  map[string]int64     `json:"excluded_known"`
	Known     []string             `json:"known_reproduced"`
	Violation []string             `json:"violations"`
	Notes     []string             `json:"notes"`
	Extra     map[string]any       `json:"extra"`
	WallS     float64              `json:"wall_s"`
	hashes    map[uint64]struct{}
	sampleN   map[string]int
}

var S = &Stats{Subs: map[string]*subStats{}, Excluded: map[string]int64{}, Extra: map[string]any{},
	hashes: map[uint64]struct{}{}, sampleN: map[string]int{}}

const maxHashes = 4_000_000
const samplesPerSub = 4

func (s *Stats) sub(name string) *subStats {
	ss := s.Subs[name]
	if ss == nil {
		ss = &subStats{Classes: map[string]int64{}}
		s.Subs[name] = ss
	}
	return ss
}

// Record counts one evaluated case. key is the canonical serialisation used for
// distinctness (only hashed when nontrivial). sample is only invoked when a sample is wanted.
func (s *Stats) Record(sub string, nontrivial bool, classes []string, key func() []byte) {
	s.mu.Lock()
	defer s.mu.Unlock()
	ss := s.sub(sub)
	ss.Evaluations++
	for _, c := range classes {
		ss.Classes[c]++
	}
	if !nontrivial {
		if ss.Evaluations == 1 && s.sampleN[sub] == 0 {
			// always keep the very first case of a sub-check as a sample
			kb := key()
			if len(kb) > 1500 {
				kb, _ = json.Marshal(map[string]any{"truncated_case_json_prefix": string(kb[:1500])})
			}
			wrapped, _ := json.Marshal(map[string]any{"check": sub, "case": json.RawMessage(kb), "trivial": true})
			s.Samples = append(s.Samples, wrapped)
		}
		return
	}
	ss.NonTrivial++
	var kb []byte
	if len(s.hashes) < maxHashes || s.sampleN[sub] < samplesPerSub {
		kb = key()
	}
	if kb == nil {
		return
	}
	if len(s.hashes) < maxHashes {
		h := fnv.New64a()
		h.Write([]byte(sub))
		h.Write(kb)
		s.hashes[h.Sum64()] = struct{}{}
	}
	// keep a few samples per sub-check: the 1st, 10th, 100th, 1000th non-trivial case
	n := ss.NonTrivial
	if s.sampleN[sub] < samplesPerSub && (n == 1 || n == 10 || n == 100 || n == 1000) {
		s.sampleN[sub]++
		if len(kb) > 1500 {
			kb, _ = json.Marshal(map[string]any{"truncated_case_json_prefix": string(kb[:1500])})
		}
		wrapped, _ := json.Marshal(map[string]any{"check": sub, "case": json.RawMessage(kb)})
		s.Samples = append(s.Samples, wrapped)
	}
}

func (s *Stats) SetRule(sub, rule string) {
	s.mu.Lock()
	defer s.mu.Unlock()
	s.sub(sub).Rule = rule
}
func (s *Stats) SetExhaustive(sub string) {
	s.mu.Lock()
	defer s.mu.Unlock()
	s.sub(sub).Exhaustive = true
}
func (s *Stats) Exclude(finding string) {
	s.mu.Lock()
	defer s.mu.Unlock()
	s.Excluded[finding]++
}
func (s *Stats) Note(format string, a ...any) {
	s.mu.Lock()
	defer s.mu.Unlock()
	if len(s.Notes) < 50 {
		s.Notes = append(s.Notes, fmt.Sprintf(format, a...))
	}
}
func (s *Stats) SetExtra(k string, v any) {
	s.mu.Lock()
	defer s.mu.Unlock()
	s.Extra[k] = v
}
func (s *Stats) AddExtra(k string, n int64) {
	s.mu.Lock()
	defer s.mu.Unlock()
	cur, _ := s.Extra[k].(int64)
	s.Extra[k] = cur + n
}

func (s *Stats) write() {
	if OutDir == "" {
		return
	}
	s.mu.Lock()
	defer s.mu.Unlock()
	s.Property, s.Tier, s.Seed, s.Shard = PropertyID, Tier, Seed, Shard
	os.MkdirAll(OutDir, 0o755)
	b, _ := json.MarshalIndent(s, "", " ")
	os.WriteFile(filepath.Join(OutDir, fmt.Sprintf("stats-%d.json", Shard)), b, 0o644)
	hb := make([]byte, 0, 8*len(s.hashes))
	for h := range s.hashes {
		hb = binary.LittleEndian.AppendUint64(hb, h)
	}
	os.WriteFile(filepath.Join(OutDir, fmt.Sprintf("hashes-%d.bin", Shard)), hb, 0o644)
}

// ---------------------------------------------------------------------------------------------
// known findings (committed file, read-only at run time)

type Finding struct {
	ID       string `json:"id"`
	Status   string `json:"status"` // "known" | "fixed"
	Property string `json:"property"`
	Props    []string `json:"properties,omitempty"` // further properties the same root cause touches
	What     string `json:"what"`
	Commit   string `json:"commit,omitempty"`
}

var (
	findingsOnce sync.Once
	findings     map[string]Finding
)

func loadFindings() {
	findings = map[string]Finding{}
	b, err := os.ReadFile(filepath.Join(VerifRoot, "known_findings.json"))
	if err != nil {
		return
	}
	var fs struct {
		Findings []Finding `json:"findings"`
	}
	if err := json.Unmarshal(b, &fs); err != nil {
		fmt.Fprintf(os.Stderr, "pbt: cannot parse known_findings.json: %v\n", err)
		os.Exit(2)
	}
	for _, f := range fs.Findings {
		findings[f.ID] = f
	}
}

// Known reports whether finding id is listed with status "known" for the running property.
// A check calls it only after its own narrow predicate has recognised the root cause in a
// failing case; on true the case is counted as excluded and skipped, otherwise it is a violation.
func Known(id string) bool {
	findingsOnce.Do(loadFindings)
	f, ok := findings[id]
	if !ok || f.Status != "known" {
		return false
	}
	if f.Property == PropertyID {
		return true
	}
	for _, p := range f.Props {
		if p == PropertyID {
			return true
		}
	}
	return false
}

// ExcludeKnown = Known(id) plus bookkeeping.
func ExcludeKnown(id string) bool {
	if Known(id) {
		S.Exclude(id)
		return true
	}
	return false
}

var knownPrinted sync.Map

// ReportKnown prints the KNOWN-FINDING line (once) for a listed finding whose fixed
// witness input was replayed and still reproduces.
func ReportKnown(id string) {
	findingsOnce.Do(loadFindings)
	f := findings[id]
	if _, dup := knownPrinted.LoadOrStore(id, true); dup {
		return
	}
	fmt.Printf("KNOWN-FINDING: property=%s %s: %s\n", PropertyID, id, f.What)
	S.mu.Lock()
	S.Known = append(S.Known, id)
	S.mu.Unlock()
}

// Witness runs the fixed witness of a finding: reproduces(=true) means the defect is still
// present. If listed as known -> KNOWN-FINDING line; if not listed (or listed as fixed) and it
// reproduces -> violation.
func Witness(t *testing.T, id string, reproduces bool, detail string) {
	t.Helper()
	if !reproduces || Skip() {
		return
	}
	if Known(id) {
		ReportKnown(id)
		return
	}
	ReportViolation(t, "witness-"+id, map[string]any{"finding": id, "detail": detail}, fmt.Errorf("witness of %s reproduces: %s", id, detail))
}

// ---------------------------------------------------------------------------------------------
// properties

// Prop is one generated check. C must round-trip through encoding/json.
type Prop[C any] struct {
	Name       string
	Rule       string                  // how cases are generated and what makes one non-trivial
	Draw       func(t *rapid.T) C      // all randomness through rapid
	Check      func(c C) error         // nil: property held on c
	NonTrivial func(c C) bool          // optional (default: every case)
	Classes    func(c C) []string      // optional labels for the distribution report
	Quick      int                     // case counts
	Thorough   int
	Journal    bool                    // write each case to disk before checking (process-killing faults)
}

type replayFile struct {
	Property string          `json:"property"`
	Test     string          `json:"test"`
	Error    string          `json:"error"`
	Leg      string          `json:"leg,omitempty"` // build leg (tags) the case was found in; the driver replays with the same one
	Case     json.RawMessage `json:"case"`
}

var (
	registry   = map[string]func(raw json.RawMessage) error{}
	registryMu sync.Mutex
)

func safeCheck[C any](check func(C) error, c C) (err error) {
	defer func() {
		if r := recover(); r != nil {
			err = fmt.Errorf("PANIC: %v\n%s", r, debug.Stack())
		}
	}()
	return check(c)
}

// Register makes a property replayable without running it (for TestReplay).
func Register[C any](p Prop[C]) {
	registryMu.Lock()
	defer registryMu.Unlock()
	registry[p.Name] = func(raw json.RawMessage) error {
		var c C
		if err := json.Unmarshal(raw, &c); err != nil {
			return fmt.Errorf("replay: bad case json: %v", err)
		}
		return safeCheck(p.Check, c)
	}
}

// Run drives p under rapid. On failure the shrunk case is written as a replay file and the
// VIOLATION line is printed.
func Run[C any](t *testing.T, p Prop[C]) {
	t.Helper()
	Register(p)
	if Skip() {
		t.Skip("replay or peer mode")
	}
	n := N(p.Quick, p.Thorough)
	S.SetRule(p.Name, p.Rule)
	S.mu.Lock()
	S.sub(p.Name).Requested = n
	S.mu.Unlock()
	setRapidFlags(n, DeriveSeed(p.Name))

	var lastCase *C
	var lastErr error
	var jf *os.File
	if p.Journal && OutDir != "" {
		os.MkdirAll(OutDir, 0o755)
		jf, _ = os.Create(filepath.Join(OutDir, fmt.Sprintf("journal-%s-%d.json", p.Name, Shard)))
		defer func() {
			if jf != nil {
				name := jf.Name()
				jf.Close()
				os.Remove(name)
			}
		}()
	}
	passed := 0
	sub := &testing.T{}
	_ = sub
	ok := t.Run(p.Name, func(t *testing.T) {
		rapid.Check(t, func(rt *rapid.T) {
			c := p.Draw(rt)
			if jf != nil {
				if b, err := json.Marshal(replayFile{Property: PropertyID, Test: p.Name, Error: "process died while checking this case", Case: mustJSON(c)}); err == nil {
					jf.Truncate(0)
					jf.WriteAt(b, 0)
				}
			}
			err := safeCheck(p.Check, c)
			if err != nil {
				cc := c
				lastCase, lastErr = &cc, err
				rt.Fatalf("%s: %v", p.Name, err)
			}
			nt := true
			if p.NonTrivial != nil {
				nt = p.NonTrivial(c)
			}
			var cls []string
			if p.Classes != nil {
				cls = p.Classes(c)
			}
			S.Record(p.Name, nt, cls, func() []byte { return mustJSON(c) })
			passed++
		})
	})
	S.mu.Lock()
	S.sub(p.Name).Passed = passed
	S.mu.Unlock()
	if !ok && lastCase != nil {
		if strings.HasPrefix(lastErr.Error(), "harness:") {
			// the check itself could not be carried out: inconclusive, never a verdict
			fmt.Printf("HARNESS-ERROR property=%s check=%s %s\n  case=%s\n", PropertyID, p.Name, firstLine(lastErr.Error()), firstLine(string(mustJSON(*lastCase))))
			return
		}
		ReportViolation(t, p.Name, *lastCase, lastErr)
	}
}

func mustJSON(v any) []byte {
	b, err := json.Marshal(v)
	if err != nil {
		b, _ = json.Marshal(map[string]string{"unserialisable": fmt.Sprintf("%v: %+v", err, v)})
	}
	return b
}

var violMu sync.Mutex

// ReportViolation writes the replay file and prints the VIOLATION line.
func ReportViolation(t *testing.T, test string, c any, err error) {
	violMu.Lock()
	defer violMu.Unlock()
	raw := mustJSON(c)
	h := fnv.New32a()
	h.Write(raw)
	dir := filepath.Join(VerifRoot, "replays", PropertyID)
	os.MkdirAll(dir, 0o755)
	path := filepath.Join(dir, fmt.Sprintf("%s-%08x.json", sanitize(test), h.Sum32()))
	msg := err.Error()
	if len(msg) > 4000 {
		msg = msg[:4000] + "…"
	}
	b, _ := json.MarshalIndent(replayFile{Property: PropertyID, Test: test, Error: msg, Leg: os.Getenv("VERIF_LEG"), Case: raw}, "", " ")
	os.WriteFile(path, b, 0o644)
	fmt.Printf("VIOLATION property=%s replay=%s\n", PropertyID, path)
	fmt.Printf("  check=%s error=%s\n", test, firstLine(msg))
	S.mu.Lock()
	S.Violation = append(S.Violation, path)
	S.mu.Unlock()
	if t != nil {
		t.Errorf("violation in %s: %s", test, firstLine(msg))
	}
}

func firstLine(s string) string {
	if i := strings.IndexByte(s, '\n'); i >= 0 {
		s = s[:i]
	}
	if len(s) > 400 {
		s = s[:400] + "…"
	}
	return s
}

func sanitize(s string) string {
	return strings.Map(func(r rune) rune {
		if r >= 'a' && r <= 'z' || r >= 'A' && r <= 'Z' || r >= '0' && r <= '9' || r == '-' || r == '_' {
			return r
		}
		return '_'
	}, s)
}

func setRapidFlags(checks int, seed uint64) {
	flag.Set("rapid.checks", strconv.Itoa(checks))
	flag.Set("rapid.seed", strconv.FormatUint(seed, 10))
	flag.Set("rapid.nofailfile", "true")
	flag.Set("rapid.shrinktime", "20s")
}

// Enumerate runs an exhaustive (or fixed) list of cases through check without rapid.
// It stops at the first failure (reported as a violation with that case).
func Enumerate[C any](t *testing.T, name, rule string, exhaustive bool, each func(yield func(c C, nontrivial bool) bool), check func(c C) error) {
	t.Helper()
	registryMu.Lock()
	registry[name] = func(raw json.RawMessage) error {
		var c C
		if err := json.Unmarshal(raw, &c); err != nil {
			return err
		}
		return safeCheck(check, c)
	}
	registryMu.Unlock()
	if Skip() {
		return
	}
	S.SetRule(name, rule)
	failed := false
	each(func(c C, nt bool) bool {
		if err := safeCheck(check, c); err != nil {
			ReportViolation(t, name, c, err)
			failed = true
			return false
		}
		S.Record(name, nt, nil, func() []byte { return mustJSON(c) })
		return true
	})
	if exhaustive && !failed {
		S.SetExhaustive(name)
	}
}

// Count records bulk evaluations for sweeps too large to record case by case.
func Count(sub string, evaluations, nontrivial int64, rule string, exhaustive bool, samples ...any) {
	S.mu.Lock()
	defer S.mu.Unlock()
	ss := S.sub(sub)
	ss.Evaluations += evaluations
	ss.NonTrivial += nontrivial
	ss.Rule = rule
	ss.Exhaustive = exhaustive
	S.Extra["bulk_distinct_"+sub] = nontrivial // distinct by construction (enumeration without repetition)
	for _, smp := range samples {
		w, _ := json.Marshal(map[string]any{"check": sub, "case": smp})
		S.Samples = append(S.Samples, w)
	}
}

// ---------------------------------------------------------------------------------------------
// TestMain + replay

// Main is called from each property package's TestMain.
func Main(m *testing.M, property string) {
	PropertyID = property
	start := time.Now()
	flag.Parse()
	code := m.Run()
	S.WallS = time.Since(start).Seconds()
	S.write()
	os.Exit(code)
}

// Replay is called from each package's TestReplay: re-checks a saved case without rapid.
func Replay(t *testing.T) {
	if ReplayPath == "" {
		t.Skip("no VERIF_REPLAY")
	}
	b, err := os.ReadFile(ReplayPath)
	if err != nil {
		t.Fatalf("replay: %v", err)
	}
	var rf replayFile
	if err := json.Unmarshal(b, &rf); err != nil {
		t.Fatalf("replay: %v", err)
	}
	registryMu.Lock()
	fn := registry[rf.Test]
	names := make([]string, 0, len(registry))
	for k := range registry {
		names = append(names, k)
	}
	registryMu.Unlock()
	if fn == nil {
		sort.Strings(names)
		t.Fatalf("replay: unknown check %q (registered: %v)", rf.Test, names)
	}
	if err := fn(rf.Case); err != nil {
		fmt.Printf("VIOLATION property=%s replay=%s\n  check=%s error=%s\n", PropertyID, ReplayPath, rf.Test, firstLine(err.Error()))
		t.Fatalf("replayed case still fails: %v", err)
	}
	fmt.Printf("replay: case passes (check=%s)\n", rf.Test)
}
