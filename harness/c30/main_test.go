package c30

import (
	"runtime"
	"runtime/debug"
	"testing"

	"google.golang.org/protobuf/zverif/pbt"
)

func TestMain(m *testing.M) {
	// the check allocates many short-lived message trees: trade a little memory for less GC work,
	// and do not let 16 parallel shards start 16 GC workers each
	debug.SetGCPercent(400)
	if pbt.NShards > 1 {
		runtime.GOMAXPROCS(2)
	}
	pbt.Main(m, "C30")
}
