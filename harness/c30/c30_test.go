// Package c30 checks property C30: proto.Equal is an equivalence relation that agrees with the
// documented equality contract (evaluated on the harness's abstract message model, which never
// calls proto.Equal), with the reflection implementation protoreflect.Value.Equal, and with
// cmp.Equal under protocmp.Transform (for messages without NaN, Any or unknown fields); it holds
// between a message and its Clone and between a message and the decoding of its encoding.
package c30

import (
	"bytes"
	"fmt"
	"math"
	"testing"

	"github.com/google/go-cmp/cmp"
	"google.golang.org/protobuf/proto"
	"google.golang.org/protobuf/reflect/protoreflect"
	"google.golang.org/protobuf/testing/protocmp"
	"google.golang.org/protobuf/types/dynamicpb"
	"google.golang.org/protobuf/zverif/corpus"
	"google.golang.org/protobuf/zverif/gen"
	"google.golang.org/protobuf/zverif/model"
	"google.golang.org/protobuf/zverif/pbt"
	"pgregory.net/rapid"

	test3pb "google.golang.org/protobuf/internal/testprotos/test3"
	testeditionspb "google.golang.org/protobuf/internal/testprotos/testeditions"
)

// Flavours: which implementation realises the three messages of a triple.
const (
	flavGenerated = 0 // all generated
	flavDynamic   = 1 // all dynamicpb over the same descriptor
	flavMixed     = 2 // x, z generated, y dynamicpb (same descriptor: equality is by content)
)

type variant struct {
	M        *model.Msg
	NilBytes bool
	Touch    bool
	Label    string // derivation
	From     int    // index of the message it was derived from (-1: drawn)
	Depth    int
	Oneof    bool
}

type eqCase struct {
	Type    string
	Flavour int
	Det     bool // deterministic marshalling in the round trip
	NoLazy  bool
	V       [3]variant
	Planted []string
}

func (c eqCase) dyn(i int) bool {
	return c.Flavour == flavDynamic || c.Flavour == flavMixed && i == 1
}

func build(name string, dyn bool, v variant) (protoreflect.Message, error) {
	mt := corpus.ByName(name)
	var m protoreflect.Message
	if dyn {
		m = dynamicpb.NewMessage(mt.Descriptor())
	} else {
		m = mt.New()
	}
	if err := model.ApplyWith(m, v.M, nil, model.ApplyOpts{NilBytes: v.NilBytes, Touch: v.Touch}); err != nil {
		return nil, err
	}
	if d := model.Diff(mt.Descriptor(), v.M, model.Snapshot(m), model.EqualOpts{BitwiseFloats: true}, nil); d != "" {
		return nil, fmt.Errorf("message built through reflection does not read back as the model: %s", d)
	}
	return m, nil
}

// facts about a model tree that decide which oracles apply.
type facts struct {
	nan, any, unknown, emptyBytes, negZero bool
}

func scan(md protoreflect.MessageDescriptor, v *model.Msg, f *facts) {
	if v == nil {
		return
	}
	if md.FullName() == "google.protobuf.Any" {
		f.any = true
	}
	if len(v.Unknown) > 0 {
		f.unknown = true
	}
	for _, fl := range v.Fields {
		fd := model.FieldDesc(md, fl.Num, nil)
		if fd == nil {
			continue
		}
		vfd := fd
		if fd.IsMap() {
			vfd = fd.MapValue()
		}
		for _, x := range fl.Vals {
			switch vfd.Kind() {
			case protoreflect.FloatKind:
				fv := math.Float32frombits(uint32(x.U))
				f.nan = f.nan || fv != fv
				f.negZero = f.negZero || uint32(x.U) == 0x80000000
			case protoreflect.DoubleKind:
				fv := math.Float64frombits(x.U)
				f.nan = f.nan || fv != fv
				f.negZero = f.negZero || x.U == 0x8000000000000000
			case protoreflect.BytesKind:
				f.emptyBytes = f.emptyBytes || len(x.B) == 0
			case protoreflect.MessageKind, protoreflect.GroupKind:
				scan(vfd.Message(), x.M, f)
			}
		}
	}
}

var valueEq = model.EqualOpts{BitwiseFloats: false} // the documented proto.Equal contract

func reflEqual(x, y protoreflect.Message) bool {
	return protoreflect.ValueOfMessage(x).Equal(protoreflect.ValueOfMessage(y))
}

func checkEq(c eqCase) error {
	md := corpus.ByName(c.Type).Descriptor()
	var ms [3]protoreflect.Message
	var fs [3]facts
	for i := range c.V {
		m, err := build(c.Type, c.dyn(i), c.V[i])
		if err != nil {
			return fmt.Errorf("harness: message %d: %v", i, err)
		}
		ms[i] = m
		scan(md, c.V[i].M, &fs[i])
	}
	name := [3]string{"x", "y", "z"}

	// 1. every ordered pair: proto.Equal (fast path for generated messages) and the reflection
	// implementation agree with the documented contract evaluated on the models.
	var want, got [3][3]bool
	var diffs [3][3]string // the model relation is symmetric by construction; evaluate each unordered pair once
	for i := range ms {
		for j := i + 1; j < 3; j++ {
			diffs[i][j] = model.Diff(md, c.V[i].M, c.V[j].M, valueEq, nil)
			diffs[j][i] = diffs[i][j]
		}
	}
	for i := range ms {
		for j := range ms {
			d := diffs[i][j]
			want[i][j] = d == ""
			got[i][j] = proto.Equal(ms[i].Interface(), ms[j].Interface())
			if got[i][j] != want[i][j] {
				return fmt.Errorf("proto.Equal(%s, %s) = %v, documented contract on the models says %v (model difference: %q; derivations %s)", name[i], name[j], got[i][j], want[i][j], d, c.labels())
			}
			if r := reflEqual(ms[i], ms[j]); r != want[i][j] {
				return fmt.Errorf("protoreflect.Value.Equal(%s, %s) = %v, proto.Equal = %v, documented contract says %v (model difference: %q; derivations %s)", name[i], name[j], r, got[i][j], want[i][j], d, c.labels())
			}
		}
	}
	// 2. equivalence laws on the observed relation (stated separately from the oracle)
	for i := range ms {
		if !got[i][i] {
			return fmt.Errorf("not reflexive: proto.Equal(%s, %s) = false", name[i], name[i])
		}
		for j := range ms {
			if got[i][j] != got[j][i] {
				return fmt.Errorf("not symmetric: Equal(%s,%s)=%v, Equal(%s,%s)=%v", name[i], name[j], got[i][j], name[j], name[i], got[j][i])
			}
			for k := range ms {
				if got[i][j] && got[j][k] && !got[i][k] {
					return fmt.Errorf("not transitive: Equal(%s,%s) and Equal(%s,%s) but not Equal(%s,%s)", name[i], name[j], name[j], name[k], name[i], name[k])
				}
			}
		}
	}
	// 3. reflexivity on a distinct, separately built message of the same content (no pointer
	// short cut), NaN included; same flavour and the other flavour.
	for _, dyn := range []bool{c.dyn(0), !c.dyn(0)} {
		x2, err := build(c.Type, dyn, c.V[0])
		if err != nil {
			return fmt.Errorf("harness: %v", err)
		}
		if !proto.Equal(ms[0].Interface(), x2.Interface()) || !proto.Equal(x2.Interface(), ms[0].Interface()) {
			return fmt.Errorf("proto.Equal(x, x') = false for a separately built message of identical content (x' dynamicpb: %v)", dyn)
		}
		if !reflEqual(ms[0], x2) || !reflEqual(x2, ms[0]) {
			return fmt.Errorf("protoreflect.Value.Equal(x, x') = false for a separately built message of identical content (x' dynamicpb: %v)", dyn)
		}
	}
	// 4. Clone and decode(encode) images are Equal to the original and interchangeable with it
	for i := 0; i < 2; i++ {
		m := ms[i]
		images := map[string]protoreflect.Message{}
		images["Clone("+name[i]+")"] = proto.Clone(m.Interface()).ProtoReflect()
		b, err := proto.MarshalOptions{AllowPartial: true, Deterministic: c.Det}.Marshal(m.Interface())
		if err != nil {
			return fmt.Errorf("Marshal(%s) failed on valid content: %v", name[i], err)
		}
		var rt protoreflect.Message
		if c.dyn(i) {
			rt = dynamicpb.NewMessage(md)
		} else {
			rt = corpus.ByName(c.Type).New()
		}
		if err := (proto.UnmarshalOptions{AllowPartial: true, NoLazyDecoding: c.NoLazy}).Unmarshal(b, rt.Interface()); err != nil {
			return fmt.Errorf("Unmarshal(Marshal(%s)) failed: %v (bytes %x)", name[i], err, b)
		}
		images["Unmarshal(Marshal("+name[i]+"))"] = rt
		for _, what := range []string{"Clone(" + name[i] + ")", "Unmarshal(Marshal(" + name[i] + "))"} {
			img := images[what]
			if !proto.Equal(m.Interface(), img.Interface()) {
				return fmt.Errorf("proto.Equal(%s, %s) = false; image reads back as: %s", name[i], what, model.Diff(md, c.V[i].M, model.Snapshot(img), model.EqualOpts{BitwiseFloats: true}, nil))
			}
			if !proto.Equal(img.Interface(), m.Interface()) {
				return fmt.Errorf("proto.Equal(%s, %s) = false (image first)", what, name[i])
			}
			if !reflEqual(m, img) || !reflEqual(img, m) {
				return fmt.Errorf("protoreflect.Value.Equal(%s, %s) = false", name[i], what)
			}
			// congruence: the image compares to the other messages as the original does
			for j := range ms {
				if g := proto.Equal(img.Interface(), ms[j].Interface()); g != want[i][j] {
					return fmt.Errorf("proto.Equal(%s, %s) = %v but Equal(%s, %s) = %v", what, name[j], g, name[i], name[j], want[i][j])
				}
			}
		}
	}
	// 5. documented guarantee: equal deterministic encodings imply Equal
	var det [3][]byte
	for i := range ms {
		b, err := proto.MarshalOptions{AllowPartial: true, Deterministic: true}.Marshal(ms[i].Interface())
		if err != nil {
			return fmt.Errorf("deterministic Marshal(%s) failed on valid content: %v", name[i], err)
		}
		det[i] = b
	}
	for i := range ms {
		for j := range ms {
			if bytes.Equal(det[i], det[j]) && !got[i][j] {
				return fmt.Errorf("%s and %s marshal to the same bytes under deterministic serialization (%x) but proto.Equal reports false", name[i], name[j], det[i])
			}
		}
	}
	// 6. cmp.Equal under protocmp.Transform agrees (claimed for messages without NaN, Any, unknown)
	for _, p := range [][2]int{{0, 1}, {1, 2}, {2, 0}} {
		i, j := p[0], p[1]
		if cmpEligible(fs[i]) && cmpEligible(fs[j]) {
			if g := cmp.Equal(ms[i].Interface(), ms[j].Interface(), protocmp.Transform()); g != want[i][j] {
				return fmt.Errorf("cmp.Equal(%s, %s, protocmp.Transform()) = %v, proto.Equal = %v (model difference: %q)", name[i], name[j], g, got[i][j], model.Diff(md, c.V[i].M, c.V[j].M, valueEq, nil))
			}
		}
	}
	return nil
}

func cmpEligible(f facts) bool { return !f.nan && !f.any && !f.unknown }

func (c eqCase) labels() string {
	return fmt.Sprintf("y=%s(from %d) z=%s(from %d)", c.V[1].Label, c.V[1].From, c.V[2].Label, c.V[2].From)
}

var types, rich = corpus.Standard(), corpus.Rich(20)

// extendable lists the types that have at least two registered extensions, one of them repeated.
var extendable = func() []string {
	var out []string
	for _, n := range types {
		md := corpus.ByName(n).Descriptor()
		if md.ExtensionRanges().Len() == 0 {
			continue
		}
		xs := model.ExtensionsOf(md.FullName())
		rep := false
		for _, x := range xs {
			rep = rep || x.TypeDescriptor().IsList()
		}
		if len(xs) >= 2 && rep {
			out = append(out, n)
		}
	}
	return out
}()

func drawCase(t *rapid.T) eqCase {
	c := eqCase{Type: gen.TypeName(types, rich).Draw(t, "type"), Det: rapid.Bool().Draw(t, "det"), NoLazy: rapid.Bool().Draw(t, "nolazy")}
	if len(extendable) > 0 && rapid.IntRange(0, 7).Draw(t, "extendable") == 0 {
		// messages with registered extensions are a handful among ~1000 types: a fixed share
		c.Type = extendable[rapid.IntRange(0, len(extendable)-1).Draw(t, "ext-type")]
	}
	c.Flavour = rapid.SampledFrom([]int{flavGenerated, flavGenerated, flavGenerated, flavDynamic, flavMixed}).Draw(t, "flavour")
	md := corpus.ByName(c.Type).Descriptor()
	o := gen.DefaultMsgOpts
	x := gen.DrawMessage(t, md, o)
	c.Planted = gen.Enrich(t, md, x, o)
	c.V[0] = variant{M: x, Label: "drawn", From: -1}
	for i := 1; i < 3; i++ {
		from := 0
		if i == 2 && rapid.Bool().Draw(t, "z-from-y") {
			from = 1
		}
		d := gen.NearMiss(t, md, c.V[from].M, o)
		c.V[i] = variant{M: d.M, NilBytes: d.NilBytes, Touch: d.Touch, Label: d.Label, From: from, Depth: d.Depth, Oneof: d.Oneof}
		// allocated-but-empty containers (incl. extension map entries holding an empty list) never
		// change a verdict, so they are combined freely with every other derivation
		if !c.V[i].Touch && rapid.IntRange(0, 3).Draw(t, "also-touch") == 0 {
			c.V[i].Touch = true
		}
		if d.Label == "indep" {
			c.V[i].From = -1
		}
	}
	return c
}

// tolerant derivations leave the pair Equal although the realised messages differ
var tolerant = map[string]bool{"nan": true, "zero": true, "nilbytes": true, "touch": true, "unknown-perm-across": true}

func classesOf(c eqCase) []string {
	md := corpus.ByName(c.Type).Descriptor()
	set := map[string]bool{}
	set[[]string{"flavour-generated", "flavour-dynamicpb", "flavour-mixed"}[c.Flavour]] = true
	for i := 1; i < 3; i++ {
		set["derive-"+c.V[i].Label] = true
		if c.V[i].Depth >= 2 {
			set["site-nested"] = true
		}
		if c.V[i].Oneof {
			set["site-in-oneof"] = true
		}
		eq := model.Diff(md, c.V[c.V[i].fromOr0()].M, c.V[i].M, valueEq, nil) == ""
		switch {
		case c.V[i].Label == "indep":
		case eq && tolerant[c.V[i].Label]:
			set["pair-equal-by-tolerance"] = true
		case eq:
			set["pair-equal"] = true
		default:
			set["pair-near-miss-unequal"] = true
		}
	}
	for _, p := range c.Planted {
		set[p] = true
	}
	var f facts
	for i := range c.V {
		scan(md, c.V[i].M, &f)
	}
	for k, b := range map[string]bool{"has-nan": f.nan, "has-any": f.any, "has-unknown": f.unknown, "has-empty-bytes": f.emptyBytes, "has-negzero": f.negZero, "cmp-eligible-all": cmpEligible(f)} {
		if b {
			set[k] = true
		}
	}
	if model.Diff(md, c.V[0].M, c.V[1].M, valueEq, nil) == "" && model.Diff(md, c.V[1].M, c.V[2].M, valueEq, nil) == "" {
		set["chain-x=y=z"] = true
	}
	out := make([]string, 0, len(set))
	for k := range set {
		out = append(out, k)
	}
	return out
}

func (v variant) fromOr0() int {
	if v.From < 0 {
		return 0
	}
	return v.From
}

func TestEquivalence(t *testing.T) {
	pbt.Run(t, pbt.Prop[eqCase]{
		Name:  "equivalence",
		Rule:  "triple (x,y,z) of one type from corpus.Standard() (half of the draws from the >=20-field types), all generated / all dynamicpb / mixed; x from the descriptor-directed generator then enriched (NaN, +-0, empty bytes, unknown fields with repeated numbers planted at random depth); y derived from x and z from x or y by one near-miss derivation (copy, independent draw, one scalar / map value / map key changed, list length or order changed, NaN payload variant, zero sign flipped, empty bytes as nil, empty containers allocated incl. empty extension lists, one unknown record changed, unknown records permuted across numbers (must stay Equal) or within a number (must not), field dropped / added, oneof member switched, empty submessage vs absent); all 9 ordered pairs vs the model oracle for proto.Equal and Value.Equal, equivalence laws, separately built copy, Clone and decode(encode) images with congruence, equal deterministic bytes imply Equal, cmp.Equal+protocmp.Transform where claimed; non-trivial = some derivation changed (or tolerated a difference at) a site at nesting depth >= 2",
		Draw:  drawCase,
		Check: checkEq,
		NonTrivial: func(c eqCase) bool {
			return c.V[1].Depth >= 2 || c.V[2].Depth >= 2
		},
		Classes: classesOf,
		Quick:   10000, Thorough: 40000,
	})
}

// ---- regression witness of the (fixed) finding KF-merge-negzero ------------------------------------------

func TestWitnessMergeNegZero(t *testing.T) {
	if pbt.ReplayPath != "" {
		t.Skip("replay mode")
	}
	negz := math.Copysign(0, -1)
	msgs := map[string]proto.Message{
		"test3.TestAllTypes{SingularFloat: -0.0}":                               &test3pb.TestAllTypes{SingularFloat: float32(negz)},
		"test3.TestAllTypes{SingularDouble: -0.0}":                              &test3pb.TestAllTypes{SingularDouble: negz},
		"test3 nested: OptionalNestedMessage.Corecursive.SingularDouble = -0.0": &test3pb.TestAllTypes{OptionalNestedMessage: &test3pb.TestAllTypes_NestedMessage{Corecursive: &test3pb.TestAllTypes{SingularDouble: negz}}},
		"test3 list: RepeatedNestedMessage[0].Corecursive.SingularFloat = -0.0": &test3pb.TestAllTypes{RepeatedNestedMessage: []*test3pb.TestAllTypes_NestedMessage{{Corecursive: &test3pb.TestAllTypes{SingularFloat: float32(negz)}}}},
		"test3 map: MapStringNestedMessage[k].Corecursive.SingularFloat = -0.0": &test3pb.TestAllTypes{MapStringNestedMessage: map[string]*test3pb.TestAllTypes_NestedMessage{"k": {Corecursive: &test3pb.TestAllTypes{SingularFloat: float32(negz)}}}},
		"testeditions.TestAllTypes{SingularFloat: -0.0}":                        &testeditionspb.TestAllTypes{SingularFloat: float32(negz)},
		"testeditions.TestAllTypes{SingularDouble: -0.0}":                       &testeditionspb.TestAllTypes{SingularDouble: negz},
	}
	for what, m := range msgs {
		cl := proto.Clone(m)
		reproduces := !proto.Equal(m, cl) || !proto.Equal(cl, m) || proto.Size(cl) != proto.Size(m)
		pbt.Witness(t, "KF-merge-negzero", reproduces, "proto.Equal(m, proto.Clone(m)) is false for m = "+what)
		dst := m.ProtoReflect().New().Interface()
		proto.Merge(dst, m)
		pbt.Witness(t, "KF-merge-negzero", !proto.Equal(dst, m), "proto.Merge(empty, m) does not reproduce m = "+what)
	}
}
