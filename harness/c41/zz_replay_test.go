package c41

import (
	"testing"

	"google.golang.org/protobuf/zverif/pbt"
)

func TestZZReplay(t *testing.T) { pbt.Replay(t) }
