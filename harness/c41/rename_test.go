package c41

import (
	"strings"

	"google.golang.org/protobuf/proto"
	"google.golang.org/protobuf/reflect/protoreflect"
	"google.golang.org/protobuf/types/descriptorpb"
)

// prefixSet returns a copy of the schema set whose proto packages start with pfx ("v3" + "." +
// package, or just "v3" for the empty package) and whose file paths start with pfx + "/", with every
// reference to a declaration of the set rewritten. Several such copies (and one unprefixed set) can
// be linked into one program without clashing in protoregistry.GlobalFiles / GlobalTypes. The copy is
// again a valid set: it is the same schema in another package. Custom options cannot be moved that
// way (their extendees are the google.protobuf.*Options messages, the numbers are fixed and their
// uses are unknown fields of options messages), so the copy drops their declarations, their uses and,
// in the files that declared them, the source info (whose paths index the declarations); the
// unprefixed unit of a program keeps them.
func prefixSet(files []*descriptorpb.FileDescriptorProto, pfx string) []*descriptorpb.FileDescriptorProto {
	if pfx == "" {
		return files
	}
	own := map[string]bool{}
	declared := map[string]bool{}
	for _, f := range files {
		own[f.GetName()] = true
		var walk func(prefix string, ms []*descriptorpb.DescriptorProto)
		enums := func(prefix string, es []*descriptorpb.EnumDescriptorProto) {
			for _, e := range es {
				declared[prefix+e.GetName()] = true
			}
		}
		walk = func(prefix string, ms []*descriptorpb.DescriptorProto) {
			for _, m := range ms {
				declared[prefix+m.GetName()] = true
				enums(prefix+m.GetName()+".", m.EnumType)
				walk(prefix+m.GetName()+".", m.NestedType)
			}
		}
		p := ""
		if f.GetPackage() != "" {
			p = f.GetPackage() + "."
		}
		enums(p, f.EnumType)
		walk(p, f.MessageType)
	}
	ref := func(s *string) {
		if s == nil || !strings.HasPrefix(*s, ".") || !declared[(*s)[1:]] {
			return
		}
		*s = "." + pfx + *s
	}
	out := make([]*descriptorpb.FileDescriptorProto, len(files))
	for i, f := range files {
		c := proto.Clone(f).(*descriptorpb.FileDescriptorProto)
		out[i] = c
		c.Name = proto.String(pfx + "/" + c.GetName())
		for j, d := range c.Dependency {
			if own[d] {
				c.Dependency[j] = pfx + "/" + d
			}
		}
		for j, d := range c.OptionDependency {
			if own[d] {
				c.OptionDependency[j] = pfx + "/" + d
			}
		}
		if c.GetPackage() == "" {
			c.Package = proto.String(pfx)
		} else {
			c.Package = proto.String(pfx + "." + c.GetPackage())
		}
		fields := func(fs []*descriptorpb.FieldDescriptorProto) {
			for _, fd := range fs {
				ref(fd.TypeName)
				ref(fd.Extendee)
			}
		}
		var walk func(ms []*descriptorpb.DescriptorProto)
		walk = func(ms []*descriptorpb.DescriptorProto) {
			for _, m := range ms {
				fields(m.Field)
				fields(m.Extension)
				for _, r := range m.ExtensionRange {
					for _, d := range r.GetOptions().GetDeclaration() {
						ref(d.Type)
						if d.FullName != nil && strings.HasPrefix(d.GetFullName(), ".") {
							d.FullName = proto.String("." + pfx + d.GetFullName())
						}
					}
				}
				walk(m.NestedType)
			}
		}
		dropped := len(c.Extension)
		c.Extension = dropCustom(c.Extension)
		dropped -= len(c.Extension)
		var strip func(ms []*descriptorpb.DescriptorProto)
		strip = func(ms []*descriptorpb.DescriptorProto) {
			for _, m := range ms {
				dropped += len(m.Extension)
				m.Extension = dropCustom(m.Extension)
				dropped -= len(m.Extension)
				strip(m.NestedType)
			}
		}
		strip(c.MessageType)
		if dropped > 0 {
			c.SourceCodeInfo = nil // its paths index the declarations
		}
		dropUnknown(c.ProtoReflect())
		fields(c.Extension)
		walk(c.MessageType)
		for _, sv := range c.Service {
			for _, m := range sv.Method {
				ref(m.InputType)
				ref(m.OutputType)
			}
		}
	}
	return out
}

func dropCustom(xs []*descriptorpb.FieldDescriptorProto) []*descriptorpb.FieldDescriptorProto {
	var out []*descriptorpb.FieldDescriptorProto
	for _, x := range xs {
		if !strings.HasPrefix(x.GetExtendee(), ".google.protobuf.") {
			out = append(out, x)
		}
	}
	return out
}

// dropUnknown removes unknown fields (uses of custom options) everywhere below m.
func dropUnknown(m protoreflect.Message) {
	if len(m.GetUnknown()) > 0 {
		m.SetUnknown(nil)
	}
	m.Range(func(fd protoreflect.FieldDescriptor, v protoreflect.Value) bool {
		switch {
		case fd.IsMap():
		case fd.IsList():
			if fd.Message() != nil {
				for i := 0; i < v.List().Len(); i++ {
					dropUnknown(v.List().Get(i).Message())
				}
			}
		case fd.Message() != nil:
			sub := v.Message()
			dropUnknown(sub)
			empty := len(sub.GetUnknown()) == 0
			sub.Range(func(protoreflect.FieldDescriptor, protoreflect.Value) bool { empty = false; return false })
			if empty { // an options message that only held custom options: absent in the canonical form
				m.Clear(fd)
			}
		}
		return true
	})
}
