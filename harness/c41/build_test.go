package c41

import (
	"bytes"
	"encoding/json"
	"fmt"
	"go/ast"
	"go/format"
	"go/importer"
	"go/parser"
	"go/token"
	"go/types"
	"io"
	"os"
	"os/exec"
	"path/filepath"
	"regexp"
	"sort"
	"strings"
	"sync"

	"google.golang.org/protobuf/compiler/protogen"
	"google.golang.org/protobuf/proto"
	"google.golang.org/protobuf/reflect/protoreflect"
	"google.golang.org/protobuf/types/descriptorpb"
	"google.golang.org/protobuf/types/gofeaturespb"
	"google.golang.org/protobuf/zverif/gencode"
	"google.golang.org/protobuf/zverif/pbt"
)

// ---------------------------------------------------------------------------------------------
// environment: a scratch directory outside /repo and /verif, Go modules that see the tree under test

const modPath = "google.golang.org/protobuf/zc41b" // under google.golang.org/protobuf/: may link harness packages that import internal/...

var (
	verifRepo = envOr("VERIF_REPO", "/repo")
	verifRoot = envOr("VERIF_ROOT", "/verif")

	tmpOnce sync.Once
	tmpDir  string
	tmpErr  error
	seqMu   sync.Mutex
	seq     int
)

func envOr(k, d string) string {
	if v := os.Getenv(k); v != "" {
		return v
	}
	return d
}

// scratch returns the scratch directory of this process (removed by TestZZZCleanup).
func scratch() (string, error) {
	tmpOnce.Do(func() {
		tmpDir, tmpErr = os.MkdirTemp("", fmt.Sprintf("verif-c41-%d-", os.Getpid()))
		if tmpErr == nil {
			for _, bad := range []string{verifRepo, verifRoot, "/repo", "/verif"} {
				if strings.HasPrefix(tmpDir+"/", strings.TrimSuffix(bad, "/")+"/") {
					tmpErr = fmt.Errorf("scratch directory %s lies inside %s", tmpDir, bad)
				}
			}
		}
	})
	return tmpDir, tmpErr
}

func cleanupScratch() {
	if tmpDir != "" {
		os.RemoveAll(tmpDir)
	}
}

func nextDir(prefix string) (string, error) {
	root, err := scratch()
	if err != nil {
		return "", err
	}
	seqMu.Lock()
	seq++
	n := seq
	seqMu.Unlock()
	d := filepath.Join(root, fmt.Sprintf("%s%d", prefix, n))
	return d, os.MkdirAll(d, 0o755)
}

func goEnv() []string {
	env := os.Environ()
	env = append(env, "GOFLAGS=-mod=mod", "GOPROXY=off", "GOSUMDB=off", "GOTOOLCHAIN=local", "GONOSUMDB=*", "GOWORK=off")
	if os.Getenv("GOCACHE") == "" {
		if home, err := os.UserHomeDir(); err == nil {
			env = append(env, "GOCACHE="+filepath.Join(home, ".cache", "go-build"))
		}
	}
	return env
}

// writeModule creates go.mod / go.sum of a scratch module whose google.golang.org/protobuf is the
// tree under test and whose google.golang.org/protobuf/zverif is the harness.
func writeModule(dir string) error {
	harness := filepath.Join(verifRoot, "harness")
	mod := fmt.Sprintf(`module %s

go 1.23

require (
	google.golang.org/protobuf v0.0.0
	google.golang.org/protobuf/zverif v0.0.0
	pgregory.net/rapid v1.3.0
	github.com/google/go-cmp v0.7.0
)

replace google.golang.org/protobuf => %s

replace google.golang.org/protobuf/zverif => %s
`, modPath, verifRepo, harness)
	if err := os.WriteFile(filepath.Join(dir, "go.mod"), []byte(mod), 0o644); err != nil {
		return err
	}
	sum, err := os.ReadFile(filepath.Join(harness, "go.sum"))
	if err != nil {
		return err
	}
	return os.WriteFile(filepath.Join(dir, "go.sum"), sum, 0o644)
}

func buildJobs() string {
	if pbt.Thorough() {
		return "2" // 16 shards build at the same time
	}
	return "6"
}

func runGo(dir string, args ...string) ([]byte, error) {
	cmd := exec.Command("go", args...)
	cmd.Dir = dir
	cmd.Env = goEnv()
	var out bytes.Buffer
	cmd.Stdout, cmd.Stderr = &out, &out
	err := cmd.Run()
	return out.Bytes(), err
}

// ---------------------------------------------------------------------------------------------
// generation

// level names used in cases ("open", "hybrid", "opaque"); "hybrid+protoopaque" = hybrid code built
// with -tags protoopaque (the _protoopaque.pb.go variants).
var levels = []string{"open", "hybrid", "opaque"}

func apiParam(level string) string {
	return "default_api_level=API_" + strings.ToUpper(strings.TrimSuffix(level, "+protoopaque"))
}

func goTags(level string) string {
	if strings.HasSuffix(level, "+protoopaque") {
		return "protoopaque"
	}
	return ""
}

// pkgDir is the directory (relative to the module root) that holds the Go package of file i at a level.
func pkgBase(level string) string { return lvDir(level) + "/gen" }

// lvDir is the directory of a level inside a scratch module (main program + gen/).
func lvDir(level string) string { return "l" + strings.ReplaceAll(level, "+protoopaque", "po") }

// assign gives file i the Go package <module>/<base>/p<i> (one package per file).
func assign(files []*descriptorpb.FileDescriptorProto, base string) {
	gencode.AssignGoPackages(files, modPath+"/"+base, true)
}

type generated struct {
	base  string                              // directory of the packages inside the module (<base>/p<i>)
	files []*descriptorpb.FileDescriptorProto // with go_package assigned: exactly what the generator saw
	out   map[string]string                   // path relative to the module root -> content
	names []string                            // in response order
	pkgOf map[string]int                      // generated file -> index of its schema file
}

// generate runs the tree's protoc-gen-go in process (check 1: no error); the packages of the set are
// <module>/l<level>/gen/p<i>.
func generate(files []*descriptorpb.FileDescriptorProto, level string) (*generated, error) {
	return generateAt(files, level, pkgBase(level))
}

func generateAt(files []*descriptorpb.FileDescriptorProto, level, base string) (*generated, error) {
	g := &generated{base: base, pkgOf: map[string]int{}}
	for _, f := range files {
		g.files = append(g.files, proto.Clone(f).(*descriptorpb.FileDescriptorProto))
	}
	assign(g.files, base)
	req, err := gencode.Request(g.files, nil, gencode.JoinParams(apiParam(level), "module="+modPath))
	if err != nil {
		return nil, fmt.Errorf("harness: %v", err)
	}
	resp, err := gencode.Generate(req)
	if err != nil {
		return nil, fmt.Errorf("protoc-gen-go: protogen.Options.New fails on a valid schema set: %v", err)
	}
	if resp.Error != nil {
		return nil, fmt.Errorf("protoc-gen-go reports an error for a valid schema set: %.800s", resp.GetError())
	}
	g.out = gencode.Files(resp)
	g.names = gencode.Names(resp)
	if len(g.out) != len(g.names) {
		return nil, fmt.Errorf("protoc-gen-go emits the same file name twice: %v", g.names)
	}
	want := map[string]bool{}
	for i := range g.files {
		want[fmt.Sprintf("%s/p%d/", base, i)] = false
	}
	for _, n := range g.names {
		dir := n[:strings.LastIndex(n, "/")+1]
		if _, ok := want[dir]; !ok {
			return nil, fmt.Errorf("protoc-gen-go emits %s, which is in no requested Go package", n)
		}
		var i int
		fmt.Sscanf(strings.TrimPrefix(dir, base+"/p"), "%d", &i)
		g.pkgOf[n] = i
		if !strings.HasSuffix(n, "_protoopaque.pb.go") {
			want[dir] = true
		}
	}
	for d, ok := range want {
		if !ok {
			return nil, fmt.Errorf("protoc-gen-go emits no .pb.go file for package %s", d)
		}
	}
	return g, nil
}

var buildTagLine = regexp.MustCompile(`(?m)^//go:build (!?)protoopaque$`)

// selected reports whether the go tool compiles the generated file under the given tags.
func selected(src, tags string) bool {
	m := buildTagLine.FindStringSubmatch(src)
	if m == nil {
		return true
	}
	return (m[1] == "!") != (tags == "protoopaque")
}

// checkFormat is check 2: every generated file is gofmt-stable and parses.
func checkFormat(g *generated) error {
	for _, n := range g.names {
		src := g.out[n]
		if _, err := parser.ParseFile(token.NewFileSet(), n, src, parser.ParseComments|parser.SkipObjectResolution); err != nil {
			return fmt.Errorf("generated file %s does not parse: %v", n, err)
		}
		f, err := format.Source([]byte(src))
		if err != nil {
			return fmt.Errorf("generated file %s: go/format fails: %v", n, err)
		}
		if string(f) != src {
			return fmt.Errorf("generated file %s is not gofmt-formatted: %s", n, firstDiff(src, string(f)))
		}
	}
	return nil
}

func firstDiff(a, b string) string {
	la, lb := strings.Split(a, "\n"), strings.Split(b, "\n")
	for i := 0; i < len(la) && i < len(lb); i++ {
		if la[i] != lb[i] {
			return fmt.Sprintf("line %d: %q, gofmt: %q", i+1, la[i], lb[i])
		}
	}
	return fmt.Sprintf("%d lines, gofmt: %d lines", len(la), len(lb))
}

// ---------------------------------------------------------------------------------------------
// in-process type check (go/types over the export data of the tree under test)

var (
	exportOnce sync.Once
	exportMap  map[string]string // import path -> export data file
	exportErr  error
	gcMu       sync.Mutex
	gcImp      types.Importer
	gcFset     = token.NewFileSet()
)

// the packages generated code may import (their dependencies come along with -deps)
var runtimePkgs = []string{
	"google.golang.org/protobuf/runtime/protoimpl", "google.golang.org/protobuf/runtime/protoiface",
	"google.golang.org/protobuf/reflect/protoreflect", "google.golang.org/protobuf/reflect/protoregistry",
	"google.golang.org/protobuf/proto", "google.golang.org/protobuf/types/descriptorpb",
	"google.golang.org/protobuf/types/gofeaturespb", "google.golang.org/protobuf/types/known/anypb",
	"google.golang.org/protobuf/types/known/durationpb", "google.golang.org/protobuf/types/known/emptypb",
	"google.golang.org/protobuf/types/known/fieldmaskpb", "google.golang.org/protobuf/types/known/structpb",
	"google.golang.org/protobuf/types/known/timestamppb", "google.golang.org/protobuf/types/known/wrapperspb",
}

func loadExports() {
	dir, err := nextDir("export")
	if err != nil {
		exportErr = err
		return
	}
	if exportErr = writeModule(dir); exportErr != nil {
		return
	}
	args := append([]string{"list", "-p", buildJobs(), "-export", "-deps", "-f", "{{if .Export}}{{.ImportPath}}={{.Export}}{{end}}"}, runtimePkgs...)
	cmd := exec.Command("go", args...)
	cmd.Dir = dir
	cmd.Env = goEnv()
	var stderr bytes.Buffer
	cmd.Stderr = &stderr
	out, err := cmd.Output()
	if err != nil {
		exportErr = fmt.Errorf("go list -export: %v\n%s", err, stderr.String())
		return
	}
	exportMap = map[string]string{}
	for _, l := range strings.Split(string(out), "\n") {
		if i := strings.IndexByte(l, '='); i > 0 {
			exportMap[l[:i]] = l[i+1:]
		}
	}
	gcImp = importer.ForCompiler(gcFset, "gc", func(path string) (io.ReadCloser, error) {
		f, ok := exportMap[path]
		if !ok {
			return nil, fmt.Errorf("no export data for %q", path)
		}
		return os.Open(f)
	})
}

type setImporter struct {
	own map[string]*types.Package
}

func (s setImporter) Import(path string) (*types.Package, error) {
	if p, ok := s.own[path]; ok {
		return p, nil
	}
	if path == "unsafe" {
		return types.Unsafe, nil
	}
	return gcImp.Import(path)
}

// typeError is one go/types error of a generated package.
type typeError struct {
	File string // generated file
	Pkg  int    // index of the schema file
	Msg  string
	Pos  string
}

// typecheck type-checks every Go package of g (dependencies first) the way the compiler front end
// does. Harness problems come back as err; errors of the generated code as the list.
func typecheck(g *generated, level string) ([]typeError, error) {
	exportOnce.Do(loadExports)
	if exportErr != nil {
		return nil, exportErr
	}
	gcMu.Lock()
	defer gcMu.Unlock()
	tags := goTags(level)
	own := map[string]*types.Package{}
	var out []typeError
	for i := range g.files { // files are in dependency order
		pkgPath := gencode.GoImportPathOf(g.files[i])
		fset := token.NewFileSet()
		var asts []*ast.File
		var names []string
		for _, n := range g.names {
			if g.pkgOf[n] != i || !selected(g.out[n], tags) {
				continue
			}
			f, err := parser.ParseFile(fset, n, g.out[n], parser.SkipObjectResolution)
			if err != nil {
				out = append(out, typeError{File: n, Pkg: i, Msg: "does not parse: " + err.Error()})
				continue
			}
			asts = append(asts, f)
			names = append(names, n)
		}
		perPkg := 0
		conf := types.Config{
			Importer:  setImporter{own},
			GoVersion: "go1.23",
			Error: func(err error) {
				te := typeError{Pkg: i, Msg: err.Error()}
				if e, ok := err.(types.Error); ok {
					p := e.Fset.Position(e.Pos)
					te.File, te.Msg, te.Pos = p.Filename, e.Msg, fmt.Sprintf("%d:%d", p.Line, p.Column)
				}
				if perPkg < 40 { // per package: a later package must never go unnoticed
					perPkg++
					out = append(out, te)
				}
			},
		}
		pkg, _ := conf.Check(pkgPath, fset, asts, nil)
		if pkg != nil {
			own[pkgPath] = pkg
		}
		_ = names
	}
	for _, e := range out {
		if strings.Contains(e.Msg, "no export data for") || strings.Contains(e.Msg, "could not import") && !strings.Contains(e.Msg, modPath) {
			return nil, fmt.Errorf("type-check environment incomplete: %s", e.Msg)
		}
	}
	return out, nil
}

// ---------------------------------------------------------------------------------------------
// real builds

const mainSrc = `package main

import (
	"google.golang.org/protobuf/zverif/c41/c41run"
%s)

func main() {
%s	c41run.Main()
}
`

// writeUnit writes the generated packages of one unit (a schema set at one level) into the module at
// dir; keep selects the schema files whose packages are written and linked.
func writeUnit(dir string, g *generated, keep map[int]bool) error {
	for n, src := range g.out {
		if keep != nil && !keep[g.pkgOf[n]] {
			continue
		}
		p := filepath.Join(dir, n)
		if err := os.MkdirAll(filepath.Dir(p), 0o755); err != nil {
			return err
		}
		if err := os.WriteFile(p, []byte(src), 0o644); err != nil {
			return err
		}
	}
	return nil
}

// builderRef names the generated builder struct of a message: <GoName>_builder in the package of its file.
type builderRef struct {
	pkg, goName, full string
}

// builderRefs lists the builders the generated packages of g declare when compiled with the tags of
// level (documented naming: <Msg>_builder for every message that is not on the open API; the
// _protoopaque variant of a hybrid file makes every message of the file opaque).
func builderRefs(g *generated, level string, keep map[int]bool) ([]builderRef, error) {
	req, err := gencode.Request(g.files, nil, apiParam(level))
	if err != nil {
		return nil, err
	}
	gen, err := gencode.Plugin(req)
	if err != nil {
		return nil, err
	}
	idx := map[string]int{}
	for i, f := range g.files {
		idx[f.GetName()] = i
	}
	var out []builderRef
	for _, f := range gen.Files {
		i, ok := idx[f.Desc.Path()]
		if !ok || !f.Generate || (keep != nil && !keep[i]) {
			continue
		}
		all := goTags(level) != "" && f.APILevel == gofeaturespb.GoFeatures_API_HYBRID
		var walk func(ms []*protogen.Message)
		walk = func(ms []*protogen.Message) {
			for _, m := range ms {
				if m.Desc.IsMapEntry() {
					continue
				}
				if all || m.APILevel != gofeaturespb.GoFeatures_API_OPEN {
					out = append(out, builderRef{pkg: string(f.GoImportPath), goName: m.GoIdent.GoName + "_builder", full: string(m.Desc.FullName())})
				}
				walk(m.Messages)
			}
		}
		walk(f.Messages)
	}
	return out, nil
}

// writeMain writes the main program <dir>/<name>/main.go that links the given packages and
// registers the builders.
func writeMain(dir, name string, imports []string, builders []builderRef) error {
	var imps, body strings.Builder
	alias := map[string]string{}
	for _, p := range imports {
		fmt.Fprintf(&imps, "\t_ %q\n", p)
	}
	for _, b := range builders {
		if alias[b.pkg] == "" {
			alias[b.pkg] = fmt.Sprintf("g%d", len(alias))
			fmt.Fprintf(&imps, "\t%s %q\n", alias[b.pkg], b.pkg)
		}
		fmt.Fprintf(&body, "\tc41run.Builders[%q] = %s.%s{}\n", b.full, alias[b.pkg], b.goName)
	}
	mdir := filepath.Join(dir, name)
	if err := os.MkdirAll(mdir, 0o755); err != nil {
		return err
	}
	return os.WriteFile(filepath.Join(mdir, "main.go"), []byte(fmt.Sprintf(mainSrc, imps.String(), body.String())), 0o644)
}

var buildErrLine = regexp.MustCompile(`^(?:\./)?((u\d+)/p(\d+)/[^:]+):(\d+:\d+): (.*)$`)

// buildError is one compiler diagnostic attributed to a unit and a schema file.
type buildError struct {
	File string
	Unit string // unit directory
	Pkg  int
	Pos  string
	Msg  string
}

func parseBuildErrors(out []byte) []buildError {
	var errs []buildError
	for _, l := range strings.Split(string(out), "\n") {
		if m := buildErrLine.FindStringSubmatch(strings.TrimSpace(l)); m != nil {
			var i int
			fmt.Sscanf(m[3], "%d", &i)
			errs = append(errs, buildError{File: m[1], Unit: m[2], Pkg: i, Pos: m[4], Msg: m[5]})
		}
	}
	return errs
}

// goBuild compiles and links main program <dir>/<name> into <dir>/<name>.bin.
func goBuild(dir, name, tags string) ([]byte, error) {
	args := []string{"build", "-p", buildJobs(), "-ldflags=-s -w"}
	if tags != "" {
		args = append(args, "-tags", tags)
	}
	args = append(args, "-o", filepath.Join(dir, name+".bin"), "./"+name)
	return runGo(dir, args...)
}

// ---------------------------------------------------------------------------------------------
// expectations for the registered descriptor (check 4)

// stripSourceRetention clears every field whose declaration carries [retention = RETENTION_SOURCE]
// (descriptor.proto: such options are not retained at run time), recursively.
func stripSourceRetention(m protoreflect.Message) {
	m.Range(func(fd protoreflect.FieldDescriptor, v protoreflect.Value) bool {
		if o, ok := fd.Options().(*descriptorpb.FieldOptions); ok && o.GetRetention() == descriptorpb.FieldOptions_RETENTION_SOURCE {
			m.Clear(fd)
			return true
		}
		switch {
		case fd.IsMap():
			if fd.MapValue().Message() != nil {
				v.Map().Range(func(_ protoreflect.MapKey, e protoreflect.Value) bool {
					stripSourceRetention(e.Message())
					return true
				})
			}
		case fd.IsList():
			if fd.Message() != nil {
				for i := 0; i < v.List().Len(); i++ {
					stripSourceRetention(v.List().Get(i).Message())
				}
			}
		case fd.Message() != nil:
			stripSourceRetention(v.Message())
		}
		return true
	})
}

// expectedDescriptors: the input minus source_code_info and source-retention options.
func expectedDescriptors(files []*descriptorpb.FileDescriptorProto) [][]byte {
	out := make([][]byte, len(files))
	for i, f := range files {
		c := proto.Clone(f).(*descriptorpb.FileDescriptorProto)
		c.SourceCodeInfo = nil
		stripSourceRetention(c.ProtoReflect())
		b, err := proto.MarshalOptions{Deterministic: true, AllowPartial: true}.Marshal(c)
		if err != nil {
			panic(err)
		}
		if b == nil {
			b = []byte{}
		}
		out[i] = b
	}
	return out
}

func mustJSON(v any) []byte {
	b, err := json.Marshal(v)
	if err != nil {
		panic(err)
	}
	return b
}

func sortedKeys[V any](m map[string]V) []string {
	var ks []string
	for k := range m {
		ks = append(ks, k)
	}
	sort.Strings(ks)
	return ks
}
