package c41

import (
	"os"
	"path/filepath"
	"testing"
	"time"

	"google.golang.org/protobuf/zverif/pbt"
)

func TestMain(m *testing.M) {
	// scratch directories of processes that died before TestZZZCleanup
	if old, _ := filepath.Glob(filepath.Join(os.TempDir(), "verif-c41-*")); len(old) > 0 {
		for _, o := range old {
			if st, err := os.Stat(o); err == nil && time.Since(st.ModTime()) > 2*time.Hour {
				os.RemoveAll(o)
			}
		}
	}
	pbt.Main(m, "C41")
}
