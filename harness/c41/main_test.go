package c41

import (
	"testing"

	"google.golang.org/protobuf/zverif/pbt"
)

func TestMain(m *testing.M) { pbt.Main(m, "C41") }
