package c41

import (
	"encoding/json"
	"os"
	"testing"

	"google.golang.org/protobuf/zverif/schema"
)

func TestDev2(t *testing.T) {
	p := os.Getenv("C41_DEV2")
	if p == "" {
		t.Skip()
	}
	b, _ := os.ReadFile(p)
	var rf struct{ Case genCase }
	json.Unmarshal(b, &rf)
	files, _ := schema.Unmarshal(rf.Case.Raw)
	g, err := generate(files, rf.Case.Level)
	if err != nil {
		t.Fatal(err)
	}
	for n, s := range g.out {
		os.MkdirAll("/tmp/cgb/dev2", 0o755)
		os.WriteFile("/tmp/cgb/dev2/"+sanit(n), []byte(s), 0o644)
	}
	errs, err := typecheck(g, rf.Case.Level)
	for _, e := range errs {
		t.Logf("%s %s %s", e.File, e.Pos, e.Msg)
	}
}

func sanit(s string) string {
	o := []byte(s)
	for i := range o {
		if o[i] == '/' {
			o[i] = '_'
		}
	}
	return string(o)
}
