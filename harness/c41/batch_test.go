package c41

import (
	"bufio"
	"crypto/sha256"
	"encoding/hex"
	"encoding/json"
	"errors"
	"fmt"
	"io"
	"os"
	"os/exec"
	"path/filepath"
	"sort"
	"strings"
	"sync"
	"testing"
	"time"

	"google.golang.org/protobuf/encoding/prototext"
	"google.golang.org/protobuf/reflect/protoreflect"
	"google.golang.org/protobuf/reflect/protoregistry"
	"google.golang.org/protobuf/types/descriptorpb"
	"google.golang.org/protobuf/zverif/c41/c41run"
	"google.golang.org/protobuf/zverif/gen"
	"google.golang.org/protobuf/zverif/gencode"
	"google.golang.org/protobuf/zverif/mcase"
	"google.golang.org/protobuf/zverif/model"
	"google.golang.org/protobuf/zverif/ops"
	"google.golang.org/protobuf/zverif/pbt"
	"google.golang.org/protobuf/zverif/schema"
	"pgregory.net/rapid"
)

// ---------------------------------------------------------------------------------------------
// runners: one compiled program per (schema set, API level)

// batchCase is one schema set at one API level: the unit that is generated, built and linked.
type batchCase struct {
	Raw   [][]byte `json:"raw"`
	Level string   `json:"level"`
	Adv   bool     `json:"adv,omitempty"` // adversarial names: generated accessors are not addressed by name
	Text  []string `json:"text,omitempty"`
}

// runner is one unit: a schema set at one API level inside a linked program.
type runner struct {
	level   string
	adv     bool
	raw     [][]byte
	files   []*descriptorpb.FileDescriptorProto // the whole set
	keep    map[int]bool                        // files linked into the program
	dropped map[int]string                      // files left out: registered reason
	ids     []string                            // findings that explain the dropped files
	gen     *generated
	prog    *program
	unit    int // index in the program
	udir    string
	initRes c41run.Resp
	err     error // why there is no usable runner (a violation unless it starts with "harness:" / "skip:")
}

// program is one linked main program serving several units.
type program struct {
	dir, name, tags string
	bin, batchF     string
	conn            *progConn
	mu              sync.Mutex
}

// progConn speaks the JSON-lines protocol of c41run.Main (same as pbt.PeerConn, but it keeps the
// program's stderr so that a crash of the generated code can be reported with its message).
type progConn struct {
	cmd    *exec.Cmd
	in     io.WriteCloser
	out    *bufio.Reader
	stderr *tailBuffer
}

type tailBuffer struct {
	mu sync.Mutex
	b  []byte
}

func (t *tailBuffer) Write(p []byte) (int, error) {
	t.mu.Lock()
	defer t.mu.Unlock()
	if room := 8000 - len(t.b); room > 0 { // the head: a panic message comes first
		if len(p) < room {
			room = len(p)
		}
		t.b = append(t.b, p[:room]...)
	}
	return len(p), nil
}

func (t *tailBuffer) String() string {
	t.mu.Lock()
	defer t.mu.Unlock()
	return string(t.b)
}

func startProg(bin string, env ...string) (*progConn, error) {
	cmd := exec.Command(bin)
	cmd.Env = append(os.Environ(), env...)
	c := &progConn{cmd: cmd, stderr: &tailBuffer{}}
	cmd.Stderr = c.stderr
	var err error
	if c.in, err = cmd.StdinPipe(); err != nil {
		return nil, err
	}
	outp, err := cmd.StdoutPipe()
	if err != nil {
		return nil, err
	}
	if err := cmd.Start(); err != nil {
		return nil, err
	}
	c.out = bufio.NewReaderSize(outp, 1<<20)
	return c, nil
}

var errDied = fmt.Errorf("died")

// Call sends one request and decodes the answer; errDied (wrapped) when the program is gone.
func (c *progConn) Call(req any, resp any) error {
	b, err := json.Marshal(req)
	if err != nil {
		return fmt.Errorf("harness: %v", err)
	}
	if _, err := c.in.Write(append(b, '\n')); err != nil {
		return fmt.Errorf("%w: write: %v", errDied, err)
	}
	for {
		line, err := c.out.ReadBytes('\n')
		if err != nil {
			return fmt.Errorf("%w: read: %v", errDied, err)
		}
		if len(line) == 0 || line[0] != '{' {
			continue
		}
		var r struct {
			OK    json.RawMessage `json:"ok"`
			Error string          `json:"error"`
		}
		if err := json.Unmarshal(line, &r); err != nil {
			continue
		}
		if r.Error != "" {
			return fmt.Errorf("%s", r.Error)
		}
		if resp != nil && r.OK != nil {
			return json.Unmarshal(r.OK, resp)
		}
		return nil
	}
}

func (c *progConn) Close() {
	c.in.Close()
	c.cmd.Wait()
}

// unitSpec asks for a runner. Sets linked into one program must not share file paths or full names
// (see prefixSet).
type unitSpec struct {
	raw   [][]byte
	level string
	adv   bool
}

var (
	runnersMu sync.Mutex
	runners   = map[string]*runner{}
	programs  []*program
)

func setKey(raw [][]byte, level string) string {
	h := sha256.New()
	for _, b := range raw {
		fmt.Fprintf(h, "%d:", len(b))
		h.Write(b)
	}
	h.Write([]byte(level))
	return hex.EncodeToString(h.Sum(nil)[:12])
}

func hasWKT(files []*descriptorpb.FileDescriptorProto) bool {
	for _, f := range files {
		for _, d := range f.GetDependency() {
			if strings.HasPrefix(d, "google/protobuf/") && d != "google/protobuf/descriptor.proto" && d != "google/protobuf/go_features.proto" {
				return true
			}
		}
	}
	return false
}

// buildRunners generates, type-checks, writes, compiles and links the requested units: one scratch
// module, one main program (one go build, one link) per build-tag set. Known (set, level) pairs are kept.
func buildRunners(specs []unitSpec) {
	t0 := time.Now()
	var todo []*runner
	runnersMu.Lock()
	for _, sp := range specs {
		k := setKey(sp.raw, sp.level)
		if runners[k] == nil {
			r := &runner{level: sp.level, adv: sp.adv, raw: sp.raw}
			runners[k] = r
			todo = append(todo, r)
		}
	}
	runnersMu.Unlock()
	if len(todo) == 0 {
		return
	}
	dir, err := nextDir("mod")
	if err == nil {
		err = writeModule(dir)
	}
	if err != nil {
		for _, r := range todo {
			r.err = fmt.Errorf("harness: %v", err)
		}
		return
	}
	byTags := map[string][]*runner{}
	for ui, r := range todo {
		files, err := schema.Unmarshal(r.raw)
		if err != nil {
			r.err = fmt.Errorf("harness: %v", err)
			continue
		}
		if _, err := schema.Build(files); err != nil {
			r.err = fmt.Errorf("harness: not a valid schema set: %v", err)
			continue
		}
		r.files = files
		r.udir = fmt.Sprintf("u%d", ui)
		g, bad, res, err := frontEndAt(files, r.level, r.udir, true)
		if err != nil {
			r.err = err
			continue
		}
		r.keep, r.dropped, r.ids = map[int]bool{}, bad, res.ids
		for i := range files {
			if bad[i] == "" {
				r.keep[i] = true
			}
		}
		if len(r.keep) == 0 {
			r.err = fmt.Errorf("skip: every package of the set fails for a registered reason")
			continue
		}
		if err := writeUnit(dir, g, r.keep); err != nil {
			r.err = fmt.Errorf("harness: %v", err)
			continue
		}
		r.files = g.files // with go_package: what the generator saw
		r.gen = g
		byTags[goTags(r.level)] = append(byTags[goTags(r.level)], r)
	}
	tFront := time.Since(t0)
	for _, tag := range sortedKeys(byTags) {
		rs := byTags[tag]
		for attempt := 0; attempt < 2 && len(rs) > 0; attempt++ {
			p := &program{dir: dir, name: fmt.Sprintf("main%s%d", tag, attempt), tags: tag}
			var imports []string
			var builders []builderRef
			var batch c41run.Batch
			for i, r := range rs {
				var kept []*descriptorpb.FileDescriptorProto
				for j, f := range r.files {
					if r.keep[j] {
						kept = append(kept, f)
						imports = append(imports, gencode.GoImportPathOf(f))
					}
				}
				if !r.adv {
					if bs, err := builderRefs(r.gen, r.level, r.keep); err == nil {
						builders = append(builders, bs...)
					}
				}
				batch.Units = append(batch.Units, c41run.Unit{Level: r.level, Files: schema.Marshal(kept), Expected: expectedDescriptors(kept), Names: !r.adv, WKT: hasWKT(kept)})
				r.unit = i
			}
			p.batchF = filepath.Join(dir, p.name+".json")
			err := os.WriteFile(p.batchF, mustJSON(batch), 0o644)
			if err == nil {
				err = writeMain(dir, p.name, imports, builders)
			}
			if err != nil {
				for _, r := range rs {
					r.err = fmt.Errorf("harness: %v", err)
				}
				break
			}
			out, err := goBuild(dir, p.name, tag)
			if err == nil {
				p.bin = filepath.Join(dir, p.name+".bin")
				runnersMu.Lock()
				programs = append(programs, p)
				runnersMu.Unlock()
				for _, r := range rs {
					r.prog = p
				}
				break
			}
			// attribute the diagnostics to units; the others are linked again without the failing ones
			errs := parseBuildErrors(out)
			var rest []*runner
			for _, r := range rs {
				var mine []buildError
				for _, e := range errs {
					if e.Unit == r.udir {
						mine = append(mine, e)
					}
				}
				if len(mine) > 0 {
					e := mine[0]
					r.err = fmt.Errorf("generated package of %s (API level %s) does not compile (go build): %s:%s: %s (%d diagnostics)", r.files[e.Pkg].GetName(), r.level, e.File, e.Pos, e.Msg, len(mine))
				} else {
					rest = append(rest, r)
				}
			}
			if len(rest) == len(rs) || attempt == 1 {
				for _, r := range rest {
					r.err = fmt.Errorf("harness: go build failed without a diagnostic in a generated package: %v\n%.3000s", err, out)
				}
				break
			}
			rs = rest
		}
	}
	tBuild := time.Since(t0) - tFront
	for _, r := range todo {
		if r.err != nil || r.prog == nil {
			continue
		}
		if err := r.call(c41run.Req{Op: "init"}, &r.initRes); err != nil {
			if strings.HasPrefix(err.Error(), "harness:") {
				r.err = err
			} else {
				r.err = fmt.Errorf("at init (API level %s): %v", r.level, err)
			}
		}
	}
	pbt.S.Note("%d units: generate+format+typecheck %.1fs, go build %.1fs, start+init %.1fs", len(todo), tFront.Seconds(), tBuild.Seconds(), (time.Since(t0) - tFront - tBuild).Seconds())
}

func (p *program) start() error {
	conn, err := startProg(p.bin, "C41_BATCH="+p.batchF)
	if err != nil {
		return fmt.Errorf("harness: %v", err)
	}
	p.conn = conn
	return nil
}

func (p *program) stop() {
	p.mu.Lock()
	defer p.mu.Unlock()
	if p.conn != nil {
		p.conn.Close()
		p.conn = nil
	}
}

func closeRunners() {
	runnersMu.Lock()
	defer runnersMu.Unlock()
	for _, p := range programs {
		p.stop()
	}
}

func runnerFor(raw [][]byte, level string, adv bool) *runner {
	runnersMu.Lock()
	r := runners[setKey(raw, level)]
	runnersMu.Unlock()
	if r == nil {
		buildRunners([]unitSpec{{raw, level, adv}})
		runnersMu.Lock()
		r = runners[setKey(raw, level)]
		runnersMu.Unlock()
	}
	return r
}

// call sends one request to the unit's program; a dead program (crash of the generated code) is
// reported and restarted for the next case.
func (r *runner) call(q c41run.Req, resp *c41run.Resp) error {
	p := r.prog
	p.mu.Lock()
	defer p.mu.Unlock()
	if p.conn == nil {
		if err := p.start(); err != nil {
			return err
		}
	}
	q.Unit = r.unit
	err := p.conn.Call(q, resp)
	if errors.Is(err, errDied) {
		p.conn.Close()
		msg := p.conn.stderr.String()
		p.conn = nil
		if i := strings.Index(msg, "\ngoroutine "); i > 0 && i < 1500 {
			j := i + 1500
			if j > len(msg) {
				j = len(msg)
			}
			msg = msg[:j]
		} else if len(msg) > 2500 {
			msg = msg[:2500]
		}
		return fmt.Errorf("the program linked with the generated code died while handling the request (%v): %s", err, msg)
	}
	return err
}

// ---------------------------------------------------------------------------------------------
// sub-check "batch": checks 1-4 on whole sets, with the real go build

func checkBatch(c batchCase) error {
	r := runnerFor(c.Raw, c.Level, c.Adv)
	if r.err != nil && !strings.HasPrefix(r.err.Error(), "skip:") {
		return r.err
	}
	return nil
}

// batchSpec is one drawn schema set; variant is the set as linked at one level (prefixed unless it
// is the first unit of its program).
type batchSpec struct {
	idx      int
	witness  bool // fixed witness schema of a finding, not a drawn set
	opts     schema.Opts
	adv      bool
	lvls     []string
	files    []*descriptorpb.FileDescriptorProto
	variants []*variant
}

type variant struct {
	b     *batchSpec
	level string
	files []*descriptorpb.FileDescriptorProto
	raw   [][]byte
	reg   *protoregistry.Files
	types *protoregistry.Types
}

// planBatches fixes the schema sets of this run: drawn with rapid's example generator from seeds
// derived from VERIF_SEED (and the shard), so a run is reproducible.
func planBatches() []*batchSpec {
	n := 3
	var out []*batchSpec
	for i := 0; i < n; i++ {
		k := int(pbt.Shard)*n + i
		b := &batchSpec{idx: k}
		kind := k % 5
		if !pbt.Thorough() {
			kind = []int{int(pbt.Seed) % 2, 3, 2}[i] // quick: two plain sets (well-known imports on odd seeds) and an adversarial one
		}
		b.opts = schema.Opts{MaxFiles: 8, Lazy: true, SourceInfo: true}
		b.lvls = []string{"open", "hybrid", "opaque"}
		if pbt.Thorough() {
			b.lvls = append(b.lvls, "hybrid+protoopaque")
		}
		switch kind {
		case 1:
			b.opts.WellKnown = true
			b.opts.SourceInfo = true
		case 2:
			b.opts.AdversarialNames = true
			b.opts.MaxFiles = 6
			b.adv = true
			if !pbt.Thorough() {
				b.lvls = []string{levels[(int(pbt.Seed)+k)%3]}
			}
		case 3:
			b.opts.MaxFiles = 5
			b.opts.MaxMessages = 6
			b.opts.MaxFields = 12
		case 4:
			b.opts.WellKnown = true
			b.opts.NoGroups = k%2 == 0
			b.opts.Syntaxes = [][]string{{"proto2", "proto3"}, {"2023", "2024"}, {"proto3", "2024"}}[k%3]
		}
		seed := int(pbt.DeriveSeed(fmt.Sprintf("batch-%d", k)) & 0x7fffffff)
		// a set worth a build: at least 4 files and 20 messages, else the richest of 40 (the example generator favours small values)
		var best []*descriptorpb.FileDescriptorProto
		nbest := -1
		for try := 0; try < 40; try++ {
			files := schema.Generator(b.opts).Example(seed + try)
			reg, err := schema.Build(files)
			if err != nil {
				continue
			}
			if nm := len(schema.Messages(reg, files)); nm > nbest {
				best, nbest = files, nm
			}
			if len(files) >= 4 && nbest >= 20 {
				break
			}
		}
		if best == nil {
			continue
		}
		b.files = best
		out = append(out, b)
	}
	for i, txt := range []string{negZeroSchema, repStrExtSchema} {
		if f := parseFile(txt); f != nil {
			out = append(out, &batchSpec{idx: -1 - i, witness: true, lvls: []string{levels[(int(pbt.Seed)+i)%3]}, files: []*descriptorpb.FileDescriptorProto{f}})
		}
	}
	// units: the first unit of each program (one program per build-tag set) keeps its names, the
	// others get a package / path prefix; which (set, level) comes first rotates with the seed
	type pair struct {
		b *batchSpec
		l string
	}
	var pairs []pair
	for _, b := range out {
		for _, l := range b.lvls {
			pairs = append(pairs, pair{b, l})
		}
	}
	if len(pairs) > 0 {
		r := (int(pbt.Seed) + int(pbt.Shard)) % len(pairs)
		pairs = append(pairs[r:], pairs[:r]...)
	}
	pos := map[string]int{}
	for _, p := range pairs {
		tag := goTags(p.l)
		pfx := ""
		if pos[tag] > 0 {
			pfx = fmt.Sprintf("v%d", pos[tag])
		}
		pos[tag]++
		v := &variant{b: p.b, level: p.l, files: prefixSet(p.b.files, pfx)}
		reg, err := schema.Build(v.files)
		if err != nil {
			fmt.Printf("HARNESS-ERROR property=C41 check=batch prefixed copy of a schema set is not valid: %v\n", err)
			continue
		}
		v.reg = reg
		v.raw = schema.Marshal(v.files)
		v.types, _ = schema.Types(reg, v.files)
		p.b.variants = append(p.b.variants, v)
	}
	return out
}

var (
	planOnce sync.Once
	plan     []*batchSpec
)

func batches() []*batchSpec {
	planOnce.Do(func() {
		plan = planBatches()
		var specs []unitSpec
		for _, b := range plan {
			for _, v := range b.variants {
				specs = append(specs, unitSpec{v.raw, v.level, b.adv})
			}
		}
		buildRunners(specs)
	})
	return plan
}

const batchRule = "schema sets of up to 8 files (harness/schema; plain names, plain + well-known imports / custom options / source info, adversarial names, larger messages) drawn from seeds derived from VERIF_SEED, each at API level open / hybrid / opaque / hybrid built with -tags protoopaque: generator succeeds, files are gofmt-stable, the packages pass go/types, and a throw-away module (outside /repo and /verif; replace google.golang.org/protobuf => tree under test) with one Go package per file plus a main program COMPILES AND LINKS with go build; at start-up every file is found in protoregistry.GlobalFiles, protodesc.ToFileDescriptorProto of it equals the input minus source_code_info and fields marked retention = RETENTION_SOURCE, and every message / enum / extension has a generated Go type registered. Packages that fail for a registered name-clash finding (and their importers) are left out and counted. non-trivial = every batch"

func TestBatch(t *testing.T) {
	pbt.Register(pbt.Prop[batchCase]{Name: "batch", Check: checkBatch})
	if pbt.Skip() {
		return
	}
	pbt.S.SetRule("batch", batchRule)
	minimised := false
	for _, b := range batches() {
		if b.witness {
			continue
		}
		for _, v := range b.variants {
			l := v.level
			c := batchCase{Raw: v.raw, Level: l, Adv: b.adv, Text: schema.Text(v.files)}
			r := runnerFor(c.Raw, c.Level, c.Adv)
			if r.err != nil && !strings.HasPrefix(r.err.Error(), "skip:") {
				if strings.HasPrefix(r.err.Error(), "harness:") {
					fmt.Printf("HARNESS-ERROR property=C41 check=batch %.2000s\n", r.err.Error())
					t.Errorf("harness error: %v", r.err)
					continue
				}
				mc, merr := c, r.err
				if !minimised { // reduce the first failing unit only: the others usually fail alike
					minimised = true
					mc, merr = minimise(c, r.err)
				}
				pbt.ReportViolation(t, "batch", mc, merr)
				continue
			}
			cl := []string{"level:" + l, fmt.Sprintf("files:%d", len(b.files)), fmt.Sprintf("linked-packages:%d", len(r.keep))}
			if v.files[0].GetName() == b.files[0].GetName() {
				cl = append(cl, "unprefixed")
			}
			if b.adv {
				cl = append(cl, "adversarial-names")
			}
			for _, id := range r.ids {
				cl = append(cl, "left-out:"+id)
			}
			for _, k := range schema.Constructs(b.files) {
				cl = append(cl, "has:"+k)
			}
			pbt.S.Record("batch", true, cl, func() []byte { return mustJSON(c) })
			pbt.S.AddExtra("batch_messages_registered", int64(r.initRes.Messages))
		}
	}
}

// ---------------------------------------------------------------------------------------------
// sub-check "runtime": check 5, every generated message type against dynamicpb and the model

type rtCase struct {
	Raw    [][]byte   `json:"raw"`
	Level  string     `json:"level"`
	Adv    bool       `json:"adv,omitempty"`
	Msg    string     `json:"msg"`
	M      *model.Msg `json:"m"`
	Wire   []byte     `json:"wire,omitempty"`
	Labels []string   `json:"labels,omitempty"`
	Ops    []ops.Op   `json:"ops,omitempty"`
	NoLazy bool       `json:"nolazy,omitempty"`
	Bad8   bool       `json:"bad8,omitempty"`
}

var lastRT c41run.Resp

func checkRuntime(c rtCase) error {
	lastRT = c41run.Resp{}
	r := runnerFor(c.Raw, c.Level, c.Adv)
	if r.err != nil {
		if strings.HasPrefix(r.err.Error(), "skip:") {
			return nil
		}
		return fmt.Errorf("no program for the schema set: %v", r.err)
	}
	if err := r.call(c41run.Req{Op: "case", Msg: c.Msg, M: c.M, Wire: c.Wire, Ops: c.Ops, NoLazy: c.NoLazy, Bad8: c.Bad8}, &lastRT); err != nil {
		return err
	}
	if lastRT.RepStrExt && !pbt.ExcludeKnown(kfRepStrExt) {
		return fmt.Errorf("codec verdicts of the generated type and dynamicpb differ on a repeated string extension with invalid UTF-8 (finding %s is not listed as known)", kfRepStrExt)
	}
	if lastRT.NegZero && !pbt.ExcludeKnown(kfNegZero) {
		return fmt.Errorf("the generated getter of an unset float / double field with [default = -0] returns +0 (finding %s is not listed as known)", kfNegZero)
	}
	return nil
}

// kfNegZero: Default_<Msg>_<Field> of a float / double field whose default is -0 is written as
// float32(-0) / float64(-0), which is +0 in Go.
const kfNegZero = "KF-gengo-default-negzero"

// kfRepStrExt: the table-driven codec has no UTF-8 validating coder for repeated string extension
// values; the reflection codec validates them (editions utf8_validation = VERIFY).
const kfRepStrExt = "KF-extension-repeated-string-utf8-fastpath"

// repStrExtSchema is the fixed witness of kfRepStrExt (linked like negZeroSchema).
const repStrExtSchema = `name: "rx.proto" package: "rx" syntax: "editions" edition: EDITION_2023
	message_type: { name: "M" extension_range: { start: 100 end: 200 } }
	extension: { name: "xs" number: 100 label: LABEL_REPEATED type: TYPE_STRING extendee: ".rx.M" }`

// negZeroSchema is the fixed witness of kfNegZero; it is linked into the first program of every run
// as one more (tiny) unit.
const negZeroSchema = `name: "nz.proto" package: "nz" message_type: { name: "W"
	field: { name: "f" number: 1 label: LABEL_OPTIONAL type: TYPE_FLOAT default_value: "-0" }
	field: { name: "d" number: 2 label: LABEL_OPTIONAL type: TYPE_DOUBLE default_value: "-0" } }`

type drawable struct {
	b    *batchSpec
	v    *variant
	r    *runner
	msgs []protoreflect.MessageDescriptor
	exts func(protoreflect.FullName) []protoreflect.ExtensionType
}

var (
	drawOnce sync.Once
	drawList []*drawable
)

func drawables() []*drawable {
	drawOnce.Do(func() { drawList = computeDrawables() })
	return drawList
}

func computeDrawables() []*drawable {
	var out []*drawable
	for _, b := range batches() {
		if b.witness {
			continue
		}
		for _, v := range b.variants {
			r := runnerFor(v.raw, v.level, b.adv)
			if r.err != nil {
				continue
			}
			d := &drawable{b: b, v: v, r: r}
			kept := map[string]bool{}
			for i, f := range v.files {
				if r.keep[i] {
					kept[f.GetName()] = true
				}
			}
			for _, md := range schema.Messages(v.reg, v.files) {
				if kept[md.ParentFile().Path()] {
					d.msgs = append(d.msgs, md)
				}
			}
			all := schema.ExtTypesOf(v.reg, v.files)
			d.exts = func(n protoreflect.FullName) []protoreflect.ExtensionType {
				var xs []protoreflect.ExtensionType
				for _, xt := range all(n) {
					if kept[xt.TypeDescriptor().ParentFile().Path()] {
						xs = append(xs, xt)
					}
				}
				return xs
			}
			if len(d.msgs) > 0 {
				out = append(out, d)
			}
		}
	}
	return out
}

// keptTypes resolves extensions of the files linked at this level only.
type keptTypes struct{ d *drawable }

func (k keptTypes) FindExtensionByNumber(m protoreflect.FullName, n protoreflect.FieldNumber) (protoreflect.ExtensionType, error) {
	for _, xt := range k.d.exts(m) {
		if xt.TypeDescriptor().Number() == n {
			return xt, nil
		}
	}
	return nil, protoregistry.NotFound
}

func rtDescriptor(c rtCase) (protoreflect.MessageDescriptor, *protoregistry.Types) {
	key := setKey(c.Raw, "")
	for _, b := range batches() {
		for _, v := range b.variants {
			if setKey(v.raw, "") == key {
				if d, err := v.reg.FindDescriptorByName(protoreflect.FullName(c.Msg)); err == nil {
					return d.(protoreflect.MessageDescriptor), v.types
				}
			}
		}
	}
	files, err := schema.Unmarshal(c.Raw)
	if err != nil {
		return nil, nil
	}
	reg, err := schema.Build(files)
	if err != nil {
		return nil, nil
	}
	d, err := reg.FindDescriptorByName(protoreflect.FullName(c.Msg))
	if err != nil {
		return nil, nil
	}
	ts, _ := schema.Types(reg, files)
	return d.(protoreflect.MessageDescriptor), ts
}

func TestRuntime(t *testing.T) {
	p := pbt.Prop[rtCase]{
		Name: "runtime",
		Rule: "a (schema set, API level) program of sub-check batch, one of its message types, content from the descriptor-directed generator against descriptors built with protodesc from the input (boundary scalars, NaN / -0, maps, oneofs, groups / DELIMITED, extensions of the set, unknown fields; 1 in 5 with invalid UTF-8), a perturbed-but-equivalent reference encoding and a history of 0-8 protoreflect operations. In the program: generated type vs dynamicpb over the descriptor the generated package registered vs the model: full observable state after construction through protoreflect, through the generated setters and through the generated builder (<Msg>_builder{...}.Build()), every generated getter / Has, every generated ClearX (removes exactly that field; no effect on an unset field or on another member of a set oneof), proto.Equal both ways, byte-identical deterministic Marshal, Size, cross decoding of deterministic / non-deterministic / reference bytes (lazy decoding on or off) back to the model, CheckInitialized verdicts, identical protojson and prototext output strings and cross parsing, JSON / text round trip to the model, the history in lock step with full-state verification after every operation. non-trivial = >= 3 populated fields and >= 2 distinct shapes, or a history of >= 3 operations",
		Draw: func(t *rapid.T) rtCase {
			ds := drawables()
			d := ds[rapid.IntRange(0, len(ds)-1).Draw(t, "program")]
			md := d.msgs[rapid.IntRange(0, len(d.msgs)-1).Draw(t, "message")]
			c := rtCase{Raw: d.v.raw, Level: d.r.level, Adv: d.b.adv, Msg: string(md.FullName())}
			c.Bad8 = rapid.IntRange(0, 4).Draw(t, "bad-utf8") == 4
			c.NoLazy = rapid.IntRange(0, 3).Draw(t, "nolazy") == 3
			model.DefaultResolver = keptTypes{d}
			mo := gen.DefaultMsgOpts
			mo.ValidUTF8 = !c.Bad8
			mo.Resolver = keptTypes{d}
			mo.ExtTypes = d.exts
			c.M = gen.DrawMessage(t, md, mo)
			if c.Bad8 && !gen.HasInvalidUTF8(md, c.M, mo.Resolver) {
				// the generator rarely lands on an invalid sequence by itself: break one string
				for i := range c.M.Fields {
					fd := model.FieldDesc(md, c.M.Fields[i].Num, mo.Resolver)
					if fd != nil && fd.Kind() == protoreflect.StringKind && !fd.IsMap() && len(c.M.Fields[i].Vals) > 0 {
						v := &c.M.Fields[i].Vals[len(c.M.Fields[i].Vals)-1]
						v.B = append(append([]byte{}, v.B...), 0xff)
						break
					}
				}
				c.Bad8 = gen.HasInvalidUTF8(md, c.M, mo.Resolver)
			}
			mo.ValidUTF8 = !c.Bad8 // the history must not bring invalid UTF-8 into a case that is judged as valid content
			eo := model.AllPerturbations
			eo.Labels = &c.Labels
			c.Wire = model.Encode(md, c.M, gen.RapidChooser{T: t}, eo, mo.Resolver)
			if n := rapid.IntRange(0, 8).Draw(t, "history"); n > 0 {
				c.Ops, _ = ops.DrawHistory(t, md, c.M, n, ops.GenOpts{Msg: mo, MaxDepth: 2})
			}
			return c
		},
		Check: checkRuntime,
		NonTrivial: func(c rtCase) bool {
			md, ts := rtDescriptor(c)
			if md == nil {
				return false
			}
			model.DefaultResolver = ts
			set := map[string]bool{}
			mcase.Shapes(md, c.M, set)
			return c.M != nil && len(c.M.Fields) >= 3 && len(set) >= 2 || len(c.Ops) >= 3
		},
		Classes: func(c rtCase) []string {
			cl := []string{"level:" + c.Level}
			md, ts := rtDescriptor(c)
			if md != nil {
				model.DefaultResolver = ts
				set := map[string]bool{}
				mcase.Shapes(md, c.M, set)
				for _, k := range sortedKeys(set) {
					cl = append(cl, k)
				}
				cl = append(cl, "syntax:"+md.ParentFile().Syntax().String())
			}
			if c.Adv {
				cl = append(cl, "adversarial-names")
			}
			if c.Bad8 {
				cl = append(cl, "invalid-utf8")
			}
			if len(c.Ops) > 0 {
				cl = append(cl, "history")
			}
			if c.NoLazy {
				cl = append(cl, "nolazy")
			}
			r := lastRT
			if r.Lazy {
				cl = append(cl, "type-with-lazy-field")
			}
			if r.Setters > 0 {
				cl = append(cl, "via-generated-setters")
			}
			if r.Getters > 0 {
				cl = append(cl, "generated-getters-compared")
			}
			if r.Clears > 0 {
				cl = append(cl, "generated-clear-methods")
			}
			if r.Built > 0 {
				cl = append(cl, "via-generated-builder")
			}
			if r.JSON {
				cl = append(cl, "json-compared")
			}
			if r.Text {
				cl = append(cl, "text-compared")
			}
			sort.Strings(cl)
			return cl
		},
		Quick: 6000, Thorough: 25000,
	}
	if pbt.Skip() {
		pbt.Register(p)
		return
	}
	batches()
	defer closeRunners()
	if len(drawables()) == 0 {
		pbt.Register(p)
		fmt.Printf("HARNESS-ERROR property=C41 check=runtime no program could be built for any batch\n")
		t.Fatalf("no program could be built")
	}
	pbt.Run(t, p)
}

func parseFile(txt string) *descriptorpb.FileDescriptorProto {
	f := &descriptorpb.FileDescriptorProto{}
	if err := prototext.Unmarshal([]byte(txt), f); err != nil {
		return nil
	}
	return f
}
