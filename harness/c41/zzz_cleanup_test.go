package c41

import "testing"

// TestZZZCleanup deletes the scratch modules and binaries of this process (sorts after every other test).
func TestZZZCleanup(t *testing.T) {
	closeRunners()
	cleanupScratch()
}
