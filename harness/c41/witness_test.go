package c41

import (
	"fmt"
	"strings"
	"testing"

	"google.golang.org/protobuf/encoding/prototext"
	"google.golang.org/protobuf/types/descriptorpb"
	"google.golang.org/protobuf/zverif/c41/c41run"
	"google.golang.org/protobuf/zverif/model"
	"google.golang.org/protobuf/zverif/pbt"
	"google.golang.org/protobuf/zverif/schema"
)

// Fixed witnesses of the registered findings this check excludes: protoc-valid schemas whose generated
// package does not compile. Each is replayed every run: the package must still fail the compiler
// front end AND the failure must still be attributed to exactly that finding.
type clashWitness struct {
	id    string
	level string
	files []string // prototext FileDescriptorProtos, dependency order
}

const opt = `label: LABEL_OPTIONAL`

var clashWitnesses = []clashWitness{
	{kfPackageScope, "open", []string{`name: "w.proto" package: "w" syntax: "proto3"
		message_type: { name: "Msg" enum_type: { name: "Kind" value: { name: "KIND_A" number: 0 } value: { name: "Kind_name" number: 1 } } }`}},
	{kfPackageScope, "opaque", []string{`name: "w.proto" package: "w" syntax: "proto3"
		message_type: { name: "Msg" } message_type: { name: "Msg_builder" }`}},
	{kfPackageScope, "hybrid", []string{`name: "w.proto" package: "w" syntax: "proto3"
		message_type: { name: "Foo" nested_type: { name: "Bar" } } message_type: { name: "Foo_Bar" }`}},
	{kfPublicForward, "open", []string{
		`name: "w1.proto" package: "wa" syntax: "proto3" enum_type: { name: "Color" value: { name: "COLOR_UNSPECIFIED" number: 0 } }`,
		`name: "w2.proto" package: "wb" syntax: "proto3" dependency: "w1.proto" public_dependency: 0 message_type: { name: "Color" }`}},
	{kfPublicOpaque, "hybrid+protoopaque", []string{
		`name: "w1.proto" package: "wa" syntax: "proto3" message_type: { name: "Item" field: { name: "value" number: 1 ` + opt + ` type: TYPE_INT32 oneof_index: 0 json_name: "value" } oneof_decl: { name: "o" } }`,
		`name: "w2.proto" package: "wb" syntax: "editions" edition: EDITION_2024 dependency: "w1.proto" public_dependency: 0`}},
	{kfProtoReflect, "open", []string{`name: "w.proto" package: "w" syntax: "proto3"
		message_type: { name: "Msg" field: { name: "proto_reflect" number: 1 ` + opt + ` type: TYPE_INT32 json_name: "protoReflect" } }`}},
	{kfOneofGetter, "open", []string{`name: "w.proto" package: "w" syntax: "proto3"
		message_type: { name: "Msg" field: { name: "get_choice" number: 1 ` + opt + ` type: TYPE_INT32 json_name: "getChoice" }
		  field: { name: "x" number: 2 ` + opt + ` type: TYPE_INT32 oneof_index: 0 json_name: "x" } oneof_decl: { name: "choice" } }`}},
	{kfCamelSuffix, "opaque", []string{`name: "w.proto" package: "w"
		message_type: { name: "Msg" field: { name: "foo" number: 1 ` + opt + ` type: TYPE_INT32 } field: { name: "Foo" number: 2 ` + opt + ` type: TYPE_INT32 }
		  field: { name: "foo_1" number: 3 ` + opt + ` type: TYPE_INT32 } }`}},
	{kfOneofCamel, "opaque", []string{`name: "w.proto" package: "w"
		message_type: { name: "Msg" field: { name: "x" number: 1 ` + opt + ` type: TYPE_INT32 oneof_index: 0 } field: { name: "Nested" number: 2 ` + opt + ` type: TYPE_INT32 }
		  oneof_decl: { name: "nested" } }`}},
	{kfHybridMangled, "hybrid", []string{`name: "w.proto" package: "w" syntax: "proto3"
		message_type: { name: "Msg" field: { name: "a" number: 1 ` + opt + ` type: TYPE_INT32 oneof_index: 0 json_name: "a" } field: { name: "b" number: 2 ` + opt + ` type: TYPE_INT32 oneof_index: 1 json_name: "b" }
		  field: { name: "ClearFoo" number: 3 ` + opt + ` type: TYPE_INT32 json_name: "ClearFoo" } oneof_decl: { name: "clear_foo" } oneof_decl: { name: "foo_" } }`}},
	{kfWrapperTypes, "open", []string{`name: "w.proto" package: "w"
		message_type: { name: "M" field: { name: "foo_bar" number: 1 ` + opt + ` type: TYPE_INT32 oneof_index: 0 } field: { name: "fooBar" number: 2 ` + opt + ` type: TYPE_INT32 oneof_index: 1 }
		  enum_type: { name: "FooBar" value: { name: "V" number: 0 } } oneof_decl: { name: "a" } oneof_decl: { name: "b" } }`}},
}

func (w clashWitness) parse() ([]*descriptorpb.FileDescriptorProto, error) {
	var out []*descriptorpb.FileDescriptorProto
	for _, s := range w.files {
		f := &descriptorpb.FileDescriptorProto{}
		if err := prototext.Unmarshal([]byte(s), f); err != nil {
			return nil, err
		}
		out = append(out, f)
	}
	if _, err := schema.Build(out); err != nil {
		return nil, err
	}
	return out, nil
}

// reproduces: the last file's package fails to type-check and the failure is attributed to w.id.
func (w clashWitness) reproduces() (bool, string) {
	files, err := w.parse()
	if err != nil {
		return false, "witness schema invalid: " + err.Error()
	}
	_, bad, res, err := frontEnd(files, w.level, false)
	if err != nil {
		if strings.Contains(err.Error(), "does not compile") {
			return true, "compile failure no longer attributed to " + w.id + ": " + err.Error()
		}
		return false, err.Error()
	}
	if res.failed == 0 {
		return false, ""
	}
	got := bad[len(files)-1]
	if !strings.Contains(","+got+",", ","+w.id+",") {
		return true, fmt.Sprintf("compile failure attributed to %q, not to %s", got, w.id)
	}
	return true, fmt.Sprintf("%s at API level %s: package does not compile (%s)", files[len(files)-1].GetName(), w.level, got)
}

func TestWitnesses(t *testing.T) {
	for _, w := range clashWitnesses {
		ok, detail := w.reproduces()
		if ok && strings.Contains(detail, "attributed to") && !strings.Contains(detail, "package does not compile") {
			// the defect is there but the predicate of this check no longer recognises it: never silent
			pbt.ReportViolation(t, "witness-"+w.id, map[string]any{"finding": w.id, "level": w.level, "files": w.files}, fmt.Errorf("%s", detail))
			continue
		}
		pbt.Witness(t, w.id, ok, detail)
	}
	// runtime witness: the unit of negZeroSchema in this run's program
	for _, b := range batches() {
		if !b.witness || len(b.variants) == 0 {
			continue
		}
		v := b.variants[0]
		r := runnerFor(v.raw, v.level, false)
		if r.err != nil {
			t.Logf("witness unit %s: %v", v.files[0].GetName(), r.err)
			continue
		}
		var resp c41run.Resp
		pkg := v.files[0].GetPackage()
		switch {
		case strings.HasSuffix(pkg, "nz"):
			err := r.call(c41run.Req{Op: "case", Msg: pkg + ".W", M: &model.Msg{}}, &resp)
			if err != nil {
				pbt.ReportViolation(t, "witness-"+kfNegZero, map[string]any{"finding": kfNegZero, "schema": negZeroSchema, "level": v.level}, err)
				continue
			}
			pbt.Witness(t, kfNegZero, resp.NegZero, fmt.Sprintf("message W { optional float f = 1 [default = -0]; optional double d = 2 [default = -0]; } at API level %s: GetF() / GetD() of an empty message return +0, the descriptor default is -0", v.level))
		case strings.HasSuffix(pkg, "rx"):
			content := &model.Msg{Fields: []model.Field{{Num: 100, Vals: []model.Val{{B: []byte{0xff}}}}}}
			err := r.call(c41run.Req{Op: "case", Msg: pkg + ".M", M: content, Bad8: true}, &resp)
			if err != nil {
				pbt.ReportViolation(t, "witness-"+kfRepStrExt, map[string]any{"finding": kfRepStrExt, "schema": repStrExtSchema, "level": v.level}, err)
				continue
			}
			pbt.Witness(t, kfRepStrExt, resp.RepStrExt, fmt.Sprintf("edition 2023: message M { extensions 100 to 199; } extend M { repeated string xs = 100; } with xs = [\"\\xff\"] at API level %s: proto.Marshal of the generated message succeeds, of dynamicpb fails with 'contains invalid UTF-8'", v.level))
		}
	}
}
