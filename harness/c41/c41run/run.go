// Package c41run is the runtime half of check C41. It is linked, together with the Go packages that
// the protoc-gen-go of the tree under test generated for one random schema set at one API level, into
// a throw-away main program (see ../build_test.go):
//
//	package main
//	import ( "google.golang.org/protobuf/zverif/c41/c41run"; _ ".../gen/p0"; _ ".../gen/p1" )
//	func main() { c41run.Main() }
//
// The program reads the batch description (C41_BATCH: the descriptor protos the generator was given
// and the descriptor protos the generated packages are expected to register) and then answers one
// JSON request per line on stdin with one JSON line on stdout ({"ok":…} or {"error":…}), the
// protocol of pbt.PeerConn:
//
//	{"op":"init"}                   every file of the batch is registered in protoregistry.GlobalFiles by a
//	                                generated package, protodesc.ToFileDescriptorProto of it equals the
//	                                expectation, every message / enum / extension of the file has a generated
//	                                (non-dynamicpb) Go type registered under its full name
//	{"op":"case","msg":…,"m":…}     the generated message type against dynamicpb of the same descriptor and
//	                                against the model value (see Case)
//
// Nothing in here draws random numbers: the case (content, reference encoding, operation history) is
// drawn by the harness process against descriptors it built itself from the same descriptor protos.
package c41run

import (
	"bufio"
	"bytes"
	"encoding/json"
	"fmt"
	"os"
	"reflect"
	"runtime/debug"
	"strings"

	"google.golang.org/protobuf/encoding/protojson"
	"google.golang.org/protobuf/encoding/prototext"
	"google.golang.org/protobuf/proto"
	"google.golang.org/protobuf/reflect/protodesc"
	"google.golang.org/protobuf/reflect/protoreflect"
	"google.golang.org/protobuf/reflect/protoregistry"
	"google.golang.org/protobuf/types/descriptorpb"
	"google.golang.org/protobuf/types/dynamicpb"
	"google.golang.org/protobuf/zverif/descsnap"
	"google.golang.org/protobuf/zverif/goapi"
	"google.golang.org/protobuf/zverif/model"
	"google.golang.org/protobuf/zverif/ops"
	"google.golang.org/protobuf/zverif/schema"
)

// Batch is the content of the file named by C41_BATCH: the units linked into the program. Units do
// not share file paths or full names (the harness prefixes the packages and paths of all but one).
type Batch struct {
	Units []Unit `json:"units"`
}

// Unit is one schema set generated at one API level.
type Unit struct {
	Level    string   `json:"level"`
	Files    [][]byte `json:"files"`    // descriptor protos handed to the generator (wire form), dependency order
	Expected [][]byte `json:"expected"` // what each generated package must register (Files minus source info and source-retention options)
	Names    bool     `json:"names"`    // field names are from the plain vocabulary: Get/Set/Has/Clear + GoCamelCase(name) are the accessors
	WKT      bool     `json:"wkt"`      // the set uses well-known message types (their JSON forms are constrained: no model comparison after a JSON round trip)
}

// Req is one request line.
type Req struct {
	Op     string     `json:"op"`
	Unit   int        `json:"unit"`
	Msg    string     `json:"msg,omitempty"`  // full name of the message type
	M      *model.Msg `json:"m,omitempty"`    // content
	Wire   []byte     `json:"wire,omitempty"` // perturbed-but-equivalent reference encoding of M
	Ops    []ops.Op   `json:"ops,omitempty"`  // history, legal from the state M
	NoLazy bool       `json:"nolazy,omitempty"`
	Bad8   bool       `json:"bad8,omitempty"` // content has invalid UTF-8 in some string field: codec verdicts must agree, JSON / text are skipped
}

// Resp reports what a case exercised (for the class distribution of the evidence).
type Resp struct {
	Setters   int    `json:"setters"`   // fields populated through generated setters
	Getters   int    `json:"getters"`   // generated getters compared with the model
	Clears    int    `json:"clears"`    // generated ClearX methods exercised
	Built     int    `json:"built"`     // fields set through the generated builder
	RepStrExt bool   `json:"repstrext"` // codec verdicts differed on a repeated string extension with invalid UTF-8 (registered finding); the case was cut short
	NegZero   bool   `json:"negzero"`   // a getter showed the registered -0 default defect (KF-gengo-default-negzero)
	JSON      bool   `json:"json"`      // JSON leg compared outputs (false: both sides refused the content)
	Text      bool   `json:"text"`
	Lazy      bool   `json:"lazy"`               // the generated type has a lazy field somewhere below
	GoType    string `json:"gotype"`             // Go type of the generated message
	Files     int    `json:"files,omitempty"`    // init: files verified
	Messages  int    `json:"messages,omitempty"` // init: message types verified
}

type state struct {
	batch Unit
	files []*descriptorpb.FileDescriptorProto
	regI  *protoregistry.Files // descriptors built from the input protos (protodesc), independent of the generated ones
	ready bool
}

// Main is the whole program.
func Main() {
	sts, err := load(os.Getenv("C41_BATCH"))
	in := bufio.NewReaderSize(os.Stdin, 1<<22)
	out := bufio.NewWriter(os.Stdout)
	for {
		line, rerr := in.ReadBytes('\n')
		if len(bytes.TrimSpace(line)) > 0 {
			var r struct {
				OK    any    `json:"ok,omitempty"`
				Error string `json:"error,omitempty"`
			}
			func() {
				defer func() {
					if p := recover(); p != nil {
						r.Error = fmt.Sprintf("PANIC: %v\n%s", p, debug.Stack())
					}
				}()
				if err != nil {
					r.Error = "harness: " + err.Error()
					return
				}
				var q Req
				if e := json.Unmarshal(line, &q); e != nil {
					r.Error = "harness: bad request: " + e.Error()
					return
				}
				if q.Unit < 0 || q.Unit >= len(sts) {
					r.Error = fmt.Sprintf("harness: no unit %d", q.Unit)
					return
				}
				st := sts[q.Unit]
				var v any
				var e error
				switch q.Op {
				case "init":
					v, e = st.init()
				case "case":
					v, e = st.Case(q)
				default:
					e = fmt.Errorf("harness: unknown op %q", q.Op)
				}
				if e != nil {
					r.Error = e.Error()
				} else {
					r.OK = v
				}
			}()
			b, _ := json.Marshal(r)
			out.Write(b)
			out.WriteByte('\n')
			out.Flush()
		}
		if rerr != nil {
			return
		}
	}
}

func load(path string) ([]*state, error) {
	b, err := os.ReadFile(path)
	if err != nil {
		return nil, err
	}
	var batch Batch
	if err := json.Unmarshal(b, &batch); err != nil {
		return nil, err
	}
	var out []*state
	for _, u := range batch.Units {
		st := &state{batch: u}
		if st.files, err = schema.Unmarshal(u.Files); err != nil {
			return nil, err
		}
		if st.regI, err = schema.Build(st.files); err != nil {
			return nil, err
		}
		out = append(out, st)
	}
	return out, nil
}

func canon(p *descriptorpb.FileDescriptorProto) (*descriptorpb.FileDescriptorProto, error) {
	// options held as unknown bytes and the same options held as known extension fields (the generated
	// packages of the set register the custom options they declare) compare equal after a trip through
	// the wire form in this process
	b, err := proto.MarshalOptions{Deterministic: true, AllowPartial: true}.Marshal(p)
	if err != nil {
		return nil, err
	}
	q := &descriptorpb.FileDescriptorProto{}
	if err := (proto.UnmarshalOptions{AllowPartial: true}).Unmarshal(b, q); err != nil {
		return nil, err
	}
	return q, nil
}

func isDynamic(v any) bool {
	t := reflect.TypeOf(v)
	for t != nil && t.Kind() == reflect.Ptr {
		t = t.Elem()
	}
	return t == nil || strings.HasSuffix(t.PkgPath(), "types/dynamicpb")
}

func (st *state) init() (*Resp, error) {
	res := &Resp{}
	for i, p := range st.files {
		fd, err := protoregistry.GlobalFiles.FindFileByPath(p.GetName())
		if err != nil {
			return nil, fmt.Errorf("file %s: no generated package registered it: %v", p.GetName(), err)
		}
		if n := fd.SourceLocations().Len(); n != 0 {
			return nil, fmt.Errorf("file %s: the registered descriptor carries source_code_info (%d locations); generated code drops it", p.GetName(), n)
		}
		want := &descriptorpb.FileDescriptorProto{}
		if err := (proto.UnmarshalOptions{AllowPartial: true}).Unmarshal(st.batch.Expected[i], want); err != nil {
			return nil, fmt.Errorf("harness: %v", err)
		}
		got, err := canon(protodesc.ToFileDescriptorProto(fd))
		if err != nil {
			return nil, fmt.Errorf("file %s: registered descriptor cannot be marshalled: %v", p.GetName(), err)
		}
		if want, err = canon(want); err != nil {
			return nil, fmt.Errorf("harness: %v", err)
		}
		if d := descsnap.ProtoDiff(want, got); d != "" {
			return nil, fmt.Errorf("file %s: registered file descriptor differs from the input (input vs registered): %s", p.GetName(), d)
		}
		res.Files++
		// every declaration has a generated Go type
		var walk func(ms protoreflect.MessageDescriptors) error
		enums := func(es protoreflect.EnumDescriptors) error {
			for i := 0; i < es.Len(); i++ {
				et, err := protoregistry.GlobalTypes.FindEnumByName(es.Get(i).FullName())
				if err != nil {
					return fmt.Errorf("enum %s: no Go type registered: %v", es.Get(i).FullName(), err)
				}
				if et.Descriptor() != es.Get(i) {
					return fmt.Errorf("enum %s: registered type has another descriptor", es.Get(i).FullName())
				}
				if isDynamic(et.New(0)) {
					return fmt.Errorf("enum %s: registered type is dynamic", es.Get(i).FullName())
				}
				if err := checkEnumMethods(et); err != nil {
					return err
				}
			}
			return nil
		}
		exts := func(xs protoreflect.ExtensionDescriptors) error {
			for i := 0; i < xs.Len(); i++ {
				xt, err := protoregistry.GlobalTypes.FindExtensionByName(xs.Get(i).FullName())
				if err != nil {
					return fmt.Errorf("extension %s: no Go type registered: %v", xs.Get(i).FullName(), err)
				}
				if xt.TypeDescriptor().Descriptor() != xs.Get(i) {
					return fmt.Errorf("extension %s: registered type has another descriptor", xs.Get(i).FullName())
				}
				x2, err := protoregistry.GlobalTypes.FindExtensionByNumber(xs.Get(i).ContainingMessage().FullName(), xs.Get(i).Number())
				if err != nil || x2 != xt {
					return fmt.Errorf("extension %s: FindExtensionByNumber(%s, %d) does not find it (%v)", xs.Get(i).FullName(), xs.Get(i).ContainingMessage().FullName(), xs.Get(i).Number(), err)
				}
			}
			return nil
		}
		walk = func(ms protoreflect.MessageDescriptors) error {
			for i := 0; i < ms.Len(); i++ {
				md := ms.Get(i)
				if !md.IsMapEntry() {
					mt, err := protoregistry.GlobalTypes.FindMessageByName(md.FullName())
					if err != nil {
						return fmt.Errorf("message %s: no Go type registered: %v", md.FullName(), err)
					}
					if mt.Descriptor() != md {
						return fmt.Errorf("message %s: registered type has another descriptor", md.FullName())
					}
					if isDynamic(mt.New().Interface()) {
						return fmt.Errorf("message %s: registered type is dynamic", md.FullName())
					}
					if mt.New().Descriptor() != md || mt.Zero().Descriptor() != md {
						return fmt.Errorf("message %s: New()/Zero() have another descriptor", md.FullName())
					}
					if err := checkMessageMethods(mt, want); err != nil {
						return err
					}
					res.Messages++
				}
				if err := enums(md.Enums()); err != nil {
					return err
				}
				if err := exts(md.Extensions()); err != nil {
					return err
				}
				if err := walk(md.Messages()); err != nil {
					return err
				}
			}
			return nil
		}
		if err := enums(fd.Enums()); err != nil {
			return nil, err
		}
		if err := exts(fd.Extensions()); err != nil {
			return nil, err
		}
		if err := walk(fd.Messages()); err != nil {
			return nil, err
		}
	}
	st.ready = true
	return res, nil
}

var eqBits = model.EqualOpts{BitwiseFloats: true}

func hasLazy(md protoreflect.MessageDescriptor, seen map[protoreflect.FullName]bool) bool {
	if seen[md.FullName()] {
		return false
	}
	seen[md.FullName()] = true
	fs := md.Fields()
	for i := 0; i < fs.Len(); i++ {
		fd := fs.Get(i)
		if l, ok := fd.(interface{ IsLazy() bool }); ok && l.IsLazy() {
			return true
		}
		sub := fd.Message()
		if fd.IsMap() {
			sub = fd.MapValue().Message()
		}
		if sub != nil && hasLazy(sub, seen) {
			return true
		}
	}
	return false
}

// jsonNamesUnique: no message below md has two fields with one JSON name (legal in proto2 and under
// json_format = LEGACY_BEST_EFFORT; the JSON form of such a message cannot be read back).
func jsonNamesUnique(md protoreflect.MessageDescriptor, seen map[protoreflect.FullName]bool) bool {
	if seen[md.FullName()] {
		return true
	}
	seen[md.FullName()] = true
	names := map[string]bool{}
	fs := md.Fields()
	for i := 0; i < fs.Len(); i++ {
		fd := fs.Get(i)
		if names[fd.JSONName()] {
			return false
		}
		names[fd.JSONName()] = true
		sub := fd.Message()
		if fd.IsMap() {
			sub = fd.MapValue().Message()
		}
		if sub != nil && !jsonNamesUnique(sub, seen) {
			return false
		}
	}
	return true
}

// Case compares the generated type of q.Msg with dynamicpb and with the model.
func (st *state) Case(q Req) (*Resp, error) {
	if !st.ready {
		if _, err := st.init(); err != nil {
			return nil, fmt.Errorf("init: %v", err)
		}
	}
	name := protoreflect.FullName(q.Msg)
	mt, err := protoregistry.GlobalTypes.FindMessageByName(name)
	if err != nil {
		return nil, fmt.Errorf("message %s: no generated type registered: %v", name, err)
	}
	dI, err := st.regI.FindDescriptorByName(name)
	if err != nil {
		return nil, fmt.Errorf("harness: %v", err)
	}
	mdI := dI.(protoreflect.MessageDescriptor) // for the model side only
	mdG := mt.Descriptor()
	v := q.M
	if v == nil {
		v = &model.Msg{}
	}
	res := &Resp{GoType: fmt.Sprintf("%T", mt.New().Interface()), Lazy: hasLazy(mdG, map[protoreflect.FullName]bool{})}
	newG := func() protoreflect.Message { return mt.New() }
	newD := func() protoreflect.Message { return dynamicpb.NewMessage(mdG) }
	diff := func(got protoreflect.Message) string { return model.Diff(mdI, v, model.Snapshot(got), eqBits, nil) }

	// ---- construction through reflection, full observable state
	g, d := newG(), newD()
	if err := model.Apply(g, v, nil); err != nil {
		return nil, fmt.Errorf("generated: filling the message through protoreflect: %v", err)
	}
	if err := model.Apply(d, v, nil); err != nil {
		return nil, fmt.Errorf("harness: dynamicpb: %v", err)
	}
	if err := ops.Verify(g, v); err != nil {
		return nil, fmt.Errorf("generated, built through protoreflect: %v", err)
	}
	if err := ops.Verify(d, v); err != nil {
		return nil, fmt.Errorf("dynamicpb, built through protoreflect: %v", err)
	}
	if !proto.Equal(g.Interface(), d.Interface()) || !proto.Equal(d.Interface(), g.Interface()) {
		return nil, fmt.Errorf("proto.Equal(generated, dynamicpb) = false for the same content")
	}

	// ---- generated setters / getters against the model
	if st.batch.Names {
		gs := newG()
		n, err := goapi.Populate(gs.Interface(), v)
		if err != nil {
			return nil, fmt.Errorf("generated setters: %v", err)
		}
		res.Setters = n
		if err := ops.Verify(gs, v); err != nil {
			return nil, fmt.Errorf("generated, built through generated setters: %v", err)
		}
		if !proto.Equal(gs.Interface(), g.Interface()) {
			return nil, fmt.Errorf("proto.Equal(built through setters, built through protoreflect) = false")
		}
		if res.Getters, err = checkGetters(g.Interface(), v, &res.NegZero); err != nil {
			return nil, fmt.Errorf("generated getters (message built through protoreflect): %v", err)
		}
		if _, err = checkGetters(gs.Interface(), v, &res.NegZero); err != nil {
			return nil, fmt.Errorf("generated getters (message built through setters): %v", err)
		}
		if res.Clears, err = clearLeg(newG, v); err != nil {
			return nil, fmt.Errorf("generated Clear methods: %v", err)
		}
		if b := Builders[q.Msg]; b != nil {
			gb, n, err := buildLeg(b, mdG, v)
			if err != nil {
				return nil, fmt.Errorf("generated builder: %v", err)
			}
			res.Built = n
			if err := ops.Verify(gb, v); err != nil {
				return nil, fmt.Errorf("generated, built through the generated builder: %v", err)
			}
			if !proto.Equal(gb.Interface(), g.Interface()) {
				return nil, fmt.Errorf("proto.Equal(built through the builder, built through protoreflect) = false")
			}
			if _, err = checkGetters(gb.Interface(), v, &res.NegZero); err != nil {
				return nil, fmt.Errorf("generated getters (message built through the builder): %v", err)
			}
		}
	}

	// ---- wire: deterministic bytes, sizes, cross decoding, reference encoding
	mo := proto.MarshalOptions{Deterministic: true, AllowPartial: true}
	bg, errG := mo.Marshal(g.Interface())
	bd, errD := mo.Marshal(d.Interface())
	if q.Bad8 && repStringExtInvalid(g) {
		// the table-driven codec does not validate repeated string extensions: every codec verdict below may differ
		if (errG == nil) != (errD == nil) {
			res.RepStrExt = true
		}
		return res, nil
	}
	if (errG == nil) != (errD == nil) {
		return nil, fmt.Errorf("Marshal verdicts differ: generated %v, dynamicpb %v", errG, errD)
	}
	uoG := proto.UnmarshalOptions{AllowPartial: true, NoLazyDecoding: q.NoLazy}
	uoD := proto.UnmarshalOptions{AllowPartial: true}
	if errG != nil {
		if !q.Bad8 {
			return nil, fmt.Errorf("Marshal fails on valid content: %v", errG)
		}
	} else {
		if !bytes.Equal(bg, bd) {
			return nil, fmt.Errorf("deterministic Marshal differs:\n generated %x\n dynamicpb %x", bg, bd)
		}
		if sg, sd := proto.Size(g.Interface()), proto.Size(d.Interface()); sg != len(bg) || sd != len(bd) {
			return nil, fmt.Errorf("Size: generated %d, dynamicpb %d, encoded length %d", sg, sd, len(bg))
		}
		bn, err := proto.MarshalOptions{AllowPartial: true}.Marshal(g.Interface())
		if err != nil {
			return nil, fmt.Errorf("non-deterministic Marshal fails: %v", err)
		}
		for _, in := range []struct {
			what string
			b    []byte
		}{{"deterministic bytes", bg}, {"non-deterministic bytes of the generated message", bn}, {"reference encoding", q.Wire}} {
			if in.b == nil && in.what == "reference encoding" {
				continue
			}
			g2, d2 := newG(), newD()
			eg, ed := uoG.Unmarshal(in.b, g2.Interface()), uoD.Unmarshal(in.b, d2.Interface())
			if (eg == nil) != (ed == nil) {
				return nil, fmt.Errorf("Unmarshal(%s) verdicts differ: generated %v, dynamicpb %v (bytes %x)", in.what, eg, ed, in.b)
			}
			if eg != nil {
				if q.Bad8 {
					continue
				}
				return nil, fmt.Errorf("Unmarshal(%s) fails: %v (bytes %x)", in.what, eg, in.b)
			}
			if st.batch.Names {
				// first of all, before protoreflect touches the message: getters of fields still held lazily
				if _, err := checkGetters(g2.Interface(), v, &res.NegZero); err != nil {
					return nil, fmt.Errorf("generated getters right after Unmarshal(%s): %v", in.what, err)
				}
			}
			if s := diff(g2); s != "" {
				return nil, fmt.Errorf("generated: Unmarshal(%s) differs from the model: %s (bytes %x)", in.what, s, in.b)
			}
			if s := diff(d2); s != "" {
				return nil, fmt.Errorf("dynamicpb: Unmarshal(%s) differs from the model: %s (bytes %x)", in.what, s, in.b)
			}
			if !proto.Equal(g2.Interface(), d2.Interface()) || !proto.Equal(g2.Interface(), g.Interface()) {
				return nil, fmt.Errorf("proto.Equal false after Unmarshal(%s) (bytes %x)", in.what, in.b)
			}
			// lazily decoded content must re-encode to the same bytes and survive a full read
			b2, err := mo.Marshal(g2.Interface())
			if err != nil || !bytes.Equal(b2, bg) {
				return nil, fmt.Errorf("generated: Marshal(Unmarshal(%s)) = %x (%v), want %x", in.what, b2, err, bg)
			}
			if err := ops.Verify(g2, v); err != nil {
				return nil, fmt.Errorf("generated, after Unmarshal(%s): %v", in.what, err)
			}
			if ig, id := proto.CheckInitialized(g2.Interface()), proto.CheckInitialized(d2.Interface()); (ig == nil) != (id == nil) {
				return nil, fmt.Errorf("CheckInitialized verdicts differ: generated %v, dynamicpb %v", ig, id)
			}
		}
	}

	// ---- JSON and text
	if !q.Bad8 {
		jg, eg := protojson.MarshalOptions{AllowPartial: true}.Marshal(g.Interface())
		jd, ed := protojson.MarshalOptions{AllowPartial: true}.Marshal(d.Interface())
		if (eg == nil) != (ed == nil) {
			return nil, fmt.Errorf("protojson.Marshal verdicts differ: generated %v, dynamicpb %v", eg, ed)
		}
		if eg == nil {
			if !bytes.Equal(jg, jd) { // same process: same detrand spacing
				var a, b any
				if json.Unmarshal(jg, &a) != nil || json.Unmarshal(jd, &b) != nil || !reflect.DeepEqual(a, b) {
					return nil, fmt.Errorf("protojson.Marshal differs:\n generated %s\n dynamicpb %s", jg, jd)
				}
				return nil, fmt.Errorf("protojson.Marshal outputs are equal JSON values but different strings in one process:\n generated %s\n dynamicpb %s", jg, jd)
			}
			g3, d3 := newG(), newD()
			eg := protojson.UnmarshalOptions{AllowPartial: true}.Unmarshal(jd, g3.Interface())
			ed := protojson.UnmarshalOptions{AllowPartial: true}.Unmarshal(jg, d3.Interface())
			if (eg == nil) != (ed == nil) {
				return nil, fmt.Errorf("protojson.Unmarshal verdicts differ: generated %v, dynamicpb %v (input %s)", eg, ed, jg)
			}
			if eg == nil {
				if s := model.Diff(mdI, model.Snapshot(d3), model.Snapshot(g3), eqBits, nil); s != "" {
					return nil, fmt.Errorf("protojson.Unmarshal: dynamicpb vs generated: %s (input %s)", s, jg)
				}
				if s := model.Diff(mdI, v, model.Snapshot(g3), model.EqualOpts{IgnoreUnknown: true}, nil); s != "" && !st.batch.WKT && jsonNamesUnique(mdI, map[protoreflect.FullName]bool{}) {
					return nil, fmt.Errorf("generated: JSON round trip differs from the model: %s (JSON %s)", s, jg)
				}
				res.JSON = true
			}
		}
		tg, eg := prototext.MarshalOptions{AllowPartial: true}.Marshal(g.Interface())
		td, ed := prototext.MarshalOptions{AllowPartial: true}.Marshal(d.Interface())
		if (eg == nil) != (ed == nil) {
			return nil, fmt.Errorf("prototext.Marshal verdicts differ: generated %v, dynamicpb %v", eg, ed)
		}
		if eg == nil {
			if !bytes.Equal(tg, td) {
				return nil, fmt.Errorf("prototext.Marshal differs:\n generated %s\n dynamicpb %s", tg, td)
			}
			g3, d3 := newG(), newD()
			eg := prototext.UnmarshalOptions{AllowPartial: true}.Unmarshal(td, g3.Interface())
			ed := prototext.UnmarshalOptions{AllowPartial: true}.Unmarshal(tg, d3.Interface())
			if (eg == nil) != (ed == nil) {
				return nil, fmt.Errorf("prototext.Unmarshal verdicts differ: generated %v, dynamicpb %v (input %s)", eg, ed, tg)
			}
			if eg == nil {
				if s := model.Diff(mdI, model.Snapshot(d3), model.Snapshot(g3), eqBits, nil); s != "" {
					return nil, fmt.Errorf("prototext.Unmarshal: dynamicpb vs generated: %s (input %s)", s, tg)
				}
				if s := model.Diff(mdI, v, model.Snapshot(g3), model.EqualOpts{IgnoreUnknown: true}, nil); s != "" {
					return nil, fmt.Errorf("generated: text round trip differs from the model: %s (text %s)", s, tg)
				}
				res.Text = true
			}
		}
	}

	// ---- operation history in lock step: generated, dynamicpb, model
	if len(q.Ops) > 0 {
		cur := v.Clone()
		g4, d4 := newG(), newD()
		if errG == nil && len(bg) > 0 { // start from decoded (possibly lazy) state
			if err := uoG.Unmarshal(bg, g4.Interface()); err != nil {
				return nil, fmt.Errorf("Unmarshal fails: %v", err)
			}
			if err := uoD.Unmarshal(bg, d4.Interface()); err != nil {
				return nil, fmt.Errorf("dynamicpb: Unmarshal fails: %v", err)
			}
		} else {
			model.Apply(g4, v, nil)
			model.Apply(d4, v, nil)
		}
		for i, op := range q.Ops {
			if err := ops.ApplyModel(mdI, cur, op); err != nil {
				return nil, fmt.Errorf("harness: op %d %v on the model: %v", i, op, err)
			}
			if err := ops.ApplyMsg(g4, op); err != nil {
				return nil, fmt.Errorf("generated: op %d %v: %v", i, op, err)
			}
			if err := ops.ApplyMsg(d4, op); err != nil {
				return nil, fmt.Errorf("dynamicpb: op %d %v: %v", i, op, err)
			}
			if err := ops.Verify(g4, cur); err != nil {
				return nil, fmt.Errorf("generated: after op %d %v: %v", i, op, err)
			}
			if err := ops.Verify(d4, cur); err != nil {
				return nil, fmt.Errorf("dynamicpb: after op %d %v: %v", i, op, err)
			}
		}
		if st.batch.Names {
			if _, err := checkGetters(g4.Interface(), cur, &res.NegZero); err != nil {
				return nil, fmt.Errorf("generated getters after the history: %v", err)
			}
		}
		b4g, eg := mo.Marshal(g4.Interface())
		b4d, ed := mo.Marshal(d4.Interface())
		if (eg == nil) != (ed == nil) || !bytes.Equal(b4g, b4d) {
			bad8 := q.Bad8 || anyInvalidUTF8(g4) // a history may bring invalid UTF-8 of its own
			if bad8 && repStringExtInvalid(g4) {
				res.RepStrExt = true
			} else if !(bad8 && eg != nil && ed != nil) {
				return nil, fmt.Errorf("after the history: deterministic Marshal differs:\n generated %x (%v)\n dynamicpb %x (%v)", b4g, eg, b4d, ed)
			}
		}
	}
	return res, nil
}
