package c41run

import (
	"bytes"
	"compress/gzip"
	"fmt"
	"io"
	"math"
	"reflect"
	"regexp"
	"unicode/utf8"

	"google.golang.org/protobuf/internal/strs"
	"google.golang.org/protobuf/proto"
	"google.golang.org/protobuf/reflect/protoreflect"
	"google.golang.org/protobuf/types/descriptorpb"
	"google.golang.org/protobuf/zverif/descsnap"
	"google.golang.org/protobuf/zverif/goapi"
	"google.golang.org/protobuf/zverif/model"
	"google.golang.org/protobuf/zverif/ops"
)

// Builders maps the full name of a message to a zero value of its generated builder struct
// (<Msg>_builder; opaque and hybrid API). Filled in by the generated main program for units with
// plain names.
var Builders = map[string]any{}

// ---------------------------------------------------------------------------------------------
// generated ClearX

// clearLeg: on a message filled through the generated setters, ClearX of a populated field removes
// exactly that field; ClearX of an unpopulated field (in particular of another member of a set
// oneof) changes nothing.
func clearLeg(newG func() protoreflect.Message, v *model.Msg) (int, error) {
	md := newG().Descriptor()
	n := 0
	fs := md.Fields()
	for i := 0; i < fs.Len(); i++ {
		fd := fs.Get(i)
		m := newG()
		if _, err := goapi.Populate(m.Interface(), v); err != nil {
			return n, err
		}
		if !goapi.Clear(m.Interface(), fd) {
			continue
		}
		n++
		w := v.Clone()
		if w == nil {
			w = &model.Msg{}
		}
		w.Del(int32(fd.Number()))
		if err := ops.Verify(m, w); err != nil {
			what := "an unpopulated field"
			if v.Get(int32(fd.Number())) != nil {
				what = "a populated field"
			}
			return n, fmt.Errorf("after Clear%s() on %s: %v", goapi.GoName(fd), what, err)
		}
	}
	return n, nil
}

// ---------------------------------------------------------------------------------------------
// generated builders

func scalarTo(fd protoreflect.FieldDescriptor, v model.Val, t reflect.Type) (reflect.Value, error) {
	switch fd.Kind() {
	case protoreflect.MessageKind, protoreflect.GroupKind:
		if t.Kind() != reflect.Ptr {
			return reflect.Value{}, fmt.Errorf("builder field of message field %s has type %v", fd.FullName(), t)
		}
		nv := reflect.New(t.Elem())
		pm, ok := nv.Interface().(proto.Message)
		if !ok {
			return reflect.Value{}, fmt.Errorf("%v is not a proto.Message", t)
		}
		if v.M != nil {
			if _, err := goapi.Populate(pm, v.M); err != nil {
				return reflect.Value{}, err
			}
		}
		return nv, nil
	case protoreflect.BoolKind:
		return reflect.ValueOf(v.U != 0).Convert(t), nil
	case protoreflect.StringKind:
		return reflect.ValueOf(string(v.B)).Convert(t), nil
	case protoreflect.BytesKind:
		return reflect.ValueOf(append([]byte{}, v.B...)).Convert(t), nil
	case protoreflect.FloatKind:
		return reflect.ValueOf(math.Float32frombits(uint32(v.U))).Convert(t), nil
	case protoreflect.DoubleKind:
		return reflect.ValueOf(math.Float64frombits(v.U)).Convert(t), nil
	case protoreflect.EnumKind, protoreflect.Int32Kind, protoreflect.Sint32Kind, protoreflect.Sfixed32Kind:
		return reflect.ValueOf(int32(v.U)).Convert(t), nil
	case protoreflect.Int64Kind, protoreflect.Sint64Kind, protoreflect.Sfixed64Kind:
		return reflect.ValueOf(int64(v.U)).Convert(t), nil
	case protoreflect.Uint32Kind, protoreflect.Fixed32Kind:
		return reflect.ValueOf(uint32(v.U)).Convert(t), nil
	default:
		return reflect.ValueOf(v.U).Convert(t), nil
	}
}

func singularTo(fd protoreflect.FieldDescriptor, v model.Val, t reflect.Type) (reflect.Value, error) {
	if t.Kind() == reflect.Ptr && fd.Message() == nil { // optional scalar: *T
		e, err := scalarTo(fd, v, t.Elem())
		if err != nil {
			return e, err
		}
		p := reflect.New(t.Elem())
		p.Elem().Set(e)
		return p, nil
	}
	return scalarTo(fd, v, t)
}

// buildLeg fills the builder struct of the message from the model, calls Build and returns the
// message (extensions and unknown fields, which builders do not cover, are added through protoreflect).
func buildLeg(b any, md protoreflect.MessageDescriptor, v *model.Msg) (protoreflect.Message, int, error) {
	bv := reflect.New(reflect.TypeOf(b)).Elem()
	rest := &model.Msg{Unknown: v.Unknown}
	n := 0
	for _, f := range v.Fields {
		fd := md.Fields().ByNumber(protoreflect.FieldNumber(f.Num))
		if fd == nil {
			rest.Fields = append(rest.Fields, f)
			continue
		}
		sf := bv.FieldByName(goapi.GoName(fd))
		if !sf.IsValid() {
			return nil, n, fmt.Errorf("builder %T has no field %s for %s", b, goapi.GoName(fd), fd.FullName())
		}
		t := sf.Type()
		switch {
		case fd.IsMap():
			if t.Kind() != reflect.Map {
				return nil, n, fmt.Errorf("builder field %s of a map field has type %v", goapi.GoName(fd), t)
			}
			mp := reflect.MakeMap(t)
			for i := range f.Keys {
				k, err := scalarTo(fd.MapKey(), f.Keys[i], t.Key())
				if err != nil {
					return nil, n, err
				}
				e, err := scalarTo(fd.MapValue(), f.Vals[i], t.Elem())
				if err != nil {
					return nil, n, err
				}
				mp.SetMapIndex(k, e)
			}
			sf.Set(mp)
		case fd.IsList():
			if t.Kind() != reflect.Slice {
				return nil, n, fmt.Errorf("builder field %s of a repeated field has type %v", goapi.GoName(fd), t)
			}
			sl := reflect.MakeSlice(t, 0, len(f.Vals))
			for _, x := range f.Vals {
				e, err := scalarTo(fd, x, t.Elem())
				if err != nil {
					return nil, n, err
				}
				sl = reflect.Append(sl, e)
			}
			sf.Set(sl)
		default:
			e, err := singularTo(fd, f.Vals[0], t)
			if err != nil {
				return nil, n, err
			}
			sf.Set(e)
		}
		n++
	}
	build := bv.Addr().MethodByName("Build")
	if !build.IsValid() {
		build = bv.MethodByName("Build")
	}
	if !build.IsValid() || build.Type().NumIn() != 0 || build.Type().NumOut() != 1 {
		return nil, n, fmt.Errorf("builder %T has no Build() method", b)
	}
	pm, ok := build.Call(nil)[0].Interface().(proto.Message)
	if !ok {
		return nil, n, fmt.Errorf("%T.Build() does not return a message", b)
	}
	m := pm.ProtoReflect()
	if len(rest.Fields) > 0 || len(rest.Unknown) > 0 {
		if err := model.Apply(m, rest, nil); err != nil {
			return nil, n, err
		}
	}
	return m, n, nil
}

// ---------------------------------------------------------------------------------------------
// methods of generated types consulted at start-up

// checkEnumMethods: the generated methods of an enum type answer for that enum.
func checkEnumMethods(et protoreflect.EnumType) error {
	ed := et.Descriptor()
	e := et.New(ed.Values().Get(0).Number())
	if e.Descriptor() != ed {
		return fmt.Errorf("enum %s: Descriptor() of a value answers %s", ed.FullName(), e.Descriptor().FullName())
	}
	if e.Type().Descriptor() != ed {
		return fmt.Errorf("enum %s: Type() of a value answers %s", ed.FullName(), e.Type().Descriptor().FullName())
	}
	if e.Number() != ed.Values().Get(0).Number() {
		return fmt.Errorf("enum %s: Number() = %d", ed.FullName(), e.Number())
	}
	if s, ok := e.(fmt.Stringer); ok {
		if got, want := s.String(), string(ed.Values().ByNumber(e.Number()).Name()); got != want {
			return fmt.Errorf("enum %s: String() = %q, want %q", ed.FullName(), got, want)
		}
	}
	// EnumDescriptor() ([]byte, []int) of the open API
	if m := reflect.ValueOf(e).MethodByName("EnumDescriptor"); m.IsValid() && m.Type().NumIn() == 0 && m.Type().NumOut() == 2 {
		out := m.Call(nil)
		if err := checkLegacyDescriptor(ed, out[0].Interface(), out[1].Interface()); err != nil {
			return fmt.Errorf("enum %s: EnumDescriptor(): %v", ed.FullName(), err)
		}
	}
	return nil
}

// checkLegacyDescriptor: the (gzipped FileDescriptorProto, index path) pair of the open API's
// Descriptor() / EnumDescriptor() methods names the declaration d.
func checkLegacyDescriptor(d protoreflect.Descriptor, zb, path any) error {
	b, ok := zb.([]byte)
	idx, ok2 := path.([]int)
	if !ok || !ok2 {
		return fmt.Errorf("unexpected result types %T, %T", zb, path)
	}
	zr, err := gzip.NewReader(bytes.NewReader(b))
	if err != nil {
		return err
	}
	raw, err := io.ReadAll(zr)
	if err != nil {
		return err
	}
	fdp := &descriptorpb.FileDescriptorProto{}
	if err := (proto.UnmarshalOptions{AllowPartial: true}).Unmarshal(raw, fdp); err != nil {
		return err
	}
	if fdp.GetName() != d.ParentFile().Path() {
		return fmt.Errorf("descriptor of file %q, want %q", fdp.GetName(), d.ParentFile().Path())
	}
	// walk the index path
	var names []string
	for x := d; x != nil; x = x.Parent() {
		if _, isFile := x.(protoreflect.FileDescriptor); isFile {
			break
		}
		names = append([]string{string(x.Name())}, names...)
	}
	if len(idx) != len(names) {
		return fmt.Errorf("index path %v for %s", idx, d.FullName())
	}
	var msgs []*descriptorpb.DescriptorProto = fdp.MessageType
	enums := fdp.EnumType
	for i, k := range idx {
		last := i == len(idx)-1
		if _, isEnum := d.(protoreflect.EnumDescriptor); isEnum && last {
			if k >= len(enums) || enums[k].GetName() != names[i] {
				return fmt.Errorf("index path %v does not lead to %s", idx, d.FullName())
			}
			return nil
		}
		if k >= len(msgs) || msgs[k].GetName() != names[i] {
			return fmt.Errorf("index path %v does not lead to %s", idx, d.FullName())
		}
		msgs, enums = msgs[k].NestedType, msgs[k].EnumType
	}
	return nil
}

// checkMessageMethods: legacy Descriptor() of open-API messages, and the embedded raw descriptor equals the expectation.
func checkMessageMethods(mt protoreflect.MessageType, want *descriptorpb.FileDescriptorProto) error {
	md := mt.Descriptor()
	m := reflect.ValueOf(mt.New().Interface()).MethodByName("Descriptor")
	if !m.IsValid() || m.Type().NumIn() != 0 || m.Type().NumOut() != 2 {
		return nil
	}
	out := m.Call(nil)
	if err := checkLegacyDescriptor(md, out[0].Interface(), out[1].Interface()); err != nil {
		return fmt.Errorf("message %s: Descriptor(): %v", md.FullName(), err)
	}
	if want != nil {
		zr, err := gzip.NewReader(bytes.NewReader(out[0].Interface().([]byte)))
		if err != nil {
			return err
		}
		raw, _ := io.ReadAll(zr)
		got := &descriptorpb.FileDescriptorProto{}
		if err := (proto.UnmarshalOptions{AllowPartial: true}).Unmarshal(raw, got); err != nil {
			return err
		}
		if d := descsnap.ProtoDiff(want, got); d != "" {
			return fmt.Errorf("message %s: the FileDescriptorProto returned by Descriptor() differs from the input (input vs embedded): %s", md.FullName(), d)
		}
	}
	return nil
}

// ---------------------------------------------------------------------------------------------
// registered finding: Default_ constants of float fields with default -0 are +0

var negZeroGetter = regexp.MustCompile(`of an unpopulated field: .*float(32|64) bits 0x80+ vs 0x0+ \(want the default\)`)

// hasNegZeroDefault: some float / double field at or below md declares the default -0.
func hasNegZeroDefault(md protoreflect.MessageDescriptor, seen map[protoreflect.FullName]bool) bool {
	if seen[md.FullName()] {
		return false
	}
	seen[md.FullName()] = true
	fs := md.Fields()
	for i := 0; i < fs.Len(); i++ {
		fd := fs.Get(i)
		if (fd.Kind() == protoreflect.FloatKind || fd.Kind() == protoreflect.DoubleKind) && fd.HasDefault() {
			if f := fd.Default().Float(); f == 0 && math.Signbit(f) {
				return true
			}
		}
		sub := fd.Message()
		if fd.IsMap() {
			sub = fd.MapValue().Message()
		}
		if sub != nil && hasNegZeroDefault(sub, seen) {
			return true
		}
	}
	return false
}

// checkGetters is goapi.CheckGetters, except that the one registered getter defect (the getter of an
// unset float / double field whose declared default is -0 returns +0) is reported through negZero
// instead of an error; the remaining getters of that message are then not compared.
func checkGetters(m proto.Message, v *model.Msg, negZero *bool) (int, error) {
	n, err := goapi.CheckGetters(m, v)
	if err != nil && negZeroGetter.MatchString(err.Error()) && hasNegZeroDefault(m.ProtoReflect().Descriptor(), map[protoreflect.FullName]bool{}) {
		*negZero = true
		return n, nil
	}
	return n, err
}

// ---------------------------------------------------------------------------------------------
// registered finding: repeated string extensions are not UTF-8 validated on the table-driven path

// repStringExtInvalid: m (or a message below it) holds a repeated string extension field that
// must be UTF-8 validated and has an invalid element. The table-driven codec has no validating coder
// for repeated string *values* (internal/impl/codec_tables.go: "Extensions are never proto3"), the
// reflection codec validates them.
func repStringExtInvalid(m protoreflect.Message) bool {
	found := false
	m.Range(func(fd protoreflect.FieldDescriptor, v protoreflect.Value) bool {
		switch {
		case fd.IsExtension() && fd.IsList() && fd.Kind() == protoreflect.StringKind && strs.EnforceUTF8(fd):
			for i := 0; i < v.List().Len(); i++ {
				if !utf8.ValidString(v.List().Get(i).String()) {
					found = true
				}
			}
		case fd.IsMap():
			if fd.MapValue().Message() != nil {
				v.Map().Range(func(_ protoreflect.MapKey, e protoreflect.Value) bool {
					found = found || repStringExtInvalid(e.Message())
					return !found
				})
			}
		case fd.IsList():
			if fd.Message() != nil {
				for i := 0; i < v.List().Len() && !found; i++ {
					found = repStringExtInvalid(v.List().Get(i).Message())
				}
			}
		case fd.Message() != nil:
			found = repStringExtInvalid(v.Message())
		}
		return !found
	})
	return found
}

// anyInvalidUTF8: some string field (or extension) at or below m holds invalid UTF-8.
func anyInvalidUTF8(m protoreflect.Message) bool {
	found := false
	m.Range(func(fd protoreflect.FieldDescriptor, v protoreflect.Value) bool {
		check := func(d protoreflect.FieldDescriptor, x protoreflect.Value) {
			switch {
			case d.Kind() == protoreflect.StringKind:
				found = found || !utf8.ValidString(x.String())
			case d.Message() != nil:
				found = found || anyInvalidUTF8(x.Message())
			}
		}
		switch {
		case fd.IsMap():
			v.Map().Range(func(k protoreflect.MapKey, e protoreflect.Value) bool {
				check(fd.MapKey(), k.Value())
				check(fd.MapValue(), e)
				return !found
			})
		case fd.IsList():
			for i := 0; i < v.List().Len() && !found; i++ {
				check(fd, v.List().Get(i))
			}
		default:
			check(fd, v)
		}
		return !found
	})
	return found
}
