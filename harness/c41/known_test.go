package c41

// Ported from harness/c42 (uniq_test.go, known_test.go; a test package cannot be imported): the
// duplicate-declaration scan of a generated file and the role-based attribution of a clash to one of
// the registered KF-gengo-name-* findings. C41 uses it to tell the anticipated name-clash compile
// failures (registered with properties C41, C42) from every other compile error.

import (
	"fmt"
	"go/ast"
	"go/parser"
	"go/token"
	"strings"

	"google.golang.org/protobuf/compiler/protogen"
)

func lower(c byte) bool { return 'a' <= c && c <= 'z' }
func upper(c byte) bool { return 'A' <= c && c <= 'Z' }

// refGoCamel is the documented behaviour of GoCamelCase on one identifier.
func refGoCamel(s string) string {
	var b strings.Builder
	for i := 0; i < len(s); i++ {
		c := s[i]
		switch {
		case c == '_' && i == 0:
			b.WriteByte('X')
		case c == '_' && i+1 < len(s) && lower(s[i+1]):
			b.WriteByte(s[i+1] - 'a' + 'A')
			i++
		case i == 0 && lower(c):
			b.WriteByte(c - 'a' + 'A')
		case lower(c) && i > 0 && !lower(s[i-1]) && !upper(s[i-1]):
			b.WriteByte(c - 'a' + 'A')
		default:
			b.WriteByte(c)
		}
	}
	return b.String()
}

// A clash is two declarations of one identifier in one Go scope: exactly a compile error
// ("X redeclared", "duplicate field X", "field and method with the same name X", "method X already declared").
type clash struct {
	Level string // API level the file was generated for (open | hybrid | opaque)
	Scope string // "package" | "message" (fields + methods of a message struct) | "builder" | "wrapper" | "interface" | "other-type"
	Type  string // the Go type whose member set it is ("" for package scope)
	Name  string
	A, B  string // kinds of the two declarations, sorted: "field", "method", "type", "const", "var", "func"
}

func (c clash) String() string {
	where := c.Scope
	if c.Type != "" {
		where += " " + c.Type
	}
	return fmt.Sprintf("[%s] %s: %s declared twice (%s and %s)", c.Level, where, c.Name, c.A, c.B)
}

type member struct{ kind, name string }

// clashesOf parses one generated file and returns every duplicate declaration.
func clashesOf(level, src string) ([]clash, error) {
	fset := token.NewFileSet()
	f, err := parser.ParseFile(fset, "gen.go", src, parser.SkipObjectResolution)
	if err != nil {
		return nil, err
	}
	var pkg []member
	members := map[string][]member{} // type name -> fields and methods
	typeKind := map[string]string{}
	var typeOrder []string
	addMember := func(t string, m member) {
		if _, ok := members[t]; !ok {
			typeOrder = append(typeOrder, t)
		}
		members[t] = append(members[t], m)
	}
	for _, d := range f.Decls {
		switch d := d.(type) {
		case *ast.GenDecl:
			for _, sp := range d.Specs {
				switch sp := sp.(type) {
				case *ast.TypeSpec:
					pkg = append(pkg, member{"type", sp.Name.Name})
					switch st := sp.Type.(type) {
					case *ast.StructType:
						kind := "wrapper"
						if strings.HasSuffix(sp.Name.Name, "_builder") {
							kind = "builder"
						}
						for _, fl := range st.Fields.List {
							if len(fl.Names) == 0 { // embedded
								addMember(sp.Name.Name, member{"field", embeddedName(fl.Type)})
							}
							for _, n := range fl.Names {
								if n.Name == "state" {
									kind = "message"
								}
								addMember(sp.Name.Name, member{"field", n.Name})
							}
						}
						typeKind[sp.Name.Name] = kind
					case *ast.InterfaceType:
						typeKind[sp.Name.Name] = "interface"
						for _, fl := range st.Methods.List {
							for _, n := range fl.Names {
								addMember(sp.Name.Name, member{"method", n.Name})
							}
						}
					default:
						if _, ok := typeKind[sp.Name.Name]; !ok {
							typeKind[sp.Name.Name] = "other-type"
						}
					}
				case *ast.ValueSpec:
					k := "var"
					if d.Tok == token.CONST {
						k = "const"
					}
					for _, n := range sp.Names {
						pkg = append(pkg, member{k, n.Name})
					}
				}
			}
		case *ast.FuncDecl:
			if d.Recv == nil || len(d.Recv.List) == 0 {
				if d.Name.Name != "init" {
					pkg = append(pkg, member{"func", d.Name.Name})
				}
				continue
			}
			rt := d.Recv.List[0].Type
			if s, ok := rt.(*ast.StarExpr); ok {
				rt = s.X
			}
			if id, ok := rt.(*ast.Ident); ok {
				addMember(id.Name, member{"method", d.Name.Name})
			}
		}
	}
	var out []clash
	dups := func(scope, typ string, ms []member) {
		first := map[string]string{}
		for _, m := range ms {
			if m.name == "_" {
				continue
			}
			if k, ok := first[m.name]; ok {
				a, b := k, m.kind
				if a > b {
					a, b = b, a
				}
				out = append(out, clash{Level: level, Scope: scope, Type: typ, Name: m.name, A: a, B: b})
				continue
			}
			first[m.name] = m.kind
		}
	}
	dups("package", "", pkg)
	declared := map[string]int{}
	for _, m := range pkg {
		if m.kind == "type" {
			declared[m.name]++
		}
	}
	for _, t := range typeOrder {
		if declared[t] > 1 {
			continue // the members of both declarations were merged; the type clash itself is reported
		}
		k := typeKind[t]
		if k == "" {
			k = "other-type"
		}
		dups(k, t, members[t])
	}
	return out, nil
}

func embeddedName(e ast.Expr) string {
	switch e := e.(type) {
	case *ast.StarExpr:
		return embeddedName(e.X)
	case *ast.SelectorExpr:
		return e.Sel.Name
	case *ast.Ident:
		return e.Name
	}
	return "?"
}

// Known findings of the generator's name-conflict resolution (compiler/protogen/protogen.go
// newMessage, protogen_opaque.go; cmd/protoc-gen-go/internal_gengo/opaque.go). Each id is one root
// cause; knownClash attributes a clash to it from the *roles* the clashing identifier plays in the
// message according to the protogen model (struct field of a field / of a oneof, getter, oneof
// getter, new-scheme accessor of a field / of a oneof, builder field, oneof wrapper type).
const (
	kfProtoReflect  = "KF-gengo-name-protoreflect"         // usedNames lacks "ProtoReflect"
	kfOneofGetter   = "KF-gengo-name-oneof-getter"         // makeNameUnique(oneof, hasGetter=false): Get<Oneof> is neither checked nor kept reserved
	kfCamelSuffix   = "KF-gengo-name-camelcase-suffix"     // resolveCamelCaseConflict's _<number> suffix (also applied to the containing oneof) is not itself checked
	kfOneofCamel    = "KF-gengo-name-oneof-camelcase"      // Has/Clear/Which of a oneof vs the accessors of a field / another oneof with the same camel-cased name
	kfHybridMangled = "KF-gengo-name-hybrid-mangled-field" // hybrid: new-scheme method names are only checked against camelCase names, not against old-scheme mangled struct field names
	kfWrapperTypes  = "KF-gengo-name-oneof-wrapper-types"  // oneof wrapper type renamed away from a nested type collides with another wrapper type
)

type entity struct {
	name   string // protobuf name
	g      string // GoName (old scheme, mangled with trailing underscores)
	c      string // camelCase of the new scheme (possibly with a _<number> suffix, or "Build_")
	infix  string // "_" when the new-scheme methods of the entity get an underscore (hybrid)
	oneof  bool   // a real oneof (otherwise a field)
	member bool   // field that is a member of a real oneof
	wrap   string // oneof member: name of its wrapper type
}

func (e entity) suffixed() bool {
	base := refGoCamel(e.name)
	return e.c != base && e.c != base+"_"
}

func (e entity) mangled() bool { return e.g != refGoCamel(e.name) }

type nameModel struct {
	ents []entity
}

// modelOfMessage reads the names protogen assigned to the fields and oneofs of msg (the plugin must
// have been created with default_api_level=API_HYBRID and msg must be hybrid for the infix to show).
func modelOfMessage(msg *protogen.Message) *nameModel {
	m := &nameModel{}
	for _, o := range msg.Oneofs {
		if o.Desc.IsSynthetic() {
			continue
		}
		e := entity{name: string(o.Desc.Name()), g: o.GoName, oneof: true}
		if w := o.MethodName("Which"); w != "" {
			e.c = strings.TrimPrefix(w, "Which")
			if strings.HasPrefix(e.c, "_") {
				e.infix, e.c = "_", e.c[1:]
			}
		} else {
			e.c = refGoCamel(e.name) // open API message: the new-scheme name is not used
		}
		m.ents = append(m.ents, e)
	}
	for _, f := range msg.Fields {
		e := entity{name: string(f.Desc.Name()), g: f.GoName, c: f.BuilderFieldName()}
		if s, _ := f.MethodName("Set"); strings.HasPrefix(s, "Set_") {
			e.infix = "_"
		}
		if f.Oneof != nil && !f.Oneof.Desc.IsSynthetic() {
			e.member = true
			e.wrap = f.GoIdent.GoName
		}
		m.ents = append(m.ents, e)
	}
	return m
}

type role struct {
	kind string // SF SO GF GFc GO SetF HasF ClearF HasO ClearO WhichO BF M0
	e    *entity
}

var baseMethods = map[string]bool{"Reset": true, "String": true, "ProtoMessage": true, "ProtoReflect": true, "Descriptor": true}

// rolesOf lists what the identifier n can be in the member set of the message struct of a file
// generated at the given level ("open", "hybrid", "opaque…").
func (m *nameModel) rolesOf(n, level string) []role {
	var out []role
	opaque := strings.HasPrefix(level, "opaque")
	if baseMethods[n] {
		out = append(out, role{kind: "M0"})
	}
	for i := range m.ents {
		e := &m.ents[i]
		add := func(kind, id string) {
			if id == n {
				out = append(out, role{kind, e})
			}
		}
		switch {
		case e.oneof:
			if opaque {
				add("SO", "xxx_hidden_"+e.g)
			} else {
				add("SO", e.g)
				add("GO", "Get"+e.g)
			}
			if level != "open" {
				pre := e.infix
				if opaque {
					pre = ""
				}
				add("HasO", "Has"+pre+e.c)
				add("ClearO", "Clear"+pre+e.c)
				add("WhichO", "Which"+pre+e.c)
			}
		default:
			if !e.member {
				if opaque {
					add("SF", "xxx_hidden_"+e.g)
				} else {
					add("SF", e.g)
				}
			}
			switch {
			case level == "open":
				add("GF", "Get"+e.g)
			case opaque:
				add("GF", "Get"+e.c)
				add("SetF", "Set"+e.c)
				add("HasF", "Has"+e.c)
				add("ClearF", "Clear"+e.c)
			default:
				add("GF", "Get"+e.infix+e.c)
				if "Get"+e.g != "Get"+e.infix+e.c {
					add("GFc", "Get"+e.g)
				}
				add("SetF", "Set"+e.infix+e.c)
				add("HasF", "Has"+e.infix+e.c)
				add("ClearF", "Clear"+e.infix+e.c)
			}
		}
	}
	return out
}

func hasKind(rs []role, kinds ...string) *role {
	for i := range rs {
		for _, k := range kinds {
			if rs[i].kind == k {
				return &rs[i]
			}
		}
	}
	return nil
}

// attribute returns the id of the known finding whose root cause explains clash k in the message m models, or "".
func (m *nameModel) attribute(k clash) string {
	opaque := strings.HasPrefix(k.Level, "opaque")
	switch k.Scope {
	case "package":
		// two oneof members whose wrapper types got the same name (the second one renamed to dodge a nested type)
		if k.A == "type" && k.B == "type" {
			n := 0
			for _, e := range m.ents {
				if e.member && strings.EqualFold(e.wrap[:1], k.Name[:1]) && e.wrap[1:] == k.Name[1:] {
					n++
				}
			}
			// opaqueFieldOneofType recomputes the name from the parent and the field GoName, appending "_"
			// while it equals a nested message or enum: the clash name is such a renamed wrapper
			if n >= 1 && strings.HasSuffix(k.Name, "_") {
				return kfWrapperTypes
			}
		}
		return ""
	case "builder":
		for _, e := range m.ents {
			if !e.oneof && e.c == k.Name && m.suffixInvolved(k.Name) {
				return kfCamelSuffix
			}
		}
		return ""
	case "wrapper":
		// methods of a wrapper type that is itself declared twice are reported with the type
		return ""
	case "message":
	default:
		return ""
	}
	rs := m.rolesOf(k.Name, k.Level)
	if len(rs) < 2 {
		return "" // the model cannot even name both declarations: not a known root cause
	}
	// (1) a field or oneof named ProtoReflect
	if k.Name == "ProtoReflect" && !opaque && hasKind(rs, "M0") != nil && hasKind(rs, "SF", "SO") != nil {
		return kfProtoReflect
	}
	// (2) Get<Oneof>: the oneof getter, or a name un-reserved by it
	bare := strings.TrimPrefix(k.Name, "xxx_hidden_")
	for _, e := range m.ents {
		if e.oneof && bare == "Get"+e.g {
			if !opaque || (k.A == "field" && k.B == "field") {
				return kfOneofGetter
			}
		}
	}
	// (3) identifiers built from a camelCase that got a _<number> suffix (or hidden by one)
	if m.suffixInvolved(bare) {
		return kfCamelSuffix
	}
	// (4) accessor of a oneof vs accessor of a field / another oneof
	if k.Level != "open" && k.A == "method" && k.B == "method" && hasKind(rs, "HasO", "ClearO", "WhichO") != nil {
		return kfOneofCamel
	}
	// (5) hybrid: exported struct field with an old-scheme mangled name vs a new-scheme method
	if k.Level == "hybrid" && k.A == "field" && k.B == "method" {
		if r := hasKind(rs, "SF", "SO"); r != nil && r.e.mangled() && hasKind(rs, "GF", "SetF", "HasF", "ClearF", "HasO", "ClearO", "WhichO") != nil {
			return kfHybridMangled
		}
	}
	// ... or its backwards-compatible getter Get<mangled name> vs a new-scheme getter
	if k.Level == "hybrid" && k.A == "method" && k.B == "method" {
		if r := hasKind(rs, "GFc"); r != nil && r.e.mangled() && hasKind(rs, "GF") != nil {
			return kfHybridMangled
		}
	}
	return ""
}

// suffixInvolved: n is (an accessor of / the struct field of / the un-suffixed accessor of) an
// entity whose camelCase carries a resolveCamelCaseConflict suffix.
func (m *nameModel) suffixInvolved(n string) bool {
	for _, e := range m.ents {
		if !e.suffixed() {
			continue
		}
		base := refGoCamel(e.name)
		if n == e.c || n == e.g {
			return true
		}
		for _, p := range []string{"Get", "Set", "Has", "Clear", "Which"} {
			for _, i := range []string{"", "_"} {
				if n == p+i+e.c || n == p+i+base {
					return true
				}
			}
		}
	}
	return false
}
