package c41

import (
	"os"
	"testing"
	"time"

	"google.golang.org/protobuf/zverif/schema"
)

func TestDev(t *testing.T) {
	if os.Getenv("C41_DEV") == "" {
		t.Skip()
	}
	files := schema.Generator(schema.Opts{MaxFiles: 8, Lazy: true}).Example(3)
	t.Logf("%d files", len(files))
	dir, _ := nextDir("dev")
	writeModule(dir)
	for _, lv := range levels {
		t0 := time.Now()
		g, err := generate(files, lv)
		if err != nil {
			t.Fatal(err)
		}
		if err := checkFormat(g); err != nil {
			t.Fatal(err)
		}
		t1 := time.Now()
		errs, err := typecheck(g, lv)
		t.Logf("%s: gen %v typecheck %v: %v %v", lv, t1.Sub(t0), time.Since(t1), errs, err)
		if err := writeLevel(dir, g, lv, nil); err != nil {
			t.Fatal(err)
		}
	}
	t0 := time.Now()
	out, err := goBuild(dir, levels)
	t.Logf("build %v: %v\n%s", time.Since(t0), err, out)
	t.Logf("dir %s", dir)
}
