package c41

import (
	"fmt"
	"strings"
	"time"

	"google.golang.org/protobuf/proto"
	"google.golang.org/protobuf/reflect/protoreflect"
	"google.golang.org/protobuf/types/descriptorpb"
	"google.golang.org/protobuf/zverif/schema"
)

// A failing batch is reduced before it is reported: first to the files the failing package needs
// (delta debugging over the files of the set), then structurally inside the files (declarations,
// fields, values, options are removed one at a time while the set stays valid for protodesc and the
// failure stays in the same stage). Failures the in-process front end reproduces are reduced with it
// (milliseconds per attempt); failures only the real build or the start-up of the program shows are
// reduced with real builds under a time budget.

func stageOf(err error) string {
	s := err.Error()
	switch {
	case strings.HasPrefix(s, "protoc-gen-go"):
		return "generator"
	case strings.Contains(s, "is not gofmt-formatted"), strings.Contains(s, "does not parse"), strings.Contains(s, "go/format fails"):
		return "format"
	case strings.Contains(s, "does not compile"):
		return "compile"
	case strings.HasPrefix(s, "at init"):
		return "init"
	}
	return "other"
}

// oracle reports whether the set still fails in the given stage, and with what.
func oracle(files []*descriptorpb.FileDescriptorProto, c batchCase, stage string, real bool) (bool, error) {
	if _, err := schema.Build(files); err != nil {
		return false, nil
	}
	if !real {
		_, _, _, err := frontEnd(files, c.Level, true)
		if err != nil && !strings.HasPrefix(err.Error(), "harness:") && stageOf(err) == stage {
			return true, err
		}
		return false, nil
	}
	r := runnerFor(schema.Marshal(files), c.Level, c.Adv)
	if r.prog != nil {
		r.prog.stop()
	}
	if r.err != nil && !strings.HasPrefix(r.err.Error(), "harness:") && stageOf(r.err) == stage {
		return true, r.err
	}
	return false, nil
}

func cloneFiles(files []*descriptorpb.FileDescriptorProto) []*descriptorpb.FileDescriptorProto {
	out := make([]*descriptorpb.FileDescriptorProto, len(files))
	for i, f := range files {
		out[i] = proto.Clone(f).(*descriptorpb.FileDescriptorProto)
	}
	return out
}

// edits enumerates single-step reductions of message m (a descriptor proto subtree): each returned
// function applies one edit to the tree it was created from.
func edits(m protoreflect.Message, out *[]func()) {
	m.Range(func(fd protoreflect.FieldDescriptor, v protoreflect.Value) bool {
		name := string(fd.Name())
		switch {
		case fd.IsList():
			l := v.List()
			if name == "dependency" || name == "public_dependency" || name == "weak_dependency" {
				return true // handled with the file list
			}
			for i := l.Len() - 1; i >= 0; i-- {
				i := i
				if name == "oneof_decl" {
					*out = append(*out, func() { removeOneof(m, i) })
				} else {
					*out = append(*out, func() { removeAt(m, fd, i) })
				}
			}
			if fd.Message() != nil {
				for i := 0; i < l.Len(); i++ {
					edits(l.Get(i).Message(), out)
				}
			}
		case fd.Message() != nil:
			*out = append(*out, func() { m.Clear(fd) })
			edits(v.Message(), out)
		default:
			switch name {
			case "default_value", "json_name", "proto3_optional", "client_streaming", "server_streaming":
				*out = append(*out, func() { m.Clear(fd) })
			}
		}
		return true
	})
}

func removeAt(m protoreflect.Message, fd protoreflect.FieldDescriptor, i int) {
	l := m.Mutable(fd).List()
	if i >= l.Len() {
		return
	}
	var keep []protoreflect.Value
	for j := 0; j < l.Len(); j++ {
		if j != i {
			keep = append(keep, l.Get(j))
		}
	}
	l.Truncate(0)
	for _, v := range keep {
		l.Append(v)
	}
}

// removeOneof deletes oneof i of a DescriptorProto: its members become plain fields, later indexes shift.
func removeOneof(m protoreflect.Message, i int) {
	dp, ok := m.Interface().(*descriptorpb.DescriptorProto)
	if !ok || i >= len(dp.OneofDecl) {
		return
	}
	dp.OneofDecl = append(dp.OneofDecl[:i:i], dp.OneofDecl[i+1:]...)
	for _, f := range dp.Field {
		if f.OneofIndex == nil {
			continue
		}
		switch {
		case int(f.GetOneofIndex()) == i:
			f.OneofIndex = nil
			f.Proto3Optional = nil
		case int(f.GetOneofIndex()) > i:
			f.OneofIndex = proto.Int32(f.GetOneofIndex() - 1)
		}
	}
}

// minimise reduces a failing batch case; it returns the reduced case and its error (the original
// ones when nothing smaller fails alike).
func minimise(c batchCase, err error) (batchCase, error) {
	stage := stageOf(err)
	if stage == "other" {
		return c, err
	}
	files, uerr := schema.Unmarshal(c.Raw)
	if uerr != nil {
		return c, err
	}
	real := false
	if ok, _ := oracle(files, c, stage, false); !ok {
		real = true // only the real build / the running program shows it
		if ok, _ := oracle(files, c, stage, true); !ok {
			return c, fmt.Errorf("%v [the set alone, in a program of its own, does not show it]", err)
		}
	}
	budget := 60 * time.Second
	if real {
		budget = 240 * time.Second
	}
	deadline := time.Now().Add(budget)
	best, bestErr := files, err
	try := func(cand []*descriptorpb.FileDescriptorProto) bool {
		if time.Now().After(deadline) {
			return false
		}
		ok, e := oracle(cand, c, stage, real)
		if ok {
			best, bestErr = cand, e
		}
		return ok
	}
	// 1. files: drop from the end (importers first)
	for i := len(best) - 1; i >= 0 && len(best) > 1; i-- {
		cand := cloneFiles(best)
		name := cand[i].GetName()
		cand = append(cand[:i:i], cand[i+1:]...)
		for _, f := range cand { // unused imports of the dropped file go too
			for j := len(f.Dependency) - 1; j >= 0; j-- {
				if f.Dependency[j] == name {
					dropDependency(f, j)
				}
			}
		}
		try(cand)
	}
	// 2. inside the files, to a fixpoint
	for changed := true; changed && time.Now().Before(deadline); {
		changed = false
		for fi := range best {
			for k := 0; ; k++ {
				cand := cloneFiles(best)
				var es []func()
				edits(cand[fi].ProtoReflect(), &es)
				if k >= len(es) {
					break
				}
				es[k]()
				if try(cand) {
					changed = true
					k-- // the list shifted: same position again
				}
				if time.Now().After(deadline) {
					break
				}
			}
		}
	}
	out := batchCase{Raw: schema.Marshal(best), Level: c.Level, Adv: c.Adv, Text: schema.Text(best)}
	if real {
		bestErr = fmt.Errorf("%v [reduced with real builds]", bestErr)
	}
	return out, bestErr
}

func dropDependency(f *descriptorpb.FileDescriptorProto, j int) {
	f.Dependency = append(f.Dependency[:j:j], f.Dependency[j+1:]...)
	fix := func(xs []int32) []int32 {
		var out []int32
		for _, x := range xs {
			switch {
			case int(x) == j:
			case int(x) > j:
				out = append(out, x-1)
			default:
				out = append(out, x)
			}
		}
		return out
	}
	f.PublicDependency = fix(f.PublicDependency)
	f.WeakDependency = fix(f.WeakDependency)
}
