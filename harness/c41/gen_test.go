package c41

import (
	"fmt"
	"go/ast"
	"go/parser"
	"go/token"
	"regexp"
	"sort"
	"strings"
	"testing"

	"google.golang.org/protobuf/compiler/protogen"
	"google.golang.org/protobuf/types/descriptorpb"
	"google.golang.org/protobuf/types/gofeaturespb"
	"google.golang.org/protobuf/zverif/gencode"
	"google.golang.org/protobuf/zverif/pbt"
	"google.golang.org/protobuf/zverif/schema"
	"pgregory.net/rapid"
)

// kfPackageScope: package-level Go identifiers are built by joining names with '_' and fixed affixes
// without a uniqueness check across declarations.
const kfPackageScope = "KF-gengo-name-package-scope"

// kfPublicForward: the forwarding declarations written for 'import public' of a file in another Go
// package (type X = imp.X, const / var X = imp.X for every exported symbol of the imported package)
// are not checked against the importing file's own declarations, nor against each other.
const kfPublicForward = "KF-gengo-public-import-forward-clash"

// kfPublicOpaque: the forwards are derived from the non-opaque variant of an imported hybrid file;
// under -tags protoopaque the exported oneof wrapper types they name do not exist.
const kfPublicOpaque = "KF-gengo-public-import-protoopaque-forward"

var undefinedSel = regexp.MustCompile(`^undefined: [A-Za-z_0-9]+\.([A-Za-z_0-9]+)$`)

// forwardedNames lists the package-level identifiers a generated file declares as forwards of another
// package's symbols (tok X = pkg.X).
func forwardedNames(src string) map[string]bool {
	out := map[string]bool{}
	f, err := parser.ParseFile(token.NewFileSet(), "gen.go", src, parser.SkipObjectResolution)
	if err != nil {
		return out
	}
	fwd := func(name string, e ast.Expr) {
		if sel, ok := e.(*ast.SelectorExpr); ok && sel.Sel.Name == name {
			if _, ok := sel.X.(*ast.Ident); ok {
				out[name] = true
			}
		}
	}
	for _, d := range f.Decls {
		gd, ok := d.(*ast.GenDecl)
		if !ok {
			continue
		}
		for _, sp := range gd.Specs {
			switch sp := sp.(type) {
			case *ast.TypeSpec:
				if sp.Assign.IsValid() {
					fwd(sp.Name.Name, sp.Type)
				}
			case *ast.ValueSpec:
				if len(sp.Names) == 1 && len(sp.Values) == 1 && sp.Type == nil {
					fwd(sp.Names[0].Name, sp.Values[0])
				}
			}
		}
	}
	return out
}

const gofeaturespbOpen = gofeaturespb.GoFeatures_API_OPEN

// ---------------------------------------------------------------------------------------------
// attribution of compile errors to the registered name-clash findings

// nameModels reads, from the protogen model of the set, the names assigned to the fields and oneofs
// of every message (at the hybrid level, which makes the method infix observable) and the API level
// every message really gets under the given default level.
func nameModels(g *generated, level string) (models map[int]map[string]*nameModel, lv map[int]map[string]string, claims map[int]map[string][]string, err error) {
	reqH, err := gencode.Request(g.files, nil, "default_api_level=API_HYBRID")
	if err != nil {
		return nil, nil, nil, err
	}
	genH, err := gencode.Plugin(reqH)
	if err != nil {
		return nil, nil, nil, err
	}
	reqA, err := gencode.Request(g.files, nil, apiParam(level))
	if err != nil {
		return nil, nil, nil, err
	}
	genA, err := gencode.Plugin(reqA)
	if err != nil {
		return nil, nil, nil, err
	}
	idx := map[string]int{}
	for i, f := range g.files {
		idx[f.GetName()] = i
	}
	models, lv = map[int]map[string]*nameModel{}, map[int]map[string]string{}
	var walkA func(i int, ms []*protogen.Message)
	walkA = func(i int, ms []*protogen.Message) {
		for _, m := range ms {
			if lv[i] == nil {
				lv[i] = map[string]string{}
			}
			lv[i][m.GoIdent.GoName] = strings.ToLower(strings.TrimPrefix(m.APILevel.String(), "API_"))
			walkA(i, m.Messages)
		}
	}
	claims = map[int]map[string][]string{}
	for _, f := range genA.Files {
		if i, ok := idx[f.Desc.Path()]; ok && f.Generate {
			walkA(i, f.Messages)
			variant := false
			for _, n := range g.names {
				if g.pkgOf[n] == i && strings.HasSuffix(n, "_protoopaque.pb.go") {
					variant = true
				}
			}
			claims[i] = packageClaims(f, variant && goTags(level) != "")
		}
	}
	var walkH func(i int, ms []*protogen.Message)
	walkH = func(i int, ms []*protogen.Message) {
		for _, m := range ms {
			if m.Desc.IsMapEntry() {
				continue
			}
			if models[i] == nil {
				models[i] = map[string]*nameModel{}
			}
			models[i][m.GoIdent.GoName] = modelOfMessage(m)
			walkH(i, m.Messages)
		}
	}
	for _, f := range genH.Files {
		if i, ok := idx[f.Desc.Path()]; ok && f.Generate {
			walkH(i, f.Messages)
		}
	}
	return models, lv, claims, nil
}

// packageClaims lists, per package-level Go identifier, the declarations of the file whose documented
// names are that identifier: message and enum types (parents joined with '_'), enum value constants
// (<parent or enum>_<value>), the <Enum>_name / <Enum>_value maps, Default_<Msg>_<Field>, E_<extension>,
// oneof interfaces, wrapper types, case types and constants, <Msg>_builder.
func packageClaims(f *protogen.File, allOpaque bool) map[string][]string {
	out := map[string][]string{}
	add := func(id, what string) { out[id] = append(out[id], what) }
	enum := func(e *protogen.Enum) {
		n := e.GoIdent.GoName
		add(n, "enum type "+string(e.Desc.FullName()))
		add(n+"_name", "name map of enum "+string(e.Desc.FullName()))
		add(n+"_value", "value map of enum "+string(e.Desc.FullName()))
		for _, v := range e.Values {
			add(v.GoIdent.GoName, "enum value "+string(v.Desc.FullName()))
			if a := v.PrefixedAlias.GoName; a != "" && a != v.GoIdent.GoName {
				add(a, "prefixed alias of enum value "+string(v.Desc.FullName())+" (strip_enum_prefix = GENERATE_BOTH)")
			}
		}
	}
	ext := func(x *protogen.Extension) {
		add("E_"+x.GoIdent.GoName, "extension "+string(x.Desc.FullName()))
	}
	var msg func(m *protogen.Message)
	msg = func(m *protogen.Message) {
		if m.Desc.IsMapEntry() {
			return
		}
		n := m.GoIdent.GoName
		add(n, "message type "+string(m.Desc.FullName()))
		if m.APILevel != gofeaturespbOpen || allOpaque {
			add(n+"_builder", "builder of "+string(m.Desc.FullName()))
		}
		for _, fd := range m.Fields {
			if fd.Desc.HasDefault() {
				add("Default_"+n+"_"+fd.GoName, "default of "+string(fd.Desc.FullName()))
			}
			if fd.Oneof != nil && !fd.Oneof.Desc.IsSynthetic() {
				w := fd.GoIdent.GoName
				if m.APILevel == gofeaturespb.GoFeatures_API_OPAQUE || allOpaque {
					w = unexport(w) // opaque messages keep their wrapper types unexported
				}
				add(w, "oneof wrapper type of "+string(fd.Desc.FullName()))
				add(n+"_"+fd.GoName+"_case", "case constant of "+string(fd.Desc.FullName()))
			}
		}
		for _, o := range m.Oneofs {
			if o.Desc.IsSynthetic() {
				continue
			}
			add("is"+o.GoIdent.GoName, "oneof interface of "+string(o.Desc.FullName()))
			add("case_"+n+"_"+o.GoName, "case type of "+string(o.Desc.FullName()))
			add(n+"_"+o.GoName+"_not_set_case", "not-set case constant of "+string(o.Desc.FullName()))
		}
		for _, e := range m.Enums {
			enum(e)
		}
		for _, x := range m.Extensions {
			ext(x)
		}
		for _, s := range m.Messages {
			msg(s)
		}
	}
	for _, e := range f.Enums {
		enum(e)
	}
	for _, x := range f.Extensions {
		ext(x)
	}
	for _, m := range f.Messages {
		msg(m)
	}
	return out
}

func fileLevel(name, level string) string {
	if strings.HasSuffix(name, "_protoopaque.pb.go") {
		return "opaque(hybrid build tag)"
	}
	return strings.TrimSuffix(level, "+protoopaque")
}

// explain decides whether the compile errors of package i are fully accounted for by registered
// name-clash findings: the package must show duplicate declarations (go/parser AST) and every one of
// them must be attributed; ids lists the findings, why says what is unexplained ("" = explained).
func explain(g *generated, level string, i int, es []typeError, models map[int]map[string]*nameModel, lv map[int]map[string]string, claims map[int]map[string][]string) (ids []string, why string) {
	tags := goTags(level)
	if tags == "protoopaque" && len(g.files[i].GetPublicDependency()) > 0 {
		// forwards of a public import name symbols that only the non-opaque variant of the imported hybrid file has
		fw := map[string]bool{}
		for _, name := range g.names {
			if g.pkgOf[name] == i && selected(g.out[name], tags) {
				for n := range forwardedNames(g.out[name]) {
					fw[n] = true
				}
			}
		}
		all := len(es) > 0
		for _, e := range es {
			m := undefinedSel.FindStringSubmatch(e.Msg)
			if m == nil || !fw[m[1]] {
				all = false
			}
		}
		if all {
			return []string{kfPublicOpaque}, ""
		}
	}
	seen := map[string]bool{}
	n := 0
	typeClash := map[string]bool{}
	var pending []clash
	forwarded := map[string]bool{}
	for _, name := range g.names {
		if g.pkgOf[name] != i || !selected(g.out[name], tags) {
			continue
		}
		for n := range forwardedNames(g.out[name]) {
			forwarded[n] = true
		}
		cl, err := clashesOf(fileLevel(name, level), g.out[name])
		if err != nil {
			return nil, err.Error()
		}
		for _, k := range cl {
			n++
			if k.Scope == "package" && k.A == "type" && k.B == "type" {
				typeClash[k.Name] = true
			}
			pending = append(pending, k)
		}
	}
	if n == 0 {
		return nil, "no identifier is declared twice"
	}
	for _, k := range pending {
		id := ""
		switch k.Scope {
		case "message", "builder":
			tn := strings.TrimSuffix(k.Type, "_builder")
			m := models[i][tn]
			// the level the message really has (features.(pb.go).api_level of the file or the message, edition
			// 2024 default); the _protoopaque variant of a hybrid file makes every message of the file opaque
			if l := lv[i][tn]; l != "" && !strings.HasPrefix(k.Level, "opaque(") {
				k.Level = l
			}
			if m != nil {
				id = m.attribute(k)
			}
		case "package":
			id = attributePackage(k, models[i])
			if id == "" && forwarded[k.Name] && len(g.files[i].GetPublicDependency()) > 0 {
				id = kfPublicForward
			}
			if cl := claims[i][k.Name]; id == "" && len(cl) >= 2 {
				// the naming scheme itself gives two declarations the same package-level identifier
				id = kfPackageScope
			}
		default:
			// members of a wrapper struct / interface whose type is itself declared twice follow from that clash
			if typeClash[k.Type] {
				continue
			}
		}
		if id == "" {
			return nil, k.String()
		}
		if !seen[id] {
			seen[id] = true
			ids = append(ids, id)
		}
	}
	sort.Strings(ids)
	return ids, ""
}

func unexport(s string) string {
	if s == "" {
		return s
	}
	return strings.ToLower(s[:1]) + s[1:]
}

// attributePackage: package-level clashes with a registered root cause.
func attributePackage(k clash, ms map[string]*nameModel) string {
	if k.A == "type" && k.B == "type" && strings.HasSuffix(k.Name, "_") {
		// a oneof wrapper type renamed (trailing underscore) to dodge a nested message / enum collides with
		// the wrapper type of another member
		names := sortedKeys(ms)
		for _, tn := range names {
			n := 0
			for _, e := range ms[tn].ents {
				if e.member && (e.wrap == k.Name || unexport(e.wrap) == k.Name) {
					n++
				}
			}
			if n >= 1 && (strings.HasPrefix(k.Name, tn+"_") || strings.HasPrefix(k.Name, unexport(tn)+"_")) {
				return kfWrapperTypes
			}
		}
	}
	return ""
}

// ---------------------------------------------------------------------------------------------
// sub-check "generate": checks 1, 2 and the compiler front end, in process

type genCase struct {
	Raw   [][]byte `json:"raw"`
	Level string   `json:"level"`
	Adv   bool     `json:"adv,omitempty"`
	Text  []string `json:"text,omitempty"` // for people; never consulted
}

type genResult struct {
	pkgs, failed, skipped int
	ids                   []string
}

var lastGen genResult

func checkGen(c genCase) error {
	r, err := runGen(c, true)
	lastGen = r
	return err
}

// frontEnd runs generator, format check and type check on the set; bad lists the schema files whose
// packages do not compile for a registered reason (and the files that import them).
func frontEnd(files []*descriptorpb.FileDescriptorProto, level string, exclude bool) (g *generated, bad map[int]string, res genResult, err error) {
	return frontEndAt(files, level, pkgBase(level), exclude)
}

func frontEndAt(files []*descriptorpb.FileDescriptorProto, level, base string, exclude bool) (g *generated, bad map[int]string, res genResult, err error) {
	g, err = generateAt(files, level, base)
	if err != nil {
		return nil, nil, res, err
	}
	if err = checkFormat(g); err != nil {
		return g, nil, res, err
	}
	errs, err := typecheck(g, level)
	if err != nil {
		return g, nil, res, fmt.Errorf("harness: %v", err)
	}
	res.pkgs = len(g.files)
	bad = map[int]string{}
	if len(errs) == 0 {
		return g, bad, res, nil
	}
	byPkg := map[int][]typeError{}
	for _, e := range errs {
		byPkg[e.Pkg] = append(byPkg[e.Pkg], e)
	}
	models, lv, claims, err := nameModels(g, level)
	if err != nil {
		return g, nil, res, fmt.Errorf("harness: %v", err)
	}
	idset := map[string]bool{}
	for i := range g.files { // dependency order
		dep := ""
		for _, d := range g.files[i].GetDependency() {
			for j := range g.files {
				if g.files[j].GetName() == d && bad[j] != "" {
					dep = d
				}
			}
		}
		if dep != "" {
			bad[i] = "imports " + dep
			res.skipped++
			continue
		}
		es := byPkg[i]
		if len(es) == 0 {
			continue
		}
		ids, why := explain(g, level, i, es, models, lv, claims)
		ok := why == ""
		if ok && exclude {
			for _, id := range ids {
				if !pbt.Known(id) {
					ok, why = false, "finding "+id+" is not listed as known"
				}
			}
		}
		if !ok {
			return g, bad, res, fmt.Errorf("generated package of %s (API level %s) does not compile: %s: %s [%s] (%d errors; not explained by a registered name clash: %s)", g.files[i].GetName(), level, es[0].File, es[0].Msg, es[0].Pos, len(es), why)
		}
		if exclude {
			for _, id := range ids {
				pbt.ExcludeKnown(id)
			}
		}
		for _, id := range ids {
			idset[id] = true
		}
		bad[i] = strings.Join(ids, ",")
		res.failed++
	}
	res.ids = sortedKeys(idset)
	return g, bad, res, nil
}

func runGen(c genCase, exclude bool) (genResult, error) {
	files, err := schema.Unmarshal(c.Raw)
	if err != nil {
		return genResult{}, fmt.Errorf("harness: %v", err)
	}
	if _, err := schema.Build(files); err != nil {
		return genResult{}, fmt.Errorf("harness: not a valid schema set: %v", err)
	}
	_, _, res, err := frontEnd(files, c.Level, exclude)
	return res, err
}

func drawLevel(t *rapid.T) string {
	return rapid.SampledFrom([]string{"open", "hybrid", "opaque", "hybrid+protoopaque"}).Draw(t, "level")
}

func genClasses(c genCase) []string {
	cl := []string{"level:" + c.Level}
	if c.Adv {
		cl = append(cl, "adversarial-names")
	}
	files, err := schema.Unmarshal(c.Raw)
	if err != nil {
		return cl
	}
	cl = append(cl, fmt.Sprintf("files:%d", len(files)))
	for _, k := range schema.Constructs(files) {
		cl = append(cl, "has:"+k)
	}
	r := lastGen
	if r.failed > 0 {
		cl = append(cl, "known-name-clash")
		for _, id := range r.ids {
			cl = append(cl, "clash:"+id)
		}
	} else {
		cl = append(cl, "compiles")
	}
	return cl
}

func TestGenerate(t *testing.T) {
	pbt.Run(t, pbt.Prop[genCase]{
		Name: "generate",
		Rule: "random valid schema sets (harness/schema: 1-3 files, all four syntaxes, every construct incl. lazy fields, well-known imports, custom options, source info; 1 in 4 with the adversarial name vocabulary), each file its own Go package, generated in process by the tree's protoc-gen-go at API level open / hybrid / opaque / hybrid built with -tags protoopaque: (1) no generator error and one .pb.go per file; (2) every file parses and go/format.Source leaves it unchanged; (3') every package passes the compiler front end: go/types over the export data of the tree under test (go list -export), packages in dependency order - an error is a compile error. Packages whose errors are duplicate declarations that are all attributed (protogen name model + go/parser AST) to a registered KF-gengo-name-* finding are counted as excluded. non-trivial = >= 3 distinct constructs",
		Draw: func(t *rapid.T) genCase {
			adv := rapid.IntRange(0, 3).Draw(t, "adv") == 3
			o := schema.Opts{AdversarialNames: adv, Lazy: true, WellKnown: rapid.Bool().Draw(t, "wk"), SourceInfo: rapid.IntRange(0, 3).Draw(t, "si") == 0}
			files := schema.Draw(t, o)
			return genCase{Raw: schema.Marshal(files), Level: drawLevel(t), Adv: adv, Text: schema.Text(files)}
		},
		Check: checkGen,
		NonTrivial: func(c genCase) bool {
			files, err := schema.Unmarshal(c.Raw)
			return err == nil && len(schema.Constructs(files)) >= 3
		},
		Classes: genClasses,
		Quick:   400, Thorough: 1000,
	})
}
