package model

import (
	"google.golang.org/protobuf/reflect/protoreflect"
	"google.golang.org/protobuf/zverif/ref"
)

// Chooser supplies the choices of a perturbed-but-equivalent encoding. nil = canonical.
type Chooser interface {
	// Intn returns a number in [0, n).
	Intn(n int, label string) int
}

// EncOpts selects the perturbations a Chooser may apply. Every one of them leaves the decoded
// message unchanged by the wire-format rules (last one wins, lists append, submessages merge,
// packed and unpacked are interchangeable, varints may be padded, map entry fields may come in
// any order and be omitted when zero).
type EncOpts struct {
	Shuffle     bool // field order
	Repack      bool // packed <-> unpacked, split packed runs
	Denorm      bool // padded varints in tags, lengths and varint values
	Decoys      bool // earlier overwritten occurrences of singular scalars and map keys
	SplitMsgs   bool // a submessage encoded as two occurrences that merge
	MapVariants bool // value before key, omitted zero key/value
	SortFields  bool // canonical: emit fields ascending by number (ignored when Shuffle draws)
	Interleave  bool // with SplitMsgs: the second occurrence of a split submessage goes to the end of the enclosing message (other fields in between)
	Labels      *[]string
}

var AllPerturbations = EncOpts{Shuffle: true, Repack: true, Denorm: true, Decoys: true, SplitMsgs: true, MapVariants: true}

type encoder struct {
	c        Chooser
	o        EncOpts
	r        Resolver
	deferred [][]byte // per open message: occurrences postponed to the end of its body
}

func (e *encoder) label(s string) {
	if e.o.Labels != nil {
		*e.o.Labels = append(*e.o.Labels, s)
	}
}

func (e *encoder) coin(n int, label string) bool {
	if e.c == nil {
		return false
	}
	return e.c.Intn(n, label) == 0
}

// Encode writes the wire encoding of v (a model value of md). With c == nil the output is the
// canonical one: fields in the order of v.Fields (ascending when o.SortFields), repeated scalars
// packed as declared, minimal varints, unknown bytes last.
func Encode(md protoreflect.MessageDescriptor, v *Msg, c Chooser, o EncOpts, r Resolver) []byte {
	e := &encoder{c: c, o: o, r: r}
	return e.msg(nil, md, v)
}

func (e *encoder) varint(b []byte, v uint64) []byte {
	if e.o.Denorm && e.coin(6, "denorm") {
		n := ref.VarintLen(v) + 1 + e.c.Intn(2, "pad")
		if n <= 10 {
			e.label("denorm-varint")
			return ref.VarintPadded(b, v, n)
		}
	}
	return ref.Varint(b, v)
}

func (e *encoder) tag(b []byte, num int32, typ int) []byte {
	return e.varint(b, uint64(num)<<3|uint64(typ))
}

func wireType(k Kind) int {
	switch k {
	case protoreflect.Fixed32Kind, protoreflect.Sfixed32Kind, protoreflect.FloatKind:
		return 5
	case protoreflect.Fixed64Kind, protoreflect.Sfixed64Kind, protoreflect.DoubleKind:
		return 1
	case protoreflect.StringKind, protoreflect.BytesKind, protoreflect.MessageKind:
		return 2
	case protoreflect.GroupKind:
		return 3
	}
	return 0
}

func packable(k Kind) bool {
	switch k {
	case protoreflect.StringKind, protoreflect.BytesKind, protoreflect.MessageKind, protoreflect.GroupKind:
		return false
	}
	return true
}

// scalar appends the value bytes (no tag) of a non-message kind.
func (e *encoder) scalar(b []byte, k Kind, v Val) []byte {
	switch k {
	case protoreflect.BoolKind:
		if v.U != 0 {
			return e.varint(b, 1)
		}
		return e.varint(b, 0)
	case protoreflect.Int32Kind, protoreflect.Int64Kind, protoreflect.EnumKind:
		return e.varint(b, v.U) // negative 32-bit values are sign-extended to 10 bytes
	case protoreflect.Uint32Kind:
		return e.varint(b, uint64(uint32(v.U)))
	case protoreflect.Uint64Kind:
		return e.varint(b, v.U)
	case protoreflect.Sint32Kind:
		return e.varint(b, uint64(uint32(ref.ZigZag(int64(int32(v.U))))))
	case protoreflect.Sint64Kind:
		return e.varint(b, ref.ZigZag(int64(v.U)))
	case protoreflect.Fixed32Kind, protoreflect.Sfixed32Kind, protoreflect.FloatKind:
		return ref.Fixed32(b, uint32(v.U))
	case protoreflect.Fixed64Kind, protoreflect.Sfixed64Kind, protoreflect.DoubleKind:
		return ref.Fixed64(b, v.U)
	case protoreflect.StringKind, protoreflect.BytesKind:
		b = e.varint(b, uint64(len(v.B)))
		return append(b, v.B...)
	}
	panic("scalar: composite kind")
}

// one appends tag + value of a single element of field fd.
func (e *encoder) one(b []byte, fd protoreflect.FieldDescriptor, v Val) []byte {
	num := int32(fd.Number())
	switch fd.Kind() {
	case protoreflect.MessageKind:
		if e.o.SplitMsgs && v.M != nil && len(v.M.Fields) >= 2 && !fd.IsList() && e.coin(4, "splitmsg") {
			// two occurrences that merge back into the original (singular message fields only)
			cut := 1 + e.c.Intn(len(v.M.Fields)-1, "cut")
			first := &Msg{Fields: v.M.Fields[:cut]}
			second := &Msg{Fields: v.M.Fields[cut:], Unknown: v.M.Unknown}
			e.label("split-submessage")
			b = e.one(b, fd, Val{M: first})
			if e.o.Interleave && len(e.deferred) > 0 && e.coin(2, "interleave") {
				e.label("split-noncontiguous")
				i := len(e.deferred) - 1
				enc := e.one(nil, fd, Val{M: second}) // may itself defer further occurrences into slot i
				e.deferred[i] = append(e.deferred[i], enc...)
				return b
			}
			return e.one(b, fd, Val{M: second})
		}
		body := e.msg(nil, fd.Message(), v.M)
		b = e.tag(b, num, 2)
		b = e.varint(b, uint64(len(body)))
		return append(b, body...)
	case protoreflect.GroupKind:
		b = e.tag(b, num, 3)
		b = e.msg(b, fd.Message(), v.M)
		return e.tag(b, num, 4)
	}
	b = e.tag(b, num, wireType(fd.Kind()))
	return e.scalar(b, fd.Kind(), v)
}

func (e *encoder) msg(b []byte, md protoreflect.MessageDescriptor, v *Msg) []byte {
	if v == nil {
		return b
	}
	fields := append([]Field(nil), v.Fields...)
	if e.o.Shuffle && e.c != nil && len(fields) > 1 && e.coin(2, "shuffle") {
		for i := len(fields) - 1; i > 0; i-- {
			j := e.c.Intn(i+1, "perm")
			fields[i], fields[j] = fields[j], fields[i]
		}
		e.label("shuffled")
	} else if e.o.SortFields {
		for i := 1; i < len(fields); i++ {
			for j := i; j > 0 && fields[j].Num < fields[j-1].Num; j-- {
				fields[j], fields[j-1] = fields[j-1], fields[j]
			}
		}
	}
	e.deferred = append(e.deferred, nil)
	for _, f := range fields {
		fd := FieldDesc(md, f.Num, e.r)
		if fd == nil {
			panic("model.Encode: unresolvable field")
		}
		b = e.field(b, fd, f)
	}
	b = append(b, e.deferred[len(e.deferred)-1]...)
	e.deferred = e.deferred[:len(e.deferred)-1]
	return append(b, v.Unknown...)
}

func (e *encoder) field(b []byte, fd protoreflect.FieldDescriptor, f Field) []byte {
	num := int32(fd.Number())
	switch {
	case fd.IsMap():
		kd, vd := fd.MapKey(), fd.MapValue()
		for i := range f.Keys {
			if e.o.Decoys && e.coin(8, "mapdecoy") && vd.Message() == nil {
				// an earlier entry with the same key and another value: last one wins
				dv := f.Vals[i]
				dv.U ^= 1
				dv.B = append([]byte("x"), dv.B...)
				if vd.Kind() == protoreflect.EnumKind || vd.Kind() == protoreflect.StringKind {
					dv = f.Vals[i] // keep enum numbers declared / strings valid: use the same value
				}
				b = e.mapEntry(b, num, kd, vd, f.Keys[i], dv)
				e.label("map-duplicate-key")
			}
			b = e.mapEntry(b, num, kd, vd, f.Keys[i], f.Vals[i])
		}
	case fd.IsList():
		if packable(fd.Kind()) {
			packed := fd.IsPacked()
			if e.o.Repack && e.coin(3, "repack") {
				packed = !packed
				e.label("repacked")
			}
			if packed {
				vals := f.Vals
				for len(vals) > 0 {
					n := len(vals)
					if e.o.Repack && n > 1 && e.coin(3, "splitrun") {
						n = 1 + e.c.Intn(n-1, "run")
						e.label("split-packed-run")
					}
					var body []byte
					for _, x := range vals[:n] {
						body = e.scalar(body, fd.Kind(), x)
					}
					b = e.tag(b, num, 2)
					b = e.varint(b, uint64(len(body)))
					b = append(b, body...)
					vals = vals[n:]
				}
				return b
			}
		}
		for _, x := range f.Vals {
			b = e.one(b, fd, x)
		}
	default:
		if e.o.Decoys && fd.Message() == nil && e.coin(8, "decoy") && fd.Kind() != protoreflect.EnumKind && fd.Kind() != protoreflect.StringKind {
			dv := f.Vals[0]
			dv.U ^= 0x55
			dv.B = append([]byte("decoy"), dv.B...)
			b = e.one(b, fd, dv) // overwritten by the real value below (and by any other oneof member order)
			e.label("singular-decoy")
		}
		b = e.one(b, fd, f.Vals[0])
	}
	return b
}

func (e *encoder) mapEntry(b []byte, num int32, kd, vd protoreflect.FieldDescriptor, k, v Val) []byte {
	// the entry is a message body of its own: occurrences deferred while encoding the value stay inside it
	e.deferred = append(e.deferred, nil)
	defer func() { e.deferred = e.deferred[:len(e.deferred)-1] }()
	var kb, vb []byte
	omitK := e.o.MapVariants && IsZero(kd, k) && e.coin(2, "omitkey")
	omitV := e.o.MapVariants && e.coin(2, "omitval") &&
		((vd.Message() == nil && IsZero(vd, v)) || (vd.Message() != nil && (v.M == nil || len(v.M.Fields) == 0 && len(v.M.Unknown) == 0)))
	if omitV && vd.Message() != nil && vd.Message().RequiredNumbers().Len() > 0 {
		omitV = false
	}
	if !omitK {
		kb = e.one(nil, kd, k)
	} else {
		e.label("map-omitted-key")
	}
	if !omitV {
		vb = e.one(nil, vd, v)
	} else {
		e.label("map-omitted-value")
	}
	var body []byte
	if e.o.MapVariants && e.coin(4, "valfirst") {
		body = append(append(body, vb...), kb...)
		e.label("map-value-before-key")
	} else {
		body = append(append(body, kb...), vb...)
	}
	body = append(body, e.deferred[len(e.deferred)-1]...)
	b = e.tag(b, num, 2)
	b = e.varint(b, uint64(len(body)))
	return append(b, body...)
}
