package model

import (
	"fmt"
	"sort"

	"google.golang.org/protobuf/reflect/protoreflect"
	"google.golang.org/protobuf/reflect/protoregistry"
)

// ApplyOpts selects representation variants that the data model does not distinguish
// (added for C30: proto.Equal must not see them either).
type ApplyOpts struct {
	// NilBytes stores every empty bytes value as a nil []byte instead of a non-nil empty one.
	NilBytes bool
	// Touch calls Mutable on every unpopulated list and map field and on every registered repeated
	// extension of every message in the tree: allocated-but-empty containers (in particular an
	// extension map entry holding an empty list) that leave the field unpopulated.
	Touch bool
}

// ApplyWith is Apply with representation variants.
func ApplyWith(m protoreflect.Message, v *Msg, r Resolver, o ApplyOpts) error {
	md := m.Descriptor()
	bytesVal := func(fd protoreflect.FieldDescriptor, x Val) protoreflect.Value {
		if o.NilBytes && fd.Kind() == protoreflect.BytesKind && len(x.B) == 0 {
			return protoreflect.ValueOfBytes(nil)
		}
		return ToValue(fd, x)
	}
	for _, f := range v.Fields {
		fd := FieldDesc(md, f.Num, r)
		if fd == nil {
			return fmt.Errorf("model.ApplyWith: %s has no field %d", md.FullName(), f.Num)
		}
		switch {
		case fd.IsMap():
			mp := m.Mutable(fd).Map()
			for i, k := range f.Keys {
				kv := ToValue(fd.MapKey(), k).MapKey()
				if fd.MapValue().Message() != nil {
					sub := mp.NewValue()
					if err := ApplyWith(sub.Message(), orEmpty(f.Vals[i].M), r, o); err != nil {
						return err
					}
					mp.Set(kv, sub)
				} else {
					mp.Set(kv, bytesVal(fd.MapValue(), f.Vals[i]))
				}
			}
		case fd.IsList():
			l := m.Mutable(fd).List()
			for _, e := range f.Vals {
				if fd.Message() != nil {
					sub := l.NewElement()
					if err := ApplyWith(sub.Message(), orEmpty(e.M), r, o); err != nil {
						return err
					}
					l.Append(sub)
				} else {
					l.Append(bytesVal(fd, e))
				}
			}
		case fd.Message() != nil:
			if err := ApplyWith(m.Mutable(fd).Message(), orEmpty(f.Vals[0].M), r, o); err != nil {
				return err
			}
		default:
			m.Set(fd, bytesVal(fd, f.Vals[0]))
		}
	}
	if len(v.Unknown) > 0 {
		m.SetUnknown(append(protoreflect.RawFields(nil), v.Unknown...))
	}
	if o.Touch {
		fs := md.Fields()
		for i := 0; i < fs.Len(); i++ {
			fd := fs.Get(i)
			if (fd.IsList() || fd.IsMap()) && v.Get(int32(fd.Number())) == nil {
				m.Mutable(fd)
			}
		}
		if md.ExtensionRanges().Len() > 0 {
			for _, xt := range ExtensionsOf(md.FullName()) {
				xd := xt.TypeDescriptor()
				if xd.IsList() && v.Get(int32(xd.Number())) == nil {
					m.Mutable(xd)
				}
			}
		}
	}
	return nil
}

func orEmpty(m *Msg) *Msg {
	if m == nil {
		return &Msg{}
	}
	return m
}

// ExtensionsOf lists the extension types registered in GlobalTypes for a message, by field number.
func ExtensionsOf(name protoreflect.FullName) []protoreflect.ExtensionType {
	var out []protoreflect.ExtensionType
	protoregistry.GlobalTypes.RangeExtensionsByMessage(name, func(xt protoreflect.ExtensionType) bool {
		out = append(out, xt)
		return true
	})
	sort.Slice(out, func(i, j int) bool { return out[i].TypeDescriptor().Number() < out[j].TypeDescriptor().Number() })
	return out
}
