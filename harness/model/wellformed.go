package model

import (
	"fmt"
	"unicode/utf8"

	"google.golang.org/protobuf/reflect/protoreflect"
	"google.golang.org/protobuf/zverif/ref"
)

// WellFormed is a reference *walker* (it builds nothing) deciding whether b is a well-formed
// encoding of a message of type md, the way the wire-format specification and the documented
// proto.Unmarshal contract say:
//
//   - every tag is a valid varint with field number in [1, 2^29-1] and a wire type in {0,1,2,3,4,5};
//   - an end-group tag is only legal as the terminator of the innermost open group, with its number;
//   - a field the schema knows, arriving with its declared wire type (or, for repeated scalars of
//     packable kinds, as a length-delimited packed run), must have a well-formed value: varints of at
//     most 10 bytes, fixed-width values complete, length prefixes within bounds, packed runs made of
//     whole elements, strings valid UTF-8 where the field requires validation, nested messages /
//     groups / map entries well-formed recursively;
//   - anything else (unknown number, unresolvable extension, known number with another wire type)
//     is an unknown field and only has to be a well-formed wire value (protowire's own rules,
//     including its 10000-level group nesting limit);
//   - every nested known message, group and map entry costs one level of the recursion limit;
//     the top-level message costs one as well.
//
// utf8Enforced reports whether a string field must hold valid UTF-8.
func WellFormed(md protoreflect.MessageDescriptor, b []byte, limit int, r Resolver, utf8Enforced func(protoreflect.FieldDescriptor) bool) (bool, string) {
	w := &walker{r: r, utf8: utf8Enforced}
	err := w.message(md, b, limit, 0, false)
	if err != nil {
		return false, err.Error()
	}
	return true, ""
}

type walker struct {
	r    Resolver
	utf8 func(protoreflect.FieldDescriptor) bool
}

type wfErr struct{ s string }

func (e *wfErr) Error() string { return e.s }
func bad(format string, a ...any) error {
	return &wfErr{fmt.Sprintf(format, a...)}
}

// message walks the fields of one message. If group != 0 the body ends at the matching
// end-group tag and consumed is the number of bytes up to and including it; otherwise the whole
// of b must be consumed.
func (w *walker) message(md protoreflect.MessageDescriptor, b []byte, depth int, group int64, inGroup bool) error {
	_, err := w.fields(md, b, depth, group, inGroup)
	return err
}

func (w *walker) fields(md protoreflect.MessageDescriptor, b []byte, depth int, group int64, inGroup bool) (int, error) {
	depth--
	if depth < 0 {
		return 0, bad("recursion limit exceeded")
	}
	pos := 0
	for pos < len(b) {
		v, n, d := ref.ConsumeVarint(b[pos:])
		if d != ref.OK {
			return 0, bad("tag varint %v at %d", d, pos)
		}
		num := int64(v >> 3)
		typ := int(v & 7)
		if v>>3 < 1 || v>>3 > 1<<29-1 {
			return 0, bad("field number %d out of range at %d", v>>3, pos)
		}
		pos += n
		if typ == 4 {
			if !inGroup || num != group {
				return 0, bad("unexpected end group %d at %d", num, pos)
			}
			return pos, nil
		}
		fd := FieldDesc(md, int32(num), w.r)
		m, err := w.value(fd, num, typ, b[pos:], depth)
		if err != nil {
			return 0, err
		}
		pos += m
	}
	if inGroup {
		return 0, bad("missing end group %d", group)
	}
	return pos, nil
}

func kindWire(k Kind) int { return wireType(k) }

// value walks one field value (after its tag) and returns its length.
func (w *walker) value(fd protoreflect.FieldDescriptor, num int64, typ int, b []byte, depth int) (int, error) {
	if fd != nil {
		switch {
		case fd.IsMap():
			if typ == 2 {
				l, n, d := ref.ConsumeVarint(b)
				if d != ref.OK || l > uint64(len(b)-n) {
					return 0, bad("map entry length (%v)", d)
				}
				if err := w.mapEntry(fd, b[n:n+int(l)], depth); err != nil {
					return 0, err
				}
				return n + int(l), nil
			}
		case fd.IsList() && packable(fd.Kind()) && typ == 2:
			l, n, d := ref.ConsumeVarint(b)
			if d != ref.OK || l > uint64(len(b)-n) {
				return 0, bad("packed length (%v)", d)
			}
			if err := w.packed(fd.Kind(), b[n:n+int(l)]); err != nil {
				return 0, err
			}
			return n + int(l), nil
		case typ == kindWire(fd.Kind()):
			return w.known(fd, num, b, depth)
		}
	}
	// unknown field (or known number with a wire type the field does not accept)
	n, d := ref.ConsumeValue(num, typ, b, ref.DefaultDepth)
	if d != ref.OK {
		return 0, bad("unknown field %d wire type %d: %v", num, typ, d)
	}
	return n, nil
}

func (w *walker) known(fd protoreflect.FieldDescriptor, num int64, b []byte, depth int) (int, error) {
	switch fd.Kind() {
	case protoreflect.GroupKind:
		n, err := w.fields(fd.Message(), b, depth, num, true)
		return n, err
	case protoreflect.MessageKind:
		l, n, d := ref.ConsumeVarint(b)
		if d != ref.OK || l > uint64(len(b)-n) {
			return 0, bad("message length of field %d (%v)", num, d)
		}
		if err := w.message(fd.Message(), b[n:n+int(l)], depth, 0, false); err != nil {
			return 0, err
		}
		return n + int(l), nil
	case protoreflect.StringKind:
		l, n, d := ref.ConsumeVarint(b)
		if d != ref.OK || l > uint64(len(b)-n) {
			return 0, bad("string length of field %d (%v)", num, d)
		}
		if w.utf8 != nil && w.utf8(fd) && !utf8.Valid(b[n:n+int(l)]) {
			return 0, bad("invalid UTF-8 in field %s", fd.FullName())
		}
		return n + int(l), nil
	}
	n, d := ref.ConsumeValue(num, kindWire(fd.Kind()), b, 0)
	if d != ref.OK {
		return 0, bad("field %d: %v", num, d)
	}
	return n, nil
}

func (w *walker) packed(k Kind, b []byte) error {
	for len(b) > 0 {
		n, d := ref.ConsumeValue(1, kindWire(k), b, 0)
		if d != ref.OK {
			return bad("packed element: %v", d)
		}
		b = b[n:]
	}
	return nil
}

func (w *walker) mapEntry(fd protoreflect.FieldDescriptor, b []byte, depth int) error {
	depth--
	if depth < 0 {
		return bad("recursion limit exceeded (map entry)")
	}
	pos := 0
	for pos < len(b) {
		v, n, d := ref.ConsumeVarint(b[pos:])
		if d != ref.OK {
			return bad("map entry tag: %v", d)
		}
		if v>>3 < 1 || v>>3 > 1<<29-1 {
			return bad("map entry field number %d out of range", v>>3)
		}
		num, typ := int64(v>>3), int(v&7)
		pos += n
		var sub protoreflect.FieldDescriptor
		switch num {
		case 1:
			sub = fd.MapKey()
		case 2:
			sub = fd.MapValue()
		}
		var m int
		var err error
		if sub != nil && typ == kindWire(sub.Kind()) {
			m, err = w.known(sub, num, b[pos:], depth)
		} else {
			var dd ref.Defect
			m, dd = ref.ConsumeValue(num, typ, b[pos:], ref.DefaultDepth)
			if dd != ref.OK {
				err = bad("map entry unknown field %d: %v", num, dd)
			}
		}
		if err != nil {
			return err
		}
		pos += m
	}
	return nil
}
