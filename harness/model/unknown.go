package model

import (
	"bytes"
	"fmt"
	"sort"

	"google.golang.org/protobuf/zverif/ref"
)

// diffUnknown compares two unknown-field sets per field number (order between different numbers
// is irrelevant, order within one number matters), after normalising tag varints: the fast path
// re-encodes an unknown field's tag in shortest form while the reflection path keeps raw bytes.
func diffUnknown(a, b []byte) string {
	ra, oka := ref.Split(a)
	rb, okb := ref.Split(b)
	if !oka || !okb {
		if !bytes.Equal(a, b) {
			return fmt.Sprintf("unknown bytes differ (unsplittable): %x vs %x", a, b)
		}
		return ""
	}
	ga, gb := groupByNum(ra), groupByNum(rb)
	var keys []int64
	for k := range ga {
		keys = append(keys, k)
	}
	for k := range gb {
		if _, ok := ga[k]; !ok {
			keys = append(keys, k)
		}
	}
	sort.Slice(keys, func(i, j int) bool { return keys[i] < keys[j] })
	for _, k := range keys {
		if !bytes.Equal(ga[k], gb[k]) {
			return fmt.Sprintf("unknown field %d differs: %x vs %x", k, ga[k], gb[k])
		}
	}
	return ""
}

func groupByNum(rs []ref.Record) map[int64][]byte {
	g := map[int64][]byte{}
	for _, r := range rs {
		g[r.Num] = append(g[r.Num], byte(r.Typ))
		g[r.Num] = append(g[r.Num], r.Val...)
	}
	return g
}

// NormalizeUnknown re-encodes every top-level tag of a well-formed field sequence in shortest
// form (values untouched). Malformed input is returned unchanged.
func NormalizeUnknown(b []byte) []byte {
	rs, ok := ref.Split(b)
	if !ok {
		return b
	}
	var out []byte
	for _, r := range rs {
		out = ref.Tag(out, r.Num, r.Typ)
		out = append(out, r.Val...)
	}
	return out
}
