package model

import (
	"bytes"
	"fmt"
	"sort"

	"google.golang.org/protobuf/reflect/protoreflect"

	"google.golang.org/protobuf/zverif/ref"
)

// diffUnknown compares two unknown-field sets per field number (order between different numbers
// is irrelevant, order within one number matters), after normalising tag varints: the fast path
// re-encodes an unknown field's tag in shortest form while the reflection path keeps raw bytes.
func diffUnknown(a, b []byte) string {
	ra, oka := ref.Split(a)
	rb, okb := ref.Split(b)
	if !oka || !okb {
		if !bytes.Equal(a, b) {
			return fmt.Sprintf("unknown bytes differ (unsplittable): %x vs %x", a, b)
		}
		return ""
	}
	ga, gb := groupByNum(ra), groupByNum(rb)
	var keys []int64
	for k := range ga {
		keys = append(keys, k)
	}
	for k := range gb {
		if _, ok := ga[k]; !ok {
			keys = append(keys, k)
		}
	}
	sort.Slice(keys, func(i, j int) bool { return keys[i] < keys[j] })
	for _, k := range keys {
		if !bytes.Equal(ga[k], gb[k]) {
			return fmt.Sprintf("unknown field %d differs: %x vs %x", k, ga[k], gb[k])
		}
	}
	return ""
}

func groupByNum(rs []ref.Record) map[int64][]byte {
	g := map[int64][]byte{}
	for _, r := range rs {
		g[r.Num] = append(g[r.Num], byte(r.Typ))
		g[r.Num] = append(g[r.Num], r.Val...)
	}
	return g
}

// NormalizeUnknown re-encodes every top-level tag of a well-formed field sequence in shortest
// form (values untouched). Malformed input is returned unchanged.
func NormalizeUnknown(b []byte) []byte {
	rs, ok := ref.Split(b)
	if !ok {
		return b
	}
	var out []byte
	for _, r := range rs {
		out = ref.Tag(out, r.Num, r.Typ)
		out = append(out, r.Val...)
	}
	return out
}

// NormalizeDeep re-encodes, at every level of known message nesting, each record's tag in
// shortest form (and the length prefixes of the nested messages it rewrites). Payloads of unknown
// fields and scalar values are untouched. This is the "unknown-field tag normalization" under which
// the table-driven and the reflection-based marshalers must produce identical bytes.
func NormalizeDeep(md protoreflect.MessageDescriptor, b []byte, r Resolver) []byte {
	rs, ok := ref.Split(b)
	if !ok {
		return b
	}
	var out []byte
	for _, rec := range rs {
		fd := FieldDesc(md, int32(rec.Num), r)
		out = ref.Tag(out, rec.Num, rec.Typ)
		var sub protoreflect.MessageDescriptor
		if fd != nil {
			sub = fd.Message()
			if fd.IsMap() {
				sub = fd.Message() // the entry message
			}
		}
		switch {
		case sub != nil && rec.Typ == 2 && fd.Kind() != protoreflect.GroupKind:
			p := NormalizeDeep(sub, rec.Payload(), r)
			out = ref.Varint(out, uint64(len(p)))
			out = append(out, p...)
		case sub != nil && rec.Typ == 3 && fd.Kind() == protoreflect.GroupKind:
			endLen := len(rec.Val) - groupBodyLen(rec.Num, rec.Val)
			body := rec.Val[:len(rec.Val)-endLen]
			out = append(out, NormalizeDeep(sub, body, r)...)
			out = ref.Tag(out, rec.Num, 4)
		default:
			out = append(out, rec.Val...)
		}
	}
	return out
}

// groupBodyLen returns the length of the body of a group value (bytes before its end tag).
func groupBodyLen(num int64, val []byte) int {
	pos := 0
	for pos < len(val) {
		n2, typ, n, d := ref.ConsumeTag(val[pos:])
		if d != ref.OK {
			return len(val)
		}
		if typ == 4 && n2 == num {
			return pos
		}
		m, d := ref.ConsumeValue(n2, typ, val[pos+n:], ref.DefaultDepth)
		if d != ref.OK {
			return len(val)
		}
		pos += n + m
	}
	return len(val)
}
