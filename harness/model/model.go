// Package model is the abstract protobuf message model used as oracle: plain Go data keyed by
// field number, with apply (model -> message through protoreflect), snapshot (message -> model),
// equality, merge, initialisation check and an independent wire encoder. Nothing here calls
// proto.Marshal/Unmarshal/Equal/Merge.
package model

import (
	"bytes"
	"fmt"
	"math"
	"sort"

	"google.golang.org/protobuf/reflect/protoreflect"
	"google.golang.org/protobuf/reflect/protoregistry"
)

type (
	Kind = protoreflect.Kind
)

// Val is one value. Numeric kinds keep their bits in U: integers sign-extended to 64 bits,
// bool 0/1, enum number sign-extended, float32 bits in the low 32 bits, float64 bits.
// string/bytes keep content in B; message/group in M.
type Val struct {
	U uint64 `json:"u,omitempty"`
	B []byte `json:"b,omitempty"`
	M *Msg   `json:"m,omitempty"`
}

// Field is a populated field. Singular: len(Vals)==1, Keys nil. List: len(Vals)>=1.
// Map: Keys parallel to Vals, keys unique.
type Field struct {
	Num  int32 `json:"n"`
	Vals []Val `json:"v"`
	Keys []Val `json:"k,omitempty"`
}

type Msg struct {
	Fields  []Field `json:"f,omitempty"`
	Unknown []byte  `json:"x,omitempty"`
}

func (m *Msg) Get(num int32) *Field {
	if m == nil {
		return nil
	}
	for i := range m.Fields {
		if m.Fields[i].Num == num {
			return &m.Fields[i]
		}
	}
	return nil
}

func (m *Msg) Del(num int32) {
	for i := range m.Fields {
		if m.Fields[i].Num == num {
			m.Fields = append(m.Fields[:i:i], m.Fields[i+1:]...)
			return
		}
	}
}

func (m *Msg) Put(f Field) {
	if g := m.Get(f.Num); g != nil {
		*g = f
		return
	}
	m.Fields = append(m.Fields, f)
}

// Clone deep-copies.
func (m *Msg) Clone() *Msg {
	if m == nil {
		return nil
	}
	o := &Msg{Unknown: append([]byte(nil), m.Unknown...)}
	for _, f := range m.Fields {
		o.Fields = append(o.Fields, f.clone())
	}
	return o
}

func (f Field) clone() Field {
	g := Field{Num: f.Num}
	for _, v := range f.Vals {
		g.Vals = append(g.Vals, v.clone())
	}
	for _, k := range f.Keys {
		g.Keys = append(g.Keys, k.clone())
	}
	return g
}

func (v Val) clone() Val {
	return Val{U: v.U, B: append([]byte(nil), v.B...), M: v.M.Clone()}
}

// Resolver finds extension fields for a message.
type Resolver interface {
	FindExtensionByNumber(message protoreflect.FullName, field protoreflect.FieldNumber) (protoreflect.ExtensionType, error)
}

var DefaultResolver Resolver = protoregistry.GlobalTypes

// FieldDesc resolves a field number of md: declared field or registered extension.
func FieldDesc(md protoreflect.MessageDescriptor, num int32, r Resolver) protoreflect.FieldDescriptor {
	if fd := md.Fields().ByNumber(protoreflect.FieldNumber(num)); fd != nil {
		return fd
	}
	if r == nil {
		r = DefaultResolver
	}
	if md.ExtensionRanges().Has(protoreflect.FieldNumber(num)) {
		if xt, err := r.FindExtensionByNumber(md.FullName(), protoreflect.FieldNumber(num)); err == nil {
			return xt.TypeDescriptor()
		}
	}
	return nil
}

// ---------------------------------------------------------------------------------------------
// conversion between model values and protoreflect values

func ToValue(fd protoreflect.FieldDescriptor, v Val) protoreflect.Value {
	switch fd.Kind() {
	case protoreflect.BoolKind:
		return protoreflect.ValueOfBool(v.U != 0)
	case protoreflect.EnumKind:
		return protoreflect.ValueOfEnum(protoreflect.EnumNumber(int32(v.U)))
	case protoreflect.Int32Kind, protoreflect.Sint32Kind, protoreflect.Sfixed32Kind:
		return protoreflect.ValueOfInt32(int32(v.U))
	case protoreflect.Uint32Kind, protoreflect.Fixed32Kind:
		return protoreflect.ValueOfUint32(uint32(v.U))
	case protoreflect.Int64Kind, protoreflect.Sint64Kind, protoreflect.Sfixed64Kind:
		return protoreflect.ValueOfInt64(int64(v.U))
	case protoreflect.Uint64Kind, protoreflect.Fixed64Kind:
		return protoreflect.ValueOfUint64(v.U)
	case protoreflect.FloatKind:
		return protoreflect.ValueOfFloat32(math.Float32frombits(uint32(v.U)))
	case protoreflect.DoubleKind:
		return protoreflect.ValueOfFloat64(math.Float64frombits(v.U))
	case protoreflect.StringKind:
		return protoreflect.ValueOfString(string(v.B))
	case protoreflect.BytesKind:
		return protoreflect.ValueOfBytes(append([]byte{}, v.B...))
	}
	panic("model.ToValue: composite kind")
}

func FromValue(fd protoreflect.FieldDescriptor, pv protoreflect.Value) Val {
	switch fd.Kind() {
	case protoreflect.BoolKind:
		if pv.Bool() {
			return Val{U: 1}
		}
		return Val{}
	case protoreflect.EnumKind:
		return Val{U: uint64(int64(pv.Enum()))}
	case protoreflect.Int32Kind, protoreflect.Sint32Kind, protoreflect.Sfixed32Kind,
		protoreflect.Int64Kind, protoreflect.Sint64Kind, protoreflect.Sfixed64Kind:
		return Val{U: uint64(pv.Int())}
	case protoreflect.Uint32Kind, protoreflect.Fixed32Kind, protoreflect.Uint64Kind, protoreflect.Fixed64Kind:
		return Val{U: pv.Uint()}
	case protoreflect.FloatKind:
		return Val{U: uint64(math.Float32bits(float32(pv.Float())))}
	case protoreflect.DoubleKind:
		return Val{U: math.Float64bits(pv.Float())}
	case protoreflect.StringKind:
		return Val{B: []byte(pv.String())}
	case protoreflect.BytesKind:
		return Val{B: append([]byte(nil), pv.Bytes()...)}
	case protoreflect.MessageKind, protoreflect.GroupKind:
		return Val{M: SnapshotR(pv.Message(), nil)}
	}
	panic("model.FromValue: unknown kind")
}

// Apply writes the model value into m through the protoreflect API (m should be empty for
// an exact realisation; on a non-empty message it behaves like assignment of the listed fields).
func Apply(m protoreflect.Message, v *Msg, r Resolver) error {
	md := m.Descriptor()
	for _, f := range v.Fields {
		fd := FieldDesc(md, f.Num, r)
		if fd == nil {
			return fmt.Errorf("model.Apply: %s has no field %d", md.FullName(), f.Num)
		}
		switch {
		case fd.IsMap():
			mp := m.Mutable(fd).Map()
			for i, k := range f.Keys {
				kv := ToValue(fd.MapKey(), k).MapKey()
				if fd.MapValue().Message() != nil {
					sub := mp.NewValue()
					if err := Apply(sub.Message(), f.Vals[i].M, r); err != nil {
						return err
					}
					mp.Set(kv, sub)
				} else {
					mp.Set(kv, ToValue(fd.MapValue(), f.Vals[i]))
				}
			}
		case fd.IsList():
			l := m.Mutable(fd).List()
			for _, e := range f.Vals {
				if fd.Message() != nil {
					sub := l.NewElement()
					if err := Apply(sub.Message(), e.M, r); err != nil {
						return err
					}
					l.Append(sub)
				} else {
					l.Append(ToValue(fd, e))
				}
			}
		case fd.Message() != nil:
			sub := m.Mutable(fd).Message()
			if err := Apply(sub, f.Vals[0].M, r); err != nil {
				return err
			}
		default:
			m.Set(fd, ToValue(fd, f.Vals[0]))
		}
	}
	if len(v.Unknown) > 0 {
		m.SetUnknown(append(protoreflect.RawFields(nil), v.Unknown...))
	}
	return nil
}

// Snapshot reads a message back into the model using Range/Get only; fields sorted by number,
// map entries sorted by key. Extensions are included under their field number.
func Snapshot(m protoreflect.Message) *Msg { return SnapshotR(m, nil) }

func SnapshotR(m protoreflect.Message, _ Resolver) *Msg {
	out := &Msg{}
	if !m.IsValid() {
		return out
	}
	m.Range(func(fd protoreflect.FieldDescriptor, pv protoreflect.Value) bool {
		f := Field{Num: int32(fd.Number())}
		switch {
		case fd.IsMap():
			pv.Map().Range(func(k protoreflect.MapKey, v protoreflect.Value) bool {
				f.Keys = append(f.Keys, FromValue(fd.MapKey(), k.Value()))
				f.Vals = append(f.Vals, FromValue(fd.MapValue(), v))
				return true
			})
			sortMap(fd.MapKey().Kind(), &f)
		case fd.IsList():
			l := pv.List()
			for i := 0; i < l.Len(); i++ {
				f.Vals = append(f.Vals, FromValue(fd, l.Get(i)))
			}
		default:
			f.Vals = []Val{FromValue(fd, pv)}
		}
		out.Fields = append(out.Fields, f)
		return true
	})
	sort.Slice(out.Fields, func(i, j int) bool { return out.Fields[i].Num < out.Fields[j].Num })
	out.Unknown = append([]byte(nil), m.GetUnknown()...)
	return out
}

func keyLess(k Kind, a, b Val) bool {
	switch k {
	case protoreflect.StringKind:
		return bytes.Compare(a.B, b.B) < 0
	case protoreflect.Int32Kind, protoreflect.Sint32Kind, protoreflect.Sfixed32Kind,
		protoreflect.Int64Kind, protoreflect.Sint64Kind, protoreflect.Sfixed64Kind:
		return int64(a.U) < int64(b.U)
	default:
		return a.U < b.U
	}
}

func sortMap(k Kind, f *Field) {
	idx := make([]int, len(f.Keys))
	for i := range idx {
		idx[i] = i
	}
	sort.SliceStable(idx, func(i, j int) bool { return keyLess(k, f.Keys[idx[i]], f.Keys[idx[j]]) })
	keys, vals := make([]Val, len(idx)), make([]Val, len(idx))
	for i, j := range idx {
		keys[i], vals[i] = f.Keys[j], f.Vals[j]
	}
	f.Keys, f.Vals = keys, vals
}

// Canon returns a canonical copy: fields sorted by number, map entries deduplicated
// (last wins) and sorted by key, recursively.
func Canon(md protoreflect.MessageDescriptor, v *Msg, r Resolver) *Msg {
	if v == nil {
		return &Msg{}
	}
	out := &Msg{Unknown: append([]byte(nil), v.Unknown...)}
	for _, f := range v.Fields {
		fd := FieldDesc(md, f.Num, r)
		g := Field{Num: f.Num}
		if fd == nil {
			g = f.clone()
		} else if fd.IsMap() {
			last := map[string]int{}
			for i, k := range f.Keys {
				last[fmt.Sprintf("%d|%x", k.U, k.B)] = i
			}
			for i, k := range f.Keys {
				if last[fmt.Sprintf("%d|%x", k.U, k.B)] != i {
					continue
				}
				g.Keys = append(g.Keys, k.clone())
				g.Vals = append(g.Vals, canonVal(fd.MapValue(), f.Vals[i], r))
			}
			sortMap(fd.MapKey().Kind(), &g)
		} else {
			for _, e := range f.Vals {
				g.Vals = append(g.Vals, canonVal(fd, e, r))
			}
		}
		out.Fields = append(out.Fields, g)
	}
	sort.SliceStable(out.Fields, func(i, j int) bool { return out.Fields[i].Num < out.Fields[j].Num })
	return out
}

func canonVal(fd protoreflect.FieldDescriptor, v Val, r Resolver) Val {
	if fd.Message() != nil {
		return Val{M: Canon(fd.Message(), v.M, r)}
	}
	return Val{U: v.U, B: append([]byte(nil), v.B...)}
}

// ---------------------------------------------------------------------------------------------
// equality (the documented proto.Equal contract, implemented on the model)

// EqualOpts tunes Equal.
type EqualOpts struct {
	IgnoreUnknown bool
	// BitwiseFloats compares float bits exactly except that all NaNs are one class
	// (round-trip oracle); otherwise floats compare by value (== plus NaN==NaN), as proto.Equal.
	BitwiseFloats bool
}

// Diff returns "" when a and b are equal models of md, else a description of the first difference.
// Both are canonicalised first.
func Diff(md protoreflect.MessageDescriptor, a, b *Msg, o EqualOpts, r Resolver) string {
	return diff(md, Canon(md, a, r), Canon(md, b, r), o, r, string(md.Name()))
}

func diff(md protoreflect.MessageDescriptor, a, b *Msg, o EqualOpts, r Resolver, path string) string {
	if len(a.Fields) != len(b.Fields) {
		return fmt.Sprintf("%s: populated fields %v vs %v", path, nums(a), nums(b))
	}
	for i := range a.Fields {
		fa, fb := a.Fields[i], b.Fields[i]
		if fa.Num != fb.Num {
			return fmt.Sprintf("%s: populated fields %v vs %v", path, nums(a), nums(b))
		}
		fd := FieldDesc(md, fa.Num, r)
		if fd == nil {
			return fmt.Sprintf("%s: field %d not resolvable", path, fa.Num)
		}
		p := fmt.Sprintf("%s.%s", path, fd.Name())
		if len(fa.Vals) != len(fb.Vals) {
			return fmt.Sprintf("%s: %d vs %d elements", p, len(fa.Vals), len(fb.Vals))
		}
		if fd.IsMap() {
			for j := range fa.Keys {
				if d := diffVal(fd.MapKey(), fa.Keys[j], fb.Keys[j], o, r, p+"[key]"); d != "" {
					return d
				}
				if d := diffVal(fd.MapValue(), fa.Vals[j], fb.Vals[j], o, r, fmt.Sprintf("%s[%d|%q]", p, fa.Keys[j].U, fa.Keys[j].B)); d != "" {
					return d
				}
			}
			continue
		}
		for j := range fa.Vals {
			if d := diffVal(fd, fa.Vals[j], fb.Vals[j], o, r, fmt.Sprintf("%s[%d]", p, j)); d != "" {
				return d
			}
		}
	}
	if !o.IgnoreUnknown {
		if d := diffUnknown(a.Unknown, b.Unknown); d != "" {
			return path + ": " + d
		}
	}
	return ""
}

func nums(m *Msg) []int32 {
	var out []int32
	for _, f := range m.Fields {
		out = append(out, f.Num)
	}
	return out
}

func diffVal(fd protoreflect.FieldDescriptor, a, b Val, o EqualOpts, r Resolver, path string) string {
	switch fd.Kind() {
	case protoreflect.MessageKind, protoreflect.GroupKind:
		am, bm := a.M, b.M
		if am == nil {
			am = &Msg{}
		}
		if bm == nil {
			bm = &Msg{}
		}
		return diff(fd.Message(), am, bm, o, r, path)
	case protoreflect.StringKind, protoreflect.BytesKind:
		if !bytes.Equal(a.B, b.B) {
			return fmt.Sprintf("%s: %q vs %q", path, a.B, b.B)
		}
	case protoreflect.FloatKind:
		x, y := math.Float32frombits(uint32(a.U)), math.Float32frombits(uint32(b.U))
		if x != x && y != y {
			return ""
		}
		if o.BitwiseFloats && uint32(a.U) != uint32(b.U) || !o.BitwiseFloats && x != y {
			return fmt.Sprintf("%s: float32 bits %#08x vs %#08x", path, uint32(a.U), uint32(b.U))
		}
	case protoreflect.DoubleKind:
		x, y := math.Float64frombits(a.U), math.Float64frombits(b.U)
		if x != x && y != y {
			return ""
		}
		if o.BitwiseFloats && a.U != b.U || !o.BitwiseFloats && x != y {
			return fmt.Sprintf("%s: float64 bits %#016x vs %#016x", path, a.U, b.U)
		}
	default:
		if a.U != b.U {
			return fmt.Sprintf("%s: %d vs %d", path, int64(a.U), int64(b.U))
		}
	}
	return ""
}

// ---------------------------------------------------------------------------------------------
// presence / zero values

// IsZero reports whether v is the zero value of a scalar field (bit-exact: -0.0 is not zero).
func IsZero(fd protoreflect.FieldDescriptor, v Val) bool {
	switch fd.Kind() {
	case protoreflect.StringKind, protoreflect.BytesKind:
		return len(v.B) == 0
	case protoreflect.MessageKind, protoreflect.GroupKind:
		return false
	case protoreflect.FloatKind:
		return uint32(v.U) == 0
	default:
		return v.U == 0
	}
}

// Initialized implements "no required field is unset anywhere in the tree".
func Initialized(md protoreflect.MessageDescriptor, v *Msg, r Resolver) bool {
	if v == nil {
		v = &Msg{}
	}
	req := md.RequiredNumbers()
	for i := 0; i < req.Len(); i++ {
		if v.Get(int32(req.Get(i))) == nil {
			return false
		}
	}
	for _, f := range v.Fields {
		fd := FieldDesc(md, f.Num, r)
		if fd == nil {
			continue
		}
		sub := fd.Message()
		if fd.IsMap() {
			sub = fd.MapValue().Message()
		}
		if sub == nil {
			continue
		}
		for _, e := range f.Vals {
			if !Initialized(sub, e.M, r) {
				return false
			}
		}
	}
	return true
}

// RequiredSet is an independent variant of Initialized that does not use RequiredNumbers():
// it looks at each field's cardinality.
func RequiredSet(md protoreflect.MessageDescriptor, v *Msg, r Resolver) bool {
	if v == nil {
		v = &Msg{}
	}
	fs := md.Fields()
	for i := 0; i < fs.Len(); i++ {
		fd := fs.Get(i)
		if fd.Cardinality() == protoreflect.Required && v.Get(int32(fd.Number())) == nil {
			return false
		}
	}
	for _, f := range v.Fields {
		fd := FieldDesc(md, f.Num, r)
		if fd == nil {
			continue
		}
		sub := fd.Message()
		if fd.IsMap() {
			sub = fd.MapValue().Message()
		}
		if sub == nil {
			continue
		}
		for _, e := range f.Vals {
			if !RequiredSet(sub, e.M, r) {
				return false
			}
		}
	}
	return true
}

// ---------------------------------------------------------------------------------------------
// merge (the documented proto.Merge semantics, on the model)

func Merge(md protoreflect.MessageDescriptor, dst, src *Msg, r Resolver) *Msg {
	out := dst.Clone()
	if out == nil {
		out = &Msg{}
	}
	if src == nil {
		return out
	}
	for _, f := range src.Fields {
		fd := FieldDesc(md, f.Num, r)
		if fd == nil {
			continue
		}
		// a oneof member replaces any other active member
		if od := fd.ContainingOneof(); od != nil {
			for i := 0; i < od.Fields().Len(); i++ {
				if n := int32(od.Fields().Get(i).Number()); n != f.Num {
					out.Del(n)
				}
			}
		}
		cur := out.Get(f.Num)
		switch {
		case fd.IsMap():
			if cur == nil {
				out.Put(f.clone())
				continue
			}
			for i, k := range f.Keys {
				found := false
				for j, ck := range cur.Keys {
					if ck.U == k.U && bytes.Equal(ck.B, k.B) {
						cur.Vals[j] = f.Vals[i].clone() // upsert replaces the whole value
						found = true
					}
				}
				if !found {
					cur.Keys = append(cur.Keys, k.clone())
					cur.Vals = append(cur.Vals, f.Vals[i].clone())
				}
			}
		case fd.IsList():
			if cur == nil {
				out.Put(f.clone())
				continue
			}
			for _, e := range f.Vals {
				cur.Vals = append(cur.Vals, e.clone())
			}
		case fd.Message() != nil:
			if cur == nil {
				out.Put(f.clone())
				continue
			}
			cur.Vals[0] = Val{M: Merge(fd.Message(), cur.Vals[0].M, f.Vals[0].M, r)}
		default:
			out.Put(f.clone())
		}
	}
	out.Unknown = append(out.Unknown, src.Unknown...)
	return out
}

// Normalize drops singular implicit-presence scalar fields holding their zero value (they are
// "not populated" by the presence rules), recursively; used after a value was edited in place.
func Normalize(md protoreflect.MessageDescriptor, v *Msg, r Resolver) *Msg {
	if v == nil {
		return nil
	}
	out := &Msg{Unknown: v.Unknown}
	for _, f := range v.Fields {
		fd := FieldDesc(md, f.Num, r)
		if fd == nil {
			out.Fields = append(out.Fields, f)
			continue
		}
		if !fd.IsList() && !fd.IsMap() && fd.Message() == nil && !fd.HasPresence() && len(f.Vals) == 1 && IsZero(fd, f.Vals[0]) {
			continue
		}
		sub := fd.Message()
		if fd.IsMap() {
			sub = fd.MapValue().Message()
		}
		g := Field{Num: f.Num, Keys: f.Keys}
		for _, x := range f.Vals {
			if sub != nil {
				g.Vals = append(g.Vals, Val{M: Normalize(sub, x.M, r)})
			} else {
				g.Vals = append(g.Vals, x)
			}
		}
		out.Fields = append(out.Fields, g)
	}
	return out
}

// Diff1 compares two scalar values of field fd bit-exactly (all NaNs one class).
func Diff1(fd protoreflect.FieldDescriptor, a, b Val) string {
	return diffVal(fd, a, b, EqualOpts{BitwiseFloats: true}, nil, string(fd.Name()))
}

// DiffUnknownRaw compares unknown bytes exactly (what SetUnknown stored must be what GetUnknown returns).
func DiffUnknownRaw(want []byte, got []byte) string {
	if !bytes.Equal(want, got) {
		return fmt.Sprintf("unknown bytes %x, want %x", got, want)
	}
	return ""
}
