package c17

// Leg "legacy" (-tags verif,protolegacy): lazily decoded EXTENSION fields.
//
// With flags.LazyUnmarshalExtensions (= protolegacy) proto.Unmarshal keeps every message / group
// typed extension whose payload validates as initialised in wire form (ExtensionField.lazy) and
// expands it on first access; Size / Marshal copy the retained bytes. The twin oracle of TestTwin is
// applied to extendable messages: message l is decoded with default options, message e with
// NoLazyDecoding; after every step of a drawn history both must show the same observations, and
// the final state must be the one the model computes.

import (
	"bytes"
	"encoding/json"
	"fmt"
	"os"
	"sort"
	"strings"
	"testing"

	"google.golang.org/protobuf/encoding/protojson"
	"google.golang.org/protobuf/encoding/prototext"
	"google.golang.org/protobuf/internal/flags"
	"google.golang.org/protobuf/internal/impl"
	"google.golang.org/protobuf/proto"
	"google.golang.org/protobuf/reflect/protoreflect"
	"google.golang.org/protobuf/reflect/protoregistry"
	"google.golang.org/protobuf/zverif/gen"
	"google.golang.org/protobuf/zverif/mcase"
	"google.golang.org/protobuf/zverif/model"
	"google.golang.org/protobuf/zverif/ops"
	"google.golang.org/protobuf/zverif/pbt"
	"google.golang.org/protobuf/zverif/ref"
	"pgregory.net/rapid"
)

var leg = os.Getenv("VERIF_LEG")

// xstep kinds:
//
//	reads   has | get | range (Path [+ Num]; Flag 1: through proto.HasExtension / GetExtension / RangeExtensions)
//	        size | marshal (Flag 1: MarshalAppend) | detmarshal | equal (Flag 1: against a clone) | clone (Flag 1: continue with the clones)
//	        checkinit | json | text | mergefrom (Flag 1: into a lazily decoded destination, Raw/Src)
//	writes  ops kinds (Flag 1 on set / clear of an extension: proto.SetExtension / ClearExtension)
//	        mergeinto (Src; Flag 1: the source is decoded from Raw, lazily for l) | reset | reunmarshal | mergedecode (Raw, Src)
type xstep struct {
	ops.Op
	Src  *model.Msg `json:"src,omitempty"`
	Flag int        `json:"flag,omitempty"`
}

type extCase struct {
	Type         string
	M            *model.Msg // content (nil when the input is a corruption)
	In           []byte
	Labels       []string
	Corrupt      string
	AllowPartial bool
	Limit        int `json:",omitempty"` // UnmarshalOptions.RecursionLimit (0: default)
	Steps        []xstep
}

// ---------------------------------------------------------------------------------------------
// observations

func extTypeOf(fd protoreflect.FieldDescriptor) protoreflect.ExtensionType {
	if xd, ok := fd.(protoreflect.ExtensionTypeDescriptor); ok {
		return xd.Type()
	}
	return nil
}

// obsAny renders a value completely (lists element by element).
func obsAny(fd protoreflect.FieldDescriptor, v protoreflect.Value) string {
	one := func(x protoreflect.Value) string {
		if fd.Message() != nil {
			js, _ := json.Marshal(model.Canon(fd.Message(), model.Snapshot(x.Message()), nil))
			return fmt.Sprintf("msg-valid-%v-%s", x.Message().IsValid(), js)
		}
		return fmt.Sprintf("%+v", model.FromValue(fd, x))
	}
	if fd.IsList() {
		var sb strings.Builder
		l := v.List()
		fmt.Fprintf(&sb, "list-%d", l.Len())
		for i := 0; i < l.Len(); i++ {
			sb.WriteString("|" + one(l.Get(i)))
		}
		return sb.String()
	}
	return one(v)
}

func obsRange(m protoreflect.Message, viaProto bool) string {
	var out []string
	f := func(fd protoreflect.FieldDescriptor, v protoreflect.Value) bool {
		if fd.IsMap() {
			out = append(out, fmt.Sprintf("%09d=map-%d", fd.Number(), v.Map().Len()))
		} else {
			out = append(out, fmt.Sprintf("%09d=%s", fd.Number(), obsAny(fd, v)))
		}
		return true
	}
	if viaProto {
		proto.RangeExtensions(m.Interface(), func(xt protoreflect.ExtensionType, v any) bool {
			return f(xt.TypeDescriptor(), xt.ValueOf(v))
		})
	} else {
		m.Range(f)
	}
	sort.Strings(out)
	return strings.Join(out, ";")
}

// lazyNow counts the extensions of m (top level, and one level down through populated singular
// message extensions that are already expanded is NOT attempted: looking would expand) that are
// still held in wire form. impl.IsLazy is the accessor /repo exports for its own tests.
func lazyNow(m protoreflect.Message) int {
	n := 0
	for _, xt := range extsOf(m.Descriptor()) {
		if impl.IsLazy(m, xt.TypeDescriptor()) {
			n++
		}
	}
	return n
}

// lazyBelow looks for unexpanded extensions in messages reached through declared singular message
// fields (two levels; reading a declared field does not touch the extension map).
func lazyBelow(m protoreflect.Message, depth int) int {
	n := 0
	if depth == 0 || !m.IsValid() {
		return 0
	}
	fs := m.Descriptor().Fields()
	for i := 0; i < fs.Len(); i++ {
		fd := fs.Get(i)
		if fd.Message() == nil || fd.IsList() || fd.IsMap() || !reachesExt(fd.Message()) || !m.Has(fd) {
			continue
		}
		if x, ok := fd.(interface{ IsLazy() bool }); ok && x.IsLazy() {
			continue // reading a [lazy = true] field would expand it
		}
		sub := m.Get(fd).Message()
		n += lazyNow(sub) + lazyBelow(sub, depth-1)
	}
	return n
}

func scribble(b []byte) {
	for i := range b {
		b[i] = 0xff
	}
}

func count(k string) { pbt.S.AddExtra("legacy_"+k, 1) }

// scramble overwrites everything reachable from m through extensions (and one level of declared
// message fields): used on a merge destination to show that it shares nothing with the source.
func scramble(m protoreflect.Message, depth int) {
	if depth == 0 {
		return
	}
	var fds []protoreflect.FieldDescriptor
	m.Range(func(fd protoreflect.FieldDescriptor, _ protoreflect.Value) bool {
		fds = append(fds, fd)
		return true
	})
	for _, fd := range fds {
		switch {
		case fd.IsMap():
		case fd.IsList():
			l := m.Mutable(fd).List()
			if fd.Message() != nil {
				for i := 0; i < l.Len(); i++ {
					scramble(l.Get(i).Message(), depth-1)
				}
			}
			l.Truncate(0)
		case fd.Message() != nil:
			sub := m.Mutable(fd).Message()
			scramble(sub, depth-1)
			if !isMessageSet(sub.Descriptor()) {
				sub.SetUnknown(protoreflect.RawFields{0xf8, 0xff, 0x0f, 0x2a})
			}
		}
	}
	for _, fd := range fds {
		if fd.Message() != nil && !fd.IsList() && !fd.IsMap() {
			for i, fs := 0, fd.Message().Fields(); i < fs.Len(); i++ {
				m.Mutable(fd).Message().Clear(fs.Get(i))
			}
		}
	}
}

// applyViaProto executes a set / clear of an extension through the proto package API.
func applyViaProto(root protoreflect.Message, op ops.Op) error {
	m := root
	for _, s := range op.Path {
		fd := model.FieldDesc(m.Descriptor(), s.Num, nil)
		if fd == nil {
			return fmt.Errorf("harness: no field %d", s.Num)
		}
		if fd.IsList() {
			m = m.Mutable(fd).List().Get(s.Idx).Message()
		} else {
			m = m.Mutable(fd).Message()
		}
	}
	fd := model.FieldDesc(m.Descriptor(), op.Num, nil)
	xt := extTypeOf(fd)
	if xt == nil {
		return fmt.Errorf("harness: %d is not an extension of %s", op.Num, m.Descriptor().FullName())
	}
	if op.Kind == "clear" {
		proto.ClearExtension(m.Interface(), xt)
		return nil
	}
	var v protoreflect.Value
	if fd.Message() != nil {
		v = xt.New()
		if op.Val.M != nil {
			if err := model.Apply(v.Message(), op.Val.M, nil); err != nil {
				return fmt.Errorf("harness: %v", err)
			}
		}
	} else {
		v = model.ToValue(fd, op.Val)
	}
	proto.SetExtension(m.Interface(), xt, xt.InterfaceOf(v))
	return nil
}

// ---------------------------------------------------------------------------------------------
// known finding: expansion of a [lazy = true] field trusts extensions inside it to be initialised

// kfValidated: unmarshalField expands a lazy message field with the Validated flag; skipExtension
// (internal/impl/decode.go) then reports every message extension inside the payload as initialised
// without looking, keeps it in wire form, and isInitExtensions skips unexpanded extensions ("checked
// on unmarshal"). If the lazy field had been accepted although its payload was not initialised
// (AllowPartial; a message below an extension, which is always decoded with AllowPartial; a second
// occurrence of the lazy field, which makes Unmarshal itself expand it with that flag),
// CheckInitialized / Marshal / the enclosing Unmarshal see an initialised message.
const kfValidated = "KF-lazy-field-expansion-trusts-extension-initialized"

func isLazyField(fd protoreflect.FieldDescriptor) bool {
	x, ok := fd.(interface{ IsLazy() bool })
	return ok && x.IsLazy() && !fd.IsExtension() && fd.Message() != nil && !fd.IsList() && !fd.IsMap()
}

var lazyOverExtMemo = map[protoreflect.FullName]bool{}

// lazyOverExt: some message reachable from md has a [lazy = true] field that leads to extensions.
func lazyOverExt(md protoreflect.MessageDescriptor) bool {
	extsMu.Lock()
	v, ok := lazyOverExtMemo[md.FullName()]
	extsMu.Unlock()
	if ok {
		return v
	}
	seen := map[protoreflect.FullName]bool{}
	var walk func(d protoreflect.MessageDescriptor) bool
	walk = func(d protoreflect.MessageDescriptor) bool {
		if seen[d.FullName()] {
			return false
		}
		seen[d.FullName()] = true
		for i, fs := 0, d.Fields(); i < fs.Len(); i++ {
			fd := fs.Get(i)
			if fd.Message() == nil || fd.IsMap() {
				continue
			}
			if isLazyField(fd) && reachesExt(fd.Message()) || walk(fd.Message()) {
				return true
			}
		}
		for _, xt := range extsOf(d) {
			if sub := xt.TypeDescriptor().Message(); sub != nil && walk(sub) {
				return true
			}
		}
		return false
	}
	v = walk(md)
	extsMu.Lock()
	lazyOverExtMemo[md.FullName()] = v
	extsMu.Unlock()
	return v
}

// kfShape: a message extension with an uninitialised payload somewhere inside a [lazy = true] field.
// (Whether the expansion of that field runs with the Validated flag depends on the encoding as
// well - AllowPartial, an extension above it, or a second occurrence of the lazy field - so the
// shape is excluded whatever the encoding.)
func kfShape(md protoreflect.MessageDescriptor, v *model.Msg, underLazy bool) bool {
	if v == nil {
		return false
	}
	for _, f := range v.Fields {
		fd := model.FieldDesc(md, f.Num, nil)
		if fd == nil || fd.Message() == nil || fd.IsMap() {
			continue
		}
		for _, x := range f.Vals {
			if fd.IsExtension() && underLazy && !model.Initialized(fd.Message(), x.M, nil) {
				return true
			}
			if kfShape(fd.Message(), x.M, underLazy || isLazyField(fd)) {
				return true
			}
		}
	}
	return false
}

// kfInput evaluates kfShape on what the eager decoder reads from in.
func kfInput(typ string, in []byte) bool {
	m := mcase.New(typ, false)
	if err := (proto.UnmarshalOptions{AllowPartial: true, NoLazyDecoding: true}).Unmarshal(in, m.Interface()); err != nil {
		return false
	}
	return kfShape(m.Descriptor(), model.Snapshot(m), false)
}

// kfMsetTag: the MessageSet decoder (messageset.Unmarshal, protowire.DecodeTag: "MessageSet allows
// for larger field numbers than normal") skips fields whose tag carries a number in
// (2^29-1, 2^31-1], the validator that decides about lazy decoding (impl validate) calls such a
// tag invalid: a MessageSet inside a lazily validated payload (lazy field or message extension)
// is rejected by proto.Unmarshal and accepted with NoLazyDecoding.
const kfMsetTag = "KF-lazy-validate-messageset-large-field-number"

// msetBigTag looks for that shape in an input: a record with such a number directly in the body
// of a MessageSet that lies inside a lazy field or an extension payload.
func msetBigTag(md protoreflect.MessageDescriptor, b []byte, inLazy bool, depth int) bool {
	recs, ok := ref.Split(b)
	if !ok || depth > 20 {
		return false
	}
	mset := isMessageSet(md)
	for _, r := range recs {
		if mset {
			if r.Num > 1<<29-1 {
				if inLazy {
					return true
				}
				continue
			}
			if r.Num != 1 || r.Typ != 3 {
				continue
			}
			// an item: type_id, message
			body := r.Val // (the loop stops at the end tag)
			var id int64
			var payloads [][]byte
			for len(body) > 0 {
				num, typ, n, d := ref.ConsumeTag(body)
				if d != ref.OK || typ == 4 {
					break
				}
				m, d := ref.ConsumeValue(num, typ, body[n:], 100)
				if d != ref.OK {
					break
				}
				rec := ref.Record{Num: num, Typ: typ, Raw: body[:n+m], Val: body[n : n+m]}
				if num == 2 && typ == 0 {
					id = int64(rec.VarintValue())
				}
				if num == 3 && typ == 2 {
					payloads = append(payloads, rec.Payload())
				}
				body = body[n+m:]
			}
			if fd := model.FieldDesc(md, int32(id), nil); fd != nil && fd.Message() != nil {
				for _, p := range payloads {
					if msetBigTag(fd.Message(), p, true, depth+1) {
						return true
					}
				}
			}
			continue
		}
		if r.Num > 1<<29-1 {
			continue
		}
		fd := model.FieldDesc(md, int32(r.Num), nil)
		if fd == nil || fd.Message() == nil || fd.IsMap() {
			continue
		}
		below := inLazy || fd.IsExtension() || isLazyField(fd)
		switch {
		case r.Typ == 2 && fd.Kind() == protoreflect.MessageKind:
			if msetBigTag(fd.Message(), r.Payload(), below, depth+1) {
				return true
			}
		case r.Typ == 3 && fd.Kind() == protoreflect.GroupKind:
			// group body: everything up to the end tag
			body := r.Val
			pos := 0
			for pos < len(body) {
				num, typ, n, d := ref.ConsumeTag(body[pos:])
				if d != ref.OK {
					break
				}
				if typ == 4 && num == r.Num {
					break
				}
				m, d := ref.ConsumeValue(num, typ, body[pos+n:], 100)
				if d != ref.OK {
					break
				}
				pos += n + m
			}
			if msetBigTag(fd.Message(), body[:pos], below, depth+1) {
				return true
			}
		}
	}
	return false
}

func kfCase(c extCase) bool {
	if !lazyOverExt(mcase.Desc(c.Type)) {
		return false
	}
	if kfInput(c.Type, c.In) {
		return true
	}
	for _, st := range c.Steps {
		if len(st.Raw) > 0 && kfInput(c.Type, st.Raw) {
			return true
		}
	}
	return false
}

func TestExtWitness(t *testing.T) {
	if leg != "legacy" || !flags.LazyUnmarshalExtensions {
		t.Skip("legacy leg only")
	}
	if _, err := protoregistry.GlobalTypes.FindMessageByName("c17x.Holder"); err != nil {
		t.Skip("c17xpb not linked")
	}
	// c17x.Holder{lazy_exts: TestAllExtensions{[single]: TestRequired{}}}, AllowPartial
	in := []byte{0x12, 0x03, 0xc2, 0x3e, 0x00}
	l, e := mcase.New("c17x.Holder", false), mcase.New("c17x.Holder", false)
	errL := proto.UnmarshalOptions{AllowPartial: true}.Unmarshal(in, l.Interface())
	errE := proto.UnmarshalOptions{AllowPartial: true, NoLazyDecoding: true}.Unmarshal(in, e.Interface())
	if errL != nil || errE != nil {
		t.Fatalf("witness input rejected: %v / %v", errL, errE)
	}
	ciL, ciE := proto.CheckInitialized(l.Interface()), proto.CheckInitialized(e.Interface())
	pbt.Witness(t, kfValidated, ciL == nil && ciE != nil,
		fmt.Sprintf("Unmarshal(AllowPartial) of %x into c17x.Holder: CheckInitialized of the lazily decoded message = %v, of the eagerly decoded one = %v", in, ciL, ciE))
}

func TestExtWitnessMsetTag(t *testing.T) {
	if leg != "legacy" || !flags.LazyUnmarshalExtensions {
		t.Skip("legacy leg only")
	}
	if _, err := protoregistry.GlobalTypes.FindMessageByName("c17x.Holder"); err != nil {
		t.Skip("c17xpb not linked")
	}
	// c17x.Holder{lazy_mset: MessageSet{<field 1<<29, varint 1>}}
	in := []byte{0x1a, 0x06, 0x80, 0x80, 0x80, 0x80, 0x10, 0x01}
	l, e := mcase.New("c17x.Holder", false), mcase.New("c17x.Holder", false)
	errL := proto.Unmarshal(in, l.Interface())
	errE := proto.UnmarshalOptions{NoLazyDecoding: true}.Unmarshal(in, e.Interface())
	pbt.Witness(t, kfMsetTag, errL != nil && errE == nil,
		fmt.Sprintf("Unmarshal of %x into c17x.Holder: %v; with NoLazyDecoding: %v", in, errL, errE))
}

// ---------------------------------------------------------------------------------------------
// the check

func checkExt(c extCase) error {
	if !flags.LazyUnmarshalExtensions {
		return fmt.Errorf("harness: this case belongs to the legacy leg (build with -tags verif,protolegacy)")
	}
	md := mcase.Desc(c.Type)
	if kfCase(c) && pbt.ExcludeKnown(kfValidated) {
		return nil
	}
	if c.Corrupt != "" && reachesMset(md) && msetBigTag(md, c.In, false, 0) && pbt.ExcludeKnown(kfMsetTag) {
		return nil
	}
	newMsg := func() protoreflect.Message { return mcase.New(c.Type, false) }
	l, e := newMsg(), newMsg()
	// (each decoder gets its own copy of the input, overwritten afterwards: nothing may refer to it)
	inL, inE := append([]byte(nil), c.In...), append([]byte(nil), c.In...)
	errL := proto.UnmarshalOptions{AllowPartial: c.AllowPartial, RecursionLimit: c.Limit}.Unmarshal(inL, l.Interface())
	errE := proto.UnmarshalOptions{AllowPartial: c.AllowPartial, RecursionLimit: c.Limit, NoLazyDecoding: true}.Unmarshal(inE, e.Interface())
	scribble(inL)
	scribble(inE)
	if (errL == nil) != (errE == nil) {
		return fmt.Errorf("Unmarshal verdicts differ: lazy %v, eager %v (input %x)", errL, errE, c.In)
	}
	if c.Corrupt == "invalid-utf8-in-extension-payload" && errE == nil {
		return fmt.Errorf("harness: the eager decoder accepts invalid UTF-8 in a validated string (input %x)", c.In)
	}
	if errL != nil {
		if c.M != nil && c.Limit == 0 && (c.AllowPartial || model.Initialized(md, c.M, nil)) && !gen.HasInvalidUTF8(md, c.M, nil) {
			return fmt.Errorf("harness: both decoders reject a reference encoding: %v (input %x)", errE, c.In)
		}
		count("rejected_by_both")
		return nil
	}
	if c.M != nil && !c.AllowPartial && !model.Initialized(md, c.M, nil) {
		return fmt.Errorf("both decoders accept a message with a missing required field (input %x)", c.In)
	}
	if n := lazyNow(l) + lazyBelow(l, 2); n > 0 {
		count("cases_with_unexpanded_extension_after_unmarshal")
	}
	if lazyNow(e)+lazyBelow(e, 2) > 0 {
		return fmt.Errorf("NoLazyDecoding left an extension in wire form")
	}
	var cur *model.Msg
	if c.M != nil {
		cur = c.M.Clone()
	}
	det := proto.MarshalOptions{Deterministic: true, AllowPartial: true}
	nondet := proto.MarshalOptions{AllowPartial: true}
	eager := proto.UnmarshalOptions{AllowPartial: true, NoLazyDecoding: true}
	eq := model.EqualOpts{BitwiseFloats: true}
	whileLazy := func(kind string) {
		if lazyNow(l)+lazyBelow(l, 2) > 0 {
			count(kind + "_while_an_extension_is_unexpanded")
		}
	}
	sameDecoded := func(bl, be []byte) string {
		dl, de := newMsg(), newMsg()
		if err := eager.Unmarshal(bl, dl.Interface()); err != nil {
			return fmt.Sprintf("output of the lazy message does not decode: %v (%x)", err, bl)
		}
		if err := eager.Unmarshal(be, de.Interface()); err != nil {
			return fmt.Sprintf("output of the eager message does not decode: %v (%x)", err, be)
		}
		return model.Diff(md, model.Snapshot(de), model.Snapshot(dl), eq, nil)
	}
	for i, st := range c.Steps {
		fail := func(format string, a ...any) error {
			return fmt.Errorf("step %d %s: %s", i, st.Kind, fmt.Sprintf(format, a...))
		}
		switch st.Kind {
		case "has", "get", "range":
			ml, okL := readPath(l, st.Path)
			me, okE := readPath(e, st.Path)
			if okL != okE {
				return fail("path reachable: lazy %v eager %v", okL, okE)
			}
			if !okL {
				continue
			}
			if st.Kind == "range" {
				if a, b := obsRange(ml, st.Flag&1 != 0), obsRange(me, st.Flag&1 != 0); a != b {
					return fail("Range: lazy %s eager %s", a, b)
				}
				continue
			}
			fd := model.FieldDesc(ml.Descriptor(), st.Num, nil)
			if fd == nil {
				continue
			}
			others := lazyNow(ml)
			if xt := extTypeOf(fd); xt != nil && st.Flag&1 != 0 {
				hl, he := proto.HasExtension(ml.Interface(), xt), proto.HasExtension(me.Interface(), xt)
				if hl != he {
					return fail("HasExtension(%s): lazy %v eager %v", fd.FullName(), hl, he)
				}
				if st.Kind == "get" {
					a := obsAny(fd, xt.ValueOf(proto.GetExtension(ml.Interface(), xt)))
					b := obsAny(fd, xt.ValueOf(proto.GetExtension(me.Interface(), xt)))
					if a != b {
						return fail("GetExtension(%s): lazy %s eager %s", fd.FullName(), a, b)
					}
				}
			} else {
				if ml.Has(fd) != me.Has(fd) {
					return fail("Has(%s): lazy %v eager %v", fd.FullName(), ml.Has(fd), me.Has(fd))
				}
				if st.Kind == "get" && !fd.IsMap() {
					if a, b := obsAny(fd, ml.Get(fd)), obsAny(fd, me.Get(fd)); a != b {
						return fail("Get(%s): lazy %s eager %s", fd.FullName(), a, b)
					}
				}
			}
			if others >= 2 && lazyNow(ml) >= 1 {
				count("read_one_extension_while_others_stay_unexpanded")
			}
		case "size":
			whileLazy("size")
			for _, tw := range []struct {
				n string
				m protoreflect.Message
			}{{"lazy", l}, {"eager", e}} {
				n := nondet.Size(tw.m.Interface())
				b, err := nondet.Marshal(tw.m.Interface())
				if err != nil {
					return fail("Marshal of the %s message: %v", tw.n, err)
				}
				if n != len(b) {
					return fail("%s message: Size %d, Marshal wrote %d bytes", tw.n, n, len(b))
				}
			}
			if st.Flag&1 != 0 {
				if sl, se := det.Size(l.Interface()), det.Size(e.Interface()); sl != se {
					return fail("deterministic Size: lazy %d eager %d", sl, se)
				}
			}
		case "marshal":
			whileLazy("marshal")
			var bl, be []byte
			var err1, err2 error
			if st.Flag&1 != 0 {
				prefix := []byte{0xde, 0xad}
				bl, err1 = nondet.MarshalAppend(append(make([]byte, 0, 8), prefix...), l.Interface())
				be, err2 = nondet.MarshalAppend(append([]byte(nil), prefix...), e.Interface())
				if err1 == nil && err2 == nil {
					if !bytes.HasPrefix(bl, prefix) || !bytes.HasPrefix(be, prefix) {
						return fail("MarshalAppend lost the prefix")
					}
					bl, be = bl[2:], be[2:]
				}
			} else {
				bl, err1 = nondet.Marshal(l.Interface())
				be, err2 = nondet.Marshal(e.Interface())
			}
			if err1 != nil || err2 != nil {
				return fail("Marshal errors: lazy %v eager %v", err1, err2)
			}
			if d := sameDecoded(bl, be); d != "" {
				return fail("Marshal outputs decode differently: %s", d)
			}
		case "detmarshal":
			bl, err1 := det.Marshal(l.Interface())
			be, err2 := det.Marshal(e.Interface())
			if err1 != nil || err2 != nil || !bytes.Equal(bl, be) {
				return fail("deterministic Marshal differs: lazy %x (%v) eager %x (%v)", bl, err1, be, err2)
			}
		case "equal":
			whileLazy("equal")
			if st.Flag&1 != 0 {
				cl := proto.Clone(l.Interface())
				if !proto.Equal(l.Interface(), cl) || !proto.Equal(cl, e.Interface()) {
					return fail("proto.Equal(lazy, clone of lazy) or Equal(clone, eager) false")
				}
			} else if !proto.Equal(l.Interface(), e.Interface()) || !proto.Equal(e.Interface(), l.Interface()) {
				return fail("proto.Equal(lazy, eager) false")
			}
		case "clone":
			whileLazy("clone")
			cl, ce := proto.Clone(l.Interface()).ProtoReflect(), proto.Clone(e.Interface()).ProtoReflect()
			if d := model.Diff(md, model.Snapshot(ce), model.Snapshot(cl), eq, nil); d != "" {
				return fail("clones differ: %s", d)
			}
			if st.Flag&1 != 0 {
				l, e = cl, ce
			} else {
				scramble(cl, 3) // the original must not notice
				scramble(ce, 3)
			}
		case "checkinit":
			e1, e2 := proto.CheckInitialized(l.Interface()), proto.CheckInitialized(e.Interface())
			if (e1 == nil) != (e2 == nil) {
				return fail("CheckInitialized: lazy %v eager %v", e1, e2)
			}
			if cur != nil && (e2 == nil) != model.Initialized(md, cur, nil) {
				return fail("CheckInitialized = %v, model initialised = %v", e2, model.Initialized(md, cur, nil))
			}
			_, m1 := proto.Marshal(l.Interface())
			_, m2 := proto.Marshal(e.Interface())
			if (m1 == nil) != (m2 == nil) {
				return fail("Marshal (required check): lazy %v eager %v", m1, m2)
			}
		case "json":
			jl, err1 := protojson.MarshalOptions{AllowPartial: true}.Marshal(l.Interface())
			je, err2 := protojson.MarshalOptions{AllowPartial: true}.Marshal(e.Interface())
			if (err1 == nil) != (err2 == nil) || !bytes.Equal(jl, je) {
				return fail("protojson output differs: lazy %s (%v) eager %s (%v)", jl, err1, je, err2)
			}
		case "text":
			tl, err1 := prototext.MarshalOptions{AllowPartial: true}.Marshal(l.Interface())
			te, err2 := prototext.MarshalOptions{AllowPartial: true}.Marshal(e.Interface())
			if (err1 == nil) != (err2 == nil) || !bytes.Equal(tl, te) {
				return fail("prototext output differs: lazy %s (%v) eager %s (%v)", tl, err1, te, err2)
			}
		case "mergeinto":
			if lazyNow(l) > 0 {
				count("merge_into_a_destination_with_unexpanded_extension")
			}
			for ti, m := range []protoreflect.Message{l, e} {
				src := newMsg()
				if st.Flag&1 != 0 {
					if err := (proto.UnmarshalOptions{AllowPartial: true, NoLazyDecoding: ti == 1}).Unmarshal(st.Raw, src.Interface()); err != nil {
						return fail("harness: source encoding rejected: %v", err)
					}
					if ti == 0 && lazyNow(src) > 0 {
						count("merge_from_a_source_with_unexpanded_extension")
					}
				} else if err := model.Apply(src, st.Src, nil); err != nil {
					return fmt.Errorf("harness: %v", err)
				}
				proto.Merge(m.Interface(), src.Interface())
				scramble(src, 3) // the destination must not notice
			}
			cur = model.Merge(md, cur, st.Src, nil)
		case "mergefrom":
			whileLazy("mergefrom")
			dl, de := newMsg(), newMsg()
			var want *model.Msg
			if st.Flag&1 != 0 {
				e1 := proto.UnmarshalOptions{AllowPartial: true}.Unmarshal(st.Raw, dl.Interface())
				e2 := eager.Unmarshal(st.Raw, de.Interface())
				if e1 != nil || e2 != nil {
					return fail("harness: destination encoding rejected: %v / %v", e1, e2)
				}
				if lazyNow(dl) > 0 && lazyNow(l) > 0 {
					count("merge_unexpanded_source_into_unexpanded_destination")
				}
				if cur != nil {
					want = model.Merge(md, st.Src, cur, nil)
				}
			} else if cur != nil {
				want = cur
			}
			proto.Merge(dl.Interface(), l.Interface())
			proto.Merge(de.Interface(), e.Interface())
			if d := model.Diff(md, model.Snapshot(de), model.Snapshot(dl), eq, nil); d != "" {
				return fail("Merge(dst, m) differs: %s", d)
			}
			if want != nil {
				if err := ops.Verify(dl, want); err != nil {
					return fail("Merge(dst, lazy message) vs model: %v", err)
				}
			}
			scramble(dl, 3) // the source must not notice
			scramble(de, 3)
		case "reset":
			proto.Reset(l.Interface())
			proto.Reset(e.Interface())
			cur = &model.Msg{}
		case "reunmarshal", "mergedecode":
			merge := st.Kind == "mergedecode"
			if merge && lazyNow(l) > 0 {
				count("merge_decode_into_a_message_with_unexpanded_extension")
			}
			r1, r2 := append([]byte(nil), st.Raw...), append([]byte(nil), st.Raw...)
			e1 := proto.UnmarshalOptions{AllowPartial: true, Merge: merge}.Unmarshal(r1, l.Interface())
			e2 := proto.UnmarshalOptions{AllowPartial: true, Merge: merge, NoLazyDecoding: true}.Unmarshal(r2, e.Interface())
			scribble(r1)
			scribble(r2)
			if e1 != nil || e2 != nil {
				return fail("Unmarshal of a valid encoding failed: lazy %v eager %v", e1, e2)
			}
			if merge {
				cur = model.Merge(md, cur, st.Src, nil)
			} else {
				cur = st.Src.Clone()
			}
		default: // write through reflection or the proto extension API
			if cur == nil {
				return fmt.Errorf("harness: write step without a model")
			}
			if err := ops.ApplyModel(md, cur, st.Op); err != nil {
				return err
			}
			for _, m := range []protoreflect.Message{l, e} {
				var err error
				if st.Flag&1 != 0 && (st.Kind == "set" || st.Kind == "clear") {
					err = applyViaProto(m, st.Op)
				} else {
					err = ops.ApplyMsg(m, st.Op)
				}
				if err != nil {
					return err
				}
			}
			// read the written field back on both
			ml, okL := readPath(l, st.Path)
			me, okE := readPath(e, st.Path)
			if okL && okE && st.Kind != "setunknown" {
				if fd := model.FieldDesc(ml.Descriptor(), st.Num, nil); fd != nil && !fd.IsMap() {
					if ml.Has(fd) != me.Has(fd) {
						return fail("after the write Has(%s): lazy %v eager %v", fd.FullName(), ml.Has(fd), me.Has(fd))
					}
					if a, b := obsAny(fd, ml.Get(fd)), obsAny(fd, me.Get(fd)); a != b {
						return fail("after the write Get(%s): lazy %s eager %s", fd.FullName(), a, b)
					}
				}
			}
		}
	}
	// final: everything, against each other and against the model
	if lazyNow(l)+lazyBelow(l, 2) > 0 {
		count("cases_with_unexpanded_extension_at_the_end")
	}
	bl, err1 := nondet.Marshal(l.Interface())
	be, err2 := nondet.Marshal(e.Interface())
	if err1 != nil || err2 != nil {
		return fmt.Errorf("final Marshal errors: lazy %v eager %v", err1, err2)
	}
	if d := sameDecoded(bl, be); d != "" {
		return fmt.Errorf("final Marshal outputs decode differently: %s", d)
	}
	bl, err1 = det.Marshal(l.Interface())
	be, err2 = det.Marshal(e.Interface())
	if err1 != nil || err2 != nil || !bytes.Equal(bl, be) {
		return fmt.Errorf("final deterministic Marshal differs: lazy %x (%v) eager %x (%v)", bl, err1, be, err2)
	}
	if !proto.Equal(l.Interface(), e.Interface()) {
		return fmt.Errorf("final proto.Equal(lazy, eager) false")
	}
	if d := model.Diff(md, model.Snapshot(e), model.Snapshot(l), eq, nil); d != "" {
		return fmt.Errorf("final state differs: %s", d)
	}
	if cur != nil {
		if err := ops.Verify(l, cur); err != nil {
			return fmt.Errorf("final lazy message vs model: %v", err)
		}
	}
	return nil
}

// ---------------------------------------------------------------------------------------------
// generation

type weighted struct {
	name string
	w    int
}

var extTypePool = func() []string {
	var cands []weighted
	add := func(w int, names ...string) {
		for _, n := range names {
			cands = append(cands, weighted{n, w})
		}
	}
	v3 := func(s string) []string { return []string{s, "hybrid." + s, "opaque." + s} }
	add(6, "goproto.proto.test.TestAllExtensions")
	add(5, "c17x.Holder") // harness schema: lazy fields <-> lazy extensions nested in each other (ext_xpb_test.go)
	add(3, v3("goproto.proto.testeditions.TestAllExtensions")...)
	add(3, "pb2.Extensions", "lazy_extension_test.Tree")
	add(2, v3("pbeditions.Extensions")...)
	add(2, "lazy_extension_normalized_wire_test.Top", "testprotos.Message1", "goproto.proto.fuzz.Fuzz")
	add(1, "google.golang.org.proto2_20160225.Message", "google.golang.org.proto2_20190205.Message") // wrapped legacy messages (XXX_InternalExtensions / XXX_extensions)
	add(1, "pb2.FakeMessageSet", "google.protobuf.FeatureSet", "google.protobuf.MessageOptions",
		"goproto.proto.test.TestPackedExtensions", "goproto.proto.testeditions.TestPackedExtensions", "goproto.proto.test.TestUnpackedExtensions",
		"protobuf_test_messages.proto2.TestAllTypesProto2", "protobuf_test_messages.editions.TestAllTypesEdition2023")
	// MessageSets and their containers
	add(3, "goproto.proto.messageset.MessageSet", "lazy_extension_test.Holder")
	add(2, "hybrid.goproto.proto.messageset.MessageSet", "opaque.goproto.proto.messageset.MessageSet", "pb2.MessageSet")
	add(1, v3("pbeditions.MessageSet")...)
	add(2, v3("goproto.proto.messageset.MessageSetContainer")...)
	add(1, "protobuf_test_messages.proto2.TestAllTypesProto2.MessageSetCorrect", "protobuf_test_messages.editions.proto2.TestAllTypesProto2.MessageSetCorrect")
	var out []string
	for _, c := range cands {
		if _, err := protoregistry.GlobalTypes.FindMessageByName(protoreflect.FullName(c.name)); err != nil {
			continue
		}
		for i := 0; i < c.w; i++ {
			out = append(out, c.name)
		}
	}
	return out
}()

func extMsgOpts(allowPartial bool) gen.MsgOpts {
	mo := gen.DefaultMsgOpts
	mo.Depth = 4
	mo.MaxFields = 5
	mo.MaxList = 3
	mo.MaxBytes = 40
	mo.Extensions = true
	mo.SkipField = skipExtMaps
	mo.RequiredOmit = 8
	if allowPartial {
		mo.RequiredOmit = 4
	}
	return mo
}

// drawContent draws a model message with the lazy-capable extensions populated most of the time
// (also one level down, where a populated extension payload is itself extendable).
func drawContent(t *rapid.T, md protoreflect.MessageDescriptor, mo gen.MsgOpts) *model.Msg {
	v := gen.DrawMessage(t, md, mo)
	forceExts(t, md, v, mo, 2)
	repair(t, md, v)
	return v
}

func forceExts(t *rapid.T, md protoreflect.MessageDescriptor, v *model.Msg, mo gen.MsgOpts, depth int) {
	if depth == 0 || mo.Depth <= 0 {
		return
	}
	var capable []protoreflect.ExtensionType
	for _, xt := range extsOf(md) {
		if lazyCapable(xt.TypeDescriptor()) {
			capable = append(capable, xt)
		}
	}
	if len(capable) > 0 {
		n := rapid.IntRange(0, 3).Draw(t, "forceexts")
		for i := 0; i < n; i++ {
			xd := capable[rapid.IntRange(0, len(capable)-1).Draw(t, "forceext")].TypeDescriptor()
			if v.Get(int32(xd.Number())) != nil {
				continue
			}
			so := mo
			so.Depth--
			if f, ok := gen.DrawField(t, xd, so); ok {
				v.Put(f)
			}
		}
	}
	for _, f := range v.Fields {
		fd := model.FieldDesc(md, f.Num, nil)
		if fd == nil || fd.Message() == nil || fd.IsMap() || !reachesExt(fd.Message()) {
			continue
		}
		so := mo
		so.Depth--
		for i := range f.Vals {
			if f.Vals[i].M != nil {
				forceExts(t, fd.Message(), f.Vals[i].M, so, depth-1)
			}
		}
	}
}

// extPaths lists the paths (through singular and repeated message fields, extensions included)
// to messages that have registered extensions.
func extPaths(md protoreflect.MessageDescriptor, v *model.Msg) (ps [][]ops.Step) {
	var all [][]ops.Step
	lazyPaths(md, v, nil, 4, &all)
	for _, p := range all {
		if len(extsOf(descAt(md, p))) > 0 {
			ps = append(ps, p)
		}
	}
	return ps
}

// descAtOps is descAt for paths drawn by ops.DrawOp (they may pass through map values).
func descAtOps(md protoreflect.MessageDescriptor, path []ops.Step) protoreflect.MessageDescriptor {
	for _, s := range path {
		fd := model.FieldDesc(md, s.Num, nil)
		if fd.IsMap() {
			md = fd.MapValue().Message()
		} else {
			md = fd.Message()
		}
	}
	return md
}

func nodeAt(md protoreflect.MessageDescriptor, v *model.Msg, path []ops.Step) *model.Msg {
	for _, s := range path {
		f := v.Get(s.Num)
		if f == nil {
			return nil
		}
		if s.Idx >= 0 {
			v = f.Vals[s.Idx].M
		} else {
			v = f.Vals[0].M
		}
		if v == nil {
			return nil
		}
	}
	return v
}

// pickExt draws an extension of d: populated ones and lazy-capable ones are preferred.
func pickExt(t *rapid.T, d protoreflect.MessageDescriptor, node *model.Msg) protoreflect.FieldDescriptor {
	xs := extsOf(d)
	if len(xs) == 0 {
		return nil
	}
	if node != nil && rapid.IntRange(0, 2).Draw(t, "xpopulated") > 0 {
		var pop []protoreflect.FieldDescriptor
		for _, f := range node.Fields {
			if fd := model.FieldDesc(d, f.Num, nil); fd != nil && fd.IsExtension() {
				pop = append(pop, fd)
			}
		}
		if len(pop) > 0 {
			return pop[rapid.IntRange(0, len(pop)-1).Draw(t, "xpopidx")]
		}
	}
	if rapid.Bool().Draw(t, "xcapable") {
		var cp []protoreflect.FieldDescriptor
		for _, xt := range xs {
			if lazyCapable(xt.TypeDescriptor()) {
				cp = append(cp, xt.TypeDescriptor())
			}
		}
		if len(cp) > 0 {
			return cp[rapid.IntRange(0, len(cp)-1).Draw(t, "xcapidx")]
		}
	}
	return xs[rapid.IntRange(0, len(xs)-1).Draw(t, "xanyidx")].TypeDescriptor()
}

// drawExtWrite draws a legal write to an extension field somewhere in the tree.
func drawExtWrite(t *rapid.T, md protoreflect.MessageDescriptor, cur *model.Msg, mo gen.MsgOpts) (xstep, bool) {
	ps := extPaths(md, cur)
	if len(ps) == 0 {
		return xstep{}, false
	}
	p := ps[rapid.IntRange(0, len(ps)-1).Draw(t, "xwpath")]
	d := descAt(md, p)
	node := nodeAt(md, cur, p)
	fd := pickExt(t, d, node)
	if fd == nil {
		return xstep{}, false
	}
	st := xstep{Op: ops.Op{Path: p, Num: int32(fd.Number())}}
	var f *model.Field
	if node != nil {
		f = node.Get(st.Num)
	}
	vo := mo
	vo.Depth = 2
	vo.MaxFields = 3
	vo.RequiredOmit = 0
	val := func() model.Val {
		if fd.Message() != nil {
			m := drawContent(t, fd.Message(), vo)
			return model.Val{M: m}
		}
		x := gen.DrawScalarOrZero(t, fd, vo)
		if fd.Kind() == protoreflect.StringKind && enforcesUTF8(fd) {
			x.B = []byte(strings.ToValidUTF8(string(x.B), "?"))
		}
		return x
	}
	switch {
	case fd.IsList():
		kinds := []string{"append", "append", "clear", "mutable"}
		if fd.Message() != nil {
			kinds = append(kinds, "appendmutable")
		}
		if f != nil {
			kinds = append(kinds, "truncate", "truncate", "listset")
		}
		st.Kind = rapid.SampledFrom(kinds).Draw(t, "xlistop")
		switch st.Kind {
		case "append":
			st.Val = val()
		case "listset":
			st.Idx = rapid.IntRange(0, len(f.Vals)-1).Draw(t, "xidx")
			st.Val = val()
		case "truncate":
			if st.Idx = 0; rapid.Bool().Draw(t, "xnonempty") { // (emptying a list that was decoded lazily: Has must turn false)
				st.Idx = rapid.IntRange(0, len(f.Vals)).Draw(t, "xnewlen")
			}
		}
	case fd.Message() != nil:
		st.Kind = rapid.SampledFrom([]string{"set", "mutable", "mutable", "clear"}).Draw(t, "xmsgop")
		if st.Kind == "set" {
			st.Val = val()
		}
	default:
		st.Kind = rapid.SampledFrom([]string{"set", "set", "clear"}).Draw(t, "xscalarop")
		if st.Kind == "set" {
			st.Val = val()
		}
	}
	if (st.Kind == "set" || st.Kind == "clear") && !fd.IsList() && rapid.Bool().Draw(t, "xviaproto") {
		st.Flag = 1
	}
	return st, true
}

func drawExt(t *rapid.T) extCase {
	c := extCase{Type: rapid.SampledFrom(extTypePool).Draw(t, "type"), AllowPartial: rapid.IntRange(0, 3).Draw(t, "allowpartial") == 0}
	md := mcase.Desc(c.Type)
	mo := extMsgOpts(c.AllowPartial)
	if rapid.IntRange(0, 24).Draw(t, "limit?") == 13 {
		c.Limit = rapid.IntRange(1, 6).Draw(t, "limit")
	}
	content := drawContent(t, md, mo)
	badUTF8 := rapid.IntRange(0, 15).Draw(t, "badutf8") == 7 && spoilUTF8(t, md, content)
	enc := newXenc(t, &c.Labels).Encode(md, content)
	if k := rapid.IntRange(0, 7).Draw(t, "corrupt"); k == 0 || badUTF8 {
		if badUTF8 {
			c.In, c.Corrupt = enc, "invalid-utf8-in-extension-payload"
		} else {
			c.In, c.Corrupt = corruptExt(t, md, enc, 2)
		}
		// content unknown to the model: verdict comparison, then read-only steps at blind positions
		n := rapid.IntRange(1, 8).Draw(t, "rsteps")
		for i := 0; i < n; i++ {
			k := rapid.SampledFrom([]string{"has", "get", "get", "range", "size", "marshal", "detmarshal", "equal", "clone", "checkinit", "json", "text", "mergefrom"}).Draw(t, "rkind")
			st := xstep{Op: ops.Op{Kind: k}, Flag: rapid.IntRange(0, 1).Draw(t, "rflag")}
			if k == "mergefrom" {
				st.Flag = 0
			}
			if k == "has" || k == "get" || k == "range" {
				var ps [][]ops.Step
				lazyPaths(md, content, nil, 3, &ps) // the uncorrupted content: a good guess
				st.Path = ps[rapid.IntRange(0, len(ps)-1).Draw(t, "rpath")]
				d := descAt(md, st.Path)
				if fd := pickExt(t, d, nodeAt(md, content, st.Path)); fd != nil {
					st.Num = int32(fd.Number())
				} else if d.Fields().Len() > 0 {
					st.Num = int32(d.Fields().Get(rapid.IntRange(0, d.Fields().Len()-1).Draw(t, "rfield")).Number())
				}
			}
			c.Steps = append(c.Steps, st)
		}
		return c
	}
	c.M, c.In = content, enc
	cur := content.Clone()
	noUnknownOps := reachesMset(md)
	n := rapid.IntRange(1, 14).Draw(t, "steps")
	for i := 0; i < n; i++ {
		k := rapid.SampledFrom([]string{"has", "get", "get", "get", "range", "size", "marshal", "detmarshal", "equal", "clone", "checkinit", "json", "text",
			"xwrite", "xwrite", "xwrite", "write", "unrequire", "mergeinto", "mergefrom", "mergefrom", "reset", "reunmarshal", "mergedecode", "mergedecode"}).Draw(t, "kind")
		switch k {
		case "has", "get", "range":
			var ps [][]ops.Step
			lazyPaths(md, cur, nil, 4, &ps)
			if xp := extPaths(md, cur); len(xp) > 0 && rapid.IntRange(0, 3).Draw(t, "extpath") > 0 {
				ps = xp
			}
			p := ps[rapid.IntRange(0, len(ps)-1).Draw(t, "path")]
			d := descAt(md, p)
			st := xstep{Op: ops.Op{Kind: k, Path: p}, Flag: rapid.IntRange(0, 1).Draw(t, "flag")}
			if k != "range" {
				if fd := pickExt(t, d, nodeAt(md, cur, p)); fd != nil && rapid.IntRange(0, 4).Draw(t, "extfield") > 0 {
					st.Num = int32(fd.Number())
				} else if d.Fields().Len() > 0 {
					st.Num = int32(d.Fields().Get(rapid.IntRange(0, d.Fields().Len()-1).Draw(t, "field")).Number())
				} else {
					continue
				}
			}
			c.Steps = append(c.Steps, st)
		case "xwrite":
			st, ok := drawExtWrite(t, md, cur, mo)
			if !ok {
				continue
			}
			if err := ops.ApplyModel(md, cur, st.Op); err != nil {
				panic(err)
			}
			c.Steps = append(c.Steps, st)
		case "unrequire":
			// clear a required field inside an extension payload, then ask CheckInitialized
			var cands []xstep
			var all [][]ops.Step
			lazyPaths(md, cur, nil, 4, &all)
			for _, p := range all {
				if len(p) == 0 {
					continue
				}
				d, node := descAt(md, p), nodeAt(md, cur, p)
				for i, rn := 0, d.RequiredNumbers(); node != nil && i < rn.Len(); i++ {
					if node.Get(int32(rn.Get(i))) != nil {
						cands = append(cands, xstep{Op: ops.Op{Kind: "clear", Path: p, Num: int32(rn.Get(i))}})
					}
				}
			}
			if len(cands) == 0 {
				continue
			}
			st := cands[rapid.IntRange(0, len(cands)-1).Draw(t, "unrequire")]
			if err := ops.ApplyModel(md, cur, st.Op); err != nil {
				panic(err)
			}
			c.Steps = append(c.Steps, st, xstep{Op: ops.Op{Kind: "checkinit"}})
		case "write":
			wo := mo
			wo.RequiredOmit = 0
			op := ops.DrawOp(t, md, cur, ops.GenOpts{Msg: wo, MaxDepth: 3, NoUnknown: noUnknownOps})
			if op.Val.M != nil {
				repair(nil, descAtOps(md, op.Path), &model.Msg{Fields: []model.Field{{Num: op.Num, Vals: []model.Val{op.Val}}}})
			}
			if err := ops.ApplyModel(md, cur, op); err != nil {
				panic(err)
			}
			c.Steps = append(c.Steps, xstep{Op: op})
		case "mergeinto", "mergefrom", "reunmarshal", "mergedecode":
			st := xstep{Op: ops.Op{Kind: k}, Flag: rapid.IntRange(0, 1).Draw(t, "flag")}
			if k == "mergefrom" && st.Flag == 0 {
				c.Steps = append(c.Steps, st)
				continue
			}
			src := gen.DrawColliding(t, md, cur, mo)
			forceExts(t, md, src, mo, 1)
			repair(t, md, src)
			if k != "mergeinto" || st.Flag == 1 {
				var labels []string
				st.Raw = newXenc(t, &labels).Encode(md, src) // (updates the unknown bytes of src)
			}
			st.Src = src
			c.Steps = append(c.Steps, st)
			switch k {
			case "mergeinto", "mergedecode":
				cur = model.Merge(md, cur, src, nil)
			case "reunmarshal":
				cur = src.Clone()
			}
		case "reset":
			c.Steps = append(c.Steps, xstep{Op: ops.Op{Kind: k}})
			cur = &model.Msg{}
		default:
			c.Steps = append(c.Steps, xstep{Op: ops.Op{Kind: k}, Flag: rapid.IntRange(0, 1).Draw(t, "flag")})
		}
	}
	return c
}

// spoilUTF8 makes one UTF-8 validated string inside an extension payload invalid (false: none there).
func spoilUTF8(t *rapid.T, md protoreflect.MessageDescriptor, v *model.Msg) bool {
	var cands []*model.Val
	var walk func(d protoreflect.MessageDescriptor, m *model.Msg, underExt bool)
	walk = func(d protoreflect.MessageDescriptor, m *model.Msg, underExt bool) {
		if m == nil {
			return
		}
		for fi := range m.Fields {
			f := &m.Fields[fi]
			fd := model.FieldDesc(d, f.Num, nil)
			if fd == nil || fd.IsMap() {
				continue
			}
			for i := range f.Vals {
				switch {
				case fd.Message() != nil:
					walk(fd.Message(), f.Vals[i].M, underExt || fd.IsExtension())
				case fd.Kind() == protoreflect.StringKind && underExt && enforcesUTF8(fd):
					cands = append(cands, &f.Vals[i])
				}
			}
		}
	}
	walk(md, v, false)
	if len(cands) == 0 {
		return false
	}
	x := cands[rapid.IntRange(0, len(cands)-1).Draw(t, "spoilat")]
	bad := rapid.SampledFrom([]string{"\xff", "\xc0\x80", "\xe2\x82", "\xed\xa0\x80", "a\x80"}).Draw(t, "spoilwith")
	at := rapid.IntRange(0, len(x.B)).Draw(t, "spoilpos")
	for at > 0 && at < len(x.B) && x.B[at]&0xc0 == 0x80 {
		at-- // (insert between characters, the rest stays valid)
	}
	x.B = append(append(append([]byte(nil), x.B[:at]...), bad...), x.B[at:]...)
	return true
}

// extShape describes the extension content of a model tree.
func extShape(md protoreflect.MessageDescriptor, v *model.Msg, depth int, set map[string]bool) {
	if v == nil {
		return
	}
	if isMessageSet(md) {
		set["messageset"] = true
		if len(v.Unknown) > 0 {
			set["mset-unknown-item"] = true
		}
	}
	for _, f := range v.Fields {
		fd := model.FieldDesc(md, f.Num, nil)
		if fd == nil {
			continue
		}
		if fd.IsExtension() {
			switch {
			case fd.IsList() && fd.Message() != nil:
				set["ext-repeated-message"] = true
			case fd.Kind() == protoreflect.GroupKind:
				set["ext-group"] = true
			case fd.Message() != nil:
				set["ext-message"] = true
			case fd.IsList():
				set["ext-repeated-scalar"] = true
			case fd.Kind() == protoreflect.StringKind:
				set["ext-string"] = true
			case fd.Kind() == protoreflect.EnumKind:
				set["ext-enum"] = true
			default:
				set["ext-scalar"] = true
			}
			if fd.Message() != nil {
				if depth >= 1 {
					set["ext-nested-in-ext-or-submessage"] = true
				}
				if fd.Message().RequiredNumbers().Len() > 0 {
					set["ext-payload-has-required"] = true
				}
			}
		}
		if isLazyField(fd) && reachesExt(fd.Message()) {
			for _, x := range f.Vals {
				if x.M != nil && len(x.M.Fields) > 0 {
					set["lazy-field-holding-extendable-message"] = true
				}
			}
		}
		if fd.Message() != nil && !fd.IsMap() {
			for _, x := range f.Vals {
				extShape(fd.Message(), x.M, depth+1, set)
			}
		}
	}
	if len(v.Unknown) > 0 && len(extsOf(md)) > 0 {
		set["unknown-next-to-extensions"] = true
	}
}

func hasLazyCapable(md protoreflect.MessageDescriptor, v *model.Msg) bool {
	set := map[string]bool{}
	extShape(md, v, 0, set)
	return set["ext-message"] || set["ext-group"] || set["ext-repeated-message"]
}

var extProp = pbt.Prop[extCase]{
	Name: "exttwin",
	Rule: "legacy leg (-tags protolegacy: extensions are decoded lazily). extendable corpus types: proto2 / editions TestAllExtensions (open, hybrid, opaque), pb2 / pbeditions Extensions, lazy_extension_test.Tree (delimited extensions), descriptor options, conformance types, MessageSets (messagesetpb, textpb2, textpbeditions, conformance) and their containers; content with message / group / repeated-message extensions forced most of the time (two levels), scalar, enum, string, packed extensions, unknown numbers inside the extension ranges, required fields omitted 1/8 when AllowPartial is off; encoding by a model-driven reference encoder: singular message / group extensions as 1..3 occurrences, records of different fields interleaved (same extension contiguous and non-contiguous), wrong-wire-type records next to extension occurrences, packed <-> unpacked, padded varints, decoys, MessageSet items in both field orders with split message fields and ignorable noise; 1/8 of the inputs corrupted inside an extension payload (verdict comparison + blind reads); 1/25 with RecursionLimit 1..6; 1..14 steps: Has/Get/Range through protoreflect and through proto.HasExtension/GetExtension/RangeExtensions, Size == len(Marshal), Marshal / MarshalAppend (decoded content), deterministic Marshal (bytes), Equal (twin, clone), Clone (+ overwrite the clone), CheckInitialized (twin and model), JSON, text, Merge into (model source or lazily decoded source, then overwritten) and from (fresh or lazily decoded destination, then overwritten), Reset, Unmarshal again with and without Merge, reflection writes and proto.SetExtension/ClearExtension on extensions at any depth. non-trivial = a message / group extension is populated (or the input is corrupted)",
	Draw:  drawExt,
	Check: checkExt,
	NonTrivial: func(c extCase) bool {
		if c.M == nil {
			return c.Corrupt != ""
		}
		return hasLazyCapable(mcase.Desc(c.Type), c.M)
	},
	Classes: func(c extCase) []string {
		k := map[string]bool{}
		for _, st := range c.Steps {
			name := st.Kind
			if st.Flag&1 != 0 {
				name += "+"
			}
			k["step-"+name] = true
		}
		for _, l := range c.Labels {
			k["enc-"+l] = true
		}
		if c.Corrupt != "" {
			k["corrupt"] = true
			if c.Corrupt == "invalid-utf8-in-extension-payload" {
				k["corrupt-validated-string-in-extension-payload"] = true
			}
		}
		switch md := mcase.Desc(c.Type); {
		case isMessageSet(md):
			k["root-messageset"] = true
		case strings.HasPrefix(c.Type, "c17x."):
			k["root-harness-schema-lazy-fields-over-extensions"] = true
		case strings.HasPrefix(c.Type, "google.golang.org.proto2_"):
			k["root-legacy-wrapper"] = true
		case len(extsOf(md)) == 0:
			k["root-container"] = true
		default:
			k["root-extendable"] = true
		}
		if c.M != nil {
			extShape(mcase.Desc(c.Type), c.M, 0, k)
			if !model.Initialized(mcase.Desc(c.Type), c.M, nil) {
				k["missing-required"] = true
			}
			if gen.HasInvalidUTF8(mcase.Desc(c.Type), c.M, nil) {
				k["invalid-utf8-somewhere"] = true
			}
		}
		if !c.AllowPartial {
			k["check-required"] = true
		}
		if c.Limit > 0 {
			k["recursion-limit"] = true
		}
		var out []string
		for x := range k {
			out = append(out, x)
		}
		sort.Strings(out)
		return out
	},
	Quick: 5000, Thorough: 120000,
}

func TestExtTwin(t *testing.T) {
	if leg != "legacy" || !flags.LazyUnmarshalExtensions {
		pbt.Register(extProp) // replayable, not run
		t.Skip("lazy extensions exist only in the legacy leg (-tags protolegacy)")
	}
	pbt.Run(t, extProp)
}
