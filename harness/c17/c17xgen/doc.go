// Package c17xgen holds the generator (build tag c17xgen) of ../c17xpb.
package c17xgen
