//go:build c17xgen

// Package c17xgen regenerates ../c17xpb/c17x.pb.go with the tree's own protoc-gen-go (in process):
//
//	cd /verif/harness && go test -vet=off -tags verif,protolegacy,c17xgen -run TestGenerate ./c17/c17xgen
//
// The schema nests the two lazy-decoding mechanisms in both directions: [lazy = true] message
// fields (opaque API) whose payload is an extendable message / a MessageSet, and extensions of
// goproto.proto.test.TestAllExtensions / MessageSet whose payload has [lazy = true] fields.
package c17xgen

import (
	"os"
	"testing"

	"google.golang.org/protobuf/encoding/prototext"
	"google.golang.org/protobuf/types/descriptorpb"
	"google.golang.org/protobuf/zverif/gencode"

	_ "google.golang.org/protobuf/internal/testprotos/messageset/messagesetpb"
	_ "google.golang.org/protobuf/internal/testprotos/test"
)

const schema = `
name: "zverif/c17/c17xpb/c17x.proto"
package: "c17x"
syntax: "editions"
edition: EDITION_2023
dependency: "internal/testprotos/test/test.proto"
dependency: "internal/testprotos/messageset/messagesetpb/message_set.proto"
options { go_package: "google.golang.org/protobuf/zverif/c17/c17xpb" }
message_type {
  name: "Holder"
  field { name: "a" number: 1 type: TYPE_INT32 label: LABEL_OPTIONAL json_name: "a" }
  field { name: "lazy_exts" number: 2 type: TYPE_MESSAGE type_name: ".goproto.proto.test.TestAllExtensions" label: LABEL_OPTIONAL json_name: "lazyExts" options { lazy: true } }
  field { name: "lazy_mset" number: 3 type: TYPE_MESSAGE type_name: ".goproto.proto.messageset.MessageSet" label: LABEL_OPTIONAL json_name: "lazyMset" options { lazy: true } }
  field { name: "lazy_child" number: 4 type: TYPE_MESSAGE type_name: ".c17x.Holder" label: LABEL_OPTIONAL json_name: "lazyChild" options { lazy: true } }
  field { name: "eager_exts" number: 5 type: TYPE_MESSAGE type_name: ".goproto.proto.test.TestAllExtensions" label: LABEL_OPTIONAL json_name: "eagerExts" }
  field { name: "children" number: 6 type: TYPE_MESSAGE type_name: ".c17x.Holder" label: LABEL_REPEATED json_name: "children" }
  field { name: "lazy_ext" number: 7 type: TYPE_MESSAGE type_name: ".c17x.Ext" label: LABEL_OPTIONAL json_name: "lazyExt" options { lazy: true } }
  field { name: "b" number: 8 type: TYPE_BYTES label: LABEL_OPTIONAL json_name: "b" }
  extension_range { start: 100 end: 201 }
}
message_type {
  name: "Ext"
  field { name: "s" number: 1 type: TYPE_STRING label: LABEL_OPTIONAL json_name: "s" }
  field { name: "holder" number: 2 type: TYPE_MESSAGE type_name: ".c17x.Holder" label: LABEL_OPTIONAL json_name: "holder" options { lazy: true } }
  field { name: "req" number: 3 type: TYPE_MESSAGE type_name: ".goproto.proto.test.TestRequired" label: LABEL_OPTIONAL json_name: "req" options { lazy: true } }
  extension { name: "holder_ext" number: 2001 type: TYPE_MESSAGE type_name: ".c17x.Holder" label: LABEL_OPTIONAL extendee: ".goproto.proto.test.TestAllExtensions" json_name: "holderExt" }
  extension { name: "holder_rep" number: 2002 type: TYPE_MESSAGE type_name: ".c17x.Holder" label: LABEL_REPEATED extendee: ".goproto.proto.test.TestAllExtensions" json_name: "holderRep" }
  extension { name: "ext_delimited" number: 2003 type: TYPE_MESSAGE type_name: ".c17x.Ext" label: LABEL_OPTIONAL extendee: ".goproto.proto.test.TestAllExtensions" json_name: "extDelimited" options { features { message_encoding: DELIMITED } } }
  extension { name: "self" number: 100 type: TYPE_MESSAGE type_name: ".c17x.Holder" label: LABEL_OPTIONAL extendee: ".c17x.Holder" json_name: "self" }
  extension { name: "exts" number: 101 type: TYPE_MESSAGE type_name: ".c17x.Ext" label: LABEL_REPEATED extendee: ".c17x.Holder" json_name: "exts" }
  extension { name: "note" number: 102 type: TYPE_STRING label: LABEL_OPTIONAL extendee: ".c17x.Holder" json_name: "note" }
  extension { name: "nums" number: 103 type: TYPE_SINT32 label: LABEL_REPEATED extendee: ".c17x.Holder" json_name: "nums" }
}
message_type {
  name: "Item"
  field { name: "holder" number: 1 type: TYPE_MESSAGE type_name: ".c17x.Holder" label: LABEL_OPTIONAL json_name: "holder" options { lazy: true } }
  field { name: "n" number: 2 type: TYPE_INT32 label: LABEL_OPTIONAL json_name: "n" }
  extension { name: "message_set_extension" number: 2100 type: TYPE_MESSAGE type_name: ".c17x.Item" label: LABEL_OPTIONAL extendee: ".goproto.proto.messageset.MessageSet" json_name: "messageSetExtension" }
}
`

func TestGenerate(t *testing.T) {
	fd := &descriptorpb.FileDescriptorProto{}
	if err := prototext.Unmarshal([]byte(schema), fd); err != nil {
		t.Fatal(err)
	}
	req, err := gencode.Request([]*descriptorpb.FileDescriptorProto{fd}, nil, "default_api_level=API_OPAQUE,paths=source_relative")
	if err != nil {
		t.Fatal(err)
	}
	resp, err := gencode.Generate(req)
	if err != nil {
		t.Fatal(err)
	}
	if resp.Error != nil {
		t.Fatal(resp.GetError())
	}
	files := gencode.Files(resp)
	for name, content := range files {
		t.Logf("generated %s (%d bytes)", name, len(content))
	}
	src, ok := files["zverif/c17/c17xpb/c17x.pb.go"]
	if !ok {
		t.Fatalf("unexpected output names")
	}
	if err := os.WriteFile("../c17xpb/c17x.pb.go", []byte(src), 0o644); err != nil {
		t.Fatal(err)
	}
}
