package c17

import (
	"encoding/json"
	"os"
	"testing"

	"google.golang.org/protobuf/internal/flags"
	"google.golang.org/protobuf/zverif/pbt"
)

func TestZZReplay(t *testing.T) {
	// A case of the legacy leg (lazy extensions) means nothing in a binary built without
	// -tags protolegacy; replay files do not record their leg and `verif replay` builds the first one.
	if pbt.ReplayPath != "" && !flags.LazyUnmarshalExtensions {
		if b, err := os.ReadFile(pbt.ReplayPath); err == nil {
			var rf struct {
				Test string `json:"test"`
			}
			if json.Unmarshal(b, &rf) == nil && rf.Test == extProp.Name {
				t.Fatalf("replay: %s is a case of the legacy leg; run it with\n  cd /verif/harness && VERIF_REPLAY=%s go test -vet=off -tags verif,protolegacy ./c17", pbt.ReplayPath, pbt.ReplayPath)
			}
		}
	}
	pbt.Replay(t)
}
