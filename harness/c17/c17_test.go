package c17

import (
	"bytes"
	"encoding/json"
	"fmt"
	"sort"
	"testing"

	"google.golang.org/protobuf/encoding/protojson"
	"google.golang.org/protobuf/encoding/prototext"
	"google.golang.org/protobuf/proto"
	"google.golang.org/protobuf/reflect/protoreflect"
	"google.golang.org/protobuf/zverif/corpus"
	"google.golang.org/protobuf/zverif/gen"
	"google.golang.org/protobuf/zverif/mcase"
	"google.golang.org/protobuf/zverif/model"
	"google.golang.org/protobuf/zverif/ops"
	"google.golang.org/protobuf/zverif/pbt"
	"google.golang.org/protobuf/zverif/ref"
	"pgregory.net/rapid"
)

// step kinds: reads  has | get (Path + Num) | size | marshal | detmarshal | equal | clone | checkinit | json | text
//             writes package-ops kinds | mergeinto (Src) | mergefrom | reset | reunmarshal (Raw) | mergedecode (Raw)
type step struct {
	ops.Op
	Src *model.Msg `json:"src,omitempty"`
}

type twinCase struct {
	Type         string
	M            *model.Msg // content (nil when the input is a corruption)
	In           []byte
	Labels       []string
	Corrupt      string // mutation kind when In is corrupted
	AllowPartial bool
	Steps        []step
}

func readPath(m protoreflect.Message, path []ops.Step) (protoreflect.Message, bool) {
	for _, s := range path {
		fd := model.FieldDesc(m.Descriptor(), s.Num, nil)
		if fd == nil {
			return nil, false
		}
		v := m.Get(fd)
		switch {
		case fd.IsMap():
			mv := v.Map().Get(model.ToValue(fd.MapKey(), *s.Key).MapKey())
			if !mv.IsValid() {
				return nil, false
			}
			m = mv.Message()
		case fd.IsList():
			if s.Idx >= v.List().Len() {
				return nil, false
			}
			m = v.List().Get(s.Idx).Message()
		default:
			m = v.Message()
		}
	}
	return m, true
}

func obsValue(fd protoreflect.FieldDescriptor, m protoreflect.Message) string {
	v := m.Get(fd)
	switch {
	case fd.IsMap():
		return fmt.Sprintf("map-len-%d", v.Map().Len())
	case fd.IsList():
		return fmt.Sprintf("list-len-%d", v.List().Len())
	case fd.Message() != nil:
		js, _ := json.Marshal(model.Canon(fd.Message(), model.Snapshot(v.Message()), nil))
		return fmt.Sprintf("msg-valid-%v-%s", v.Message().IsValid(), js)
	}
	return fmt.Sprintf("%+v", model.FromValue(fd, v))
}

func checkTwin(c twinCase) error {
	md := mcase.Desc(c.Type)
	l, e := mcase.New(c.Type, false), mcase.New(c.Type, false)
	errL := proto.UnmarshalOptions{AllowPartial: c.AllowPartial}.Unmarshal(c.In, l.Interface())
	errE := proto.UnmarshalOptions{AllowPartial: c.AllowPartial, NoLazyDecoding: true}.Unmarshal(c.In, e.Interface())
	if (errL == nil) != (errE == nil) {
		return fmt.Errorf("Unmarshal verdicts differ: lazy %v, eager %v (input %x)", errL, errE, c.In)
	}
	if errL != nil {
		return nil
	}
	var cur *model.Msg
	if c.M != nil {
		cur = c.M.Clone()
	}
	det := proto.MarshalOptions{Deterministic: true, AllowPartial: true}
	eq := model.EqualOpts{BitwiseFloats: true}
	for i, st := range c.Steps {
		fail := func(format string, a ...any) error {
			return fmt.Errorf("step %d %s: %s", i, st.Kind, fmt.Sprintf(format, a...))
		}
		switch st.Kind {
		case "has", "get":
			ml, okL := readPath(l, st.Path)
			me, okE := readPath(e, st.Path)
			if okL != okE {
				return fail("path reachable: lazy %v eager %v", okL, okE)
			}
			if !okL {
				continue
			}
			fd := model.FieldDesc(ml.Descriptor(), st.Num, nil)
			if fd == nil {
				continue
			}
			if ml.Has(fd) != me.Has(fd) {
				return fail("Has(%s): lazy %v eager %v", fd.FullName(), ml.Has(fd), me.Has(fd))
			}
			if st.Kind == "get" {
				if a, b := obsValue(fd, ml), obsValue(fd, me); a != b {
					return fail("Get(%s): lazy %s eager %s", fd.FullName(), a, b)
				}
			}
			if od := fd.ContainingOneof(); od != nil {
				wl, we := ml.WhichOneof(od), me.WhichOneof(od)
				if (wl == nil) != (we == nil) || wl != nil && wl.Number() != we.Number() {
					return fail("WhichOneof(%s) differs", od.FullName())
				}
			}
		case "size":
			// (Size of a lazily decoded message may legitimately exceed the eager one for non-minimal input)
			sl, se := det.Size(l.Interface()), det.Size(e.Interface())
			if sl < se {
				return fail("Size: lazy %d < eager %d", sl, se)
			}
		case "marshal":
			bl, err1 := proto.MarshalOptions{AllowPartial: true}.Marshal(l.Interface())
			be, err2 := proto.MarshalOptions{AllowPartial: true}.Marshal(e.Interface())
			if err1 != nil || err2 != nil {
				return fail("Marshal errors: lazy %v eager %v", err1, err2)
			}
			dl, de := mcase.New(c.Type, false), mcase.New(c.Type, false)
			uo := proto.UnmarshalOptions{AllowPartial: true, NoLazyDecoding: true}
			if err := uo.Unmarshal(bl, dl.Interface()); err != nil {
				return fail("output of the lazy message does not decode: %v", err)
			}
			uo.Unmarshal(be, de.Interface())
			if d := model.Diff(md, model.Snapshot(de), model.Snapshot(dl), eq, nil); d != "" {
				return fail("Marshal outputs decode differently: %s", d)
			}
		case "detmarshal":
			bl, err1 := det.Marshal(l.Interface())
			be, err2 := det.Marshal(e.Interface())
			if err1 != nil || err2 != nil || !bytes.Equal(bl, be) {
				return fail("deterministic Marshal differs: lazy %x (%v) eager %x (%v)", bl, err1, be, err2)
			}
		case "equal":
			if !proto.Equal(l.Interface(), e.Interface()) || !proto.Equal(e.Interface(), l.Interface()) {
				return fail("proto.Equal(lazy, eager) false")
			}
		case "clone":
			l, e = proto.Clone(l.Interface()).ProtoReflect(), proto.Clone(e.Interface()).ProtoReflect()
		case "checkinit":
			e1, e2 := proto.CheckInitialized(l.Interface()), proto.CheckInitialized(e.Interface())
			if (e1 == nil) != (e2 == nil) {
				return fail("CheckInitialized: lazy %v eager %v", e1, e2)
			}
			_, m1 := proto.Marshal(l.Interface())
			_, m2 := proto.Marshal(e.Interface())
			if (m1 == nil) != (m2 == nil) {
				return fail("Marshal (required check): lazy %v eager %v", m1, m2)
			}
		case "json":
			jl, err1 := protojson.MarshalOptions{AllowPartial: true}.Marshal(l.Interface())
			je, err2 := protojson.MarshalOptions{AllowPartial: true}.Marshal(e.Interface())
			if (err1 == nil) != (err2 == nil) || !bytes.Equal(jl, je) {
				return fail("protojson output differs: lazy %s (%v) eager %s (%v)", jl, err1, je, err2)
			}
		case "text":
			tl, err1 := prototext.MarshalOptions{AllowPartial: true}.Marshal(l.Interface())
			te, err2 := prototext.MarshalOptions{AllowPartial: true}.Marshal(e.Interface())
			if (err1 == nil) != (err2 == nil) || !bytes.Equal(tl, te) {
				return fail("prototext output differs: lazy %s (%v) eager %s (%v)", tl, err1, te, err2)
			}
		case "mergeinto":
			for _, m := range []protoreflect.Message{l, e} {
				src := mcase.New(c.Type, false)
				if err := model.Apply(src, st.Src, nil); err != nil {
					return fmt.Errorf("harness: %v", err)
				}
				proto.Merge(m.Interface(), src.Interface())
			}
			cur = model.Merge(md, cur, st.Src, nil)
		case "mergefrom":
			dl, de := mcase.New(c.Type, false), mcase.New(c.Type, false)
			proto.Merge(dl.Interface(), l.Interface())
			proto.Merge(de.Interface(), e.Interface())
			if d := model.Diff(md, model.Snapshot(de), model.Snapshot(dl), eq, nil); d != "" {
				return fail("Merge(fresh, m) differs: %s", d)
			}
		case "reset":
			proto.Reset(l.Interface())
			proto.Reset(e.Interface())
			cur = &model.Msg{}
		case "reunmarshal", "mergedecode":
			merge := st.Kind == "mergedecode"
			e1 := proto.UnmarshalOptions{AllowPartial: true, Merge: merge}.Unmarshal(st.Raw, l.Interface())
			e2 := proto.UnmarshalOptions{AllowPartial: true, Merge: merge, NoLazyDecoding: true}.Unmarshal(st.Raw, e.Interface())
			if e1 != nil || e2 != nil {
				return fail("Unmarshal of a valid encoding failed: lazy %v eager %v", e1, e2)
			}
			if merge {
				cur = model.Merge(md, cur, st.Src, nil)
			} else {
				cur = st.Src.Clone()
			}
		default: // reflection write
			if cur == nil {
				return fmt.Errorf("harness: write step without a model")
			}
			if err := ops.ApplyModel(md, cur, st.Op); err != nil {
				return err
			}
			if err := ops.ApplyMsg(l, st.Op); err != nil {
				return err
			}
			if err := ops.ApplyMsg(e, st.Op); err != nil {
				return err
			}
		}
	}
	// final: everything, against each other and against the model
	bl, err1 := det.Marshal(l.Interface())
	be, err2 := det.Marshal(e.Interface())
	if err1 != nil || err2 != nil || !bytes.Equal(bl, be) {
		return fmt.Errorf("final deterministic Marshal differs: lazy %x (%v) eager %x (%v)", bl, err1, be, err2)
	}
	if !proto.Equal(l.Interface(), e.Interface()) {
		return fmt.Errorf("final proto.Equal(lazy, eager) false")
	}
	if d := model.Diff(md, model.Snapshot(e), model.Snapshot(l), eq, nil); d != "" {
		return fmt.Errorf("final state differs: %s", d)
	}
	if cur != nil {
		if err := ops.Verify(l, cur); err != nil {
			return fmt.Errorf("final lazy message vs model: %v", err)
		}
	}
	return nil
}

var lazyTypes = corpus.LazyCapable()

// lazyPaths lists read paths: the empty path and chains through populated singular message fields.
func lazyPaths(md protoreflect.MessageDescriptor, v *model.Msg, prefix []ops.Step, depth int, out *[][]ops.Step) {
	*out = append(*out, append([]ops.Step(nil), prefix...))
	if v == nil || depth == 0 {
		return
	}
	for _, f := range v.Fields {
		fd := model.FieldDesc(md, f.Num, nil)
		if fd == nil || fd.IsMap() || fd.Message() == nil {
			continue
		}
		if fd.IsList() {
			for i := range f.Vals {
				lazyPaths(fd.Message(), f.Vals[i].M, append(prefix, ops.Step{Num: f.Num, Idx: i}), depth-1, out)
			}
		} else {
			lazyPaths(fd.Message(), f.Vals[0].M, append(prefix, ops.Step{Num: f.Num, Idx: -1}), depth-1, out)
		}
	}
}

func descAt(md protoreflect.MessageDescriptor, path []ops.Step) protoreflect.MessageDescriptor {
	for _, s := range path {
		fd := model.FieldDesc(md, s.Num, nil)
		md = fd.Message()
	}
	return md
}

func drawTwin(t *rapid.T) twinCase {
	c := twinCase{Type: rapid.SampledFrom(lazyTypes).Draw(t, "type"), AllowPartial: rapid.IntRange(0, 3).Draw(t, "allowpartial") > 0}
	md := mcase.Desc(c.Type)
	mo := gen.DefaultMsgOpts
	mo.Depth = 5
	mo.Extensions = false
	if !c.AllowPartial {
		mo.RequiredOmit = 6
	}
	// make sure lazy fields are populated most of the time
	content := gen.DrawMessage(t, md, mo)
	for _, num := range corpus.LazyFields(md) {
		if content.Get(int32(num)) == nil && rapid.IntRange(0, 3).Draw(t, "forcelazy") > 0 {
			if f, ok := gen.DrawField(t, md.Fields().ByNumber(num), mo); ok {
				content.Put(f)
			}
		}
	}
	eo := model.AllPerturbations
	eo.Interleave = true
	eo.Labels = &c.Labels
	enc := model.Encode(md, content, gen.RapidChooser{T: t}, eo, nil)
	if k := rapid.IntRange(0, 8).Draw(t, "corrupt"); k <= 2 {
		switch {
		case k == 0:
			c.In, c.Corrupt = gen.MutateDeep(t, enc)
		case k == 2:
			// a packed run with one hostile element, at the top level or below (lazy) message fields:
			// the lazy validator and the eager decoder must agree on it
			if b, kind, ok := gen.PackedFault(t, md); ok {
				c.In, c.Corrupt = b, "packed-fault-"+kind
			} else {
				c.In, c.Corrupt = gen.MutateDeep(t, enc)
			}
		default:
			c.In, c.Corrupt = injectWrongWire(t, md, enc), "wrong-wiretype-occurrence"
		}
		// content unknown to the model: verdict comparison, then read-only steps at blind paths
		n := rapid.IntRange(1, 8).Draw(t, "rsteps")
		for i := 0; i < n; i++ {
			k := rapid.SampledFrom([]string{"has", "get", "get", "get", "size", "marshal", "detmarshal", "equal", "clone", "checkinit", "json", "text", "mergefrom"}).Draw(t, "rkind")
			st := step{Op: ops.Op{Kind: k}}
			if k == "has" || k == "get" {
				d := md
				for depth := rapid.IntRange(0, 3).Draw(t, "blinddepth"); depth > 0; depth-- {
					lf := corpus.LazyFields(d)
					if len(lf) == 0 {
						break
					}
					num := lf[rapid.IntRange(0, len(lf)-1).Draw(t, "blindlf")]
					st.Path = append(st.Path, ops.Step{Num: int32(num), Idx: -1})
					d = d.Fields().ByNumber(num).Message()
				}
				if lf := corpus.LazyFields(d); len(lf) > 0 && rapid.IntRange(0, 3).Draw(t, "blindlazy") > 0 {
					st.Num = int32(lf[rapid.IntRange(0, len(lf)-1).Draw(t, "blindlfi")])
				} else {
					st.Num = int32(d.Fields().Get(rapid.IntRange(0, d.Fields().Len()-1).Draw(t, "blindfield")).Number())
				}
			}
			c.Steps = append(c.Steps, st)
		}
		return c
	}
	c.M, c.In = content, enc
	cur := content.Clone()
	n := rapid.IntRange(1, 15).Draw(t, "steps")
	for i := 0; i < n; i++ {
		k := rapid.SampledFrom([]string{"has", "get", "get", "get", "size", "marshal", "detmarshal", "equal", "clone", "checkinit", "json", "text", "write", "write", "mergeinto", "mergefrom", "reset", "reunmarshal", "mergedecode"}).Draw(t, "kind")
		switch k {
		case "has", "get":
			var ps [][]ops.Step
			lazyPaths(md, cur, nil, 4, &ps)
			p := ps[rapid.IntRange(0, len(ps)-1).Draw(t, "path")]
			d := descAt(md, p)
			if d.Fields().Len() == 0 {
				continue
			}
			fd := d.Fields().Get(rapid.IntRange(0, d.Fields().Len()-1).Draw(t, "field"))
			// prefer lazy fields
			if lf := corpus.LazyFields(d); len(lf) > 0 && rapid.Bool().Draw(t, "lazyfield") {
				fd = d.Fields().ByNumber(lf[rapid.IntRange(0, len(lf)-1).Draw(t, "lf")])
			}
			c.Steps = append(c.Steps, step{Op: ops.Op{Kind: k, Path: p, Num: int32(fd.Number())}})
		case "write":
			wo := mo
			wo.RequiredOmit = 0
			op := ops.DrawOp(t, md, cur, ops.GenOpts{Msg: wo, MaxDepth: 3})
			if err := ops.ApplyModel(md, cur, op); err != nil {
				panic(err)
			}
			c.Steps = append(c.Steps, step{Op: op})
		case "mergeinto":
			src := gen.DrawColliding(t, md, cur, mo)
			c.Steps = append(c.Steps, step{Op: ops.Op{Kind: k}, Src: src})
			cur = model.Merge(md, cur, src, nil)
		case "reunmarshal", "mergedecode":
			src := gen.DrawColliding(t, md, cur, mo)
			raw := model.Encode(md, src, gen.RapidChooser{T: t}, eo, nil)
			c.Steps = append(c.Steps, step{Op: ops.Op{Kind: k, Raw: raw}, Src: src})
			if k == "mergedecode" {
				cur = model.Merge(md, cur, src, nil)
			} else {
				cur = src.Clone()
			}
		case "reset":
			c.Steps = append(c.Steps, step{Op: ops.Op{Kind: k}})
			cur = &model.Msg{}
		default:
			c.Steps = append(c.Steps, step{Op: ops.Op{Kind: k}})
		}
	}
	return c
}

// injectWrongWire inserts, next to an occurrence of a lazy field (at the top level or one lazy level
// down), a record that carries the same field number with another wire type. Both decoders must
// treat it as an unknown field; the lazy index sees two adjacent entries for one field number.
func injectWrongWire(t *rapid.T, md protoreflect.MessageDescriptor, enc []byte) []byte {
	recs, ok := ref.Split(enc)
	if !ok {
		return enc
	}
	lazy := map[int64]bool{}
	for _, n := range corpus.LazyFields(md) {
		lazy[int64(n)] = true
	}
	var idx []int
	for i, r := range recs {
		if lazy[r.Num] {
			idx = append(idx, i)
		}
	}
	if len(idx) == 0 {
		return enc
	}
	at := idx[rapid.IntRange(0, len(idx)-1).Draw(t, "wwat")]
	num := recs[at].Num
	junk := func() []byte {
		switch rapid.IntRange(0, 2).Draw(t, "wwtype") {
		case 0:
			return append(ref.Tag(nil, num, 0), 0x2a)
		case 1:
			return ref.Fixed64(ref.Tag(nil, num, 1), 7)
		}
		return ref.Fixed32(ref.Tag(nil, num, 5), 7)
	}
	var out []byte
	for i, r := range recs {
		raw := r.Raw
		if i == at && r.Typ == 2 && rapid.Bool().Draw(t, "wwnested") {
			// recurse one level: the payload is a message of the lazy field's type
			sub := md.Fields().ByNumber(protoreflect.FieldNumber(num)).Message()
			p := injectWrongWire(t, sub, r.Payload())
			raw = append(ref.Varint(ref.Tag(nil, r.Num, 2), uint64(len(p))), p...)
		}
		if i == at && rapid.Bool().Draw(t, "wwbefore") {
			out = append(out, junk()...)
		}
		out = append(out, raw...)
		if i == at && rapid.Bool().Draw(t, "wwafter") {
			out = append(out, junk()...)
			if rapid.Bool().Draw(t, "wwagain") {
				out = append(out, r.Raw...) // right, wrong, right
			}
		}
	}
	return out
}

func lazyDepth(md protoreflect.MessageDescriptor, v *model.Msg) int {
	best := 0
	if v == nil {
		return 0
	}
	for _, num := range corpus.LazyFields(md) {
		if f := v.Get(int32(num)); f != nil {
			if d := 1 + lazyDepth(md.Fields().ByNumber(num).Message(), f.Vals[0].M); d > best {
				best = d
			}
		}
	}
	return best
}

func TestTwin(t *testing.T) {
	pbt.Run(t, pbt.Prop[twinCase]{
		Name: "twin",
		Rule: "lazy-capable types of this build; content with the lazy fields populated 3/4 of the time (nesting <= 5), required fields omitted 1/6 when AllowPartial is off; encoding perturbed (shuffle, repack, padded varints, decoys, split submessages contiguous and non-contiguous, map variants); 1/6 of the inputs corrupted inside nested payloads (verdict comparison only); 1..15 steps of reads and writes on both twins. non-trivial = a lazy field is populated and the input is non-canonical or the lazy nesting depth is >= 2",
		Draw:  drawTwin,
		Check: checkTwin,
		NonTrivial: func(c twinCase) bool {
			if c.M == nil {
				return c.Corrupt != ""
			}
			d := lazyDepth(mcase.Desc(c.Type), c.M)
			return d >= 1 && (len(c.Labels) > 0 || d >= 2)
		},
		Classes: func(c twinCase) []string {
			k := map[string]bool{}
			for _, st := range c.Steps {
				k[st.Kind] = true
			}
			for _, l := range c.Labels {
				k["enc-"+l] = true
			}
			if c.Corrupt != "" {
				k["corrupt"] = true
			}
			if c.M != nil {
				k[fmt.Sprintf("lazy-depth-%d", min(lazyDepth(mcase.Desc(c.Type), c.M), 3))] = true
			}
			if !c.AllowPartial {
				k["check-required"] = true
			}
			var out []string
			for x := range k {
				out = append(out, x)
			}
			sort.Strings(out)
			return out
		},
		Quick: 4000, Thorough: 70000,
	})
}
