package c17

// Reference encoder of the "legacy" leg (lazy extensions, -tags protolegacy).
//
// model.Encode knows neither the MessageSet wire format nor extension-specific perturbations, so
// this file adds a model-driven encoder around it: fields whose values cannot contain extensions
// are delegated to model.Encode (one field at a time, with all of its perturbations); extension
// fields and message fields that lead to extendable messages are encoded here:
//
//   - a singular message / group extension may be written as 2..3 occurrences that merge,
//   - records of one field stay in order but may be interleaved with the records of other fields
//     (the same extension contiguous and non-contiguous, unknown records in between),
//   - next to an occurrence of a message / group extension a record with the same number and a
//     wrong wire type may be inserted (it has to end up in the unknown fields),
//   - messages with message_set_wire_format are written as items (type_id / message in either
//     order, the message split over several message fields, ignorable fields inside and between
//     items); unknown items are kept by Go as plain length-delimited fields in the unknown bytes.
//
// The encoder updates the Unknown bytes of every model node it walks to the bytes a decoder has
// to collect (inserted wrong-wire-type records included, in emission order).

import (
	"strings"
	"sync"
	"unicode/utf8"

	"google.golang.org/protobuf/reflect/protoreflect"
	"google.golang.org/protobuf/reflect/protoregistry"
	"google.golang.org/protobuf/zverif/gen"
	"google.golang.org/protobuf/zverif/model"
	"google.golang.org/protobuf/zverif/ref"
	"pgregory.net/rapid"
)

func isMessageSet(md protoreflect.MessageDescriptor) bool {
	x, ok := md.(interface{ IsMessageSet() bool })
	return ok && x.IsMessageSet()
}

var (
	extsMu    sync.Mutex
	extsCache = map[protoreflect.FullName][]protoreflect.ExtensionType{}
	reachMu   sync.Mutex
	reachMemo = map[protoreflect.FullName]bool{}
)

// extsOf lists the registered extensions of a message, ascending by number.
func extsOf(md protoreflect.MessageDescriptor) []protoreflect.ExtensionType {
	extsMu.Lock()
	defer extsMu.Unlock()
	if x, ok := extsCache[md.FullName()]; ok {
		return x
	}
	var out []protoreflect.ExtensionType
	if md.ExtensionRanges().Len() > 0 {
		out = model.ExtensionsOf(md.FullName())
	}
	extsCache[md.FullName()] = out
	return out
}

// lazyCapable: extension kinds that flags.LazyUnmarshalExtensions can keep in wire form.
func lazyCapable(fd protoreflect.FieldDescriptor) bool {
	return fd.IsExtension() && fd.Message() != nil && !fd.IsMap()
}

// reachesExt reports whether md, or a message reachable through declared fields or extensions,
// is a MessageSet or has registered extensions.
func reachesExt(md protoreflect.MessageDescriptor) bool {
	reachMu.Lock()
	if v, ok := reachMemo[md.FullName()]; ok {
		reachMu.Unlock()
		return v
	}
	reachMu.Unlock()
	seen := map[protoreflect.FullName]bool{}
	var walk func(d protoreflect.MessageDescriptor) bool
	walk = func(d protoreflect.MessageDescriptor) bool {
		if seen[d.FullName()] {
			return false
		}
		seen[d.FullName()] = true
		if isMessageSet(d) || len(extsOf(d)) > 0 {
			return true
		}
		fs := d.Fields()
		for i := 0; i < fs.Len(); i++ {
			sub := fs.Get(i).Message()
			if fs.Get(i).IsMap() {
				sub = fs.Get(i).MapValue().Message()
			}
			if sub != nil && walk(sub) {
				return true
			}
		}
		return false
	}
	res := walk(md)
	reachMu.Lock()
	reachMemo[md.FullName()] = res
	reachMu.Unlock()
	return res
}

// skipExtMaps is a gen.MsgOpts.SkipField: map fields whose values lead to extendable messages are
// left out (the encoder delegates maps to model.Encode, which cannot write MessageSets).
func skipExtMaps(fd protoreflect.FieldDescriptor) bool {
	return fd.IsMap() && fd.MapValue().Message() != nil && reachesExt(fd.MapValue().Message())
}

// ---------------------------------------------------------------------------------------------

type chunk struct {
	key int64  // field number; -1: a record that the decoder has to keep as unknown
	b   []byte // bytes on the wire
	ub  []byte // for key -1: bytes expected in the unknown fields (nil: same as b)
}

type xenc struct {
	t      *rapid.T
	c      model.Chooser
	labels *[]string
	eo     model.EncOpts
}

func newXenc(t *rapid.T, labels *[]string) *xenc {
	eo := model.AllPerturbations
	eo.Interleave = true
	eo.Labels = labels
	return &xenc{t: t, c: gen.RapidChooser{T: t}, labels: labels, eo: eo}
}

func (e *xenc) label(s string) {
	if e.labels != nil {
		*e.labels = append(*e.labels, s)
	}
}

func (e *xenc) coin(n int, label string) bool { return e.c.Intn(n, label) == 0 }

func (e *xenc) varint(b []byte, v uint64) []byte {
	if e.coin(6, "xdenorm") {
		if n := ref.VarintLen(v) + 1 + e.c.Intn(2, "xpad"); n <= 10 {
			e.label("denorm-varint")
			return ref.VarintPadded(b, v, n)
		}
	}
	return ref.Varint(b, v)
}

func (e *xenc) tag(b []byte, num int64, typ int) []byte {
	return e.varint(b, uint64(num)<<3|uint64(typ))
}

// Encode returns a perturbed encoding of v and rewrites the Unknown bytes in v (see file comment).
func (e *xenc) Encode(md protoreflect.MessageDescriptor, v *model.Msg) []byte {
	return e.msg(md, v)
}

func (e *xenc) msg(md protoreflect.MessageDescriptor, v *model.Msg) []byte {
	if v == nil {
		return nil
	}
	mset := isMessageSet(md)
	var seq []chunk
	for _, f := range v.Fields {
		fd := model.FieldDesc(md, f.Num, nil)
		if fd == nil {
			panic("xenc: unresolvable field")
		}
		own := fd.Message() != nil && !fd.IsMap() && (fd.IsExtension() || reachesExt(fd.Message()))
		switch {
		case mset || own && !fd.IsList():
			seq = append(seq, e.singular(fd, f, mset)...)
		case own:
			for i := range f.Vals {
				if f.Vals[i].M == nil {
					f.Vals[i].M = &model.Msg{}
				}
				body := e.msg(fd.Message(), f.Vals[i].M)
				seq = append(seq, chunk{key: int64(f.Num), b: e.wrap(fd, body)})
				seq = e.junk(seq, fd)
			}
		default:
			enc := model.Encode(md, &model.Msg{Fields: []model.Field{f}}, e.c, e.eo, nil)
			recs, ok := ref.Split(enc)
			if !ok {
				panic("xenc: model.Encode produced a malformed field")
			}
			for _, r := range recs {
				seq = append(seq, chunk{key: int64(f.Num), b: r.Raw})
			}
		}
	}
	// unknown fields of the model, record by record
	if recs, ok := ref.Split(v.Unknown); ok {
		for _, r := range recs {
			if mset {
				// an unknown item; Go keeps it as the plain field (minimal tag, value as it came)
				seq = append(seq, chunk{key: -1, b: e.item(r.Num, r.Val, false), ub: append(ref.Tag(nil, r.Num, 2), r.Val...)})
			} else {
				seq = append(seq, chunk{key: -1, b: r.Raw})
			}
		}
	} else if len(v.Unknown) > 0 {
		panic("xenc: malformed unknown bytes in the model")
	}
	if mset {
		seq = e.msetNoise(seq)
	}
	// order: records of one key keep their order; different keys may interleave
	if len(seq) > 1 && e.coin(2, "xriffle") {
		seq = e.riffle(seq)
		e.label("riffled")
	}
	var out, unk []byte
	for _, c := range seq {
		out = append(out, c.b...)
		if c.key == -1 {
			if c.ub != nil {
				unk = append(unk, c.ub...)
			} else {
				unk = append(unk, c.b...)
			}
		}
	}
	v.Unknown = unk
	return out
}

// riffle merges the per-key queues in a drawn order.
func (e *xenc) riffle(seq []chunk) []chunk {
	var keys []int64
	queues := map[int64][]chunk{}
	for _, c := range seq {
		if _, ok := queues[c.key]; !ok {
			keys = append(keys, c.key)
		}
		queues[c.key] = append(queues[c.key], c)
	}
	out := make([]chunk, 0, len(seq))
	for len(keys) > 0 {
		i := e.c.Intn(len(keys), "xpick")
		k := keys[i]
		out = append(out, queues[k][0])
		queues[k] = queues[k][1:]
		if len(queues[k]) == 0 {
			keys = append(keys[:i:i], keys[i+1:]...)
		}
	}
	return out
}

// singular encodes a singular message / group field as 1..3 occurrences that merge.
func (e *xenc) singular(fd protoreflect.FieldDescriptor, f model.Field, mset bool) []chunk {
	if fd.Message() == nil || fd.IsList() {
		panic("xenc: a MessageSet extension must be a singular message")
	}
	if f.Vals[0].M == nil {
		f.Vals[0].M = &model.Msg{}
	}
	node := f.Vals[0].M
	parts := []*model.Msg{node}
	if n := len(node.Fields); n >= 2 && e.coin(4, "xsplit") {
		cut := 1 + e.c.Intn(n-1, "xcut")
		parts = []*model.Msg{{Fields: node.Fields[:cut:cut]}, {Fields: node.Fields[cut:], Unknown: node.Unknown}}
		if n-cut >= 2 && e.coin(3, "xsplit3") {
			c2 := cut + 1 + e.c.Intn(n-cut-1, "xcut2")
			parts = []*model.Msg{{Fields: node.Fields[:cut:cut]}, {Fields: node.Fields[cut:c2:c2]}, {Fields: node.Fields[c2:], Unknown: node.Unknown}}
		}
		e.label("ext-split-" + map[bool]string{true: "group", false: "message"}[fd.Kind() == protoreflect.GroupKind])
	} else if e.coin(12, "xemptyocc") {
		// an empty occurrence before the real one
		parts = []*model.Msg{{}, node}
		e.label("ext-empty-occurrence")
	}
	var seq []chunk
	var unk []byte
	for _, p := range parts {
		body := e.msg(fd.Message(), p)
		unk = append(unk, p.Unknown...)
		if mset {
			seq = append(seq, chunk{key: int64(f.Num), b: e.item(int64(f.Num), append(e.varint(nil, uint64(len(body))), body...), true)})
		} else {
			seq = append(seq, chunk{key: int64(f.Num), b: e.wrap(fd, body)})
			seq = e.junk(seq, fd)
		}
	}
	node.Unknown = unk
	return seq
}

func (e *xenc) wrap(fd protoreflect.FieldDescriptor, body []byte) []byte {
	num := int64(fd.Number())
	if fd.Kind() == protoreflect.GroupKind {
		b := e.tag(nil, num, 3)
		b = append(b, body...)
		return e.tag(b, num, 4)
	}
	b := e.tag(nil, num, 2)
	b = e.varint(b, uint64(len(body)))
	return append(b, body...)
}

// junk may append a record that carries the number of a message / group extension with a wire
// type the extension cannot have: both decoders must keep it as an unknown field.
func (e *xenc) junk(seq []chunk, fd protoreflect.FieldDescriptor) []chunk {
	if !fd.IsExtension() || !e.coin(7, "xjunk") {
		return seq
	}
	num := int64(fd.Number())
	var b []byte
	switch e.c.Intn(5, "xjunktype") {
	case 0:
		b = append(ref.Tag(nil, num, 0), 0x2a)
	case 1:
		b = ref.Fixed64(ref.Tag(nil, num, 1), 7)
	case 2:
		b = ref.Fixed32(ref.Tag(nil, num, 5), 7)
	case 3:
		if fd.Kind() == protoreflect.GroupKind {
			b = append(ref.Tag(nil, num, 2), 2, 0x08, 0x01) // length-delimited where a group is expected
		} else {
			b = ref.Tag(ref.Tag(nil, num, 3), num, 4) // empty group where a message is expected
		}
	default:
		b = append(ref.Tag(nil, num, 0), 0x80, 0x01)
	}
	e.label("ext-wrong-wiretype")
	return append(seq, chunk{key: -1, b: b})
}

// item writes one MessageSet item. val is the length-prefixed content of the message field.
func (e *xenc) item(id int64, val []byte, known bool) []byte {
	typeID := func(b []byte) []byte {
		b = e.tag(b, 2, 0)
		return e.varint(b, uint64(id))
	}
	message := func(b []byte) []byte {
		_, n, _ := ref.ConsumeVarint(val)
		payload := val[n:]
		if known && len(payload) >= 2 && e.coin(5, "xitemsplit") {
			// several message fields of one item concatenate
			cut := 1 + e.c.Intn(len(payload)-1, "xitemcut")
			e.label("mset-item-split-message")
			b = e.tag(b, 3, 2)
			b = e.varint(b, uint64(cut))
			b = append(b, payload[:cut]...)
			b = e.tag(b, 3, 2)
			b = e.varint(b, uint64(len(payload)-cut))
			return append(b, payload[cut:]...)
		}
		b = e.tag(b, 3, 2)
		return append(b, val...)
	}
	noise := func(b []byte) []byte {
		if e.coin(8, "xitemnoise") {
			e.label("mset-item-noise")
			switch e.c.Intn(3, "xitemnoisekind") {
			case 0:
				b = append(ref.Tag(b, 4, 0), 0x07)
			case 1:
				b = ref.Fixed32(ref.Tag(b, 2, 5), 9) // type_id number, wrong wire type: ignored
			default:
				b = append(ref.Tag(b, 9, 2), 1, 0x00)
			}
		}
		return b
	}
	b := e.tag(nil, 1, 3)
	b = noise(b)
	if e.coin(3, "xitemorder") {
		e.label("mset-message-before-typeid")
		b = typeID(noise(message(b)))
	} else {
		b = message(noise(typeID(b)))
	}
	b = noise(b)
	return e.tag(b, 1, 4)
}

// msetNoise inserts fields other than items between the items of a MessageSet (they are discarded).
func (e *xenc) msetNoise(seq []chunk) []chunk {
	if !e.coin(6, "xmsetnoise") {
		return seq
	}
	e.label("mset-noise-between-items")
	var b []byte
	switch e.c.Intn(3, "xmsetnoisekind") {
	case 0:
		b = append(ref.Tag(nil, 5, 0), 0x01)
	case 1:
		b = append(ref.Tag(nil, 1, 2), 1, 0x00) // number 1 but not a group
	default:
		b = ref.Tag(ref.Tag(nil, 2, 3), 2, 4) // a group that is not number 1
	}
	at := e.c.Intn(len(seq)+1, "xmsetnoiseat")
	out := append([]chunk(nil), seq[:at]...)
	out = append(out, chunk{key: -2, b: b})
	return append(out, seq[at:]...)
}

// ---------------------------------------------------------------------------------------------
// model repairs: what gen.DrawMessage cannot know about MessageSets

// repair applies fixMsets and fixStrings.
func repair(t *rapid.T, md protoreflect.MessageDescriptor, v *model.Msg) {
	fixMsets(t, md, v)
	fixStrings(md, v)
}

// fixMsets gives every MessageSet node in the tree unknown bytes of the only form such a message
// can hold (length-delimited records with unregistered numbers from its extension ranges); t == nil
// clears them instead.
func fixMsets(t *rapid.T, md protoreflect.MessageDescriptor, v *model.Msg) {
	if v == nil {
		return
	}
	if isMessageSet(md) {
		v.Unknown = nil
		if t != nil && rapid.IntRange(0, 2).Draw(t, "msetunknown?") == 0 {
			n := rapid.IntRange(1, 3).Draw(t, "msetunknownn")
			for i := 0; i < n; i++ {
				id := rapid.SampledFrom([]int64{4, 5, 999, 2047, 2048, 19000, 1 << 20, 123456, 1<<29 - 1, 1<<31 - 1}).Draw(t, "msetunknownid")
				if !md.ExtensionRanges().Has(protoreflect.FieldNumber(id)) || model.FieldDesc(md, int32(id), nil) != nil {
					continue
				}
				var p []byte
				if rapid.Bool().Draw(t, "msetunknownfields") {
					p = gen.FieldSeq(1, 3, false, nil).Draw(t, "msetunknownpayload")
				} else {
					p = gen.Bytes(12).Draw(t, "msetunknownbytes")
				}
				v.Unknown = ref.Tag(v.Unknown, id, 2)
				v.Unknown = ref.Varint(v.Unknown, uint64(len(p)))
				v.Unknown = append(v.Unknown, p...)
			}
		}
	}
	for _, f := range v.Fields {
		fd := model.FieldDesc(md, f.Num, nil)
		if fd == nil {
			continue
		}
		sub := fd.Message()
		if fd.IsMap() {
			sub = fd.MapValue().Message()
		}
		if sub == nil {
			continue
		}
		for i := range f.Vals {
			fixMsets(t, sub, f.Vals[i].M)
		}
	}
}

// enforcesUTF8 is gen.EnforcesUTF8 for extension fields as well: the descriptor of an extension
// is usually wrapped in an ExtensionTypeDescriptor, which hides the answer of the declaration.
func enforcesUTF8(fd protoreflect.FieldDescriptor) bool {
	if xtd, ok := fd.(protoreflect.ExtensionTypeDescriptor); ok {
		fd = xtd.Descriptor()
	}
	return gen.EnforcesUTF8(fd)
}

// fixStrings replaces invalid UTF-8 in validated string extensions (gen.DrawMessage takes string
// extensions of editions files for unvalidated ones) by a valid string.
func fixStrings(md protoreflect.MessageDescriptor, v *model.Msg) {
	if v == nil {
		return
	}
	for fi := range v.Fields {
		f := &v.Fields[fi]
		fd := model.FieldDesc(md, f.Num, nil)
		if fd == nil || fd.IsMap() {
			continue
		}
		for i := range f.Vals {
			switch {
			case fd.Message() != nil:
				fixStrings(fd.Message(), f.Vals[i].M)
			case fd.Kind() == protoreflect.StringKind && fd.IsExtension() && enforcesUTF8(fd) && !utf8.Valid(f.Vals[i].B):
				f.Vals[i].B = []byte(strings.ToValidUTF8(string(f.Vals[i].B), "?"))
			}
		}
	}
}

// reachesMset reports whether a MessageSet is reachable from md (declared fields and extensions).
func reachesMset(md protoreflect.MessageDescriptor) bool {
	seen := map[protoreflect.FullName]bool{}
	var walk func(d protoreflect.MessageDescriptor) bool
	walk = func(d protoreflect.MessageDescriptor) bool {
		if seen[d.FullName()] {
			return false
		}
		seen[d.FullName()] = true
		if isMessageSet(d) {
			return true
		}
		fs := d.Fields()
		for i := 0; i < fs.Len(); i++ {
			sub := fs.Get(i).Message()
			if fs.Get(i).IsMap() {
				sub = fs.Get(i).MapValue().Message()
			}
			if sub != nil && walk(sub) {
				return true
			}
		}
		for _, xt := range extsOf(d) {
			if sub := xt.TypeDescriptor().Message(); sub != nil && walk(sub) {
				return true
			}
		}
		return false
	}
	return walk(md)
}

// ---------------------------------------------------------------------------------------------
// directed corruption: a defect inside the payload of an extension record

// corruptExt mutates the payload of one extension occurrence (possibly one more extension level
// down) and re-encodes the enclosing length prefixes; falls back to gen.MutateDeep.
func corruptExt(t *rapid.T, md protoreflect.MessageDescriptor, enc []byte, levels int) ([]byte, string) {
	recs, ok := ref.Split(enc)
	if !ok {
		return gen.MutateDeep(t, enc)
	}
	mset := isMessageSet(md)
	var idx []int
	for i, r := range recs {
		if mset {
			if r.Num == 1 && r.Typ == 3 {
				idx = append(idx, i)
			}
			continue
		}
		fd := model.FieldDesc(md, int32(r.Num), nil)
		if fd == nil || fd.Message() == nil || fd.IsMap() {
			continue
		}
		if (fd.IsExtension() || reachesExt(fd.Message())) && (r.Typ == 2 && fd.Kind() == protoreflect.MessageKind || r.Typ == 3 && fd.Kind() == protoreflect.GroupKind) {
			idx = append(idx, i)
		}
	}
	if len(idx) == 0 {
		return gen.MutateDeep(t, enc)
	}
	at := idx[rapid.IntRange(0, len(idx)-1).Draw(t, "cxrec")]
	r := recs[at]
	mutate := func(sub protoreflect.MessageDescriptor, payload []byte) ([]byte, string) {
		if levels > 1 && sub != nil && rapid.Bool().Draw(t, "cxdeeper") {
			return corruptExt(t, sub, payload, levels-1)
		}
		switch rapid.IntRange(0, 5).Draw(t, "cxkind") {
		case 0:
			if len(payload) > 0 {
				p := append([]byte(nil), payload...)
				p[rapid.IntRange(0, len(p)-1).Draw(t, "cxpos")] = rapid.SampledFrom([]byte{0xff, 0x80, 0xc0, 0x00, 0x07}).Draw(t, "cxbyte")
				return p, "ext-byte"
			}
		case 1:
			if prs, ok := ref.Split(payload); ok && len(prs) > 0 {
				// drop one record of the payload (a required field, perhaps)
				d := rapid.IntRange(0, len(prs)-1).Draw(t, "cxdrop")
				var p []byte
				for i, pr := range prs {
					if i != d {
						p = append(p, pr.Raw...)
					}
				}
				return p, "ext-drop-record"
			}
		case 2:
			return append(append([]byte(nil), payload...), 0x0c), "ext-stray-endgroup"
		}
		p, k := gen.Mutate(t, payload)
		return p, "ext-" + k
	}
	var raw []byte
	var kind string
	switch {
	case mset:
		// item: find the message field
		body := r.Val[:len(r.Val)-len(ref.Tag(nil, 1, 4))]
		irecs, ok := ref.Split(body)
		if !ok {
			return gen.MutateDeep(t, enc)
		}
		var id int64
		for _, ir := range irecs {
			if ir.Num == 2 && ir.Typ == 0 {
				id = int64(ir.VarintValue())
			}
		}
		var sub protoreflect.MessageDescriptor
		if fd := model.FieldDesc(md, int32(id), nil); fd != nil {
			sub = fd.Message()
		}
		raw = ref.Tag(nil, 1, 3)
		done := false
		for _, ir := range irecs {
			if ir.Num == 3 && ir.Typ == 2 && !done {
				done = true
				var p []byte
				p, kind = mutate(sub, ir.Payload())
				raw = ref.Tag(raw, 3, 2)
				raw = ref.Varint(raw, uint64(len(p)))
				raw = append(raw, p...)
				continue
			}
			raw = append(raw, ir.Raw...)
		}
		raw = ref.Tag(raw, 1, 4)
		if !done {
			return gen.MutateDeep(t, enc)
		}
		kind = "mset-" + kind
	case r.Typ == 2:
		fd := model.FieldDesc(md, int32(r.Num), nil)
		var p []byte
		p, kind = mutate(fd.Message(), r.Payload())
		raw = ref.Tag(nil, r.Num, 2)
		raw = ref.Varint(raw, uint64(len(p)))
		raw = append(raw, p...)
	default:
		fd := model.FieldDesc(md, int32(r.Num), nil)
		end := ref.Tag(nil, r.Num, 4)
		body := r.Val
		if len(body) >= len(end) {
			body = body[:len(body)-len(end)] // (a padded end tag stays in the body: then the mutation works on slightly different bytes)
		}
		var p []byte
		p, kind = mutate(fd.Message(), body)
		raw = ref.Tag(nil, r.Num, 3)
		raw = append(raw, p...)
		raw = append(raw, end...)
		kind = "group-" + kind
	}
	var out []byte
	for i, x := range recs {
		if i == at {
			out = append(out, raw...)
		} else {
			out = append(out, x.Raw...)
		}
	}
	return out, kind
}

var _ = protoregistry.GlobalTypes
