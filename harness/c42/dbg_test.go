package c42

import (
	"encoding/json"
	"fmt"
	"sort"
	"testing"

	"pgregory.net/rapid"
)

func TestDbg(t *testing.T) {
	cnt := map[string]int{}
	ex := map[string]string{}
	n := 0
	rapid.Check(t, func(rt *rapid.T) {
		c := drawNameCase(rt)
		n++
		if err := c.valid(); err != nil {
			t.Fatalf("invalid: %v", err)
		}
		files, err := generateNames(c)
		if err != nil {
			cnt["ERR "+err.Error()[:80]]++
			return
		}
		cl, err := allClashes(files, c.Level)
		if err != nil {
			t.Fatal(err)
		}
		for _, k := range cl {
			id := knownClash(c, k)
			if id == "" {
				id = "UNEXPLAINED"
			}
			sig := fmt.Sprintf("%-36s %-26s %-8s %s+%s %s", id, k.Level, k.Scope, k.A, k.B, k.Name)
			cnt[sig]++
			b, _ := json.Marshal(c)
			if ex[sig] == "" || len(b) < len(ex[sig]) {
				ex[sig] = string(b)
			}
		}
	})
	var keys []string
	for k := range cnt {
		keys = append(keys, k)
	}
	sort.Strings(keys)
	for _, k := range keys {
		t.Logf("%5d %s\n      %s", cnt[k], k, ex[k])
	}
	t.Logf("n=%d", n)
}
