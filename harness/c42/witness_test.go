package c42

import (
	"fmt"
	"testing"

	"google.golang.org/protobuf/zverif/pbt"
)

type witness struct {
	id   string
	c    nameCase
	want clash // Level, Scope, Name, A, B of one clash the case must show
}

func f(name, kind string, oneof int) fieldSpec { return fieldSpec{Name: name, Kind: kind, Oneof: oneof} }

var witnesses = []witness{
	{kfProtoReflect,
		nameCase{Syntax: "proto3", Level: "API_OPEN", Msg: "Msg", Fields: []fieldSpec{f("proto_reflect", "int32", -1)}},
		clash{Level: "open", Scope: "message", Name: "ProtoReflect", A: "field", B: "method"}},
	{kfOneofGetter,
		nameCase{Syntax: "proto3", Level: "API_OPEN", Msg: "Msg", Fields: []fieldSpec{f("get_choice", "int32", -1), f("x", "int32", 0)}, Oneofs: []string{"choice"}},
		clash{Level: "open", Scope: "message", Name: "GetChoice", A: "field", B: "method"}},
	{kfOneofGetter, // DESIGN §7 (2): oneof get_foo beside a oneof foo
		nameCase{Syntax: "proto3", Level: "API_HYBRID", Msg: "Msg", Fields: []fieldSpec{f("a", "int32", 0), f("b", "int32", 1)}, Oneofs: []string{"get_foo", "foo"}},
		clash{Level: "hybrid", Scope: "message", Name: "GetFoo", A: "field", B: "method"}},
	{kfCamelSuffix,
		nameCase{Syntax: "proto2", Level: "API_OPAQUE", Msg: "Msg", Fields: []fieldSpec{f("foo", "int32", -1), f("Foo", "int32", -1), f("foo_1", "int32", -1)}},
		clash{Level: "opaque", Scope: "builder", Name: "Foo_1", A: "field", B: "field"}},
	{kfOneofCamel, // DESIGN §7 (4): oneof nested vs the accessors of field Nested
		nameCase{Syntax: "proto2", Level: "API_OPAQUE", Msg: "Msg", Fields: []fieldSpec{f("x", "int32", 0), f("Nested", "int32", -1)}, Oneofs: []string{"nested"}},
		clash{Level: "opaque", Scope: "message", Name: "HasNested", A: "method", B: "method"}},
	{kfOneofCamel, // DESIGN §7 (3): HasFooBar / ClearFooBar declared twice
		nameCase{Syntax: "proto2", Level: "API_HYBRID", Msg: "Msg", Fields: []fieldSpec{f("fooBar", "int32", 0)}, Oneofs: []string{"FooBar"}},
		clash{Level: "hybrid", Scope: "message", Name: "ClearFooBar", A: "method", B: "method"}},
	{kfHybridMangled,
		nameCase{Syntax: "proto3", Level: "API_HYBRID", Msg: "Msg", Fields: []fieldSpec{f("a", "int32", 0), f("b", "int32", 1), f("ClearFoo", "int32", -1)}, Oneofs: []string{"clear_foo", "foo_"}},
		clash{Level: "hybrid", Scope: "message", Name: "ClearFoo_", A: "field", B: "method"}},
	{kfWrapperTypes,
		nameCase{Syntax: "proto2", Level: "API_OPEN", Msg: "M", Fields: []fieldSpec{f("foo_bar", "int32", 0), f("fooBar", "int32", 1)}, Oneofs: []string{"a", "b"}, Enums: []string{"FooBar"}},
		clash{Level: "open", Scope: "package", Name: "M_FooBar_", A: "type", B: "type"}},
}

// reproduces reports whether w's case still shows the clash and the attribution names w.id.
func (w witness) reproduces() (bool, string) {
	if err := w.c.valid(); err != nil {
		return false, "witness case invalid: " + err.Error()
	}
	files, err := generateNames(w.c)
	if err != nil {
		return false, err.Error()
	}
	cl, err := allClashes(files, w.c.Level)
	if err != nil {
		return false, err.Error()
	}
	for _, k := range cl {
		if k.Level == w.want.Level && k.Scope == w.want.Scope && k.Name == w.want.Name && k.A == w.want.A && k.B == w.want.B {
			if got := knownClash(w.c, k); got != w.id {
				return true, fmt.Sprintf("%v (attributed to %q, not to %s)", k, got, w.id)
			}
			return true, k.String()
		}
	}
	return false, ""
}

func TestWitnesses(t *testing.T) {
	for _, w := range witnesses {
		ok, detail := w.reproduces()
		pbt.Witness(t, w.id, ok, detail)
	}
	// two plain fields that are equal after camel-casing are told apart by a _<number> suffix
	if err := checkNamesX(nameCase{Syntax: "proto2", Level: "API_HYBRID", Msg: "Msg", Fields: []fieldSpec{f("foo_bar", "int32", -1), f("FooBar", "int32", -1)}}, false); err != nil {
		t.Logf("note: foo_bar + FooBar: %v", err)
	}
}
