package c42

import (
	"fmt"
	"go/ast"
	"go/parser"
	"go/token"
	"sort"
	"strings"
	"testing"

	"google.golang.org/protobuf/compiler/protogen"
	"google.golang.org/protobuf/proto"
	"google.golang.org/protobuf/types/descriptorpb"
	"google.golang.org/protobuf/zverif/gencode"
	"google.golang.org/protobuf/zverif/pbt"
	"google.golang.org/protobuf/zverif/schema"
	"pgregory.net/rapid"
)

// ---------------------------------------------------------------------------------------------
// declarations of a generated file and their clashes

// A clash is two declarations of one identifier in one Go scope: exactly a compile error
// ("X redeclared", "duplicate field X", "field and method with the same name X", "method X already declared").
type clash struct {
	Level string // API level the file was generated for (open | hybrid | opaque)
	Scope string // "package" | "message" (fields + methods of a message struct) | "builder" | "wrapper" | "interface" | "other-type"
	Type  string // the Go type whose member set it is ("" for package scope)
	Name  string
	A, B  string // kinds of the two declarations, sorted: "field", "method", "type", "const", "var", "func"
}

func (c clash) String() string {
	where := c.Scope
	if c.Type != "" {
		where += " " + c.Type
	}
	return fmt.Sprintf("[%s] %s: %s declared twice (%s and %s)", c.Level, where, c.Name, c.A, c.B)
}

type member struct{ kind, name string }

// clashesOf parses one generated file and returns every duplicate declaration.
func clashesOf(level, src string) ([]clash, error) {
	fset := token.NewFileSet()
	f, err := parser.ParseFile(fset, "gen.go", src, parser.SkipObjectResolution)
	if err != nil {
		return nil, err
	}
	var pkg []member
	members := map[string][]member{} // type name -> fields and methods
	typeKind := map[string]string{}
	var typeOrder []string
	addMember := func(t string, m member) {
		if _, ok := members[t]; !ok {
			typeOrder = append(typeOrder, t)
		}
		members[t] = append(members[t], m)
	}
	for _, d := range f.Decls {
		switch d := d.(type) {
		case *ast.GenDecl:
			for _, sp := range d.Specs {
				switch sp := sp.(type) {
				case *ast.TypeSpec:
					pkg = append(pkg, member{"type", sp.Name.Name})
					switch st := sp.Type.(type) {
					case *ast.StructType:
						kind := "wrapper"
						if strings.HasSuffix(sp.Name.Name, "_builder") {
							kind = "builder"
						}
						for _, fl := range st.Fields.List {
							if len(fl.Names) == 0 { // embedded
								addMember(sp.Name.Name, member{"field", embeddedName(fl.Type)})
							}
							for _, n := range fl.Names {
								if n.Name == "state" {
									kind = "message"
								}
								addMember(sp.Name.Name, member{"field", n.Name})
							}
						}
						typeKind[sp.Name.Name] = kind
					case *ast.InterfaceType:
						typeKind[sp.Name.Name] = "interface"
						for _, fl := range st.Methods.List {
							for _, n := range fl.Names {
								addMember(sp.Name.Name, member{"method", n.Name})
							}
						}
					default:
						if _, ok := typeKind[sp.Name.Name]; !ok {
							typeKind[sp.Name.Name] = "other-type"
						}
					}
				case *ast.ValueSpec:
					k := "var"
					if d.Tok == token.CONST {
						k = "const"
					}
					for _, n := range sp.Names {
						pkg = append(pkg, member{k, n.Name})
					}
				}
			}
		case *ast.FuncDecl:
			if d.Recv == nil || len(d.Recv.List) == 0 {
				if d.Name.Name != "init" {
					pkg = append(pkg, member{"func", d.Name.Name})
				}
				continue
			}
			rt := d.Recv.List[0].Type
			if s, ok := rt.(*ast.StarExpr); ok {
				rt = s.X
			}
			if id, ok := rt.(*ast.Ident); ok {
				addMember(id.Name, member{"method", d.Name.Name})
			}
		}
	}
	var out []clash
	dups := func(scope, typ string, ms []member) {
		first := map[string]string{}
		for _, m := range ms {
			if m.name == "_" {
				continue
			}
			if k, ok := first[m.name]; ok {
				a, b := k, m.kind
				if a > b {
					a, b = b, a
				}
				out = append(out, clash{Level: level, Scope: scope, Type: typ, Name: m.name, A: a, B: b})
				continue
			}
			first[m.name] = m.kind
		}
	}
	dups("package", "", pkg)
	declared := map[string]int{}
	for _, m := range pkg {
		if m.kind == "type" {
			declared[m.name]++
		}
	}
	for _, t := range typeOrder {
		if declared[t] > 1 {
			continue // the members of both declarations were merged; the type clash itself is reported
		}
		k := typeKind[t]
		if k == "" {
			k = "other-type"
		}
		dups(k, t, members[t])
	}
	return out, nil
}

func embeddedName(e ast.Expr) string {
	switch e := e.(type) {
	case *ast.StarExpr:
		return embeddedName(e.X)
	case *ast.SelectorExpr:
		return e.Sel.Name
	case *ast.Ident:
		return e.Name
	}
	return "?"
}

// ---------------------------------------------------------------------------------------------
// the case: one message with an adversarial set of names

type fieldSpec struct {
	Name  string `json:"name"`
	Kind  string `json:"kind"`  // int32 | string | bytes | msg | enum | rep | map
	Oneof int    `json:"oneof"` // index into Oneofs, -1: none
}

type nameCase struct {
	Syntax  string      `json:"syntax"` // proto2 | proto3 | editions
	Level   string      `json:"level"`  // API_OPEN | API_HYBRID | API_OPAQUE
	Msg     string      `json:"msg"`
	Fields  []fieldSpec `json:"fields"`
	Oneofs  []string    `json:"oneofs,omitempty"`
	Nested  []string    `json:"nested,omitempty"` // nested message names
	Enums   []string    `json:"enums,omitempty"`  // nested enum names
	Comment string      `json:"comment,omitempty"`
}

func levelName(l string) string { return strings.ToLower(strings.TrimPrefix(l, "API_")) }

// fileOf renders the case as a descriptor proto that protoc would accept: every name of the message
// scope (fields, oneofs, nested types) is distinct, oneof members are consecutive and carry no
// label other than optional, proto3 / editions fields have distinct JSON names.
func (c nameCase) fileOf() *descriptorpb.FileDescriptorProto {
	fd := &descriptorpb.FileDescriptorProto{
		Name:    proto.String("names.proto"),
		Package: proto.String("names"),
		Options: &descriptorpb.FileOptions{GoPackage: proto.String("example.com/names;namespb")},
	}
	switch c.Syntax {
	case "proto3":
		fd.Syntax = proto.String("proto3")
	case "editions":
		fd.Syntax = proto.String("editions")
		fd.Edition = descriptorpb.Edition_EDITION_2023.Enum()
	}
	m := &descriptorpb.DescriptorProto{Name: proto.String(c.Msg)}
	fd.MessageType = append(fd.MessageType, m)
	for _, n := range c.Nested {
		m.NestedType = append(m.NestedType, &descriptorpb.DescriptorProto{Name: proto.String(n)})
	}
	for i, n := range c.Enums {
		m.EnumType = append(m.EnumType, &descriptorpb.EnumDescriptorProto{Name: proto.String(n),
			Value: []*descriptorpb.EnumValueDescriptorProto{{Name: proto.String(fmt.Sprintf("V%d_ZERO", i)), Number: proto.Int32(0)}}})
	}
	for _, o := range c.Oneofs {
		m.OneofDecl = append(m.OneofDecl, &descriptorpb.OneofDescriptorProto{Name: proto.String(o)})
	}
	self := ".names." + c.Msg
	num := int32(1)
	add := func(f fieldSpec) {
		p := &descriptorpb.FieldDescriptorProto{Name: proto.String(f.Name), Number: proto.Int32(num), Label: descriptorpb.FieldDescriptorProto_LABEL_OPTIONAL.Enum()}
		num++
		switch f.Kind {
		case "string":
			p.Type = descriptorpb.FieldDescriptorProto_TYPE_STRING.Enum()
		case "bytes":
			p.Type = descriptorpb.FieldDescriptorProto_TYPE_BYTES.Enum()
		case "msg":
			p.Type = descriptorpb.FieldDescriptorProto_TYPE_MESSAGE.Enum()
			p.TypeName = proto.String(self)
			if len(c.Nested) > 0 {
				p.TypeName = proto.String(self + "." + c.Nested[0])
			}
		case "enum":
			if len(c.Enums) == 0 {
				p.Type = descriptorpb.FieldDescriptorProto_TYPE_INT32.Enum()
				break
			}
			p.Type = descriptorpb.FieldDescriptorProto_TYPE_ENUM.Enum()
			p.TypeName = proto.String(self + "." + c.Enums[0])
		case "rep":
			p.Type = descriptorpb.FieldDescriptorProto_TYPE_INT32.Enum()
			p.Label = descriptorpb.FieldDescriptorProto_LABEL_REPEATED.Enum()
		case "map":
			entry := mapEntryName(f.Name)
			p.Type = descriptorpb.FieldDescriptorProto_TYPE_MESSAGE.Enum()
			p.Label = descriptorpb.FieldDescriptorProto_LABEL_REPEATED.Enum()
			p.TypeName = proto.String(self + "." + entry)
			m.NestedType = append(m.NestedType, &descriptorpb.DescriptorProto{Name: proto.String(entry),
				Options: &descriptorpb.MessageOptions{MapEntry: proto.Bool(true)},
				Field: []*descriptorpb.FieldDescriptorProto{
					{Name: proto.String("key"), Number: proto.Int32(1), Label: descriptorpb.FieldDescriptorProto_LABEL_OPTIONAL.Enum(), Type: descriptorpb.FieldDescriptorProto_TYPE_STRING.Enum(), JsonName: proto.String("key")},
					{Name: proto.String("value"), Number: proto.Int32(2), Label: descriptorpb.FieldDescriptorProto_LABEL_OPTIONAL.Enum(), Type: descriptorpb.FieldDescriptorProto_TYPE_INT32.Enum(), JsonName: proto.String("value")},
				}})
		default:
			p.Type = descriptorpb.FieldDescriptorProto_TYPE_INT32.Enum()
		}
		if f.Oneof >= 0 {
			p.OneofIndex = proto.Int32(int32(f.Oneof))
		}
		p.JsonName = proto.String(refJSONCamel(f.Name))
		m.Field = append(m.Field, p)
	}
	// plain fields first ... except that oneof members must be consecutive: emit in case order, grouping members
	done := map[int]bool{}
	for _, f := range c.Fields {
		if f.Oneof < 0 {
			add(f)
			continue
		}
		if done[f.Oneof] {
			continue
		}
		done[f.Oneof] = true
		for _, g := range c.Fields {
			if g.Oneof == f.Oneof {
				add(g)
			}
		}
	}
	return fd
}

func mapEntryName(s string) string {
	var b []byte
	up := true
	for i := 0; i < len(s); i++ {
		c := s[i]
		switch {
		case c == '_':
			up = true
		case up:
			if lower(c) {
				c = c - 'a' + 'A'
			}
			b = append(b, c)
			up = false
		default:
			b = append(b, c)
		}
	}
	return string(b) + "Entry"
}

// valid reports whether the case respects the protoc rules fileOf relies on (used by the replay
// path and after shrinking: rapid only produces valid ones).
func (c nameCase) valid() error {
	seen := map[string]bool{}
	lc := map[string]bool{}
	take := func(n string) error {
		if !isProtoIdent(n) {
			return fmt.Errorf("%q is not an identifier", n)
		}
		if seen[n] {
			return fmt.Errorf("name %q used twice in the message scope", n)
		}
		seen[n] = true
		return nil
	}
	if !isProtoIdent(c.Msg) {
		return fmt.Errorf("bad message name")
	}
	for _, n := range c.Nested {
		if err := take(n); err != nil {
			return err
		}
	}
	for _, n := range c.Enums {
		if err := take(n); err != nil {
			return err
		}
	}
	for i := range c.Enums {
		if err := take(fmt.Sprintf("V%d_ZERO", i)); err != nil {
			return err
		}
	}
	for _, n := range c.Oneofs {
		if err := take(n); err != nil {
			return err
		}
	}
	members := make([]int, len(c.Oneofs))
	for _, f := range c.Fields {
		if err := take(f.Name); err != nil {
			return err
		}
		if f.Kind == "map" {
			if err := take(mapEntryName(f.Name)); err != nil {
				return err
			}
		}
		if f.Oneof >= len(c.Oneofs) {
			return fmt.Errorf("bad oneof index")
		}
		if f.Oneof >= 0 {
			members[f.Oneof]++
			if f.Kind == "rep" || f.Kind == "map" {
				return fmt.Errorf("repeated oneof member")
			}
		}
		if c.Syntax != "proto2" {
			k := strings.ToLower(strings.ReplaceAll(f.Name, "_", ""))
			if lc[k] {
				return fmt.Errorf("JSON name conflict on %q", f.Name)
			}
			lc[k] = true
		}
	}
	for i, n := range members {
		if n == 0 {
			return fmt.Errorf("oneof %s has no members", c.Oneofs[i])
		}
	}
	return nil
}

// the vocabulary (DESIGN.md §2.2): names that collide after camel-casing, accessor affixes, method
// names of generated messages, Go keywords and predeclared identifiers, odd underscores and digits.
var fieldVocab = []string{
	"foo", "foo_bar", "fooBar", "FooBar", "Foo_Bar", "foo_Bar", "Foo", "FOO", "foo_", "_foo", "foo__bar", "__foo", "foo_1", "foo1", "_1", "_", "f_", "x_foo", "X_foo",
	"get_foo", "set_foo", "has_foo", "clear_foo", "which_foo", "get_foo_bar", "has_foo_bar", "clear_foo_bar", "set_foo_bar", "get_get_foo", "get", "set", "has", "clear", "which", "get_", "GetFoo", "Get_foo", "HasFoo", "SetFoo", "ClearFoo",
	"foo_builder", "builder", "build", "Build", "_builder",
	"reset", "string", "proto_message", "proto_reflect", "descriptor", "marshal", "unmarshal", "extension_range_array", "extension_map", "String", "Reset", "ProtoReflect", "Descriptor", "ProtoMessage",
	"state", "size_cache", "unknown_fields", "extension_fields", "xxx_hidden_foo", "XXX_presence", "xxx_foo", "XXX_unrecognized", "sizeCache", "unknownFields",
	"nested", "Nested", "msg", "Msg", "choice", "Choice", "get_choice", "has_choice", "clear_choice", "which_choice", "get_nested", "has_nested", "clear_nested", "set_nested",
	"type", "func", "range", "map", "go", "select", "interface", "struct", "default", "package", "nil", "true", "int", "error", "len", "any",
	"foo_case", "choice_not_set_case", "foo_not_set_case", "case",
}

var oneofVocab = []string{"choice", "foo", "foo_bar", "FooBar", "get_foo", "get_foo_", "GetFoo", "has_foo", "clear_foo", "which_foo", "nested", "Nested", "is_foo", "which", "type", "oneof", "msg", "has_choice", "get_choice", "build", "state", "proto_reflect", "string", "reset", "foo_"}

var nestedVocab = []string{"Nested", "Foo", "FooBar", "Foo_Bar", "Foo_", "X", "GetFoo", "Choice", "Builder", "Type", "String", "foo", "Foo_case", "FooEntry", "Nested_builder"}

var msgVocab = []string{"Msg", "Foo", "M", "Foo_Bar", "msg"}

var kinds = []string{"int32", "string", "bytes", "msg", "enum", "rep", "map"}

// family vocabularies: every name of a case derives from ONE stem by the affixes the generator's
// uniquing rules react to, so that the rare three-way constellations (a field, a oneof and another
// field whose derived Go names chase each other through the "append _ until free" loops) are drawn
// in a few percent of the cases instead of once in 10^5.
func familyVocab(stem string) (fields, oneofs, nested []string) {
	title := strings.ToUpper(stem[:1]) + stem[1:]
	fields = []string{stem, stem + "_", "_" + stem, stem + "__", title, "get_" + stem, "get_" + stem + "_", "Get" + title, "set_" + stem, "has_" + stem, "clear_" + stem,
		"which_" + stem, stem + "_1", stem + "1", "get_get_" + stem, stem + "_case", stem + "_builder", "is_" + stem, "x_" + stem}
	oneofs = []string{stem, stem + "_", title, "get_" + stem, "get_" + stem + "_", "has_" + stem, "clear_" + stem, "which_" + stem, "is_" + stem, stem + "__", "Get" + title}
	nested = []string{title, title + "_", "Get" + title, title + "_case", title + "Entry", title + "_builder", "Is" + title}
	return
}

func drawNameCase(t *rapid.T) nameCase {
	c := nameCase{
		Syntax: rapid.SampledFrom([]string{"proto2", "proto3", "editions"}).Draw(t, "syntax"),
		Level:  rapid.SampledFrom(gencode.APILevels).Draw(t, "level"),
		Msg:    rapid.SampledFrom(msgVocab).Draw(t, "msg"),
	}
	fieldVocab, oneofVocab, nestedVocab := fieldVocab, oneofVocab, nestedVocab
	if fam := rapid.IntRange(0, 5).Draw(t, "family"); fam >= 3 {
		fieldVocab, oneofVocab, nestedVocab = familyVocab([]string{"foo", "choice", "nested"}[fam-3])
	}
	used := map[string]bool{}
	lc := map[string]bool{}
	free := func(n string) bool { return !used[n] }
	for _, n := range rapid.SliceOfNDistinct(rapid.SampledFrom(nestedVocab), 0, 2, rapid.ID[string]).Draw(t, "nested") {
		if free(n) {
			used[n] = true
			c.Nested = append(c.Nested, n)
		}
	}
	for _, n := range rapid.SliceOfNDistinct(rapid.SampledFrom(nestedVocab), 0, 1, rapid.ID[string]).Draw(t, "enums") {
		if free(n) {
			used[n] = true
			c.Enums = append(c.Enums, n)
		}
	}
	for i := range c.Enums {
		used[fmt.Sprintf("V%d_ZERO", i)] = true
	}
	for _, n := range rapid.SliceOfNDistinct(rapid.SampledFrom(oneofVocab), 0, 2, rapid.ID[string]).Draw(t, "oneofs") {
		if free(n) {
			used[n] = true
			c.Oneofs = append(c.Oneofs, n)
		}
	}
	fieldOK := func(n, kind string) bool {
		if !free(n) {
			return false
		}
		if kind == "map" && (!free(mapEntryName(n)) || mapEntryName(n) == "Entry" || !isProtoIdent(mapEntryName(n))) {
			return false
		}
		if c.Syntax != "proto2" && lc[strings.ToLower(strings.ReplaceAll(n, "_", ""))] {
			return false
		}
		return true
	}
	take := func(n, kind string, oneof int) {
		used[n] = true
		if kind == "map" {
			used[mapEntryName(n)] = true
		}
		lc[strings.ToLower(strings.ReplaceAll(n, "_", ""))] = true
		c.Fields = append(c.Fields, fieldSpec{Name: n, Kind: kind, Oneof: oneof})
	}
	// every oneof needs a member
	for i := range c.Oneofs {
		for try := 0; ; try++ {
			n := rapid.SampledFrom(fieldVocab).Draw(t, "member")
			k := rapid.SampledFrom([]string{"int32", "string", "msg", "bytes", "enum"}).Draw(t, "member-kind")
			if try > 20 {
				n = fmt.Sprintf("member_%d", i)
			}
			if fieldOK(n, k) {
				take(n, k, i)
				break
			}
		}
	}
	nf := rapid.IntRange(0, 6).Draw(t, "fields")
	for j := 0; j < nf; j++ {
		n := rapid.SampledFrom(fieldVocab).Draw(t, "field")
		k := rapid.SampledFrom(kinds).Draw(t, "kind")
		o := -1
		if len(c.Oneofs) > 0 && k != "rep" && k != "map" && rapid.IntRange(0, 3).Draw(t, "in-oneof") == 0 {
			o = rapid.IntRange(0, len(c.Oneofs)-1).Draw(t, "which-oneof")
		}
		if fieldOK(n, k) {
			take(n, k, o)
		}
	}
	if len(c.Fields) > 1 && rapid.Bool().Draw(t, "shuffle") {
		c.Fields = rapid.Permutation(c.Fields).Draw(t, "order")
	}
	return c
}

// ---------------------------------------------------------------------------------------------
// check

func generateNames(c nameCase) (map[string]string, error) {
	fd := c.fileOf()
	req, err := gencode.Request([]*descriptorpb.FileDescriptorProto{fd}, nil, "default_api_level="+c.Level)
	if err != nil {
		return nil, fmt.Errorf("harness: %v", err)
	}
	resp, err := gencode.Generate(req)
	if err != nil {
		if strings.Contains(err.Error(), "invalid FileDescriptorProto") {
			return nil, fmt.Errorf("harness: generator rejects the schema: %v", err)
		}
		return nil, fmt.Errorf("protogen.Options.New fails: %v", err)
	}
	if resp.Error != nil {
		return nil, fmt.Errorf("generator reports an error for a valid schema: %.600s", resp.GetError())
	}
	return gencode.Files(resp), nil
}

func fileLevel(name, level string) string {
	if strings.HasSuffix(name, "_protoopaque.pb.go") {
		return "opaque(hybrid build tag)"
	}
	return levelName(level)
}

func allClashes(files map[string]string, level string) ([]clash, error) {
	var names []string
	for n := range files {
		names = append(names, n)
	}
	sort.Strings(names)
	var out []clash
	for _, n := range names {
		cl, err := clashesOf(fileLevel(n, level), files[n])
		if err != nil {
			return nil, fmt.Errorf("generated file %s does not parse: %v", n, err)
		}
		out = append(out, cl...)
	}
	return out, nil
}

func checkNames(c nameCase) error { return checkNamesX(c, true) }

func checkNamesX(c nameCase, exclude bool) error {
	if err := c.valid(); err != nil {
		return nil // not a schema protoc accepts (only reachable through hand-edited replays / shrinking artefacts)
	}
	files, err := generateNames(c)
	if err != nil {
		return err
	}
	cl, err := allClashes(files, c.Level)
	if err != nil {
		return err
	}
	for _, k := range cl {
		if exclude {
			if id := knownClash(c, k); id != "" && pbt.ExcludeKnown(id) {
				continue
			}
		}
		return fmt.Errorf("generated code does not compile: %v", k)
	}
	return nil
}

// camelOf is the reference GoCamelCase of a field / oneof name.
func camelOf(s string) string { return refGoCamel(s) }

func nameClasses(c nameCase) []string {
	cl := []string{"syntax:" + c.Syntax, "level:" + levelName(c.Level)}
	if len(c.Oneofs) > 0 {
		cl = append(cl, "oneof")
	}
	if len(c.Nested)+len(c.Enums) > 0 {
		cl = append(cl, "nested-types")
	}
	camel := map[string]int{}
	for _, f := range c.Fields {
		camel[camelOf(f.Name)]++
	}
	for _, o := range c.Oneofs {
		camel[camelOf(o)]++
	}
	same, affix, base := false, false, false
	for n, k := range camel {
		if k > 1 {
			same = true
		}
		for _, p := range []string{"Get", "Set", "Has", "Clear", "Which"} {
			if rest, ok := strings.CutPrefix(n, p); ok && rest != "" && camel[rest] > 0 {
				affix = true
			}
			if rest, ok := strings.CutPrefix(n, p+"_"); ok && rest != "" && camel[rest] > 0 {
				affix = true
			}
		}
		switch n {
		case "Reset", "String", "ProtoMessage", "ProtoReflect", "Descriptor", "Marshal", "Unmarshal", "ExtensionRangeArray", "ExtensionMap", "Build":
			base = true
		}
	}
	for _, n := range c.Nested {
		if camel[n] > 0 {
			affix = true
		}
	}
	if same {
		cl = append(cl, "equal-after-camel-casing")
	}
	if affix {
		cl = append(cl, "accessor-affix-collision-candidate")
	}
	if base {
		cl = append(cl, "message-method-name")
	}
	return cl
}

func nameNonTrivial(c nameCase) bool {
	for _, k := range nameClasses(c) {
		switch k {
		case "equal-after-camel-casing", "accessor-affix-collision-candidate", "message-method-name":
			return true
		}
	}
	return false
}

func TestNameSets(t *testing.T) {
	pbt.Run(t, pbt.Prop[nameCase]{
		Name: "name-sets",
		Rule: "one message (proto2 / proto3 / editions 2023) with 0-8 fields, 0-2 oneofs, 0-2 nested messages, 0-1 nested enum whose names come from an adversarial vocabulary (equal after camel-casing, get_/set_/has_/clear_/which_ affixes, _builder / build, names of generated message methods and internal struct fields, Go keywords, odd underscores), valid for protoc (distinct names per scope, distinct JSON names outside proto2); generated in process at one of the three API levels; from the go/parser AST of every generated file: no identifier declared twice at package level, among the fields + methods of a message struct, a builder struct, a oneof wrapper struct or an interface (each is exactly a compile error). non-trivial = >= 2 names equal after camel-casing, or a name equal to another name plus an accessor affix, or equal to a generated method name",
		Draw:       drawNameCase,
		Check:      checkNames,
		NonTrivial: nameNonTrivial,
		Classes:    nameClasses,
		Quick:      4000, Thorough: 15000,
	})
}

// ---------------------------------------------------------------------------------------------
// random adversarial schema sets (whole files, every construct: groups, maps, proto3 optional,
// extensions, nested declarations): the member sets of every message struct and builder are
// examined; package-level naming across declarations (Foo_Bar vs Foo.Bar ...) is left to C41's build.

type schemaCase struct {
	Raw   [][]byte `json:"raw"`
	Level string   `json:"level"`
}

type schemaResult struct {
	messages, clashes, excluded, pkgIgnored int
}

// lastSchema is the result of the most recent checkSchemaNames call (pbt classifies a case right
// after checking it, on the same goroutine).
var lastSchema schemaResult

func checkSchemaNames(c schemaCase) error {
	r, err := runSchemaNames(c, true)
	lastSchema = r
	return err
}

func runSchemaNames(c schemaCase, exclude bool) (schemaResult, error) {
	var res schemaResult
	files, err := schema.Unmarshal(c.Raw)
	if err != nil {
		return res, fmt.Errorf("harness: %v", err)
	}
	gencode.AssignGoPackages(files, "example.com/gen", true)
	req, err := gencode.Request(files, nil, "default_api_level="+c.Level)
	if err != nil {
		return res, fmt.Errorf("harness: %v", err)
	}
	resp, err := gencode.Generate(req)
	if err != nil {
		return res, fmt.Errorf("protogen.Options.New fails on a valid schema set: %v", err)
	}
	if resp.Error != nil {
		return res, fmt.Errorf("generator reports an error for a valid schema set: %.600s", resp.GetError())
	}
	// the model: names protogen assigned, read at the hybrid level (makes the method infix observable)
	reqH, _ := gencode.Request(files, nil, "default_api_level=API_HYBRID")
	genH, err := gencode.Plugin(reqH)
	if err != nil {
		return res, fmt.Errorf("harness: %v", err)
	}
	// ... and the API level every message really gets (edition 2024 files default to the opaque API
	// whatever default_api_level says)
	genA, err := gencode.Plugin(req)
	if err != nil {
		return res, fmt.Errorf("harness: %v", err)
	}
	levels := map[string]map[string]string{}
	var walkA func(pkg string, ms []*protogen.Message)
	walkA = func(pkg string, ms []*protogen.Message) {
		for _, m := range ms {
			if levels[pkg] == nil {
				levels[pkg] = map[string]string{}
			}
			levels[pkg][m.GoIdent.GoName] = levelName(m.APILevel.String())
			walkA(pkg, m.Messages)
		}
	}
	for _, f := range genA.Files {
		if f.Generate {
			walkA(string(f.GoImportPath), f.Messages)
		}
	}
	models := map[string]map[string]*model{} // Go import path -> Go type name -> model
	var walk func(pkg string, ms []*protogen.Message)
	walk = func(pkg string, ms []*protogen.Message) {
		for _, m := range ms {
			if m.Desc.IsMapEntry() {
				continue
			}
			if models[pkg] == nil {
				models[pkg] = map[string]*model{}
			}
			models[pkg][m.GoIdent.GoName] = modelOfMessage(m)
			res.messages++
			walk(pkg, m.Messages)
		}
	}
	for _, f := range genH.Files {
		if f.Generate {
			walk(string(f.GoImportPath), f.Messages)
		}
	}
	for _, f := range resp.GetFile() {
		name := f.GetName()
		pkg := name
		if i := strings.LastIndex(name, "/"); i >= 0 {
			pkg = name[:i]
		}
		cl, err := clashesOf(fileLevel(name, c.Level), f.GetContent())
		if err != nil {
			return res, fmt.Errorf("generated file %s does not parse: %v", name, err)
		}
		for _, k := range cl {
			res.clashes++
			if k.Scope == "package" {
				res.pkgIgnored++
				continue
			}
			if k.Scope != "message" && k.Scope != "builder" {
				continue // wrapper / interface members follow from a package-level type clash
			}
			m := models[pkg][strings.TrimSuffix(k.Type, "_builder")]
			if lv := levels[pkg][strings.TrimSuffix(k.Type, "_builder")]; lv != "" && !strings.HasPrefix(k.Level, "opaque") {
				k.Level = lv
			}
			if m == nil {
				return res, fmt.Errorf("generated code does not compile: %v in %s (no message of that Go name in the model)", k, name)
			}
			if id := m.attribute(k); id != "" && (!exclude || pbt.ExcludeKnown(id)) {
				res.excluded++
				continue
			}
			return res, fmt.Errorf("generated code does not compile: %v in %s", k, name)
		}
	}
	return res, nil
}

func TestSchemaSets(t *testing.T) {
	pbt.Run(t, pbt.Prop[schemaCase]{
		Name: "schema-sets",
		Rule: "random schema sets from harness/schema with Opts.AdversarialNames (1-3 files; every construct: groups, maps, proto3 optional, required, extensions, nested declarations, services), each file its own Go package, generated at one of the three API levels: generator succeeds, every file parses, and no identifier is declared twice among the fields + methods of any message struct or builder struct (package-level clashes between different declarations are not judged here). non-trivial = some message has >= 2 fields/oneofs",
		Draw: func(t *rapid.T) schemaCase {
			files := schema.Draw(t, schema.Opts{AdversarialNames: true, MaxFiles: 2, Lazy: true})
			return schemaCase{Raw: schema.Marshal(files), Level: rapid.SampledFrom(gencode.APILevels).Draw(t, "level")}
		},
		Check: checkSchemaNames,
		NonTrivial: func(c schemaCase) bool {
			files, err := schema.Unmarshal(c.Raw)
			if err != nil {
				return false
			}
			var big func(ms []*descriptorpb.DescriptorProto) bool
			big = func(ms []*descriptorpb.DescriptorProto) bool {
				for _, m := range ms {
					if len(m.GetField())+len(m.GetOneofDecl()) >= 2 || big(m.GetNestedType()) {
						return true
					}
				}
				return false
			}
			for _, f := range files {
				if big(f.GetMessageType()) {
					return true
				}
			}
			return false
		},
		Classes: func(c schemaCase) []string {
			cl := []string{"level:" + levelName(c.Level)}
			if r := lastSchema; true {
				if r.excluded > 0 {
					cl = append(cl, "has-known-clash")
				}
				if r.pkgIgnored > 0 {
					cl = append(cl, "has-package-level-clash(not judged)")
				}
				if r.clashes == 0 {
					cl = append(cl, "clash-free")
				}
			}
			return cl
		},
		Quick: 600, Thorough: 4000,
	})
}
