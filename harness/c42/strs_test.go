package c42

import (
	"bytes"
	"fmt"
	"go/token"
	"strings"
	"testing"
	"unicode"
	"unicode/utf8"

	"google.golang.org/protobuf/encoding/protojson"
	"google.golang.org/protobuf/internal/strs"
	"google.golang.org/protobuf/reflect/protoreflect"
	"google.golang.org/protobuf/types/known/fieldmaskpb"
	"google.golang.org/protobuf/zverif/pbt"
	"pgregory.net/rapid"
)

// ---------------------------------------------------------------------------------------------
// reference models, written from the doc comments / the protobuf JSON specification

func lower(c byte) bool { return 'a' <= c && c <= 'z' }
func upper(c byte) bool { return 'A' <= c && c <= 'Z' }
func digit(c byte) bool { return '0' <= c && c <= '9' }

// isProtoIdent: [A-Za-z_][A-Za-z0-9_]*
func isProtoIdent(s string) bool {
	if s == "" {
		return false
	}
	for i := 0; i < len(s); i++ {
		c := s[i]
		if !(lower(c) || upper(c) || c == '_' || (digit(c) && i > 0)) {
			return false
		}
	}
	return true
}

func isProtoFullName(s string) bool {
	for _, p := range strings.Split(s, ".") {
		if !isProtoIdent(p) {
			return false
		}
	}
	return true
}

// refGoCamel is the documented behaviour of GoCamelCase on one identifier: an interior underscore
// followed by a lower-case letter is dropped and the letter upper-cased; the first character is made
// upper case (a leading underscore becomes X); everything else is kept.
func refGoCamel(s string) string {
	var b strings.Builder
	for i := 0; i < len(s); i++ {
		c := s[i]
		switch {
		case c == '_' && i == 0:
			b.WriteByte('X')
		case c == '_' && i+1 < len(s) && lower(s[i+1]):
			b.WriteByte(s[i+1] - 'a' + 'A')
			i++
		case i == 0 && lower(c):
			b.WriteByte(c - 'a' + 'A')
		case lower(c) && i > 0 && !lower(s[i-1]) && !upper(s[i-1]):
			// a lower-case letter starting a new word after a digit (after '_' is handled above)
			b.WriteByte(c - 'a' + 'A')
		default:
			b.WriteByte(c)
		}
	}
	return b.String()
}

// refJSONCamel: protobuf JSON lowerCamelCase — drop every underscore, upper-case a lower-case letter that follows one.
func refJSONCamel(s string) string {
	var b strings.Builder
	for i := 0; i < len(s); i++ {
		c := s[i]
		if c == '_' {
			continue
		}
		if i > 0 && s[i-1] == '_' && lower(c) {
			c = c - 'a' + 'A'
		}
		b.WriteByte(c)
	}
	return b.String()
}

// reversible is the independent predicate for JSONSnakeCase(JSONCamelCase(s)) == s: the camel form
// loses every upper-case letter's case and every underscore that is not directly followed by a
// lower-case letter.
func reversible(s string) bool {
	for i := 0; i < len(s); i++ {
		c := s[i]
		if upper(c) {
			return false
		}
		if c == '_' && !(i+1 < len(s) && lower(s[i+1])) {
			return false
		}
	}
	return true
}

func validExportedIdent(s string) error {
	if !token.IsIdentifier(s) {
		return fmt.Errorf("%q is not a Go identifier", s)
	}
	if !token.IsExported(s) {
		return fmt.Errorf("%q is not exported", s)
	}
	return nil
}

// ---------------------------------------------------------------------------------------------
// GoCamelCase

type strCase struct {
	S []byte // bytes, so that invalid UTF-8 survives the JSON round trip
}

func checkCamel(c strCase) error {
	s := string(c.S)
	if !isProtoFullName(s) {
		return nil
	}
	got := strs.GoCamelCase(s)
	if err := validExportedIdent(got); err != nil {
		return fmt.Errorf("GoCamelCase(%q): %v", s, err)
	}
	if !strings.Contains(s, ".") {
		if want := refGoCamel(s); got != want {
			return fmt.Errorf("GoCamelCase(%q) = %q, the documented transformation gives %q", s, got, want)
		}
	}
	return nil
}

const identAlphabet = "abzABZ019_" // for random longer strings; the exhaustive sweep uses the full alphabet

var fullAlphabet = func() []byte {
	var b []byte
	for c := byte('a'); c <= 'z'; c++ {
		b = append(b, c)
	}
	for c := byte('A'); c <= 'Z'; c++ {
		b = append(b, c)
	}
	for c := byte('0'); c <= '9'; c++ {
		b = append(b, c)
	}
	return append(b, '_')
}()

// sweep enumerates every string over alpha of length 1..maxLen whose index falls into this shard.
func sweep(alpha []byte, maxLen int, f func(s []byte) error) (n int64, err error) {
	buf := make([]byte, maxLen)
	idx := make([]int, maxLen)
	var k int64
	for l := 1; l <= maxLen; l++ {
		for i := 0; i < l; i++ {
			idx[i] = 0
			buf[i] = alpha[0]
		}
		for {
			if k%pbt.NShards == pbt.Shard {
				n++
				if err := f(buf[:l]); err != nil {
					return n, err
				}
			}
			k++
			i := l - 1
			for i >= 0 {
				idx[i]++
				if idx[i] < len(alpha) {
					buf[i] = alpha[idx[i]]
					break
				}
				idx[i] = 0
				buf[i] = alpha[0]
				i--
			}
			if i < 0 {
				break
			}
		}
	}
	return n, nil
}

func TestCamelExhaustive(t *testing.T) {
	if pbt.Skip() {
		return
	}
	maxLen := 3
	if pbt.Thorough() {
		maxLen = 4
	}
	var valid int64
	var last []byte
	n, err := sweep(fullAlphabet, maxLen, func(s []byte) error {
		last = s
		if isProtoIdent(string(s)) {
			valid++
		}
		return checkCamel(strCase{S: s})
	})
	rule := fmt.Sprintf("every string over [a-zA-Z0-9_] of length 1..%d (sharded); for the valid protobuf identifiers among them GoCamelCase gives go/token.IsIdentifier && IsExported and equals the documented transformation", maxLen)
	if err != nil {
		pbt.ReportViolation(t, "camel-random", strCase{S: append([]byte(nil), last...)}, err)
		return
	}
	pbt.Count("camel-exhaustive", n, valid, rule, true, map[string]string{"example": "foo_bar1_b -> " + strs.GoCamelCase("foo_bar1_b")})
}

func drawIdentish(t *rapid.T) string {
	n := rapid.IntRange(1, 24).Draw(t, "len")
	b := make([]byte, n)
	for i := range b {
		b[i] = identAlphabet[rapid.IntRange(0, len(identAlphabet)-1).Draw(t, "c")]
	}
	if rapid.IntRange(0, 3).Draw(t, "dots") == 0 {
		for i := range b {
			if rapid.IntRange(0, 5).Draw(t, "dot") == 0 {
				b[i] = '.'
			}
		}
	}
	return string(b)
}

func TestCamelRandom(t *testing.T) {
	pbt.Run(t, pbt.Prop[strCase]{
		Name: "camel-random",
		Rule: "random strings of length 1..24 over [abzABZ019_] and dotted paths of them; for valid protobuf identifiers / full names GoCamelCase gives an exported Go identifier (and, without dots, the documented transformation). non-trivial = valid name with an underscore or digit",
		Draw: func(t *rapid.T) strCase { return strCase{S: []byte(drawIdentish(t))} },
		Check: checkCamel,
		NonTrivial: func(c strCase) bool {
			return isProtoFullName(string(c.S)) && bytes.ContainsAny(c.S, "_0123456789")
		},
		Classes: func(c strCase) []string {
			s := string(c.S)
			var cl []string
			if !isProtoFullName(s) {
				return []string{"not-a-name"}
			}
			if strings.Contains(s, ".") {
				cl = append(cl, "dotted")
			}
			if strings.HasPrefix(s, "_") || strings.Contains(s, "._") {
				cl = append(cl, "leading-underscore")
			}
			if strings.Contains(s, "__") {
				cl = append(cl, "double-underscore")
			}
			return append(cl, "valid")
		},
		Quick: 40000, Thorough: 150000,
	})
}

// ---------------------------------------------------------------------------------------------
// GoSanitized

func checkSanitized(c strCase) error {
	s := string(c.S)
	got := strs.GoSanitized(s)
	if !token.IsIdentifier(got) {
		// token.IsIdentifier also rejects keywords; say which it is
		if token.IsKeyword(got) {
			return fmt.Errorf("GoSanitized(%q) = %q is a Go keyword", s, got)
		}
		return fmt.Errorf("GoSanitized(%q) = %q is not a Go identifier", s, got)
	}
	if token.IsKeyword(got) {
		return fmt.Errorf("GoSanitized(%q) = %q is a Go keyword", s, got)
	}
	// spelled out independently of go/token: letter (L* or _) then letters / Nd digits
	for i, r := range got {
		if r == utf8.RuneError {
			return fmt.Errorf("GoSanitized(%q) = %q contains an invalid rune", s, got)
		}
		if !(r == '_' || unicode.IsLetter(r) || (i > 0 && unicode.IsDigit(r))) {
			return fmt.Errorf("GoSanitized(%q) = %q has %q at offset %d", s, got, r, i)
		}
	}
	return nil
}

var goKeywords = []string{"break", "case", "chan", "const", "continue", "default", "defer", "else", "fallthrough", "for", "func", "go", "goto", "if", "import", "interface", "map", "package", "range", "return", "select", "struct", "switch", "type", "var"}

var runePool = []rune{'a', 'Z', '_', '0', '9', '-', '.', '/', ' ', 0xe9, 0xdf, 0x3a9, 0x436, 0x4e2d, 0x3042, 0x663, 0x96b, 0xb2, 0x2163, 0x301, 0x200d, 0x20ac, 0x1f600, 0x1d4b3, 0x1d7d9, 0xa0, 0xfeff, 0xfffd, 0x10ffff, 0x1c5, 0x2b0, 0xaa, 0x2160, 0x0660, 0xff11, 0xff21}

func drawAnyString(t *rapid.T) []byte {
	switch rapid.IntRange(0, 5).Draw(t, "kind") {
	case 0: // keyword, possibly damaged
		s := rapid.SampledFrom(goKeywords).Draw(t, "kw")
		switch rapid.IntRange(0, 4).Draw(t, "damage") {
		case 1:
			s = strings.ToUpper(s[:1]) + s[1:]
		case 2:
			s += rapid.SampledFrom([]string{"_", "1", "-", " ", "é"}).Draw(t, "suffix")
		case 3:
			s = rapid.SampledFrom([]string{"_", "1", "-", ".", "x/"}).Draw(t, "prefix") + s
		}
		return []byte(s)
	case 1: // arbitrary bytes (mostly invalid UTF-8)
		return rapid.SliceOfN(rapid.Byte(), 0, 12).Draw(t, "bytes")
	case 2: // path-like package names
		return []byte(rapid.StringMatching(`[a-z0-9._/-]{0,12}`).Draw(t, "pathlike"))
	default:
		n := rapid.IntRange(0, 10).Draw(t, "n")
		var b []byte
		for i := 0; i < n; i++ {
			if rapid.IntRange(0, 9).Draw(t, "raw") == 0 {
				b = append(b, rapid.Byte().Draw(t, "b"))
				continue
			}
			if rapid.IntRange(0, 5).Draw(t, "any-rune") == 0 {
				b = utf8.AppendRune(b, rapid.Rune().Draw(t, "r"))
				continue
			}
			b = utf8.AppendRune(b, rapid.SampledFrom(runePool).Draw(t, "r"))
		}
		return b
	}
}

func TestSanitizedExhaustive(t *testing.T) {
	if pbt.Skip() {
		return
	}
	var n int64
	fail := func(c strCase, err error) { pbt.ReportViolation(t, "sanitized-random", c, err) }
	// every single rune (surrogates encode as U+FFFD), alone and after a letter
	for r := rune(0); r <= unicode.MaxRune; r++ {
		if int64(r)%pbt.NShards != pbt.Shard {
			continue
		}
		for _, s := range []string{string(r), "a" + string(r)} {
			n++
			if err := checkSanitized(strCase{S: []byte(s)}); err != nil {
				fail(strCase{S: []byte(s)}, err)
				return
			}
		}
	}
	// every 1- and 2-byte string
	for a := 0; a < 256; a++ {
		for b := -1; b < 256; b++ {
			s := []byte{byte(a)}
			if b >= 0 {
				s = append(s, byte(b))
			}
			n++
			if err := checkSanitized(strCase{S: s}); err != nil {
				fail(strCase{S: s}, err)
				return
			}
		}
	}
	// the empty string, every keyword, and every keyword with one byte appended / prepended / changed in case
	cands := []string{""}
	for _, k := range goKeywords {
		cands = append(cands, k, strings.ToUpper(k), strings.ToUpper(k[:1])+k[1:], "_"+k, k+"_")
		for c := 0; c < 128; c++ {
			cands = append(cands, k+string(rune(c)), string(rune(c))+k)
		}
	}
	for _, s := range cands {
		n++
		if err := checkSanitized(strCase{S: []byte(s)}); err != nil {
			fail(strCase{S: []byte(s)}, err)
			return
		}
	}
	pbt.Count("sanitized-exhaustive", n, n, "every rune alone and after a letter (sharded), every 1- and 2-byte string, the empty string, every Go keyword with one ASCII byte appended or prepended: GoSanitized gives a Go identifier that is not a keyword", true,
		map[string]string{"example": `GoSanitized("go") = ` + strs.GoSanitized("go") + `, GoSanitized("1st/x") = ` + strs.GoSanitized("1st/x")})
}

func TestSanitizedRandom(t *testing.T) {
	pbt.Run(t, pbt.Prop[strCase]{
		Name:  "sanitized-random",
		Rule:  "random strings up to ~40 bytes: runes of several scripts, digits of several scripts, combining marks, symbols, astral runes, raw bytes (invalid UTF-8), Go keywords with small damage, path-like names; GoSanitized gives go/token.IsIdentifier && !IsKeyword (and letter/digit classes re-checked with package unicode). non-trivial = input is not already a valid identifier",
		Draw:  func(t *rapid.T) strCase { return strCase{S: drawAnyString(t)} },
		Check: checkSanitized,
		NonTrivial: func(c strCase) bool {
			return !token.IsIdentifier(string(c.S))
		},
		Classes: func(c strCase) []string {
			s := string(c.S)
			var cl []string
			if !utf8.ValidString(s) {
				cl = append(cl, "invalid-utf8")
			}
			if token.IsKeyword(s) {
				cl = append(cl, "keyword")
			}
			if s == "" {
				cl = append(cl, "empty")
			} else if r, _ := utf8.DecodeRuneInString(s); unicode.IsDigit(r) {
				cl = append(cl, "leading-digit")
			} else if !unicode.IsLetter(r) {
				cl = append(cl, "leading-other")
			}
			for _, r := range s {
				if r > unicode.MaxASCII && r != utf8.RuneError {
					cl = append(cl, "non-ascii")
					break
				}
			}
			return cl
		},
		Quick: 60000, Thorough: 200000,
	})
}

// ---------------------------------------------------------------------------------------------
// JSON camel / snake

const jsonAlphabet = "abzABZ09_."

func checkJSONName(c strCase) error {
	s := string(c.S)
	for i := 0; i < len(s); i++ { // the functions are specified for ASCII protobuf names
		if s[i] >= 0x80 {
			return nil
		}
	}
	cc := strs.JSONCamelCase(s)
	if want := refJSONCamel(s); cc != want {
		return fmt.Errorf("JSONCamelCase(%q) = %q, the JSON mapping gives %q", s, cc, want)
	}
	back := strs.JSONSnakeCase(cc)
	if (back == s) != reversible(s) {
		return fmt.Errorf("JSONSnakeCase(JSONCamelCase(%q)) = %q: round trip %v, but the name is reversible = %v (no upper-case letter, every underscore followed by a lower-case letter)", s, back, back == s, reversible(s))
	}
	// protojson's FieldMask encoding accepts exactly the valid, reversible paths, writes the camel
	// form, and reads it back as the original path
	out, err := protojson.Marshal(&fieldmaskpb.FieldMask{Paths: []string{s}})
	wantOK := isProtoFullName(s) && reversible(s)
	if protoreflect.FullName(s).IsValid() != isProtoFullName(s) {
		return fmt.Errorf("FullName(%q).IsValid() = %v", s, !isProtoFullName(s))
	}
	if (err == nil) != wantOK {
		return fmt.Errorf("protojson.Marshal(FieldMask{%q}): err = %v, but valid = %v and reversible = %v", s, err, isProtoFullName(s), reversible(s))
	}
	if err != nil {
		return nil
	}
	if back != s {
		return fmt.Errorf("protojson marshals FieldMask path %q but JSONSnakeCase(JSONCamelCase(s)) = %q", s, back)
	}
	if want := `"` + refJSONCamel(s) + `"`; string(out) != want {
		return fmt.Errorf("protojson.Marshal(FieldMask{%q}) = %s, want %s", s, out, want)
	}
	var fm fieldmaskpb.FieldMask
	if err := protojson.Unmarshal(out, &fm); err != nil {
		return fmt.Errorf("protojson.Unmarshal(%s) fails: %v", out, err)
	}
	if len(fm.Paths) != 1 || fm.Paths[0] != s {
		return fmt.Errorf("FieldMask path %q comes back as %q through JSON %s", s, fm.Paths, out)
	}
	return nil
}

func TestJSONNameExhaustive(t *testing.T) {
	if pbt.Skip() {
		return
	}
	maxLen := 5
	if pbt.Thorough() {
		maxLen = 7
	}
	var nt int64
	var last []byte
	n, err := sweep([]byte(jsonAlphabet), maxLen, func(s []byte) error {
		last = s
		if isProtoFullName(string(s)) && reversible(string(s)) {
			nt++
		}
		return checkJSONName(strCase{S: s})
	})
	if err != nil {
		pbt.ReportViolation(t, "jsonname-random", strCase{S: append([]byte(nil), last...)}, err)
		return
	}
	pbt.Count("jsonname-exhaustive", n, nt, fmt.Sprintf("every string over [abzABZ09_.] of length 1..%d (sharded): JSONCamelCase equals the JSON mapping; JSONSnakeCase(JSONCamelCase(s)) == s <=> s has no upper-case letter and every underscore is followed by a lower-case letter; protojson marshals FieldMask{s} <=> s is a valid full name and reversible, writes the camel form and reads it back as s. counted non-trivial = accepted paths", maxLen), true,
		map[string]string{"example": "foo_bar.b_z -> " + strs.JSONCamelCase("foo_bar.b_z")})
}

func TestJSONNameRandom(t *testing.T) {
	pbt.Run(t, pbt.Prop[strCase]{
		Name: "jsonname-random",
		Rule: "random strings of length 1..24 over [abzABZ019_] with dots: same oracle as jsonname-exhaustive. non-trivial = valid full name containing an underscore",
		Draw: func(t *rapid.T) strCase {
			s := drawIdentish(t)
			if rapid.Bool().Draw(t, "lower") {
				s = strings.ToLower(s)
			}
			return strCase{S: []byte(s)}
		},
		Check:      checkJSONName,
		NonTrivial: func(c strCase) bool { return isProtoFullName(string(c.S)) && bytes.Contains(c.S, []byte("_")) },
		Classes: func(c strCase) []string {
			s := string(c.S)
			switch {
			case !isProtoFullName(s):
				return []string{"not-a-name"}
			case reversible(s):
				return []string{"valid-reversible"}
			default:
				return []string{"valid-irreversible"}
			}
		},
		Quick: 30000, Thorough: 150000,
	})
}
