package c11

import (
	"fmt"
	"sort"
	"testing"

	"google.golang.org/protobuf/encoding/protojson"
	"google.golang.org/protobuf/encoding/prototext"
	"google.golang.org/protobuf/proto"
	"google.golang.org/protobuf/reflect/protoreflect"
	"google.golang.org/protobuf/types/descriptorpb"
	"google.golang.org/protobuf/zverif/corpus"
	"google.golang.org/protobuf/zverif/gen"
	"google.golang.org/protobuf/zverif/mcase"
	"google.golang.org/protobuf/zverif/model"
	"google.golang.org/protobuf/zverif/ops"
	"google.golang.org/protobuf/zverif/pbt"
	"google.golang.org/protobuf/zverif/ref"
	"pgregory.net/rapid"
)

// ---- own presence resolver ---------------------------------------------------------------------

func featPresence(fs *descriptorpb.FeatureSet) (descriptorpb.FeatureSet_FieldPresence, bool) {
	if fs == nil || fs.FieldPresence == nil {
		return 0, false
	}
	return fs.GetFieldPresence(), true
}

// hasPresence decides explicit presence for a singular field from the schema alone.
func hasPresence(fd protoreflect.FieldDescriptor) bool {
	if fd.IsList() || fd.IsMap() {
		return false
	}
	if fd.IsExtension() || fd.Message() != nil || fd.ContainingOneof() != nil {
		return true // extensions, messages and oneof members (real or synthetic) always track presence
	}
	file := fd.ParentFile()
	switch file.Syntax() {
	case protoreflect.Proto2:
		return true
	case protoreflect.Proto3:
		return false // `optional` fields were caught by the synthetic oneof above
	}
	if o, ok := fd.Options().(*descriptorpb.FieldOptions); ok && o != nil {
		if v, set := featPresence(o.GetFeatures()); set {
			return v != descriptorpb.FeatureSet_IMPLICIT
		}
	}
	for d := fd.Parent(); d != nil; d = d.Parent() {
		switch x := d.(type) {
		case protoreflect.MessageDescriptor:
			if o, ok := x.Options().(*descriptorpb.MessageOptions); ok && o != nil {
				if v, set := featPresence(o.GetFeatures()); set {
					return v != descriptorpb.FeatureSet_IMPLICIT
				}
			}
		case protoreflect.FileDescriptor:
			if o, ok := x.Options().(*descriptorpb.FileOptions); ok && o != nil {
				if v, set := featPresence(o.GetFeatures()); set {
					return v != descriptorpb.FeatureSet_IMPLICIT
				}
			}
			return true // edition default: EXPLICIT
		}
	}
	return true
}

// ---- the check -------------------------------------------------------------------------------------

type presCase struct {
	Type    string
	Dynamic bool
	Ops     []ops.Op
	// Redecode > 0: right before step Redecode-1 the message is replaced by a fresh instance decoded
	// (lazily, nothing touched) from its own encoding, so that the step acts on a field that may
	// still be held in wire form
	Redecode int `json:",omitempty"`
}

func checkDiscipline(md protoreflect.MessageDescriptor, seen map[protoreflect.FullName]bool) error {
	if seen[md.FullName()] {
		return nil
	}
	seen[md.FullName()] = true
	fs := md.Fields()
	for i := 0; i < fs.Len(); i++ {
		fd := fs.Get(i)
		if !fd.IsList() && !fd.IsMap() && fd.HasPresence() != hasPresence(fd) {
			return fmt.Errorf("field %s: descriptor HasPresence() = %v, schema rules (own resolver) say %v", fd.FullName(), fd.HasPresence(), hasPresence(fd))
		}
		if sub := fd.Message(); sub != nil && !fd.IsMap() {
			if err := checkDiscipline(sub, seen); err != nil {
				return err
			}
		}
	}
	return nil
}

// hasTree compares Has for every declared field with the model, recursively.
func hasTree(m protoreflect.Message, v *model.Msg, what string) error {
	if v == nil {
		v = &model.Msg{}
	}
	fs := m.Descriptor().Fields()
	for i := 0; i < fs.Len(); i++ {
		fd := fs.Get(i)
		f := v.Get(int32(fd.Number()))
		if m.Has(fd) != (f != nil) {
			return fmt.Errorf("%s: Has(%s) = %v, model populated = %v", what, fd.FullName(), m.Has(fd), f != nil)
		}
		if f != nil && fd.Message() != nil && !fd.IsList() && !fd.IsMap() {
			if err := hasTree(m.Get(fd).Message(), f.Vals[0].M, what); err != nil {
				return err
			}
		}
	}
	return nil
}

// wireRecords checks the encoded form: singular non-message fields appear exactly once when
// populated and never otherwise (an implicit-presence zero is never encoded).
func wireRecords(md protoreflect.MessageDescriptor, b []byte, v *model.Msg) error {
	recs, ok := ref.Split(b)
	if !ok {
		return fmt.Errorf("Marshal output not well-formed")
	}
	count := map[int64]int{}
	for _, r := range recs {
		count[r.Num]++
	}
	if v == nil {
		v = &model.Msg{}
	}
	fs := md.Fields()
	for i := 0; i < fs.Len(); i++ {
		fd := fs.Get(i)
		if fd.IsList() || fd.IsMap() {
			continue
		}
		f := v.Get(int32(fd.Number()))
		want := 0
		if f != nil {
			want = 1
		}
		if count[int64(fd.Number())] != want {
			return fmt.Errorf("field %s (explicit presence %v): %d wire records, want %d (populated=%v)", fd.FullName(), hasPresence(fd), count[int64(fd.Number())], want, f != nil)
		}
		if f != nil && fd.Message() != nil {
			for _, r := range recs {
				if r.Num == int64(fd.Number()) {
					var body []byte
					if r.Typ == 2 {
						body = r.Payload()
					} else if r.Typ == 3 {
						body = r.Val[:len(r.Val)-ref.VarintLen(uint64(r.Num)<<3|4)]
					}
					if err := wireRecords(fd.Message(), body, f.Vals[0].M); err != nil {
						return err
					}
				}
			}
		}
	}
	return nil
}

func stripUnknown(v *model.Msg) *model.Msg {
	if v == nil {
		return nil
	}
	o := &model.Msg{}
	for _, f := range v.Fields {
		g := model.Field{Num: f.Num, Keys: f.Keys}
		for _, x := range f.Vals {
			g.Vals = append(g.Vals, model.Val{U: x.U, B: x.B, M: stripUnknown(x.M)})
		}
		o.Fields = append(o.Fields, g)
	}
	return o
}

func checkPresence(c presCase) error {
	md := mcase.Desc(c.Type)
	if err := checkDiscipline(md, map[protoreflect.FullName]bool{}); err != nil {
		return err
	}
	m := mcase.New(c.Type, c.Dynamic)
	cur := &model.Msg{}
	for i, op := range c.Ops {
		if c.Redecode == i+1 {
			b, err := proto.MarshalOptions{AllowPartial: true}.Marshal(m.Interface())
			if err != nil {
				return fmt.Errorf("Marshal before step %d: %v", i, err)
			}
			m = mcase.New(c.Type, c.Dynamic)
			if err := (proto.UnmarshalOptions{AllowPartial: true}).Unmarshal(b, m.Interface()); err != nil {
				return fmt.Errorf("Unmarshal of own output before step %d: %v", i, err)
			}
		}
		if err := ops.ApplyModel(md, cur, op); err != nil {
			return err
		}
		if err := ops.ApplyMsg(m, op); err != nil {
			return err
		}
		if err := ops.Verify(m, cur); err != nil {
			return fmt.Errorf("after step %d %v: %v", i, op, err)
		}
	}
	eq := model.EqualOpts{BitwiseFloats: true}
	// binary
	b, err := proto.MarshalOptions{AllowPartial: true}.Marshal(m.Interface())
	if err != nil {
		return fmt.Errorf("Marshal: %v", err)
	}
	if err := wireRecords(md, b, cur); err != nil {
		return err
	}
	m2 := mcase.New(c.Type, c.Dynamic)
	if err := (proto.UnmarshalOptions{AllowPartial: true}).Unmarshal(b, m2.Interface()); err != nil {
		return fmt.Errorf("Unmarshal: %v", err)
	}
	if err := hasTree(m2, cur, "after binary round trip"); err != nil {
		return err
	}
	if d := model.Diff(md, cur, model.Snapshot(m2), eq, nil); d != "" {
		return fmt.Errorf("binary round trip: %s", d)
	}
	// JSON
	jb, err := protojson.MarshalOptions{AllowPartial: true}.Marshal(m.Interface())
	if err != nil {
		return fmt.Errorf("protojson.Marshal: %v", err)
	}
	m3 := mcase.New(c.Type, c.Dynamic)
	if err := (protojson.UnmarshalOptions{AllowPartial: true}).Unmarshal(jb, m3.Interface()); err != nil {
		return fmt.Errorf("protojson.Unmarshal: %v (%s)", err, jb)
	}
	if err := hasTree(m3, stripUnknown(cur), "after JSON round trip"); err != nil {
		return fmt.Errorf("%v (document %s)", err, jb)
	}
	// text
	tb, err := prototext.MarshalOptions{AllowPartial: true}.Marshal(m.Interface())
	if err != nil {
		return fmt.Errorf("prototext.Marshal: %v", err)
	}
	m4 := mcase.New(c.Type, c.Dynamic)
	if err := (prototext.UnmarshalOptions{AllowPartial: true}).Unmarshal(tb, m4.Interface()); err != nil {
		return fmt.Errorf("prototext.Unmarshal: %v (%s)", err, tb)
	}
	if err := hasTree(m4, stripUnknown(cur), "after text round trip"); err != nil {
		return fmt.Errorf("%v (document %s)", err, tb)
	}
	return nil
}

var types, rich = noConstrained(corpus.Modern()), noConstrained(corpus.ModernRich(20))

// lazyTypes: the modern types that have [lazy = true] fields
var lazyTypes = func() []string {
	in := map[string]bool{}
	for _, n := range types {
		in[n] = true
	}
	var out []string
	for _, n := range corpus.LazyCapable() {
		if in[n] && len(corpus.LazyFields(mcase.Desc(n))) > 0 {
			out = append(out, n)
		}
	}
	return out
}()

// well-known types whose JSON form accepts only part of their values cannot serve as the top-level
// type of the three-codec round trip (their fields are skipped inside other messages as well)
func noConstrained(in []string) (out []string) {
	for _, n := range in {
		if !gen.ConstrainedJSON[protoreflect.FullName(n)] {
			out = append(out, n)
		}
	}
	return
}

func explicitDefaults(md protoreflect.MessageDescriptor, v *model.Msg) int {
	n := 0
	if v == nil {
		return 0
	}
	for _, f := range v.Fields {
		fd := model.FieldDesc(md, f.Num, nil)
		if fd == nil {
			continue
		}
		if !fd.IsList() && !fd.IsMap() && fd.Message() == nil && model.IsZero(fd, f.Vals[0]) {
			n++
		}
		if fd.Message() != nil && !fd.IsMap() {
			for _, x := range f.Vals {
				n += explicitDefaults(fd.Message(), x.M)
			}
		}
	}
	return n
}

func TestPresence(t *testing.T) {
	mo := gen.DefaultMsgOpts
	mo.Extensions = false
	mo.Unknown = false
	mo.ValidUTF8 = true
	mo.SkipField = gen.SkipConstrainedJSON
	pbt.Run(t, pbt.Prop[presCase]{
		Name: "presence",
		Rule: "types: modern linked types (open/hybrid/opaque, proto2/proto3/editions) or dynamicpb; 1..25 legal reflection steps from the empty message with zero values a quarter of the time, in a third of the cases with the message replaced mid-history by a lazily decoded, untouched copy of itself (preferably right before a clear); well-known types with constrained JSON forms are skipped so that all three codecs can represent the state. non-trivial = final state holds an explicit-presence scalar set to its zero value, or the history clears a populated field",
		Draw: func(t *rapid.T) presCase {
			c := presCase{Type: gen.TypeName(types, rich).Draw(t, "type"), Dynamic: rapid.IntRange(0, 3).Draw(t, "dyn") == 0}
			go_ := ops.GenOpts{Msg: mo, MaxDepth: 2, NoUnknown: true}
			if len(lazyTypes) > 0 && rapid.IntRange(0, 7).Draw(t, "lazy-type") == 0 {
				// a fixed share for types with [lazy = true] fields, with the top-level steps confined to
				// those fields: set / clear / redecode / clear on a field that is held in wire form
				c.Type, c.Dynamic = lazyTypes[rapid.IntRange(0, len(lazyTypes)-1).Draw(t, "lazy-name")], false
				top := mcase.Desc(c.Type)
				isLazy := map[protoreflect.FieldNumber]bool{}
				for _, n := range corpus.LazyFields(top) {
					isLazy[n] = true
				}
				go_.OnlyFields = func(fd protoreflect.FieldDescriptor) bool {
					return fd.ContainingMessage() != top || isLazy[fd.Number()]
				}
			}
			md := mcase.Desc(c.Type)
			n := rapid.IntRange(1, 25).Draw(t, "steps")
			c.Ops, _ = ops.DrawHistory(t, md, &model.Msg{}, n, go_)
			if len(c.Ops) > 1 && rapid.IntRange(0, 2).Draw(t, "redecode") == 0 {
				// prefer a clear step: clearing a field nobody has read since it was decoded
				var clears []int
				for i, op := range c.Ops {
					if op.Kind == "clear" && i > 0 {
						clears = append(clears, i)
					}
				}
				if len(clears) > 0 && rapid.Bool().Draw(t, "redecode-before-clear") {
					c.Redecode = clears[rapid.IntRange(0, len(clears)-1).Draw(t, "redecode-clear")] + 1
				} else {
					c.Redecode = rapid.IntRange(2, len(c.Ops)).Draw(t, "redecode-at")
				}
			}
			return c
		},
		Check: checkPresence,
		NonTrivial: func(c presCase) bool {
			md := mcase.Desc(c.Type)
			cur := &model.Msg{}
			cleared := false
			for _, op := range c.Ops {
				if op.Kind == "clear" {
					if _, sub, err := navOK(md, cur, op); err == nil && sub {
						cleared = true
					}
				}
				ops.ApplyModel(md, cur, op)
			}
			return cleared || explicitDefaults(md, cur) > 0
		},
		Classes: func(c presCase) []string {
			md := mcase.Desc(c.Type)
			cur := &model.Msg{}
			for _, op := range c.Ops {
				ops.ApplyModel(md, cur, op)
			}
			cl := []string{fmt.Sprint(md.ParentFile().Syntax())}
			if explicitDefaults(md, cur) > 0 {
				cl = append(cl, "explicit-default-set")
			}
			k := map[string]bool{}
			for _, op := range c.Ops {
				k[op.Kind] = true
			}
			for x := range k {
				cl = append(cl, x)
			}
			sort.Strings(cl)
			return cl
		},
		Quick: 5000, Thorough: 120000,
	})
}

// navOK reports whether a clear op hits a populated field of the current model.
func navOK(md protoreflect.MessageDescriptor, cur *model.Msg, op ops.Op) (protoreflect.MessageDescriptor, bool, error) {
	probe := cur.Clone()
	if err := ops.ApplyModel(md, probe, op); err != nil {
		return nil, false, err
	}
	return md, model.Diff(md, cur, probe, model.EqualOpts{BitwiseFloats: true}, nil) != "", nil
}
