package c40

import (
	"testing"

	"google.golang.org/protobuf/zverif/gencode"
)

// TestZZZCleanup deletes the plugin binary this process built (must sort after every other test).
func TestZZZCleanup(t *testing.T) { gencode.RemoveTools() }
