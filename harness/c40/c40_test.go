package c40

import (
	"bytes"
	"fmt"
	"hash/fnv"
	"sort"
	"strings"
	"sync"
	"testing"

	"google.golang.org/protobuf/encoding/prototext"
	"google.golang.org/protobuf/proto"
	"google.golang.org/protobuf/types/descriptorpb"
	"google.golang.org/protobuf/types/gofeaturespb"
	"google.golang.org/protobuf/types/pluginpb"
	"google.golang.org/protobuf/zverif/gencode"
	"google.golang.org/protobuf/zverif/pbt"
	"google.golang.org/protobuf/zverif/schema"
	"pgregory.net/rapid"
)

type fdp = descriptorpb.FileDescriptorProto

// genCase is one CodeGeneratorRequest plus the recipe of its metamorphic variants.
type genCase struct {
	Source  string   `json:"source"`          // "linked" | "schema"
	Names   []string `json:"names,omitempty"` // linked: requested files, in requested order
	Raw     [][]byte `json:"raw,omitempty"`   // schema: the set (schema.Marshal), go_package options already assigned
	Gen     []int    `json:"gen,omitempty"`   // schema: indices of the requested files, in requested order
	Param   string   `json:"param"`
	GenPerm []int    `json:"gen_perm,omitempty"` // priorities: the variant requests the files sorted by them
	Prio    []int    `json:"prio,omitempty"`     // priorities for the topological re-ordering of proto_file
	Extra   []string `json:"extra,omitempty"`    // linked files added to proto_file only
	Sub     bool     `json:"sub"`                // also run the plugin binary
}

// ---------------------------------------------------------------------------------------------
// linked files (from a helper process that links harness/corpus)

var (
	poolOnce   sync.Once
	poolErr    error
	poolByName map[string]*fdp
	poolNames  []string // files protogen accepts on their own, sorted
	poolAll    []string
)

func loadPool() error {
	poolOnce.Do(func() {
		lf, err := gencode.LinkedFiles()
		if err != nil {
			poolErr = err
			return
		}
		poolByName = map[string]*fdp{}
		for _, f := range lf {
			poolByName[f.GetName()] = f
			poolAll = append(poolAll, f.GetName())
		}
		sort.Strings(poolAll)
		for _, n := range poolAll {
			ok := true
			for _, d := range closure([]string{n}) {
				if d == nil {
					ok = false // an import that is not linked (legacy.proto)
				} else if usesMessageSet(d.GetMessageType()) {
					ok = false // protodesc rejects MessageSet without the protolegacy tag: Options.New fails (kept out to keep cases productive)
				}
			}
			if ok {
				poolNames = append(poolNames, n)
			}
		}
	})
	return poolErr
}

func usesMessageSet(ms []*descriptorpb.DescriptorProto) bool {
	for _, m := range ms {
		if m.GetOptions().GetMessageSetWireFormat() || usesMessageSet(m.GetNestedType()) {
			return true
		}
	}
	return false
}

// closure returns the named linked files and everything they import, dependencies first (nil
// entries for imports that are not linked).
func closure(names []string) []*fdp {
	seen := map[string]bool{}
	var out []*fdp
	var add func(n string)
	add = func(n string) {
		if seen[n] {
			return
		}
		seen[n] = true
		f := poolByName[n]
		if f == nil {
			out = append(out, nil)
			return
		}
		for _, d := range f.GetDependency() {
			add(d)
		}
		out = append(out, f)
	}
	for _, n := range names {
		add(n)
	}
	return out
}

// ---------------------------------------------------------------------------------------------
// building requests

func (c genCase) base() (protoFiles []*fdp, toGen []string, err error) {
	switch c.Source {
	case "linked":
		if err := loadPool(); err != nil {
			return nil, nil, err
		}
		protoFiles = closure(c.Names)
		for _, f := range protoFiles {
			if f == nil {
				return nil, nil, fmt.Errorf("import of %v not linked", c.Names)
			}
		}
		return protoFiles, c.Names, nil
	case "schema":
		files, err := schema.Unmarshal(c.Raw)
		if err != nil {
			return nil, nil, err
		}
		wk, err := gencode.LinkedClosure(files)
		if err != nil {
			return nil, nil, err
		}
		for _, i := range c.Gen {
			if i < 0 || i >= len(files) {
				return nil, nil, fmt.Errorf("bad gen index %d", i)
			}
			toGen = append(toGen, files[i].GetName())
		}
		return append(wk, files...), toGen, nil
	}
	return nil, nil, fmt.Errorf("unknown source %q", c.Source)
}

func reqBytes(protoFiles []*fdp, toGen []string, param string) ([]byte, error) {
	req := &pluginpb.CodeGeneratorRequest{
		FileToGenerate:  toGen,
		ProtoFile:       protoFiles,
		CompilerVersion: gencode.CompilerVersion,
	}
	if param != "" {
		req.Parameter = proto.String(param)
	}
	return proto.MarshalOptions{Deterministic: true}.Marshal(req)
}

func permuted(xs []string, prio []int) []string {
	idx := make([]int, len(xs))
	for i := range idx {
		idx[i] = i
	}
	p := func(i int) int {
		if i < len(prio) {
			return prio[i]
		}
		return 0
	}
	sort.SliceStable(idx, func(a, b int) bool { return p(idx[a]) < p(idx[b]) })
	out := make([]string, len(xs))
	for i, j := range idx {
		out[i] = xs[j]
	}
	return out
}

func sameStrings(a, b []string) bool {
	if len(a) != len(b) {
		return false
	}
	for i := range a {
		if a[i] != b[i] {
			return false
		}
	}
	return true
}

func fileNames(fs []*fdp) []string {
	var out []string
	for _, f := range fs {
		out = append(out, f.GetName())
	}
	return out
}

// ---------------------------------------------------------------------------------------------
// outcomes

// outcome of one generator run: either Options.New failed (the binary then exits 1 without a
// response) or there is a response.
type outcome struct {
	newErr string
	raw    []byte
}

var (
	lastMu  sync.Mutex
	lastReq []byte
	lastOut outcome
)

func rememberOutcome(rb []byte, o outcome) {
	lastMu.Lock()
	lastReq, lastOut = rb, o
	lastMu.Unlock()
}

func lastOutcome(rb []byte) (outcome, bool) {
	lastMu.Lock()
	defer lastMu.Unlock()
	return lastOut, lastReq != nil && bytes.Equal(lastReq, rb)
}

func runInProcess(rb []byte) outcome {
	out, err := gencode.GenerateBytes(rb)
	if err != nil {
		return outcome{newErr: "error: " + err.Error()}
	}
	return outcome{raw: out}
}

func describeDiff(a, b []byte) string {
	ra, rb := &pluginpb.CodeGeneratorResponse{}, &pluginpb.CodeGeneratorResponse{}
	if proto.Unmarshal(a, ra) != nil || proto.Unmarshal(b, rb) != nil {
		return fmt.Sprintf("responses of %d and %d bytes (unparsable)", len(a), len(b))
	}
	return describeRespDiff(ra, rb, true)
}

// describeCrossBinaryDiff compares the responses of two different binaries: like describeDiff, but
// *.meta files (prototext) are compared as messages.
func describeCrossBinaryDiff(a, b []byte) string {
	ra, rb := &pluginpb.CodeGeneratorResponse{}, &pluginpb.CodeGeneratorResponse{}
	if proto.Unmarshal(a, ra) != nil || proto.Unmarshal(b, rb) != nil {
		return fmt.Sprintf("responses of %d and %d bytes (unparsable)", len(a), len(b))
	}
	if len(ra.GetFile()) == len(rb.GetFile()) {
		for i, fa := range ra.File {
			fb := rb.File[i]
			if fa.GetName() != fb.GetName() || !strings.HasSuffix(fa.GetName(), ".meta") || fa.GetContent() == fb.GetContent() {
				continue
			}
			ia, ib := &descriptorpb.GeneratedCodeInfo{}, &descriptorpb.GeneratedCodeInfo{}
			if err := prototext.Unmarshal([]byte(fa.GetContent()), ia); err != nil {
				return fmt.Sprintf("%s is not a GeneratedCodeInfo in text format: %v", fa.GetName(), err)
			}
			if err := prototext.Unmarshal([]byte(fb.GetContent()), ib); err != nil {
				return fmt.Sprintf("%s is not a GeneratedCodeInfo in text format: %v", fa.GetName(), err)
			}
			if !proto.Equal(ia, ib) {
				return fmt.Sprintf("GeneratedCodeInfo in %s differs", fa.GetName())
			}
			fb.Content = fa.Content
		}
	}
	return describeRespDiff(ra, rb, true)
}

func firstDiffLine(a, b string) string {
	la, lb := strings.Split(a, "\n"), strings.Split(b, "\n")
	for i := 0; i < len(la) || i < len(lb); i++ {
		var x, y string
		if i < len(la) {
			x = la[i]
		}
		if i < len(lb) {
			y = lb[i]
		}
		if x != y {
			return fmt.Sprintf("line %d: %.160q vs %.160q", i+1, x, y)
		}
	}
	return "no differing line"
}

// describeRespDiff compares two responses; ordered = false ignores the order of the files.
// It returns "" when they agree.
func describeRespDiff(ra, rb *pluginpb.CodeGeneratorResponse, ordered bool) string {
	if ra.GetError() != rb.GetError() || (ra.Error == nil) != (rb.Error == nil) {
		return fmt.Sprintf("error %.200q vs %.200q", ra.GetError(), rb.GetError())
	}
	if ra.GetSupportedFeatures() != rb.GetSupportedFeatures() || ra.GetMinimumEdition() != rb.GetMinimumEdition() || ra.GetMaximumEdition() != rb.GetMaximumEdition() {
		return "supported_features / edition range differ"
	}
	type nc struct{ name, content string }
	list := func(r *pluginpb.CodeGeneratorResponse) []nc {
		var out []nc
		for _, f := range r.GetFile() {
			out = append(out, nc{f.GetName(), f.GetContent()})
			if f.InsertionPoint != nil || f.GeneratedCodeInfo != nil {
				out = append(out, nc{f.GetName() + "#extra", f.String()})
			}
		}
		if !ordered {
			sort.SliceStable(out, func(i, j int) bool { return out[i].name < out[j].name })
		}
		return out
	}
	la, lb := list(ra), list(rb)
	if len(la) != len(lb) {
		return fmt.Sprintf("file sets differ: %v vs %v", gencode.Names(ra), gencode.Names(rb))
	}
	for i := range la {
		if la[i].name != lb[i].name {
			return fmt.Sprintf("file sets differ: %v vs %v", gencode.Names(ra), gencode.Names(rb))
		}
	}
	for i := range la {
		if la[i].content != lb[i].content {
			return fmt.Sprintf("content of %s differs: %s", la[i].name, firstDiffLine(la[i].content, lb[i].content))
		}
	}
	return ""
}

// differingFiles lists the names of files whose contents differ between two responses with equal file sets.
func differingFiles(ra, rb *pluginpb.CodeGeneratorResponse) []string {
	a, b := gencode.Files(ra), gencode.Files(rb)
	var out []string
	for n, ca := range a {
		if cb, ok := b[n]; ok && ca != cb {
			out = append(out, n)
		}
	}
	sort.Strings(out)
	return out
}

// ---------------------------------------------------------------------------------------------
// the check

const (
	inProcessRuns = 5
	pluginRuns    = 3
)

func checkGen(c genCase) error { return checkGenX(c, true) }

// checkGenNoExclusion is checkGen without the known-finding exclusions (for witness tests).
func checkGenNoExclusion(c genCase) error { return checkGenX(c, false) }

func checkGenX(c genCase, exclude bool) error {
	if ext := gencode.ExtensionsLinked(); len(ext) != 1 {
		return fmt.Errorf("harness: this binary links extension types the plugin does not: %v", ext)
	}
	protoFiles, toGen, err := c.base()
	if err != nil {
		return fmt.Errorf("harness: %v", err)
	}
	rb, err := reqBytes(protoFiles, toGen, c.Param)
	if err != nil {
		return fmt.Errorf("harness: %v", err)
	}

	// (1) repeated in-process runs (fresh protogen.Plugin each; Go randomises every map iteration)
	first := runInProcess(rb)
	rememberOutcome(rb, first)
	for i := 1; i < inProcessRuns; i++ {
		o := runInProcess(rb)
		if (o.newErr == "") != (first.newErr == "") {
			return fmt.Errorf("in-process run %d: Options.New outcome changed: %q vs %q", i+1, first.newErr, o.newErr)
		}
		if !bytes.Equal(o.raw, first.raw) {
			return fmt.Errorf("in-process run %d gives a different CodeGeneratorResponse than run 1: %s", i+1, describeDiff(first.raw, o.raw))
		}
	}

	// (2) the real plugin binary, separate processes
	if c.Sub {
		bin, err := gencode.BuildPlugin()
		if err != nil {
			return fmt.Errorf("harness: %v", err)
		}
		var firstPlugin []byte
		for i := 0; i < pluginRuns; i++ {
			so, se, err := gencode.RunPlugin(bin, rb)
			if !gencode.Started(err) {
				return fmt.Errorf("harness: plugin process could not be run: %v", err)
			}
			if first.newErr != "" {
				if err == nil {
					return fmt.Errorf("plugin process run %d succeeded (%d bytes) but in-process Options.New fails: %s", i+1, len(so), first.newErr)
				}
				if len(so) != 0 {
					return fmt.Errorf("plugin process run %d failed but wrote %d bytes to stdout", i+1, len(so))
				}
				continue
			}
			if err != nil {
				return fmt.Errorf("plugin process run %d failed (%v: %.300s) but in-process generation succeeds", i+1, err, se)
			}
			if i == 0 {
				firstPlugin = so
				// The test binary and the plugin are different binaries: annotate_code's .meta files are
				// prototext, whose whitespace is deliberately keyed to the binary (internal/detrand), so
				// those are compared as GeneratedCodeInfo messages; everything else byte for byte.
				if !bytes.Equal(so, first.raw) {
					if d := describeCrossBinaryDiff(first.raw, so); d != "" {
						return fmt.Errorf("plugin process run 1 gives a different CodeGeneratorResponse than the in-process run: %s", d)
					}
				}
				continue
			}
			if !bytes.Equal(so, firstPlugin) {
				return fmt.Errorf("plugin process run %d gives a different CodeGeneratorResponse than plugin process run 1: %s", i+1, describeDiff(firstPlugin, so))
			}
		}
	}
	if first.newErr != "" {
		return nil
	}
	base := &pluginpb.CodeGeneratorResponse{}
	if err := proto.Unmarshal(first.raw, base); err != nil {
		return fmt.Errorf("response does not parse: %v", err)
	}

	// (3) metamorphic variants: per-file contents and file set must not change
	variant := func(what string, pf []*fdp, tg []string) error {
		vb, err := reqBytes(pf, tg, c.Param)
		if err != nil {
			return fmt.Errorf("harness: %v", err)
		}
		if bytes.Equal(vb, rb) {
			return nil
		}
		o := runInProcess(vb)
		if o.newErr != "" {
			return fmt.Errorf("%s: Options.New fails (%s) but succeeds for the original request", what, o.newErr)
		}
		vr := &pluginpb.CodeGeneratorResponse{}
		if err := proto.Unmarshal(o.raw, vr); err != nil {
			return fmt.Errorf("%s: response does not parse: %v", what, err)
		}
		if base.Error != nil {
			// an error response has no files; its text names the first offending file in generation
			// order, which legitimately follows the requested order
			if vr.Error == nil {
				return fmt.Errorf("%s: generation succeeds but the original request gets the error %.200q", what, base.GetError())
			}
			return nil
		}
		if d := describeRespDiff(base, vr, false); d != "" {
			if exclude && isHybridPublicImport(c, protoFiles, toGen, base, vr) && pbt.ExcludeKnown(kfHybridPublic) {
				return nil
			}
			return fmt.Errorf("%s changes the generated files: %s", what, d)
		}
		return nil
	}
	if len(c.GenPerm) > 0 {
		if err := variant(fmt.Sprintf("requesting the files in the order %v instead of %v", permuted(toGen, c.GenPerm), toGen), protoFiles, permuted(toGen, c.GenPerm)); err != nil {
			return err
		}
	}
	if len(c.Prio) > 0 {
		re := gencode.TopoOrder(protoFiles, c.Prio)
		if err := variant(fmt.Sprintf("listing proto_file as %v instead of %v", fileNames(re), fileNames(protoFiles)), re, toGen); err != nil {
			return err
		}
	}
	if len(c.Extra) > 0 {
		if err := loadPool(); err != nil {
			return fmt.Errorf("harness: %v", err)
		}
		have := map[string]bool{}
		for _, f := range protoFiles {
			have[f.GetName()] = true
		}
		all := append([]*fdp(nil), protoFiles...)
		for _, f := range closure(c.Extra) {
			if f != nil && !have[f.GetName()] {
				have[f.GetName()] = true
				all = append(all, f)
			}
		}
		rev := make([]int, len(all))
		for i := range rev {
			if i < len(c.Prio) {
				rev[i] = -c.Prio[i]
			} else {
				rev[i] = -i * 7 % 5
			}
		}
		if err := variant(fmt.Sprintf("adding the unrelated files %v to proto_file", c.Extra), gencode.TopoOrder(all, rev), toGen); err != nil {
			return err
		}
	}
	return nil
}

// ---------------------------------------------------------------------------------------------
// known finding: hybrid file reached through `import public` from two requested files

const kfHybridPublic = "KF-gengo-public-import-hybrid-order"

// apiLevelParam extracts default_api_level from the parameter string.
func apiLevelParam(param string) string {
	for _, p := range strings.Split(param, ",") {
		if v, ok := strings.CutPrefix(p, "default_api_level="); ok {
			return v
		}
	}
	return ""
}

func mayBeHybrid(f *fdp, param string) bool {
	if apiLevelParam(param) == "API_HYBRID" || strings.Contains(param, "=API_HYBRID") {
		return true
	}
	hyb := func(fs *descriptorpb.FeatureSet) bool {
		if fs == nil || !proto.HasExtension(fs, gofeaturespb.E_Go) {
			return false
		}
		return proto.GetExtension(fs, gofeaturespb.E_Go).(*gofeaturespb.GoFeatures).GetApiLevel() == gofeaturespb.GoFeatures_API_HYBRID
	}
	if hyb(f.GetOptions().GetFeatures()) {
		return true
	}
	var walk func(ms []*descriptorpb.DescriptorProto) bool
	walk = func(ms []*descriptorpb.DescriptorProto) bool {
		for _, m := range ms {
			if hyb(m.GetOptions().GetFeatures()) || walk(m.GetNestedType()) {
				return true
			}
		}
		return false
	}
	return walk(f.GetMessageType())
}

// isHybridPublicImport recognises the root cause "generateFiles flips the shared protogen.File /
// Message API level to OPAQUE after emitting the hybrid variant, so the forwarding declarations of
// the second file that publicly imports a not-requested hybrid file are computed from the opaque
// rendering": every file whose content differs publicly imports (directly or through public
// imports) a file that is not requested itself and has hybrid messages, and the differing lines
// are all forwarding declarations.
func isHybridPublicImport(c genCase, protoFiles []*fdp, toGen []string, a, b *pluginpb.CodeGeneratorResponse) bool {
	if len(gencode.Names(a)) != len(gencode.Names(b)) {
		return false
	}
	byName := map[string]*fdp{}
	for _, f := range protoFiles {
		byName[f.GetName()] = f
	}
	requested := map[string]bool{}
	for _, n := range toGen {
		requested[n] = true
	}
	// files with a (transitive) public import of a non-requested hybrid file
	var reaches func(f *fdp, seen map[string]bool) bool
	reaches = func(f *fdp, seen map[string]bool) bool {
		for _, pi := range f.GetPublicDependency() {
			if int(pi) >= len(f.GetDependency()) {
				continue
			}
			d := byName[f.GetDependency()[pi]]
			if d == nil || seen[d.GetName()] {
				continue
			}
			seen[d.GetName()] = true
			if !requested[d.GetName()] && mayBeHybrid(d, c.Param) {
				return true
			}
			if reaches(d, seen) {
				return true
			}
		}
		return false
	}
	diff := differingFiles(a, b)
	if len(diff) == 0 {
		return false
	}
	fa, fb := gencode.Files(a), gencode.Files(b)
	for _, n := range diff {
		// which proto file produced n? match on the "// source: " / "is a deprecated file" header or the name stem
		var src *fdp
		for _, f := range protoFiles {
			if requested[f.GetName()] && (strings.Contains(fa[n], "// source: "+f.GetName()+"\n") || strings.Contains(fa[n], "// "+f.GetName()+" is a deprecated file.\n")) {
				src = f
			}
		}
		if src == nil || !reaches(src, map[string]bool{}) {
			return false
		}
		if !onlyForwardingLinesDiffer(fa[n], fb[n]) {
			return false
		}
	}
	return true
}

// onlyForwardingLinesDiffer: the multiset difference of the lines of a and b consists of forwarding
// declarations ("type X = pkg.X", "const X = pkg.X", "var X = pkg.X") only.
func onlyForwardingLinesDiffer(a, b string) bool {
	count := map[string]int{}
	for _, l := range strings.Split(a, "\n") {
		count[l]++
	}
	for _, l := range strings.Split(b, "\n") {
		count[l]--
	}
	for l, n := range count {
		if n == 0 {
			continue
		}
		f := strings.Fields(l)
		if len(f) == 4 && (f[0] == "type" || f[0] == "const" || f[0] == "var") && f[2] == "=" && strings.HasSuffix(f[3], "."+f[1]) {
			continue
		}
		return false
	}
	return true
}

// ---------------------------------------------------------------------------------------------
// generators

var importPathPool = []string{
	"example.com/gen/a", "example.com/gen/b", "example.com/gen/sub/c", "example.com/gen/go", "example.com/gen/v1",
	"example.com/gen/x.y-z", "example.com/gen/a/b", "example.com/gen/type", "example.com/gen/1st", "example.com/gen/proto",
}

func drawPrio(t *rapid.T, n int, label string) []int {
	if n == 0 {
		return nil
	}
	return rapid.SliceOfN(rapid.IntRange(0, 9), n, n).Draw(t, label)
}

// drawParams draws the generator parameter string for a request over the given files.
func drawParams(t *rapid.T, files []*fdp, needM map[string]string, modulePrefix string) string {
	var ps []string
	if rapid.IntRange(0, 3).Draw(t, "api?") > 0 {
		ps = append(ps, "default_api_level="+rapid.SampledFrom(gencode.APILevels).Draw(t, "api"))
	}
	paths := rapid.SampledFrom([]string{"", "import", "source_relative"}).Draw(t, "paths")
	if paths != "" {
		ps = append(ps, "paths="+paths)
	}
	if paths != "source_relative" && rapid.IntRange(0, 3).Draw(t, "module?") == 3 {
		m := modulePrefix
		if rapid.IntRange(0, 7).Draw(t, "module-mismatch") == 7 {
			m = "example.org/other"
		}
		ps = append(ps, "module="+m)
	}
	for _, f := range files {
		n := f.GetName()
		switch v, need := needM[n]; {
		case need && v != "":
			ps = append(ps, "M"+n+"="+v)
		case need:
			ps = append(ps, "M"+n+"="+rapid.SampledFrom(importPathPool).Draw(t, "mpath"))
		case rapid.IntRange(0, 7).Draw(t, "M?") == 7:
			v := rapid.SampledFrom(importPathPool).Draw(t, "mpath")
			if rapid.IntRange(0, 3).Draw(t, "mname") == 3 {
				v += ";" + rapid.SampledFrom([]string{"xpb", "go", "a_b"}).Draw(t, "pkgname")
			}
			ps = append(ps, "M"+n+"="+v)
		}
		if rapid.IntRange(0, 9).Draw(t, "apilevelM?") == 9 {
			ps = append(ps, "apilevelM"+n+"="+rapid.SampledFrom(gencode.APILevels).Draw(t, "apilevelM"))
		}
	}
	if rapid.IntRange(0, 5).Draw(t, "annotate?") == 5 {
		ps = append(ps, rapid.SampledFrom([]string{"annotate_code", "annotate_code=true", "annotate_code=false"}).Draw(t, "annotate"))
	}
	if rapid.IntRange(0, 11).Draw(t, "strip?") == 11 {
		ps = append(ps, "experimental_strip_nonfunctional_codegen=true")
	}
	if len(ps) > 1 && rapid.Bool().Draw(t, "shuffle-params") {
		ps = rapid.Permutation(ps).Draw(t, "param-order")
	}
	return strings.Join(ps, ",")
}

func drawSchemaCase(t *rapid.T) genCase {
	o := schema.Opts{WellKnown: true, MaxFiles: 4, Lazy: true, SourceInfo: rapid.Bool().Draw(t, "source-info"),
		AdversarialNames: rapid.IntRange(0, 3).Draw(t, "adversarial") == 3}
	files := schema.Draw(t, o)
	// more public imports than the schema generator draws by itself (forwarding declarations)
	for _, f := range files {
		isPub := map[int32]bool{}
		for _, i := range f.GetPublicDependency() {
			isPub[i] = true
		}
		for i, d := range f.GetDependency() {
			if !isPub[int32(i)] && !strings.HasPrefix(d, "google/protobuf/") && rapid.IntRange(0, 2).Draw(t, "make-public") == 2 {
				f.PublicDependency = append(f.PublicDependency, int32(i))
			}
		}
		sort.Slice(f.PublicDependency, func(a, b int) bool { return f.PublicDependency[a] < f.PublicDependency[b] })
	}
	// sometimes every later file publicly imports the first one (siblings forwarding the same symbols)
	pinned := false
	if len(files) >= 3 && rapid.IntRange(0, 2).Draw(t, "fan-in") == 2 {
		// … and sometimes that first file is a hybrid-API editions file in which one message pins
		// its own API level: the generator switches API levels of shared message objects while it
		// emits the _protoopaque variant, which the forwarding declarations of importers depend on
		if f0 := files[0]; f0.GetSyntax() == "editions" && len(f0.MessageType) > 0 && rapid.Bool().Draw(t, "pinned-api") {
			hasDep := false
			for _, d := range f0.Dependency {
				hasDep = hasDep || d == "google/protobuf/go_features.proto"
			}
			if !hasDep {
				f0.Dependency = append(f0.Dependency, "google/protobuf/go_features.proto")
			}
			setLevel := func(fs **descriptorpb.FeatureSet, lv gofeaturespb.GoFeatures_APILevel) {
				if *fs == nil {
					*fs = &descriptorpb.FeatureSet{}
				}
				gf := &gofeaturespb.GoFeatures{}
				if proto.HasExtension(*fs, gofeaturespb.E_Go) {
					gf = proto.Clone(proto.GetExtension(*fs, gofeaturespb.E_Go).(*gofeaturespb.GoFeatures)).(*gofeaturespb.GoFeatures)
				}
				gf.ApiLevel = lv.Enum()
				proto.SetExtension(*fs, gofeaturespb.E_Go, gf)
			}
			if f0.Options == nil {
				f0.Options = &descriptorpb.FileOptions{}
			}
			setLevel(&f0.Options.Features, gofeaturespb.GoFeatures_API_HYBRID)
			m0 := f0.MessageType[rapid.IntRange(0, len(f0.MessageType)-1).Draw(t, "pinned-msg")]
			if m0.Options == nil {
				m0.Options = &descriptorpb.MessageOptions{}
			}
			setLevel(&m0.Options.Features, rapid.SampledFrom([]gofeaturespb.GoFeatures_APILevel{gofeaturespb.GoFeatures_API_OPEN, gofeaturespb.GoFeatures_API_OPAQUE}).Draw(t, "pinned-level"))
			pinned = true
		}
		for _, f := range files[1:] {
			at := -1
			for i, d := range f.GetDependency() {
				if d == files[0].GetName() {
					at = i
				}
			}
			if at < 0 {
				f.Dependency = append(f.Dependency, files[0].GetName())
				at = len(f.Dependency) - 1
			}
			pub := false
			for _, i := range f.GetPublicDependency() {
				pub = pub || int(i) == at
			}
			if !pub {
				f.PublicDependency = append(f.PublicDependency, int32(at))
				sort.Slice(f.PublicDependency, func(a, b int) bool { return f.PublicDependency[a] < f.PublicDependency[b] })
			}
		}
	}
	// Go packages: option go_package in several spellings, or left to an M parameter
	needM := map[string]string{}
	for i, f := range files {
		if pinned {
			// forwarding declarations exist only across Go packages: one package per file
			setGoPackage(f, fmt.Sprintf("example.com/gen/q%d;q%dpb", i, i))
			continue
		}
		if f.GetOptions().GetGoPackage() != "" {
			continue
		}
		switch rapid.IntRange(0, 4).Draw(t, "gopkg") {
		case 0:
			needM[f.GetName()] = ""
		case 1: // own package, explicit name
			setGoPackage(f, fmt.Sprintf("example.com/gen/q%d;q%dpb", i, i))
		case 2: // own package, derived name
			setGoPackage(f, fmt.Sprintf("example.com/gen/dir-%d/v%d", i, i))
		default: // shared pool: several files may land in one Go package
			setGoPackage(f, rapid.SampledFrom(importPathPool).Draw(t, "gopath"))
		}
	}
	c := genCase{Source: "schema", Raw: schema.Marshal(files)}
	idx := make([]int, len(files))
	for i := range idx {
		idx[i] = i
	}
	if pinned && rapid.IntRange(0, 3).Draw(t, "gen-importers-only") > 0 {
		// the imported file itself is not requested: its symbols are derived once per importer, so the
		// importers' contents depend on the order in which the generator reaches them
		idx = idx[1:]
	}
	if len(idx) > 1 {
		idx = rapid.Permutation(idx).Draw(t, "gen-order")
		if !pinned && rapid.Bool().Draw(t, "gen-subset") {
			idx = idx[:rapid.IntRange(1, len(idx)).Draw(t, "gen-count")]
		}
	}
	c.Gen = idx
	c.Param = drawParams(t, files, needM, "example.com/gen")
	c.GenPerm = drawPrio(t, len(c.Gen), "gen-perm")
	wk, _ := gencode.LinkedClosure(files)
	c.Prio = drawPrio(t, len(wk)+len(files), "file-prio")
	if loadPool() == nil && rapid.Bool().Draw(t, "extra?") {
		c.Extra = rapid.SliceOfNDistinct(rapid.SampledFrom(poolNames), 1, 2, rapid.ID[string]).Draw(t, "extra")
	}
	c.Sub = drawSub(t)
	return c
}

func setGoPackage(f *fdp, v string) {
	if f.Options == nil {
		f.Options = &descriptorpb.FileOptions{}
	}
	f.Options.GoPackage = proto.String(v)
}

// drawSub decides whether the case also goes through the plugin binary (3 process runs, ~0.1 s each).
func drawSub(t *rapid.T) bool {
	return rapid.SampledFrom([]bool{false, false, true}).Draw(t, "plugin-process")
}

// linkedImportPath is the M parameter for linked files that carry no go_package option (the
// repository generates them with M flags too): one Go package per directory.
func linkedImportPath(name string) string {
	dir := "root"
	if i := strings.LastIndex(name, "/"); i >= 0 {
		dir = name[:i]
	}
	return "google.golang.org/protobuf/zgen/" + dir
}

func drawLinkedCase(t *rapid.T) genCase {
	if err := loadPool(); err != nil {
		t.Fatalf("harness: %v", err)
	}
	c := genCase{Source: "linked"}
	maxNames := 2
	if pbt.Thorough() {
		maxNames = 4
	}
	c.Names = rapid.SliceOfNDistinct(rapid.SampledFrom(poolNames), 1, maxNames, rapid.ID[string]).Draw(t, "names")
	cl := closure(c.Names)
	needM := map[string]string{}
	for _, f := range cl {
		if f.GetOptions().GetGoPackage() == "" {
			needM[f.GetName()] = linkedImportPath(f.GetName())
		}
	}
	c.Param = drawParams(t, cl, needM, "google.golang.org/protobuf")
	c.GenPerm = drawPrio(t, len(c.Names), "gen-perm")
	c.Prio = drawPrio(t, len(cl), "file-prio")
	if rapid.Bool().Draw(t, "extra?") {
		c.Extra = rapid.SliceOfNDistinct(rapid.SampledFrom(poolNames), 1, 2, rapid.ID[string]).Draw(t, "extra")
	}
	c.Sub = drawSub(t)
	return c
}

// ---------------------------------------------------------------------------------------------
// classification

type caseInfo struct {
	classes    []string
	nontrivial bool
}

var (
	memoMu   sync.Mutex
	memoKey  uint64
	memoInfo caseInfo
)

// classify is called twice per case (classes, non-triviality); the second call hits the memo.
func classify(c genCase) caseInfo {
	h := fnv.New64a()
	fmt.Fprintf(h, "%s|%q|%v|%q|%v|%v|%q|%v|", c.Source, c.Names, c.Gen, c.Param, c.GenPerm, c.Prio, c.Extra, c.Sub)
	for _, r := range c.Raw {
		h.Write(r)
		h.Write([]byte{0})
	}
	memoMu.Lock()
	defer memoMu.Unlock()
	if memoKey == h.Sum64() && memoInfo.classes != nil {
		return memoInfo
	}
	ci := classify1(c)
	memoKey, memoInfo = h.Sum64(), ci
	return ci
}

func classify1(c genCase) caseInfo {
	var ci caseInfo
	add := func(s string) { ci.classes = append(ci.classes, s) }
	add("source:" + c.Source)
	protoFiles, toGen, err := c.base()
	if err != nil {
		add("harness-error")
		return ci
	}
	lvl := apiLevelParam(c.Param)
	if lvl == "" {
		lvl = "default"
	}
	add("api:" + lvl)
	for _, k := range []string{"paths=import", "paths=source_relative", "module=", "annotate_code", "apilevelM", "experimental_strip"} {
		if strings.Contains(c.Param, k) {
			add("param:" + k)
		}
	}
	if strings.Contains(c.Param, ",M") || strings.HasPrefix(c.Param, "M") {
		add("param:M")
	}
	if c.Sub {
		add("plugin-process")
	}
	if len(c.Extra) > 0 {
		add("variant:extra-files")
	}
	if !sameStrings(permuted(toGen, c.GenPerm), toGen) {
		add("variant:request-order")
	}
	if !sameStrings(fileNames(gencode.TopoOrder(protoFiles, c.Prio)), fileNames(protoFiles)) {
		add("variant:proto_file-order")
	}
	byName := map[string]*fdp{}
	for _, f := range protoFiles {
		byName[f.GetName()] = f
	}
	crossImport, bigMsg, public, hybrid, ext, oneof := false, false, false, false, false, false
	var walk func(ms []*descriptorpb.DescriptorProto)
	walk = func(ms []*descriptorpb.DescriptorProto) {
		for _, m := range ms {
			if len(m.GetField()) >= 5 {
				bigMsg = true
			}
			for _, f := range m.GetField() {
				if f.OneofIndex != nil && !f.GetProto3Optional() {
					oneof = true
				}
			}
			if len(m.GetExtension()) > 0 {
				ext = true
			}
			walk(m.GetNestedType())
		}
	}
	for _, n := range toGen {
		f := byName[n]
		if f == nil {
			continue
		}
		for _, d := range f.GetDependency() {
			if dd := byName[d]; dd != nil && gencode.GoImportPathOf(dd) != gencode.GoImportPathOf(f) {
				crossImport = true
			}
		}
		if len(f.GetPublicDependency()) > 0 {
			public = true
		}
		if mayBeHybrid(f, c.Param) {
			hybrid = true
		}
		if len(f.GetExtension()) > 0 {
			ext = true
		}
		walk(f.GetMessageType())
	}
	for k, v := range map[string]bool{"cross-package-import": crossImport, "message>=5-fields": bigMsg, "public-import": public, "hybrid": hybrid, "extensions": ext, "oneof": oneof} {
		if v {
			add(k)
		}
	}
	switch {
	case len(toGen) >= 4:
		add("requested:4+")
	default:
		add(fmt.Sprintf("requested:%d", len(toGen)))
	}
	rb, err := reqBytes(protoFiles, toGen, c.Param)
	if err != nil {
		return ci
	}
	o, ok := lastOutcome(rb)
	if !ok {
		o = runInProcess(rb)
	}
	switch {
	case o.newErr != "":
		add("outcome:Options.New-error")
	default:
		r := &pluginpb.CodeGeneratorResponse{}
		proto.Unmarshal(o.raw, r)
		if r.Error != nil {
			add("outcome:response-error")
		} else {
			add("outcome:generated")
			ci.nontrivial = len(r.GetFile()) >= 2 && len(toGen) >= 2 && crossImport && bigMsg
		}
	}
	sort.Strings(ci.classes)
	return ci
}

// ---------------------------------------------------------------------------------------------

const ruleText = "CodeGeneratorRequests over (a) 1-4 files linked into the tree's generated packages with their real dependency closure and (b) random schema sets (harness/schema: all syntaxes, well-known imports, custom options, (pb.go) features, source info, lazy, adversarial names, extra public imports; go_package option in several spellings or M parameters, several files per Go package); parameters drawn from default_api_level x paths x module x M x apilevelM x annotate_code x strip; oracle: 5 in-process runs byte-identical, 3 runs of the real cmd/protoc-gen-go binary built from the tree byte-identical to them, and per-file contents + file set unchanged when file_to_generate is permuted, proto_file is re-ordered topologically, or unrelated files are added. non-trivial = >= 2 files requested and generated, >= 1 import across Go packages, >= 1 message with >= 5 fields"

// prebuildPlugin builds the real plugin binary before rapid starts: on a tree that has not been
// built before (a fresh checkout, a scratch worktree) that takes minutes, and rapid would spend its
// whole time budget on the first case and stop early.
func prebuildPlugin(t *testing.T) {
	if pbt.Skip() {
		return
	}
	if _, err := gencode.BuildPlugin(); err != nil {
		t.Fatalf("harness: %v", err)
	}
}

func TestSchemaRequests(t *testing.T) {
	prebuildPlugin(t)
	pbt.Run(t, pbt.Prop[genCase]{
		Name:       "schema-requests",
		Rule:       ruleText,
		Draw:       drawSchemaCase,
		Check:      checkGen,
		NonTrivial: func(c genCase) bool { return classify(c).nontrivial },
		Classes:    func(c genCase) []string { return classify(c).classes },
		Quick:      120, Thorough: 200,
	})
}

func TestLinkedRequests(t *testing.T) {
	prebuildPlugin(t)
	pbt.Run(t, pbt.Prop[genCase]{
		Name:       "linked-requests",
		Rule:       ruleText,
		Draw:       drawLinkedCase,
		Check:      checkGen,
		NonTrivial: func(c genCase) bool { return classify(c).nontrivial },
		Classes:    func(c genCase) []string { return classify(c).classes },
		Quick:      10, Thorough: 15,
	})
}
