package c40

// A fixed family the random schema sets reach too rarely: a hybrid-API editions file in which one
// message pins its own API level, publicly imported by two otherwise empty files in other Go
// packages. The generator renders the imported file once per importer (and flips the API level of
// the shared message objects while it emits the _protoopaque variant), so the importers' forwarding
// declarations are where an order dependence shows.

import (
	"testing"

	"google.golang.org/protobuf/proto"
	"google.golang.org/protobuf/types/descriptorpb"
	"google.golang.org/protobuf/types/gofeaturespb"
	"google.golang.org/protobuf/zverif/pbt"
	"google.golang.org/protobuf/zverif/schema"
)

type pinnedCase struct {
	Level    string // API level pinned on message Pinned: API_OPEN | API_OPAQUE
	HybridBy string // "file-feature" | "apilevelM" | "default"
	Gen      []int  // indices into {a, b, c}
	Prio     []int
}

func (c pinnedCase) gen() genCase {
	lv := gofeaturespb.GoFeatures_API_OPEN
	if c.Level == "API_OPAQUE" {
		lv = gofeaturespb.GoFeatures_API_OPAQUE
	}
	pinned := &descriptorpb.MessageOptions{Features: &descriptorpb.FeatureSet{}}
	proto.SetExtension(pinned.Features, gofeaturespb.E_Go, &gofeaturespb.GoFeatures{ApiLevel: lv.Enum()})
	fo := &descriptorpb.FileOptions{GoPackage: proto.String("example.com/pin/a")}
	param := ""
	switch c.HybridBy {
	case "file-feature":
		fo.Features = &descriptorpb.FeatureSet{}
		proto.SetExtension(fo.Features, gofeaturespb.E_Go, &gofeaturespb.GoFeatures{ApiLevel: gofeaturespb.GoFeatures_API_HYBRID.Enum()})
	case "apilevelM":
		param = "apilevelMpin/a.proto=API_HYBRID"
	default:
		param = "default_api_level=API_HYBRID"
	}
	fld := func(n string) []*descriptorpb.FieldDescriptorProto {
		return []*descriptorpb.FieldDescriptorProto{{Name: proto.String(n), Number: proto.Int32(1), Label: descriptorpb.FieldDescriptorProto_LABEL_OPTIONAL.Enum(),
			Type: descriptorpb.FieldDescriptorProto_TYPE_INT32.Enum(), JsonName: proto.String(n)}}
	}
	a := &descriptorpb.FileDescriptorProto{Name: proto.String("pin/a.proto"), Package: proto.String("pin.a"), Syntax: proto.String("editions"), Edition: descriptorpb.Edition_EDITION_2023.Enum(),
		Dependency: []string{"google/protobuf/go_features.proto"}, Options: fo,
		MessageType: []*descriptorpb.DescriptorProto{{Name: proto.String("Plain"), Field: fld("x")}, {Name: proto.String("Pinned"), Options: pinned, Field: fld("y")},
			{Name: proto.String("Outer"), NestedType: []*descriptorpb.DescriptorProto{{Name: proto.String("Inner"), Options: proto.Clone(pinned).(*descriptorpb.MessageOptions), Field: fld("z")}}}}}
	imp := func(n string) *descriptorpb.FileDescriptorProto {
		return &descriptorpb.FileDescriptorProto{Name: proto.String("pin/" + n + ".proto"), Package: proto.String("pin." + n), Syntax: proto.String("editions"), Edition: descriptorpb.Edition_EDITION_2023.Enum(),
			Dependency: []string{"pin/a.proto"}, PublicDependency: []int32{0}, Options: &descriptorpb.FileOptions{GoPackage: proto.String("example.com/pin/" + n)}}
	}
	files := []*descriptorpb.FileDescriptorProto{a, imp("b"), imp("c")}
	perm := make([]int, len(c.Gen))
	for i := range perm {
		perm[i] = len(c.Gen) - 1 - i
	}
	return genCase{Source: "schema", Raw: schema.Marshal(files), Gen: c.Gen, Param: param, GenPerm: perm, Prio: c.Prio, Sub: true}
}

func TestPinnedAPIImporters(t *testing.T) {
	pbt.Enumerate(t, "pinned-api-importers",
		"fixed family: editions file a (hybrid through a file feature, an apilevelM parameter or default_api_level) with messages that pin their own API level (OPEN / OPAQUE, top-level and nested), publicly imported by the otherwise empty files b and c of other Go packages; requested subsets {b,c}, {a,b,c}, {b}, {c,b}; proto_file in three topological orders; same oracle as schema-requests (repeated runs, plugin processes, permuted file_to_generate, re-ordered proto_file give identical per-file contents); every case non-trivial",
		true,
		func(yield func(pinnedCase, bool) bool) {
			for _, lv := range []string{"API_OPEN", "API_OPAQUE"} {
				for _, by := range []string{"file-feature", "apilevelM", "default"} {
					for _, g := range [][]int{{1, 2}, {0, 1, 2}, {1}, {2, 1}} {
						for _, prio := range [][]int{{0, 0, 0, 2, 1}, {5, 4, 3, 2, 1}, {1, 2, 3, 5, 4}} {
							if !yield(pinnedCase{Level: lv, HybridBy: by, Gen: g, Prio: prio}, true) {
								return
							}
						}
					}
				}
			}
		}, func(c pinnedCase) error { return checkGen(c.gen()) })
}
