package c40

import (
	"testing"

	"google.golang.org/protobuf/encoding/prototext"
	"google.golang.org/protobuf/zverif/pbt"
	"google.golang.org/protobuf/zverif/schema"
)

// hybridPublicCase: a.proto (hybrid API, one real oneof) is publicly imported by b.proto and
// c.proto; only b and c are requested.
func hybridPublicCase() genCase {
	texts := []string{
		`name:"a.proto" package:"pa" syntax:"proto3" options:{go_package:"example.com/gen/a"}
		 message_type:{name:"A" field:{name:"x" number:1 label:LABEL_OPTIONAL type:TYPE_INT32 oneof_index:0 json_name:"x"} oneof_decl:{name:"choice"}}`,
		`name:"b.proto" package:"pb" syntax:"proto3" dependency:"a.proto" public_dependency:0 options:{go_package:"example.com/gen/b"}`,
		`name:"c.proto" package:"pc" syntax:"proto3" dependency:"a.proto" public_dependency:0 options:{go_package:"example.com/gen/c"}`,
	}
	var files []*fdp
	for _, s := range texts {
		f := &fdp{}
		if err := prototext.Unmarshal([]byte(s), f); err != nil {
			panic(err)
		}
		files = append(files, f)
	}
	return genCase{Source: "schema", Raw: schema.Marshal(files), Gen: []int{1, 2}, Param: "default_api_level=API_HYBRID", GenPerm: []int{1, 0}}
}

func TestWitnessHybridPublicImport(t *testing.T) {
	err := checkGenNoExclusion(hybridPublicCase())
	detail := ""
	if err != nil {
		detail = err.Error()
	}
	pbt.Witness(t, kfHybridPublic, err != nil, detail)
}
