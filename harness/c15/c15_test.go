package c15

import (
	"fmt"
	"sort"
	"testing"

	"google.golang.org/protobuf/proto"
	"google.golang.org/protobuf/reflect/protoreflect"
	"google.golang.org/protobuf/zverif/corpus"
	"google.golang.org/protobuf/zverif/gen"
	"google.golang.org/protobuf/zverif/mcase"
	"google.golang.org/protobuf/zverif/model"
	"google.golang.org/protobuf/zverif/ops"
	"google.golang.org/protobuf/zverif/pbt"
	"pgregory.net/rapid"
)

// step kinds: package ops kinds, plus
//   decode     Unmarshal(Raw) with Lazy / Merge flags (Raw is a valid encoding)
//   baddecode  Unmarshal(Raw) of a corrupted encoding (may fail half-way; state afterwards unspecified)
//   access     read every field (forces lazy decoding)
type step struct {
	ops.Op
	Lazy  bool `json:"lazy,omitempty"`
	Merge bool `json:"merge,omitempty"`
}

type eraseCase struct {
	Type    string
	Dynamic bool
	Steps   []step
	Final   string // "unmarshal" | "reset"
	FinalB  []byte // valid encoding for the final unmarshal
	Lazy    bool
}

func checkErase(c eraseCase) error {
	md := mcase.Desc(c.Type)
	m := mcase.New(c.Type, c.Dynamic)
	for i, st := range c.Steps {
		switch st.Kind {
		case "decode":
			if err := (proto.UnmarshalOptions{AllowPartial: true, Merge: st.Merge, NoLazyDecoding: !st.Lazy}).Unmarshal(st.Raw, m.Interface()); err != nil {
				return fmt.Errorf("step %d: Unmarshal of a valid encoding failed: %v", i, err)
			}
		case "baddecode":
			(proto.UnmarshalOptions{AllowPartial: true, Merge: st.Merge, NoLazyDecoding: !st.Lazy}).Unmarshal(st.Raw, m.Interface())
		case "access":
			model.Snapshot(m)
		default:
			// reflection op: legal for the model state it was drawn against; after a decode the
			// message may hold other content, so navigation paths are only used before the first decode
			if err := ops.ApplyMsg(m, st.Op); err != nil {
				return err
			}
		}
	}
	eq := model.EqualOpts{BitwiseFloats: true}
	switch c.Final {
	case "unmarshal":
		uo := proto.UnmarshalOptions{AllowPartial: true, NoLazyDecoding: !c.Lazy}
		if err := uo.Unmarshal(c.FinalB, m.Interface()); err != nil {
			return fmt.Errorf("final Unmarshal failed: %v", err)
		}
		fresh := mcase.New(c.Type, c.Dynamic)
		if err := uo.Unmarshal(c.FinalB, fresh.Interface()); err != nil {
			return fmt.Errorf("Unmarshal into fresh message failed: %v", err)
		}
		if !proto.Equal(m.Interface(), fresh.Interface()) || !proto.Equal(fresh.Interface(), m.Interface()) {
			return fmt.Errorf("after a history, Unmarshal (no Merge) is not proto.Equal to decoding into a fresh message")
		}
		if d := model.Diff(md, model.Snapshot(fresh), model.Snapshot(m), eq, nil); d != "" {
			return fmt.Errorf("after a history, Unmarshal (no Merge) differs from decoding into a fresh message: %s", d)
		}
		b1, _ := proto.MarshalOptions{Deterministic: true, AllowPartial: true}.Marshal(m.Interface())
		b2, _ := proto.MarshalOptions{Deterministic: true, AllowPartial: true}.Marshal(fresh.Interface())
		if string(b1) != string(b2) {
			return fmt.Errorf("after a history, Unmarshal (no Merge) re-marshals differently from a fresh decode: %x vs %x", b1, b2)
		}
	case "reset":
		proto.Reset(m.Interface())
		fresh := mcase.New(c.Type, c.Dynamic)
		if !proto.Equal(m.Interface(), fresh.Interface()) {
			return fmt.Errorf("after Reset the message is not proto.Equal to a fresh one")
		}
		if err := ops.Verify(m, &model.Msg{}); err != nil {
			return fmt.Errorf("after Reset: %v", err)
		}
		if n := proto.Size(m.Interface()); n != 0 {
			return fmt.Errorf("after Reset Size = %d", n)
		}
		if b, err := (proto.MarshalOptions{AllowPartial: true}).Marshal(m.Interface()); err != nil || len(b) != 0 {
			return fmt.Errorf("after Reset Marshal = %x, %v", b, err)
		}
		// and the message is fully usable again
		if err := (proto.UnmarshalOptions{AllowPartial: true, Merge: true, NoLazyDecoding: !c.Lazy}).Unmarshal(c.FinalB, m.Interface()); err != nil {
			return fmt.Errorf("Unmarshal after Reset failed: %v", err)
		}
		fresh2 := mcase.New(c.Type, c.Dynamic)
		(proto.UnmarshalOptions{AllowPartial: true, NoLazyDecoding: !c.Lazy}).Unmarshal(c.FinalB, fresh2.Interface())
		if d := model.Diff(md, model.Snapshot(fresh2), model.Snapshot(m), eq, nil); d != "" {
			return fmt.Errorf("Merge-decoding into a Reset message differs from decoding into a fresh one: %s", d)
		}
	}
	return nil
}

var (
	types, rich = corpus.Modern(), corpus.ModernRich(20)
	lazyTypes   = corpus.LazyCapable()
)

func TestErase(t *testing.T) {
	mo := gen.DefaultMsgOpts
	pbt.Run(t, pbt.Prop[eraseCase]{
		Name: "erase",
		Rule: "types: modern linked types, 1/4 lazy-capable; 0..15 steps: legal reflection ops (before the first decode), decodes of perturbed valid encodings (lazy/eager, Merge or not), corrupted encodings, forced accesses; final step Unmarshal(no Merge) of a fresh valid encoding, or Reset. non-trivial = history holds a lazy decode or a failed decode and >= 3 steps",
		Draw: func(t *rapid.T) eraseCase {
			var c eraseCase
			if rapid.IntRange(0, 3).Draw(t, "lazytype") == 0 {
				c.Type = rapid.SampledFrom(lazyTypes).Draw(t, "ltype")
			} else {
				c.Type = gen.TypeName(types, rich).Draw(t, "type")
				c.Dynamic = rapid.IntRange(0, 3).Draw(t, "dyn") == 0
			}
			md := mcase.Desc(c.Type)
			cur := &model.Msg{}
			decoded := false
			n := rapid.IntRange(0, 15).Draw(t, "steps")
			enc := func() []byte {
				return model.Encode(md, gen.DrawMessage(t, md, mo), gen.RapidChooser{T: t}, model.AllPerturbations, nil)
			}
			for i := 0; i < n; i++ {
				k := rapid.IntRange(0, 9).Draw(t, "kind")
				switch {
				case k <= 4 && !decoded:
					op := ops.DrawOp(t, md, cur, ops.GenOpts{Msg: mo, MaxDepth: 2})
					if err := ops.ApplyModel(md, cur, op); err != nil {
						panic(err)
					}
					c.Steps = append(c.Steps, step{Op: op})
				case k <= 6:
					decoded = true
					c.Steps = append(c.Steps, step{Op: ops.Op{Kind: "decode", Raw: enc()}, Lazy: rapid.Bool().Draw(t, "lazy"), Merge: rapid.Bool().Draw(t, "merge")})
				case k == 7:
					decoded = true
					bad, _ := gen.MutateDeep(t, enc())
					c.Steps = append(c.Steps, step{Op: ops.Op{Kind: "baddecode", Raw: bad}, Lazy: rapid.Bool().Draw(t, "lazy"), Merge: rapid.Bool().Draw(t, "merge")})
				default:
					c.Steps = append(c.Steps, step{Op: ops.Op{Kind: "access"}})
				}
			}
			c.Final = rapid.SampledFrom([]string{"unmarshal", "reset"}).Draw(t, "final")
			c.FinalB = enc()
			c.Lazy = rapid.Bool().Draw(t, "finallazy")
			return c
		},
		Check: checkErase,
		NonTrivial: func(c eraseCase) bool {
			hit := false
			for _, st := range c.Steps {
				if st.Kind == "baddecode" || (st.Kind == "decode" && st.Lazy) {
					hit = true
				}
			}
			return hit && len(c.Steps) >= 3
		},
		Classes: func(c eraseCase) []string {
			k := map[string]bool{"final-" + c.Final: true}
			for _, st := range c.Steps {
				k[st.Kind] = true
			}
			var out []string
			for x := range k {
				out = append(out, x)
			}
			sort.Strings(out)
			for _, l := range lazyTypes {
				if l == c.Type {
					out = append(out, "lazy-capable-type")
				}
			}
			return out
		},
		Quick: 6000, Thorough: 150000,
	})
}

var _ protoreflect.Message

// regression witness of the fixed defect: reading a message after a failed lazy Unmarshal panicked
func TestFailedLazyUnmarshalWitness(t *testing.T) {
	if pbt.Skip() {
		t.Skip()
	}
	m := corpus.ByName("opaque.lazy_tree.Node").New()
	err := proto.Unmarshal([]byte{0x9a, 0x06, 0x00, 0x4b}, m.Interface())
	panicked := false
	func() {
		defer func() {
			if recover() != nil {
				panicked = true
			}
		}()
		model.Snapshot(m)
		_ = fmt.Sprint(m.Interface())
	}()
	pbt.Witness(t, "KF-lazy-failed-unmarshal-panic", err != nil && panicked, "reading opaque lazy_tree.Node after Unmarshal([9a 06 00 4b]) failed panics")
}
