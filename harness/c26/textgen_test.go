package c26

// Descriptor-directed generator of text-format documents (syntax variety: {} / <> delimiters,
// optional ':' before messages, ',' / ';' separators, comments, list syntax vs repeated
// occurrences, string quoting/escapes/concatenation, hex/octal/float spellings, expanded Any).

import (
	"fmt"
	"math"
	"sort"
	"strconv"
	"strings"
	"unicode/utf8"

	"google.golang.org/protobuf/reflect/protoreflect"
	"google.golang.org/protobuf/reflect/protoregistry"
	"google.golang.org/protobuf/zverif/c21/jdoc"
	"google.golang.org/protobuf/zverif/gen"
	"pgregory.net/rapid"
)

type tnode struct {
	K      byte // 's' scalar, 'm' message, 'l' list
	Toks   []jdoc.Tok
	Fields []tfield
	Elems  []*tnode
	Angle  bool
}

type tfield struct {
	Name     string
	Colon    bool
	Val      *tnode
	Sep      string
	Injected bool
}

func tscalar(class byte, text string) *tnode {
	return &tnode{K: 's', Toks: []jdoc.Tok{{Text: text, Class: class}}}
}

func renderText(n *tnode, withInjected bool) []jdoc.Tok {
	var out []jdoc.Tok
	var val func(n *tnode, inj bool)
	fields := func(fs []tfield, inj bool) {
		for _, f := range fs {
			if f.Injected && !withInjected {
				continue
			}
			fi := inj || f.Injected
			out = append(out, jdoc.Tok{Text: f.Name, Class: 'k', Inj: fi})
			if f.Colon {
				out = append(out, jdoc.Tok{Text: ":", Class: 'p', Inj: fi})
			}
			val(f.Val, fi)
			if f.Sep != "" {
				out = append(out, jdoc.Tok{Text: f.Sep, Class: 'p', Inj: fi})
			}
		}
	}
	val = func(n *tnode, inj bool) {
		switch n.K {
		case 's':
			for _, t := range n.Toks {
				t.Inj = inj
				out = append(out, t)
			}
		case 'm':
			o, c := "{", "}"
			if n.Angle {
				o, c = "<", ">"
			}
			out = append(out, jdoc.Tok{Text: o, Class: 'p', Inj: inj})
			fields(n.Fields, inj)
			out = append(out, jdoc.Tok{Text: c, Class: 'p', Inj: inj})
		case 'l':
			out = append(out, jdoc.Tok{Text: "[", Class: 'p', Inj: inj})
			for i, e := range n.Elems {
				if i > 0 {
					out = append(out, jdoc.Tok{Text: ",", Class: 'p', Inj: inj})
				}
				val(e, inj)
			}
			out = append(out, jdoc.Tok{Text: "]", Class: 'p', Inj: inj})
		}
	}
	fields(n.Fields, false) // top level: no delimiters
	return out
}

var textWS = []string{" ", " ", " ", "\n", "\t", "  ", " # comment\n", "\n#\n", "\r\n"}

// joinText separates tokens by whitespace/comments; the gap may be empty only next to punctuation.
func joinText(t *rapid.T, toks []jdoc.Tok) []byte {
	style := rapid.IntRange(0, 2).Draw(t, "wsstyle")
	var b []byte
	for i, k := range toks {
		if i > 0 {
			tight := toks[i-1].Class == 'p' || k.Class == 'p'
			switch {
			case style == 0 && tight:
			case style == 0 || style == 1:
				b = append(b, ' ')
			default:
				w := rapid.SampledFrom(textWS).Draw(t, "ws")
				if tight && rapid.Bool().Draw(t, "tight") {
					w = ""
				}
				b = append(b, w...)
			}
		}
		b = append(b, k.Text...)
	}
	return b
}

type tgen struct {
	T         *rapid.T
	Unknown   bool
	Depth     int
	MaxFields int

	InjectAt    int
	InjectOneof bool
	Injected    *jdoc.Injection
	seenMsg     int
	Labels      map[string]bool
}

func newTGen(t *rapid.T) *tgen {
	return &tgen{T: t, Depth: 3, MaxFields: 5, InjectAt: -1, Labels: map[string]bool{}}
}

func (g *tgen) n(lo, hi int, label string) int { return rapid.IntRange(lo, hi).Draw(g.T, label) }
func (g *tgen) label(s string)                 { g.Labels[s] = true }
func (g *tgen) labelList() []string {
	out := make([]string, 0, len(g.Labels))
	for k := range g.Labels {
		out = append(out, k)
	}
	sort.Strings(out)
	return out
}

var tShort = map[byte]string{'\n': `\n`, '\r': `\r`, '\t': `\t`, '\a': `\a`, '\b': `\b`, '\v': `\v`, '\f': `\f`, '\\': `\\`, '\'': `\'`, '"': `\"`, '?': `\?`}

// tquote writes arbitrary bytes as one or more adjacent text-format string literals.
func (g *tgen) tquote(b []byte) []jdoc.Tok {
	pieces := 1
	if len(b) > 1 && g.n(0, 5, "concat") == 0 {
		pieces = 2
		g.label("str-concat")
	}
	cut := len(b)
	if pieces == 2 {
		cut = g.n(0, len(b), "cut")
		for cut < len(b) && cut > 0 && !utf8.RuneStart(b[cut]) {
			cut++
		}
	}
	var toks []jdoc.Tok
	for _, part := range [][]byte{b[:cut], b[cut:]}[:pieces] {
		q := byte('"')
		if g.n(0, 2, "quote") == 0 {
			q = '\''
		}
		mode := g.n(0, 3, "escmode") // 0 minimal, 1 hex for all non-printable/non-ASCII, 2 octal, 3 \u for runes
		var s strings.Builder
		s.WriteByte(q)
		for i := 0; i < len(part); {
			c := part[i]
			r, size := utf8.DecodeRune(part[i:])
			switch {
			case c == q || c == '\\' || c == '\n' || c == 0:
				if se, ok := tShort[c]; ok && mode != 2 {
					s.WriteString(se)
				} else {
					fmt.Fprintf(&s, `\%03o`, c)
				}
				g.label("esc")
				i++
			case c < 0x80 && c >= 0x20 && c != 0x7f:
				s.WriteByte(c)
				i++
			case c < 0x80:
				if se, ok := tShort[c]; ok && mode == 0 {
					s.WriteString(se)
				} else if mode == 2 {
					fmt.Fprintf(&s, `\%03o`, c)
				} else {
					fmt.Fprintf(&s, `\x%02x`, c)
				}
				g.label("esc")
				i++
			case r == utf8.RuneError && size == 1:
				if mode == 2 {
					fmt.Fprintf(&s, `\%03o`, c)
				} else {
					fmt.Fprintf(&s, `\x%02X`, c)
				}
				g.label("esc")
				i++
			default:
				switch {
				case mode == 3 && r <= 0xffff:
					fmt.Fprintf(&s, `\u%04x`, r)
					g.label("esc")
				case mode == 3:
					fmt.Fprintf(&s, `\U%08x`, r)
					g.label("esc")
				case mode == 1:
					for _, x := range part[i : i+size] {
						fmt.Fprintf(&s, `\x%02x`, x)
					}
					g.label("esc")
				default:
					s.Write(part[i : i+size])
				}
				i += size
			}
		}
		s.WriteByte(q)
		toks = append(toks, jdoc.Tok{Text: s.String(), Class: 'q'})
	}
	return toks
}

func (g *tgen) intText(neg bool, mag uint64) string {
	var s string
	switch g.n(0, 5, "intform") {
	case 0:
		s = "0x" + strconv.FormatUint(mag, 16)
		g.label("num-hex")
	case 1:
		s = "0X" + strings.ToUpper(strconv.FormatUint(mag, 16))
		g.label("num-hex")
	case 2:
		s = "0" + strconv.FormatUint(mag, 8)
		g.label("num-oct")
	default:
		s = strconv.FormatUint(mag, 10)
	}
	if neg {
		if g.n(0, 7, "negspace") == 0 {
			return "- " + s
		}
		return "-" + s
	}
	return s
}

func tmag(v int64) uint64 {
	if v < 0 {
		return uint64(-(v + 1)) + 1
	}
	return uint64(v)
}

func (g *tgen) floatText(bits int) string {
	var f float64
	if bits == 32 {
		f = float64(math.Float32frombits(gen.Float32Bits().Draw(g.T, "f32")))
	} else {
		f = math.Float64frombits(gen.Float64Bits().Draw(g.T, "f64"))
	}
	switch {
	case math.IsNaN(f):
		return []string{"nan", "NaN", "NAN"}[g.n(0, 2, "nan")]
	case math.IsInf(f, 1):
		return []string{"inf", "Infinity", "INF", "infinity"}[g.n(0, 3, "inf")]
	case math.IsInf(f, -1):
		return []string{"-inf", "-Infinity", "-INF"}[g.n(0, 2, "inf")]
	}
	var s string
	switch g.n(0, 4, "floatform") {
	case 0:
		s = strconv.FormatFloat(f, 'g', -1, bits)
	case 1:
		s = strconv.FormatFloat(f, 'e', -1, bits)
	case 2:
		if a := math.Abs(f); a == 0 || (a > 1e-15 && a < 1e18) {
			s = strconv.FormatFloat(f, 'f', -1, bits)
		} else {
			s = strconv.FormatFloat(f, 'E', -1, bits)
		}
	case 3:
		s = strconv.FormatFloat(f, 'g', -1, bits) + []string{"f", "F"}[g.n(0, 1, "suffix")]
		g.label("num-fsuffix")
	default:
		return strconv.Itoa(g.n(-1000, 1000, "small"))
	}
	if strings.HasPrefix(s, "0.") && g.n(0, 3, "nolead") == 0 {
		s = s[1:]
	}
	return s
}

func (g *tgen) scalar(fd protoreflect.FieldDescriptor) *tnode {
	switch fd.Kind() {
	case protoreflect.BoolKind:
		return tscalar('l', []string{"true", "false", "t", "f", "True", "False", "0", "1", "0x1", "00"}[g.n(0, 9, "bool")])
	case protoreflect.EnumKind:
		vals := fd.Enum().Values()
		ev := vals.Get(g.n(0, vals.Len()-1, "enumidx"))
		if g.n(0, 2, "enumnum") == 0 {
			return tscalar('n', g.intText(ev.Number() < 0, tmag(int64(ev.Number()))))
		}
		return tscalar('l', string(ev.Name()))
	case protoreflect.Int32Kind, protoreflect.Sint32Kind, protoreflect.Sfixed32Kind:
		v := int64(gen.Int32().Draw(g.T, "i32"))
		return tscalar('n', g.intText(v < 0, tmag(v)))
	case protoreflect.Uint32Kind, protoreflect.Fixed32Kind:
		return tscalar('n', g.intText(false, uint64(gen.Uint32().Draw(g.T, "u32"))))
	case protoreflect.Int64Kind, protoreflect.Sint64Kind, protoreflect.Sfixed64Kind:
		v := gen.Int64().Draw(g.T, "i64")
		return tscalar('n', g.intText(v < 0, tmag(v)))
	case protoreflect.Uint64Kind, protoreflect.Fixed64Kind:
		return tscalar('n', g.intText(false, gen.Uint64().Draw(g.T, "u64")))
	case protoreflect.FloatKind:
		return tscalar('n', g.floatText(32))
	case protoreflect.DoubleKind:
		return tscalar('n', g.floatText(64))
	case protoreflect.StringKind:
		return &tnode{K: 's', Toks: g.tquote([]byte(gen.ValidString(24).Draw(g.T, "s")))}
	default:
		return &tnode{K: 's', Toks: g.tquote(gen.Bytes(24).Draw(g.T, "b"))}
	}
}

func (g *tgen) single(fd protoreflect.FieldDescriptor, depth, level int, via string) *tnode {
	if sub := fd.Message(); sub != nil {
		if depth <= 0 {
			return &tnode{K: 'm', Angle: g.n(0, 3, "angle") == 0}
		}
		return g.message(sub, depth-1, level+1, via)
	}
	return g.scalar(fd)
}

var sepPool = []string{"", "", "", ",", ";"}

func (g *tgen) sep() string { return rapid.SampledFrom(sepPool).Draw(g.T, "sep") }

// occurrences returns the field occurrences that populate fd.
func (g *tgen) occurrences(fd protoreflect.FieldDescriptor, name string, depth, level int) []tfield {
	isMsg := fd.Message() != nil
	colon := func() bool { return !isMsg || g.n(0, 2, "colon") == 0 }
	switch {
	case fd.IsMap():
		g.label("map")
		var out []tfield
		for i, k := 0, g.n(1, 2, "maplen"); i < k; i++ {
			e := &tnode{K: 'm', Angle: g.n(0, 3, "angle") == 0}
			if g.n(0, 5, "nokey") != 0 {
				e.Fields = append(e.Fields, tfield{Name: "key", Colon: true, Val: g.scalar(fd.MapKey()), Sep: g.sep()})
			}
			if g.n(0, 5, "novalue") != 0 {
				vfd := fd.MapValue()
				e.Fields = append(e.Fields, tfield{Name: "value", Colon: vfd.Message() == nil || g.n(0, 2, "colon") == 0, Val: g.single(vfd, depth, level+1, "map"), Sep: g.sep()})
			}
			if len(e.Fields) == 2 && g.n(0, 3, "swapkv") == 0 {
				e.Fields[0], e.Fields[1] = e.Fields[1], e.Fields[0]
			}
			out = append(out, tfield{Name: name, Colon: colon(), Val: e, Sep: g.sep()})
		}
		if g.n(0, 3, "maplist") == 0 {
			l := &tnode{K: 'l'}
			for _, f := range out {
				l.Elems = append(l.Elems, f.Val)
			}
			return []tfield{{Name: name, Colon: colon(), Val: l, Sep: g.sep()}}
		}
		return out
	case fd.IsList():
		g.label("list")
		k := g.n(0, 3, "listlen")
		if g.n(0, 1, "listsyntax") == 0 {
			l := &tnode{K: 'l'}
			for i := 0; i < k; i++ {
				l.Elems = append(l.Elems, g.single(fd, depth, level, "list"))
			}
			return []tfield{{Name: name, Colon: colon(), Val: l, Sep: g.sep()}}
		}
		var out []tfield
		for i := 0; i < k; i++ {
			out = append(out, tfield{Name: name, Colon: colon(), Val: g.single(fd, depth, level, "list"), Sep: g.sep()})
		}
		return out
	}
	return []tfield{{Name: name, Colon: colon(), Val: g.single(fd, depth, level, "field"), Sep: g.sep()}}
}

// textNames: the spellings the text format documents for a field.
func textNames(fd protoreflect.FieldDescriptor) []string {
	if fd.IsExtension() {
		return []string{"[" + string(fd.FullName()) + "]"}
	}
	out := []string{fd.TextName()}
	if n := string(fd.Name()); n != out[0] {
		out = append(out, n) // group-like fields: lower-case field name next to the type name
	}
	return out
}

func (g *tgen) name(fd protoreflect.FieldDescriptor) (string, string) {
	ns := textNames(fd)
	i := g.n(0, len(ns)-1, "name")
	kind := "name"
	if fd.IsExtension() {
		kind = "ext"
		g.label("ext")
		if g.n(0, 4, "extspace") == 0 {
			return "[ " + string(fd.FullName()) + " ]", kind
		}
	} else if i == 1 {
		kind = "lower"
	}
	return ns[i], kind
}

func extsOf(md protoreflect.MessageDescriptor) []protoreflect.FieldDescriptor {
	if md.ExtensionRanges().Len() == 0 {
		return nil
	}
	var out []protoreflect.FieldDescriptor
	protoregistry.GlobalTypes.RangeExtensionsByMessage(md.FullName(), func(xt protoreflect.ExtensionType) bool {
		out = append(out, xt.TypeDescriptor())
		return true
	})
	sort.Slice(out, func(i, j int) bool { return out[i].Number() < out[j].Number() })
	return out
}

func realOneof(fd protoreflect.FieldDescriptor) bool {
	od := fd.ContainingOneof()
	return od != nil && !od.IsSynthetic()
}

var anyTextTargets = []string{"goproto.proto.test.TestAllTypes", "goproto.proto.test3.TestAllTypes", "google.protobuf.Duration", "google.protobuf.Any", "google.protobuf.Struct", "google.protobuf.Empty"}

func (g *tgen) anyMessage(depth, level int) *tnode {
	g.label("any")
	n := &tnode{K: 'm', Angle: g.n(0, 3, "angle") == 0}
	switch g.n(0, 3, "anyform") {
	case 0:
	case 1:
		n.Fields = append(n.Fields,
			tfield{Name: "type_url", Colon: true, Val: &tnode{K: 's', Toks: g.tquote([]byte("type.googleapis.com/google.protobuf.Empty"))}, Sep: g.sep()},
			tfield{Name: "value", Colon: true, Val: &tnode{K: 's', Toks: g.tquote(gen.Bytes(16).Draw(g.T, "anyvalue"))}, Sep: g.sep()})
	default:
		name := rapid.SampledFrom(anyTextTargets).Draw(g.T, "anytype")
		mt, err := protoregistry.GlobalTypes.FindMessageByName(protoreflect.FullName(name))
		if err != nil || depth <= 0 {
			return n
		}
		g.label("any-expanded")
		n.Fields = append(n.Fields, tfield{Name: "[" + []string{"type.googleapis.com/", "example.com/a/b/", "x/"}[g.n(0, 2, "prefix")] + name + "]", Colon: g.n(0, 2, "colon") == 0, Val: g.message(mt.Descriptor(), depth-1, level+1, "any"), Sep: g.sep()})
	}
	return n
}

func (g *tgen) message(md protoreflect.MessageDescriptor, depth, level int, via string) *tnode {
	if md.FullName() == "google.protobuf.Any" {
		return g.anyMessage(depth, level)
	}
	node := &tnode{K: 'm', Angle: g.n(0, 3, "angle") == 0}
	fs := md.Fields()
	var cands, msgs []protoreflect.FieldDescriptor
	for i := 0; i < fs.Len(); i++ {
		cands = append(cands, fs.Get(i))
	}
	cands = append(cands, extsOf(md)...)
	for _, fd := range cands {
		if fd.Message() != nil {
			msgs = append(msgs, fd)
		}
	}
	chosen := map[protoreflect.FieldNumber]bool{}
	oneofs := map[protoreflect.FullName]bool{}
	if len(cands) > 0 {
		for i, k := 0, g.n(0, g.MaxFields, "nfields"); i < k; i++ {
			pool := cands
			if len(msgs) > 0 && depth > 0 && g.n(0, 2, "prefermsg") == 0 {
				pool = msgs
			}
			fd := pool[g.n(0, len(pool)-1, "field")]
			if chosen[fd.Number()] {
				continue
			}
			if realOneof(fd) {
				if oneofs[fd.ContainingOneof().FullName()] {
					continue
				}
				oneofs[fd.ContainingOneof().FullName()] = true
				g.label("oneof")
			}
			chosen[fd.Number()] = true
			name, _ := g.name(fd)
			node.Fields = append(node.Fields, g.occurrences(fd, name, depth, level)...)
		}
	}
	if g.Unknown && g.n(0, 2, "unknown") == 0 {
		g.label("unknown-field")
		u := tfield{Name: []string{"zz_unknown", "zz_unknown", "999999", "[zz.unknown.ext]"}[g.n(0, 3, "unkname")], Colon: true, Val: g.unknownValue(2), Sep: g.sep()}
		if u.Val.K == 'm' {
			u.Colon = g.n(0, 1, "colon") == 0
		}
		node.Fields = insertField(node.Fields, g.n(0, len(node.Fields), "unkpos"), u)
	}
	if g.InjectAt >= 0 && g.Injected == nil {
		if g.seenMsg >= g.InjectAt || level == 1 { // the top-level node comes last: fallback
			g.inject(md, node, cands, chosen, oneofs, depth, level, via)
		}
		g.seenMsg++
	}
	return node
}

func insertField(fs []tfield, i int, f tfield) []tfield {
	fs = append(fs, tfield{})
	copy(fs[i+1:], fs[i:])
	fs[i] = f
	return fs
}

func (g *tgen) unknownValue(depth int) *tnode {
	hi := 4
	if depth <= 0 {
		hi = 2
	}
	switch g.n(0, hi, "ukind") {
	case 0:
		return tscalar('n', []string{"1", "-5", "0x1f", "1.5", "1e3", "017"}[g.n(0, 5, "unum")])
	case 1:
		return &tnode{K: 's', Toks: g.tquote([]byte(gen.ValidString(16).Draw(g.T, "ustr")))}
	case 2:
		return tscalar('l', []string{"FOO", "true", "inf", "nan", "x_y"}[g.n(0, 4, "ulit")])
	case 3:
		l := &tnode{K: 'l'}
		for i, k := 0, g.n(0, 2, "ulen"); i < k; i++ {
			e := g.unknownValue(depth - 1)
			if e.K == 'l' {
				e = tscalar('n', "1")
			}
			l.Elems = append(l.Elems, e)
		}
		return l
	default:
		m := &tnode{K: 'm', Angle: g.n(0, 3, "angle") == 0}
		for i, k := 0, g.n(0, 2, "ufields"); i < k; i++ {
			v := g.unknownValue(depth - 1)
			m.Fields = append(m.Fields, tfield{Name: []string{"a", "b_c", "7"}[g.n(0, 2, "uname")], Colon: v.K != 'm' || g.n(0, 1, "colon") == 0, Val: v, Sep: g.sep()})
		}
		return m
	}
}

// inject: second occurrence of a singular field / second member of a oneof (text format has no null).
func (g *tgen) inject(md protoreflect.MessageDescriptor, node *tnode, cands []protoreflect.FieldDescriptor, chosen map[protoreflect.FieldNumber]bool, oneofs map[protoreflect.FullName]bool, depth, level int, via string) {
	byName := map[string]protoreflect.FieldDescriptor{}
	for _, fd := range cands {
		for _, nm := range textNames(fd) {
			byName[nm] = fd
		}
	}
	present := map[protoreflect.FieldNumber]string{}
	for _, f := range node.Fields {
		nm := strings.ReplaceAll(f.Name, " ", "")
		if fd := byName[nm]; fd != nil {
			present[fd.Number()] = "name"
			if fd.IsExtension() {
				present[fd.Number()] = "ext"
			} else if nm != fd.TextName() {
				present[fd.Number()] = "lower"
			}
		}
	}
	mk := func(fd protoreflect.FieldDescriptor, injected bool) string {
		name, kind := g.name(fd)
		f := tfield{Name: name, Colon: fd.Message() == nil || g.n(0, 2, "colon") == 0, Val: g.single(fd, depth, level, "field"), Sep: g.sep(), Injected: injected}
		node.Fields = insertField(node.Fields, g.n(0, len(node.Fields), "injpos"), f)
		return kind
	}
	var ods []protoreflect.OneofDescriptor
	for i := 0; i < md.Oneofs().Len(); i++ {
		if od := md.Oneofs().Get(i); !od.IsSynthetic() && od.Fields().Len() >= 2 {
			ods = append(ods, od)
		}
	}
	if g.InjectOneof && len(ods) > 0 {
		od := ods[g.n(0, len(ods)-1, "injoneof")]
		var first protoreflect.FieldDescriptor
		var free []protoreflect.FieldDescriptor
		for i := 0; i < od.Fields().Len(); i++ {
			fd := od.Fields().Get(i)
			if _, ok := present[fd.Number()]; ok {
				first = fd
			} else {
				free = append(free, fd)
			}
		}
		if first == nil {
			i := g.n(0, len(free)-1, "injfirst")
			first = free[i]
			free = append(free[:i:i], free[i+1:]...)
			mk(first, false)
		}
		if len(free) == 0 {
			return
		}
		second := free[g.n(0, len(free)-1, "injsecond")]
		kind := mk(second, true)
		g.Injected = &jdoc.Injection{Kind: "oneof", Message: string(md.FullName()), Field: string(first.Name()) + "+" + string(second.Name()), Number: int32(second.Number()), Names: kind, Level: level, Via: via}
		return
	}
	var sing, have []protoreflect.FieldDescriptor
	for _, fd := range cands {
		if fd.IsList() || fd.IsMap() {
			continue
		}
		sing = append(sing, fd)
		if _, ok := present[fd.Number()]; ok {
			have = append(have, fd)
		}
	}
	if len(sing) == 0 {
		return
	}
	var fd protoreflect.FieldDescriptor
	firstKind := ""
	if len(have) > 0 && g.n(0, 1, "usepresent") == 0 {
		fd = have[g.n(0, len(have)-1, "injfield")]
		firstKind = present[fd.Number()]
	} else {
		var free []protoreflect.FieldDescriptor
		for _, f := range sing {
			if _, ok := present[f.Number()]; ok {
				continue
			}
			if realOneof(f) && oneofs[f.ContainingOneof().FullName()] {
				continue
			}
			free = append(free, f)
		}
		if len(free) == 0 {
			return
		}
		fd = free[g.n(0, len(free)-1, "injfield")]
		if g.n(0, 2, "bignum") == 0 {
			for _, f := range free {
				if f.Number() >= 64 && (fd.Number() < 64 || g.n(0, 3, "swapbig") == 0) {
					fd = f
				}
			}
		}
		firstKind = mk(fd, false)
	}
	kind := mk(fd, true)
	g.Injected = &jdoc.Injection{Kind: "singular", Message: string(md.FullName()), Field: string(fd.Name()), Number: int32(fd.Number()), Names: firstKind + "+" + kind, Level: level, Via: via}
}

func (g *tgen) document(md protoreflect.MessageDescriptor) *tnode {
	return g.message(md, g.Depth, 1, "top")
}

// ---------------------------------------------------------------------------------------------
// hostile pools for the text format

var textPools = jdoc.Pools{
	Numbers: []string{"1e", "1e+", "0x", "0xg", "08", "09", "1.5.5", "--1", "+1", "1f1", "0x1.8", "1e1.5", "- ", "-", "-#c\n1", "1__0", "0b1", "1.f", ".", ".e1", "-.", "0x1f.5", "1ee1", "9999999999999999999999", "-9223372036854775809", "18446744073709551616", "1e400", "-1e400", "0777777777777777777777777", "1u", "1l", "inff", "-nan", "- inf", "-infinity", "infinit"},
	Strings: []string{`"\q"`, `"\x"`, `"\xg"`, `"\8"`, `"\400"`, `"\u12"`, `"\u123g"`, `"\U00110000"`, `"\ud800"`, `"\ud800A"`, `"\udc00"`, `"\U0000d800"`, `"abc`, `'abc`, `"abc'`, "\"a\nb\"", "\"a\x00b\"", "\"\xff\"", "\"\xc0\x80\"", `"\`, `"\"`, `"a" "b" 'c'`, `"a""b"`, `"\x41\101A\U00000041"`, `'\''`, `"\?"`, `"\u+123"`, `"\U0000 041"`, "\"\\\n\"", "`a`"},
	Literals: []string{"TRUE", "FALSE", "yes", "tru", "truee", "Nan", "INF", "-inf", "-FOO", "FOO-BAR", "foo.bar", "1FOO", "_", "a:b", "nil", "null", "T", "F", "infinity", "NaN"},
	Structure: []string{"{", "}", "<", ">", "[", "]", ",", ";", ":", "::", ",,", ";;", "{}", "<>", "[]", "}{", "><", "{>", "<}", "#c\n", "#", "//c\n", "/*c*/", "\x00", "\x0b", "\x0c", "\xef\xbb\xbf", "(", ")", "=", "\"", "'", "[a.b]", "[a/b.c]", "[ ]", "[.]", "[a..b]", "[/a]", "[a/]", "[a/b/c.d]", "[%zz/a.b]", "1:", "0:", "-1:", "4294967296:", "a.b:"},
	Tails:     []string{"}", ">", "]", " x", ",", ";", "{}", ":", "#c", "\x00", "\xef\xbb\xbf", " 1", "\"", "a:", "a{", "a<", "a:[", "[", "[a.b", "a:-", "a:'"},
	Heads:     []string{"\xef\xbb\xbf", "\x00", ",", ";", "}", "{", ":", "#c\n", " ", "\x0b", "1 ", "[", "-"},
	Join:      joinText,
}

var textSoup = []string{
	"{", "}", "<", ">", "[", "]", ",", ";", ":", "a", "optional_int32", "optional_nested_message", "repeated_int32", "map_int32_int32", "key", "value", "type_url", "[goproto.proto.test.optional_int32]",
	"[type.googleapis.com/google.protobuf.Empty]", "1", "-1", "0x1f", "017", "1.5", "1e3", "1f", "inf", "nan", "true", "FOO", `"a"`, `'b'`, `"\n"`, `"a`, " ", "\n", "#c\n", "a:", "a{", "a:[", "-", ".", "1:", "\x00",
}

func soupText(t *rapid.T) []byte {
	var b []byte
	for i, n := 0, rapid.IntRange(1, 12).Draw(t, "soup"); i < n; i++ {
		switch rapid.IntRange(0, 9).Draw(t, "souppool") {
		case 0:
			b = append(b, rapid.SampledFrom(textPools.Numbers).Draw(t, "n")...)
		case 1:
			b = append(b, rapid.SampledFrom(textPools.Strings).Draw(t, "s")...)
		case 2:
			b = append(b, rapid.SampledFrom(textPools.Structure).Draw(t, "x")...)
		default:
			b = append(b, rapid.SampledFrom(textSoup).Draw(t, "p")...)
		}
		if rapid.Bool().Draw(t, "sp") {
			b = append(b, ' ')
		}
	}
	return b
}
