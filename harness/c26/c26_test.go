package c26

import (
	"fmt"
	"sort"
	"strconv"
	"strings"
	"testing"

	"google.golang.org/protobuf/encoding/protojson"
	"google.golang.org/protobuf/encoding/prototext"
	"google.golang.org/protobuf/proto"
	"google.golang.org/protobuf/reflect/protoreflect"
	"google.golang.org/protobuf/zverif/c21/jdoc"
	"google.golang.org/protobuf/zverif/corpus"
	"google.golang.org/protobuf/zverif/gen"
	"google.golang.org/protobuf/zverif/pbt"
	"pgregory.net/rapid"
)

const kfTextSkip = "KF-text-skip-recursion"

var (
	allTypes    = corpus.Names() // every linked message type, MessageSet users and hand-written ones included
	types, rich = corpus.Standard(), corpus.Rich(20)
)

func unmarshal(format, typ string, in []byte, discard, partial bool, limit int) error {
	m := corpus.ByName(typ).New().Interface()
	return unmarshalInto(format, m, in, discard, partial, limit)
}

func unmarshalInto(format string, m proto.Message, in []byte, discard, partial bool, limit int) error {
	if format == "json" {
		return protojson.UnmarshalOptions{DiscardUnknown: discard, AllowPartial: partial, RecursionLimit: limit}.Unmarshal(in, m)
	}
	return prototext.UnmarshalOptions{DiscardUnknown: discard, AllowPartial: partial, RecursionLimit: limit}.Unmarshal(in, m)
}

// ---------------------------------------------------------------------------------------------
// totality

type totalCase struct {
	Format  string
	Type    string
	Discard bool
	Partial bool
	Limit   int
	Source  string
	Input   []byte
	Show    string
	Labels  []string
}

func checkTotal(c totalCase) error {
	// a panic is caught by the framework and reported as a violation with this case
	m := corpus.ByName(c.Type).New().Interface()
	err := unmarshalInto(c.Format, m, c.Input, c.Discard, c.Partial, c.Limit)
	lastTotalOK = err == nil
	if err != nil && err.Error() == "" {
		return fmt.Errorf("Unmarshal returned an error with an empty message")
	}
	return nil
}

var lastTotalOK bool

func drawTotal(format string) func(t *rapid.T) totalCase {
	return func(t *rapid.T) totalCase {
		c := totalCase{Format: format, Discard: rapid.Bool().Draw(t, "discard"), Partial: rapid.Bool().Draw(t, "partial")}
		switch rapid.IntRange(0, 5).Draw(t, "typepool") {
		case 0, 1:
			c.Type = rapid.SampledFrom(allTypes).Draw(t, "anytype")
		case 2:
			c.Type = rapid.SampledFrom([]string{"google.protobuf.Value", "google.protobuf.Struct", "google.protobuf.ListValue", "google.protobuf.Any", "google.protobuf.Timestamp", "google.protobuf.Duration", "google.protobuf.FieldMask", "google.protobuf.Empty", "google.protobuf.BytesValue"}).Draw(t, "wkt")
		default:
			c.Type = rapid.SampledFrom(rich).Draw(t, "rich")
		}
		if rapid.IntRange(0, 3).Draw(t, "limited") == 0 {
			c.Limit = rapid.IntRange(1, 6).Draw(t, "limit")
		}
		md := corpus.ByName(c.Type).Descriptor()
		switch k := rapid.IntRange(0, 19).Draw(t, "source"); {
		case k < 5:
			c.Source = "document"
		case k < 16:
			c.Source = "mutated"
		case k < 18:
			c.Source = "soup"
		default:
			c.Source = "bytes"
		}
		unknown := c.Discard || rapid.IntRange(0, 9).Draw(t, "unknown-anyway") == 0
		switch {
		case c.Source == "soup" && format == "json":
			c.Input = jdoc.Soup(t)
		case c.Source == "soup":
			c.Input = soupText(t)
		case c.Source == "bytes":
			c.Input = rapid.SliceOfN(rapid.Byte(), 0, 24).Draw(t, "raw")
		case format == "json":
			g := jdoc.NewGen(t)
			g.Unknown = unknown
			toks := jdoc.Render(g.Document(md), false)
			c.Labels = g.LabelList()
			if c.Source == "document" {
				c.Input = jdoc.Join(t, toks)
			} else {
				var ls []string
				c.Input, ls = jdoc.Mutate(t, toks)
				c.Labels = append(c.Labels, ls...)
			}
		default:
			g := newTGen(t)
			g.Unknown = unknown
			toks := renderText(g.document(md), false)
			c.Labels = g.labelList()
			if c.Source == "document" {
				c.Input = joinText(t, toks)
			} else {
				var ls []string
				c.Input, ls = jdoc.MutateWith(t, toks, textPools)
				c.Labels = append(c.Labels, ls...)
			}
		}
		c.Show = strconv.Quote(string(c.Input))
		return c
	}
}

func totalClasses(c totalCase) []string {
	out := []string{"source-" + c.Source}
	if lastTotalOK {
		out = append(out, "accepted")
	} else {
		out = append(out, "rejected")
	}
	if lastTotalOK && c.Source == "document" {
		out = append(out, "document-accepted")
	}
	if c.Source == "document" {
		out = append(out, "document")
	}
	if c.Limit > 0 {
		out = append(out, "small-recursion-limit")
	}
	if c.Discard {
		out = append(out, "discard-unknown")
	}
	for _, l := range c.Labels {
		if strings.HasPrefix(l, "mut-") || l == "any-expanded" || l == "ext" || l == "map" || l == "oneof" || strings.HasPrefix(l, "wkt-") || l == "str-concat" {
			out = append(out, l)
		}
	}
	return out
}

func TestTotalJSON(t *testing.T) {
	pbt.Run(t, pbt.Prop[totalCase]{
		Name: "total-json",
		Rule: "protojson.Unmarshal over every linked message type (MessageSet users and hand-written implementations included) x DiscardUnknown x AllowPartial x RecursionLimit {default, 1..6}; input = descriptor-directed document | 1-3 token/byte mutations | token soup | random bytes; oracle: returns (value or error) without panicking. non-trivial = input longer than 8 bytes",
		Draw: drawTotal("json"), Check: checkTotal, Classes: totalClasses,
		NonTrivial: func(c totalCase) bool { return len(c.Input) > 8 },
		Quick:      20000, Thorough: 200000, Journal: true,
	})
}

func TestTotalText(t *testing.T) {
	pbt.Run(t, pbt.Prop[totalCase]{
		Name: "total-text",
		Rule: "prototext.Unmarshal over every linked message type x DiscardUnknown x AllowPartial x RecursionLimit {default, 1..6}; input = descriptor-directed text document ({}/<>, optional colons, ,/; separators, comments, list syntax, string concatenation and escapes, hex/octal/float spellings, expanded Any, extensions, field-number names) | mutations with text-format hostile tokens | token soup | random bytes; oracle: no panic. non-trivial = input longer than 8 bytes",
		Draw: drawTotal("text"), Check: checkTotal, Classes: totalClasses,
		NonTrivial: func(c totalCase) bool { return len(c.Input) > 8 },
		Quick:      20000, Thorough: 200000, Journal: true,
	})
}

// ---------------------------------------------------------------------------------------------
// duplicates

type dupCase struct {
	Format  string
	Type    string
	Discard bool
	Base    []byte // document without the injected member
	Dup     []byte // same document with it
	Show    string
	Inj     *jdoc.Injection
}

type dupOutcome struct{ baseOK bool }

var lastDup dupOutcome

func checkDup(c dupCase) error {
	lastDup = dupOutcome{}
	if c.Inj == nil {
		return nil
	}
	baseErr := unmarshal(c.Format, c.Type, c.Base, c.Discard, true, 0)
	lastDup.baseOK = baseErr == nil
	if err := unmarshal(c.Format, c.Type, c.Dup, c.Discard, true, 0); err == nil {
		what := "sets non-repeated field " + c.Inj.Field + " twice"
		if c.Inj.Kind == "oneof" {
			what = "sets two members (" + c.Inj.Field + ") of one oneof"
		}
		return fmt.Errorf("%s Unmarshal(%s) accepted a document that %s in %s (nesting level %d, names %s): %s", c.Format, c.Type, what, c.Inj.Message, c.Inj.Level, c.Inj.Names, c.Dup)
	}
	return nil
}

func drawDup(format string) func(t *rapid.T) dupCase {
	return func(t *rapid.T) dupCase {
		c := dupCase{Format: format, Type: gen.TypeName(types, rich).Draw(t, "type"), Discard: rapid.IntRange(0, 3).Draw(t, "discard") == 0}
		if rapid.Bool().Draw(t, "testmsg") {
			c.Type = rapid.SampledFrom(testMsgTypes).Draw(t, "testtype")
		}
		md := corpus.ByName(c.Type).Descriptor()
		at := rapid.SampledFrom([]int{0, 0, 0, 1, 2, 3}).Draw(t, "injectat")
		oneof := rapid.IntRange(0, 2).Draw(t, "injectoneof") == 0
		if format == "json" {
			g := jdoc.NewGen(t)
			g.Unknown, g.InjectAt, g.InjectOneof = c.Discard, at, oneof
			doc := g.Document(md)
			c.Inj = g.Injected
			c.Base = joinTight(jdoc.Render(doc, false), "")
			c.Dup = jdoc.Join(t, jdoc.Render(doc, true))
		} else {
			g := newTGen(t)
			g.Unknown, g.InjectAt, g.InjectOneof = c.Discard, at, oneof
			doc := g.document(md)
			c.Inj = g.Injected
			c.Base = joinTight(renderText(doc, false), " ")
			c.Dup = joinText(t, renderText(doc, true))
		}
		c.Show = strconv.Quote(string(c.Dup))
		return c
	}
}

// the hand-written test schemas (distinct JSON / proto names, oneofs, groups, extensions, big field numbers)
var testMsgTypes = func() []string {
	var out []string
	for _, n := range types {
		md := corpus.ByName(n).Descriptor()
		if !strings.HasPrefix(n, "benchmarks.") && !strings.HasPrefix(n, "google.protobuf.") && md.Fields().Len() >= 8 {
			out = append(out, n)
		}
	}
	return out
}()

func joinTight(toks []jdoc.Tok, sep string) []byte {
	var b []byte
	for i, k := range toks {
		if i > 0 {
			b = append(b, sep...)
		}
		b = append(b, k.Text...)
	}
	return b
}

func dupClasses(c dupCase) []string {
	if c.Inj == nil {
		return []string{"no-candidate-for-injection"}
	}
	out := []string{"dup-" + c.Inj.Kind, "names-" + c.Inj.Names, "via-" + c.Inj.Via}
	if lastDup.baseOK {
		out = append(out, "base-document-accepted")
	} else {
		out = append(out, "base-document-rejected(other reason)")
	}
	switch {
	case c.Inj.Number < 64:
		out = append(out, "field-number<64")
	case c.Inj.Number < 1<<16:
		out = append(out, "field-number-64..65535")
	default:
		out = append(out, "field-number>=65536")
	}
	if c.Inj.Level >= 2 {
		out = append(out, "nested")
	} else {
		out = append(out, "top-level")
	}
	return out
}

func dupNonTrivial(c dupCase) bool { return c.Inj != nil && lastDup.baseOK && c.Inj.Level >= 2 }

func TestDuplicatesJSON(t *testing.T) {
	pbt.Run(t, pbt.Prop[dupCase]{
		Name: "duplicates-json",
		Rule: "valid JSON document for a linked message type; at a drawn plain-message node (top level, singular/list/map/Any-embedded) the operator adds a second non-null member for a singular field (spellings: JSON name, proto name, [extension]; all combinations) or a second non-null member of a oneof; oracle: Unmarshal of the document with the extra member fails (the document without it is decoded too, to show the rejection is due to the operator). non-trivial = injected below the top level and base document accepted",
		Draw: drawDup("json"), Check: checkDup, Classes: dupClasses, NonTrivial: dupNonTrivial,
		Quick: 15000, Thorough: 150000,
	})
}

func TestDuplicatesText(t *testing.T) {
	pbt.Run(t, pbt.Prop[dupCase]{
		Name: "duplicates-text",
		Rule: "valid text document; at a drawn message node the operator adds a second occurrence of a singular field (field name, group type name / lower-case name, [extension]) or a second member of a oneof; oracle: Unmarshal fails. non-trivial = injected below the top level and base document accepted",
		Draw: drawDup("text"), Check: checkDup, Classes: dupClasses, NonTrivial: dupNonTrivial,
		Quick: 15000, Thorough: 150000,
	})
}

// ---------------------------------------------------------------------------------------------
// recursion limit

// inf: plain message types from which an arbitrarily long chain of message fields exists.
var infAny, infSingular = infSets(false), infSets(true)

func plainMsg(md protoreflect.MessageDescriptor) bool {
	return !jdoc.IsSpecial(md) && !corpus.UsesMessageSet(md) && md.FullName() != "google.protobuf.Empty"
}

func msgFields(md protoreflect.MessageDescriptor, singularOnly bool, in map[protoreflect.FullName]bool) []protoreflect.FieldDescriptor {
	var out []protoreflect.FieldDescriptor
	fs := md.Fields()
	for i := 0; i < fs.Len(); i++ {
		fd := fs.Get(i)
		sub := fd.Message()
		if fd.IsMap() {
			sub = fd.MapValue().Message()
		}
		if sub == nil || (singularOnly && (fd.IsList() || fd.IsMap())) {
			continue
		}
		if in == nil || in[sub.FullName()] {
			out = append(out, fd)
		}
	}
	return out
}

func target(fd protoreflect.FieldDescriptor) protoreflect.MessageDescriptor {
	if fd.IsMap() {
		return fd.MapValue().Message()
	}
	return fd.Message()
}

func infSets(singularOnly bool) map[protoreflect.FullName]bool {
	in := map[protoreflect.FullName]bool{}
	for _, n := range types {
		if md := corpus.ByName(n).Descriptor(); plainMsg(md) {
			in[md.FullName()] = true
		}
	}
	for changed := true; changed; {
		changed = false
		for n := range in {
			if len(msgFields(corpus.ByName(string(n)).Descriptor(), singularOnly, in)) == 0 {
				delete(in, n)
				changed = true
			}
		}
	}
	return in
}

func sortedNames(m map[protoreflect.FullName]bool) []string {
	var out []string
	for n := range m {
		out = append(out, string(n))
	}
	sort.Strings(out)
	return out
}

var infAnyNames, infSingularNames = sortedNames(infAny), sortedNames(infSingular)

type depthCase struct {
	Format  string
	Type    string
	Kind    string // msg-singular | msg-mixed | unknown | reserved | wkt | any
	Limit   int
	Discard bool
	Target  string // which depth relative to the limit was aimed at
	DMin    int    // nesting depth by the most lenient reading (messages only)
	DMax    int    // nesting depth by the strictest reading (every bracket / map entry counts)
	Prefix  int    // unknown/reserved kinds: depth of the known-message prefix that carries the skipped value
	Input   []byte
	Show    string
}

func checkDepth(c depthCase) error {
	err := unmarshal(c.Format, c.Type, c.Input, c.Discard, true, c.Limit)
	limit := c.Limit
	if limit == 0 {
		limit = 10000
	}
	show := c.Show
	if len(show) > 300 {
		show = show[:300] + "…"
	}
	switch {
	case c.DMin > limit && err == nil:
		if c.Format == "text" && (c.Kind == "unknown" || c.Kind == "reserved") && c.Prefix <= limit && pbt.ExcludeKnown(kfTextSkip) {
			return nil
		}
		return fmt.Errorf("%s Unmarshal(%s, RecursionLimit=%d) accepted input nested %d deep (kind %s): %s", c.Format, c.Type, c.Limit, c.DMin, c.Kind, show)
	case c.DMax <= limit && err != nil:
		return fmt.Errorf("%s Unmarshal(%s, RecursionLimit=%d) rejected well-formed input nested only %d deep (kind %s): %v: %s", c.Format, c.Type, c.Limit, c.DMax, c.Kind, err, show)
	}
	return nil
}

type chainStep struct {
	fd   protoreflect.FieldDescriptor
	form int
}

// walk draws a path of n message-field steps starting at md.
func walk(t *rapid.T, md protoreflect.MessageDescriptor, n int, singularOnly bool) []chainStep {
	in := infAny
	if singularOnly {
		in = infSingular
	}
	var path []chainStep
	for i := 0; i < n; i++ {
		fs := msgFields(md, singularOnly, in)
		fd := fs[rapid.IntRange(0, len(fs)-1).Draw(t, "step")]
		path = append(path, chainStep{fd, rapid.IntRange(0, 3).Draw(t, "form")})
		md = target(fd)
	}
	return path
}

func jsonKey(fd protoreflect.FieldDescriptor) string {
	switch fd.MapKey().Kind() {
	case protoreflect.StringKind:
		return `"k"`
	case protoreflect.BoolKind:
		return `"true"`
	}
	return `"1"`
}

// jsonChain nests inner (the JSON text of the innermost message) along path; returns text and extra brackets.
func jsonChain(path []chainStep, inner string) (string, int) {
	extra := 0
	s := inner
	for i := len(path) - 1; i >= 0; i-- {
		fd := path[i].fd
		ns := jdoc.Names(fd)
		name := strconv.Quote(ns[path[i].form%len(ns)])
		switch {
		case fd.IsMap():
			s = "{" + name + ":{" + jsonKey(fd) + ":" + s + "}}"
			extra++
		case fd.IsList():
			s = "{" + name + ":[" + s + "]}"
			extra++
		default:
			s = "{" + name + ":" + s + "}"
		}
	}
	return s, extra
}

func textKey(fd protoreflect.FieldDescriptor) string {
	switch fd.MapKey().Kind() {
	case protoreflect.StringKind:
		return `"k"`
	case protoreflect.BoolKind:
		return "true"
	}
	return "1"
}

// textChain nests inner (fields of the innermost message) along path.
func textChain(path []chainStep, inner string) (string, int) {
	extra := 0
	s := inner
	for i := len(path) - 1; i >= 0; i-- {
		fd := path[i].fd
		name := fd.TextName()
		o, c := "{", "}"
		switch path[i].form {
		case 1:
			o, c = "<", ">"
		case 2:
			o = ":{"
		}
		switch {
		case fd.IsMap():
			s = name + o + "key:" + textKey(fd) + " value" + o + s + c + c
			extra++
		case fd.IsList() && path[i].form == 3:
			s = name + ":[" + "{" + s + "}]"
			extra++
		default:
			s = name + o + s + c
		}
		s += " "
	}
	return s, extra
}

func nestJSONUnknown(t *rapid.T, u int) string {
	s := []string{"{}", "[]", "[1]", `{"z":null}`}[rapid.IntRange(0, 3).Draw(t, "innermost")]
	mode := rapid.IntRange(0, 2).Draw(t, "tailmode") // objects, arrays, alternating
	for j := u - 1; j >= 1; j-- {
		if mode == 0 || (mode == 2 && j%2 == 0) {
			s = `{"z":` + s + `}`
		} else {
			s = "[" + s + "]"
		}
	}
	return s
}

func nestTextUnknown(t *rapid.T, name string, u int) string {
	mode := rapid.IntRange(0, 3).Draw(t, "tailmode")
	s := ""
	for j := u; j >= 1; j-- {
		nm := name
		if j > 1 {
			nm = []string{name, "zz", "7"}[mode%3]
		}
		switch {
		case mode == 1:
			s = nm + "<" + s + ">"
		case mode == 2 && j%2 == 0:
			s = nm + ":[{" + s + "}]"
		case mode == 3:
			s = nm + ":{" + s + "}"
		default:
			s = nm + "{" + s + "}"
		}
	}
	return s
}

var reservedTypes = func() []string {
	var out []string
	for _, n := range types {
		if md := corpus.ByName(n).Descriptor(); md.ReservedNames().Len() > 0 && plainMsg(md) {
			out = append(out, n)
		}
	}
	return out
}()

func aim(t *rapid.T, limit int) (int, string) {
	switch rapid.IntRange(0, 4).Draw(t, "aim") {
	case 0:
		return limit - 1, "limit-1"
	case 1:
		return limit, "limit"
	case 2, 3:
		return limit + 1, "limit+1"
	default:
		return 10 * limit, "10*limit"
	}
}

func drawDepth(format string) func(t *rapid.T) depthCase {
	return func(t *rapid.T) depthCase {
		c := depthCase{Format: format, Limit: rapid.IntRange(1, 30).Draw(t, "limit")}
		d, label := aim(t, c.Limit)
		if d < 1 {
			d = 1
		}
		c.Target = label
		kinds := []string{"msg-singular", "msg-singular", "msg-mixed", "unknown", "unknown", "wkt", "any"}
		if format == "text" {
			kinds = []string{"msg-singular", "msg-singular", "msg-mixed", "unknown", "unknown", "reserved", "any"}
		}
		c.Kind = rapid.SampledFrom(kinds).Draw(t, "kind")
		var doc string
		switch c.Kind {
		case "msg-singular", "msg-mixed":
			single := c.Kind == "msg-singular"
			names := infAnyNames
			if single {
				names = infSingularNames
			}
			c.Type = rapid.SampledFrom(names).Draw(t, "type")
			path := walk(t, corpus.ByName(c.Type).Descriptor(), d-1, single)
			extra := 0
			if format == "json" {
				doc, extra = jsonChain(path, "{}")
			} else {
				doc, extra = textChain(path, "")
			}
			c.DMin, c.DMax = d, d+extra
		case "unknown", "reserved":
			c.Discard = c.Kind == "unknown"
			// prefix of p known messages (p >= 1), tail of u >= 1 skipped levels, p+u = d (d >= 2)
			if d < 2 {
				d = 2
			}
			p := 1
			if c.Kind == "unknown" {
				p = rapid.IntRange(1, d-1).Draw(t, "prefix")
				if rapid.Bool().Draw(t, "shortprefix") {
					p = 1
				}
			}
			u := d - p
			tailName := "zz"
			if c.Kind == "reserved" {
				c.Type = rapid.SampledFrom(reservedTypes).Draw(t, "type")
				rn := corpus.ByName(c.Type).Descriptor().ReservedNames()
				tailName = string(rn.Get(rapid.IntRange(0, rn.Len()-1).Draw(t, "reserved")))
			} else {
				c.Type = rapid.SampledFrom(infSingularNames).Draw(t, "type")
			}
			path := walk(t, corpus.ByName(c.Type).Descriptor(), p-1, true)
			if format == "json" {
				inner := `{"zz":` + nestJSONUnknown(t, u) + []string{"", `,"zz2":1`}[rapid.IntRange(0, 1).Draw(t, "sibling")] + "}"
				doc, _ = jsonChain(path, inner)
			} else {
				sib := ""
				if c.Discard && rapid.Bool().Draw(t, "sibling") {
					sib = " zz2:1"
				}
				doc, _ = textChain(path, nestTextUnknown(t, tailName, u)+sib)
			}
			c.Prefix, c.DMin, c.DMax = p, d, d
		case "wkt":
			c.Type = rapid.SampledFrom([]string{"google.protobuf.Struct", "google.protobuf.ListValue", "google.protobuf.Value"}).Draw(t, "type")
			mode := rapid.IntRange(0, 2).Draw(t, "wktmode")
			s := ""
			for j := d; j >= 1; j-- {
				obj := mode == 0 || (mode == 2 && j%2 == 0)
				if j == 1 && c.Type == "google.protobuf.Struct" {
					obj = true
				}
				if j == 1 && c.Type == "google.protobuf.ListValue" {
					obj = false
				}
				switch {
				case obj && s == "":
					s = "{}"
				case obj:
					s = `{"a":` + s + `}`
				default:
					s = "[" + s + "]"
				}
			}
			doc = s
			c.DMin, c.DMax = d, 2*d+1
		case "any":
			c.Type = "google.protobuf.Any"
			if format == "json" {
				s := "{}"
				for j := 1; j < d; j++ {
					s = `{"@type":"type.googleapis.com/google.protobuf.Any","value":` + s + `}`
				}
				doc = s
				c.DMin, c.DMax = d, 2*d
			} else {
				s := ""
				for j := 1; j < d; j++ {
					s = "[type.googleapis.com/google.protobuf.Any]{" + s + "}"
				}
				doc = s
				c.DMin, c.DMax = d, d
			}
		}
		c.Input = []byte(doc)
		c.Show = doc
		if len(c.Show) > 2000 {
			c.Show = c.Show[:2000] + "…"
		}
		return c
	}
}

func depthClasses(c depthCase) []string {
	limit := c.Limit
	out := []string{"kind-" + c.Kind, "aim-" + c.Target}
	switch {
	case c.DMin > limit:
		out = append(out, "must-reject")
	case c.DMax <= limit:
		out = append(out, "must-accept")
	default:
		out = append(out, "no-verdict(readings differ)")
	}
	return out
}

func TestRecursionLimitJSON(t *testing.T) {
	pbt.Run(t, pbt.Prop[depthCase]{
		Name: "recursion-limit-json",
		Rule: "RecursionLimit in 1..30, nesting depth aimed at limit-1 / limit / limit+1 / 10*limit; chains: singular message fields of linked types (exact), mixed singular/list/map steps, unknown member values under DiscardUnknown behind a known prefix (objects/arrays/alternating), Struct/ListValue/Value nests, Any-in-Any; oracle: depth by the most lenient reading > limit => error; depth by the strictest reading <= limit => accepted (documents are otherwise valid). non-trivial = a verdict applies (the two readings agree)",
		Draw: drawDepth("json"), Check: checkDepth, Classes: depthClasses,
		NonTrivial: func(c depthCase) bool { return c.DMin > c.Limit || c.DMax <= c.Limit },
		Quick:      10000, Thorough: 80000,
	})
}

func TestRecursionLimitText(t *testing.T) {
	pbt.Run(t, pbt.Prop[depthCase]{
		Name: "recursion-limit-text",
		Rule: "as recursion-limit-json for prototext: chains of {} / <> / :{ / list-syntax / map-entry steps, unknown fields under DiscardUnknown (names, field numbers, list syntax) and reserved-name fields behind a known prefix, expanded Any in Any; the catalogued defect (skipped values ignore the limit) is excluded only when the known prefix itself is within the limit",
		Draw: drawDepth("text"), Check: checkDepth, Classes: depthClasses,
		NonTrivial: func(c depthCase) bool { return c.DMin > c.Limit || c.DMax <= c.Limit },
		Quick:      10000, Thorough: 80000,
	})
}

// default limit (RecursionLimit: 0 => 10000), fixed cases
func TestDefaultRecursionLimit(t *testing.T) {
	type fixed struct {
		Format, Kind string
		Depth        int
	}
	build := func(f fixed) depthCase {
		c := depthCase{Format: f.Format, Kind: f.Kind, Type: "goproto.proto.test.TestAllTypes", Target: "default-limit", DMin: f.Depth, DMax: f.Depth}
		fd := corpus.ByName(c.Type).Descriptor().Fields().ByName("optional_nested_message")
		cor := fd.Message().Fields().ByName("corecursive")
		var sb strings.Builder
		switch f.Kind {
		case "msg-singular":
			// TestAllTypes -> optional_nested_message -> corecursive -> ...
			n := f.Depth - 1
			for i := 0; i < n; i++ {
				name := []protoreflect.FieldDescriptor{fd, cor}[i%2].TextName()
				if f.Format == "json" {
					sb.WriteString(`{"` + name + `":`)
				} else {
					sb.WriteString(name + "{")
				}
			}
			if f.Format == "json" {
				sb.WriteString("{}")
			}
			sb.WriteString(strings.Repeat("}", n))
		case "unknown":
			c.Discard, c.Prefix = true, 1
			u := f.Depth - 1
			if f.Format == "json" {
				sb.WriteString(`{"zz":` + strings.Repeat("[", u) + strings.Repeat("]", u) + "}")
			} else {
				sb.WriteString(strings.Repeat("zz{", u) + strings.Repeat("}", u))
			}
		}
		c.Input = []byte(sb.String())
		c.Show = fmt.Sprintf("<%s %s chain, depth %d>", f.Format, f.Kind, f.Depth)
		return c
	}
	pbt.Enumerate(t, "default-recursion-limit",
		"RecursionLimit 0 (documented default 10000): singular-message chains and unknown-value nests of depth 10000 (accepted) and 10001 (rejected), JSON and text",
		true,
		func(yield func(fixed, bool) bool) {
			for _, format := range []string{"json", "text"} {
				for _, kind := range []string{"msg-singular", "unknown"} {
					for _, d := range []int{9999, 10000, 10001, 10002, 20000} {
						if !yield(fixed{format, kind, d}, true) {
							return
						}
					}
				}
			}
		},
		func(f fixed) error { return checkDepth(build(f)) })
}

// ---------------------------------------------------------------------------------------------
// known finding witness

func TestWitnessTextSkipIgnoresLimit(t *testing.T) {
	in := []byte(strings.Repeat("zz{", 50) + strings.Repeat("}", 50))
	m := corpus.ByName("goproto.proto.test.TestAllTypes").New().Interface()
	err := prototext.UnmarshalOptions{DiscardUnknown: true, RecursionLimit: 5}.Unmarshal(in, m)
	// the JSON decoder, given the analogous input, does enforce the limit
	jerr := protojson.UnmarshalOptions{DiscardUnknown: true, RecursionLimit: 5}.Unmarshal([]byte(`{"zz":`+strings.Repeat(`{"zz":`, 49)+"{}"+strings.Repeat("}", 50)), corpus.ByName("goproto.proto.test.TestAllTypes").New().Interface())
	if jerr == nil {
		t.Errorf("protojson accepted 51 levels with RecursionLimit 5")
	}
	pbt.Witness(t, kfTextSkip, err == nil, "prototext.UnmarshalOptions{DiscardUnknown:true, RecursionLimit:5} accepts zz{zz{…}} nested 50 deep")
}

// ---------------------------------------------------------------------------------------------
// totality at end of input: every prefix of every hostile token, in fixed frames (exhaustive)

type prefixCase struct {
	Format  string
	Type    string
	Discard bool
	Input   string
}

func TestHostilePrefixesTotal(t *testing.T) {
	type frame struct {
		format, typ string
		discard     bool
		open, close string
	}
	frames := []frame{
		{"json", "goproto.proto.test.TestAllTypes", false, `{"optional_string":`, `}`},
		{"json", "goproto.proto.test.TestAllTypes", false, `{"optional_int32":`, `}`},
		{"json", "goproto.proto.test.TestAllTypes", true, `{"zz":[`, `]}`},
		{"json", "goproto.proto.test.TestAllTypes", false, `{`, `:1}`},
		{"json", "google.protobuf.Value", false, ``, ``},
		{"json", "google.protobuf.Any", false, `{"@type":`, `}`},
		{"json", "google.protobuf.Any", true, `{"@type":"type.googleapis.com/google.protobuf.Duration","value":`, `}`},
		{"text", "goproto.proto.test.TestAllTypes", false, `optional_string:`, ``},
		{"text", "goproto.proto.test.TestAllTypes", false, `optional_int32:`, ``},
		{"text", "goproto.proto.test.TestAllTypes", false, `optional_float:`, ``},
		{"text", "goproto.proto.test.TestAllTypes", false, `optional_nested_enum:`, ``},
		{"text", "goproto.proto.test.TestAllTypes", false, `repeated_int32:[1,`, `]`},
		{"text", "goproto.proto.test.TestAllTypes", false, `optional_nested_message{a:`, `}`},
		{"text", "goproto.proto.test.TestAllTypes", true, `zz:`, ``},
		{"text", "goproto.proto.test.TestAllTypes", true, `zz{y:[`, `]}`},
		{"text", "goproto.proto.test.TestAllTypes", false, ``, `:1`},
		{"text", "goproto.proto.test.TestAllExtensions", false, ``, ``},
		{"text", "google.protobuf.Any", false, ``, `{}`},
		{"text", "google.protobuf.Any", false, `type_url:`, ``},
	}
	pools := func(format string) []string {
		var out []string
		if format == "json" {
			out = append(out, jdoc.BadNumbers...)
			out = append(out, jdoc.BadStrings...)
			out = append(out, jdoc.BadLiterals...)
			out = append(out, `"𝄞"`, `"éx"`, "1.5e+10", "-0.0E-2", `"@type"`)
		} else {
			out = append(out, textPools.Numbers...)
			out = append(out, textPools.Strings...)
			out = append(out, textPools.Literals...)
			out = append(out, textPools.Structure...)
			out = append(out, `"\U0001f600é\x41\101"`, `'𝄞'`, "-0x7fffffff", "- #c\n 1.5e+10f", "[goproto.proto.test.optional_int32]", "[type.googleapis.com/google.protobuf.Empty]", "[ type.googleapis.com / google.protobuf.Empty ]", "[a.b/c.d]{", "-inf", "- inf")
		}
		return out
	}
	pbt.Enumerate(t, "hostile-prefixes-total",
		"exhaustive: every non-empty prefix of every hostile/boundary token (numbers, strings with partial escapes, literals, structure; JSON and text pools), placed in fixed frames (string/int/float/enum field, list element, nested message, unknown value under DiscardUnknown, field-name position, Any) and left unterminated at end of input or closed; oracle: no panic",
		true,
		func(yield func(prefixCase, bool) bool) {
			for _, f := range frames {
				for _, k := range pools(f.format) {
					for n := 1; n <= len(k); n++ {
						if !yield(prefixCase{f.format, f.typ, f.discard, f.open + k[:n]}, n > 2) {
							return
						}
						if !yield(prefixCase{f.format, f.typ, f.discard, f.open + k[:n] + f.close}, n > 2) {
							return
						}
					}
				}
			}
		},
		func(c prefixCase) error {
			_ = unmarshal(c.Format, c.Type, []byte(c.Input), c.Discard, true, 0)
			return nil
		})
}
