package c26

// google.protobuf.Any has its own text-format reader (type_url / value collected by hand, or the
// expanded [url]: {...} form). Fixed documents that name one of its fields twice, with every
// combination of empty and non-empty occurrences: the marshaler never writes an empty type_url or
// value, so duplicating keys of marshaled documents never produces these.

import (
	"fmt"
	"testing"

	"google.golang.org/protobuf/encoding/prototext"
	"google.golang.org/protobuf/reflect/protoreflect"
	"google.golang.org/protobuf/reflect/protoregistry"
	"google.golang.org/protobuf/types/dynamicpb"
	"google.golang.org/protobuf/zverif/pbt"
)

type anyDupCase struct {
	Target  string // message type decoded into
	Doc     string
	Dynamic bool
	Accept  bool // control documents (no duplicate) must be accepted
}

func TestAnyDuplicatesText(t *testing.T) {
	const exp = `[type.googleapis.com/google.protobuf.Duration]: {seconds: 1}`
	dups := []string{
		`type_url: "" type_url: "a/b"`, `type_url: "a/b" type_url: ""`, `type_url: "" type_url: ""`, `type_url: "a/b" type_url: "a/b"`,
		`value: "" value: "x"`, `value: "x" value: ""`, `value: "" value: ""`, `value: '' value: ""`, `value: "x" value: "x"`,
		`type_url: "a/b" value: "" value: ""`, `type_url: "" value: "x" type_url: "a/b"`, `value: "" type_url: "a/b" value: "x"`,
		exp + ` type_url: ""`, `type_url: "" ` + exp, exp + ` value: ""`, `value: "" ` + exp, exp + " " + exp,
	}
	controls := []string{``, `type_url: ""`, `value: ""`, `type_url: "a/b" value: "x"`, `value: "x" type_url: "a/b"`, exp}
	pbt.Enumerate(t, "text-any-duplicates",
		"fixed documents for google.protobuf.Any (top level and as the field opt_any of pb2.KnownTypes, generated and dynamicpb) that name type_url or value twice, or mix the expanded form with a plain field, with every combination of empty / non-empty occurrences: all rejected; the same documents without the repetition: accepted; every case non-trivial",
		true,
		func(yield func(anyDupCase, bool) bool) {
			for _, dyn := range []bool{false, true} {
				for _, wrap := range []bool{false, true} {
					emit := func(doc string, accept bool) bool {
						target := "google.protobuf.Any"
						if wrap {
							target, doc = "pb2.KnownTypes", "opt_any: {"+doc+"}"
						}
						return yield(anyDupCase{Target: target, Doc: doc, Dynamic: dyn, Accept: accept}, true)
					}
					for _, d := range dups {
						if !emit(d, false) {
							return
						}
					}
					for _, d := range controls {
						if !emit(d, true) {
							return
						}
					}
				}
			}
		}, func(c anyDupCase) error {
			mt, err := protoregistry.GlobalTypes.FindMessageByName(protoreflect.FullName(c.Target))
			if err != nil {
				return fmt.Errorf("harness: %v", err)
			}
			m := mt.New()
			if c.Dynamic {
				m = dynamicpb.NewMessage(mt.Descriptor())
			}
			err = prototext.Unmarshal([]byte(c.Doc), m.Interface())
			if c.Accept && err != nil {
				return fmt.Errorf("control document %q refused: %v", c.Doc, err)
			}
			if !c.Accept && err == nil {
				return fmt.Errorf("text Unmarshal(%s) accepted a document that names a field of an Any twice: %s", c.Target, c.Doc)
			}
			return nil
		})
}
