package c26

// Native fuzz targets (coverage-guided; thorough use only, bounded by -fuzztime). Seeds: the
// jsonfuzz / textfuzz corpora of the repository plus the hostile pools; the seeds also run as
// plain tests in every tier.
//
//	cd /verif/harness && go test ./c26 -run '^$' -fuzz '^FuzzTotalJSON$' -fuzztime 180s
//	cd /verif/harness && go test ./c26 -run '^$' -fuzz '^FuzzTotalText$' -fuzztime 180s

import (
	"fmt"
	"os"
	"path/filepath"
	"runtime/debug"
	"testing"

	"google.golang.org/protobuf/zverif/c21/jdoc"
	"google.golang.org/protobuf/zverif/pbt"
)

func repoDir() string {
	if d := os.Getenv("VERIF_REPO"); d != "" {
		return d
	}
	return "/repo"
}

var fuzzTargets = []string{"goproto.proto.test.TestAllTypes", "goproto.proto.test3.TestAllTypes", "goproto.proto.test.TestAllExtensions", "google.protobuf.Any", "google.protobuf.Value"}

func fuzzTotal(f *testing.F, format, corpusDir string, seeds []string) {
	files, _ := filepath.Glob(filepath.Join(repoDir(), corpusDir, "*"))
	for _, p := range files {
		if b, err := os.ReadFile(p); err == nil {
			f.Add(b)
		}
	}
	for _, s := range seeds {
		f.Add([]byte(s))
	}
	f.Fuzz(func(t *testing.T, in []byte) {
		if len(in) > 1<<16 {
			return
		}
		for _, typ := range fuzzTargets {
			for _, discard := range []bool{false, true} {
				for _, limit := range []int{0, 3} {
					c := totalCase{Format: format, Type: typ, Discard: discard, Partial: true, Limit: limit, Source: "fuzz", Input: in}
					func() {
						defer func() {
							if r := recover(); r != nil {
								err := fmt.Errorf("PANIC: %v\n%s", r, debug.Stack())
								pbt.ReportViolation(nil, "total-"+format, c, err)
								t.Fatal(err)
							}
						}()
						_ = checkTotal(c)
					}()
				}
			}
		}
	})
}

func FuzzTotalJSON(f *testing.F) {
	var seeds []string
	for _, k := range append(append([]string{}, jdoc.BadNumbers...), jdoc.BadStrings...) {
		seeds = append(seeds, `{"optional_int32":`+k+`,"zz":[`+k+`]}`, `{"optional_string":`+k)
	}
	fuzzTotal(f, "json", "internal/fuzz/jsonfuzz/corpus", seeds)
}

func FuzzTotalText(f *testing.F) {
	var seeds []string
	for _, k := range append(append(append([]string{}, textPools.Numbers...), textPools.Strings...), textPools.Structure...) {
		seeds = append(seeds, "optional_int32:"+k+" zz:["+k+"]", "optional_string:"+k)
	}
	fuzzTotal(f, "text", "internal/fuzz/textfuzz/corpus", seeds)
}
