package c16

import (
	"fmt"
	"sort"
	"testing"

	"google.golang.org/protobuf/proto"
	"google.golang.org/protobuf/zverif/corpus"
	"google.golang.org/protobuf/zverif/gen"
	"google.golang.org/protobuf/zverif/mcase"
	"google.golang.org/protobuf/zverif/model"
	"google.golang.org/protobuf/zverif/ops"
	"google.golang.org/protobuf/zverif/pbt"
	"pgregory.net/rapid"
)

// step kinds: package ops kinds (mutations), plus size | marshal | cachedmarshal (Size immediately
// followed by Marshal with UseCachedSize) | marshalappend | equal | clone
type step struct {
	ops.Op
	Det bool `json:"det,omitempty"`
}

type cacheCase struct {
	Type  string
	Start *model.Msg
	Steps []step
}

func checkCache(c cacheCase) error {
	md := mcase.Desc(c.Type)
	m := mcase.New(c.Type, false)
	if err := model.Apply(m, c.Start, nil); err != nil {
		return fmt.Errorf("harness: %v", err)
	}
	cur := c.Start.Clone()
	eq := model.EqualOpts{BitwiseFloats: true}
	verifyBytes := func(i int, what string, b []byte) error {
		m2 := mcase.New(c.Type, false)
		if err := (proto.UnmarshalOptions{AllowPartial: true}).Unmarshal(b, m2.Interface()); err != nil {
			return fmt.Errorf("step %d: %s output does not decode: %v (%x)", i, what, err, b)
		}
		if d := model.Diff(md, cur, model.Snapshot(m2), eq, nil); d != "" {
			return fmt.Errorf("step %d: %s output does not encode the current content: %s", i, what, d)
		}
		return nil
	}
	for i, st := range c.Steps {
		mo := proto.MarshalOptions{AllowPartial: true, Deterministic: st.Det}
		switch st.Kind {
		case "size":
			mo.Size(m.Interface())
		case "marshal":
			b, err := mo.Marshal(m.Interface())
			if err != nil {
				return fmt.Errorf("step %d: Marshal failed: %v", i, err)
			}
			if err := verifyBytes(i, "Marshal", b); err != nil {
				return err
			}
			if n := mo.Size(m.Interface()); n != len(b) {
				return fmt.Errorf("step %d: len(Marshal) = %d but fresh Size = %d", i, len(b), n)
			}
		case "cachedmarshal":
			n := mo.Size(m.Interface())
			mo.UseCachedSize = true
			b, err := mo.Marshal(m.Interface())
			if err != nil {
				return fmt.Errorf("step %d: Marshal(UseCachedSize) right after Size failed: %v", i, err)
			}
			if len(b) != n {
				return fmt.Errorf("step %d: Marshal(UseCachedSize) wrote %d bytes, Size said %d", i, len(b), n)
			}
			if err := verifyBytes(i, "Marshal(UseCachedSize)", b); err != nil {
				return err
			}
		case "marshalappend":
			prefix := []byte{0xde, 0xad}
			b, err := mo.MarshalAppend(append([]byte(nil), prefix...), m.Interface())
			if err != nil {
				return fmt.Errorf("step %d: MarshalAppend failed: %v", i, err)
			}
			if err := verifyBytes(i, "MarshalAppend", b[2:]); err != nil {
				return err
			}
		case "equal":
			cl := proto.Clone(m.Interface())
			if !proto.Equal(m.Interface(), cl) {
				return fmt.Errorf("step %d: message not Equal to its clone", i)
			}
		case "clone":
			cl := proto.Clone(m.Interface())
			b, err := mo.Marshal(cl)
			if err != nil {
				return fmt.Errorf("step %d: Marshal(clone) failed: %v", i, err)
			}
			if err := verifyBytes(i, "Marshal(Clone)", b); err != nil {
				return err
			}
		default:
			if err := ops.ApplyModel(md, cur, st.Op); err != nil {
				return err
			}
			if err := ops.ApplyMsg(m, st.Op); err != nil {
				return err
			}
		}
	}
	// final
	b, err := proto.MarshalOptions{AllowPartial: true}.Marshal(m.Interface())
	if err != nil {
		return fmt.Errorf("final Marshal failed: %v", err)
	}
	return verifyBytes(len(c.Steps), "final Marshal", b)
}

// nested types: message fields present, so that submessage size caches matter
var types = func() []string {
	var out []string
	for _, n := range corpus.Modern() {
		md := corpus.ByName(n).Descriptor()
		for i := 0; i < md.Fields().Len(); i++ {
			if md.Fields().Get(i).Message() != nil {
				out = append(out, n)
				break
			}
		}
	}
	return out
}()
var rich = func() []string {
	var out []string
	for _, n := range types {
		if corpus.ByName(n).Descriptor().Fields().Len() >= 20 {
			out = append(out, n)
		}
	}
	return out
}()

func TestSizeCache(t *testing.T) {
	mo := gen.DefaultMsgOpts
	mo.Depth = 4
	mo.Extensions = false
	pbt.Run(t, pbt.Prop[cacheCase]{
		Name: "sizecache",
		Rule: "generated (table-driven) messages with message fields; generated start content of depth <= 4; 3..30 steps: legal reflection mutations up to 4 levels deep (strings/bytes up to 140 bytes so submessage sizes cross the 127/128 boundary), Size, Marshal, Size+Marshal(UseCachedSize), MarshalAppend, Equal(clone), Marshal(Clone). non-trivial = a nested mutation happens after a Size/Marshal and before another Marshal",
		Draw: func(t *rapid.T) cacheCase {
			c := cacheCase{Type: gen.TypeName(types, rich).Draw(t, "type")}
			md := mcase.Desc(c.Type)
			c.Start = gen.DrawMessage(t, md, mo)
			cur := c.Start.Clone()
			n := rapid.IntRange(3, 30).Draw(t, "steps")
			for i := 0; i < n; i++ {
				k := rapid.IntRange(0, 11).Draw(t, "kind")
				switch {
				case k <= 5:
					op := ops.DrawOp(t, md, cur, ops.GenOpts{Msg: mo, MaxDepth: 4})
					if err := ops.ApplyModel(md, cur, op); err != nil {
						panic(err)
					}
					c.Steps = append(c.Steps, step{Op: op})
				default:
					kind := []string{"size", "marshal", "cachedmarshal", "marshalappend", "equal", "clone"}[k-6]
					c.Steps = append(c.Steps, step{Op: ops.Op{Kind: kind}, Det: rapid.Bool().Draw(t, "det")})
				}
			}
			return c
		},
		Check: checkCache,
		NonTrivial: func(c cacheCase) bool {
			cached, mutatedAfter := false, false
			for _, st := range c.Steps {
				switch st.Kind {
				case "size", "marshal", "cachedmarshal", "marshalappend", "clone":
					if mutatedAfter {
						return true
					}
					cached = true
				case "equal":
				default:
					if cached && len(st.Path) > 0 {
						mutatedAfter = true
					}
				}
			}
			return false
		},
		Classes: func(c cacheCase) []string {
			k := map[string]bool{}
			for _, st := range c.Steps {
				k[st.Kind] = true
				if len(st.Path) >= 2 {
					k["depth>=2"] = true
				}
			}
			var out []string
			for x := range k {
				out = append(out, x)
			}
			sort.Strings(out)
			return out
		},
		Quick: 5000, Thorough: 120000,
	})
}
